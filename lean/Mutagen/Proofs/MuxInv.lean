/-
The inductive invariant behind C24 (and C23): for every stream identifier `X`,
seen from its opener `o` and its acceptor `p`, with `wop` the messages about `X`
in flight from `o` to `p` and `wpo` those in flight back.
-/
import Mutagen.Proofs.MuxWire
namespace Mutagen.Model.Mux

/-- `X` is an outbound identifier `s` has allocated: exactly the negation of
the reader's "unused outbound stream identifier" test. -/
def Side.used (s : Side) (X : Nat) : Prop := X ≠ 0 ∧ (s.nextOut = 0 ∨ X < s.nextOut)

def swOf : Option Stream → Nat
  | some st => st.sendWindow
  | none => 0

def bufOf : Option Stream → Nat
  | some st => st.recvBuf.length
  | none => 0

def capOf : Option Stream → Nat
  | some st => st.recvCap
  | none => 0

def Side.pendOf (s : Side) (X : Nat) : Nat := (s.pendIncr X).getD 0

/-- Data of stream `X` flowing from `s` to `r` over `w`; credit flowing back
over `w'`. -/
structure Flow (s r : Side) (w w' : List Msg) (X : Nat) : Prop where
  /-- a close-write on the wire, pending or delivered comes from a sender that
  holds the handle and has closed it for writing -/
  cw_src_w : ∀ m ∈ w, m.isCWOf X = true →
      ∃ st, s.streams X = some st ∧ st.closedWrite = true ∧ st.established = true
  cw_src_p : s.pendCW X = true →
      ∃ st, s.streams X = some st ∧ st.closedWrite = true ∧ st.established = true
  cw_src_r : ∀ st', r.streams X = some st' → st'.remoteClosedWrite = true →
      ∃ st, s.streams X = some st ∧ st.closedWrite = true ∧ st.established = true
  cw_pend : s.pendCW X = true → (∀ m ∈ w, m.isCWOf X = false) ∧
      ∀ st, r.streams X = some st → st.remoteClosedWrite = false
  cw_once : NoAfter (Msg.isCWOf X) (Msg.isCWOf X) w
  /-- no data behind a close-write -/
  cw_data : NoAfter (Msg.isCWOf X) (Msg.isDataOf X) w
  rcw : ∀ st, r.streams X = some st → st.remoteClosedWrite = true →
      ∀ m ∈ w, m.isCWOf X = false ∧ m.isDataOf X = false
  close_pend : s.pendClose X = true → (∀ m ∈ w, m.isCloseOf X = false) ∧
      ∀ st, r.streams X = some st → st.remoteClosed = false
  /-- nothing behind a close -/
  close_last : NoAfter (Msg.isCloseOf X) (Msg.about X) w
  rc : ∀ st, r.streams X = some st → st.remoteClosed = true → ∀ m ∈ w, m.about X = false
  closed_clean : ∀ st, s.streams X = some st → st.closed = true →
      st.closedWrite = true ∧ s.pendIncr X = none ∧ s.pendCW X = false
  /-- every window increment, in flight or pending, is positive -/
  incr_pos : ∀ a, Msg.incr X a ∈ w' → 0 < a
  pend_pos : ∀ v, r.pendIncr X = some v → 0 < v
  data_nonempty : ∀ bs, Msg.data X bs ∈ w → bs ≠ []
  /-- window accounting: in-flight data + buffered + pending and in-flight
  increments + sender window never exceed the receive window -/
  window : dataBytes X w + bufOf (r.streams X) + r.pendOf X + incrSum X w' + swOf (s.streams X)
      ≤ capOf (r.streams X)

/-- Nothing exists for an identifier that was never allocated. -/
structure Unused (o p : Side) (wop wpo : List Msg) (X : Nat) : Prop where
  so : o.streams X = none
  sp : p.streams X = none
  wop : ∀ m ∈ wop, m.about X = false
  wpo : ∀ m ∈ wpo, m.about X = false
  oIncr : o.pendIncr X = none
  oCW : o.pendCW X = false
  oClose : o.pendClose X = false
  pIncr : p.pendIncr X = none
  pCW : p.pendCW X = false
  pClose : p.pendClose X = false
  backlog : X ∉ p.backlog

/-- The acceptor knows nothing of an identifier whose open has not arrived;
the open is in flight and is the first thing the acceptor will hear. -/
structure Unseen (o p : Side) (wop wpo : List Msg) (X : Nat) : Prop where
  sp : p.streams X = none
  wpo : ∀ m ∈ wpo, m.about X = false
  pIncr : p.pendIncr X = none
  pCW : p.pendCW X = false
  pClose : p.pendClose X = false
  backlog : X ∉ p.backlog
  first : FirstOK X (Msg.isOpenOf X) wop
  open_pending : ∀ so, o.streams X = some so → ∃ m ∈ wop, m.isOpenOf X = true
  o_flags : ∀ so, o.streams X = some so → so.remoteClosed = false ∧ so.remoteClosedWrite = false

/-- Without a stream object the acceptor only ever says "close". -/
structure PNone (o p : Side) (wop wpo : List Msg) (X : Nat) : Prop where
  wpo : ∀ m ∈ wpo, m.about X = true → m.isCloseOf X = true
  pIncr : p.pendIncr X = none
  pCW : p.pendCW X = false
  oBuf : bufOf (o.streams X) = 0
  oIncr : o.pendIncr X = none
  incr : incrSum X wop = 0
  oEst : ∀ st, o.streams X = some st → st.established = false ∧ st.remoteClosedWrite = false

/-- Before the accept arrives the opener has sent no data and nothing was credited. -/
structure OUnest (so : Stream) (p : Side) (wop wpo : List Msg) (X : Nat) : Prop where
  wop : ∀ m ∈ wop, m.isDataOf X = false
  sw : so.sendWindow = 0
  pBuf : bufOf (p.streams X) = 0
  pIncr : p.pendIncr X = none
  incr : incrSum X wpo = 0

structure PerId (o p : Side) (wop wpo : List Msg) (X : Nat) : Prop where
  flowOP : Flow o p wop wpo X
  flowPO : Flow p o wpo wop X
  unused : ¬ o.used X → Unused o p wop wpo X
  unseen : ¬ X ≤ p.largestIn → Unseen o p wop wpo X
  no_cross : (∀ m ∈ wpo, m.isOpenOf X = false) ∧ (∀ m ∈ wop, m.isAcceptOf X = false)
  open_o : ∀ m ∈ wop, m.isOpenOf X = true → ∃ so, o.streams X = some so
  close_src_o_w : ∀ m ∈ wop, m.isCloseOf X = true → ∃ st, o.streams X = some st ∧ st.closed = true
  close_src_o_p : o.pendClose X = true → ∃ st, o.streams X = some st ∧ st.closed = true
  close_src_o_r : ∀ st', p.streams X = some st' → st'.remoteClosed = true →
      ∃ st, o.streams X = some st ∧ st.closed = true
  close_src_p_w : ∀ m ∈ wpo, m.isCloseOf X = true →
      ∀ st, p.streams X = some st → st.closed = true
  close_src_p_p : p.pendClose X = true → ∀ st, p.streams X = some st → st.closed = true
  close_src_p_r : ∀ st', o.streams X = some st' → st'.remoteClosed = true →
      ∀ st, p.streams X = some st → st.closed = true
  p_none : p.streams X = none → PNone o p wop wpo X
  p_has_o : ∀ sp, p.streams X = some sp → ∃ so, o.streams X = some so
  est_o : ∀ so, o.streams X = some so → so.established = true →
      ∃ sp, p.streams X = some sp ∧ sp.established = true
  acc_sent : ∀ m ∈ wpo, m.isAcceptOf X = true → ∃ sp, p.streams X = some sp ∧ sp.established = true
  acc_once : NoAfter (Msg.isAcceptOf X) (Msg.isAcceptOf X) wpo
  est_o_noacc : ∀ so, o.streams X = some so → so.established = true → ∀ m ∈ wpo, m.isAcceptOf X = false
  o_unest : ∀ so, o.streams X = some so → so.established = false → OUnest so p wop wpo X
  /-- … and the first thing it hears is the accept or a close -/
  o_first : ∀ so, o.streams X = some so → so.registered = true → so.established = false →
      FirstOK X (fun m => m.isAcceptOf X || m.isCloseOf X) wpo
  p_unest : ∀ sp, p.streams X = some sp → sp.established = false →
      (∀ m ∈ wpo, m.about X = true → m.isCloseOf X = true) ∧
      (sp.closed = false → ∀ m ∈ wpo, m.about X = false)
  p_est : ∀ sp, p.streams X = some sp → sp.established = true →
      (∃ m ∈ wpo, m.isAcceptOf X = true) ∨
      ∀ so, o.streams X = some so → so.established = true ∨ so.registered = false
  backlog : X ∈ p.backlog → ∃ sp, p.streams X = some sp ∧ sp.established = false ∧
      sp.closed = false ∧ sp.registered = true
  acc_win : ∀ win, Msg.accept X win ∈ wpo → win ≤ capOf (p.streams X)
  open_win : ∀ win, Msg.open X win ∈ wop → win ≤ capOf (o.streams X)
  cap_o : ∀ st, o.streams X = some st → st.recvCap = o.window
  cap_p : ∀ st, p.streams X = some st → st.recvCap = p.window

/-! The structures as plain conjunctions (for automation). -/

theorem Flow_iff {s r : Side} {w w' : List Msg} {X : Nat} : Flow s r w w' X ↔
    ((∀ m ∈ w, m.isCWOf X = true →
      ∃ st, s.streams X = some st ∧ st.closedWrite = true ∧ st.established = true) ∧
    (s.pendCW X = true →
      ∃ st, s.streams X = some st ∧ st.closedWrite = true ∧ st.established = true) ∧
    (∀ st', r.streams X = some st' → st'.remoteClosedWrite = true →
      ∃ st, s.streams X = some st ∧ st.closedWrite = true ∧ st.established = true) ∧
    (s.pendCW X = true → (∀ m ∈ w, m.isCWOf X = false) ∧
      ∀ st, r.streams X = some st → st.remoteClosedWrite = false) ∧
    NoAfter (Msg.isCWOf X) (Msg.isCWOf X) w ∧
    NoAfter (Msg.isCWOf X) (Msg.isDataOf X) w ∧
    (∀ st, r.streams X = some st → st.remoteClosedWrite = true →
      ∀ m ∈ w, m.isCWOf X = false ∧ m.isDataOf X = false) ∧
    (s.pendClose X = true → (∀ m ∈ w, m.isCloseOf X = false) ∧
      ∀ st, r.streams X = some st → st.remoteClosed = false) ∧
    NoAfter (Msg.isCloseOf X) (Msg.about X) w ∧
    (∀ st, r.streams X = some st → st.remoteClosed = true → ∀ m ∈ w, m.about X = false) ∧
    (∀ st, s.streams X = some st → st.closed = true →
      st.closedWrite = true ∧ s.pendIncr X = none ∧ s.pendCW X = false) ∧
    (∀ a, Msg.incr X a ∈ w' → 0 < a) ∧
    (∀ v, r.pendIncr X = some v → 0 < v) ∧
    (∀ bs, Msg.data X bs ∈ w → bs ≠ []) ∧
    (dataBytes X w + bufOf (r.streams X) + r.pendOf X + incrSum X w' + swOf (s.streams X)
      ≤ capOf (r.streams X))) :=
  ⟨fun ⟨a1, a2, a3, a4, a5, a6, a7, a8, a9, a10, a11, a12, a13, a14, a15⟩ =>
    ⟨a1, a2, a3, a4, a5, a6, a7, a8, a9, a10, a11, a12, a13, a14, a15⟩,
   fun ⟨a1, a2, a3, a4, a5, a6, a7, a8, a9, a10, a11, a12, a13, a14, a15⟩ =>
    ⟨a1, a2, a3, a4, a5, a6, a7, a8, a9, a10, a11, a12, a13, a14, a15⟩⟩

theorem Unused_iff {o p : Side} {wop wpo : List Msg} {X : Nat} : Unused o p wop wpo X ↔
    (o.streams X = none ∧ p.streams X = none ∧ (∀ m ∈ wop, m.about X = false) ∧
     (∀ m ∈ wpo, m.about X = false) ∧ o.pendIncr X = none ∧ o.pendCW X = false ∧
     o.pendClose X = false ∧ p.pendIncr X = none ∧ p.pendCW X = false ∧ p.pendClose X = false ∧
     X ∉ p.backlog) :=
  ⟨fun ⟨a1, a2, a3, a4, a5, a6, a7, a8, a9, a10, a11⟩ => ⟨a1, a2, a3, a4, a5, a6, a7, a8, a9, a10, a11⟩,
   fun ⟨a1, a2, a3, a4, a5, a6, a7, a8, a9, a10, a11⟩ => ⟨a1, a2, a3, a4, a5, a6, a7, a8, a9, a10, a11⟩⟩

theorem Unseen_iff {o p : Side} {wop wpo : List Msg} {X : Nat} : Unseen o p wop wpo X ↔
    (p.streams X = none ∧ (∀ m ∈ wpo, m.about X = false) ∧ p.pendIncr X = none ∧
     p.pendCW X = false ∧ p.pendClose X = false ∧ X ∉ p.backlog ∧
     FirstOK X (Msg.isOpenOf X) wop ∧
     (∀ so, o.streams X = some so → ∃ m ∈ wop, m.isOpenOf X = true) ∧
     (∀ so, o.streams X = some so → so.remoteClosed = false ∧ so.remoteClosedWrite = false)) :=
  ⟨fun ⟨a1, a2, a3, a4, a5, a6, a7, a8, a9⟩ => ⟨a1, a2, a3, a4, a5, a6, a7, a8, a9⟩,
   fun ⟨a1, a2, a3, a4, a5, a6, a7, a8, a9⟩ => ⟨a1, a2, a3, a4, a5, a6, a7, a8, a9⟩⟩

theorem PNone_iff {o p : Side} {wop wpo : List Msg} {X : Nat} : PNone o p wop wpo X ↔
    ((∀ m ∈ wpo, m.about X = true → m.isCloseOf X = true) ∧ p.pendIncr X = none ∧
     p.pendCW X = false ∧ bufOf (o.streams X) = 0 ∧ o.pendIncr X = none ∧ incrSum X wop = 0 ∧
     (∀ st, o.streams X = some st → st.established = false ∧ st.remoteClosedWrite = false)) :=
  ⟨fun ⟨a1, a2, a3, a4, a5, a6, a7⟩ => ⟨a1, a2, a3, a4, a5, a6, a7⟩,
   fun ⟨a1, a2, a3, a4, a5, a6, a7⟩ => ⟨a1, a2, a3, a4, a5, a6, a7⟩⟩

theorem OUnest_iff {so : Stream} {p : Side} {wop wpo : List Msg} {X : Nat} : OUnest so p wop wpo X ↔
    ((∀ m ∈ wop, m.isDataOf X = false) ∧ so.sendWindow = 0 ∧ bufOf (p.streams X) = 0 ∧
     p.pendIncr X = none ∧ incrSum X wpo = 0) :=
  ⟨fun ⟨a1, a2, a3, a4, a5⟩ => ⟨a1, a2, a3, a4, a5⟩, fun ⟨a1, a2, a3, a4, a5⟩ => ⟨a1, a2, a3, a4, a5⟩⟩

theorem PerId_iff {o p : Side} {wop wpo : List Msg} {X : Nat} : PerId o p wop wpo X ↔
    (Flow o p wop wpo X ∧ Flow p o wpo wop X ∧
    (¬ o.used X → Unused o p wop wpo X) ∧
    (¬ X ≤ p.largestIn → Unseen o p wop wpo X) ∧
    ((∀ m ∈ wpo, m.isOpenOf X = false) ∧ (∀ m ∈ wop, m.isAcceptOf X = false)) ∧
    (∀ m ∈ wop, m.isOpenOf X = true → ∃ so, o.streams X = some so) ∧
    (∀ m ∈ wop, m.isCloseOf X = true → ∃ st, o.streams X = some st ∧ st.closed = true) ∧
    (o.pendClose X = true → ∃ st, o.streams X = some st ∧ st.closed = true) ∧
    (∀ st', p.streams X = some st' → st'.remoteClosed = true →
      ∃ st, o.streams X = some st ∧ st.closed = true) ∧
    (∀ m ∈ wpo, m.isCloseOf X = true → ∀ st, p.streams X = some st → st.closed = true) ∧
    (p.pendClose X = true → ∀ st, p.streams X = some st → st.closed = true) ∧
    (∀ st', o.streams X = some st' → st'.remoteClosed = true →
      ∀ st, p.streams X = some st → st.closed = true) ∧
    (p.streams X = none → PNone o p wop wpo X) ∧
    (∀ sp, p.streams X = some sp → ∃ so, o.streams X = some so) ∧
    (∀ so, o.streams X = some so → so.established = true →
      ∃ sp, p.streams X = some sp ∧ sp.established = true) ∧
    (∀ m ∈ wpo, m.isAcceptOf X = true → ∃ sp, p.streams X = some sp ∧ sp.established = true) ∧
    NoAfter (Msg.isAcceptOf X) (Msg.isAcceptOf X) wpo ∧
    (∀ so, o.streams X = some so → so.established = true → ∀ m ∈ wpo, m.isAcceptOf X = false) ∧
    (∀ so, o.streams X = some so → so.established = false → OUnest so p wop wpo X) ∧
    (∀ so, o.streams X = some so → so.registered = true → so.established = false →
      FirstOK X (fun m => m.isAcceptOf X || m.isCloseOf X) wpo) ∧
    (∀ sp, p.streams X = some sp → sp.established = false →
      (∀ m ∈ wpo, m.about X = true → m.isCloseOf X = true) ∧
      (sp.closed = false → ∀ m ∈ wpo, m.about X = false)) ∧
    (∀ sp, p.streams X = some sp → sp.established = true →
      (∃ m ∈ wpo, m.isAcceptOf X = true) ∨
      ∀ so, o.streams X = some so → so.established = true ∨ so.registered = false) ∧
    (X ∈ p.backlog → ∃ sp, p.streams X = some sp ∧ sp.established = false ∧
      sp.closed = false ∧ sp.registered = true) ∧
    (∀ win, Msg.accept X win ∈ wpo → win ≤ capOf (p.streams X)) ∧
    (∀ win, Msg.open X win ∈ wop → win ≤ capOf (o.streams X)) ∧
    (∀ st, o.streams X = some st → st.recvCap = o.window) ∧
    (∀ st, p.streams X = some st → st.recvCap = p.window)) :=
  ⟨fun ⟨a1, a2, a3, a4, a5, a6, a7, a8, a9, a10, a11, a12, a13, a14, a15, a16, a17, a18, a19, a20, a21, a22, a23, a24, a25, a26, a27⟩ =>
    ⟨a1, a2, a3, a4, a5, a6, a7, a8, a9, a10, a11, a12, a13, a14, a15, a16, a17, a18, a19, a20, a21, a22, a23, a24, a25, a26, a27⟩,
   fun ⟨a1, a2, a3, a4, a5, a6, a7, a8, a9, a10, a11, a12, a13, a14, a15, a16, a17, a18, a19, a20, a21, a22, a23, a24, a25, a26, a27⟩ =>
    ⟨a1, a2, a3, a4, a5, a6, a7, a8, a9, a10, a11, a12, a13, a14, a15, a16, a17, a18, a19, a20, a21, a22, a23, a24, a25, a26, a27⟩⟩

/-- Facts about one direction that are not per identifier. -/
structure Dir (o p : Side) (wop : List Msg) : Prop where
  opens_sorted : OpensOK p.largestIn wop
  opens_used : ∀ id win, Msg.open id win ∈ wop → o.used id ∧ o.isOutbound id = true
  largest_lt : o.nextOut ≠ 0 → p.largestIn < o.nextOut
  next_out : o.nextOut ≠ 0 → o.isOutbound o.nextOut = true
  nodup : p.backlog.Nodup
  no_hb : Msg.heartbeat ∉ wop
  window_le : o.window ≤ maxU64

/-- The messages about `X` on a wire, in order. -/
def onlyAbout (X : Nat) (w : List Msg) : List Msg := w.filter (Msg.about X)

/-- The invariant. -/
structure Inv (n : Net) : Prop where
  even_a : n.a.even = false
  even_b : n.b.even = true
  dir_ab : Dir n.a n.b n.ab
  dir_ba : Dir n.b n.a n.ba
  per_a : ∀ X, n.a.isOutbound X = true → PerId n.a n.b (onlyAbout X n.ab) (onlyAbout X n.ba) X
  per_b : ∀ X, n.b.isOutbound X = true → PerId n.b n.a (onlyAbout X n.ba) (onlyAbout X n.ab) X

end Mutagen.Model.Mux
