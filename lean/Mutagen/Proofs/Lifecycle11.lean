import Mutagen.Proofs.Lifecycle9
/-!
Lifecycle model: the ghost bookkeeping of a flush call is sound with respect to
the event history (the trace of the run).
-/
namespace Mutagen.Proofs.Lifecycle
open Mutagen.Model.Lifecycle

/-- The label is the start of a full scan on `sd`. -/
def isFullScanStart (sd : Side) : Label → Bool
  | .ep (.scanS s true _) => s == sd
  | _ => false

/-- The label is the successful end of a scan on `sd`. -/
def isScanOk (sd : Side) : Label → Bool
  | .ep (.scanE s true) => s == sd
  | _ => false

/-- How a call's ghost fields can change in one step labelled `lab`: a `full`
field rises only at the start of a full scan of that side, an `ok` field only at
the successful end of a scan of that side, and then only if the `full` field
was already set. -/
def Rel (lab : Label) (y x : Thread) : Prop :=
  y.id = x.id ∧ y.op = x.op ∧
  (x.fullA = true → y.fullA = true ∨ isFullScanStart .alpha lab = true) ∧
  (x.fullB = true → y.fullB = true ∨ isFullScanStart .beta lab = true) ∧
  (x.okA = true → y.okA = true ∨ (isScanOk .alpha lab = true ∧ y.fullA = true)) ∧
  (x.okB = true → y.okB = true ∨ (isScanOk .beta lab = true ∧ y.fullB = true))

theorem Rel.refl (lab : Label) (y : Thread) : Rel lab y y :=
  ⟨rfl, rfl, fun h => Or.inl h, fun h => Or.inl h, fun h => Or.inl h, fun h => Or.inl h⟩

/-- Position-wise relation of two lists. -/
def AllRel {α : Type} (R : α → α → Prop) : List α → List α → Prop
  | [], [] => True
  | a :: l, b :: l' => R a b ∧ AllRel R l l'
  | _, _ => False

theorem allRel_map_right {α : Type} (R : α → α → Prop) (f : α → α) (l : List α) :
    AllRel R l (l.map f) ↔ ∀ y ∈ l, R y (f y) := by
  induction l with
  | nil => simp [AllRel]
  | cons a l ih => simp [AllRel, ih]

theorem allRel_self {α : Type} (R : α → α → Prop) (l : List α) :
    AllRel R l l ↔ ∀ y ∈ l, R y y := by
  have := allRel_map_right R id l
  simpa using this

theorem allRel_mem_right {α : Type} {R : α → α → Prop} {l l' : List α} (h : AllRel R l l')
    {x : α} (hx : x ∈ l') : ∃ y ∈ l, R y x := by
  induction l generalizing l' with
  | nil =>
    cases l' with
    | nil => simp at hx
    | cons b l' => simp [AllRel] at h
  | cons a l ih =>
    cases l' with
    | nil => simp at hx
    | cons b l' =>
      simp only [AllRel] at h
      rcases List.mem_cons.mp hx with rfl | hx
      · exact ⟨a, List.mem_cons_self, h.1⟩
      · obtain ⟨y, hy, hr⟩ := ih h.2 hx
        exact ⟨y, List.mem_cons_of_mem _ hy, hr⟩

set_option maxHeartbeats 64000000 in
set_option maxRecDepth 10000 in
/-- Every step of the run loop changes the calls' ghost fields only as `Rel` allows. -/
theorem loopSteps_rel {s : State} {l : Loop} {lab : Label} {s' : State} (h : (lab, s') ∈ loopSteps s l) :
    AllRel (Rel lab) s.threads s'.threads := by
  unfold loopSteps at h
  split at h
  all_goals
    simp only [List.mem_append, List.mem_cons, List.mem_flatMap, List.not_mem_nil, or_false,
      bothSides, List.mem_ite_nil_right, Prod.mk.injEq] at h
  all_goals
    aesop (add norm simp [State.updThread, State.noteScan, allRel_map_right, allRel_self, Rel,
      isFullScanStart, isScanOk])

/-! ## The history of a call -/

/-- `post` contains the start of a full scan on `sd`. -/
def HasStart (sd : Side) (post : List Label) : Prop :=
  ∃ l1 a l2, post = l1 ++ a :: l2 ∧ isFullScanStart sd a = true

/-- `post` contains the start of a full scan on `sd` and, later, the successful
end of a scan on `sd`. -/
def HasScan (sd : Side) (post : List Label) : Prop :=
  ∃ l1 a l2 b l3, post = l1 ++ a :: (l2 ++ b :: l3) ∧ isFullScanStart sd a = true ∧ isScanOk sd b = true

theorem HasStart.snoc {sd : Side} {post : List Label} (h : HasStart sd post) (l : Label) :
    HasStart sd (post ++ [l]) := by
  obtain ⟨l1, a, l2, e, ha⟩ := h
  exact ⟨l1, a, l2 ++ [l], by simp [e], ha⟩

theorem HasScan.snoc {sd : Side} {post : List Label} (h : HasScan sd post) (l : Label) :
    HasScan sd (post ++ [l]) := by
  obtain ⟨l1, a, l2, b, l3, e, ha, hb⟩ := h
  exact ⟨l1, a, l2, b, l3 ++ [l], by simp [e], ha, hb⟩

theorem HasStart.last {sd : Side} (post : List Label) {l : Label} (h : isFullScanStart sd l = true) :
    HasStart sd (post ++ [l]) := ⟨post, l, [], rfl, h⟩

theorem HasScan.last {sd : Side} {post : List Label} (h : HasStart sd post) {l : Label}
    (hl : isScanOk sd l = true) : HasScan sd (post ++ [l]) := by
  obtain ⟨l1, a, l2, e, ha⟩ := h
  exact ⟨l1, a, l2, l, [], by simp [e], ha, hl⟩

/-- What the trace says about one call: it was issued, and since then the
events that its ghost fields record have happened. -/
def HistOf (tr : List Label) (x : Thread) : Prop :=
  ∃ pre post, tr = pre ++ Label.call x.id x.op :: post ∧
    (x.fullA = true → HasStart .alpha post) ∧ (x.fullB = true → HasStart .beta post) ∧
    (x.okA = true → HasScan .alpha post) ∧ (x.okB = true → HasScan .beta post)

theorem HistOf.extend {tr : List Label} {y x : Thread} {lab : Label} (h : HistOf tr y) (r : Rel lab y x) :
    HistOf (tr ++ [lab]) x := by
  obtain ⟨pre, post, e, h1, h2, h3, h4⟩ := h
  obtain ⟨r1, r2, r3, r4, r5, r6⟩ := r
  refine ⟨pre, post ++ [lab], by rw [e, ← r1, ← r2]; simp, ?_, ?_, ?_, ?_⟩
  · intro hx
    rcases r3 hx with hy | hl
    · exact (h1 hy).snoc lab
    · exact HasStart.last post hl
  · intro hx
    rcases r4 hx with hy | hl
    · exact (h2 hy).snoc lab
    · exact HasStart.last post hl
  · intro hx
    rcases r5 hx with hy | ⟨hl, hy⟩
    · exact (h3 hy).snoc lab
    · exact HasScan.last (h1 hy) hl
  · intro hx
    rcases r6 hx with hy | ⟨hl, hy⟩
    · exact (h4 hy).snoc lab
    · exact HasScan.last (h2 hy) hl

theorem Rel.of_sameGhost (lab : Label) {x th : Thread} (g : SameGhost x th) : Rel lab th x := by
  obtain ⟨g1, g2, _, g4, g5, g6, g7⟩ := g
  exact ⟨g1.symm, g2.symm, fun h => Or.inl (by rw [← g4]; exact h), fun h => Or.inl (by rw [← g5]; exact h),
    fun h => Or.inl (by rw [← g6]; exact h), fun h => Or.inl (by rw [← g7]; exact h)⟩

/-- The history invariant: every call in flight has its history in the trace. -/
theorem hist_run {w : Bool} {tr : List Label} {s : State} (r : Run (init w) tr s) :
    ∀ x ∈ s.threads, HistOf tr x := by
  induction r with
  | nil => intro x hx; simp [init] at hx
  | @snoc tr s' l s'' _ st ih =>
    intro x hx
    cases st with
    | call h =>
      rename_i t op
      unfold doCall at h
      split at h
      · simp at h
      · simp only [Option.some.injEq] at h
        subst h
        simp only [List.mem_append, List.mem_singleton] at hx
        rcases hx with hx | hx
        · exact (ih x hx).extend (Rel.refl _ x)
        · subst hx
          exact ⟨tr, [], by simp [mkThread], by simp [mkThread], by simp [mkThread], by simp [mkThread],
            by simp [mkThread]⟩
    | internal h =>
      unfold succ at h
      rcases List.mem_append.mp h with h | h
      · cases hl : s'.loop with
        | none => simp [hl] at h
        | some lp =>
          simp only [hl] at h
          obtain ⟨y, hy, hr⟩ := allRel_mem_right (loopSteps_rel h) hx
          exact (ih y hy).extend hr
      · obtain ⟨th, hth, h⟩ := List.mem_flatMap.mp h
        rcases threadSteps_ghost h x hx with hold | hnew
        · exact (ih x hold).extend (Rel.refl _ x)
        · exact (ih th hth).extend (Rel.of_sameGhost _ hnew)

theorem isFullScanStart_elim {sd : Side} {l : Label} (h : isFullScanStart sd l = true) :
    ∃ a, l = .ep (.scanS sd true a) := by
  unfold isFullScanStart at h
  split at h
  · rename_i s a
    simp at h
    exact ⟨a, by rw [h]⟩
  · simp at h

theorem isScanOk_elim {sd : Side} {l : Label} (h : isScanOk sd l = true) : l = .ep (.scanE sd true) := by
  unfold isScanOk at h
  split at h
  · simp at h
    rw [h]
  · simp at h

end Mutagen.Proofs.Lifecycle
