/-
C23: the byte streams. Ghost histories `sent` (every byte `Write` has put on the
wire) and `got` (every byte `Read` has returned) relate through the receive
buffer and the data in flight.
-/
import Mutagen.Proofs.MuxNet
namespace Mutagen.Model.Mux

/-- Payload of the data messages of stream `X` on a wire, in order. -/
def dataCat (X : Nat) : List Msg → List UInt8
  | [] => []
  | .data id bs :: w => (if id = X then bs else []) ++ dataCat X w
  | _ :: w => dataCat X w

theorem dataCat_append (X : Nat) (w v : List Msg) : dataCat X (w ++ v) = dataCat X w ++ dataCat X v := by
  induction w with
  | nil => simp [dataCat]
  | cons m w ih => cases m <;> simp [dataCat, ih]

theorem dataCat_nil_of_about {X : Nat} {w : List Msg} (h : ∀ m ∈ w, m.about X = false) : dataCat X w = [] := by
  induction w with
  | nil => rfl
  | cons m w ih =>
    have hm := h m List.mem_cons_self
    have ih' := ih fun m' hm' => h m' (List.mem_cons_of_mem _ hm')
    cases m <;> simp_all [dataCat, Msg.about, Msg.id]

/-- The byte-relevant part of a stream object. -/
structure BView where
  sent : List UInt8
  got : List UInt8
  recvBuf : List UInt8
  registered : Bool
  established : Bool
  closed : Bool
  deriving DecidableEq

def Stream.bview (st : Stream) : BView :=
  ⟨st.sent, st.got, st.recvBuf, st.registered, st.established, st.closed⟩

def Side.bviewAt (s : Side) (X : Nat) : Option BView := (s.streams X).map Stream.bview

/-- What one step of a side does to the bytes of stream `X`. -/
inductive BStep (s s' : Side) (ms : List Msg) (X : Nat) : Prop
  /-- nothing -/
  | same (h : s'.bviewAt X = s.bviewAt X) (hm : dataCat X ms = [])
  /-- `Write` emitted `bs` -/
  | write (st : Stream) (bs : List UInt8) (hs : s.streams X = some st) (he : st.established = true)
      (h : s'.bviewAt X = some ⟨st.sent ++ bs, st.got, st.recvBuf, st.registered, true, st.closed⟩) (hm : dataCat X ms = bs)
  /-- `Read` returned the first `k` buffered bytes -/
  | read (st : Stream) (k : Nat) (hs : s.streams X = some st) (hc : st.closed = false)
      (he : st.established = true)
      (h : s'.bviewAt X = some ⟨st.sent, st.got ++ st.recvBuf.take k, st.recvBuf.drop k, st.registered, true, false⟩)
      (hm : dataCat X ms = [])
  /-- deregistration of a closed stream -/
  | dereg (st : Stream) (hs : s.streams X = some st)
      (h : s'.bviewAt X = some ⟨st.sent, st.got, st.recvBuf, false, st.established, true⟩) (hm : dataCat X ms = [])
  /-- `close` up to the enqueueing of the close message -/
  | closing (st : Stream) (hs : s.streams X = some st)
      (h : s'.bviewAt X = some ⟨st.sent, st.got, st.recvBuf, st.registered, st.established, true⟩)
      (hm : dataCat X ms = [])
  /-- a fresh stream object (`OpenStream`) -/
  | fresh (hs : s.streams X = none) (hx : X = s.nextOut) (hn : s.nextOut ≠ 0)
      (h : s'.bviewAt X = some ⟨[], [], [], true, false, false⟩) (hm : dataCat X ms = [])
  /-- `AcceptStream` establishes the stream -/
  | est (st : Stream) (hs : s.streams X = some st)
      (h : s'.bviewAt X = some ⟨st.sent, st.got, st.recvBuf, st.registered, true, st.closed⟩) (hm : dataCat X ms = [])

theorem bview_of_atEq {s s' : Side} {X : Nat} {st' : Stream} {pi pcw pcl}
    (e : AtEq s' X (some st') pi pcw pcl s) : s'.bviewAt X = some st'.bview := by
  simp [Side.bviewAt, e.streams]

theorem bview_of_same {s s' : Side} {X : Nat} (h : Same s s' X) : s'.bviewAt X = s.bviewAt X := by
  simp [Side.bviewAt, h.streams]

theorem dataCat_nil_of_other {X : Nat} {ms : List Msg} (h : ∀ m ∈ ms, m.about X = false) :
    dataCat X ms = [] := dataCat_nil_of_about h


/-- Closing (`close id true`) only touches the registration among the byte fields. -/
theorem close_bview (s : Side) (X : Nat) (st : Stream) (hs : s.streams X = some st) (hm : s.closedMux = false) :
    (s.close X true).bviewAt X = s.bviewAt X ∨
    (s.close X true).bviewAt X = some ⟨st.sent, st.got, st.recvBuf, false, st.established, true⟩ := by
  unfold Side.close
  simp only [hs]
  by_cases hcl : st.closed = true
  · left; simp [hcl]
  · right
    simp only [hcl, Bool.false_eq_true, ↓reduceIte]
    have hcl' : st.closed = false := by simpa using hcl
    have e1 := closeBegin_atEq s X st hs hcl' hm
    have e2 := deregister_atEq (s.closeBegin X true) X _ e1.streams
    rw [bview_of_atEq e2]
    rfl

/-- Effect of a local action on the bytes of stream `X`. -/
theorem act_bstep (s : Side) (a : SAct) (X : Nat) (hc : s.closedMux = false)
    (hfree : s.nextOut ≠ 0 → s.streams s.nextOut = none) :
    BStep s (s.act a).1 (s.act a).2 X := by
  have hsame0 : BStep s s [] X := .same rfl rfl
  cases a with
  | openStream =>
    simp only [Side.act]
    by_cases hn : s.nextOut = 0
    · have : s.openStream = (s, [], .exhausted) := by simp [Side.openStream, hc, hn]
      rw [this]; exact hsame0
    · by_cases hx : X = s.nextOut
      · have hs : s.streams X = none := by rw [hx]; exact hfree hn
        refine .fresh hs hx hn ?_ ?_
        · simp [Side.openStream, hc, hn, Side.bviewAt, Side.setStream, hx, Side.newStream, Stream.bview]
        · simp [Side.openStream, hc, hn, dataCat]
      · exact .same (bview_of_same (openStream_same s hx)) (dataCat_nil_of_other (openStream_msgs s hx))
  | openWait Y c =>
    simp only [Side.act]
    split
    · by_cases hx : X = Y
      · subst hx
        rcases openWait_at s X c with he | ⟨st, hs, _, he⟩
        · rw [he]; exact hsame0
        · rw [he]
          rcases close_bview s X st hs hc with h | h
          · exact .same h rfl
          · exact .dereg st hs h rfl
      · exact .same (bview_of_same (openWait_same s c hx)) rfl
    · exact hsame0
  | accept g =>
    simp only [Side.act]
    cases hb : s.backlog with
    | nil =>
      have : s.acceptOne g false = (s, [], .block) := by simp [Side.acceptOne, hb, hc]
      rw [this]; exact hsame0
    | cons Y rest =>
      by_cases hx : X = Y
      · subst hx
        cases hs : s.streams X with
        | none =>
          have : s.acceptOne g false = ({ s with backlog := rest }, [], .block) := by
            simp [Side.acceptOne, hb, hs]
          rw [this]; exact .same (by simp [Side.bviewAt]) rfl
        | some st =>
          by_cases hst : (st.remoteClosed = true ∧ g = true)
          · have : s.acceptOne g false = (({ s with backlog := rest }).close X true, [], .stale X) := by
              simp [Side.acceptOne, hb, hs, hst.1, hst.2]
            rw [this]
            rcases close_bview ({ s with backlog := rest }) X st hs hc with h | h
            · exact .same (by simpa [Side.bviewAt] using h) rfl
            · exact .dereg st hs h rfl
          · have : s.acceptOne g false =
                (({ s with backlog := rest }).setStream X { st with established := true },
                 [.accept X s.window], .ok X) := by
              simp only [Side.acceptOne, hb, hs]
              simp only [hst, ↓reduceIte]
            rw [this]
            exact .est st hs (by simp [Side.bviewAt, Side.setStream, Stream.bview]) (by simp [dataCat])
      · have hbl' : ∀ r, s.backlog ≠ X :: r := by
          intro r he; rw [hb] at he; cases he; exact hx rfl
        exact .same (bview_of_same (acceptOne_same s g hbl')) (dataCat_nil_of_other (acceptOne_msgs s g hbl'))
  | acceptAbort =>
    simp only [Side.act]
    cases hb : s.backlog with
    | nil =>
      have : s.acceptAbort = s := by simp [Side.acceptAbort, hb]
      rw [this]; exact hsame0
    | cons Y rest =>
      by_cases hx : X = Y
      · subst hx
        have : s.acceptAbort = ({ s with backlog := rest }).close X true := by
          simp [Side.acceptAbort, hb]
        rw [this]
        cases hs : s.streams X with
        | none => exact .same (by simp [Side.bviewAt, Side.close, hs]) rfl
        | some st =>
          rcases close_bview ({ s with backlog := rest }) X st hs hc with h | h
          · exact .same (by simpa [Side.bviewAt] using h) rfl
          · exact .dereg st hs h rfl
      · have hbl' : ∀ r, s.backlog ≠ X :: r := by
          intro r he; rw [hb] at he; cases he; exact hx rfl
        exact .same (bview_of_same (acceptAbort_same s hbl')) rfl
  | read Y k now =>
    simp only [Side.act]
    split
    · rename_i hh
      obtain ⟨st, hs, he⟩ := (hasHandle_iff s Y).mp hh
      by_cases hx : X = Y
      · subst hx
        -- unfold `read` once more to see the exact bytes
        by_cases h1 : st.closed = true
        · have : (s.read X k now).1 = s := by simp [Side.read, hs, h1]
          rw [this]; exact hsame0
        · by_cases h2 : s.closedMux = true
          · simp [hc] at h2
          · by_cases h3 : st.readExpired = true
            · have : (s.read X k now).1 = s := by simp [Side.read, hs, h1, hc, h3]
              rw [this]; exact hsame0
            · by_cases h4 : (st.readTimer.any fun x => decide (x ≤ now)) = true
              · refine .same ?_ rfl
                simp [Side.read, hs, h1, hc, h3, h4, Side.bviewAt, Side.setStream, Stream.bview]
              · by_cases h5 : st.recvBuf = []
                · have : (s.read X k now).1 = s := by
                    simp only [Side.read, hs, h1, hc, h3, h4, h5]
                    simp only [Bool.false_eq_true, ↓reduceIte, ne_eq, not_true_eq_false]
                    split <;> rfl
                  rw [this]; exact hsame0
                · refine .read st k hs (by simpa using h1) he ?_ rfl
                  simp only [Side.read, hs, h1, hc, h3, h4]
                  simp only [Bool.false_eq_true, ↓reduceIte, ne_eq, h5, not_false_eq_true]
                  split <;> simp [Side.bviewAt, Side.setStream, Side.enqIncr, hc, Stream.bview, he, h1]
      · exact .same (bview_of_same (read_same s k now hx)) rfl
    · exact hsame0
  | writeChunk Y data =>
    simp only [Side.act]
    split
    · rename_i hh
      obtain ⟨hh1, _⟩ := hh
      obtain ⟨st, hs, he⟩ := (hasHandle_iff s Y).mp hh1
      by_cases hx : X = Y
      · subst hx
        rcases writeChunk_at s X data st hs with ⟨he', hm⟩ | ⟨bs, _, _, hm, e⟩
        · rw [he', hm]; exact hsame0
        · refine .write st bs hs he ?_ ?_
          · rw [bview_of_atEq e]; simp [Stream.bview, he]
          · rw [hm]; simp [dataCat]
      · exact .same (bview_of_same (writeChunk_same s data hx)) (dataCat_nil_of_other (writeChunk_msgs s data hx))
    · exact hsame0
  | closeWrite Y =>
    simp only [Side.act]
    split
    · rename_i hh
      obtain ⟨st, hs, he⟩ := (hasHandle_iff s Y).mp hh
      by_cases hx : X = Y
      · subst hx
        by_cases hcw : st.closedWrite = true
        · have : s.closeWrite X true = s := by simp [Side.closeWrite, hs, hcw]
          rw [this]; exact hsame0
        · have hcw' : st.closedWrite = false := by simpa using hcw
          refine .same ?_ rfl
          rw [bview_of_atEq (closeWrite_atEq s X st hs hcw' hc)]
          simp [Side.bviewAt, hs, Stream.bview]
      · exact .same (bview_of_same (closeWrite_same s true hx)) rfl
    · exact hsame0
  | closeBegin Y =>
    simp only [Side.act]
    split
    · rename_i hh
      obtain ⟨st, hs, he⟩ := (hasHandle_iff s Y).mp hh
      by_cases hx : X = Y
      · subst hx
        by_cases hcl : st.closed = true
        · by_cases hcw : st.closedWrite = true
          · rw [closeBegin_of_closed s X true st hs hcl hcw]; exact hsame0
          · refine .same ?_ rfl
            have hcw' : st.closedWrite = false := by simpa using hcw
            simp [Side.closeBegin, Side.closeWrite, hs, hcl, hcw', Side.markClosedWrite, Side.setStream,
              Side.bviewAt, Stream.bview]
        · have hcl' : st.closed = false := by simpa using hcl
          refine .closing st hs ?_ rfl
          rw [bview_of_atEq (closeBegin_atEq s X st hs hcl' hc)]
          simp [Stream.bview]
      · exact .same (bview_of_same (closeBegin_same s true hx)) rfl
    · exact hsame0
  | deregister Y =>
    simp only [Side.act]
    split
    · rename_i hh
      by_cases hx : X = Y
      · subst hx
        cases hs : s.streams X with
        | none => simp [Side.flagOf, hs] at hh
        | some st =>
          have hcl : st.closed = true := by simpa [Side.flagOf, hs] using hh
          refine .dereg st hs ?_ rfl
          rw [bview_of_atEq (deregister_atEq s X st hs)]; simp [Stream.bview, hcl]
      · exact .same (bview_of_same (deregister_same s hx)) rfl
    · exact hsame0
  | flushIncr Y =>
    simp only [Side.act]
    by_cases hx : X = Y
    · subst hx
      rcases flushIncr_at s X with he | ⟨v, _, hm, e⟩
      · rw [he]; exact hsame0
      · exact .same (by simp [Side.bviewAt, e.streams]) (by rw [hm]; simp [dataCat])
    · exact .same (bview_of_same (flushIncr_same s hx)) (dataCat_nil_of_other (flush_msgs s hx).1)
  | flushCW Y =>
    simp only [Side.act]
    by_cases hx : X = Y
    · subst hx
      rcases flushCW_at s X with he | ⟨_, hm, e⟩
      · rw [he]; exact hsame0
      · exact .same (by simp [Side.bviewAt, e.streams]) (by rw [hm]; simp [dataCat])
    · exact .same (bview_of_same (flushCW_same s hx)) (dataCat_nil_of_other (flush_msgs s hx).2.1)
  | flushClose Y =>
    simp only [Side.act]
    by_cases hx : X = Y
    · subst hx
      rcases flushClose_at s X with he | ⟨_, hm, e⟩
      · rw [he]; exact hsame0
      · exact .same (by simp [Side.bviewAt, e.streams]) (by rw [hm]; simp [dataCat])
    · exact .same (bview_of_same (flushClose_same s hx)) (dataCat_nil_of_other (flush_msgs s hx).2.2)
  | setReadDeadline Y d =>
    simp only [Side.act]
    split
    · by_cases hx : X = Y
      · subst hx
        refine .same ?_ rfl
        unfold Side.setReadDeadline
        cases hs : s.streams X with
        | none => rfl
        | some st =>
          simp only
          split
          · rfl
          · cases d <;> simp [Side.bviewAt, Side.setStream, hs, Stream.bview]
      · exact .same (bview_of_same (setReadDeadline_same s d hx)) rfl
    · exact hsame0
  | setWriteDeadline Y d =>
    simp only [Side.act]
    split
    · by_cases hx : X = Y
      · subst hx
        refine .same ?_ rfl
        unfold Side.setWriteDeadline
        cases hs : s.streams X with
        | none => rfl
        | some st =>
          simp only
          split
          · rfl
          · cases d <;> simp [Side.bviewAt, Side.setStream, hs, Stream.bview]
      · exact .same (bview_of_same (setWriteDeadline_same s d hx)) rfl
    · exact hsame0

/-- Effect of an accepted delivery on the bytes of stream `X` at the receiver. -/
inductive BRecv (r r' : Side) (m : Msg) (X : Nat) : Prop
  | same (h : r'.bviewAt X = r.bviewAt X)
      (hm : ∀ bs, m = .data X bs → ∀ st, r.streams X = some st → st.registered = false)
  | data (st : Stream) (bs : List UInt8) (hm : m = .data X bs) (hs : r.streams X = some st)
      (hr : st.registered = true)
      (h : r'.bviewAt X = some ⟨st.sent, st.got, st.recvBuf ++ bs, true, st.established, st.closed⟩)
  | fresh (win : Nat) (hm : m = .open X win) (hns : ¬ X ≤ r.largestIn)
      (h : r'.bviewAt X = some ⟨[], [], [], true, false, false⟩)
  | est (st : Stream) (win : Nat) (hm : m = .accept X win) (hs : r.streams X = some st)
      (h : r'.bviewAt X = some ⟨st.sent, st.got, st.recvBuf, st.registered, true, st.closed⟩)

theorem deliver_brecv {r r' : Side} {m : Msg} (hd : r.deliver m = .ok r') (hc : r.closedMux = false)
    (X : Nat) : BRecv r r' m X := by
  by_cases hm : m.about X = true
  · cases m with
    | heartbeat => simp [Msg.about] at hm
    | «open» Y win =>
      have hy : Y = X := by simpa [Msg.about, Msg.id] using hm
      subst hy
      obtain ⟨hns, _, hs⟩ := deliver_open_shape hd hc
      rcases hs with ⟨_, rfl⟩ | rfl
      · exact .same (by simp [Side.bviewAt, Side.enqClose, hc]) (by intro bs h; cases h)
      · exact .fresh win rfl hns (by simp [Side.bviewAt, Side.setStream, Side.newStream, Stream.bview])
    | accept Y win =>
      have hy : Y = X := by simpa [Msg.about, Msg.id] using hm
      subst hy
      rcases deliver_accept_shape hd with ⟨_, rfl⟩ | ⟨st, hs, _, rfl⟩
      · exact .same rfl (by intro bs h; cases h)
      · exact .est st win rfl hs (by simp [Side.bviewAt, Side.setStream, Stream.bview])
    | data Y bs =>
      have hy : Y = X := by simpa [Msg.about, Msg.id] using hm
      subst hy
      rcases deliver_data_shape hd with ⟨hl, rfl⟩ | ⟨st, hs, hr, rfl⟩
      · exact .same rfl (by intro bs' _ st hs; exact lookup_none_unreg hl st hs)
      · exact .data st bs rfl hs hr (by simp [Side.bviewAt, Side.setStream, Stream.bview, hr])
    | incr Y a =>
      have hy : Y = X := by simpa [Msg.about, Msg.id] using hm
      subst hy
      rcases deliver_incr_shape hd with ⟨_, rfl⟩ | ⟨st, hs, _, rfl⟩
      · exact .same rfl (by intro bs h; cases h)
      · exact .same (by simp [Side.bviewAt, Side.setStream, hs, Stream.bview]) (by intro bs h; cases h)
    | closeWrite Y =>
      have hy : Y = X := by simpa [Msg.about, Msg.id] using hm
      subst hy
      rcases deliver_cw_shape hd with ⟨_, rfl⟩ | ⟨st, hs, _, rfl⟩
      · exact .same rfl (by intro bs h; cases h)
      · exact .same (by simp [Side.bviewAt, Side.setStream, hs, Stream.bview]) (by intro bs h; cases h)
    | close Y =>
      have hy : Y = X := by simpa [Msg.about, Msg.id] using hm
      subst hy
      rcases deliver_close_shape hd with ⟨_, rfl⟩ | ⟨st, hs, _, rfl⟩
      · exact .same rfl (by intro bs h; cases h)
      · exact .same (by simp [Side.bviewAt, Side.setStream, hs, Stream.bview]) (by intro bs h; cases h)
  · have hm' : m.about X = false := by simpa using hm
    refine .same (bview_of_same (deliver_same hd hm' hc)) ?_
    intro bs he; subst he; simp [Msg.about, Msg.id] at hm'

/-! ### the byte invariant -/

/-- Bytes of stream `X` flowing from `s` to `r` over `w`. -/
def Bytes (s r : Side) (w : List Msg) (X : Nat) : Prop :=
  ∀ vs vr, s.bviewAt X = some vs → r.bviewAt X = some vr →
    (vr.registered = true → vr.got ++ vr.recvBuf ++ dataCat X w = vs.sent) ∧
    (vr.registered = false → (vr.got ++ vr.recvBuf) <+: vs.sent)

/-- A stream that is not established has neither written nor read anything. -/
def Quiet (s : Side) (X : Nat) : Prop :=
  ∀ v, s.bviewAt X = some v → v.established = false → v.sent = [] ∧ v.got = []

theorem dataCat_cons_other {X : Nat} {m : Msg} (w : List Msg) (h : ∀ bs, m ≠ .data X bs) :
    dataCat X (m :: w) = dataCat X w := by
  cases m with
  | data id bs =>
    by_cases hid : id = X
    · subst hid; exact absurd rfl (h bs)
    · simp [dataCat, hid]
  | _ => simp [dataCat]

/-- The sender side takes a step. -/
theorem Bytes.step_sender {s s' r : Side} {w ms : List Msg} {X : Nat} (h : Bytes s r w X)
    (st : BStep s s' ms X) (hfresh : X = s.nextOut → s.nextOut ≠ 0 → r.streams X = none) :
    Bytes s' r (w ++ ms) X := by
  intro vs vr hvs hvr
  rw [dataCat_append]
  cases st with
  | same hv hm =>
    rw [hv] at hvs; rw [hm]
    simpa using h vs vr hvs hvr
  | write st0 bs hs he hv hm =>
    rw [hv] at hvs; cases hvs
    have h0 := h st0.bview vr (by simp [Side.bviewAt, hs]) hvr
    rw [hm]
    refine ⟨fun hr => ?_, fun hr => ?_⟩
    · have := h0.1 hr
      simp only [Stream.bview] at this ⊢
      rw [← this]; simp [List.append_assoc]
    · have := h0.2 hr
      simp only [Stream.bview] at this
      exact List.IsPrefix.trans this (List.prefix_append _ _)
  | read st0 k hs hc he hv hm =>
    rw [hv] at hvs; cases hvs
    rw [hm]
    simpa [Stream.bview] using h st0.bview vr (by simp [Side.bviewAt, hs]) hvr
  | dereg st0 hs hv hm =>
    rw [hv] at hvs; cases hvs
    rw [hm]
    simpa [Stream.bview] using h st0.bview vr (by simp [Side.bviewAt, hs]) hvr
  | fresh hs hx hn hv hm =>
    have := hfresh hx hn
    simp [Side.bviewAt, this] at hvr
  | est st0 hs hv hm =>
    rw [hv] at hvs; cases hvs
    rw [hm]
    simpa [Stream.bview] using h st0.bview vr (by simp [Side.bviewAt, hs]) hvr
  | closing st0 hs hv hm =>
    rw [hv] at hvs; cases hvs
    rw [hm]
    simpa [Stream.bview] using h st0.bview vr (by simp [Side.bviewAt, hs]) hvr

/-- The receiver side takes a local step. -/
theorem Bytes.step_receiver {s r r' : Side} {w ms : List Msg} {X : Nat} (h : Bytes s r w X)
    (st : BStep r r' ms X) (hfresh : X = r.nextOut → r.nextOut ≠ 0 → s.streams X = none) :
    Bytes s r' w X := by
  intro vs vr hvs hvr
  cases st with
  | same hv hm => rw [hv] at hvr; exact h vs vr hvs hvr
  | write st0 bs hs he hv hm =>
    rw [hv] at hvr; cases hvr
    simpa [Stream.bview] using h vs st0.bview hvs (by simp [Side.bviewAt, hs])
  | read st0 k hs hc he hv hm =>
    rw [hv] at hvr; cases hvr
    have := h vs st0.bview hvs (by simp [Side.bviewAt, hs])
    simpa [Stream.bview, List.append_assoc] using this
  | dereg st0 hs hv hm =>
    rw [hv] at hvr; cases hvr
    have h0 := h vs st0.bview hvs (by simp [Side.bviewAt, hs])
    simp only [Stream.bview] at h0
    refine ⟨fun hr => by simp at hr, fun _ => ?_⟩
    cases hreg : st0.registered with
    | true =>
      have := h0.1 hreg
      show st0.got ++ st0.recvBuf <+: vs.sent
      rw [← this]
      exact List.prefix_append _ _
    | false => exact h0.2 hreg
  | fresh hs hx hn hv hm =>
    have := hfresh hx hn
    simp [Side.bviewAt, this] at hvs
  | est st0 hs hv hm =>
    rw [hv] at hvr; cases hvr
    simpa [Stream.bview] using h vs st0.bview hvs (by simp [Side.bviewAt, hs])
  | closing st0 hs hv hm =>
    rw [hv] at hvr; cases hvr
    simpa [Stream.bview] using h vs st0.bview hvs (by simp [Side.bviewAt, hs])

theorem Quiet.step {s s' : Side} {ms : List Msg} {X : Nat} (h : Quiet s X) (st : BStep s s' ms X) :
    Quiet s' X := by
  intro v hv he
  cases st with
  | same hv' _ => rw [hv'] at hv; exact h v hv he
  | write st0 bs hs he' hv' _ => rw [hv'] at hv; cases hv; simp at he
  | read st0 k hs hc he' hv' _ => rw [hv'] at hv; cases hv; simp at he
  | dereg st0 hs hv' _ =>
    rw [hv'] at hv; cases hv
    exact h st0.bview (by simp [Side.bviewAt, hs]) (by simpa [Stream.bview] using he)
  | fresh hs hx hn hv' _ => rw [hv'] at hv; cases hv; exact ⟨rfl, rfl⟩
  | est st0 hs hv' _ => rw [hv'] at hv; cases hv; simp at he
  | closing st0 hs hv' _ =>
    rw [hv'] at hv; cases hv
    exact h st0.bview (by simp [Side.bviewAt, hs]) (by simpa [Stream.bview] using he)

/-- A stream leaves the registry only after it was closed. -/
def RegClosed (s : Side) (X : Nat) : Prop :=
  ∀ v, s.bviewAt X = some v → v.registered = false → v.closed = true

theorem RegClosed.step {s s' : Side} {ms : List Msg} {X : Nat} (h : RegClosed s X) (st : BStep s s' ms X) :
    RegClosed s' X := by
  intro v hv hr
  cases st with
  | same hv' _ => rw [hv'] at hv; exact h v hv hr
  | write st0 bs hs he' hv' _ =>
    rw [hv'] at hv; cases hv
    exact h st0.bview (by simp [Side.bviewAt, hs]) (by simpa [Stream.bview] using hr)
  | read st0 k hs hc he' hv' _ =>
    rw [hv'] at hv; cases hv
    have := h st0.bview (by simp [Side.bviewAt, hs]) (by simpa [Stream.bview] using hr)
    simp [Stream.bview, hc] at this
  | dereg st0 hs hv' _ => rw [hv'] at hv; cases hv; rfl
  | fresh hs hx hn hv' _ => rw [hv'] at hv; cases hv; simp at hr
  | est st0 hs hv' _ =>
    rw [hv'] at hv; cases hv
    exact h st0.bview (by simp [Side.bviewAt, hs]) (by simpa [Stream.bview] using hr)
  | closing st0 hs hv' _ => rw [hv'] at hv; cases hv; rfl

theorem RegClosed.recv {r r' : Side} {m : Msg} {X : Nat} (h : RegClosed r X) (st : BRecv r r' m X) :
    RegClosed r' X := by
  intro v hv hr
  cases st with
  | same hv' _ => rw [hv'] at hv; exact h v hv hr
  | data st0 bs hm hs hreg hv' => rw [hv'] at hv; cases hv; simp at hr
  | fresh win hm hns hv' => rw [hv'] at hv; cases hv; simp at hr
  | est st0 win hm hs hv' =>
    rw [hv'] at hv; cases hv
    exact h st0.bview (by simp [Side.bviewAt, hs]) (by simpa [Stream.bview] using hr)

end Mutagen.Model.Mux
