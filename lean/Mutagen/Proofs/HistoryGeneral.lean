import Mutagen.Proofs.EndpointValid
/-!
The multi-cycle theorem of C01 with arbitrary gaps: every conflict sits at a
reached disagreement (`conflict_reaches`); under a conflict root the ancestor's
record is kept or dropped by the cycle (`cycle_under_conflict_anc`); histories
of valid edits and fully applied cycles keep the endpoints valid
(`hrun_endpointsValid`, from `plan_application_valid`); `history_general`.
-/
namespace Mutagen.Model

/-! ## Under a conflict root the ancestor's record is kept or dropped -/

/-- Every conflict of a plan sits at a reached disagreement and is a conflict
of the handler there. -/
theorem conflict_reaches (mode : Mode) (path : Path) (a al be : Option Entry) :
    ∀ c ∈ (reconcile mode path a al be).conflicts, ∃ rel, c.root = path ++ rel ∧ Reaches al be rel ∧
      c ∈ (handleDisagreement mode (path ++ rel) (effAnc a al rel) (getPath al rel) (getPath be rel)).conflicts := by
  fun_induction reconcile mode path a al be with
  | case1 => exact forall_mem_of_eq_nil rfl
  | case2 => exact forall_mem_of_eq_nil rfl
  | case3 => exact forall_mem_of_eq_nil rfl
  | case4 => exact forall_mem_of_eq_nil rfl
  | case5 path ancestor alpha beta h1 h2 h3 h4 here anc' ih =>
    intro c hc
    have hh : here.conflicts = [] := by simp only [here]; split <;> rfl
    simp only [Plan.append_conflicts, hh, List.nil_append, Plan.concat_conflicts, List.flatMap_map,
      List.mem_flatMap, List.mem_attach, true_and] at hc
    obtain ⟨n, hn⟩ := hc
    obtain ⟨rel, hp, hr, hmem⟩ := ih n c hn
    refine ⟨n.1 :: rel, by simp [hp],
      ⟨⟨Bool.eq_false_iff.mpr h1, Bool.eq_false_iff.mpr h2, Bool.eq_false_iff.mpr h3, h4⟩, hr⟩, ?_⟩
    simpa [effAnc, getPath, List.append_assoc] using hmem
  | case6 path ancestor alpha beta h1 h2 h3 h4 =>
    intro c hc
    exact ⟨[], by simp [(handleDisagreement_conflicts mode path ancestor alpha beta c hc).1],
      ⟨Bool.eq_false_iff.mpr h1, Bool.eq_false_iff.mpr h2, Bool.eq_false_iff.mpr h3, Bool.eq_false_iff.mpr h4⟩,
      by simpa [effAnc, getPath] using hc⟩

/-- A handler that reports a conflict plans nothing else. -/
theorem handleDisagreement_conflict_only (mode : Mode) (path : Path) (a al be : Option Entry)
    (h : (handleDisagreement mode path a al be).conflicts ≠ []) :
    (handleDisagreement mode path a al be).anc = [] ∧ (handleDisagreement mode path a al be).alpha = [] ∧
      (handleDisagreement mode path a al be).beta = [] := by
  revert h
  unfold handleDisagreement
  cases mode
  · unfold handleBidirectional; simp only []; repeat' split
    all_goals (intro h; first | exact ⟨rfl, rfl, rfl⟩ | exact absurd rfl h)
  · unfold handleBidirectional; simp only []; repeat' split
    all_goals (intro h; first | exact ⟨rfl, rfl, rfl⟩ | exact absurd rfl h)
  · unfold handleOneWaySafe; simp only []; repeat' split
    all_goals (intro h; first | exact ⟨rfl, rfl, rfl⟩ | exact absurd rfl h)
  · unfold handleOneWayReplica; simp only []; repeat' split
    all_goals (intro h; first | exact ⟨rfl, rfl, rfl⟩ | exact absurd rfl h)

theorem effAnc_cases : ∀ (rel : Path) (a al : Option Entry), effAnc a al rel = getPath a rel ∨ effAnc a al rel = none := by
  intro rel
  induction rel with
  | nil => intro a al; exact Or.inl rfl
  | cons n rel ih =>
    intro a al
    simp only [effAnc, getPath]
    by_cases hs : shallowEq a al = true
    · have : ancestorForRecursion a al = a := by simp [ancestorForRecursion, hs]
      rw [this]; exact ih _ _
    · have : ancestorForRecursion a al = none := by simp [ancestorForRecursion, hs]
      rw [this]; right; exact effAnc_none none rel _

/-- What the `here` change of a recursion node does to the ancestor below the node. -/
theorem here_child_spec (path : Path) (a : Option Entry) (ae : Entry) (n : Name) (q : Path) :
    ov (if (!shallowEq a (some ae)) = true then Plan.ancChange { path := path, new := ocopy .slim (some ae) } else {}).anc
      (path ++ n :: q) (pget a (n :: q)) = pget (lookup n (contents (ancestorForRecursion a (some ae)))) q := by
  by_cases hs : shallowEq a (some ae) = true
  · simp [hs, ancestorForRecursion, pget_cons]
  · simp [hs, ancestorForRecursion, Plan.ancChange, ov_cons, ocopy_slim_pget_cons, contents, lookup]

/-- The description of the new ancestor, carried down to a reached disagreement. -/
theorem ancFinal_at_reached (mode : Mode) (A' : Option Entry) : ∀ (rel path : Path) (a al be : Option Entry),
    Reaches al be rel → AncFinal path a (reconcile mode path a al be) A' →
    AncFinal (path ++ rel) (effAnc a al rel)
      (handleDisagreement mode (path ++ rel) (effAnc a al rel) (getPath al rel) (getPath be rel)) A' := by
  intro rel
  induction rel with
  | nil =>
    intro path a al be hr hA
    have := reconcile_eq_handler mode path a al be (by simp [hr.alphaOk]) (by simp [hr.betaOk])
      (by simp [hr.notBothAbsent]) (by simp [hr.differ])
    rw [this] at hA
    simpa [effAnc, getPath] using hA
  | cons n rel ih =>
    intro path a al be hr hA
    obtain ⟨⟨h1, h2, h3, h4⟩, hr'⟩ := hr
    have hαsome : ∃ e, al = some e := by
      cases al with
      | some e => exact ⟨e, rfl⟩
      | none =>
        cases be with
        | none => simp at h3
        | some b => simp [shallowEq] at h4
    obtain ⟨ae, rfl⟩ := hαsome
    have hn : n ∈ nameUnion [contents (ancestorForRecursion a (some ae)), contents (some ae), contents be] := by
      apply Classical.byContradiction
      intro hn
      obtain ⟨_, l2, l3⟩ := lookup_none_of_not_mem_union3 hn
      rw [l2, l3] at hr'
      exact Reaches.not_both_none hr'
    rw [reconcile_eq_recurse' mode path a (some ae) be h1 h2 h3 h4] at hA
    let names := nameUnion [contents (ancestorForRecursion a (some ae)), contents (some ae), contents be]
    let f : Name → Plan := fun m =>
      reconcile mode (path ++ [m]) (lookup m (contents (ancestorForRecursion a (some ae))))
        (lookup m (contents (some ae))) (lookup m (contents be))
    let hereP : Plan := if (!shallowEq a (some ae)) = true
      then Plan.ancChange { path := path, new := ocopy .slim (some ae) } else {}
    have hh : hereP.alpha = [] ∧ hereP.beta = [] := by
      refine ⟨?_, ?_⟩ <;> (simp only [hereP]; split <;> rfl)
    have hA' : ∀ q, pget A' (path ++ q) =
        ov ((hereP.anc ++ names.flatMap (fun m => (f m).anc)) ++
          (names.flatMap (fun m => (f m).alpha) ++ names.flatMap (fun m => (f m).beta))) (path ++ q)
          (pget a q) := by
      intro q
      have e1 : (hereP ++ Plan.concat (names.map f)).anc = hereP.anc ++ names.flatMap (fun m => (f m).anc) := by
        simp [Plan.concat_anc, List.flatMap_map]
      have e2 : (hereP ++ Plan.concat (names.map f)).alpha = names.flatMap (fun m => (f m).alpha) := by
        simp [Plan.concat_alpha, List.flatMap_map, hh.1]
      have e3 : (hereP ++ Plan.concat (names.map f)).beta = names.flatMap (fun m => (f m).beta) := by
        simp [Plan.concat_beta, List.flatMap_map, hh.2]
      have h' : pget A' (path ++ q) = ov ((hereP ++ Plan.concat (names.map f)).anc ++
          ((hereP ++ Plan.concat (names.map f)).alpha ++ (hereP ++ Plan.concat (names.map f)).beta)) (path ++ q)
          (pget a q) := hA q
      rw [e1, e2, e3] at h'
      exact h'
    have hchild := AncFinal.child (n := n) hA' (here_child_spec path a ae n) (nodup_nameUnion _) hn
      (fun m _ => reconcile_anc_under mode (path ++ [m]) _ _ _)
      (fun m _ => reconcile_alpha_under mode (path ++ [m]) _ _ _)
      (fun m _ => reconcile_beta_under mode (path ++ [m]) _ _ _)
    have := ih (path ++ [n]) _ _ _ hr' hchild
    simpa [effAnc, getPath, List.append_assoc] using this

/-- **Under a conflict root the ancestor's record is kept or dropped** (every
mode, any trees): if a path lies at or below the root of a conflict of the
cycle's plan, then after the cycle the ancestor records there what it recorded
before, or nothing. -/
theorem cycle_under_conflict_anc (mode : Mode) (s : HState) (q : Path)
    (h : ∃ c ∈ (Reconcile s.anc s.alpha s.beta mode).conflicts, c.root <+: q) :
    pget (cycleStep mode s).anc q = pget s.anc q ∨ pget (cycleStep mode s).anc q = none := by
  obtain ⟨c, hc, ⟨t, rfl⟩⟩ := h
  obtain ⟨hA, _, _⟩ := cycle_applies mode s
  have hAF : AncFinal [] s.anc (reconcile mode [] s.anc s.alpha s.beta) (cycleStep mode s).anc := by
    intro q
    have := apply_pget_ov hA q
    simp only [ov_append, ov_map_idealResult, Reconcile] at this
    simpa [ov_append] using this
  obtain ⟨rel, hroot, hr, hmem⟩ := conflict_reaches mode [] s.anc s.alpha s.beta c hc
  simp only [List.nil_append] at hroot hmem
  have hnode := ancFinal_at_reached mode (cycleStep mode s).anc rel [] s.anc s.alpha s.beta hr hAF
  simp only [List.nil_append] at hnode
  obtain ⟨e1, e2, e3⟩ := handleDisagreement_conflict_only mode rel (effAnc s.anc s.alpha rel)
    (getPath s.alpha rel) (getPath s.beta rel) (by intro h0; rw [h0] at hmem; cases hmem)
  have hq := hnode t
  rw [e1, e2, e3] at hq
  simp only [List.append_nil, ov_nil] at hq
  rw [hroot, hq]
  rcases effAnc_cases rel s.anc s.alpha with h | h
  · left; rw [h]; simp [pget, getPath_append]
  · right; rw [h]; simp

/-- The states of a history whose edits install valid phantom-free trees. -/
def ValidSteps : List HStep → Prop
  | [] => True
  | .editAlpha t :: rest => (Valid t ∧ onoPhantom t = true) ∧ ValidSteps rest
  | .editBeta t :: rest => (Valid t ∧ onoPhantom t = true) ∧ ValidSteps rest
  | .cycle :: rest => ValidSteps rest

def HState.EndpointsValid (s : HState) : Prop :=
  Valid s.alpha ∧ onoPhantom s.alpha = true ∧ Valid s.beta ∧ onoPhantom s.beta = true

/-- A cycle keeps the endpoints valid and phantom-free. -/
theorem cycle_endpointsValid (mode : Mode) (s : HState) (h : s.EndpointsValid) :
    (cycleStep mode s).EndpointsValid := by
  obtain ⟨h1, h2, h3, h4⟩ := h
  obtain ⟨_, hα, hβ⟩ := cycle_applies mode s
  have hv := plan_application_valid mode s.anc s.alpha s.beta h1 h3 h2 h4
  exact ⟨(hv.1 _ hα).1, (hv.1 _ hα).2, (hv.2 _ hβ).1, (hv.2 _ hβ).2⟩

/-- Every state of a history of valid edits and fully applied cycles has valid
phantom-free endpoints. -/
theorem hrun_endpointsValid (mode : Mode) (steps : List HStep) :
    ∀ s, s.EndpointsValid → ValidSteps steps → (hrun mode s steps).EndpointsValid := by
  induction steps with
  | nil => intro s h _; exact h
  | cons x xs ih =>
    intro s h hv
    have hstepv : (hstep mode s x).EndpointsValid ∧ ValidSteps xs := by
      cases x with
      | editAlpha t => exact ⟨⟨hv.1.1, hv.1.2, h.2.2.1, h.2.2.2⟩, hv.2⟩
      | editBeta t => exact ⟨⟨h.1, h.2.1, hv.1.1, hv.1.2⟩, hv.2⟩
      | cycle => exact ⟨cycle_endpointsValid mode s h, hv⟩
    have := ih (hstep mode s x) hstepv.1 hstepv.2
    simpa [hrun] using this

/-- In every cycle of the steps, run from `s`, the path `q` lies at or below a
conflict root of that cycle's plan. -/
def UnderConflictInCycles (mode : Mode) (q : Path) : HState → List HStep → Prop
  | _, [] => True
  | s, .cycle :: rest =>
    (∃ c ∈ (Reconcile s.anc s.alpha s.beta mode).conflicts, c.root <+: q) ∧
      UnderConflictInCycles mode q (cycleStep mode s) rest
  | s, .editAlpha t :: rest => UnderConflictInCycles mode q { s with alpha := t } rest
  | s, .editBeta t :: rest => UnderConflictInCycles mode q { s with beta := t } rest

/-- Through edits and cycles in which `q` stays under a conflict, the ancestor's
record at `q` is kept or dropped. -/
theorem hrun_anc_kept (mode : Mode) (q : Path) (steps : List HStep) :
    ∀ s, UnderConflictInCycles mode q s steps →
      pget (hrun mode s steps).anc q = pget s.anc q ∨ pget (hrun mode s steps).anc q = none := by
  induction steps with
  | nil => intro s _; exact Or.inl rfl
  | cons x xs ih =>
    intro s h
    cases x with
    | editAlpha t =>
      have := ih { s with alpha := t } h
      simpa [hrun, hstep] using this
    | editBeta t =>
      have := ih { s with beta := t } h
      simpa [hrun, hstep] using this
    | cycle =>
      have h1 := cycle_under_conflict_anc mode s q h.1
      have h2 := ih (cycleStep mode s) h.2
      have e : hrun mode s (.cycle :: xs) = hrun mode (cycleStep mode s) xs := by simp [hrun, hstep]
      rw [e]
      rcases h2 with h2 | h2
      · rcases h1 with h1 | h1
        · left; rw [h2, h1]
        · right; rw [h2, h1]
      · exact Or.inr h2

/-- **Content created or modified since the last synchronization of its path is
never deleted or overwritten** (two-way-safe, arbitrary gaps). Take any history
`pre` of valid edits and fully applied cycles from a state with valid
phantom-free endpoints; let a cycle leave the path `q` synchronized; let then
any further valid edits and cycles follow in which `q` is not synchronized
again because it lies under a conflict (`mid`); then the next cycle does not
touch an entry at `q` that exists and differs from the content `q` had when it
was last synchronized. -/
theorem history_general (s₀ : HState) (h₀ : s₀.EndpointsValid) (pre mid : List HStep) (hpre : ValidSteps pre)
    (q : Path)
    (hq : ∀ c ∈ (Reconcile (hrun .twoWaySafe s₀ pre).anc (hrun .twoWaySafe s₀ pre).alpha
        (hrun .twoWaySafe s₀ pre).beta .twoWaySafe).conflicts, ¬ c.root <+: q)
    (h1 : NoUnsyncAlong (cycleStep .twoWaySafe (hrun .twoWaySafe s₀ pre)).alpha q)
    (h2 : NoUnsyncAlong (cycleStep .twoWaySafe (hrun .twoWaySafe s₀ pre)).beta q)
    (hmid : UnderConflictInCycles .twoWaySafe q (cycleStep .twoWaySafe (hrun .twoWaySafe s₀ pre)) mid) :
    let s₁ := cycleStep .twoWaySafe (hrun .twoWaySafe s₀ pre)
    let t := hrun .twoWaySafe s₁ mid
    (pget s₁.alpha q = pget s₁.anc q ∧ pget s₁.beta q = pget s₁.anc q) ∧
    (pget t.alpha q ≠ none → pget t.alpha q ≠ pget s₁.alpha q →
      pget (cycleStep .twoWaySafe t).alpha q = pget t.alpha q) ∧
    (pget t.beta q ≠ none → pget t.beta q ≠ pget s₁.beta q →
      pget (cycleStep .twoWaySafe t).beta q = pget t.beta q) := by
  intro s₁ t
  have hv := hrun_endpointsValid .twoWaySafe pre s₀ h₀ hpre
  obtain ⟨c1, c2⟩ := cycle_converges .twoWaySafe (Or.inl rfl) (hrun .twoWaySafe s₀ pre) hv.1 hv.2.2.1 hv.2.1
    hv.2.2.2 q hq h1 h2
  have hk := hrun_anc_kept .twoWaySafe q mid s₁ hmid
  obtain ⟨n1, n2⟩ := cycle_no_loss t
  refine ⟨⟨c1, c2⟩, ?_, ?_⟩
  · intro hsome hmod
    apply Classical.byContradiction
    intro hne
    rcases n1 q hne with h | h
    · exact hsome h
    · rcases hk with hk | hk
      · exact hmod (by rw [h, hk, ← c1])
      · exact hsome (by rw [h, hk])
  · intro hsome hmod
    apply Classical.byContradiction
    intro hne
    rcases n2 q hne with h | h
    · exact hsome h
    · rcases hk with hk | hk
      · exact hmod (by rw [h, hk, ← c2])
      · exact hsome (by rw [h, hk])

end Mutagen.Model
