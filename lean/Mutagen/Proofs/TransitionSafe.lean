import Mutagen.Proofs.TransitionInv
/-!
Every function of the transition model preserves the protection invariant
`Inv` (C08), for every fault oracle, sibling order, cancellation point and
provider behaviour: per-function lemmas first, then the recursion.
-/
namespace Mutagen.Proofs.FS
open Mutagen.Model Mutagen.Model.TFS Mutagen.Proofs.Assoc

@[simp] theorem hook_fs (env : Env) (st : St) (op : Op) (n : Name) : (hook env st op n).2.fs = st.fs := rfl
@[simp] theorem hook_staged (env : Env) (st : St) (op : Op) (n : Name) : (hook env st op n).2.staged = st.staged := rfl
@[simp] theorem problem_fs (st : St) (p : Path) (c : String) : (st.problem p c).fs = st.fs := rfl

/-! ## Walking never changes the tree, and yields the handle of the path -/

theorem nameExists_fs (env : Env) (st : St) (name : Name) (h : Handle) : (nameExists env st name h).2.fs = st.fs := by
  unfold nameExists hook
  grind

theorem walkLoop_spec (env : Env) (comps : List Name) :
    ∀ (h : Handle) (st : St), (walkLoop env comps h st).2.fs = st.fs ∧
      ∀ h', (walkLoop env comps h st).1 = some h' → h' = h ++ comps := by
  induction comps with
  | nil => intro h st; simp [walkLoop]
  | cons c rest ih =>
    intro h st
    unfold walkLoop
    have hn := nameExists_fs env st c h
    rcases hne : nameExists env st c h with ⟨r, st1⟩
    rw [hne] at hn
    simp only at hn
    rcases hh : hook env st1 .opendir c with ⟨a, st2⟩
    have h2 : st2.fs = st1.fs := by
      have := hook_fs env st1 .opendir c
      rw [hh] at this; exact this
    have ih' := ih (h ++ [c]) st2
    grind

theorem walkToParent_spec (env : Env) (st : St) (path : Path) (v : Bool) :
    (walkToParent env st path v).2.fs = st.fs ∧
      ∀ h leaf, (walkToParent env st path v).1 = some (h, leaf) → h ++ [leaf] = env.rootName :: path := by
  unfold walkToParent
  cases hl : path.getLast? with
  | none =>
    have : path = [] := by simpa using hl
    subst this
    simp
  | some leaf =>
    obtain ⟨ys, rfl⟩ := List.getLast?_eq_some_iff.mp hl
    have hd : (ys ++ [leaf]).dropLast = ys := by simp
    rw [hd]
    have hw := walkLoop_spec env ys [env.rootName] st
    rcases hwl : walkLoop env ys [env.rootName] st with ⟨r, st1⟩
    rw [hwl] at hw
    simp only at hw
    cases r with
    | none => grind
    | some h =>
      have hh := hw.2 h rfl
      have hn := nameExists_fs env st1 leaf h
      rcases hne : nameExists env st1 leaf h with ⟨r2, st2⟩
      rw [hne] at hn
      simp only at hn
      grind

/-! ## Checks -/

theorem get_of_dirAt_bind (fs : Node) (parent : Handle) (name : Name) (node : Node)
    (h : (dirAt fs parent).bind (aget name) = some node) : fs.get (parent ++ [name]) = some node := by
  cases hd : dirAt fs parent with
  | none => simp [hd] at h
  | some cs =>
    obtain ⟨p, hp⟩ := (dirAt_eq fs parent cs).mp hd
    rw [get_child fs parent p cs hp]
    simpa [hd] using h

theorem ensureExpectedFile_spec (env : Env) (st : St) (parent : Handle) (name : Name) (path : Path)
    (expected : Entry) (r : Option String) (st' : St)
    (h : ensureExpectedFile env st parent name path expected = (r, st')) :
    st'.fs = st.fs ∧
    (r = none →
      ∃ cached node, aget path env.cache = some cached ∧
        (dirAt st.fs parent).bind (aget name) = some node ∧
        node.stat.mode = cached.mode ∧ node.stat.mtime = cached.mtime ∧ node.stat.size = cached.size ∧
        node.stat.ino = cached.ino ∧ cached.digest = expected.props.digest) := by
  unfold ensureExpectedFile hook at h
  grind

theorem ensureExpectedSymbolicLink_spec (env : Env) (st : St) (parent : Handle) (name : Name) (path : Path)
    (expected : Entry) (r : Option String) (st' : St)
    (h : ensureExpectedSymbolicLink env st parent name path expected = (r, st')) :
    st'.fs = st.fs ∧
    (r = none → ∃ t, (dirAt st.fs parent).bind (aget name) = some (.symlink t) ∧
      linkAccepted env path t expected.props) := by
  unfold ensureExpectedSymbolicLink hook at h
  unfold linkAccepted
  grind

/-- A successful file check at an expected path: the position is not guarded. -/
theorem notG_of_ensureExpectedFile (C : Ctx) (hreg : CacheRegular C.env.cache) (st : St) (parent : Handle)
    (name : Name) (path : Path) (expected : Entry) (st' : St) (hi : Inv C st.fs)
    (hq : parent ++ [name] = C.env.rootName :: path) (he : C.ExpP path expected.props)
    (h : ensureExpectedFile C.env st parent name path expected = (none, st')) :
    ¬ G C (parent ++ [name]) := by
  obtain ⟨_, hs⟩ := ensureExpectedFile_spec C.env st parent name path expected none st' h
  obtain ⟨cached, node, hc, hn, h1, h2, h3, h4, _⟩ := hs rfl
  exact notG_of_fileCheck C hreg st.fs _ path node cached expected.props hi hq
    (get_of_dirAt_bind _ _ _ _ hn) hc h1 h2 h3 h4 he

theorem notG_of_ensureExpectedSymbolicLink (C : Ctx) (st : St) (parent : Handle)
    (name : Name) (path : Path) (expected : Entry) (st' : St) (hi : Inv C st.fs)
    (hq : parent ++ [name] = C.env.rootName :: path) (he : C.ExpP path expected.props)
    (h : ensureExpectedSymbolicLink C.env st parent name path expected = (none, st')) :
    ¬ G C (parent ++ [name]) := by
  obtain ⟨_, hs⟩ := ensureExpectedSymbolicLink_spec C.env st parent name path expected none st' h
  obtain ⟨t, hn, ha⟩ := hs rfl
  exact notG_of_linkCheck C st.fs _ path t expected.props hi hq (get_of_dirAt_bind _ _ _ _ hn) he ha

/-! ## Removal -/

theorem inv_opUnlink (C : Ctx) (st : St) (parent : Handle) (name : Name) (r : Bool) (st' : St)
    (hi : Inv C st.fs) (hg : ¬ G C (parent ++ [name])) (h : opUnlink C.env st parent name = (r, st')) :
    Inv C st'.fs := by
  unfold opUnlink hook at h
  have := fun fs' => inv_fsUnlink C st.fs fs' parent name hi hg
  grind

theorem inv_removeFile (C : Ctx) (hreg : CacheRegular C.env.cache) (st : St) (parent : Handle) (name : Name)
    (path : Path) (expected : Entry) (r : Option String) (st' : St) (hi : Inv C st.fs)
    (hq : parent ++ [name] = C.env.rootName :: path) (he : C.ExpP path expected.props)
    (h : removeFile C.env st parent name path expected = (r, st')) : Inv C st'.fs := by
  unfold removeFile at h
  rcases hc : ensureExpectedFile C.env st parent name path expected with ⟨r1, st1⟩
  have hfs := (ensureExpectedFile_spec C.env st parent name path expected r1 st1 hc).1
  rw [hc] at h
  cases r1 with
  | some e => simp only [Prod.mk.injEq] at h; rw [← h.2, hfs]; exact hi
  | none =>
    have hg := notG_of_ensureExpectedFile C hreg st parent name path expected st1 hi hq he hc
    simp only at h
    rcases hu : opUnlink C.env st1 parent name with ⟨b, st2⟩
    have := inv_opUnlink C st1 parent name b st2 (by rw [hfs]; exact hi) hg hu
    grind

theorem inv_removeSymbolicLink (C : Ctx) (st : St) (parent : Handle) (name : Name)
    (path : Path) (expected : Entry) (r : Option String) (st' : St) (hi : Inv C st.fs)
    (hq : parent ++ [name] = C.env.rootName :: path) (he : C.ExpP path expected.props)
    (h : removeSymbolicLink C.env st parent name path expected = (r, st')) : Inv C st'.fs := by
  unfold removeSymbolicLink at h
  split at h
  · simp only [Prod.mk.injEq] at h; rw [← h.2]; exact hi
  · rcases hc : ensureExpectedSymbolicLink C.env st parent name path expected with ⟨r1, st1⟩
    have hfs := (ensureExpectedSymbolicLink_spec C.env st parent name path expected r1 st1 hc).1
    rw [hc] at h
    cases r1 with
    | some e => simp only [Prod.mk.injEq] at h; rw [← h.2, hfs]; exact hi
    | none =>
      have hg := notG_of_ensureExpectedSymbolicLink C st parent name path expected st1 hi hq he hc
      simp only at h
      rcases hu : opUnlink C.env st1 parent name with ⟨b, st2⟩
      have := inv_opUnlink C st1 parent name b st2 (by rw [hfs]; exact hi) hg hu
      grind

/-! ## Expected entries -/

theorem lookup_upsert (n m : Name) (e : Entry) (cs : Contents) :
    lookup m (upsert n e cs) = if n = m then some e else lookup m cs := by
  induction cs with
  | nil => grind [upsert, lookup]
  | cons h t ih => grind [upsert, lookup]

theorem lookup_erase (n m : Name) (cs : Contents) :
    lookup m (erase n cs) = if n = m then none else lookup m cs := by
  induction cs with
  | nil => grind [erase, lookup]
  | cons h t ih => grind [erase, lookup]

/-- Every node of the entry is expected by the plan at its path. -/
inductive Within (C : Ctx) : Path → Entry → Prop
  | mk (p : Path) (pr : Props) (cs : Contents) :
      C.ExpP p pr → (∀ c e, lookup c cs = some e → Within C (p ++ [c]) e) → Within C p (.mk pr cs)

theorem Within.props {C : Ctx} {p : Path} {e : Entry} (h : Within C p e) : C.ExpP p e.props := by
  cases h with
  | mk p pr cs h1 h2 => exact h1

theorem Within.child {C : Ctx} {p : Path} {e : Entry} (h : Within C p e) (c : Name) (e' : Entry)
    (hl : lookup c e.children = some e') : Within C (p ++ [c]) e' := by
  cases h with
  | mk p pr cs h1 h2 => exact h2 c e' hl

/-- What `removeDirectory` must guarantee for its content loop. -/
def RmSpec (C : Ctx) (rec : RmRec) : Prop :=
  ∀ st h n p e, Inv C st.fs → h ++ [n] = C.env.rootName :: p → Within C p e →
    Inv C (rec st h n p e).2.2.fs ∧ Within C p (rec st h n p e).2.1

theorem removeLoop_spec (C : Ctx) (hreg : CacheRegular C.env.cache) (rec : RmRec) (hrec : RmSpec C rec)
    (dirH : Handle) (path : Path) (hd : dirH = C.env.rootName :: path) (names : List Name) :
    ∀ (fl : RmFlags) (cur : Contents) (st : St), Inv C st.fs →
      (∀ c e, lookup c cur = some e → Within C (path ++ [c]) e) →
      Inv C (removeLoop C.env rec dirH path names fl cur st).2.2.fs ∧
      (∀ c e, lookup c (removeLoop C.env rec dirH path names fl cur st).2.1 = some e → Within C (path ++ [c]) e) := by
  induction names with
  | nil => intro fl cur st hi hw; simpa [removeLoop] using ⟨hi, hw⟩
  | cons c rest ih =>
    intro fl cur st hi hw
    have hq : dirH ++ [c] = C.env.rootName :: (path ++ [c]) := by rw [hd]; simp
    unfold removeLoop
    split
    · exact ⟨hi, hw⟩
    · cases hl : lookup c cur with
      | none => exact ih _ cur _ hi hw
      | some entry =>
        have hwe := hw c entry hl
        simp only
        split
        · -- directory
          have hr := hrec st dirH c (path ++ [c]) entry hi hq hwe
          rcases hrc : rec st dirH c (path ++ [c]) entry with ⟨ok, entry', st1⟩
          rw [hrc] at hr
          cases ok with
          | false =>
            apply ih _ _ _ hr.1
            intro c2 e2 h2
            rw [lookup_upsert] at h2
            split at h2
            · rename_i heq; subst heq; cases h2; exact hr.2
            · exact hw c2 e2 h2
          | true =>
            apply ih _ _ _ hr.1
            intro c2 e2 h2
            rw [lookup_erase] at h2
            split at h2
            · simp at h2
            · exact hw c2 e2 h2
        · split
          · -- file
            rcases hrf : removeFile C.env st dirH c (path ++ [c]) entry with ⟨r, st1⟩
            have h1 := inv_removeFile C hreg st dirH c (path ++ [c]) entry r st1 hi hq hwe.props hrf
            cases r with
            | some e => exact ih _ cur _ h1 hw
            | none =>
              apply ih _ _ _ h1
              intro c2 e2 h2
              rw [lookup_erase] at h2
              split at h2
              · simp at h2
              · exact hw c2 e2 h2
          · split
            · -- symbolic link
              rcases hrf : removeSymbolicLink C.env st dirH c (path ++ [c]) entry with ⟨r, st1⟩
              have h1 := inv_removeSymbolicLink C st dirH c (path ++ [c]) entry r st1 hi hq hwe.props hrf
              cases r with
              | some e => exact ih _ cur _ h1 hw
              | none =>
                apply ih _ _ _ h1
                intro c2 e2 h2
                rw [lookup_erase] at h2
                split at h2
                · simp at h2
                · exact hw c2 e2 h2
            · exact ih _ cur _ hi hw

theorem removeDirectory_spec (C : Ctx) (hreg : CacheRegular C.env.cache) (fuel : Nat) :
    RmSpec C (removeDirectory C.env fuel) := by
  induction fuel with
  | zero => intro st h n p e hi hq hw; simpa [removeDirectory] using ⟨hi, hw⟩
  | succ fuel ih =>
    intro st parent name path expected hi hq hw
    unfold removeDirectory
    rcases hh : hook C.env st .opendir name with ⟨a, st1⟩
    have h1 : st1.fs = st.fs := by have := hook_fs C.env st .opendir name; rw [hh] at this; exact this
    simp only
    split
    · exact ⟨by simpa [h1] using hi, hw⟩
    · cases hda : dirAt st1.fs (parent ++ [name]) with
      | none => exact ⟨by simpa [h1] using hi, hw⟩
      | some cs0 =>
        simp only
        rcases hh2 : hook C.env st1 .readdir "" with ⟨a2, st2⟩
        have h2 : st2.fs = st1.fs := by have := hook_fs C.env st1 .readdir ""; rw [hh2] at this; exact this
        simp only
        split
        · exact ⟨by simpa [h2, h1] using hi, hw⟩
        · cases hdb : dirAt st2.fs (parent ++ [name]) with
          | none => exact ⟨by simpa [h2, h1] using hi, hw⟩
          | some cs =>
            simp only
            have hi2 : Inv C st2.fs := by rw [h2, h1]; exact hi
            have hloop := removeLoop_spec C hreg (removeDirectory C.env fuel) ih (parent ++ [name]) path hq
              (C.env.ord (akeys cs)) {} expected.children st2 hi2 (fun c e hl => hw.child c e hl)
            rcases hrl : removeLoop C.env (removeDirectory C.env fuel) (parent ++ [name]) path
              (C.env.ord (akeys cs)) {} expected.children st2 with ⟨fl, cur, st3⟩
            rw [hrl] at hloop
            simp only at hloop
            have hwr : ∀ cur', (∀ c e, lookup c cur' = some e → Within C (path ++ [c]) e) →
                Within C path (Entry.mk expected.props cur') := fun cur' hc => Within.mk path _ cur' hw.props hc
            have hwcur := hwr (if (!fl.cancelled && !fl.failed) = true then [] else cur) (by
              split
              · intro c e hl; simp [lookup] at hl
              · exact hloop.2)
            split
            · rcases hh3 : hook C.env st3 .rmdir name with ⟨a3, st4⟩
              have h4 : st4.fs = st3.fs := by have := hook_fs C.env st3 .rmdir name; rw [hh3] at this; exact this
              simp only
              split
              · exact ⟨by simpa [h4] using hloop.1, hwcur⟩
              · cases hrm : fsRmdir st4.fs parent name with
                | none => exact ⟨by simpa [h4] using hloop.1, hwcur⟩
                | some fs' =>
                  simp only
                  refine ⟨?_, hwcur⟩
                  obtain ⟨⟨p0, hget⟩, _, _⟩ := fsRmdir_spec st4.fs fs' parent name hrm
                  have hi4 : Inv C st4.fs := by rw [h4]; exact hloop.1
                  have hg := notG_of_dir C st4.fs _ path p0 [] expected.props hi4 hq hget hw.props
                  exact inv_fsRmdir C st4.fs fs' parent name hi4 hg hrm
            · exact ⟨hloop.1, hwcur⟩

theorem inv_remove (C : Ctx) (hreg : CacheRegular C.env.cache) (st : St) (path : Path) (entry : Option Entry)
    (hi : Inv C st.fs) (hw : ∀ e, entry = some e → Within C path e) :
    Inv C (remove C.env st path entry).2.fs := by
  cases entry with
  | none => simpa [remove] using hi
  | some e =>
    have hwe := hw e rfl
    unfold remove
    have hws := walkToParent_spec C.env st path true
    rcases hwk : walkToParent C.env st path true with ⟨r, st1⟩
    rw [hwk] at hws
    simp only at hws
    have hi1 : Inv C st1.fs := by rw [hws.1]; exact hi
    cases r with
    | none => simpa using hi1
    | some hn =>
      obtain ⟨parent, name⟩ := hn
      have hq := hws.2 parent name rfl
      simp only
      split
      · have hr := removeDirectory_spec C hreg e.size st1 parent name path e hi1 hq hwe
        rcases hrd : removeDirectory C.env e.size st1 parent name path e with ⟨ok, red, st2⟩
        rw [hrd] at hr
        cases ok <;> exact hr.1
      · split
        · rcases hrf : removeFile C.env st1 parent name path e with ⟨r, st2⟩
          have := inv_removeFile C hreg st1 parent name path e r st2 hi1 hq hwe.props hrf
          cases r <;> simpa using this
        · split
          · rcases hrf : removeSymbolicLink C.env st1 parent name path e with ⟨r, st2⟩
            have := inv_removeSymbolicLink C st1 parent name path e r st2 hi1 hq hwe.props hrf
            cases r <;> simpa using this
          · simpa using hi1

/-! ## Creation and replacement -/

theorem inv_opChmod (C : Ctx) (st : St) (parent : Handle) (name : Name) (mode : Nat) (r : Bool) (st' : St)
    (hi : Inv C st.fs) (hg : ¬ G C (parent ++ [name])) (h : opChmod C.env st parent name mode = (r, st')) :
    Inv C st'.fs := by
  unfold opChmod hook at h
  have := fun fs' => inv_fsChmod C st.fs fs' parent name (mode % 512) hi hg
  grind

theorem inv_crossDevice (C : Ctx) (st : St) (key : Path × List UInt8) (sf : SFile) (mode : Nat) (parent : Handle)
    (name : Name) (replace : Bool) (r : Option String) (st' : St) (hi : Inv C st.fs)
    (hg : replace = true → ¬ G C (parent ++ [name]))
    (h : crossDevice C.env st key sf mode parent name replace = (r, st')) : Inv C st'.fs := by
  unfold crossDevice at h
  rcases hh : hook C.env st .mktemp tmpPattern with ⟨a, st1⟩
  have h1 : st1.fs = st.fs := by have := hook_fs C.env st .mktemp tmpPattern; rw [hh] at this; exact this
  rw [hh] at h
  simp only at h
  split at h
  · simp only [Prod.mk.injEq] at h; rw [← h.2, h1]; exact hi
  · cases hd : dirAt st1.fs parent with
    | none => rw [hd] at h; simp only [Prod.mk.injEq] at h; rw [← h.2, h1]; exact hi
    | some cs =>
      rw [hd] at h
      simp only at h
      have hi1' : Inv C st1.fs := by rw [h1]; exact hi
      split at h
      · -- the copy is preempted: the partial temporary is removed again
        cases hp : fsPut st1.fs parent (C.env.tmpName st1.tmpCount (akeys cs))
            (Node.file (sf.data.take copyPreemptionBytes) 0o600 0 0) false with
        | none => rw [hp] at h; simp only [Prod.mk.injEq] at h; rw [← h.2]; exact hi1'
        | some fs2 =>
          rw [hp] at h
          simp only at h
          obtain ⟨hi2, hgt⟩ := inv_fsPut C st1.fs fs2 parent _ _ false hi1' (by simp) hp
          rcases hu : opUnlink C.env { st1 with fs := fs2, tmpCount := st1.tmpCount + 1 } parent
            (C.env.tmpName st1.tmpCount (akeys cs)) with ⟨b2, st4⟩
          have := inv_opUnlink C _ parent _ b2 st4 hi2 hgt hu
          rw [hu] at h
          simp only [Prod.mk.injEq] at h; rw [← h.2]; exact this
      cases hp : fsPut st1.fs parent (C.env.tmpName st1.tmpCount (akeys cs)) (Node.file sf.data 0o600 0 0) false with
      | none => rw [hp] at h; simp only [Prod.mk.injEq] at h; rw [← h.2, h1]; exact hi
      | some fs2 =>
        rw [hp] at h
        simp only at h
        have hi1 : Inv C st1.fs := by rw [h1]; exact hi
        obtain ⟨hi2, hgt⟩ := inv_fsPut C st1.fs fs2 parent _ _ false hi1 (by simp) hp
        generalize htmp : C.env.tmpName st1.tmpCount (akeys cs) = tmp at h hgt
        rcases hc : opChmod C.env { st1 with fs := fs2, tmpCount := st1.tmpCount + 1 } parent tmp mode with ⟨b, st3⟩
        have hi3 := inv_opChmod C _ parent tmp mode b st3 hi2 hgt hc
        rw [hc] at h
        cases b with
        | false =>
          simp only at h
          rcases hu : opUnlink C.env st3 parent tmp with ⟨b2, st4⟩
          have := inv_opUnlink C st3 parent tmp b2 st4 hi3 hgt hu
          rw [hu] at h
          simp only [Prod.mk.injEq] at h; rw [← h.2]; exact this
        | true =>
          simp only at h
          rcases hh5 : hook C.env st3 .rename name with ⟨a5, st5⟩
          have h5 : st5.fs = st3.fs := by have := hook_fs C.env st3 .rename name; rw [hh5] at this; exact this
          have hi5 : Inv C st5.fs := by rw [h5]; exact hi3
          rw [hh5] at h
          simp only at h
          split at h
          · -- the intermediate file could not be moved
            rcases hu : opUnlink C.env st5 parent tmp with ⟨b2, st6⟩
            have := inv_opUnlink C st5 parent tmp b2 st6 hi5 hgt hu
            rw [hu] at h
            simp only [Prod.mk.injEq] at h; rw [← h.2]; exact this
          · rename_i fs7 hmoved
            simp only [Prod.mk.injEq] at h
            rw [← h.2]
            simp only
            -- `moved = some fs7`
            split at hmoved
            · simp at hmoved
            · cases hnode : (dirAt st5.fs parent).bind (aget tmp) with
              | none => rw [hnode] at hmoved; simp at hmoved
              | some node =>
                rw [hnode] at hmoved
                simp only at hmoved
                cases hp2 : fsPut st5.fs parent name node replace with
                | none => rw [hp2] at hmoved; simp at hmoved
                | some fs6 =>
                  rw [hp2] at hmoved
                  simp only [Option.bind_some] at hmoved
                  obtain ⟨hi6, _⟩ := inv_fsPut C st5.fs fs6 parent name node replace hi5 hg hp2
                  exact inv_fsUnlink C fs6 fs7 parent tmp hi6 hgt hmoved

theorem inv_findAndMove (C : Ctx) (st : St) (path : Path) (target : Entry) (parent : Handle) (name : Name)
    (replace : Bool) (r : Option String) (st' : St) (hi : Inv C st.fs)
    (hg : replace = true → ¬ G C (parent ++ [name]))
    (h : findAndMove C.env st path target parent name replace = (r, st')) : Inv C st'.fs := by
  unfold findAndMove at h
  simp only at h
  split at h
  · simp only [Prod.mk.injEq] at h; rw [← h.2]; exact hi
  · split at h
    · -- no staged file
      simp only [hook] at h
      grind
    · rename_i sf0 hsf
      split at h
      · simp only [Prod.mk.injEq] at h; rw [← h.2]; exact hi
      · generalize hsfv : (if (if target.props.executable = true then markExecutableForReaders C.env.fileMode
            else C.env.fileMode) % 512 != 0 then
            ({ sf0 with perm := (if target.props.executable = true then markExecutableForReaders C.env.fileMode
              else C.env.fileMode) % 512 } : SFile) else sf0) = sf at h
        generalize hmode : (if target.props.executable = true then markExecutableForReaders C.env.fileMode
            else C.env.fileMode) = mode at h
        rcases hh : hook C.env { st with staged := aset (path, target.props.digest) sf st.staged } .rename name
          with ⟨a, st1⟩
        have h1 : st1.fs = st.fs := by
          have := hook_fs C.env { st with staged := aset (path, target.props.digest) sf st.staged } .rename name
          rw [hh] at this; exact this
        have hi1 : Inv C st1.fs := by rw [h1]; exact hi
        rw [hh] at h
        simp only at h
        cases a with
        | exdev =>
          simp only at h
          exact inv_crossDevice C st1 _ sf mode parent name replace r st' hi1 hg h
        | fail => simp only [Prod.mk.injEq] at h; rw [← h.2]; exact hi1
        | pass =>
          simp only at h
          cases hp : fsPut st1.fs parent name sf.toNode replace with
          | none => rw [hp] at h; simp only [Prod.mk.injEq] at h; rw [← h.2]; exact hi1
          | some fs2 =>
            rw [hp] at h; simp only [Prod.mk.injEq] at h; rw [← h.2]
            exact (inv_fsPut C st1.fs fs2 parent name _ replace hi1 hg hp).1
        | cancel =>
          simp only at h
          cases hp : fsPut st1.fs parent name sf.toNode replace with
          | none => rw [hp] at h; simp only [Prod.mk.injEq] at h; rw [← h.2]; exact hi1
          | some fs2 =>
            rw [hp] at h; simp only [Prod.mk.injEq] at h; rw [← h.2]
            exact (inv_fsPut C st1.fs fs2 parent name _ replace hi1 hg hp).1

theorem inv_swapFile (C : Ctx) (hreg : CacheRegular C.env.cache) (st : St) (path : Path) (oldE newE : Entry)
    (r : Option String) (st' : St) (hi : Inv C st.fs) (he : C.ExpP path oldE.props)
    (h : swapFile C.env st path oldE newE = (r, st')) : Inv C st'.fs := by
  unfold swapFile at h
  have hws := walkToParent_spec C.env st path true
  rcases hwk : walkToParent C.env st path true with ⟨w, st1⟩
  rw [hwk] at hws h
  simp only at hws
  have hi1 : Inv C st1.fs := by rw [hws.1]; exact hi
  cases w with
  | none => simp only [Prod.mk.injEq] at h; rw [← h.2]; exact hi1
  | some hn =>
    obtain ⟨parent, name⟩ := hn
    have hq := hws.2 parent name rfl
    simp only at h
    rcases hc : ensureExpectedFile C.env st1 parent name path oldE with ⟨r1, st2⟩
    have hfs := (ensureExpectedFile_spec C.env st1 parent name path oldE r1 st2 hc).1
    have hi2 : Inv C st2.fs := by rw [hfs]; exact hi1
    rw [hc] at h
    cases r1 with
    | some e => simp only [Prod.mk.injEq] at h; rw [← h.2]; exact hi2
    | none =>
      have hg := notG_of_ensureExpectedFile C hreg st1 parent name path oldE st2 hi1 hq he hc
      simp only at h
      split at h
      · rcases hcm : opChmod C.env st2 parent name
            (if newE.props.executable = true then markExecutableForReaders C.env.fileMode else C.env.fileMode)
          with ⟨b, st3⟩
        have := inv_opChmod C st2 parent name _ b st3 hi2 hg hcm
        rw [hcm] at h
        cases b <;> (simp only [Prod.mk.injEq] at h; rw [← h.2]; exact this)
      · exact inv_findAndMove C st2 path newE parent name true r st' hi2 (fun _ => hg) h

theorem inv_createSymbolicLink (C : Ctx) (st : St) (parent : Handle) (name : Name) (path : Path) (target : Entry)
    (r : Option String) (st' : St) (hi : Inv C st.fs)
    (h : createSymbolicLink C.env st parent name path target = (r, st')) : Inv C st'.fs := by
  unfold createSymbolicLink at h
  split at h
  · simp only [Prod.mk.injEq] at h; rw [← h.2]; exact hi
  · split at h
    · simp only [Prod.mk.injEq] at h; rw [← h.2]; exact hi
    · split at h
      · simp only [Prod.mk.injEq] at h; rw [← h.2]; exact hi
      · rcases hh : hook C.env st .symlink name with ⟨a, st1⟩
        have h1 : st1.fs = st.fs := by have := hook_fs C.env st .symlink name; rw [hh] at this; exact this
        have hi1 : Inv C st1.fs := by rw [h1]; exact hi
        rw [hh] at h
        simp only at h
        split at h
        · simp only [Prod.mk.injEq] at h; rw [← h.2]; exact hi1
        · cases hs : fsSymlink st1.fs parent name target.props.target with
          | none => rw [hs] at h; simp only [Prod.mk.injEq] at h; rw [← h.2]; exact hi1
          | some fs2 =>
            rw [hs] at h
            simp only at h
            have hi2 := inv_fsSymlink C st1.fs fs2 parent name _ hi1 hs
            -- permission mode 0: the tree is not touched any more
            have hch : ∀ b st3, opChmod C.env { st1 with fs := fs2 } parent name 0 = (b, st3) → st3.fs = fs2 := by
              intro b st3 hc
              unfold opChmod hook at hc
              grind
            rcases hc : opChmod C.env { st1 with fs := fs2 } parent name 0 with ⟨b, st3⟩
            have h3 := hch b st3 hc
            rw [hc] at h
            cases b <;> (simp only [Prod.mk.injEq] at h; rw [← h.2]; simpa [h3] using hi2)

/-- What `createDirectory` must guarantee for its content loop. -/
def MkSpec (C : Ctx) (rec : MkRec) : Prop :=
  ∀ st h n p e, Inv C st.fs → Inv C (rec st h n p e).2.fs

theorem createLoop_spec (C : Ctx) (rec : MkRec) (hrec : MkSpec C rec) (dirH : Handle) (path : Path)
    (target : Contents) (names : List Name) :
    ∀ (acc : Contents) (st : St), Inv C st.fs →
      Inv C (createLoop C.env rec dirH path target names acc st).2.fs := by
  induction names with
  | nil => intro acc st hi; simpa [createLoop] using hi
  | cons n rest ih =>
    intro acc st hi
    unfold createLoop
    split
    · exact hi
    · cases hl : lookup n target with
      | none => exact ih acc st hi
      | some entry =>
        simp only
        split
        · have hr := hrec st dirH n (path ++ [n]) entry hi
          rcases hrc : rec st dirH n (path ++ [n]) entry with ⟨c, st1⟩
          rw [hrc] at hr
          cases c <;> exact ih _ _ hr
        · split
          · rcases hf : findAndMove C.env st (path ++ [n]) entry dirH n false with ⟨r, st1⟩
            have := inv_findAndMove C st (path ++ [n]) entry dirH n false r st1 hi (by simp) hf
            cases r <;> exact ih _ _ (by simpa using this)
          · split
            · rcases hf : createSymbolicLink C.env st dirH n (path ++ [n]) entry with ⟨r, st1⟩
              have := inv_createSymbolicLink C st dirH n (path ++ [n]) entry r st1 hi hf
              cases r <;> exact ih _ _ (by simpa using this)
            · exact ih _ _ (by simpa using hi)

theorem createDirectory_spec (C : Ctx) (fuel : Nat) : MkSpec C (createDirectory C.env fuel) := by
  induction fuel with
  | zero => intro st h n p e hi; simpa [createDirectory] using hi
  | succ fuel ih =>
    intro st parent name path target hi
    unfold createDirectory
    split
    · simpa using hi
    · rcases hh : hook C.env st .mkdir name with ⟨a, st1⟩
      have h1 : st1.fs = st.fs := by have := hook_fs C.env st .mkdir name; rw [hh] at this; exact this
      have hi1 : Inv C st1.fs := by rw [h1]; exact hi
      simp only
      split
      · simpa using hi1
      · cases hm : fsMkdir st1.fs parent name with
        | none => simpa using hi1
        | some fs2 =>
          simp only
          obtain ⟨hi2, hg⟩ := inv_fsMkdir C st1.fs fs2 parent name hi1 hm
          rcases hc : opChmod C.env { st1 with fs := fs2 } parent name C.env.dirMode with ⟨b, st3⟩
          have hi3 := inv_opChmod C _ parent name _ b st3 hi2 hg hc
          cases b with
          | false => simpa using hi3
          | true =>
            simp only
            split
            · exact hi3
            · rcases hh4 : hook C.env st3 .opendir name with ⟨a4, st4⟩
              have h4 : st4.fs = st3.fs := by have := hook_fs C.env st3 .opendir name; rw [hh4] at this; exact this
              have hi4 : Inv C st4.fs := by rw [h4]; exact hi3
              simp only
              split
              · simpa using hi4
              · cases hd : dirAt st4.fs (parent ++ [name]) with
                | none => simpa using hi4
                | some cs =>
                  simp only
                  have := createLoop_spec C (createDirectory C.env fuel) ih (parent ++ [name]) path target.children
                    (C.env.ord (keys target.children)) [] st4 hi4
                  rcases hcl : createLoop C.env (createDirectory C.env fuel) (parent ++ [name]) path target.children
                    (C.env.ord (keys target.children)) [] st4 with ⟨acc, st5⟩
                  rw [hcl] at this
                  exact this

theorem inv_create (C : Ctx) (st : St) (path : Path) (target : Option Entry) (hi : Inv C st.fs) :
    Inv C (create C.env st path target).2.fs := by
  cases target with
  | none => simpa [create] using hi
  | some e =>
    unfold create
    have hws := walkToParent_spec C.env st path false
    rcases hwk : walkToParent C.env st path false with ⟨r, st1⟩
    rw [hwk] at hws
    simp only at hws
    have hi1 : Inv C st1.fs := by rw [hws.1]; exact hi
    cases r with
    | none => simpa using hi1
    | some hn =>
      obtain ⟨parent, name⟩ := hn
      simp only
      split
      · exact createDirectory_spec C e.size st1 parent name path e hi1
      · split
        · rcases hf : findAndMove C.env st1 path e parent name false with ⟨r, st2⟩
          have := inv_findAndMove C st1 path e parent name false r st2 hi1 (by simp) hf
          cases r <;> simpa using this
        · split
          · rcases hf : createSymbolicLink C.env st1 parent name path e with ⟨r, st2⟩
            have := inv_createSymbolicLink C st1 parent name path e r st2 hi1 hf
            cases r <;> simpa using this
          · simpa using hi1

/-! ## The whole transition -/

theorem inv_step (C : Ctx) (hreg : CacheRegular C.env.cache) (st : St) (t : Change) (hi : Inv C st.fs)
    (hw : ∀ e, t.old = some e → Within C t.path e) : Inv C (step C.env st t).2.fs := by
  unfold step
  split
  · simpa using hi
  · have hrm : ∀ o, o = t.old → Inv C (remove C.env st t.path o).2.fs :=
      fun o ho => inv_remove C hreg st t.path o hi (fun e he => hw e (by rw [← ho]; exact he))
    split
    · rename_i o n ho hn
      split
      · rcases hs : swapFile C.env st t.path o n with ⟨r, st1⟩
        have := inv_swapFile C hreg st t.path o n r st1 hi (hw o ho).props hs
        cases r <;> simpa using this
      · have h1 := hrm (some o) ho.symm
        rcases hr : remove C.env st t.path (some o) with ⟨r, st1⟩
        rw [hr] at h1
        cases r with
        | some e => exact h1
        | none => exact inv_create C st1 t.path (some n) h1
    · have h1 := hrm t.old rfl
      rcases hr : remove C.env st t.path t.old with ⟨r, st1⟩
      rw [hr] at h1
      cases r with
      | some e => exact h1
      | none => exact inv_create C st1 t.path t.new h1

theorem inv_transition (C : Ctx) (hreg : CacheRegular C.env.cache) (plan : List Change) :
    ∀ (st : St), Inv C st.fs → (∀ t ∈ plan, ∀ e, t.old = some e → Within C t.path e) →
      Inv C (transition C.env st plan).2.fs := by
  induction plan with
  | nil => intro st hi _; simpa [transition] using hi
  | cons t ts ih =>
    intro st hi hw
    unfold transition
    have h1 := inv_step C hreg st t hi (hw t (by simp))
    rcases hs : step C.env st t with ⟨r, st1⟩
    rw [hs] at h1
    have h2 := ih st1 h1 (fun t' ht' => hw t' (by simp [ht']))
    rcases htr : transition C.env st1 ts with ⟨rs, st2⟩
    rw [htr] at h2
    simp only [htr]
    exact h2

end Mutagen.Proofs.FS
