import Mutagen.Model.Atomic
/-!
Helper lemmas for C27: the abstract directory, events that only touch the
temporary file, the shape of the event sequence of `writeFileAtomic`.
-/
namespace Mutagen.Proofs.Atomic
open Mutagen.Model.Atomic

/-! ## Directory -/

theorem get_erase_same (d : Dir) (n : Name) : (d.erase n).get n = none := by
  induction d with
  | nil => rfl
  | cons e rest ih =>
    obtain ⟨m, f⟩ := e
    by_cases h : m = n
    · simp [Dir.erase, h] at ih ⊢; exact ih
    · simp [Dir.erase, h, Dir.get] at ih ⊢; exact ih

theorem get_erase_other (d : Dir) (n m : Name) (h : m ≠ n) : (d.erase n).get m = d.get m := by
  induction d with
  | nil => rfl
  | cons e rest ih =>
    obtain ⟨k, f⟩ := e
    by_cases hk : k = n
    · have : k ≠ m := by rw [hk]; exact fun h' => h h'.symm
      simp [Dir.erase, hk, Dir.get] at ih ⊢
      rw [if_neg (by rw [← hk]; exact this)]
      exact ih
    · simp only [Dir.erase, List.filter_cons, hk, ne_eq, not_false_eq_true, decide_true, if_true, Dir.get] at ih ⊢
      split
      · rfl
      · exact ih

theorem get_set_same (d : Dir) (n : Name) (f : File) : (d.set n f).get n = some f := by
  simp [Dir.set, Dir.get]

theorem get_set_other (d : Dir) (n m : Name) (f : File) (h : m ≠ n) : (d.set n f).get m = d.get m := by
  simp only [Dir.set, Dir.get]
  rw [if_neg (fun h' => h h'.symm)]
  exact get_erase_other d n m h

/-! ## Events that cannot affect anything but the temporary file -/

/-- The operation names only `tmp`. -/
def onlyTmp (tmp : Name) : Op → Prop
  | .create n => n = tmp
  | .write n _ => n = tmp
  | .close n => n = tmp
  | .chmod n _ => n = tmp
  | .rename _ _ => False
  | .unlink n => n = tmp
  | .rmdir n => n = tmp

/-- The event failed (no effect) or names only `tmp`. -/
def harmless (tmp : Name) (e : Event) : Prop := e.2 = false ∨ onlyTmp tmp e.1

theorem apply_onlyTmp (tmp : Name) (o : Op) (h : onlyTmp tmp o) (d : Dir) (n : Name) (hn : n ≠ tmp) :
    (o.apply d).get n = d.get n := by
  cases o with
  | create m => simp only [onlyTmp] at h; subst h; simp [Op.apply, get_set_other _ _ _ _ hn]
  | write m bs =>
    simp only [onlyTmp] at h; subst h
    simp only [Op.apply]; split
    · exact get_set_other _ _ _ _ hn
    · rfl
  | close m => rfl
  | chmod m mode =>
    simp only [onlyTmp] at h; subst h
    simp only [Op.apply]; split
    · exact get_set_other _ _ _ _ hn
    · rfl
  | rename s t => exact absurd h (by simp [onlyTmp])
  | unlink m => simp only [onlyTmp] at h; subst h; exact get_erase_other _ _ _ hn
  | rmdir m => rfl

theorem apply_harmless (tmp : Name) (e : Event) (h : harmless tmp e) (d : Dir) (n : Name) (hn : n ≠ tmp) :
    (Event.apply d e).get n = d.get n := by
  unfold Event.apply
  rcases h with h | h
  · simp [h]
  · split
    · exact apply_onlyTmp tmp _ h d n hn
    · rfl

theorem replay_harmless (tmp : Name) (es : List Event) (h : ∀ e ∈ es, harmless tmp e) (d : Dir)
    (n : Name) (hn : n ≠ tmp) : (replay d es).get n = d.get n := by
  induction es generalizing d with
  | nil => rfl
  | cons e rest ih =>
    simp only [replay, List.foldl_cons]
    have := ih (fun e' he' => h e' (List.mem_cons_of_mem _ he')) (Event.apply d e)
    simp only [replay] at this
    rw [this, apply_harmless tmp e (h e (List.mem_cons_self ..)) d n hn]

theorem replay_append (d : Dir) (a b : List Event) : replay d (a ++ b) = replay (replay d a) b := by
  simp [replay, List.foldl_append]

/-- Effect of the final rename when the temporary name holds the file `new`. -/
theorem rename_effect (d : Dir) (tmp path : Name) (new : File) (h : d.get tmp = some new) (hne : tmp ≠ path) :
    (replay d [(Op.rename tmp path, true)]).get path = some new ∧
    (replay d [(Op.rename tmp path, true)]).get tmp = none ∧
    ∀ n, n ≠ tmp → n ≠ path → (replay d [(Op.rename tmp path, true)]).get n = d.get n := by
  simp only [replay, List.foldl_cons, List.foldl_nil, Event.apply, if_true, Op.apply, h]
  refine ⟨get_set_same _ _ _, ?_, ?_⟩
  · rw [get_set_other _ _ _ _ hne, get_erase_same]
  · intro n hn hp; rw [get_set_other _ _ _ _ hp, get_erase_other _ _ _ hn]

/-! ## `os.File.Write` -/

theorem fileWrite_harmless (tmp : Name) : ∀ (fuel : Nat) (data : Content) (script : List (Option Nat)),
    ∀ e ∈ (fileWrite tmp fuel data script).1, harmless tmp e
  | 0, _, _ => by simp [fileWrite]
  | fuel + 1, data, script => by
    intro e he
    cases script with
    | nil => simp [fileWrite] at he; subst he; exact Or.inr rfl
    | cons r rest =>
      cases r with
      | none => simp [fileWrite] at he; subst he; exact Or.inr rfl
      | some k =>
        simp only [fileWrite] at he
        split at he
        · simp at he; subst he; exact Or.inr rfl
        · split at he
          · simp at he; subst he; exact Or.inr rfl
          · simp only [List.mem_cons] at he
            rcases he with rfl | he
            · exact Or.inr rfl
            · exact fileWrite_harmless tmp fuel _ rest e he

/-- A successful `Write` appends exactly `data` to the file. -/
theorem fileWrite_content (tmp : Name) : ∀ (fuel : Nat) (data : Content) (script : List (Option Nat)) (d : Dir) (f : File),
    (fileWrite tmp fuel data script).2 = true → d.get tmp = some f →
    (replay d (fileWrite tmp fuel data script).1).get tmp = some { f with content := f.content ++ data }
  | 0, _, _, _, _ => by simp [fileWrite]
  | fuel + 1, data, script, d, f => by
    intro hok hget
    cases script with
    | nil => simp [fileWrite, replay, Event.apply, Op.apply, hget, get_set_same]
    | cons r rest =>
      cases r with
      | none => simp [fileWrite] at hok
      | some k =>
        simp only [fileWrite] at hok ⊢
        split
        · simp [replay, Event.apply, Op.apply, hget, get_set_same]
        · rename_i hk
          rw [if_neg hk] at hok
          split
          · rename_i hk0; rw [if_pos hk0] at hok; simp at hok
          · rename_i hk0
            rw [if_neg hk0] at hok
            simp only [replay, List.foldl_cons, Event.apply, if_true, Op.apply, hget]
            have := fileWrite_content tmp fuel (data.drop (min k data.length)) rest
              (d.set tmp { f with content := f.content ++ data.take (min k data.length) })
              { f with content := f.content ++ data.take (min k data.length) } hok (get_set_same _ _ _)
            simp only [replay] at this
            rw [this]
            simp [List.append_assoc, List.take_append_drop]

/-- Each recursive call consumes at least one byte: the fuel `|data| + 1` is
never the reason `fileWrite` stops. -/
theorem fileWrite_fuel (tmp : Name) : ∀ (fuel fuel' : Nat) (data : Content) (script : List (Option Nat)),
    data.length < fuel → data.length < fuel' → fileWrite tmp fuel data script = fileWrite tmp fuel' data script
  | 0, _, _, _, h, _ => by omega
  | _ + 1, 0, _, _, _, h => by omega
  | fuel + 1, fuel' + 1, data, script, h, h' => by
    cases script with
    | nil => simp [fileWrite]
    | cons r rest =>
      cases r with
      | none => simp [fileWrite]
      | some k =>
        simp only [fileWrite]
        split
        · rfl
        · rename_i hk
          split
          · rfl
          · rename_i hk0
            have hlen : (data.drop (min k data.length)).length < data.length := by
              simp only [List.length_drop]; omega
            rw [fileWrite_fuel tmp fuel fuel' _ rest (by omega) (by omega)]

/-! ## Shape of the event sequence -/

theorem osRemove_harmless (tmp : Name) (fails : Bool) : ∀ e ∈ osRemove tmp fails, harmless tmp e := by
  intro e he
  unfold osRemove at he
  split at he
  · simp at he; rcases he with rfl | rfl <;> exact Or.inl rfl
  · simp at he; subst he; exact Or.inr rfl

/-- After the cleanup `os.Remove` succeeded the temporary file is gone. -/
theorem osRemove_erases (tmp : Name) (d : Dir) : (replay d (osRemove tmp false)).get tmp = none := by
  simp [osRemove, replay, Event.apply, Op.apply, get_erase_same]

/-- A failed `WriteFileAtomic` performed only harmless events; a successful one
performed harmless events that left the complete new file under the temporary
name, followed by the rename. -/
theorem writeFileAtomic_shape (tmp path : Name) (data : Content) (perm : Nat) (f : Faults) :
    ((writeFileAtomic tmp path data perm f).2 ≠ .ok →
        ∀ e ∈ (writeFileAtomic tmp path data perm f).1, harmless tmp e) ∧
    ((writeFileAtomic tmp path data perm f).2 = .ok →
        ∃ A, (writeFileAtomic tmp path data perm f).1 = A ++ [(Op.rename tmp path, true)] ∧
          (∀ e ∈ A, harmless tmp e) ∧
          ∀ d, (replay d A).get tmp = some { content := data, mode := perm }) := by
  unfold writeFileAtomic
  have hw := fileWrite_harmless tmp (data.length + 1) data f.writeScript
  have hr := osRemove_harmless tmp f.removeFails
  by_cases h1 : f.createFails = true
  · simp only [h1, if_true]
    refine ⟨fun _ e he => ?_, fun h => by simp at h⟩
    simp at he; subst he; exact Or.inl rfl
  · simp only [h1]
    by_cases h2 : (fileWrite tmp (data.length + 1) data f.writeScript).2 = true
    · simp only [h2, Bool.not_true]
      by_cases h3 : f.closeFails = true
      · simp only [h3, if_true]
        refine ⟨fun _ e he => ?_, fun h => by simp at h⟩
        simp only [List.mem_append, List.mem_cons, List.not_mem_nil, or_false, Bool.false_eq_true, if_false] at he
        rcases he with ((rfl | he) | rfl) | he
        · exact Or.inr rfl
        · exact hw e he
        · exact Or.inl rfl
        · exact hr e he
      · simp only [h3]
        by_cases h4 : f.chmodFails = true
        · simp only [h4, if_true]
          refine ⟨fun _ e he => ?_, fun h => by simp at h⟩
          simp only [List.mem_append, List.mem_cons, List.not_mem_nil, or_false, Bool.false_eq_true, if_false] at he
          rcases he with (((rfl | he) | rfl) | rfl) | he
          · exact Or.inr rfl
          · exact hw e he
          · exact Or.inr rfl
          · exact Or.inl rfl
          · exact hr e he
        · simp only [h4]
          by_cases h5 : f.renameFails = true
          · simp only [h5, if_true]
            refine ⟨fun _ e he => ?_, fun h => by simp at h⟩
            simp only [List.mem_append, List.mem_cons, List.not_mem_nil, or_false, Bool.false_eq_true, if_false] at he
            rcases he with ((((rfl | he) | rfl) | rfl) | rfl) | he
            · exact Or.inr rfl
            · exact hw e he
            · exact Or.inr rfl
            · exact Or.inr rfl
            · exact Or.inl rfl
            · exact hr e he
          · simp only [h5, Bool.false_eq_true, if_false]
            refine ⟨fun h => absurd rfl h, fun _ => ⟨_, rfl, ?_, ?_⟩⟩
            · intro e he
              simp only [List.mem_append, List.mem_cons, List.not_mem_nil, or_false] at he
              rcases he with (((rfl | he) | rfl) | rfl)
              · exact Or.inr rfl
              · exact hw e he
              · exact Or.inr rfl
              · exact Or.inr rfl
            · intro d
              rw [replay_append, replay_append, replay_append]
              have hc : (replay d [(Op.create tmp, true)]).get tmp = some { content := [], mode := 0o600 } := by
                simp [replay, Event.apply, Op.apply, get_set_same]
              have := fileWrite_content tmp (data.length + 1) data f.writeScript _ _ h2 hc
              simp [replay, Event.apply, Op.apply] at this ⊢
              simp [this, get_set_same]
    · have h2' : (fileWrite tmp (data.length + 1) data f.writeScript).2 = false := by simpa using h2
      simp only [h2', Bool.not_false, if_true]
      refine ⟨fun _ e he => ?_, fun h => by simp at h⟩
      simp only [List.mem_append, List.mem_cons, List.not_mem_nil, or_false, Bool.false_eq_true, if_false] at he
      rcases he with ((rfl | he) | rfl) | he
      · exact Or.inr rfl
      · exact hw e he
      · exact Or.inr rfl
      · exact hr e he

/-- After a reported failure whose cleanup `os.Remove` succeeded, no temporary
file is left (given that the temporary name was fresh, as `O_EXCL` guarantees). -/
theorem writeFileAtomic_cleanup (tmp path : Name) (data : Content) (perm : Nat) (f : Faults) (d : Dir)
    (hres : (writeFileAtomic tmp path data perm f).2 ≠ .ok) (hrm : f.removeFails = false)
    (hfresh : d.get tmp = none) :
    (replay d (writeFileAtomic tmp path data perm f).1).get tmp = none := by
  unfold writeFileAtomic at hres ⊢
  by_cases h1 : f.createFails = true
  · simp [h1, replay, Event.apply, hfresh]
  · have h1' : f.createFails = false := by simpa using h1
    simp only [h1', Bool.false_eq_true, ↓reduceIte] at hres ⊢
    by_cases h2 : (fileWrite tmp (data.length + 1) data f.writeScript).2 = true
    · simp only [h2, Bool.not_true, Bool.false_eq_true, ↓reduceIte] at hres ⊢
      by_cases h3 : f.closeFails = true
      · simp only [h3, ↓reduceIte, hrm]
        rw [replay_append]; exact osRemove_erases tmp _
      · have h3' : f.closeFails = false := by simpa using h3
        simp only [h3', Bool.false_eq_true, ↓reduceIte] at hres ⊢
        by_cases h4 : f.chmodFails = true
        · simp only [h4, ↓reduceIte, hrm]
          rw [replay_append]; exact osRemove_erases tmp _
        · have h4' : f.chmodFails = false := by simpa using h4
          simp only [h4', Bool.false_eq_true, ↓reduceIte] at hres ⊢
          by_cases h5 : f.renameFails = true
          · simp only [h5, ↓reduceIte, hrm]
            rw [replay_append]; exact osRemove_erases tmp _
          · simp [h5] at hres
    · have h2' : (fileWrite tmp (data.length + 1) data f.writeScript).2 = false := by simpa using h2
      simp only [h2', Bool.not_false, ↓reduceIte, hrm]
      rw [replay_append]; exact osRemove_erases tmp _

/-- The reported result names the first step that failed. -/
theorem writeFileAtomic_result (tmp path : Name) (data : Content) (perm : Nat) (f : Faults) :
    (writeFileAtomic tmp path data perm f).2 =
      if f.createFails then .errCreate
      else if !(fileWrite tmp (data.length + 1) data f.writeScript).2 then .errWrite
      else if f.closeFails then .errClose
      else if f.chmodFails then .errChmod
      else if f.renameFails then .errRename
      else .ok := by
  unfold writeFileAtomic
  by_cases h1 : f.createFails = true
  · simp [h1]
  · simp only [h1]
    by_cases h2 : (fileWrite tmp (data.length + 1) data f.writeScript).2 = true
    · simp only [h2, Bool.not_true]
      by_cases h3 : f.closeFails = true
      · simp [h3]
      · simp only [h3]
        by_cases h4 : f.chmodFails = true
        · simp [h4]
        · simp only [h4]
          by_cases h5 : f.renameFails = true <;> simp [h5]
    · have h2' : (fileWrite tmp (data.length + 1) data f.writeScript).2 = false := by simpa using h2
      simp [h2']

end Mutagen.Proofs.Atomic
