import Mutagen.Model.Entry
/-!
Helper lemmas about the entry-tree model (`Mutagen.Model.Entry`): unfolding
equations without `attach`, association-list facts, the tree predicates used
as hypotheses (`NodupKeys`, `AllSync`) and the building blocks of the C07
theorems.
-/
namespace Mutagen.Model

/-! ## Lists -/

theorem flatMap_attach_val {α β} (l : List α) (f : α → List β) :
    l.attach.flatMap (fun x => f x.1) = l.flatMap f := by
  have h : l.attach.flatMap (fun x => f x.1) = (l.attach.map Subtype.val).flatMap f := by
    rw [List.flatMap_map]
  rw [h, List.attach_map_subtype_val]

theorem map_attach_val {α β} (l : List α) (f : α → β) :
    l.attach.map (fun x => f x.1) = l.map f := by
  have h : l.attach.map (fun x => f x.1) = (l.attach.map Subtype.val).map f := by
    rw [List.map_map]; rfl
  rw [h, List.attach_map_subtype_val]

theorem flatMap_eq_nil_of_forall {α β} (l : List α) (f : α → List β) (h : ∀ a ∈ l, f a = []) :
    l.flatMap f = [] := by
  induction l with
  | nil => rfl
  | cons a t ih =>
    simp only [List.flatMap_cons]
    rw [h a (by simp), ih (fun b hb => h b (by simp [hb]))]
    rfl

theorem nodup_dedup (l : List Name) : (dedup l).Nodup := by
  induction l with
  | nil => simp [dedup]
  | cons a t ih =>
    simp only [dedup]
    split
    · exact ih
    · rename_i h
      exact List.nodup_cons.mpr ⟨fun hm => h (mem_dedup.mp hm), ih⟩

theorem nodup_nameUnion (ms : List Contents) : (nameUnion ms).Nodup := nodup_dedup _

/-! ## Association lists -/

theorem lookup_eq_none_iff {n : Name} {cs : Contents} : lookup n cs = none ↔ n ∉ keys cs := by
  induction cs with
  | nil => simp [lookup, keys]
  | cons h t ih =>
    obtain ⟨m, e⟩ := h
    simp only [lookup, keys, List.map_cons, List.mem_cons]
    split
    · rename_i hm; simp [hm]
    · rename_i hm
      have : ¬ n = m := fun h => hm h.symm
      simp only [keys] at ih
      simp [ih, this]

theorem lookup_isSome_iff {n : Name} {cs : Contents} : (lookup n cs).isSome ↔ n ∈ keys cs := by
  rw [Option.isSome_iff_ne_none]
  exact (not_congr lookup_eq_none_iff).trans Classical.not_not

theorem lookup_mem {n : Name} {cs : Contents} {e : Entry} (h : lookup n cs = some e) : (n, e) ∈ cs := by
  induction cs with
  | nil => simp [lookup] at h
  | cons hd t ih =>
    obtain ⟨m, c⟩ := hd
    simp only [lookup] at h
    split at h
    · rename_i hm; cases h; simp [hm]
    · exact List.mem_cons_of_mem _ (ih h)

theorem lookup_upsert (k n : Name) (e : Entry) (cs : Contents) :
    lookup k (upsert n e cs) = if k = n then some e else lookup k cs := by
  induction cs with
  | nil =>
    simp only [upsert, lookup]
    split
    · rename_i h; simp [h]
    · rename_i h
      have : ¬ k = n := fun h' => h h'.symm
      simp [this]
  | cons hd t ih =>
    obtain ⟨m, c⟩ := hd
    simp only [upsert]
    split
    · rename_i hm
      subst hm
      simp only [lookup]
      split
      · rename_i h; simp [h]
      · rename_i h
        have : ¬ k = m := fun h' => h h'.symm
        simp [this]
    · rename_i hm
      simp only [lookup]
      split
      · rename_i h
        subst h
        simp [hm]
      · exact ih

theorem lookup_erase (k n : Name) (cs : Contents) :
    lookup k (erase n cs) = if k = n then none else lookup k cs := by
  induction cs with
  | nil => simp [erase, lookup]
  | cons hd t ih =>
    obtain ⟨m, c⟩ := hd
    simp only [erase]
    split
    · rename_i hm
      subst hm
      rw [ih]
      simp only [lookup]
      split
      · rfl
      · rename_i h
        have : ¬ m = k := fun h' => h h'.symm
        simp [this]
    · rename_i hm
      simp only [lookup]
      split
      · rename_i h
        subst h
        simp [hm]
      · exact ih

theorem keys_upsert (n : Name) (e : Entry) (cs : Contents) :
    keys (upsert n e cs) = if n ∈ keys cs then keys cs else keys cs ++ [n] := by
  induction cs with
  | nil => simp [upsert, keys]
  | cons hd t ih =>
    obtain ⟨m, c⟩ := hd
    simp only [upsert]
    split
    · rename_i hm; subst hm; simp [keys]
    · rename_i hm
      have hne : ¬ n = m := fun h => hm h.symm
      simp only [keys, List.map_cons, List.mem_cons, hne, false_or] at ih ⊢
      rw [ih]
      split <;> simp [*]

theorem mem_keys_erase {k n : Name} {cs : Contents} : k ∈ keys (erase n cs) ↔ k ≠ n ∧ k ∈ keys cs := by
  rw [← lookup_isSome_iff, lookup_erase, ← lookup_isSome_iff]
  split
  · rename_i h; simp [h]
  · rename_i h; simp [h]

theorem keys_erase_sublist (n : Name) (cs : Contents) : (keys (erase n cs)).Sublist (keys cs) := by
  induction cs with
  | nil => simp [erase, keys]
  | cons hd t ih =>
    obtain ⟨m, c⟩ := hd
    simp only [erase]
    split
    · exact List.Sublist.cons _ ih
    · simp only [keys, List.map_cons] at ih ⊢
      exact List.Sublist.cons_cons _ ih

theorem nodup_keys_erase {n : Name} {cs : Contents} (h : (keys cs).Nodup) : (keys (erase n cs)).Nodup :=
  List.Nodup.sublist (keys_erase_sublist n cs) h

theorem nodup_keys_upsert {n : Name} {e : Entry} {cs : Contents} (h : (keys cs).Nodup) :
    (keys (upsert n e cs)).Nodup := by
  rw [keys_upsert]
  split
  · exact h
  · rename_i hn
    rw [List.nodup_append]
    refine ⟨h, by simp, ?_⟩
    intro a ha b hb
    simp only [List.mem_cons, List.not_mem_nil, or_false] at hb
    subst hb
    exact fun hab => hn (hab ▸ ha)

/-! ## Unfolding `diff` without `attach` -/

theorem diff_eq (path : Path) (base target : Option Entry) :
    diff path base target =
      if !shallowEq target base then [{ path := path, old := base, new := target }]
      else (nameUnion [contents base, contents target]).flatMap fun n =>
        diff (path ++ [n]) (lookup n (contents base)) (lookup n (contents target)) := by
  rw [diff]
  split
  · rfl
  · exact flatMap_attach_val _
      (fun n => diff (path ++ [n]) (lookup n (contents base)) (lookup n (contents target)))

theorem shallowEq_refl (a : Option Entry) : shallowEq a a = true := by
  cases a <;> simp [shallowEq]

theorem shallowEq_comm (a b : Option Entry) : shallowEq a b = shallowEq b a := by
  cases a <;> cases b <;> simp [shallowEq, Bool.beq_comm]

/-- `diff a a = []` at every path. -/
theorem diff_same (path : Path) (a b : Option Entry) (h : a = b) : diff path a b = [] := by
  fun_induction diff path a b with
  | case1 path base target hne =>
    subst h
    simp [shallowEq_refl] at hne
  | case2 path base target heq ih =>
    subst h
    rw [flatMap_attach_val _ (fun n => diff (path ++ [n]) (lookup n (contents base)) (lookup n (contents base)))]
    apply flatMap_eq_nil_of_forall
    intro n hn
    exact ih ⟨n, hn⟩ rfl

/-! ## Copy -/

mutual
theorem Entry.copy_deep (e : Entry) : e.copy .deep = e :=
  match e with
  | .mk p cs => by simp [Entry.copy, Entry.copyL_deep cs]
theorem Entry.copyL_deep (cs : Contents) : Entry.copyL .deep cs = cs :=
  match cs with
  | [] => by simp [Entry.copyL]
  | (n, c) :: r => by simp [Entry.copyL, Entry.copy_deep c, Entry.copyL_deep r]
end

mutual
theorem Entry.copy_dpl (e : Entry) : e.copy .deepPreservingLeaves = e :=
  match e with
  | .mk p cs => by simp [Entry.copy, Entry.copyL_dpl cs]
theorem Entry.copyL_dpl (cs : Contents) : Entry.copyL .deepPreservingLeaves cs = cs :=
  match cs with
  | [] => by simp [Entry.copyL]
  | (n, c) :: r => by
    simp only [Entry.copyL, Entry.copy_dpl c, Entry.copyL_dpl r]
    split <;> rfl
end

theorem Entry.copy_shallow (e : Entry) : e.copy .shallow = e := by
  cases e; simp [Entry.copy]

theorem Entry.copy_slim (e : Entry) : e.copy .slim = .mk e.props [] := by
  cases e; simp [Entry.copy, Entry.props]


/-! ## Validity unpacking -/

theorem Entry.nodupKeys_mk {p : Props} {cs : Contents} (h : (Entry.mk p cs).nodupKeys = true) :
    (keys cs).Nodup ∧ Entry.nodupKeysL cs = true := by
  simpa [Entry.nodupKeys] using h

theorem Entry.nodupKeysL_lookup {cs : Contents} (h : Entry.nodupKeysL cs = true) {n : Name} {c : Entry}
    (hl : lookup n cs = some c) : c.nodupKeys = true := by
  induction cs with
  | nil => simp [lookup] at hl
  | cons hd t ih =>
    obtain ⟨m, d⟩ := hd
    simp only [Entry.nodupKeysL, Bool.and_eq_true] at h
    simp only [lookup] at hl
    split at hl
    · cases hl; exact h.1
    · exact ih h.2 hl

theorem Entry.ensureValidL_lookup {s : Bool} {cs : Contents} (h : Entry.ensureValidL s cs = true) {n : Name}
    {c : Entry} (hl : lookup n cs = some c) : c.ensureValid s = true := by
  induction cs with
  | nil => simp [lookup] at hl
  | cons hd t ih =>
    obtain ⟨m, d⟩ := hd
    simp only [Entry.ensureValidL, Bool.and_eq_true] at h
    simp only [lookup] at hl
    split at hl
    · cases hl; exact h.1.2
    · exact ih h.2 hl

/-- What `EnsureValid` says about the node itself. -/
theorem Entry.ensureValid_mk {s : Bool} {p : Props} {cs : Contents} (h : (Entry.mk p cs).ensureValid s = true) :
    (p.kind = .directory → p.problem = "" ∧ Entry.ensureValidL s cs = true) ∧
    (p.kind = .phantom → Entry.ensureValidL s cs = true) ∧
    (p.kind ≠ .directory → p.kind ≠ .phantom → cs = []) := by
  unfold Entry.ensureValid at h
  split at h
  all_goals simp_all
  obtain ⟨⟨⟨⟨⟨hs, _⟩, _⟩, _⟩, _⟩, hv⟩ := h
  subst hs; exact hv

@[simp] theorem getPath_none (q : Path) : getPath none q = none := by
  induction q with
  | nil => rfl
  | cons n q ih => simpa [getPath, contents, lookup] using ih

@[simp] theorem pget_none (q : Path) : pget none q = none := by simp [pget]

/-! ## The synchronizable filter -/

theorem keys_syncL_subset (cs : Contents) : ∀ n, n ∈ keys (Entry.synchronizableL cs) → n ∈ keys cs := by
  induction cs with
  | nil => simp [Entry.synchronizableL, keys]
  | cons hd t ih =>
    obtain ⟨m, c⟩ := hd
    intro n hn
    simp only [Entry.synchronizableL] at hn
    split at hn
    · simp only [keys, List.map_cons, List.mem_cons]; exact Or.inr (ih n hn)
    · simp only [keys, List.map_cons, List.mem_cons] at hn ⊢
      rcases hn with h | h
      · exact Or.inl h
      · exact Or.inr (ih n h)

theorem lookup_syncL (n : Name) (cs : Contents) (h : (keys cs).Nodup) :
    lookup n (Entry.synchronizableL cs) = (lookup n cs).bind Entry.synchronizable := by
  induction cs with
  | nil => simp [Entry.synchronizableL, lookup]
  | cons hd t ih =>
    obtain ⟨m, c⟩ := hd
    simp only [keys, List.map_cons, List.nodup_cons] at h
    have iht := ih h.2
    simp only [Entry.synchronizableL]
    split
    · rename_i hc
      simp only [lookup]
      split
      · rename_i hmn
        subst hmn
        simp only [Option.bind_some, hc]
        exact lookup_eq_none_iff.mpr (fun hk => h.1 (keys_syncL_subset t m hk))
      · exact iht
    · rename_i c' hc
      simp only [lookup]
      split
      · simp [hc]
      · exact iht


/-- The filter on a valid node: dropped iff its kind is unsynchronizable,
otherwise the same scalar fields and the filtered children. -/
theorem Entry.synchronizable_node {p : Props} {cs : Contents}
    (hn : (Entry.mk p cs).nodupKeys = true) (hv : (Entry.mk p cs).ensureValid false = true) :
    (p.kind.synchronizable = false → (Entry.mk p cs).synchronizable = none) ∧
    (p.kind.synchronizable = true → ∃ cs', (Entry.mk p cs).synchronizable = some (.mk p cs') ∧
      ∀ n, lookup n cs' = (lookup n cs).bind Entry.synchronizable) := by
  have hk := Entry.nodupKeys_mk hn
  have hvm := Entry.ensureValid_mk hv
  constructor
  · intro h; simp [Entry.synchronizable, h]
  · intro h
    unfold Entry.synchronizable
    simp only [h, Bool.not_true, Bool.false_eq_true, ↓reduceIte]
    by_cases hd : p.kind = .directory
    · simp only [hd, bne_self_eq_false, Bool.false_eq_true, ↓reduceIte]
      by_cases he : cs.isEmpty = true
      · simp only [he, ↓reduceIte]
        refine ⟨cs, rfl, fun n => ?_⟩
        have : cs = [] := by simpa using he
        subst this
        simp [lookup]
      · simp only [he, Bool.false_eq_true, ↓reduceIte]
        refine ⟨Entry.synchronizableL cs, ?_, fun n => lookup_syncL n cs hk.1⟩
        have hp := (hvm.1 hd).1
        cases p
        simp_all
    · have hph : p.kind ≠ .phantom := by
        intro hph; rw [hph] at h; simp [Kind.synchronizable] at h
      have hcs := hvm.2.2 hd hph
      subst hcs
      have : (p.kind != Kind.directory) = true := by simpa using hd
      simp only [this, ↓reduceIte]
      exact ⟨[], rfl, fun n => by simp [lookup]⟩

/-- **Filter exactness**: on a valid tree, the synchronizable filter keeps a
path iff the entry there and all its ancestors have synchronizable kinds, and
keeps the scalar fields of every kept entry — i.e. it removes exactly the
untracked, problematic and phantom sub-trees. -/
theorem sync_pget (e : Option Entry) (hv : Valid e) (q : Path) :
    pget (osync e) q = if syncAlong e q then pget e q else none := by
  induction q generalizing e with
  | nil =>
    cases e with
    | none => simp [osync, pget, getPath, syncAlong]
    | some e =>
      cases e with
      | mk p cs =>
        have hnode := Entry.synchronizable_node hv.1 hv.2
        cases hs : p.kind.synchronizable with
        | false => simp [osync, hnode.1 hs, pget, getPath, syncAlong, Entry.kind, Entry.props, hs]
        | true =>
          obtain ⟨cs', h1, _⟩ := hnode.2 hs
          simp [osync, h1, pget, getPath, syncAlong, Entry.kind, Entry.props, hs]
  | cons n q ih =>
    cases e with
    | none => simp [osync, pget, getPath, syncAlong, contents, lookup]
    | some e =>
      cases e with
      | mk p cs =>
        have hnode := Entry.synchronizable_node hv.1 hv.2
        cases hs : p.kind.synchronizable with
        | false =>
          simp [osync, hnode.1 hs, pget, getPath, syncAlong, Entry.kind, Entry.props, hs, contents, lookup]
        | true =>
          obtain ⟨cs', h1, h2⟩ := hnode.2 hs
          have hk := Entry.nodupKeys_mk (p := p) hv.1
          have hvl : Entry.ensureValidL false cs = true ∨ cs = [] := by
            have hvm := Entry.ensureValid_mk (p := p) (s := false) hv.2
            by_cases hd : p.kind = .directory
            · exact Or.inl (hvm.1 hd).2
            · by_cases hph : p.kind = .phantom
              · exact Or.inl (hvm.2.1 hph)
              · exact Or.inr (hvm.2.2 hd hph)
          have hchild : Valid (lookup n cs) := by
            cases hl : lookup n cs with
            | none => exact ⟨rfl, rfl⟩
            | some c =>
              rcases hvl with hvl | hvl
              · exact ⟨Entry.nodupKeysL_lookup hk.2 hl, Entry.ensureValidL_lookup hvl hl⟩
              · subst hvl; simp [lookup] at hl
          have := ih (lookup n cs) hchild
          simp only [osync, h1, pget, getPath, contents, Entry.children, h2, syncAlong, Entry.kind,
            Entry.props, hs, Bool.true_and] at this ⊢
          rw [← this]
          cases hl : lookup n cs <;> simp

/-! ## Count -/

mutual
theorem Entry.count_eq (e : Entry) (hv : e.ensureValid false = true) : e.count = osz e.synchronizable :=
  match e with
  | .mk p cs => by
    have hvm := Entry.ensureValid_mk hv
    unfold Entry.count Entry.synchronizable
    cases hs : p.kind.synchronizable with
    | false => simp [osz]
    | true =>
      simp only [Bool.not_true, Bool.false_eq_true, ↓reduceIte]
      by_cases hd : p.kind = .directory
      · have ih := Entry.countL_eq cs (hvm.1 hd).2
        simp only [hd, bne_self_eq_false, Bool.false_eq_true, ↓reduceIte]
        by_cases he : cs.isEmpty = true
        · have : cs = [] := by simpa using he
          subst this
          simp [osz, Entry.size, Entry.sizeL, Entry.countL]
        · simp only [he, Bool.false_eq_true, ↓reduceIte, osz, Entry.size, ih]
      · have hph : p.kind ≠ .phantom := by
          intro hph; rw [hph] at hs; simp [Kind.synchronizable] at hs
        have hcs := hvm.2.2 hd hph
        subst hcs
        have : (p.kind != Kind.directory) = true := by simpa using hd
        simp [this, osz, Entry.size, Entry.sizeL, Entry.countL]
theorem Entry.countL_eq (cs : Contents) (hv : Entry.ensureValidL false cs = true) :
    Entry.countL cs = Entry.sizeL (Entry.synchronizableL cs) :=
  match cs with
  | [] => by simp [Entry.countL, Entry.synchronizableL, Entry.sizeL]
  | (n, c) :: r => by
    simp only [Entry.ensureValidL, Bool.and_eq_true] at hv
    have ih1 := Entry.count_eq c hv.1.2
    have ih2 := Entry.countL_eq r hv.2
    simp only [Entry.countL, Entry.synchronizableL]
    split
    · rename_i hc
      rw [hc] at ih1
      simp only [osz] at ih1
      omega
    · rename_i c' hc
      rw [hc] at ih1
      simp only [osz] at ih1
      simp only [Entry.sizeL]
      omega
end

/-! ## Concrete trees for non-vacuity examples -/

def exampleFile1 : Entry := .mk { kind := .file, digest := [1] } []
def exampleFile2 : Entry := .mk { kind := .file, digest := [2], executable := true } []
/-- A valid tree with untracked and problematic content. -/
def exampleTree1 : Entry :=
  .mk { kind := .directory } [("a", exampleFile1), ("u", .mk { kind := .untracked } []),
    ("d", .mk { kind := .directory }
      [("x", .mk { kind := .problematic, problem := "p" } []), ("b", exampleFile2)])]
/-- A valid, fully synchronizable tree. -/
def exampleTree2 : Entry :=
  .mk { kind := .directory } [("d", .mk { kind := .directory } [("b", exampleFile1)]), ("c", exampleFile2)]

end Mutagen.Model
