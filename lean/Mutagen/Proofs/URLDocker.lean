import Mutagen.Proofs.URLSSH
/-!
Round trip of Docker URLs through `formatDocker` (core Lean only).
-/
namespace Mutagen.Proofs.URL
open Mutagen.Model.URL

theorem splitCharacter_ne_at (kind : Kind) : splitCharacter kind ≠ '@' := by
  unfold splitCharacter
  by_cases h : kind = .synchronization <;> simp [h]

/-- What the user-name and container loops of `parseDocker` guarantee. -/
structure DockerHead (kind : Kind) (user container : Str) : Prop where
  container_ne : container ≠ []
  container_split : splitCharacter kind ∉ container
  container_at : user = [] → '@' ∉ container
  user_at : '@' ∉ user
  user_split : splitCharacter kind ∉ user

theorem docker_head_of_parse {kind : Kind} {body user raw1 : Str}
    (h1 : dockerUser kind body = .ok (user, raw1)) (h2 : (dockerContainer kind raw1).1 ≠ []) :
    ∃ rest, DockerHead kind user (dockerContainer kind raw1).1 ∧
      body = tgt user (dockerContainer kind raw1).1 ++ splitCharacter kind :: rest ∧
      (dockerContainer kind raw1).2 = splitCharacter kind :: rest := by
  unfold dockerContainer at h2 ⊢
  cases hs : splitAt (splitCharacter kind) raw1 with
  | none => simp [hs] at h2
  | some p =>
    obtain ⟨c, r⟩ := p
    simp only [hs] at h2 ⊢
    obtain ⟨e1, hc⟩ := splitAt_some hs
    refine ⟨r, ?_, ?_, rfl⟩
    · unfold dockerUser at h1
      cases hu : splitUser (splitCharacter kind) body with
      | none =>
        simp [hu] at h1
        obtain ⟨rfl, rfl⟩ := h1
        refine ⟨h2, hc, ?_, by simp, by simp⟩
        intro _
        rw [e1] at hu
        exact no_at_of_splitUser_none hc hu
      | some q =>
        obtain ⟨a, b⟩ := q
        cases a with
        | nil => simp [hu] at h1
        | cons a0 at' =>
          simp [hu] at h1
          obtain ⟨rfl, rfl⟩ := h1
          obtain ⟨_, ha, hcu⟩ := splitUser_some hu
          exact ⟨h2, hc, by simp, ha, hcu⟩
    · unfold dockerUser at h1
      cases hu : splitUser (splitCharacter kind) body with
      | none =>
        simp [hu] at h1
        obtain ⟨rfl, rfl⟩ := h1
        simp [tgt, e1]
      | some q =>
        obtain ⟨a, b⟩ := q
        cases a with
        | nil => simp [hu] at h1
        | cons a0 at' =>
          simp [hu] at h1
          obtain ⟨rfl, rfl⟩ := h1
          obtain ⟨e2, _, _⟩ := splitUser_some hu
          simp [tgt, e2, e1]

theorem docker_head_parse {kind : Kind} {user container : Str} (h : DockerHead kind user container) (x : Str) :
    dockerUser kind (tgt user container ++ splitCharacter kind :: x) = .ok (user, container ++ splitCharacter kind :: x) ∧
    dockerContainer kind (container ++ splitCharacter kind :: x) = (container, splitCharacter kind :: x) := by
  constructor
  · unfold tgt dockerUser
    by_cases hu : user = []
    · subst hu
      simp [splitUser_none_of (splitCharacter kind) container x (h.container_at rfl)]
    · have := splitUser_append (splitCharacter kind) user (container ++ splitCharacter kind :: x) h.user_at h.user_split
        (splitCharacter_ne_at kind)
      simp only [ne_eq, hu, not_false_eq_true, if_true, List.append_assoc, List.cons_append, this]
  · unfold dockerContainer
    rw [splitAt_append (splitCharacter kind) container x h.container_split]

/-- `parseDockerBody` after the user and container names. -/
def dockerTail (P : Platform) (kind : Kind) (first : Bool) (user container path0 : Str) : Except Err URL :=
  if startsWithDash user || startsWithDash container then .error .optionLike
  else match dockerPath kind path0 with
    | .error e => .error e
    | .ok path =>
      .ok { kind := kind, protocol := .docker, user := user, host := container, port := 0, path := path,
            environment := captureEnvironment P kind first, parameters := [] }

theorem parseDockerBody_of_head (P : Platform) {kind : Kind} (first : Bool) {user container : Str}
    (h : DockerHead kind user container) (x : Str) :
    parseDockerBody P (tgt user container ++ splitCharacter kind :: x) kind first =
      dockerTail P kind first user container (splitCharacter kind :: x) := by
  obtain ⟨h1, h2⟩ := docker_head_parse h x
  simp only [parseDockerBody, h1, h2, dockerTail, h.container_ne, if_false]
  simp
  rfl

theorem parseDockerBody_ok {P : Platform} {kind : Kind} {first : Bool} {body : Str} {u : URL}
    (h : parseDockerBody P body kind first = .ok u) :
    ∃ user container rest, DockerHead kind user container ∧
      body = tgt user container ++ splitCharacter kind :: rest ∧
      dockerTail P kind first user container (splitCharacter kind :: rest) = .ok u := by
  unfold parseDockerBody at h
  cases h1 : dockerUser kind body with
  | error e => simp [h1] at h
  | ok p =>
    obtain ⟨user, raw1⟩ := p
    simp only [h1] at h
    by_cases hc : (dockerContainer kind raw1).1 = []
    · simp [hc] at h
    · rw [if_neg hc] at h
      obtain ⟨rest, hh, e, e2⟩ := docker_head_of_parse h1 hc
      rw [e2] at h
      simp only [reduceCtorEq, if_false] at h
      refine ⟨user, (dockerContainer kind raw1).1, rest, hh, e, ?_⟩
      unfold dockerTail
      exact h

/-! ## The path of synchronization URLs -/

theorem isLetter_ne_slash {c : Char} (h : isLetter c = true) : c ≠ '/' := by
  intro e; subst e; exact absurd h (by decide)

theorem isLetter_ne_tilde {c : Char} (h : isLetter c = true) : c ≠ '~' := by
  intro e; subst e; exact absurd h (by decide)

theorem isWindowsPath_head {p : Str} (h : isWindowsPath p = true) : ∃ c r, p = c :: r ∧ isLetter c = true := by
  cases p with
  | nil => simp [isWindowsPath] at h
  | cons c r =>
    cases r with
    | nil => simp [isWindowsPath] at h
    | cons c1 r1 =>
      cases r1 with
      | nil => simp [isWindowsPath] at h
      | cons c2 r2 =>
        simp [isWindowsPath] at h
        exact ⟨c, _, rfl, h.1.1⟩

/-- The path produced by `parseDocker` is written by `formatDocker` as a text
that `parseDocker` reads back as the same path. -/
theorem dockerSyncPath_text (rest : Str) :
    ∃ rest', dockerPathText (dockerSyncPath ('/' :: rest)) = some ('/' :: rest') ∧
      dockerSyncPath ('/' :: rest') = dockerSyncPath ('/' :: rest) := by
  cases rest with
  | nil => exact ⟨[], by simp [dockerSyncPath, dockerPathText, isWindowsPath], rfl⟩
  | cons c r =>
    by_cases hc : c = '~'
    · subst hc
      by_cases hw : isWindowsPath r = true
      · obtain ⟨c0, r0, e, hl⟩ := isWindowsPath_head hw
        subst e
        refine ⟨c0 :: r0, ?_, ?_⟩
        · simp [dockerSyncPath, dockerPathText, hw, isLetter_ne_slash hl]
        · simp [dockerSyncPath, hw, isLetter_ne_tilde hl]
      · refine ⟨'~' :: r, ?_, rfl⟩
        simp [dockerSyncPath, dockerPathText, hw]
    · by_cases hw : isWindowsPath (c :: r) = true
      · obtain ⟨c0, r0, e, hl⟩ := isWindowsPath_head hw
        simp at e
        obtain ⟨rfl, rfl⟩ := e
        refine ⟨c :: r, ?_, rfl⟩
        simp [dockerSyncPath, dockerPathText, hw, hc, isLetter_ne_slash hl]
      · refine ⟨c :: r, ?_, rfl⟩
        simp [dockerSyncPath, dockerPathText, hw, hc]

theorem dockerPathText_some {p t : Str} (h : dockerPathText p = some t) :
    p ≠ [] ∧ (p.head? = some '/' || p.head? = some '~' || isWindowsPath p) = true := by
  cases p with
  | nil => simp [dockerPathText] at h
  | cons c r =>
    refine ⟨by simp, ?_⟩
    simp only [dockerPathText] at h
    by_cases h1 : c = '/'
    · simp [h1]
    · simp only [h1, if_false] at h
      by_cases h2 : (c = '~' || isWindowsPath (c :: r)) = true
      · simp at h2 ⊢
        rcases h2 with h2 | h2
        · simp [h2]
        · simp [h2]
      · simp [h2] at h

end Mutagen.Proofs.URL
