import Mutagen.Proofs.RsyncWF
/-!
C19, part 2: block geometry of a signature, what `Signature` computes, and what
`Patch` writes for well-formed operations.
-/
namespace Mutagen.Proofs.Rsync
open Mutagen.Model.Rsync

/-- Block `i` of the base for block size `bs` (short for the last block). -/
def blockBytes (base : List UInt8) (bs i : Nat) : List UInt8 := (base.drop (i * bs)).take bs

/-- Blocks `idx, …, idx + cnt - 1` concatenated. -/
def blocksBytes (base : List UInt8) (bs : Nat) : Nat → Nat → List UInt8
  | _, 0 => []
  | idx, c + 1 => blockBytes base bs idx ++ blocksBytes base bs (idx + 1) c

theorem blocksBytes_snoc (base : List UInt8) (bs idx c : Nat) :
    blocksBytes base bs idx (c + 1) = blocksBytes base bs idx c ++ blockBytes base bs (idx + c) := by
  induction c generalizing idx with
  | zero => simp [blocksBytes]
  | succ c ih =>
    rw [blocksBytes, ih (idx + 1), blocksBytes]
    simp only [List.append_assoc]
    congr 3
    omega

section
variable {D : Type}

/-- The signature's sizes describe `base`: `n - 1` full blocks and a last block
of `lastBlockSize ∈ (0, blockSize]` bytes. -/
structure Geo (base : List UInt8) (sig : Signature D) : Prop where
  bs_pos : 0 < sig.blockSize
  n_pos : 0 < sig.hashes.length
  last_pos : 0 < sig.lastBlockSize
  last_le : sig.lastBlockSize ≤ sig.blockSize
  len : (sig.hashes.length - 1) * sig.blockSize + sig.lastBlockSize = base.length

theorem mul_split (n i bs : Nat) (h : i ≤ n) : n * bs = i * bs + (n - i) * bs := by
  rw [← Nat.add_mul]; congr 1; omega

theorem Geo.block_start_le {base : List UInt8} {sig : Signature D} (g : Geo base sig) (i : Nat)
    (hi : i < sig.hashes.length) : i * sig.blockSize + sig.lastBlockSize ≤ base.length := by
  have := mul_split (sig.hashes.length - 1) i sig.blockSize (by omega)
  have := g.len
  omega

theorem Geo.full_block_fits {base : List UInt8} {sig : Signature D} (g : Geo base sig) (i : Nat)
    (hi : i + 1 < sig.hashes.length) : i * sig.blockSize + sig.blockSize ≤ base.length := by
  have h1 := mul_split (sig.hashes.length - 1) i sig.blockSize (by omega)
  have h2 : sig.blockSize ≤ (sig.hashes.length - 1 - i) * sig.blockSize :=
    Nat.le_mul_of_pos_left _ (by omega)
  have := g.len
  omega

theorem Geo.blockBytes_length_full {base : List UInt8} {sig : Signature D} (g : Geo base sig) (i : Nat)
    (hi : i + 1 < sig.hashes.length) : (blockBytes base sig.blockSize i).length = sig.blockSize := by
  have := g.full_block_fits i hi
  simp only [blockBytes, List.length_take, List.length_drop]
  omega

theorem Geo.blockBytes_length_last {base : List UInt8} {sig : Signature D} (g : Geo base sig) :
    (blockBytes base sig.blockSize (sig.hashes.length - 1)).length = sig.lastBlockSize := by
  have := g.len
  have := g.last_le
  simp only [blockBytes, List.length_take, List.length_drop]
  omega

theorem Geo.blockBytes_last_eq {base : List UInt8} {sig : Signature D} (g : Geo base sig) :
    blockBytes base sig.blockSize (sig.hashes.length - 1) =
      base.drop ((sig.hashes.length - 1) * sig.blockSize) := by
  have := g.len
  have := g.last_le
  unfold blockBytes
  apply List.take_of_length_le
  simp only [List.length_drop]
  omega

/-- What the block copy loop of `Patch` writes for a block range inside the signature. -/
theorem copyBlocks_eq {base : List UInt8} {sig : Signature D} (g : Geo base sig) (cnt idx : Nat)
    (h : idx + cnt ≤ sig.hashes.length) :
    copyBlocks sig cnt idx (base.drop (idx * sig.blockSize)) =
      some (blocksBytes base sig.blockSize idx cnt) := by
  induction cnt generalizing idx with
  | zero => simp [copyBlocks, blocksBytes]
  | succ c ih =>
    have hn := g.n_pos
    unfold copyBlocks blocksBytes
    by_cases hl : idx = sig.hashes.length - 1
    · -- the last block: `c = 0`
      subst hl
      have hc : c = 0 := by omega
      subst hc
      have hlen := g.len
      have hle := g.last_le
      have hn0 : ¬ sig.hashes.length = 0 := by omega
      simp only [ne_eq, hn0, not_false_eq_true, and_self, and_true, if_true, List.length_drop]
      have : ¬ (base.length - (sig.hashes.length - 1) * sig.blockSize < sig.lastBlockSize) := by omega
      simp only [this, if_false, copyBlocks, blocksBytes, Option.map_some, List.append_nil]
      congr 1
      rw [g.blockBytes_last_eq]
      apply List.take_of_length_le
      simp only [List.length_drop]
      omega
    · have hcond : ¬ (sig.hashes.length ≠ 0 ∧ idx = sig.hashes.length - 1) := fun hh => hl hh.2
      have hfit := g.full_block_fits idx (by omega)
      simp only [hcond, if_false, List.length_drop]
      have : ¬ (base.length - idx * sig.blockSize < sig.blockSize) := by omega
      simp only [this, if_false, List.drop_drop]
      rw [show idx * sig.blockSize + sig.blockSize = (idx + 1) * sig.blockSize by
        rw [Nat.add_mul, Nat.one_mul]]
      rw [ih (idx + 1) (by omega)]
      simp [blockBytes]

/-- The bytes an operation stands for. -/
def opBytes (base : List UInt8) (sig : Signature D) (op : Operation) : List UInt8 :=
  if op.data.length > 0 then op.data else blocksBytes base sig.blockSize op.start op.count

theorem patchOp_eq {base : List UInt8} {sig : Signature D} (g : Geo base sig) (maxOp : Nat)
    (op : Operation) (h : OpOK sig.hashes.length maxOp op) :
    patchOp base sig op = some (opBytes base sig op) := by
  unfold patchOp opBytes
  rcases h with ⟨h1, _⟩ | ⟨h1, _, h3⟩
  · simp [h1]
  · simp only [h1, List.length_nil, Nat.lt_irrefl, if_false]
    exact copyBlocks_eq g _ _ h3

theorem patchBytes_eq {base : List UInt8} {sig : Signature D} (g : Geo base sig) (maxOp : Nat)
    (ops : List Operation) (h : ∀ op ∈ ops, OpOK sig.hashes.length maxOp op) :
    patchBytes base sig ops = some (ops.flatMap (opBytes base sig)) := by
  induction ops with
  | nil => simp [patchBytes]
  | cons op ops ih =>
    simp only [patchBytes, patchOp_eq g maxOp op (h op (List.mem_cons_self ..)),
      ih (fun o ho => h o (List.mem_cons_of_mem _ ho)), Option.map_some, List.flatMap_cons]

/-- For a signature without blocks (empty base) only data operations occur. -/
theorem patchBytes_data_only (base : List UInt8) (sig : Signature D) (maxOp : Nat)
    (ops : List Operation) (h : ∀ op ∈ ops, OpOK 0 maxOp op) :
    patchBytes base sig ops = some (ops.flatMap (·.data)) := by
  induction ops with
  | nil => simp [patchBytes]
  | cons op ops ih =>
    have hop := h op (List.mem_cons_self ..)
    have hd : 0 < op.data.length := by
      rcases hop with ⟨h1, _⟩ | ⟨_, h2, h3⟩
      · exact h1
      · omega
    simp only [patchBytes, patchOp, hd, if_true, ih (fun o ho => h o (List.mem_cons_of_mem _ ho)),
      Option.map_some, List.flatMap_cons]

end

/-! ### What `Signature` computes -/

section
variable {D : Type} (H : List UInt8 → D)

theorem blockBytes_drop (base : List UInt8) (bs i : Nat) :
    blockBytes (base.drop bs) bs i = blockBytes base bs (i + 1) := by
  simp only [blockBytes, List.drop_drop]
  rw [show bs + i * bs = (i + 1) * bs by rw [Nat.add_mul, Nat.one_mul, Nat.add_comm]]

theorem signatureLoop_spec (bs : Nat) (hbs : 0 < bs) (fuel : Nat) (base : List UInt8)
    (hf : base.length < fuel) (hne : base ≠ []) :
    0 < (signatureLoop H bs fuel base).1.length ∧
    0 < (signatureLoop H bs fuel base).2 ∧ (signatureLoop H bs fuel base).2 ≤ bs ∧
    ((signatureLoop H bs fuel base).1.length - 1) * bs + (signatureLoop H bs fuel base).2 = base.length ∧
    ∀ i hb, (signatureLoop H bs fuel base).1[i]? = some hb → hb = hashBlock H (blockBytes base bs i) bs := by
  induction fuel generalizing base with
  | zero => omega
  | succ fuel ih =>
    have hpos : 0 < base.length := List.length_pos_iff.mpr hne
    have he : base.isEmpty = false := by simpa using hne
    unfold signatureLoop
    simp only [he, Bool.false_eq_true, if_false]
    by_cases hl : base.length < bs
    · simp only [hl, if_true, List.length_singleton, Nat.sub_self, Nat.zero_mul, Nat.zero_add]
      refine ⟨by omega, hpos, by omega, trivial, ?_⟩
      intro i hb hi
      cases i with
      | zero =>
        simp only [List.getElem?_cons_zero, Option.some.injEq] at hi
        rw [← hi]
        congr 1
        simp only [blockBytes, Nat.zero_mul, List.drop_zero]
        exact (List.take_of_length_le (by omega)).symm
      | succ i => simp at hi
    · simp only [hl, if_false]
      by_cases hd : base.drop bs = []
      · -- exactly one full block
        have hlen : base.length = bs := by
          have := congrArg List.length hd
          simp only [List.length_drop, List.length_nil] at this
          omega
        have hfuel : 0 < fuel := by omega
        obtain ⟨k, hk⟩ : ∃ k, fuel = k + 1 := ⟨fuel - 1, by omega⟩
        subst hk
        simp only [hd, signatureLoop, List.isEmpty_nil, if_true, List.length_singleton, Nat.sub_self,
          Nat.zero_mul, Nat.zero_add]
        refine ⟨by omega, hbs, Nat.le_refl _, hlen.symm, ?_⟩
        intro i hb hi
        cases i with
        | zero =>
          simp only [List.getElem?_cons_zero, Option.some.injEq] at hi
          rw [← hi]
          simp [blockBytes]
        | succ i => simp at hi
      · have hdl : (base.drop bs).length < fuel := by simp only [List.length_drop]; omega
        obtain ⟨h1, h2, h3, h4, h5⟩ := ih (base.drop bs) hdl hd
        simp only [List.length_cons, Nat.add_sub_cancel]
        refine ⟨by omega, h2, h3, ?_, ?_⟩
        · simp only [List.length_drop] at h4
          have := mul_split (signatureLoop H bs fuel (base.drop bs)).1.length 1 bs h1
          omega
        · intro i hb hi
          cases i with
          | zero =>
            simp only [List.getElem?_cons_zero, Option.some.injEq] at hi
            rw [← hi]
            simp [blockBytes]
          | succ i =>
            simp only [List.getElem?_cons_succ] at hi
            rw [h5 i hb hi, blockBytes_drop]

/-- The hashes of a signature are the hashes of the base's blocks. -/
def HashesOf (base : List UInt8) (sig : Signature D) : Prop :=
  ∀ i hb, sig.hashes[i]? = some hb → hb = hashBlock H (blockBytes base sig.blockSize i) sig.blockSize

theorem signature_nonempty (base : List UInt8) (bs : Nat) (hbs : 0 < bs) (hne : base ≠ []) :
    (signature H base bs).blockSize = bs ∧ Geo base (signature H base bs) ∧
      HashesOf H base (signature H base bs) := by
  obtain ⟨h1, h2, h3, h4, h5⟩ := signatureLoop_spec H bs hbs (base.length + 1) base (Nat.lt_succ_self _) hne
  have hne' : (signatureLoop H bs (base.length + 1) base).1.isEmpty = false := by
    cases hs : (signatureLoop H bs (base.length + 1) base).1 with
    | nil => rw [hs] at h1; simp at h1
    | cons _ _ => rfl
  unfold signature
  simp only [hne', Bool.false_eq_true, if_false]
  exact ⟨trivial, ⟨hbs, h1, h2, h3, h4⟩, h5⟩

theorem signature_empty (bs : Nat) : (signature H [] bs).hashes = [] := by
  simp [signature, signatureLoop]

end

end Mutagen.Proofs.Rsync
