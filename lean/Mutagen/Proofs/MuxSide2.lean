/-
Classification of what the API functions of `Model/Mux.lean` do at the
identifier they act on (role independent), and `Same` at every other one.
-/
import Mutagen.Proofs.MuxSide
namespace Mutagen.Model.Mux

/-- A change of a stream object that leaves every protocol field alone. -/
structure Irrelevant (st st' : Stream) : Prop where
  established : st'.established = st.established
  remoteClosedWrite : st'.remoteClosedWrite = st.remoteClosedWrite
  remoteClosed : st'.remoteClosed = st.remoteClosed
  closedWrite : st'.closedWrite = st.closedWrite
  closed : st'.closed = st.closed
  registered : st'.registered = st.registered
  sendWindow : st'.sendWindow = st.sendWindow
  recvBuf : st'.recvBuf.length = st.recvBuf.length
  recvCap : st'.recvCap = st.recvCap

/-! ### Read -/

theorem read_same (s : Side) {X Y : Nat} (k now : Nat) (h : X ≠ Y) : Same s (s.read Y k now).1 X := by
  unfold Side.read
  cases hs : s.streams Y with
  | none => exact Same.refl s X
  | some st =>
    simp only
    split
    · exact Same.refl s X
    · split
      · exact Same.refl s X
      · split
        · exact Same.refl s X
        · split
          · exact setStream_same s _ h
          · split
            · simp only
              split
              · exact (setStream_same s _ h).trans (enqIncr_same _ _ h)
              · exact setStream_same s _ h
            · split <;> exact Same.refl s X

/-- What `Read` does to the stream it reads from. -/
theorem read_at (s : Side) (Y k now : Nat) (st : Stream) (hs : s.streams Y = some st)
    (hm : s.closedMux = false) :
    (s.read Y k now).1 = s ∨
    (∃ st', Irrelevant st st' ∧
      AtEq (s.read Y k now).1 Y (some st') (s.pendIncr Y) (s.pendCW Y) (s.pendClose Y) s) ∨
    (∃ k' got, 0 < k' ∧ k' ≤ st.recvBuf.length ∧ st.closed = false ∧
      AtEq (s.read Y k now).1 Y (some { st with recvBuf := st.recvBuf.drop k', got := got })
        (some ((s.pendIncr Y).getD 0 + k')) (s.pendCW Y) (s.pendClose Y) s) := by
  unfold Side.read
  simp only [hs, hm]
  by_cases h1 : st.closed = true
  · left; simp [h1]
  · simp only [h1, Bool.false_eq_true, ↓reduceIte]
    by_cases h2 : st.readExpired = true
    · left; simp [h2]
    · simp only [h2, Bool.false_eq_true, ↓reduceIte]
      by_cases h3 : (st.readTimer.any fun x => decide (x ≤ now)) = true
      · right; left
        simp only [h3, ↓reduceIte]
        refine ⟨_, ?_, setStream_atEq s Y _⟩
        constructor <;> simp [h1]
      · simp only [h3, Bool.false_eq_true, ↓reduceIte]
        by_cases h4 : st.recvBuf = []
        · left
          simp only [h4, ne_eq, not_true_eq_false, ↓reduceIte]
          split <;> rfl
        · simp only [ne_eq, h4, not_false_eq_true, ↓reduceIte]
          by_cases h5 : (List.take k st.recvBuf).length > 0
          · right; right
            simp only [h5, ↓reduceIte]
            refine ⟨(List.take k st.recvBuf).length, st.got ++ List.take k st.recvBuf, h5, ?_, by simpa using h1, ?_⟩
            · simp [List.length_take]; omega
            · have hd : st.recvBuf.drop k = st.recvBuf.drop (List.take k st.recvBuf).length := by
                simp only [List.length_take]
                by_cases hk : k ≤ st.recvBuf.length
                · simp [Nat.min_eq_left hk]
                · simp only [Nat.not_le] at hk
                  rw [Nat.min_eq_right (Nat.le_of_lt hk)]
                  simp [List.drop_of_length_le (Nat.le_of_lt hk)]
              constructor <;>
                simp [Side.enqIncr, hm, Side.setStream, Side.used, hd]
          · right; left
            simp only [h5, ↓reduceIte]
            refine ⟨_, ?_, setStream_atEq s Y _⟩
            constructor <;> try (simp [h1]; done)
            have : k = 0 ∨ st.recvBuf = [] := by
              simp only [List.length_take, gt_iff_lt, Nat.lt_min, not_and, Nat.not_lt,
                Nat.le_zero_eq, List.length_eq_zero_iff] at h5
              by_cases hk : 0 < k
              · right; exact h5 hk
              · left; omega
            rcases this with hk | hb
            · simp [hk]
            · exact absurd hb h4

/-! ### Write -/

theorem writeChunk_same (s : Side) {X Y : Nat} (data : List UInt8) (h : X ≠ Y) :
    Same s (s.writeChunk Y data).1 X := by
  unfold Side.writeChunk
  cases hs : s.streams Y with
  | none => exact Same.refl s X
  | some st =>
    simp only
    split
    · exact Same.refl s X
    · exact setStream_same s _ h

theorem writeChunk_msgs (s : Side) {X Y : Nat} (data : List UInt8) (h : X ≠ Y) :
    ∀ m ∈ (s.writeChunk Y data).2.1, m.about X = false := by
  unfold Side.writeChunk
  cases hs : s.streams Y with
  | none => simp
  | some st =>
    simp only
    split
    · simp
    · intro m hm
      simp only [List.mem_singleton] at hm
      subst hm
      simp [Msg.about, Msg.id]; omega

/-- What `Write` does to the stream it writes to. -/
theorem writeChunk_at (s : Side) (Y : Nat) (data : List UInt8) (st : Stream) (hs : s.streams Y = some st) :
    ((s.writeChunk Y data).1 = s ∧ (s.writeChunk Y data).2.1 = []) ∨
    (∃ bs, bs ≠ [] ∧ bs.length ≤ st.sendWindow ∧ (s.writeChunk Y data).2.1 = [.data Y bs] ∧
      AtEq (s.writeChunk Y data).1 Y
        (some { st with sendWindow := st.sendWindow - bs.length, sent := st.sent ++ bs })
        (s.pendIncr Y) (s.pendCW Y) (s.pendClose Y) s) := by
  unfold Side.writeChunk
  simp only [hs]
  by_cases hw : min st.sendWindow (min data.length Mutagen.Facts.muxMaximumStreamDataBlockSize) = 0
  · left; simp [hw]
  · right
    simp only [hw, ↓reduceIte]
    refine ⟨data.take (min st.sendWindow (min data.length Mutagen.Facts.muxMaximumStreamDataBlockSize)), ?_, ?_, rfl, ?_⟩
    · intro h0
      have := congrArg List.length h0
      simp only [List.length_take, List.length_nil] at this
      omega
    · simp only [List.length_take]; omega
    · have hl : (data.take (min st.sendWindow (min data.length Mutagen.Facts.muxMaximumStreamDataBlockSize))).length
          = min st.sendWindow (min data.length Mutagen.Facts.muxMaximumStreamDataBlockSize) := by
        simp only [List.length_take]; omega
      rw [hl]
      exact setStream_atEq s Y _

/-! ### The enqueue goroutine -/

theorem flushIncr_same (s : Side) {X Y : Nat} (h : X ≠ Y) : Same s (s.flushIncr Y).1 X := by
  unfold Side.flushIncr
  split
  · constructor <;> simp [Side.used, h]
  · exact Same.refl s X

theorem flushCW_same (s : Side) {X Y : Nat} (h : X ≠ Y) : Same s (s.flushCW Y).1 X := by
  unfold Side.flushCW
  split
  · constructor <;> simp [Side.used, h]
  · exact Same.refl s X

theorem flushClose_same (s : Side) {X Y : Nat} (h : X ≠ Y) : Same s (s.flushClose Y).1 X := by
  unfold Side.flushClose
  split
  · constructor <;> simp [Side.used, h]
  · exact Same.refl s X

theorem flush_msgs (s : Side) {X Y : Nat} (h : X ≠ Y) :
    (∀ m ∈ (s.flushIncr Y).2, m.about X = false) ∧ (∀ m ∈ (s.flushCW Y).2, m.about X = false) ∧
    (∀ m ∈ (s.flushClose Y).2, m.about X = false) := by
  refine ⟨?_, ?_, ?_⟩
  · unfold Side.flushIncr
    split
    · intro m hm; simp only [List.mem_singleton] at hm; subst hm; simp [Msg.about, Msg.id]; omega
    · simp
  · unfold Side.flushCW
    split
    · intro m hm; simp only [List.mem_singleton] at hm; subst hm; simp [Msg.about, Msg.id]; omega
    · simp
  · unfold Side.flushClose
    split
    · intro m hm; simp only [List.mem_singleton] at hm; subst hm; simp [Msg.about, Msg.id]; omega
    · simp

theorem flushIncr_at (s : Side) (Y : Nat) :
    ((s.flushIncr Y) = (s, [])) ∨
    (∃ v, s.pendIncr Y = some v ∧ (s.flushIncr Y).2 = [.incr Y v] ∧
      AtEq (s.flushIncr Y).1 Y (s.streams Y) none (s.pendCW Y) (s.pendClose Y) s) := by
  unfold Side.flushIncr
  cases hp : s.pendIncr Y with
  | none => left; rfl
  | some v =>
    right
    refine ⟨v, rfl, rfl, ?_⟩
    constructor <;> simp [Side.used]

theorem flushCW_at (s : Side) (Y : Nat) :
    ((s.flushCW Y) = (s, [])) ∨
    (s.pendCW Y = true ∧ (s.flushCW Y).2 = [.closeWrite Y] ∧
      AtEq (s.flushCW Y).1 Y (s.streams Y) (s.pendIncr Y) false (s.pendClose Y) s) := by
  unfold Side.flushCW
  cases hp : s.pendCW Y with
  | false => left; simp
  | true =>
    right
    refine ⟨rfl, by simp, ?_⟩
    constructor <;> simp [Side.used]

theorem flushClose_at (s : Side) (Y : Nat) :
    ((s.flushClose Y) = (s, [])) ∨
    (s.pendClose Y = true ∧ (s.flushClose Y).2 = [.close Y] ∧
      AtEq (s.flushClose Y).1 Y (s.streams Y) (s.pendIncr Y) (s.pendCW Y) false s) := by
  unfold Side.flushClose
  cases hp : s.pendClose Y with
  | false => left; simp
  | true =>
    right
    refine ⟨rfl, by simp, ?_⟩
    constructor <;> simp [Side.used]

/-! ### Deadlines -/

theorem setReadDeadline_same (s : Side) {X Y : Nat} (d : Deadline) (h : X ≠ Y) :
    Same s (s.setReadDeadline Y d).1 X := by
  unfold Side.setReadDeadline
  cases hs : s.streams Y with
  | none => exact Same.refl s X
  | some st =>
    simp only
    split
    · exact Same.refl s X
    · exact setStream_same s _ h

theorem setWriteDeadline_same (s : Side) {X Y : Nat} (d : Deadline) (h : X ≠ Y) :
    Same s (s.setWriteDeadline Y d).1 X := by
  unfold Side.setWriteDeadline
  cases hs : s.streams Y with
  | none => exact Same.refl s X
  | some st =>
    simp only
    split
    · exact Same.refl s X
    · exact setStream_same s _ h

theorem setReadDeadline_at (s : Side) (Y : Nat) (d : Deadline) (st : Stream) (hs : s.streams Y = some st) :
    (s.setReadDeadline Y d).1 = s ∨
    ∃ st', Irrelevant st st' ∧
      AtEq (s.setReadDeadline Y d).1 Y (some st') (s.pendIncr Y) (s.pendCW Y) (s.pendClose Y) s := by
  unfold Side.setReadDeadline
  simp only [hs]
  split
  · left; rfl
  · right
    refine ⟨_, ?_, setStream_atEq s Y _⟩
    cases d <;> exact ⟨rfl, rfl, rfl, rfl, rfl, rfl, rfl, rfl, rfl⟩

theorem setWriteDeadline_at (s : Side) (Y : Nat) (d : Deadline) (st : Stream) (hs : s.streams Y = some st) :
    (s.setWriteDeadline Y d).1 = s ∨
    ∃ st', Irrelevant st st' ∧
      AtEq (s.setWriteDeadline Y d).1 Y (some st') (s.pendIncr Y) (s.pendCW Y) (s.pendClose Y) s := by
  unfold Side.setWriteDeadline
  simp only [hs]
  split
  · left; rfl
  · right
    refine ⟨_, ?_, setStream_atEq s Y _⟩
    cases d <;> exact ⟨rfl, rfl, rfl, rfl, rfl, rfl, rfl, rfl, rfl⟩

/-! ### OpenStream / AcceptStream -/

theorem openStream_same (s : Side) {X : Nat} (h : X ≠ s.nextOut) : Same s s.openStream.1 X := by
  unfold Side.openStream
  split
  · exact Same.refl s X
  · split
    · exact Same.refl s X
    · rename_i h1 h2
      refine ⟨by simp [Side.setStream, h], rfl, rfl, rfl, ?_, Nat.le_refl _, by simp [Side.setStream], rfl⟩
      intro hu
      refine ⟨hu.1, ?_⟩
      show (if maxU64 - s.nextOut < 2 then 0 else s.nextOut + 2) = 0 ∨
        X < (if maxU64 - s.nextOut < 2 then 0 else s.nextOut + 2)
      have := hu.2
      split
      · left; rfl
      · right; omega

theorem openStream_msgs (s : Side) {X : Nat} (h : X ≠ s.nextOut) :
    ∀ m ∈ s.openStream.2.1, m.about X = false := by
  unfold Side.openStream
  split
  · simp
  · split
    · simp
    · intro m hm
      simp only [List.mem_singleton] at hm
      subst hm
      simp [Msg.about, Msg.id]; omega

theorem openWait_same (s : Side) {X Y : Nat} (c : Bool) (h : X ≠ Y) : Same s (s.openWait Y c).1 X := by
  unfold Side.openWait
  cases hs : s.streams Y with
  | none => exact Same.refl s X
  | some st =>
    simp only
    split
    · exact Same.refl s X
    · split
      · exact close_same s true h
      · split
        · exact close_same s true h
        · split
          · exact close_same s true h
          · exact Same.refl s X

/-- `openWait` either does nothing or closes a stream that is not established. -/
theorem openWait_at (s : Side) (Y : Nat) (c : Bool) :
    (s.openWait Y c).1 = s ∨
    (∃ st, s.streams Y = some st ∧ st.established = false ∧ (s.openWait Y c).1 = s.close Y true) := by
  unfold Side.openWait
  cases hs : s.streams Y with
  | none => left; rfl
  | some st =>
    simp only
    by_cases he : st.established = true
    · left; simp [he]
    · simp only [he, Bool.false_eq_true, ↓reduceIte]
      have he' : st.established = false := by simpa using he
      split
      · right; exact ⟨st, rfl, he', rfl⟩
      · split
        · right; exact ⟨st, rfl, he', rfl⟩
        · split
          · right; exact ⟨st, rfl, he', rfl⟩
          · left; rfl

theorem pop_same (s : Side) (X : Nat) (rest : List Nat) (hsub : ∀ Z ∈ rest, Z ∈ s.backlog) :
    Same s { s with backlog := rest } X := by
  constructor <;> simp [Side.used]
  intro hx; exact hsub X hx

theorem acceptOne_same (s : Side) {X : Nat} (g : Bool) (h : ∀ rest, s.backlog ≠ X :: rest) :
    Same s (s.acceptOne g false).1 X := by
  unfold Side.acceptOne
  cases hb : s.backlog with
  | nil => simp only; split <;> (try split) <;> exact Same.refl s X
  | cons Y rest =>
    have hxy : X ≠ Y := by
      intro he; subst he; exact h rest hb
    have hpop : Same s { s with backlog := rest } X :=
      pop_same s X rest (fun Z hz => by rw [hb]; exact List.mem_cons_of_mem _ hz)
    simp only
    split
    · exact hpop
    · split
      · exact hpop.trans (close_same _ true hxy)
      · exact hpop.trans (setStream_same _ _ hxy)

theorem acceptOne_msgs (s : Side) {X : Nat} (g : Bool) (h : ∀ rest, s.backlog ≠ X :: rest) :
    ∀ m ∈ (s.acceptOne g false).2.1, m.about X = false := by
  unfold Side.acceptOne
  cases hb : s.backlog with
  | nil => simp only; split <;> (try split) <;> simp
  | cons Y rest =>
    have hxy : X ≠ Y := by
      intro he; subst he; exact h rest hb
    simp only
    split
    · simp
    · split
      · simp
      · intro m hm
        simp only [List.mem_singleton] at hm
        subst hm
        simp [Msg.about, Msg.id]; omega

theorem acceptAbort_same (s : Side) {X : Nat} (h : ∀ rest, s.backlog ≠ X :: rest) :
    Same s s.acceptAbort X := by
  unfold Side.acceptAbort
  cases hb : s.backlog with
  | nil => exact Same.refl s X
  | cons Y rest =>
    have hxy : X ≠ Y := by
      intro he; subst he; exact h rest hb
    exact (pop_same s X rest (fun Z hz => by rw [hb]; exact List.mem_cons_of_mem _ hz)).trans
      (close_same _ true hxy)

end Mutagen.Model.Mux
