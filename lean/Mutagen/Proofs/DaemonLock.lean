import Mutagen.Model.DaemonLock
/-!
Invariant of the daemon-lock model (helper lemmas for `Mutagen.Properties.C28`).
-/
namespace Mutagen.Proofs.DaemonLock
open Mutagen.Model.DaemonLock

theorem set_same (s : State) (p : Nat) (x : Proc) : (s.set p x).procs p = x := by
  simp [State.set]

theorem set_other (s : State) (p q : Nat) (x : Proc) (h : q ≠ p) : (s.set p x).procs q = s.procs q := by
  simp [State.set, h]

theorem set_owner (s : State) (p : Nat) (x : Proc) : (s.set p x).owner = s.owner := rfl

/-- `q` is a live process whose Locker claims the lock on an open descriptor. -/
def Holds (s : State) (q : Nat) : Prop :=
  (s.procs q).alive = true ∧ (s.procs q).held = true ∧ (s.procs q).fd = true

structure Inv (s : State) : Prop where
  /-- the kernel's owner is a live process with an open descriptor whose Locker says `held` -/
  owner_holds : ∀ p, s.owner = some p → Holds s p ∧ (s.procs p).locker = true
  /-- `held` on an open descriptor of a live process implies the kernel lock is owned -/
  held_owner : ∀ p, Holds s p → s.owner = some p
  fd_locker : ∀ p, (s.procs p).fd = true → (s.procs p).locker = true ∧ (s.procs p).alive = true
  /-- an operation that opens a new descriptor starts without an open one -/
  pc_new : ∀ p, ((s.procs p).pc = .acq1 ∨ (s.procs p).pc = .one .new) → (s.procs p).fd = false
  /-- AcquireLock locks a fresh Locker -/
  pc_acq2 : ∀ p, (s.procs p).alive = true → (s.procs p).pc = .acq2 → (s.procs p).fd = true ∧ (s.procs p).held = false
  /-- Release starts on the Locker of a successful AcquireLock: if that Locker is
  still open and no longer held, this process is not the owner (trivial) -/
  pc_rel : ∀ p, (s.procs p).pc = .rel1 → (s.procs p).locker = true

theorem inv_init : Inv init := by
  constructor <;> simp [init, Holds]

/-- Generic preservation: process `p` changes from `x` to `x'`, the owner from
`o` to `o'`; everybody else is untouched. -/
theorem inv_update (s : State) (p : Nat) (x' : Proc) (o' : Option Nat) (h : Inv s)
    (h1 : o' = some p → (x'.alive = true ∧ x'.held = true ∧ x'.fd = true) ∧ x'.locker = true)
    (h2 : ∀ q, q ≠ p → o' = some q → s.owner = some q)
    (h3 : (x'.alive = true ∧ x'.held = true ∧ x'.fd = true) → o' = some p)
    (h4 : ∀ q, q ≠ p → s.owner = some q → o' = some q)
    (h5 : x'.fd = true → x'.locker = true ∧ x'.alive = true)
    (h6 : (x'.pc = .acq1 ∨ x'.pc = .one .new) → x'.fd = false)
    (h7 : x'.alive = true → x'.pc = .acq2 → x'.fd = true ∧ x'.held = false)
    (h8 : x'.pc = .rel1 → x'.locker = true) :
    Inv ({ s with owner := o' }.set p x') := by
  constructor
  · intro q hq
    have hq' : o' = some q := hq
    by_cases hqp : q = p
    · subst hqp
      unfold Holds
      rw [set_same]
      exact h1 hq'
    · unfold Holds
      rw [set_other _ _ _ _ hqp]
      exact h.owner_holds q (h2 q hqp hq')
  · intro q hq
    show o' = some q
    by_cases hqp : q = p
    · subst hqp
      unfold Holds at hq; rw [set_same] at hq
      exact h3 hq
    · unfold Holds at hq; rw [set_other _ _ _ _ hqp] at hq
      exact h4 q hqp (h.held_owner q hq)
  · intro q hq
    by_cases hqp : q = p
    · subst hqp; rw [set_same] at hq ⊢; exact h5 hq
    · rw [set_other _ _ _ _ hqp] at hq ⊢; exact h.fd_locker q hq
  · intro q hq
    by_cases hqp : q = p
    · subst hqp; rw [set_same] at hq ⊢; exact h6 hq
    · rw [set_other _ _ _ _ hqp] at hq ⊢; exact h.pc_new q hq
  · intro q hal hq
    by_cases hqp : q = p
    · subst hqp; rw [set_same] at hal hq ⊢; exact h7 hal hq
    · rw [set_other _ _ _ _ hqp] at hal hq ⊢; exact h.pc_acq2 q hal hq
  · intro q hq
    by_cases hqp : q = p
    · subst hqp; rw [set_same] at hq ⊢; exact h8 hq
    · rw [set_other _ _ _ _ hqp] at hq ⊢; exact h.pc_rel q hq

theorem state_eta (s : State) : { s with owner := s.owner } = s := rfl

/-- A process that is not the owner does not hold (contrapositive of `held_owner`). -/
theorem not_holds_of_owner_ne (s : State) (h : Inv s) (p : Nat) (hne : s.owner ≠ some p) : ¬ Holds s p :=
  fun hh => hne (h.held_owner p hh)

theorem drop_eq (o : Option Nat) (p q : Nat) (hq : q ≠ p) : drop o p = some q ↔ o = some q := by
  unfold drop
  split
  · rename_i h; subst h; simp; exact fun e => hq e.symm
  · rfl

theorem drop_ne (o : Option Nat) (p : Nat) : drop o p ≠ some p := by
  unfold drop
  split
  · simp
  · rename_i h; exact h

/-- What a Locker operation guarantees about the new process state `x'` and the
new kernel owner `o'`. -/
structure OpOK (s : State) (p : Nat) (x' : Proc) (o' : Option Nat) : Prop where
  alive : x'.alive = (s.procs p).alive
  locker : x'.locker = (s.procs p).locker
  pc : x'.pc = (s.procs p).pc
  owner_p : o' = some p → x'.held = true ∧ x'.fd = true
  others : ∀ q, q ≠ p → (o' = some q ↔ s.owner = some q)
  holds : x'.held = true → x'.fd = true → o' = some p
  fd_sub : x'.fd = true → (s.procs p).fd = true

theorem lockerLock_spec (s : State) (h : Inv s) (p : Nat) (ha : (s.procs p).alive = true) :
    OpOK s p (lockerLock s.owner p (s.procs p)).1 (lockerLock s.owner p (s.procs p)).2.1 := by
  have hown := h.owner_holds p
  have hheld := h.held_owner p
  unfold Holds at hown hheld
  unfold lockerLock
  split
  · exact ⟨rfl, rfl, rfl, fun e => ⟨(hown e).1.2.1, (hown e).1.2.2⟩, fun _ _ => Iff.rfl,
      fun e1 e2 => hheld ⟨ha, e1, e2⟩, id⟩
  · split
    · exact ⟨rfl, rfl, rfl, fun e => ⟨(hown e).1.2.1, (hown e).1.2.2⟩, fun _ _ => Iff.rfl,
        fun e1 e2 => hheld ⟨ha, e1, e2⟩, id⟩
    · rename_i hfd
      split
      · rename_i hfree
        refine ⟨rfl, rfl, rfl, fun _ => ⟨rfl, by simpa using hfd⟩, ?_, fun _ _ => rfl, id⟩
        intro q hq
        constructor
        · intro e; simp only [Option.some.injEq] at e; exact absurd e.symm hq
        · intro e
          rcases hfree with h1 | h1
          · rw [h1] at e; cases e
          · rw [h1] at e; simp only [Option.some.injEq] at e; exact absurd e.symm hq
      · exact ⟨rfl, rfl, rfl, fun e => ⟨(hown e).1.2.1, (hown e).1.2.2⟩, fun _ _ => Iff.rfl,
          fun e1 e2 => hheld ⟨ha, e1, e2⟩, id⟩

theorem lockerUnlock_spec (s : State) (h : Inv s) (p : Nat) (ha : (s.procs p).alive = true) :
    OpOK s p (lockerUnlock s.owner p (s.procs p)).1 (lockerUnlock s.owner p (s.procs p)).2.1 := by
  have hown := h.owner_holds p
  have hheld := h.held_owner p
  unfold Holds at hown hheld
  unfold lockerUnlock
  split
  · exact ⟨rfl, rfl, rfl, fun e => ⟨(hown e).1.2.1, (hown e).1.2.2⟩, fun _ _ => Iff.rfl,
      fun e1 e2 => hheld ⟨ha, e1, e2⟩, id⟩
  · split
    · exact ⟨rfl, rfl, rfl, fun e => ⟨(hown e).1.2.1, (hown e).1.2.2⟩, fun _ _ => Iff.rfl,
        fun e1 e2 => hheld ⟨ha, e1, e2⟩, id⟩
    · refine ⟨rfl, rfl, rfl, fun e => absurd e (drop_ne _ _), fun q hq => drop_eq _ _ _ hq, ?_, id⟩
      intro e1; simp at e1

theorem lockerClose_spec (s : State) (h : Inv s) (p : Nat) (ha : (s.procs p).alive = true) :
    OpOK s p (lockerClose s.owner p (s.procs p)).1 (lockerClose s.owner p (s.procs p)).2.1 ∧
    (lockerClose s.owner p (s.procs p)).1.fd = false ∧
    (lockerClose s.owner p (s.procs p)).2.1 ≠ some p := by
  have hown := h.owner_holds p
  have hheld := h.held_owner p
  unfold Holds at hown hheld
  unfold lockerClose
  split
  · refine ⟨⟨rfl, rfl, rfl, fun e => absurd e (drop_ne _ _), fun q hq => drop_eq _ _ _ hq, ?_, ?_⟩, rfl, drop_ne _ _⟩
    · intro _ e2; simp at e2
    · intro e; simp at e
  · rename_i hfd
    have hfd' : (s.procs p).fd = false := by simpa using hfd
    refine ⟨⟨rfl, rfl, rfl, fun e => ⟨(hown e).1.2.1, (hown e).1.2.2⟩, fun _ _ => Iff.rfl,
      fun e1 e2 => hheld ⟨ha, e1, e2⟩, id⟩, hfd', ?_⟩
    intro e
    have := (hown e).1.2.2
    rw [hfd'] at this; cases this

/-- Apply an operation's outcome, then overwrite the program counter (and
optionally forget the Locker). -/
theorem inv_after_op (s : State) (h : Inv s) (p : Nat) (x' : Proc) (o' : Option Nat)
    (ha : (s.procs p).alive = true) (hop : OpOK s p x' o') (q : Pc)
    (hq1 : q ≠ .acq1 ∧ q ≠ .one .new) (hq2 : q = .acq2 → x'.fd = true ∧ x'.held = false)
    (hq3 : q = .rel1 → x'.locker = true) :
    Inv ({ s with owner := o' }.set p { x' with pc := q }) := by
  have hfl := h.fd_locker p
  apply inv_update s p _ o' h
  · intro e
    have := hop.owner_p e
    refine ⟨⟨by simp only [hop.alive, ha], this.1, this.2⟩, ?_⟩
    simp only [hop.locker]
    exact (hfl (hop.fd_sub this.2)).1
  · intro r hr e; exact (hop.others r hr).mp e
  · intro ⟨_, e2, e3⟩; exact hop.holds e2 e3
  · intro r hr e; exact (hop.others r hr).mpr e
  · intro e
    simp only at e ⊢
    rw [hop.locker, hop.alive]
    exact hfl (hop.fd_sub e)
  · intro e; simp only at e; rcases e with e | e
    · exact absurd e hq1.1
    · exact absurd e hq1.2
  · intro _ e; simp only at e; exact hq2 e
  · intro e; simp only at e; exact hq3 e

/-- After `Close` the Locker object is dropped (AcquireLock's failure path and Release). -/
theorem inv_after_close_drop (s : State) (h : Inv s) (p : Nat) (ha : (s.procs p).alive = true) (q : Pc)
    (hq1 : q ≠ .acq1 ∧ q ≠ .one .new) (hq2 : q ≠ .acq2) (hq3 : q ≠ .rel1) :
    Inv ({ s with owner := (lockerClose s.owner p (s.procs p)).2.1 }.set p
      { (lockerClose s.owner p (s.procs p)).1 with locker := false, daemon := false, held := false, pc := q }) := by
  obtain ⟨hop, hfd, hne⟩ := lockerClose_spec s h p ha
  apply inv_update s p _ _ h
  · intro e; exact absurd e hne
  · intro r hr e; exact (hop.others r hr).mp e
  · intro ⟨_, e2, _⟩; simp at e2
  · intro r hr e; exact (hop.others r hr).mpr e
  · intro e; simp only at e; rw [hfd] at e; cases e
  · intro e; simp only at e; rcases e with e | e
    · exact absurd e hq1.1
    · exact absurd e hq1.2
  · intro _ e; simp only at e; exact absurd e hq2
  · intro e; simp only at e; exact absurd e hq3

/-- Changing only `pc` (and `signalled`) of a process keeps the invariant, as
long as the program-counter facts hold for the new value. -/
theorem inv_setpc (s : State) (h : Inv s) (p : Nat) (q : Pc) (sg : Bool)
    (hq1 : (q = .acq1 ∨ q = .one .new) → (s.procs p).fd = false)
    (hq2 : (s.procs p).alive = true → q = .acq2 → (s.procs p).fd = true ∧ (s.procs p).held = false)
    (hq3 : q = .rel1 → (s.procs p).locker = true) :
    Inv (s.set p { s.procs p with pc := q, signalled := sg }) := by
  have := inv_update s p { s.procs p with pc := q, signalled := sg } s.owner h
    (fun e => h.owner_holds p e) (fun _ _ e => e) (fun e => h.held_owner p e) (fun _ _ e => e)
    (fun e => h.fd_locker p e) hq1 hq2 hq3
  exact this

theorem inv_sysStep (s s' : State) (p : Nat) (h : Inv s) (hs : sysStep s p = some s') : Inv s' := by
  unfold sysStep at hs
  simp only at hs
  split at hs
  · cases hs
  · rename_i hal
    have ha : (s.procs p).alive = true := by simpa using hal
    split at hs
    · -- acq1: NewLocker
      rename_i hpc
      cases hs
      have hfd := h.pc_new p (Or.inl hpc)
      have hnotown : s.owner ≠ some p := by
        intro e; have := (h.owner_holds p e).1.2.2; rw [hfd] at this; cases this
      apply inv_update s p _ s.owner h
      · intro e; exact absurd e hnotown
      · intro _ _ e; exact e
      · intro ⟨_, e2, _⟩; simp at e2
      · intro _ _ e; exact e
      · intro _; exact ⟨rfl, ha⟩
      · intro e; simp at e
      · intro _ _; exact ⟨rfl, rfl⟩
      · intro e; simp at e
    · -- acq2: Lock(false)
      rename_i hpc
      have sp := lockerLock_spec s h p ha
      generalize hL : lockerLock s.owner p (s.procs p) = res at hs sp
      obtain ⟨x', o, r⟩ := res
      simp only at hs sp
      split at hs
      · cases hs
        exact inv_after_op s h p x' o ha sp _ (by simp) (by simp) (by simp)
      · cases hs
        exact inv_after_op s h p x' o ha sp _ (by simp) (by simp) (by simp)
    · -- acq3: Close after a failed Lock
      cases hs
      exact inv_after_close_drop s h p ha _ (by simp) (by simp) (by simp)
    · -- rel1: Unlock
      have sp := lockerUnlock_spec s h p ha
      generalize hL : lockerUnlock s.owner p (s.procs p) = res at hs sp
      obtain ⟨x', o, r⟩ := res
      simp only at hs sp
      cases hs
      exact inv_after_op s h p x' o ha sp _ (by simp) (by simp) (by simp)
    · -- rel2: Close
      cases hs
      exact inv_after_close_drop s h p ha _ (by simp) (by simp) (by simp)
    · -- one new
      rename_i hpc
      cases hs
      have hfd := h.pc_new p (Or.inr hpc)
      have hnotown : s.owner ≠ some p := by
        intro e; have := (h.owner_holds p e).1.2.2; rw [hfd] at this; cases this
      apply inv_update s p _ s.owner h
      · intro e; exact absurd e hnotown
      · intro _ _ e; exact e
      · intro ⟨_, e2, _⟩; simp at e2
      · intro _ _ e; exact e
      · intro _; exact ⟨rfl, ha⟩
      · intro e; simp at e
      · intro _ e; simp at e
      · intro e; simp at e
    · -- one lock
      have sp := lockerLock_spec s h p ha
      generalize hL : lockerLock s.owner p (s.procs p) = res at hs sp
      obtain ⟨x', o, r⟩ := res
      simp only at hs sp
      cases hs
      exact inv_after_op s h p x' o ha sp _ (by simp) (by simp) (by simp)
    · -- one unlock
      have sp := lockerUnlock_spec s h p ha
      generalize hL : lockerUnlock s.owner p (s.procs p) = res at hs sp
      obtain ⟨x', o, r⟩ := res
      simp only at hs sp
      cases hs
      exact inv_after_op s h p x' o ha sp _ (by simp) (by simp) (by simp)
    · -- one close
      have sp := (lockerClose_spec s h p ha).1
      generalize hL : lockerClose s.owner p (s.procs p) = res at hs sp
      obtain ⟨x', o, r⟩ := res
      simp only at hs sp
      cases hs
      exact inv_after_op s h p x' o ha sp _ (by simp) (by simp) (by simp)
    · -- one held
      cases hs
      have := inv_setpc s h p (.done (if (s.procs p).held then .yes else .no)) (s.procs p).signalled
        (by simp) (by simp) (by simp)
      exact this
    · cases hs

theorem inv_step (s s' : State) (a : Action) (h : Inv s) (hs : step s a = some s') : Inv s' := by
  cases a with
  | call p c =>
    simp only [step] at hs
    split at hs
    · rename_i hg
      cases hs
      have hfl := h.fd_locker p
      have := inv_setpc s h p (entry (s.procs p) c) (s.procs p).signalled
        (by
          intro e
          cases hfd : (s.procs p).fd with
          | false => rfl
          | true =>
            have hl := (hfl hfd).1
            cases c <;> simp [entry, hfd, hl] at e
            all_goals (split at e <;> simp at e))
        (by intro _ e; cases c <;> simp [entry] at e <;> split at e <;> simp at e)
        (by
          intro e
          cases c <;> simp [entry] at e
          all_goals (first | (split at e <;> simp at e) | skip)
          all_goals (first | exact e.1 | skip))
      exact this
    · cases hs
  | sys p => exact inv_sysStep s s' p h hs
  | ret p =>
    simp only [step] at hs
    split at hs
    · cases hs
      have := inv_setpc s h p .idle (s.procs p).signalled (by simp) (by simp) (by simp)
      exact this
    · cases hs
  | signal p =>
    simp only [step] at hs
    cases hs
    have := inv_setpc s h p (s.procs p).pc true (h.pc_new p) (h.pc_acq2 p) (h.pc_rel p)
    exact this
  | die p =>
    simp only [step] at hs
    split at hs
    · rename_i hg
      cases hs
      apply inv_update s p _ _ h
      · intro e; exact absurd e (drop_ne _ _)
      · intro q hq e; exact (drop_eq _ _ _ hq).mp e
      · intro ⟨e1, _⟩; simp at e1
      · intro q hq e; exact (drop_eq _ _ _ hq).mpr e
      · intro e; simp at e
      · intro _; rfl
      · intro e; simp at e
      · intro e; exact h.pc_rel p e
    · cases hs

theorem inv_run (s s' : State) (as : List Action) (h : Inv s) (hr : run s as = some s') : Inv s' := by
  induction as generalizing s with
  | nil => simp [run] at hr; subst hr; exact h
  | cons a as ih =>
    simp only [run] at hr
    cases hstep : step s a with
    | none => simp [hstep] at hr
    | some s1 =>
      simp [hstep] at hr
      exact ih s1 (inv_step s s1 a h hstep) hr

theorem inv_reachable (s : State) (h : Reachable s) : Inv s := by
  obtain ⟨as, hr⟩ := h
  exact inv_run init s as inv_init hr

end Mutagen.Proofs.DaemonLock
