import Mutagen.Proofs.Lifecycle8
/-!
Lifecycle model: the flush invariant under client-call steps and along runs.
-/
namespace Mutagen.Proofs.Lifecycle
open Mutagen.Model.Lifecycle

/-- `x` is a version of the call `th` with the same ghost bookkeeping. -/
def SameGhost (x th : Thread) : Prop :=
  x.id = th.id ∧ x.op = th.op ∧ x.answered = th.answered ∧ x.fullA = th.fullA ∧ x.fullB = th.fullB ∧
  x.okA = th.okA ∧ x.okB = th.okB

set_option maxHeartbeats 16000000 in
set_option maxRecDepth 10000 in
/-- A step of a client call keeps the other calls and changes only the phase of its own. -/
theorem threadSteps_ghost {s : State} {th : Thread} {lab : Label} {s' : State}
    (h : (lab, s') ∈ threadSteps s th) : ∀ x ∈ s'.threads, x ∈ s.threads ∨ SameGhost x th := by
  unfold SameGhost
  unfold threadSteps at h
  split at h
  all_goals
    aesop (add norm simp [acquire, afterStop, finish, State.setThread, State.dropThread, State.startLoop,
      State.cancelLoop, newLoop, othersIdle])

set_option maxHeartbeats 16000000 in
set_option maxRecDepth 10000 in
/-- A waiting flush completes successfully only when it has been answered. -/
theorem threadSteps_flush_done {s : State} {th : Thread} {lab : Label} {s' : State}
    (h : (lab, s') ∈ threadSteps s th) :
    ∀ x ∈ s'.threads, x.op = .flush true → x.ph = .finished .ok → x ∈ s.threads ∨ th.answered = true := by
  unfold threadSteps at h
  split at h
  all_goals
    aesop (add norm simp [acquire, afterStop, finish, State.setThread, State.dropThread, State.startLoop,
      State.cancelLoop, newLoop, othersIdle])

set_option maxHeartbeats 16000000 in
set_option maxRecDepth 10000 in
/-- What a step of a client call does to the run loop, the request channel and
the set of issued call identifiers. -/
theorem threadSteps_loop {s : State} {th : Thread} {lab : Label} {s' : State}
    (h : (lab, s') ∈ threadSteps s th) :
    (s'.loop = s.loop ∨ s'.loop = s.loop.map (fun l => { l with cancelled := true }) ∨
      (∀ l', s'.loop = some l' → l'.req = none)) ∧
    (s'.flushQ = s.flushQ ∨ s'.flushQ = some th.id ∨ s'.flushQ = none) ∧ s'.used = s.used := by
  unfold threadSteps at h
  split at h
  all_goals
    aesop (add norm simp [acquire, afterStop, finish, State.setThread, State.dropThread, State.startLoop,
      State.cancelLoop, newLoop, othersIdle])

theorem Bits_cancel (l : Loop) (x : Thread) : Bits { l with cancelled := true } x ↔ Bits l x := by
  simp [Bits]

theorem Bits_ghost {l : Loop} {x th : Thread} (g : SameGhost x th) (b : Bits l th) : Bits l x := by
  obtain ⟨_, _, _, g4, g5, g6, g7⟩ := g
  unfold Bits at *
  rw [g4, g5, g6, g7]
  exact b

theorem invF_thread {s : State} {th : Thread} {lab : Label} {s' : State} (hth : th ∈ s.threads)
    (h : (lab, s') ∈ threadSteps s th) (i : InvF s) : InvF s' := by
  have hg := threadSteps_ghost h
  have hd := threadSteps_flush_done h
  obtain ⟨hlp, hq, hu⟩ := threadSteps_loop h
  -- Bits for any call of `s'` with respect to a loop of `s`
  have bits_of : ∀ l t, s.loop = some l → l.req = some t → ∀ x ∈ s'.threads, x.id = t → Bits l x := by
    intro l t hl hr x hx hid
    rcases hg x hx with hold | hnew
    · exact i.serving l t hl hr x hold hid
    · exact Bits_ghost hnew (i.serving l t hl hr th hth (by rw [← hnew.1]; exact hid))
  refine ⟨?_, ?_, ?_, ?_, ?_, ?_⟩
  · intro x hx ha
    rcases hg x hx with hold | hnew
    · exact i.ans x hold ha
    · obtain ⟨_, _, g3, g4, g5, g6, g7⟩ := hnew
      rw [g4, g5, g6, g7]
      exact i.ans th hth (by rw [← g3]; exact ha)
  · intro l' t hl' hr' x hx hid
    rcases hlp with h1 | h1 | h1
    · rw [h1] at hl'
      exact bits_of l' t hl' hr' x hx hid
    · rw [h1] at hl'
      cases hl : s.loop with
      | none => rw [hl] at hl'; simp at hl'
      | some l =>
        rw [hl] at hl'
        simp only [Option.map_some, Option.some.injEq] at hl'
        subst hl'
        rw [Bits_cancel]
        exact bits_of l t hl hr' x hx hid
    · have := h1 l' hl'
      rw [this] at hr'
      simp at hr'
  · intro x hx hop hph
    rcases hd x hx hop hph with hold | hnew
    · exact i.done x hold hop hph
    · rcases hg x hx with hold | hg'
      · exact i.done x hold hop hph
      · rw [hg'.2.2.1]; exact hnew
  · intro x hx
    rw [hu]
    rcases hg x hx with hold | hnew
    · exact i.used_thr x hold
    · rw [hnew.1]; exact i.used_thr th hth
  · intro t ht
    rw [hu]
    rcases hq with h1 | h1 | h1
    · rw [h1] at ht; exact i.used_q t ht
    · rw [h1] at ht
      simp only [Option.some.injEq] at ht
      subst ht
      exact i.used_thr th hth
    · rw [h1] at ht; simp at ht
  · intro l' t hl' hr'
    rw [hu]
    rcases hlp with h1 | h1 | h1
    · rw [h1] at hl'; exact i.used_req l' t hl' hr'
    · rw [h1] at hl'
      cases hl : s.loop with
      | none => rw [hl] at hl'; simp at hl'
      | some l =>
        rw [hl] at hl'
        simp only [Option.map_some, Option.some.injEq] at hl'
        subst hl'
        exact i.used_req l t hl hr'
    · have := h1 l' hl'
      rw [this] at hr'
      simp at hr'

theorem invF_call {s s' : State} {t : Nat} {op : Op} (h : doCall s t op = some s') (i : InvF s) : InvF s' := by
  unfold doCall at h
  split at h
  · simp at h
  · rename_i hc
    simp only [Option.some.injEq] at h
    subst h
    have hfresh : t ∉ s.used := by
      intro hm
      apply hc
      simp [List.contains_iff_mem, hm]
    refine ⟨?_, ?_, ?_, ?_, ?_, ?_⟩
    · intro x hx ha
      simp only [List.mem_append, List.mem_singleton] at hx
      rcases hx with hx | hx
      · exact i.ans x hx ha
      · subst hx; simp [mkThread] at ha
    · intro l t' hl hr x hx hid
      simp only [List.mem_append, List.mem_singleton] at hx
      rcases hx with hx | hx
      · exact i.serving l t' hl hr x hx hid
      · subst hx
        exfalso
        apply hfresh
        have := i.used_req l t' hl hr
        simp only [mkThread] at hid
        rw [hid]
        exact this
    · intro x hx hop hph
      simp only [List.mem_append, List.mem_singleton] at hx
      rcases hx with hx | hx
      · exact i.done x hx hop hph
      · subst hx; simp [mkThread] at hph
    · intro x hx
      simp only [List.mem_append, List.mem_singleton] at hx
      rcases hx with hx | hx
      · exact List.mem_cons_of_mem _ (i.used_thr x hx)
      · subst hx; simp [mkThread]
    · intro t' ht
      exact List.mem_cons_of_mem _ (i.used_q t' ht)
    · intro l t' hl hr
      exact List.mem_cons_of_mem _ (i.used_req l t' hl hr)

theorem invF_step {s s' : State} {l : Label} (st : Step s l s') (i : InvF s) : InvF s' := by
  cases st with
  | call h => exact invF_call h i
  | internal h =>
    unfold succ at h
    rcases List.mem_append.mp h with h | h
    · cases hl : s.loop with
      | none => simp [hl] at h
      | some lp => simp only [hl] at h; exact invF_loop hl h i
    · obtain ⟨th, hth, h⟩ := List.mem_flatMap.mp h
      exact invF_thread hth h i

theorem invF_run {w : Bool} {tr : List Label} {s : State} (r : Run (init w) tr s) : InvF s := by
  induction r with
  | nil => exact invF_init w
  | snoc _ st ih => exact invF_step st ih

end Mutagen.Proofs.Lifecycle
