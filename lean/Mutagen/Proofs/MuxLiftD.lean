/-
Lifting of the per-identifier lemmas to the reader goroutine: one accepted
delivery (`Side.deliver m = .ok s'`).
-/
import Mutagen.Proofs.MuxLiftP
namespace Mutagen.Model.Mux

theorem lookup_none_unreg {s : Side} {Y : Nat} (h : s.lookup Y = none) :
    ∀ st, s.streams Y = some st → st.registered = false := by
  intro st hs
  unfold Side.lookup at h
  rw [hs] at h
  cases hr : st.registered with
  | false => rfl
  | true => simp [hr] at h

/-! ### Shape of an accepted delivery, per message kind -/

theorem deliver_accept_shape {s s' : Side} {Y win : Nat} (hd : s.deliver (.accept Y win) = .ok s') :
    (s.lookup Y = none ∧ s' = s) ∨
    (∃ st, s.streams Y = some st ∧ st.registered = true ∧
      s' = s.setStream Y { st with sendWindow := win, established := true }) := by
  rcases s.lookup_eq Y with hl | ⟨st, hs, hr, hl⟩
  · left
    simp only [Side.deliver, hl] at hd
    repeat (split at hd <;> try (simp at hd))
    exact ⟨hl, hd.symm⟩
  · right
    simp only [Side.deliver, hl] at hd
    repeat (split at hd <;> try (simp at hd))
    exact ⟨st, hs, hr, hd.symm⟩

theorem deliver_data_shape {s s' : Side} {Y : Nat} {bs : List UInt8} (hd : s.deliver (.data Y bs) = .ok s') :
    (s.lookup Y = none ∧ s' = s) ∨
    (∃ st, s.streams Y = some st ∧ st.registered = true ∧
      s' = s.setStream Y { st with recvBuf := st.recvBuf ++ bs }) := by
  rcases s.lookup_eq Y with hl | ⟨st, hs, hr, hl⟩
  · left
    simp only [Side.deliver, hl] at hd
    repeat (split at hd <;> try (simp at hd))
    exact ⟨hl, hd.symm⟩
  · right
    simp only [Side.deliver, hl] at hd
    repeat (split at hd <;> try (simp at hd))
    exact ⟨st, hs, hr, hd.symm⟩

theorem deliver_incr_shape {s s' : Side} {Y a : Nat} (hd : s.deliver (.incr Y a) = .ok s') :
    (s.lookup Y = none ∧ s' = s) ∨
    (∃ st, s.streams Y = some st ∧ st.registered = true ∧
      s' = s.setStream Y { st with sendWindow := st.sendWindow + a }) := by
  rcases s.lookup_eq Y with hl | ⟨st, hs, hr, hl⟩
  · left
    simp only [Side.deliver, hl] at hd
    repeat (split at hd <;> try (simp at hd))
    exact ⟨hl, hd.symm⟩
  · right
    refine ⟨st, hs, hr, ?_⟩
    simp only [Side.deliver, hl, applyIncrement] at hd
    by_cases hz : st.sendWindow = 0
    · simp only [hz, ↓reduceIte] at hd
      repeat (split at hd <;> try (simp at hd))
      rw [← hd]; simp [hz]
    · by_cases hov : maxU64 - st.sendWindow < a
      · simp only [hz, hov, ↓reduceIte] at hd
        repeat (split at hd <;> try (simp at hd))
      · simp only [hz, hov, ↓reduceIte] at hd
        repeat (split at hd <;> try (simp at hd))
        rw [← hd]

theorem deliver_cw_shape {s s' : Side} {Y : Nat} (hd : s.deliver (.closeWrite Y) = .ok s') :
    (s.lookup Y = none ∧ s' = s) ∨
    (∃ st, s.streams Y = some st ∧ st.registered = true ∧
      s' = s.setStream Y { st with remoteClosedWrite := true }) := by
  rcases s.lookup_eq Y with hl | ⟨st, hs, hr, hl⟩
  · left
    simp only [Side.deliver, hl] at hd
    repeat (split at hd <;> try (simp at hd))
    exact ⟨hl, hd.symm⟩
  · right
    simp only [Side.deliver, hl] at hd
    repeat (split at hd <;> try (simp at hd))
    exact ⟨st, hs, hr, hd.symm⟩

theorem deliver_close_shape {s s' : Side} {Y : Nat} (hd : s.deliver (.close Y) = .ok s') :
    (s.lookup Y = none ∧ s' = s) ∨
    (∃ st, s.streams Y = some st ∧ st.registered = true ∧
      s' = s.setStream Y { st with remoteClosed := true }) := by
  rcases s.lookup_eq Y with hl | ⟨st, hs, hr, hl⟩
  · left
    simp only [Side.deliver, hl] at hd
    repeat (split at hd <;> try (simp at hd))
    exact ⟨hl, hd.symm⟩
  · right
    simp only [Side.deliver, hl] at hd
    repeat (split at hd <;> try (simp at hd))
    exact ⟨st, hs, hr, hd.symm⟩

/-- An accepted open message: the identifier was new; either the backlog was
full (a close is enqueued) or the stream object is created and queued. -/
theorem deliver_open_shape {s s' : Side} {Y win : Nat} (hd : s.deliver (.open Y win) = .ok s')
    (hc : s.closedMux = false) :
    ¬ Y ≤ s.largestIn ∧ s.isOutbound Y = false ∧
    ((s.backlog.length = s.backlogCap ∧ s' = ({ s with largestIn := Y }).enqClose Y) ∨
     (s' = { (({ s with largestIn := Y } : Side).setStream Y
              { ({ s with largestIn := Y } : Side).newStream with sendWindow := win }) with
              backlog := s.backlog ++ [Y] })) := by
  simp only [Side.deliver] at hd
  by_cases h0 : Y = 0
  · simp [h0] at hd
  · by_cases h1 : s.isOutbound Y = true
    · simp [h0, h1] at hd
    · by_cases h2 : Y ≤ s.largestIn
      · simp [h0, h1, h2] at hd
      · refine ⟨h2, by simpa using h1, ?_⟩
        by_cases h3 : s.backlog.length = s.backlogCap
        · left
          simp only [h0, h1, h2, h3, ↓reduceIte, Bool.false_eq_true] at hd
          exact ⟨h3, (Except.ok.inj hd).symm⟩
        · right
          simp only [h0, h1, h2, h3, ↓reduceIte, Bool.false_eq_true] at hd
          exact (Except.ok.inj hd).symm

theorem deliver_same {s s' : Side} {X : Nat} {m : Msg} (hd : s.deliver m = .ok s')
    (hm : m.about X = false) (hc : s.closedMux = false) : Same s s' X := by
  cases m with
  | heartbeat =>
    simp only [Side.deliver, Except.ok.injEq] at hd
    subst hd; exact Same.refl _ X
  | «open» Y win =>
    have hne : X ≠ Y := by
      intro he; subst he; simp [Msg.about, Msg.id] at hm
    obtain ⟨h2, _, hs⟩ := deliver_open_shape hd hc
    rcases hs with ⟨_, rfl⟩ | rfl
    · constructor <;> simp [Side.enqClose, hc, Side.used, hne]
      omega
    · constructor <;> simp [Side.setStream, Side.used, hne]
      omega
  | accept Y win =>
    have hne : X ≠ Y := by
      intro he; subst he; simp [Msg.about, Msg.id] at hm
    rcases deliver_accept_shape hd with ⟨_, rfl⟩ | ⟨st, _, _, rfl⟩
    · exact Same.refl _ X
    · exact setStream_same _ _ hne
  | data Y bs =>
    have hne : X ≠ Y := by
      intro he; subst he; simp [Msg.about, Msg.id] at hm
    rcases deliver_data_shape hd with ⟨_, rfl⟩ | ⟨st, _, _, rfl⟩
    · exact Same.refl _ X
    · exact setStream_same _ _ hne
  | incr Y a =>
    have hne : X ≠ Y := by
      intro he; subst he; simp [Msg.about, Msg.id] at hm
    rcases deliver_incr_shape hd with ⟨_, rfl⟩ | ⟨st, _, _, rfl⟩
    · exact Same.refl _ X
    · exact setStream_same _ _ hne
  | closeWrite Y =>
    have hne : X ≠ Y := by
      intro he; subst he; simp [Msg.about, Msg.id] at hm
    rcases deliver_cw_shape hd with ⟨_, rfl⟩ | ⟨st, _, _, rfl⟩
    · exact Same.refl _ X
    · exact setStream_same _ _ hne
  | close Y =>
    have hne : X ≠ Y := by
      intro he; subst he; simp [Msg.about, Msg.id] at hm
    rcases deliver_close_shape hd with ⟨_, rfl⟩ | ⟨st, _, _, rfl⟩
    · exact Same.refl _ X
    · exact setStream_same _ _ hne

variable {o p : Side} {wop wpo : List Msg} {X : Nat}

/-- The acceptor's reader processes the head of the wire from the opener. -/
theorem PerId.deliver_p (m : Msg) {p' : Side}
    (h : PerId o p (onlyAbout X (m :: wop)) (onlyAbout X wpo) X)
    (hd : p.deliver m = .ok p') (hc : p.closedMux = false) (hpo : p.isOutbound X = false) :
    PerId o p' (onlyAbout X wop) (onlyAbout X wpo) X := by
  by_cases hm : m.about X = true
  · rw [onlyAbout_cons_about _ hm] at h
    cases m with
    | heartbeat => simp [Msg.about] at hm
    | «open» Y win =>
      have hy : Y = X := by simpa [Msg.about, Msg.id] using hm
      subst hy
      obtain ⟨hns, _, hs⟩ := deliver_open_shape hd hc
      rcases hs with ⟨_, rfl⟩ | rfl
      · refine h.open_reject_p win hns ?_ ?_ ?_ ?_ ?_ ?_ ?_ <;> simp [Side.enqClose, hc]
      · refine h.open_accept_p win hns
            ({ ({ p with largestIn := Y } : Side).newStream with sendWindow := win })
            rfl rfl rfl rfl rfl rfl rfl rfl rfl ?_ ?_ ?_ ?_ ?_ ?_ <;>
          simp [Side.setStream, Side.newStream]
    | accept Y win =>
      have hy : Y = X := by simpa [Msg.about, Msg.id] using hm
      subst hy
      have := h.no_cross.2 _ List.mem_cons_self
      simp [Msg.isAcceptOf] at this
    | data Y bs =>
      have hy : Y = X := by simpa [Msg.about, Msg.id] using hm
      subst hy
      rcases deliver_data_shape hd with ⟨hl, rfl⟩ | ⟨st, hs, hr, rfl⟩
      · exact h.drop_p _ hm rfl (lookup_none_unreg hl)
          ⟨rfl, rfl, rfl, rfl, Iff.rfl, rfl, rfl, rfl⟩
      · exact h.deliver_data_p bs st hs hr (setStream_atEq p Y _)
    | incr Y a =>
      have hy : Y = X := by simpa [Msg.about, Msg.id] using hm
      subst hy
      rcases deliver_incr_shape hd with ⟨hl, rfl⟩ | ⟨st, hs, hr, rfl⟩
      · exact h.drop_p _ hm rfl (lookup_none_unreg hl)
          ⟨rfl, rfl, rfl, rfl, Iff.rfl, rfl, rfl, rfl⟩
      · exact h.deliver_incr_p a st hs hr (setStream_atEq p Y _)
    | closeWrite Y =>
      have hy : Y = X := by simpa [Msg.about, Msg.id] using hm
      subst hy
      rcases deliver_cw_shape hd with ⟨hl, rfl⟩ | ⟨st, hs, hr, rfl⟩
      · exact h.drop_p _ hm rfl (lookup_none_unreg hl)
          ⟨rfl, rfl, rfl, rfl, Iff.rfl, rfl, rfl, rfl⟩
      · exact h.deliver_cw_p st hs hr (setStream_atEq p Y _)
    | close Y =>
      have hy : Y = X := by simpa [Msg.about, Msg.id] using hm
      subst hy
      rcases deliver_close_shape hd with ⟨hl, rfl⟩ | ⟨st, hs, hr, rfl⟩
      · exact h.drop_p _ hm rfl (lookup_none_unreg hl)
          ⟨rfl, rfl, rfl, rfl, Iff.rfl, rfl, rfl, rfl⟩
      · exact h.deliver_close_p st hs hr (setStream_atEq p Y _)
  · have hm' : m.about X = false := by simpa using hm
    rw [onlyAbout_cons_other _ hm'] at h
    exact h.same (Same.refl o X) (deliver_same hd hm' hc)

/-- The opener's reader processes the head of the wire from the acceptor. -/
theorem PerId.deliver_o (m : Msg) {o' : Side}
    (h : PerId o p (onlyAbout X wop) (onlyAbout X (m :: wpo)) X)
    (hd : o.deliver m = .ok o') (hc : o.closedMux = false) (hoo : o.isOutbound X = true) :
    PerId o' p (onlyAbout X wop) (onlyAbout X wpo) X := by
  by_cases hm : m.about X = true
  · rw [onlyAbout_cons_about _ hm] at h
    cases m with
    | heartbeat => simp [Msg.about] at hm
    | «open» Y win =>
      have hy : Y = X := by simpa [Msg.about, Msg.id] using hm
      subst hy
      have := h.no_cross.1 _ List.mem_cons_self
      simp [Msg.isOpenOf] at this
    | accept Y win =>
      have hy : Y = X := by simpa [Msg.about, Msg.id] using hm
      subst hy
      rcases deliver_accept_shape hd with ⟨hl, rfl⟩ | ⟨st, hs, hr, rfl⟩
      · exact h.drop_o _ hm (lookup_none_unreg hl) ⟨rfl, rfl, rfl, rfl, Iff.rfl, rfl, rfl, rfl⟩
      · exact h.deliver_accept_o win st hs hr (setStream_atEq o Y _)
    | data Y bs =>
      have hy : Y = X := by simpa [Msg.about, Msg.id] using hm
      subst hy
      rcases deliver_data_shape hd with ⟨hl, rfl⟩ | ⟨st, hs, hr, rfl⟩
      · exact h.drop_o _ hm (lookup_none_unreg hl) ⟨rfl, rfl, rfl, rfl, Iff.rfl, rfl, rfl, rfl⟩
      · exact h.deliver_data_o bs st hs hr (setStream_atEq o Y _)
    | incr Y a =>
      have hy : Y = X := by simpa [Msg.about, Msg.id] using hm
      subst hy
      rcases deliver_incr_shape hd with ⟨hl, rfl⟩ | ⟨st, hs, hr, rfl⟩
      · exact h.drop_o _ hm (lookup_none_unreg hl) ⟨rfl, rfl, rfl, rfl, Iff.rfl, rfl, rfl, rfl⟩
      · exact h.deliver_incr_o a st hs hr (setStream_atEq o Y _)
    | closeWrite Y =>
      have hy : Y = X := by simpa [Msg.about, Msg.id] using hm
      subst hy
      rcases deliver_cw_shape hd with ⟨hl, rfl⟩ | ⟨st, hs, hr, rfl⟩
      · exact h.drop_o _ hm (lookup_none_unreg hl) ⟨rfl, rfl, rfl, rfl, Iff.rfl, rfl, rfl, rfl⟩
      · exact h.deliver_cw_o st hs hr (setStream_atEq o Y _)
    | close Y =>
      have hy : Y = X := by simpa [Msg.about, Msg.id] using hm
      subst hy
      rcases deliver_close_shape hd with ⟨hl, rfl⟩ | ⟨st, hs, hr, rfl⟩
      · exact h.drop_o _ hm (lookup_none_unreg hl) ⟨rfl, rfl, rfl, rfl, Iff.rfl, rfl, rfl, rfl⟩
      · exact h.deliver_close_o st hs hr (setStream_atEq o Y _)
  · have hm' : m.about X = false := by simpa using hm
    rw [onlyAbout_cons_other _ hm'] at h
    exact h.same (deliver_same hd hm' hc) (Same.refl p X)

end Mutagen.Model.Mux
