import Mutagen.Proofs.HistoryGeneral
/-!
Gap cycles for the multi-cycle theorem of C01: a cycle does not synchronize a
path `q` if `q` lies under a conflict or if no planned change installs an entry
at `q` (`GapCycle`); such a cycle keeps or drops the ancestor's record at `q`
(`gapCycle_anc_kept`). Concrete reasons: nothing planned near `q`
(`cycle_untouched_of_nothingNear`), `q` under a conflict
(`cycle_untouched_under_conflict`), `q` at or below an untracked / problematic
entry of an endpoint (`unsync_installs_nothing`, `gapCycle_of_unsync`); and the
general history theorem with this weak gap hypothesis (`history_general_gap`).
-/
namespace Mutagen.Model

/-! ## Gap cycles: every reason for which a path is not synchronized by a cycle -/

theorem ov_keep_or_none {cs : List Change} {q : Path}
    (h : ∀ c ∈ cs, c.path <+: q → pget c.new (q.drop c.path.length) = none) :
    ∀ d, ov cs q d = d ∨ ov cs q d = none := by
  induction cs with
  | nil => intro d; exact Or.inl rfl
  | cons c cs ih =>
    intro d
    rw [ov_cons]
    have ih' := ih (fun x hx => h x (by simp [hx]))
    by_cases hm : c.path <+: q
    · rw [if_pos hm, h c (by simp) hm]
      rcases ih' none with h1 | h1 <;> exact Or.inr h1
    · rw [if_neg hm]; exact ih' d

/-- The new ancestor, path by path: the last matching change of the cycle wins. -/
theorem cycle_anc_pget (mode : Mode) (s : HState) (q : Path) :
    pget (cycleStep mode s).anc q =
      ov ((Reconcile s.anc s.alpha s.beta mode).anc ++
        ((Reconcile s.anc s.alpha s.beta mode).alpha ++ (Reconcile s.anc s.alpha s.beta mode).beta)) q
        (pget s.anc q) := by
  obtain ⟨hA, _, _⟩ := cycle_applies mode s
  have := apply_pget_ov hA q
  simp only [ov_append, ov_map_idealResult] at this
  simpa [ov_append] using this

/-- No change of the cycle's plan — ancestor change or endpoint change —
installs an entry at `q`: every planned change at or above `q` has nothing at
`q` in its new content. -/
def InstallsNothingAt (mode : Mode) (s : HState) (q : Path) : Prop :=
  ∀ c ∈ (Reconcile s.anc s.alpha s.beta mode).anc ++
      ((Reconcile s.anc s.alpha s.beta mode).alpha ++ (Reconcile s.anc s.alpha s.beta mode).beta),
    c.path <+: q → pget c.new (q.drop c.path.length) = none

/-- (b) If the cycle installs nothing at `q`, the ancestor's record at `q` is
unchanged or dropped. -/
theorem cycle_anc_kept_of_installsNothing (mode : Mode) (s : HState) (q : Path)
    (h : InstallsNothingAt mode s q) :
    pget (cycleStep mode s).anc q = pget s.anc q ∨ pget (cycleStep mode s).anc q = none := by
  rw [cycle_anc_pget]
  exact ov_keep_or_none h _

/-- Nothing is planned at, above or below `q`: no ancestor, alpha or beta change
of the plan has a path comparable with `q`. -/
def NothingPlannedNear (mode : Mode) (s : HState) (q : Path) : Prop :=
  ∀ c ∈ (Reconcile s.anc s.alpha s.beta mode).anc ++
      ((Reconcile s.anc s.alpha s.beta mode).alpha ++ (Reconcile s.anc s.alpha s.beta mode).beta),
    incomparable c.path q

theorem NothingPlannedNear.installsNothing {mode : Mode} {s : HState} {q : Path}
    (h : NothingPlannedNear mode s q) : InstallsNothingAt mode s q :=
  fun c hc hpre => absurd hpre (h c hc).1

/-- (a)+(b) for a path near which nothing is planned: the cycle leaves the entry
at `q` untouched on both endpoints and in the ancestor. -/
theorem cycle_untouched_of_nothingNear (mode : Mode) (s : HState) (q : Path) (h : NothingPlannedNear mode s q) :
    pget (cycleStep mode s).alpha q = pget s.alpha q ∧ pget (cycleStep mode s).beta q = pget s.beta q ∧
      pget (cycleStep mode s).anc q = pget s.anc q := by
  obtain ⟨_, hα, hβ⟩ := cycle_applies mode s
  refine ⟨?_, ?_, ?_⟩
  · rw [apply_pget_ov hα q]
    exact ov_no_match (fun c hc hpre => (h c (by simp [hc])).1 hpre) _
  · rw [apply_pget_ov hβ q]
    exact ov_no_match (fun c hc hpre => (h c (by simp [hc])).1 hpre) _
  · rw [cycle_anc_pget]
    exact ov_no_match (fun c hc hpre => (h c hc).1 hpre) _

/-- (a) Under a conflict root no endpoint change is planned at, above or below
the path: both endpoint entries there are untouched by the cycle. -/
theorem cycle_untouched_under_conflict (mode : Mode) (s : HState) (q : Path)
    (h : ∃ c ∈ (Reconcile s.anc s.alpha s.beta mode).conflicts, c.root <+: q) :
    pget (cycleStep mode s).alpha q = pget s.alpha q ∧ pget (cycleStep mode s).beta q = pget s.beta q := by
  obtain ⟨c, hc, hpre⟩ := h
  obtain ⟨_, hα, hβ⟩ := cycle_applies mode s
  have hex := conflict_excludes_changes mode [] s.anc s.alpha s.beta c hc
  constructor
  · rw [apply_pget_ov hα q]
    refine ov_no_match (fun x hx hx' => ?_) _
    rcases List.prefix_or_prefix_of_prefix hx' hpre with h1 | h1
    · exact (hex.1 x hx).1 h1
    · exact (hex.1 x hx).2 h1
  · rw [apply_pget_ov hβ q]
    refine ov_no_match (fun x hx hx' => ?_) _
    rcases List.prefix_or_prefix_of_prefix hx' hpre with h1 | h1
    · exact (hex.2 x hx).1 h1
    · exact (hex.2 x hx).2 h1

/-- A gap cycle for `q`: the cycle does not synchronize `q` — because `q` lies
under a conflict, or because no planned change installs an entry at `q`
(nothing planned near `q`; `q` under skipped or dropped content; …). -/
def GapCycle (mode : Mode) (s : HState) (q : Path) : Prop :=
  (∃ c ∈ (Reconcile s.anc s.alpha s.beta mode).conflicts, c.root <+: q) ∨ InstallsNothingAt mode s q

theorem gapCycle_anc_kept (mode : Mode) (s : HState) (q : Path) (h : GapCycle mode s q) :
    pget (cycleStep mode s).anc q = pget s.anc q ∨ pget (cycleStep mode s).anc q = none := by
  rcases h with h | h
  · exact cycle_under_conflict_anc mode s q h
  · exact cycle_anc_kept_of_installsNothing mode s q h

/-- Every cycle among the steps, run from `s`, is a gap cycle for `q`. -/
def GapCycles (mode : Mode) (q : Path) : HState → List HStep → Prop
  | _, [] => True
  | s, .cycle :: rest => GapCycle mode s q ∧ GapCycles mode q (cycleStep mode s) rest
  | s, .editAlpha t :: rest => GapCycles mode q { s with alpha := t } rest
  | s, .editBeta t :: rest => GapCycles mode q { s with beta := t } rest

theorem GapCycles.of_underConflict (mode : Mode) (q : Path) (steps : List HStep) :
    ∀ s, UnderConflictInCycles mode q s steps → GapCycles mode q s steps := by
  induction steps with
  | nil => intro s _; trivial
  | cons x xs ih =>
    intro s h
    cases x with
    | editAlpha t => exact ih _ h
    | editBeta t => exact ih _ h
    | cycle => exact ⟨Or.inl h.1, ih _ h.2⟩

theorem hrun_anc_kept_gap (mode : Mode) (q : Path) (steps : List HStep) :
    ∀ s, GapCycles mode q s steps →
      pget (hrun mode s steps).anc q = pget s.anc q ∨ pget (hrun mode s steps).anc q = none := by
  induction steps with
  | nil => intro s _; exact Or.inl rfl
  | cons x xs ih =>
    intro s h
    cases x with
    | editAlpha t =>
      have := ih { s with alpha := t } h
      simpa [hrun, hstep] using this
    | editBeta t =>
      have := ih { s with beta := t } h
      simpa [hrun, hstep] using this
    | cycle =>
      have h1 := gapCycle_anc_kept mode s q h.1
      have h2 := ih (cycleStep mode s) h.2
      have e : hrun mode s (.cycle :: xs) = hrun mode (cycleStep mode s) xs := by simp [hrun, hstep]
      rw [e]
      rcases h2 with h2 | h2
      · rcases h1 with h1 | h1
        · left; rw [h2, h1]
        · right; rw [h2, h1]
      · exact Or.inr h2

/-- The general history theorem with the weak gap hypothesis. -/
theorem history_general_gap (s₀ : HState) (h₀ : s₀.EndpointsValid) (pre mid : List HStep) (hpre : ValidSteps pre)
    (q : Path)
    (hq : ∀ c ∈ (Reconcile (hrun .twoWaySafe s₀ pre).anc (hrun .twoWaySafe s₀ pre).alpha
        (hrun .twoWaySafe s₀ pre).beta .twoWaySafe).conflicts, ¬ c.root <+: q)
    (h1 : NoUnsyncAlong (cycleStep .twoWaySafe (hrun .twoWaySafe s₀ pre)).alpha q)
    (h2 : NoUnsyncAlong (cycleStep .twoWaySafe (hrun .twoWaySafe s₀ pre)).beta q)
    (hmid : GapCycles .twoWaySafe q (cycleStep .twoWaySafe (hrun .twoWaySafe s₀ pre)) mid) :
    let s₁ := cycleStep .twoWaySafe (hrun .twoWaySafe s₀ pre)
    let t := hrun .twoWaySafe s₁ mid
    (pget s₁.alpha q = pget s₁.anc q ∧ pget s₁.beta q = pget s₁.anc q) ∧
    (pget t.alpha q ≠ none → pget t.alpha q ≠ pget s₁.alpha q →
      pget (cycleStep .twoWaySafe t).alpha q = pget t.alpha q) ∧
    (pget t.beta q ≠ none → pget t.beta q ≠ pget s₁.beta q →
      pget (cycleStep .twoWaySafe t).beta q = pget t.beta q) := by
  intro s₁ t
  have hv := hrun_endpointsValid .twoWaySafe pre s₀ h₀ hpre
  obtain ⟨c1, c2⟩ := cycle_converges .twoWaySafe (Or.inl rfl) (hrun .twoWaySafe s₀ pre) hv.1 hv.2.2.1 hv.2.1
    hv.2.2.2 q hq h1 h2
  have hk := hrun_anc_kept_gap .twoWaySafe q mid s₁ hmid
  obtain ⟨n1, n2⟩ := cycle_no_loss t
  refine ⟨⟨c1, c2⟩, ?_, ?_⟩
  · intro hsome hmod
    apply Classical.byContradiction
    intro hne
    rcases n1 q hne with h | h
    · exact hsome h
    · rcases hk with hk | hk
      · exact hmod (by rw [h, hk, ← c1])
      · exact hsome (by rw [h, hk])
  · intro hsome hmod
    apply Classical.byContradiction
    intro hne
    rcases n2 q hne with h | h
    · exact hsome h
    · rcases hk with hk | hk
      · exact hmod (by rw [h, hk, ← c2])
      · exact hsome (by rw [h, hk])

/-! ### A path at or below an untracked / problematic entry is a gap path -/

/-- Some entry of `e` at `rel` or at a prefix of `rel` is untracked, problematic
(or of another unsynchronizable kind). -/
def UnsyncAlong (e : Option Entry) (rel : Path) : Prop :=
  ∃ u, u <+: rel ∧ ∃ pr, pget e u = some pr ∧ pr.kind.synchronizable = false

theorem noUnsync_of_syncAlong (rel : Path) : ∀ e : Option Entry, syncAlong e rel = true → NoUnsyncAlong e rel := by
  induction rel with
  | nil =>
    intro e h u hu pr hpr
    have : u = [] := List.prefix_nil.mp hu
    subst this
    cases e with
    | none => simp [syncAlong] at h
    | some x =>
      simp only [pget, getPath, Option.map_some, Option.some.injEq] at hpr
      subst hpr
      simpa [syncAlong, Entry.kind] using h
  | cons n r ih =>
    intro e h u hu pr hpr
    cases e with
    | none => simp [syncAlong] at h
    | some x =>
      simp only [syncAlong, Bool.and_eq_true] at h
      cases u with
      | nil =>
        simp only [pget, getPath, Option.map_some, Option.some.injEq] at hpr
        subst hpr
        simpa [Entry.kind] using h.1
      | cons m u' =>
        rw [List.cons_prefix_cons] at hu
        obtain ⟨rfl, hu'⟩ := hu
        exact ih _ h.2 u' hu' pr (by rw [pget_some_cons] at hpr; exact hpr)

theorem pget_osync_none_of_unsync {e : Option Entry} (hv : Valid e) {rel : Path} (h : UnsyncAlong e rel) :
    pget (osync e) rel = none := by
  rw [sync_pget e hv rel]
  split
  · rename_i hs
    obtain ⟨u, hu, pr, hpr, hk⟩ := h
    have := noUnsync_of_syncAlong rel e hs u hu pr hpr
    rw [this] at hk; cases hk
  · rfl

theorem allSync_pget (u : Path) : ∀ e : Option Entry, oallSync e = true → ∀ pr, pget e u = some pr →
    pr.kind.synchronizable = true := by
  induction u with
  | nil =>
    intro e h pr hpr
    cases e with
    | none => simp at hpr
    | some x =>
      cases x with
      | mk p cs =>
        simp only [pget, getPath, Option.map_some, Option.some.injEq, Entry.props] at hpr
        subst hpr
        simp only [oallSync, Entry.allSync, Bool.and_eq_true] at h
        exact h.1
  | cons n u ih =>
    intro e h pr hpr
    rw [pget_cons] at hpr
    exact ih _ (oallSync_lookup h n) pr hpr

theorem UnsyncAlong.not_allSync {e : Option Entry} {rel : Path} (h : UnsyncAlong e rel) : oallSync e ≠ true := by
  intro ha
  obtain ⟨u, _, pr, hpr, hk⟩ := h
  rw [allSync_pget u e ha pr hpr] at hk; cases hk

theorem UnsyncAlong.child {e : Option Entry} {n : Name} {rel : Path} (h : UnsyncAlong e (n :: rel))
    (hroot : ∀ pr, pget e [] = some pr → pr.kind.synchronizable = true) :
    UnsyncAlong (lookup n (contents e)) rel := by
  obtain ⟨u, hu, pr, hpr, hk⟩ := h
  cases u with
  | nil => rw [hroot pr hpr] at hk; cases hk
  | cons m u' =>
    rw [List.cons_prefix_cons] at hu
    obtain ⟨rfl, hu'⟩ := hu
    exact ⟨u', hu', pr, by rw [pget_cons] at hpr; exact hpr, hk⟩

/-- At or below an untracked / problematic entry of an endpoint, no planned
change (ancestor or endpoint, any mode) installs anything. -/
theorem unsync_installs_nothing (mode : Mode) (path : Path) (a al be : Option Entry) :
    Valid al → Valid be → onoPhantom al = true → onoPhantom be = true →
    ∀ rel, (UnsyncAlong al rel ∨ UnsyncAlong be rel) →
    ∀ c ∈ (reconcile mode path a al be).anc ++
        ((reconcile mode path a al be).alpha ++ (reconcile mode path a al be).beta),
      c.path <+: path ++ rel → pget c.new ((path ++ rel).drop c.path.length) = none := by
  fun_induction reconcile mode path a al be with
  | case1 => intro _ _ _ _ rel _ c hc; simp at hc
  | case2 => intro _ _ _ _ rel _ c hc; simp at hc
  | case3 =>
    intro _ _ _ _ rel _ c hc _
    simp [Plan.ancChange] at hc
    subst hc
    simp
  | case4 => intro _ _ _ _ rel _ c hc; simp at hc
  | case5 path ancestor alpha beta h1 h2 h3 h4 here anc' ih =>
    intro hal hbe hpα hpβ rel hun c hc hpre
    have hh1 : here.alpha = [] := by simp only [here]; split <;> rfl
    have hh2 : here.beta = [] := by simp only [here]; split <;> rfl
    -- both roots are of synchronizable kind at a recursion node
    have hrootα : ∀ pr, pget alpha [] = some pr → pr.kind.synchronizable = true := by
      intro pr hpr
      cases alpha with
      | none => simp at hpr
      | some x =>
        cases x with
        | mk p cs =>
          simp only [pget, getPath, Option.map_some, Option.some.injEq, Entry.props] at hpr
          subst hpr
          rcases kind_cases hal (by intro hk; exact h1 (by simp [isKind, Entry.kind, Entry.props, hk]))
            (by have := isKind_phantom_of_noPhantom hpα
                intro hk; simp [isKind, Entry.kind, Entry.props, hk] at this) with hk | hk
          · exact hk
          · exfalso
            apply h3
            cases beta with
            | none => simp [shallowEq] at h4
            | some b =>
              cases b with
              | mk pb ds =>
                have hb : pb = p := by simp only [shallowEq, Entry.props, beq_iff_eq] at h4; exact h4.symm
                simp [isKind, Entry.kind, Entry.props, hk, hb]
    have hrootβ : ∀ pr, pget beta [] = some pr → pr.kind.synchronizable = true := by
      intro pr hpr
      rw [← shallowEq_iff_pget.mp h4] at hpr
      exact hrootα pr hpr
    have hαsome : ∃ e, alpha = some e := by
      cases alpha with
      | some e => exact ⟨e, rfl⟩
      | none =>
        cases beta with
        | none => simp at h3
        | some b => simp [shallowEq] at h4
    -- the unsynchronizable entry is strictly below this node
    cases rel with
    | nil =>
      exfalso
      rcases hun with ⟨u, hu, pr, hpr, hk⟩ | ⟨u, hu, pr, hpr, hk⟩
      · have : u = [] := List.prefix_nil.mp hu
        subst this
        rw [hrootα pr hpr] at hk; cases hk
      · have : u = [] := List.prefix_nil.mp hu
        subst this
        rw [hrootβ pr hpr] at hk; cases hk
    | cons n rel' =>
      have hun' : UnsyncAlong (lookup n (contents alpha)) rel' ∨ UnsyncAlong (lookup n (contents beta)) rel' :=
        hun.imp (fun h => h.child hrootα) (fun h => h.child hrootβ)
      simp only [Plan.append_anc, Plan.append_alpha, Plan.append_beta, hh1, hh2, List.nil_append,
        Plan.concat_anc, Plan.concat_alpha, Plan.concat_beta, List.flatMap_map, List.mem_append,
        List.mem_flatMap, List.mem_attach, true_and] at hc
      have hchild : ∀ (m : { x // x ∈ nameUnion [contents anc', contents alpha, contents beta] }),
          c ∈ (reconcile mode (path ++ [m.1]) (lookup m.1 (contents anc')) (lookup m.1 (contents alpha))
                (lookup m.1 (contents beta))).anc ++
              ((reconcile mode (path ++ [m.1]) (lookup m.1 (contents anc')) (lookup m.1 (contents alpha))
                (lookup m.1 (contents beta))).alpha ++
               (reconcile mode (path ++ [m.1]) (lookup m.1 (contents anc')) (lookup m.1 (contents alpha))
                (lookup m.1 (contents beta))).beta) →
          (path ++ [m.1]) <+: c.path →
          pget c.new ((path ++ n :: rel').drop c.path.length) = none := by
        intro m hcm hunder
        have hmn : m.1 = n := by
          apply Classical.byContradiction
          intro hne
          exact not_under_other_child hne hunder hpre
        have := ih m (hal.lookup m.1) (hbe.lookup m.1) (onoPhantom_lookup hpα m.1) (onoPhantom_lookup hpβ m.1)
          rel' (by rw [hmn]; exact hun') c hcm (by rw [hmn]; simpa using hpre)
        rw [hmn] at this
        simpa using this
      rcases hc with (hc | ⟨m, hm⟩) | ⟨m, hm⟩ | ⟨m, hm⟩
      · -- the change at this node records a node without children
        obtain ⟨ae, hae⟩ := hαsome
        simp only [here] at hc
        split at hc
        · simp [Plan.ancChange] at hc
          subst hc
          simp [hae, ocopy_slim_pget_cons]
        · cases hc
      · exact hchild m (List.mem_append.mpr (Or.inl hm)) (reconcile_anc_under mode _ _ _ _ c hm)
      · exact hchild m (List.mem_append.mpr (Or.inr (List.mem_append.mpr (Or.inl hm))))
          (reconcile_alpha_under mode _ _ _ _ c hm)
      · exact hchild m (List.mem_append.mpr (Or.inr (List.mem_append.mpr (Or.inr hm))))
          (reconcile_beta_under mode _ _ _ _ c hm)
  | case6 path ancestor alpha beta h1 h2 h3 h4 =>
    intro hal hbe hpα hpβ rel hun c hc hpre
    have hd : Disagree alpha beta :=
      ⟨Bool.eq_false_iff.mpr h1, Bool.eq_false_iff.mpr h2, Bool.eq_false_iff.mpr h3, Bool.eq_false_iff.mpr h4⟩
    have hclean := handleDisagreement_clean mode path ancestor alpha beta
    rcases handleDisagreement_outcome mode path ancestor alpha beta hal hbe hd with
      ⟨x, y, hP⟩ | ⟨o, hP⟩ | ⟨o, hP⟩ | ⟨hP, _⟩ | ⟨hP, _⟩
    · rw [hP] at hc; simp [Plan.conflict] at hc
    · have hca := (hclean.1 { path := path, old := o, new := osync beta } (by rw [hP]; simp [Plan.alphaChange])).2
      rw [hP] at hc
      simp [Plan.alphaChange] at hc
      subst hc
      simp only [List.drop_left]
      rcases hun with h | h
      · exact absurd (allSync_of_sameTree_sync _ hal hca) h.not_allSync
      · exact pget_osync_none_of_unsync hbe h
    · have hcb := (hclean.2 { path := path, old := o, new := osync alpha } (by rw [hP]; simp [Plan.betaChange])).2
      rw [hP] at hc
      simp [Plan.betaChange] at hc
      subst hc
      simp only [List.drop_left]
      rcases hun with h | h
      · exact pget_osync_none_of_unsync hal h
      · exact absurd (allSync_of_sameTree_sync _ hbe hcb) h.not_allSync
    · rw [hP] at hc
      simp [Plan.ancChange] at hc
      subst hc
      simp
    · rw [hP] at hc; simp at hc

/-- A cycle is a gap cycle for every path at or below an untracked or
problematic entry of either (valid, phantom-free) endpoint. -/
theorem gapCycle_of_unsync (mode : Mode) (s : HState) (hs : s.EndpointsValid) (q : Path)
    (h : UnsyncAlong s.alpha q ∨ UnsyncAlong s.beta q) : GapCycle mode s q := by
  right
  intro c hc hpre
  have := unsync_installs_nothing mode [] s.anc s.alpha s.beta hs.1 hs.2.2.1 hs.2.1 hs.2.2.2 q h c hc
    (by simpa using hpre)
  simpa using this

end Mutagen.Model
