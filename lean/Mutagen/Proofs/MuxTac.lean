/-
Automation for the per-identifier preservation lemmas of the multiplexer
invariant: a side after an action is described by what it looks like at the
identifier `X` (`AtEq`), the invariant is flattened into a conjunction of
first-order facts, and each conjunct of the new invariant is discharged by
`grind` from the conjuncts of the old one.
-/
import Mutagen.Proofs.MuxDeliver
namespace Mutagen.Model.Mux

/-- What the side `s'` looks like at identifier `X`, relative to `s`. -/
structure AtEq (s' : Side) (X : Nat) (st : Option Stream) (pi : Option Nat) (pcw pcl : Bool)
    (s : Side) : Prop where
  streams : s'.streams X = st
  pendIncr : s'.pendIncr X = pi
  pendCW : s'.pendCW X = pcw
  pendClose : s'.pendClose X = pcl
  used : s'.used X ↔ s.used X
  largestIn : s'.largestIn = s.largestIn
  backlog : s'.backlog = s.backlog
  window : s'.window = s.window

theorem isOpenOf_about {X : Nat} {m : Msg} (h : m.isOpenOf X = true) : m.about X = true := by
  cases m <;> simp_all [Msg.isOpenOf, Msg.about, Msg.id]
theorem isAcceptOf_about {X : Nat} {m : Msg} (h : m.isAcceptOf X = true) : m.about X = true := by
  cases m <;> simp_all [Msg.isAcceptOf, Msg.about, Msg.id]
theorem isDataOf_about {X : Nat} {m : Msg} (h : m.isDataOf X = true) : m.about X = true := by
  cases m <;> simp_all [Msg.isDataOf, Msg.about, Msg.id]
theorem isIncrOf_about {X : Nat} {m : Msg} (h : m.isIncrOf X = true) : m.about X = true := by
  cases m <;> simp_all [Msg.isIncrOf, Msg.about, Msg.id]
theorem isCWOf_about {X : Nat} {m : Msg} (h : m.isCWOf X = true) : m.about X = true := by
  cases m <;> simp_all [Msg.isCWOf, Msg.about, Msg.id]
theorem isCloseOf_about {X : Nat} {m : Msg} (h : m.isCloseOf X = true) : m.about X = true := by
  cases m <;> simp_all [Msg.isCloseOf, Msg.about, Msg.id]

theorem dataBytes_zero_of_about {X : Nat} {w : List Msg} (h : ∀ m ∈ w, m.about X = false) :
    dataBytes X w = 0 := by
  apply dataBytes_eq_zero_of_none
  intro m hm
  cases hd : m.isDataOf X with
  | false => rfl
  | true => have := isDataOf_about hd; simp [h m hm] at this

theorem incrSum_zero_of_about {X : Nat} {w : List Msg} (h : ∀ m ∈ w, m.about X = false) :
    incrSum X w = 0 := by
  apply incrSum_eq_zero_of_none
  intro m hm
  cases hd : m.isIncrOf X with
  | false => rfl
  | true => have := isIncrOf_about hd; simp [h m hm] at this

theorem firstOK_of_none {X : Nat} {good : Msg → Bool} {w : List Msg} (h : ∀ m ∈ w, m.about X = false) :
    FirstOK X good w := by
  induction w with
  | nil => trivial
  | cons m w ih =>
    simp only [FirstOK, h m List.mem_cons_self, Bool.false_eq_true, ↓reduceIte]
    exact ih fun m' hm' => h m' (List.mem_cons_of_mem _ hm')

theorem dataBytes_cons_le (X : Nat) (m : Msg) (w : List Msg) : dataBytes X w ≤ dataBytes X (m :: w) := by
  cases m <;> simp [dataBytes]

theorem incrSum_cons_le (X : Nat) (m : Msg) (w : List Msg) : incrSum X w ≤ incrSum X (m :: w) := by
  cases m <;> simp [incrSum]

/-! Evaluation of the message predicates on constructors. -/

theorem isOpenOf_heartbeat (X : Nat)  : Msg.isOpenOf X Msg.heartbeat = false := rfl
theorem isOpenOf_open (X : Nat) (id : _) (w : _) : Msg.isOpenOf X (Msg.open id w) = (id == X) := rfl
theorem isOpenOf_accept (X : Nat) (id : _) (w : _) : Msg.isOpenOf X (Msg.accept id w) = false := rfl
theorem isOpenOf_data (X : Nat) (id : _) (bs : _) : Msg.isOpenOf X (Msg.data id bs) = false := rfl
theorem isOpenOf_incr (X : Nat) (id : _) (a : _) : Msg.isOpenOf X (Msg.incr id a) = false := rfl
theorem isOpenOf_closeWrite (X : Nat) (id : _) : Msg.isOpenOf X (Msg.closeWrite id) = false := rfl
theorem isOpenOf_close (X : Nat) (id : _) : Msg.isOpenOf X (Msg.close id) = false := rfl
theorem isAcceptOf_heartbeat (X : Nat)  : Msg.isAcceptOf X Msg.heartbeat = false := rfl
theorem isAcceptOf_open (X : Nat) (id : _) (w : _) : Msg.isAcceptOf X (Msg.open id w) = false := rfl
theorem isAcceptOf_accept (X : Nat) (id : _) (w : _) : Msg.isAcceptOf X (Msg.accept id w) = (id == X) := rfl
theorem isAcceptOf_data (X : Nat) (id : _) (bs : _) : Msg.isAcceptOf X (Msg.data id bs) = false := rfl
theorem isAcceptOf_incr (X : Nat) (id : _) (a : _) : Msg.isAcceptOf X (Msg.incr id a) = false := rfl
theorem isAcceptOf_closeWrite (X : Nat) (id : _) : Msg.isAcceptOf X (Msg.closeWrite id) = false := rfl
theorem isAcceptOf_close (X : Nat) (id : _) : Msg.isAcceptOf X (Msg.close id) = false := rfl
theorem isDataOf_heartbeat (X : Nat)  : Msg.isDataOf X Msg.heartbeat = false := rfl
theorem isDataOf_open (X : Nat) (id : _) (w : _) : Msg.isDataOf X (Msg.open id w) = false := rfl
theorem isDataOf_accept (X : Nat) (id : _) (w : _) : Msg.isDataOf X (Msg.accept id w) = false := rfl
theorem isDataOf_data (X : Nat) (id : _) (bs : _) : Msg.isDataOf X (Msg.data id bs) = (id == X) := rfl
theorem isDataOf_incr (X : Nat) (id : _) (a : _) : Msg.isDataOf X (Msg.incr id a) = false := rfl
theorem isDataOf_closeWrite (X : Nat) (id : _) : Msg.isDataOf X (Msg.closeWrite id) = false := rfl
theorem isDataOf_close (X : Nat) (id : _) : Msg.isDataOf X (Msg.close id) = false := rfl
theorem isIncrOf_heartbeat (X : Nat)  : Msg.isIncrOf X Msg.heartbeat = false := rfl
theorem isIncrOf_open (X : Nat) (id : _) (w : _) : Msg.isIncrOf X (Msg.open id w) = false := rfl
theorem isIncrOf_accept (X : Nat) (id : _) (w : _) : Msg.isIncrOf X (Msg.accept id w) = false := rfl
theorem isIncrOf_data (X : Nat) (id : _) (bs : _) : Msg.isIncrOf X (Msg.data id bs) = false := rfl
theorem isIncrOf_incr (X : Nat) (id : _) (a : _) : Msg.isIncrOf X (Msg.incr id a) = (id == X) := rfl
theorem isIncrOf_closeWrite (X : Nat) (id : _) : Msg.isIncrOf X (Msg.closeWrite id) = false := rfl
theorem isIncrOf_close (X : Nat) (id : _) : Msg.isIncrOf X (Msg.close id) = false := rfl
theorem isCWOf_heartbeat (X : Nat)  : Msg.isCWOf X Msg.heartbeat = false := rfl
theorem isCWOf_open (X : Nat) (id : _) (w : _) : Msg.isCWOf X (Msg.open id w) = false := rfl
theorem isCWOf_accept (X : Nat) (id : _) (w : _) : Msg.isCWOf X (Msg.accept id w) = false := rfl
theorem isCWOf_data (X : Nat) (id : _) (bs : _) : Msg.isCWOf X (Msg.data id bs) = false := rfl
theorem isCWOf_incr (X : Nat) (id : _) (a : _) : Msg.isCWOf X (Msg.incr id a) = false := rfl
theorem isCWOf_closeWrite (X : Nat) (id : _) : Msg.isCWOf X (Msg.closeWrite id) = (id == X) := rfl
theorem isCWOf_close (X : Nat) (id : _) : Msg.isCWOf X (Msg.close id) = false := rfl
theorem isCloseOf_heartbeat (X : Nat)  : Msg.isCloseOf X Msg.heartbeat = false := rfl
theorem isCloseOf_open (X : Nat) (id : _) (w : _) : Msg.isCloseOf X (Msg.open id w) = false := rfl
theorem isCloseOf_accept (X : Nat) (id : _) (w : _) : Msg.isCloseOf X (Msg.accept id w) = false := rfl
theorem isCloseOf_data (X : Nat) (id : _) (bs : _) : Msg.isCloseOf X (Msg.data id bs) = false := rfl
theorem isCloseOf_incr (X : Nat) (id : _) (a : _) : Msg.isCloseOf X (Msg.incr id a) = false := rfl
theorem isCloseOf_closeWrite (X : Nat) (id : _) : Msg.isCloseOf X (Msg.closeWrite id) = false := rfl
theorem isCloseOf_close (X : Nat) (id : _) : Msg.isCloseOf X (Msg.close id) = (id == X) := rfl
theorem about_heartbeat (X : Nat)  : Msg.about X Msg.heartbeat = false := rfl
theorem about_open (X : Nat) (id : _) (w : _) : Msg.about X (Msg.open id w) = (id == X) := rfl
theorem about_accept (X : Nat) (id : _) (w : _) : Msg.about X (Msg.accept id w) = (id == X) := rfl
theorem about_data (X : Nat) (id : _) (bs : _) : Msg.about X (Msg.data id bs) = (id == X) := rfl
theorem about_incr (X : Nat) (id : _) (a : _) : Msg.about X (Msg.incr id a) = (id == X) := rfl
theorem about_closeWrite (X : Nat) (id : _) : Msg.about X (Msg.closeWrite id) = (id == X) := rfl
theorem about_close (X : Nat) (id : _) : Msg.about X (Msg.close id) = (id == X) := rfl

/-- Flatten the invariant (hypotheses and goal) into first-order facts. -/
macro "mux_flat" : tactic => `(tactic|
  simp only [PerId_iff, Flow_iff, Unused_iff, Unseen_iff, PNone_iff, OUnest_iff,
    List.mem_append, List.mem_singleton, List.mem_cons, Option.some.injEq, Side.pendOf,
    capOf, bufOf, swOf, dataBytes_append, incrSum_append, noAfter_append_one, firstOK_append_one,
    dataBytes, incrSum, NoAfter, FirstOK, Option.getD_some, Option.getD_none, List.length_append,
    List.length_drop, reduceCtorEq, false_implies, implies_true, and_true, true_and, not_false_eq_true,
    isOpenOf_heartbeat, isOpenOf_open, isOpenOf_accept, isOpenOf_data, isOpenOf_incr, isOpenOf_closeWrite, isOpenOf_close, isAcceptOf_heartbeat, isAcceptOf_open, isAcceptOf_accept, isAcceptOf_data, isAcceptOf_incr, isAcceptOf_closeWrite, isAcceptOf_close, isDataOf_heartbeat, isDataOf_open, isDataOf_accept, isDataOf_data, isDataOf_incr, isDataOf_closeWrite, isDataOf_close, isIncrOf_heartbeat, isIncrOf_open, isIncrOf_accept, isIncrOf_data, isIncrOf_incr, isIncrOf_closeWrite, isIncrOf_close, isCWOf_heartbeat, isCWOf_open, isCWOf_accept, isCWOf_data, isCWOf_incr, isCWOf_closeWrite, isCWOf_close, isCloseOf_heartbeat, isCloseOf_open, isCloseOf_accept, isCloseOf_data, isCloseOf_incr, isCloseOf_closeWrite, isCloseOf_close, about_heartbeat, about_open, about_accept, about_data, about_incr, about_closeWrite, about_close,
    beq_self_eq_true, Bool.false_eq_true, Bool.or_false, Bool.or_true, Bool.false_or,
    Bool.true_or, ↓reduceIte, forall_eq_or_imp, forall_eq, Nat.add_zero, Nat.zero_add] at *)

macro "mux_grind" : tactic => `(tactic|
  grind [Msg.isDataOf, Msg.isOpenOf, Msg.isAcceptOf, Msg.isCloseOf, Msg.isCWOf, Msg.isIncrOf, Msg.about,
    Msg.id, isOpenOf_about, isAcceptOf_about, isDataOf_about, isIncrOf_about, isCWOf_about,
    isCloseOf_about, dataBytes_zero_of_about, incrSum_zero_of_about, firstOK_of_none])

/-- Flatten, rewrite the goal with the description of the new side (so that
untouched conjuncts become hypotheses verbatim), split, discharge. -/
syntax "mux_auto" ("[" Lean.Parser.Tactic.simpLemma,* "]")? : tactic
macro_rules
  | `(tactic| mux_auto) =>
    `(tactic| (mux_flat; (repeat' apply And.intro) <;> (first | assumption | mux_grind)))
  | `(tactic| mux_auto [$ts,*]) =>
    `(tactic| (mux_flat; (try simp only [$ts,*]); (repeat' apply And.intro) <;> (first | assumption | mux_grind)))

end Mutagen.Model.Mux
