import Mutagen.Model.Rsync
/-!
C19, weak hash: the rolled weak hash equals the recomputed one, in wrap-around
`UInt32` arithmetic.

`S1`/`S2` are the unreduced sums the loop of `weakHash` accumulates. The rolling
identity holds exactly in the ring `UInt32` (`S1_roll`, `S2_roll`); reducing
modulo `m` commutes with `+`/`-` because `m = 2^16` divides `2^32` (`red_*`,
proved from the regenerated constant `Mutagen.Facts.rsyncWeakModulus`; with a
modulus that does not divide `2^32`, e.g. the prime the comment in engine.go
mentions, these lemmas — and the Go code's rolling — would be wrong).
-/
namespace Mutagen.Proofs.Rsync
open Mutagen.Model.Rsync

def S1 : List UInt8 → UInt32
  | [] => 0
  | b :: rest => b.toUInt32 + S1 rest

def S2 (bs : UInt32) : UInt32 → List UInt8 → UInt32
  | _, [] => 0
  | i, b :: rest => (bs - i) * b.toUInt32 + S2 bs (i + 1) rest

theorem weakLoop_eq (bs : UInt32) (data : List UInt8) (i r1 r2 : UInt32) :
    weakLoop bs data i r1 r2 = (r1 + S1 data, r2 + S2 bs i data) := by
  induction data generalizing i r1 r2 with
  | nil => simp [weakLoop, S1, S2]
  | cons b rest ih =>
    simp only [weakLoop, S1, S2, ih]
    refine Prod.ext ?_ ?_ <;> simp only <;> grind

theorem weakHash_eq (data : List UInt8) (n : Nat) :
    weakHash data n =
      (S1 data % m + m * (S2 (UInt32.ofNat n) 0 data % m), S1 data % m, S2 (UInt32.ofNat n) 0 data % m) := by
  simp [weakHash, weakLoop_eq]

theorem S1_append_single (w : List UInt8) (b : UInt8) : S1 (w ++ [b]) = S1 w + b.toUInt32 := by
  induction w with
  | nil => simp [S1]
  | cons a w ih => simp only [List.cons_append, S1, ih]; grind

theorem S2_append_single (bs i : UInt32) (w : List UInt8) (b : UInt8) :
    S2 bs i (w ++ [b]) = S2 bs i w + (bs - (i + UInt32.ofNat w.length)) * b.toUInt32 := by
  induction w generalizing i with
  | nil => simp [S2]
  | cons a w ih =>
    simp only [List.cons_append, S2, ih, List.length_cons, UInt32.ofNat_add]
    grind

theorem S2_shift (bs i : UInt32) (w : List UInt8) : S2 bs i w = S2 bs (i + 1) w + S1 w := by
  induction w generalizing i with
  | nil => simp [S1, S2]
  | cons a w ih =>
    simp only [S1, S2]
    rw [ih (i + 1)]
    grind

/-- The rolling identity for the first component, exactly in `UInt32`. -/
theorem S1_roll (a b : UInt8) (w : List UInt8) :
    S1 (w ++ [b]) = S1 (a :: w) - a.toUInt32 + b.toUInt32 := by
  rw [S1_append_single]; simp only [S1]; grind

/-- The rolling identity for the second component, exactly in `UInt32`: the
window `a :: w` has exactly `n` bytes. -/
theorem S2_roll (a b : UInt8) (w : List UInt8) (n : Nat) (hlen : (a :: w).length = n) :
    S2 (UInt32.ofNat n) 0 (w ++ [b]) =
      S2 (UInt32.ofNat n) 0 (a :: w) - UInt32.ofNat n * a.toUInt32 + S1 (w ++ [b]) := by
  have hn : UInt32.ofNat n = UInt32.ofNat w.length + 1 := by
    rw [← hlen]; simp [UInt32.ofNat_add]
  rw [S2_append_single, S1_append_single]
  simp only [S2]
  rw [S2_shift (UInt32.ofNat n) 0 w, hn]
  grind

theorem m_toNat : m.toNat = 65536 := by decide

theorem red_add_left (x y : UInt32) : (x % m + y) % m = (x + y) % m := by
  apply UInt32.toNat_inj.mp
  simp only [UInt32.toNat_mod, UInt32.toNat_add, m_toNat]
  show (x.toNat % 65536 + y.toNat) % 2 ^ 32 % 65536 = (x.toNat + y.toNat) % 2 ^ 32 % 65536
  omega

theorem red_add_right (x y : UInt32) : (x + y % m) % m = (x + y) % m := by
  apply UInt32.toNat_inj.mp
  simp only [UInt32.toNat_mod, UInt32.toNat_add, m_toNat]
  show (x.toNat + y.toNat % 65536) % 2 ^ 32 % 65536 = (x.toNat + y.toNat) % 2 ^ 32 % 65536
  omega

theorem red_sub_left (x y : UInt32) : (x % m - y) % m = (x - y) % m := by
  apply UInt32.toNat_inj.mp
  simp only [UInt32.toNat_mod, UInt32.toNat_sub, m_toNat]
  show (2 ^ 32 - y.toNat + x.toNat % 65536) % 2 ^ 32 % 65536 = (2 ^ 32 - y.toNat + x.toNat) % 2 ^ 32 % 65536
  have := y.toNat_lt
  omega

/-- **Rolling equals recomputing**: for a window `a :: w` of exactly `n` bytes
(`n` = block size), updating the weak hash parameters of `a :: w` with outgoing
byte `a` and incoming byte `b` gives exactly `weakHash (w ++ [b]) n` — all three
results (hash, `r1`, `r2`), in `UInt32` wrap-around arithmetic, for every `n`
(even beyond `2^32`). -/
theorem roll_eq_recompute (a b : UInt8) (w : List UInt8) (n : Nat) (hlen : (a :: w).length = n) :
    rollWeakHash (weakHash (a :: w) n).2.1 (weakHash (a :: w) n).2.2 a b n = weakHash (w ++ [b]) n := by
  have h1 : (S1 (a :: w) % m - a.toUInt32 + b.toUInt32) % m = S1 (w ++ [b]) % m := by
    rw [S1_roll a b w, ← red_add_left (S1 (a :: w) % m - a.toUInt32), red_sub_left, red_add_left]
  have h2 : (S2 (UInt32.ofNat n) 0 (a :: w) % m - UInt32.ofNat n * a.toUInt32 + S1 (w ++ [b]) % m) % m
      = S2 (UInt32.ofNat n) 0 (w ++ [b]) % m := by
    rw [S2_roll a b w n hlen, red_add_right, ← red_add_left (S2 (UInt32.ofNat n) 0 (a :: w) % m - _),
      red_sub_left, red_add_left]
  simp only [weakHash_eq, rollWeakHash, h1, h2]

end Mutagen.Proofs.Rsync
