import Mutagen.Model.Logging
/-!
Helper lemmas for C44 (core Lean only).
-/
namespace Mutagen.Model.Logging

/-- No line feed, carriage return or escape byte. -/
def Clean (s : Bytes) : Prop := LF ∉ s ∧ CR ∉ s ∧ ESC ∉ s

theorem Clean.append {a b : Bytes} (ha : Clean a) (hb : Clean b) : Clean (a ++ b) := by
  obtain ⟨a1, a2, a3⟩ := ha
  obtain ⟨b1, b2, b3⟩ := hb
  refine ⟨?_, ?_, ?_⟩ <;> simp [*]

theorem Clean.nil : Clean [] := by simp [Clean]

/-! ### indexByte -/

theorem indexByte_none {s : Bytes} {b : UInt8} : indexByte s b = none ↔ b ∉ s := by
  induction s with
  | nil => simp [indexByte]
  | cons x xs ih =>
    simp only [indexByte]
    by_cases h : x = b
    · simp [h]
    · have h' : ¬ b = x := fun e => h e.symm
      simp [h, h', ih]

theorem indexByte_some {s : Bytes} {b : UInt8} {i : Nat} (h : indexByte s b = some i) :
    i < s.length ∧ b ∉ s.take i ∧ s = s.take i ++ b :: s.drop (i + 1) := by
  induction s generalizing i with
  | nil => simp [indexByte] at h
  | cons x xs ih =>
    simp only [indexByte] at h
    by_cases hx : x = b
    · simp [hx] at h; subst h; simp [hx]
    · simp only [hx, if_false, Option.map_eq_some_iff] at h
      obtain ⟨j, hj, rfl⟩ := h
      obtain ⟨h1, h2, h3⟩ := ih hj
      refine ⟨by simp; omega, ?_, ?_⟩
      · simp only [List.take_succ_cons, List.mem_cons, not_or]
        exact ⟨fun h' => hx h'.symm, h2⟩
      · simp only [List.take_succ_cons, List.drop_succ_cons, List.cons_append, List.cons.injEq, true_and]
        exact h3

/-! ### neutralize -/

theorem mem_neutralize {s : Bytes} {b : UInt8} :
    b ∈ neutralize s ↔ ∃ a ∈ s, b ∈ neutralizeByte a := by
  simp [neutralize, List.mem_flatMap]

theorem esc_not_mem_neutralize (s : Bytes) : ESC ∉ neutralize s := by
  rw [mem_neutralize]
  rintro ⟨a, _, ha⟩
  unfold neutralizeByte at ha
  split at ha
  · simp [ESC] at ha
  · split at ha
    · simp [ESC] at ha
    · simp at ha; rename_i h _; exact h ha.symm

theorem cr_not_mem_neutralize (s : Bytes) : CR ∉ neutralize s := by
  rw [mem_neutralize]
  rintro ⟨a, _, ha⟩
  unfold neutralizeByte at ha
  split at ha
  · simp [CR] at ha
  · split at ha
    · simp [CR] at ha
    · simp at ha; rename_i _ h; exact h ha.symm

theorem lf_mem_neutralize {s : Bytes} : LF ∈ neutralize s ↔ LF ∈ s := by
  rw [mem_neutralize]
  constructor
  · rintro ⟨a, has, ha⟩
    unfold neutralizeByte at ha
    split at ha
    · simp [LF] at ha
    · split at ha
      · simp [LF] at ha
      · simp at ha; rw [ha]; exact has
  · intro h
    refine ⟨LF, h, ?_⟩
    simp [neutralizeByte, LF, ESC, CR]

theorem neutralize_append (a b : Bytes) : neutralize (a ++ b) = neutralize a ++ neutralize b := by
  simp [neutralize]

theorem neutralize_id {s : Bytes} (hcr : CR ∉ s) (hesc : ESC ∉ s) : neutralize s = s := by
  induction s with
  | nil => rfl
  | cons x xs ih =>
    simp only [List.mem_cons, not_or] at hcr hesc
    have : neutralize (x :: xs) = neutralizeByte x ++ neutralize xs := by simp [neutralize]
    rw [this, ih hcr.2 hesc.2]
    have h1 : ¬ x = ESC := fun h => hesc.1 h.symm
    have h2 : ¬ x = CR := fun h => hcr.1 h.symm
    simp [neutralizeByte, h1, h2]

theorem neutralize_clean {s : Bytes} (h : Clean s) : neutralize s = s := neutralize_id h.2.1 h.2.2

theorem neutralize_lf : neutralize [LF] = [LF] := by
  simp [neutralize, neutralizeByte, LF, ESC, CR]

/-! ### record prefix -/

/-- `"[" + scope + "] "` when there is a scope. -/
def scopePart (scope : Bytes) : Bytes := if scope ≠ [] then [91] ++ scope ++ [93, 32] else []

theorem recordPrefix_eq (scope ts : Bytes) (level : Nat) :
    recordPrefix scope ts level = ts ++ [32, 91, levelAbbreviation level, 93, 32] ++ scopePart scope := by
  unfold recordPrefix scopePart
  split <;> simp

theorem levelAbbreviation_cases (l : Nat) :
    levelAbbreviation l ∈ abbreviations ∨ levelAbbreviation l = 63 := by
  unfold levelAbbreviation
  split
  · rename_i h
    have : l = 0 ∨ l = 1 ∨ l = 2 ∨ l = 3 ∨ l = 4 ∨ l = 5 := by simp [levelTrace] at h; omega
    rcases this with rfl | rfl | rfl | rfl | rfl | rfl <;> left <;> decide
  · right; rfl

theorem abbreviations_clean : ∀ b ∈ abbreviations, b ≠ LF ∧ b ≠ CR ∧ b ≠ ESC := by decide

theorem levelAbbreviation_clean (l : Nat) :
    levelAbbreviation l ≠ LF ∧ levelAbbreviation l ≠ CR ∧ levelAbbreviation l ≠ ESC := by
  rcases levelAbbreviation_cases l with h | h
  · exact abbreviations_clean _ h
  · rw [h]; decide

theorem scopePart_clean {scope : Bytes} (h : Clean scope) : Clean (scopePart scope) := by
  unfold scopePart
  split
  · exact (Clean.append (Clean.append (by simp [Clean, LF, CR, ESC]) h) (by simp [Clean, LF, CR, ESC]))
  · exact Clean.nil

theorem headPart_clean {ts : Bytes} {c : UInt8} (hts : Clean ts) (hc : c ≠ LF ∧ c ≠ CR ∧ c ≠ ESC) :
    Clean (ts ++ [32, 91, c, 93, 32]) := by
  apply Clean.append hts
  obtain ⟨h1, h2, h3⟩ := hc
  refine ⟨?_, ?_, ?_⟩ <;> simp [LF, CR, ESC] <;> first | exact fun h => h1 h.symm | exact fun h => h2 h.symm | exact fun h => h3 h.symm

theorem recordPrefix_clean {scope ts : Bytes} (level : Nat) (hts : Clean ts) (hsc : Clean scope) :
    Clean (recordPrefix scope ts level) := by
  rw [recordPrefix_eq]
  exact Clean.append (headPart_clean hts (levelAbbreviation_clean level)) (scopePart_clean hsc)

/-! ### write -/

theorem ellipsis_props : CR ∉ ellipsis ∧ ellipsis = [46, 46, 46] ++ [LF] ∧ LF ∉ ([46, 46, 46] : Bytes) := by
  decide

theorem truncateCR_no_cr (msg : Bytes) : CR ∉ truncateCR msg := by
  unfold truncateCR
  split
  · rename_i i hi
    have := (indexByte_some hi).2.1
    simp [this, ellipsis_props.1]
  · rename_i hi
    exact indexByte_none.mp hi

theorem truncateLF_shape {m out : Bytes} (h : truncateLF m = some out) :
    ∃ body, out = body ++ [LF] ∧ LF ∉ body ∧ ∀ b ∈ body, b ∈ m ∨ b = 46 := by
  unfold truncateLF at h
  split at h
  · cases h
  · rename_i j hj
    obtain ⟨hlt, hnot, hsplit⟩ := indexByte_some hj
    split at h
    · cases h
      refine ⟨m.take j ++ [46, 46, 46], by simp [ellipsis, LF], ?_, ?_⟩
      · simp only [List.mem_append, not_or]; exact ⟨hnot, by decide⟩
      · intro b hb
        simp only [List.mem_append, List.mem_cons, List.not_mem_nil, or_false, or_self] at hb
        rcases hb with hb | hb
        · exact Or.inl (List.mem_of_mem_take hb)
        · exact Or.inr hb
    · rename_i hlast
      cases h
      have hj' : j = m.length - 1 := by omega
      have hdrop : m.drop (j + 1) = [] := by
        apply List.drop_eq_nil_of_le; omega
      rw [hdrop] at hsplit
      exact ⟨m.take j, hsplit, hnot, fun b hb => Or.inl (List.mem_of_mem_take hb)⟩

/-- Shape of every record `write` produces. -/
theorem write_message_shape {scope ts msg out : Bytes} {level : Nat}
    (h : write scope ts level msg = some out) :
    ∃ body, LF ∉ body ∧ CR ∉ body ∧ out = neutralize (recordPrefix scope ts level ++ (body ++ [LF])) := by
  unfold write at h
  split at h
  · cases h
  · rename_i m hm
    cases h
    obtain ⟨body, rfl, hlf, hsub⟩ := truncateLF_shape hm
    refine ⟨body, hlf, ?_, rfl⟩
    intro hcr
    rcases hsub _ hcr with h1 | h1
    · exact truncateCR_no_cr msg h1
    · simp [CR] at h1

theorem truncateLF_eq_none {m : Bytes} : truncateLF m = none ↔ LF ∉ m := by
  unfold truncateLF
  cases hidx : indexByte m LF with
  | none => simp [indexByte_none.mp hidx]
  | some j =>
    have : LF ∈ m := by
      have := (indexByte_some hidx).2.2
      rw [this]; simp
    simp only [this, not_true_eq_false, iff_false]
    split <;> simp

theorem truncateCR_lf {msg : Bytes} : LF ∈ truncateCR msg ↔ LF ∈ msg ∨ CR ∈ msg := by
  unfold truncateCR
  cases hidx : indexByte msg CR with
  | none => simp [indexByte_none.mp hidx]
  | some j =>
    have hcr : CR ∈ msg := by
      have := (indexByte_some hidx).2.2
      rw [this]; simp
    simp [hcr, ellipsis, LF]

/-- `write` panics exactly on messages with neither a line feed nor a carriage return. -/
theorem write_eq_none {scope ts msg : Bytes} {level : Nat} :
    write scope ts level msg = none ↔ LF ∉ msg ∧ CR ∉ msg := by
  have key : truncateLF (truncateCR msg) = none ↔ LF ∉ msg ∧ CR ∉ msg := by
    rw [truncateLF_eq_none, truncateCR_lf, not_or]
  unfold write
  constructor
  · intro h
    split at h
    · rename_i hn; exact key.mp hn
    · cases h
  · intro h
    rw [key.mpr h]

/-! ### records -/

/-- What the property demands of one record handed to the sink: it is
`<ts> [<c>] ` + optional `[<scope>] ` + body + `"\n"`, the only line feed is the
last byte, and it contains neither ESC nor CR. -/
def RecordOK (scope ts : Bytes) (c : UInt8) (r : Bytes) : Prop :=
  ∃ body, r = ts ++ [32, 91, c, 93, 32] ++ scopePart scope ++ body ++ [LF] ∧
    LF ∉ ts ++ [32, 91, c, 93, 32] ++ scopePart scope ++ body ∧ ESC ∉ r ∧ CR ∉ r

/-- Neutralizing `head ++ body ++ "\n"` with a clean head. -/
theorem neutralize_record {head body : Bytes} (hh : Clean head) (hb : LF ∉ body) :
    ∃ body', neutralize (head ++ (body ++ [LF])) = head ++ body' ++ [LF] ∧ LF ∉ head ++ body' := by
  refine ⟨neutralize body, ?_, ?_⟩
  · rw [neutralize_append, neutralize_append, neutralize_clean hh, neutralize_lf, List.append_assoc]
  · simp only [List.mem_append, not_or]
    exact ⟨hh.1, fun h => hb (lf_mem_neutralize.mp h)⟩

theorem write_record_ok {scope ts msg out : Bytes} {level : Nat}
    (hts : Clean ts) (hsc : Clean scope) (h : write scope ts level msg = some out) :
    RecordOK scope ts (levelAbbreviation level) out := by
  obtain ⟨body, hlf, _, rfl⟩ := write_message_shape h
  obtain ⟨body', h1, h2⟩ := neutralize_record (recordPrefix_clean level hts hsc) hlf
  refine ⟨body', ?_, ?_, esc_not_mem_neutralize _, cr_not_mem_neutralize _⟩
  · rw [h1, recordPrefix_eq]
  · rw [recordPrefix_eq] at h2; exact h2

/-! ### Logger.log and Sublogger -/

/-- Scopes built by `Sublogger`: word characters and dots. -/
def WordScope (scope : Bytes) : Prop := ∀ b ∈ scope, isWord b = true ∨ b = 46

theorem isWord_clean {b : UInt8} (h : isWord b = true ∨ b = 46) : b ≠ LF ∧ b ≠ CR ∧ b ≠ ESC := by
  rcases h with h | h
  · refine ⟨?_, ?_, ?_⟩ <;> (rintro rfl; revert h; decide)
  · subst h; decide

theorem WordScope.clean {scope : Bytes} (h : WordScope scope) : Clean scope := by
  refine ⟨?_, ?_, ?_⟩ <;> intro hm
  · exact (isWord_clean (h _ hm)).1 rfl
  · exact (isWord_clean (h _ hm)).2.1 rfl
  · exact (isWord_clean (h _ hm)).2.2 rfl

theorem log_spec (l : Logger) (now msg : Bytes) (level : Nat) (hnow : Clean now) (hsc : WordScope l.scope) :
    (l.isNil = false ∧ level ≤ l.level ∧
      ∃ r, l.log now level msg = some [r] ∧ RecordOK l.scope now (levelAbbreviation level) r) ∨
    ((l.isNil = true ∨ l.level < level) ∧ l.log now level msg = some []) := by
  unfold Logger.log
  by_cases hc : (!l.isNil) = true ∧ l.level ≥ level
  · left
    have hnil : l.isNil = false := by simpa using hc.1
    refine ⟨hnil, hc.2, ?_⟩
    simp only [hc, and_self, if_true]
    cases hw : write l.scope now level (msg ++ [LF]) with
    | none =>
      have := (write_eq_none.mp hw).1
      simp at this
    | some r => exact ⟨r, rfl, write_record_ok hnow hsc.clean hw⟩
  · right
    simp only [hc, if_false, and_true]
    simp only [Bool.not_eq_true', ge_iff_le, not_and, Nat.not_le] at hc
    by_cases hn : l.isNil = true
    · exact Or.inl hn
    · exact Or.inr (hc (by simpa using hn))

/-- Loggers obtainable from `NewLogger` through `Sublogger`. -/
inductive Derived : Logger → Prop
  | root (level : Nat) : Derived (newLogger level)
  | sub {l : Logger} (now name : Bytes) : Derived l → Derived (l.sublogger now name).1

theorem nameMatches_word {name : Bytes} (h : nameMatches name = true) : WordScope name := by
  unfold nameMatches at h
  simp only [ne_eq, decide_eq_true_eq, List.all_eq_true] at h
  intro b hb
  exact Or.inl (h.2 b hb)

theorem sublogger_scope {l : Logger} (now name : Bytes) (h : WordScope l.scope) :
    WordScope (l.sublogger now name).1.scope := by
  unfold Logger.sublogger
  split
  · simp [nilLogger, WordScope]
  · split
    · simp [nilLogger, WordScope]
    · rename_i hm
      have hw : WordScope name := nameMatches_word (by simpa using hm)
      simp only
      split
      · intro b hb
        simp only [List.append_assoc, List.cons_append, List.nil_append, List.mem_append, List.mem_cons] at hb
        rcases hb with hb | hb | hb
        · exact h b hb
        · exact Or.inr hb
        · exact hw b hb
      · exact hw

theorem derived_scope {l : Logger} (h : Derived l) : WordScope l.scope := by
  induction h with
  | root level => simp [newLogger, WordScope]
  | sub now name _ ih => exact sublogger_scope now name ih

/-! ### the prefix pattern -/

def CleanPat (p : Pat) : Prop := ∀ b, p.accepts b = true → b ≠ LF ∧ b ≠ CR ∧ b ≠ ESC

theorem matchPats_some {ps : List Pat} {bs m : Bytes} (h : matchPats ps bs = some m) :
    m.length = ps.length ∧ bs = m ++ bs.drop m.length ∧ ((∀ p ∈ ps, CleanPat p) → Clean m) := by
  induction ps generalizing bs m with
  | nil => simp [matchPats] at h; subst h; simp [Clean]
  | cons p ps ih =>
    cases bs with
    | nil => simp [matchPats] at h
    | cons b bs =>
      simp only [matchPats] at h
      split at h
      · rename_i hacc
        simp only [Option.map_eq_some_iff] at h
        obtain ⟨m', hm', rfl⟩ := h
        obtain ⟨h1, h2, h3⟩ := ih hm'
        refine ⟨by simp [h1], by simp; exact h2, ?_⟩
        intro hall
        have hb := hall p (by simp) b hacc
        have hm := h3 (fun q hq => hall q (by simp [hq]))
        refine ⟨?_, ?_, ?_⟩ <;> simp only [List.mem_cons, not_or]
        · exact ⟨fun e => hb.1 e.symm, hm.1⟩
        · exact ⟨fun e => hb.2.1 e.symm, hm.2.1⟩
        · exact ⟨fun e => hb.2.2 e.symm, hm.2.2⟩
      · cases h

theorem matchPats_append {ps1 ps2 : List Pat} {bs m : Bytes} (h : matchPats (ps1 ++ ps2) bs = some m) :
    ∃ m1 m2, m = m1 ++ m2 ∧ matchPats ps1 bs = some m1 ∧ matchPats ps2 (bs.drop m1.length) = some m2 := by
  induction ps1 generalizing bs m with
  | nil => exact ⟨[], m, by simp, by simp [matchPats], by simpa using h⟩
  | cons p ps ih =>
    cases bs with
    | nil => simp [matchPats] at h
    | cons b bs =>
      simp only [List.cons_append, matchPats] at h
      split at h
      · rename_i hacc
        simp only [Option.map_eq_some_iff] at h
        obtain ⟨m', hm', rfl⟩ := h
        obtain ⟨m1, m2, rfl, h1, h2⟩ := ih hm'
        exact ⟨b :: m1, m2, by simp, by simp [matchPats, hacc, h1], by simpa using h2⟩
      · cases h

/-- Timestamp part of the prefix pattern (26 bytes). -/
def timestampPattern : List Pat :=
  digits 4 ++ [.lit 45] ++ digits 2 ++ [.lit 45] ++ digits 2 ++ [.lit 32] ++
  digits 2 ++ [.lit 58] ++ digits 2 ++ [.lit 58] ++ digits 2 ++ [.lit 46] ++ digits 6

def levelPattern : List Pat := [.lit 32, .lit 91, .cls abbreviations, .lit 93, .lit 32]

theorem linePrefixPattern_eq : linePrefixPattern = timestampPattern ++ levelPattern := by
  simp [linePrefixPattern, timestampPattern, levelPattern]

theorem timestampPattern_clean : ∀ p ∈ timestampPattern, CleanPat p := by
  intro p hp
  simp only [timestampPattern, digits, List.replicate, List.cons_append,
    List.nil_append, List.mem_cons, List.not_mem_nil, or_false] at hp
  have hdigit : CleanPat .digit := by
    intro b hb
    simp only [Pat.accepts, decide_eq_true_eq] at hb
    refine ⟨?_, ?_, ?_⟩ <;> (rintro rfl; revert hb; decide)
  have hlit : ∀ c : UInt8, c ≠ LF ∧ c ≠ CR ∧ c ≠ ESC → CleanPat (.lit c) := by
    intro c hc b hb
    simp only [Pat.accepts, decide_eq_true_eq] at hb
    subst hb; exact hc
  rcases hp with rfl | rfl | rfl | rfl | rfl | rfl | rfl | rfl | rfl | rfl | rfl | rfl | rfl | rfl | rfl | rfl | rfl | rfl | rfl | rfl | rfl | rfl | rfl | rfl | rfl | rfl <;>
    first | exact hdigit | exact hlit _ (by decide)

theorem levelPattern_match {bs m : Bytes} (h : matchPats levelPattern bs = some m) :
    ∃ c, c ∈ abbreviations ∧ m = [32, 91, c, 93, 32] := by
  unfold levelPattern at h
  match bs, h with
  | b1 :: b2 :: b3 :: b4 :: b5 :: rest, h' =>
    simp only [matchPats, Pat.accepts, decide_eq_true_eq, List.contains_eq_mem] at h'
    by_cases h1 : b1 = 32 <;> by_cases h2 : b2 = 91 <;> by_cases h3 : b3 ∈ abbreviations <;>
      by_cases h4 : b4 = 93 <;> by_cases h5 : b5 = 32 <;> simp [h1, h2, h3, h4, h5] at h'
    exact ⟨b3, h3, h'.symm⟩
  | [], h' => simp [matchPats] at h'
  | [_], h' => simp [matchPats] at h'
  | [_, _], h' => simp [matchPats] at h'
  | [_, _, _], h' => simp [matchPats] at h'
  | [_, _, _, _], h' => simp [matchPats] at h'

/-- A matched prefix is `<26 clean bytes> [<level byte>] ` and a prefix of the line. -/
theorem matchLinePrefix_some {line m : Bytes} {cap : UInt8} (h : matchLinePrefix line = some (m, cap)) :
    ∃ ts c, Clean ts ∧ ts.length = 26 ∧ c ∈ abbreviations ∧ m = ts ++ [32, 91, c, 93, 32] ∧
      line = m ++ line.drop m.length := by
  unfold matchLinePrefix at h
  split at h
  · cases h
  · rename_i m' hm
    simp only [Option.some.injEq, Prod.mk.injEq] at h
    obtain ⟨rfl, _⟩ := h
    have hpre := (matchPats_some hm).2.1
    rw [linePrefixPattern_eq] at hm
    obtain ⟨m1, m2, rfl, h1, h2⟩ := matchPats_append hm
    obtain ⟨c, hc, rfl⟩ := levelPattern_match h2
    obtain ⟨hlen, _, hclean⟩ := matchPats_some h1
    exact ⟨m1, c, hclean timestampPattern_clean, by rw [hlen]; decide, hc, rfl, hpre⟩

/-! ### the relay callback -/

/-- A record acceptable under the property, for some timestamp text and level byte. -/
def GoodRecord (scope r : Bytes) : Prop := ∃ ts c, Clean ts ∧ RecordOK scope ts c r

theorem relayLine_ok (l : Logger) (now line : Bytes) (level : Nat)
    (hnow : Clean now) (hsc : WordScope l.scope) (hline : LF ∉ line) :
    ∃ recs, l.relayLine now level line = some recs ∧ recs.length ≤ 1 ∧ ∀ r ∈ recs, GoodRecord l.scope r := by
  have hlog : ∀ lv msg, ∃ recs, l.log now lv msg = some recs ∧ recs.length ≤ 1 ∧ ∀ r ∈ recs, GoodRecord l.scope r := by
    intro lv msg
    rcases log_spec l now msg lv hnow hsc with ⟨_, _, r, hr, hok⟩ | ⟨_, hr⟩
    · exact ⟨[r], hr, by simp, by intro r' hr'; simp at hr'; subst hr'; exact ⟨now, _, hnow, hok⟩⟩
    · exact ⟨[], hr, by simp, by simp⟩
  unfold Logger.relayLine
  split
  · exact hlog _ _
  · rename_i m cap hm
    split
    · exact hlog _ _
    · split
      · exact ⟨[], rfl, by simp, by simp⟩
      · obtain ⟨ts, c, hts, _, hc, rfl, hpre⟩ := matchLinePrefix_some hm
        have hrest : LF ∉ line.drop (ts ++ [32, 91, c, 93, 32]).length := fun hx => hline (List.mem_of_mem_drop hx)
        have hhead : Clean (ts ++ [32, 91, c, 93, 32] ++ scopePart l.scope) :=
          Clean.append (headPart_clean hts (abbreviations_clean c hc)) (scopePart_clean hsc.clean)
        obtain ⟨body', h1, h2⟩ := neutralize_record hhead hrest
        refine ⟨_, rfl, by simp, ?_⟩
        intro r hr
        simp only [List.mem_cons, List.not_mem_nil, or_false] at hr
        subst hr
        refine ⟨ts, c, hts, body', ?_, h2, esc_not_mem_neutralize _, cr_not_mem_neutralize _⟩
        rw [← h1]
        congr 1
        unfold scopePart
        split
        · simp
        · simp only [List.append_nil]
          rw [← List.append_assoc, ← hpre]

theorem relayLines_ok (l : Logger) (now : Bytes) (level : Nat) (lines : List Bytes)
    (hnow : Clean now) (hsc : WordScope l.scope) (hlines : ∀ line ∈ lines, LF ∉ line) :
    ∃ recs, l.relayLines now level lines = some recs ∧ recs.length ≤ lines.length ∧
      ∀ r ∈ recs, GoodRecord l.scope r := by
  induction lines with
  | nil => exact ⟨[], rfl, by simp, by simp⟩
  | cons line rest ih =>
    obtain ⟨r1, h1, hl1, hg1⟩ := relayLine_ok l now line level hnow hsc (hlines line (by simp))
    obtain ⟨r2, h2, hl2, hg2⟩ := ih (fun x hx => hlines x (by simp [hx]))
    refine ⟨r1 ++ r2, by simp [Logger.relayLines, h1, h2], by simp; omega, ?_⟩
    intro r hr
    rcases List.mem_append.mp hr with hr | hr
    · exact hg1 r hr
    · exact hg2 r hr

/-! ### the line splitter -/

theorem splitLoop_none {s : Bytes} (h : indexByte s LF = none) : splitLoop s = ([], s) := by
  rw [splitLoop]; split
  · rfl
  · rename_i h'; rw [h] at h'; cases h'

theorem splitLoop_some {s : Bytes} {i : Nat} (h : indexByte s LF = some i) :
    splitLoop s = (trimCR (s.take i) :: (splitLoop (s.drop (i + 1))).1, (splitLoop (s.drop (i + 1))).2) := by
  rw [splitLoop]; split
  · rename_i h'; rw [h] at h'; cases h'
  · rename_i j h'
    rw [h] at h'; cases h'
    rfl

theorem trimCR_subset (b : Bytes) : ∀ x ∈ trimCR b, x ∈ b := by
  intro x hx
  unfold trimCR at hx
  split at hx
  · rw [List.dropLast_eq_take] at hx; exact List.mem_of_mem_take hx
  · exact hx

/-- Strong induction principle following the loop. -/
theorem splitLoop_induct (P : Bytes → Prop)
    (hnone : ∀ s, indexByte s LF = none → P s)
    (hsome : ∀ s i, indexByte s LF = some i → P (s.drop (i + 1)) → P s) : ∀ s, P s := by
  intro s
  generalize hn : s.length = n
  induction n using Nat.strongRecOn generalizing s with
  | _ n ih =>
    cases hidx : indexByte s LF with
    | none => exact hnone s hidx
    | some i =>
      apply hsome s i hidx
      have := drop_lt_of_index s i hidx
      exact ih _ (by omega) _ rfl

/-- Callback arguments never contain a line feed; the remainder neither. -/
theorem splitLoop_no_lf (s : Bytes) :
    (∀ l ∈ (splitLoop s).1, LF ∉ l) ∧ LF ∉ (splitLoop s).2 := by
  induction s using splitLoop_induct with
  | hnone s h => rw [splitLoop_none h]; exact ⟨by simp, indexByte_none.mp h⟩
  | hsome s i h ih =>
    rw [splitLoop_some h]
    refine ⟨?_, ih.2⟩
    intro l hl
    simp only [List.mem_cons] at hl
    rcases hl with rfl | hl
    · intro hx
      exact (indexByte_some h).2.1 (trimCR_subset _ _ hx)
    · exact ih.1 l hl

/-- Specification of the loop: the input is the raw lines, each followed by a
line feed, followed by the remainder; raw lines and remainder are free of line
feeds (so they are *the* split of the input on '\n'); the callback receives
the raw lines with one trailing carriage return trimmed. -/
theorem splitLoop_spec (s : Bytes) :
    ∃ raw : List Bytes, (splitLoop s).1 = raw.map trimCR ∧
      s = raw.flatMap (· ++ [LF]) ++ (splitLoop s).2 ∧
      (∀ l ∈ raw, LF ∉ l) ∧ LF ∉ (splitLoop s).2 := by
  induction s using splitLoop_induct with
  | hnone s h => rw [splitLoop_none h]; exact ⟨[], by simp, by simp, by simp, indexByte_none.mp h⟩
  | hsome s i h ih =>
    obtain ⟨raw, h1, h2, h3, h4⟩ := ih
    rw [splitLoop_some h]
    obtain ⟨_, hnot, hsplit⟩ := indexByte_some h
    refine ⟨s.take i :: raw, by simp [h1], ?_, ?_, h4⟩
    · simp only [List.flatMap_cons, List.append_assoc, List.cons_append, List.nil_append]
      rw [← h2]; exact hsplit
    · intro l hl
      simp only [List.mem_cons] at hl
      rcases hl with rfl | hl
      · exact hnot
      · exact h3 l hl

theorem indexByte_append_some {s t : Bytes} {b : UInt8} {i : Nat} (h : indexByte s b = some i) :
    indexByte (s ++ t) b = some i := by
  induction s generalizing i with
  | nil => simp [indexByte] at h
  | cons x xs ih =>
    simp only [List.cons_append, indexByte] at h ⊢
    by_cases hx : x = b
    · simpa [hx] using h
    · simp only [hx, if_false, Option.map_eq_some_iff] at h ⊢
      obtain ⟨j, hj, rfl⟩ := h
      exact ⟨j, ih hj, rfl⟩

/-- Chunking does not matter: splitting `s ++ t` is splitting `s`, then
splitting what `s` left over followed by `t`. -/
theorem splitLoop_append (s t : Bytes) :
    splitLoop (s ++ t) =
      ((splitLoop s).1 ++ (splitLoop ((splitLoop s).2 ++ t)).1, (splitLoop ((splitLoop s).2 ++ t)).2) := by
  induction s using splitLoop_induct with
  | hnone s h => rw [splitLoop_none h]; simp
  | hsome s i h ih =>
    have hlt := (indexByte_some h).1
    rw [splitLoop_some (indexByte_append_some (t := t) h), splitLoop_some h]
    have h1 : (s ++ t).take i = s.take i := by
      rw [List.take_append_of_le_length (by omega)]
    have h2 : (s ++ t).drop (i + 1) = s.drop (i + 1) ++ t := by
      rw [List.drop_append_of_le_length (by omega)]
    rw [h1, h2, ih]
    simp

/-! ### the relay writer over a whole stream -/

/-- Successive `Write` calls on the writer returned by `Logger.Writer`. -/
def RelayWriter.writes (w : RelayWriter) (now : Bytes) : List Bytes → RelayWriter × Option (List Bytes)
  | [] => (w, some [])
  | c :: cs =>
    match w.write now c with
    | (w', some rs, _) =>
      match RelayWriter.writes w' now cs with
      | (w'', some rs') => (w'', some (rs ++ rs'))
      | (w'', none) => (w'', none)
    | (w', none, _) => (w', none)

theorem lineProcessor_write_lines_no_lf (p : LineProcessor) (data : Bytes) :
    ∀ l ∈ (p.write data).2.1, LF ∉ l := by
  unfold LineProcessor.write
  simp only
  split
  · simp
  · split
    · simp
    · exact (splitLoop_no_lf _).1

theorem relayWriter_write_ok (w : RelayWriter) (now data : Bytes)
    (hnow : Clean now) (hsc : WordScope w.logger.scope) :
    (w.write now data).1.logger = w.logger ∧
    ∃ recs, (w.write now data).2.1 = some recs ∧ ∀ r ∈ recs, GoodRecord w.logger.scope r := by
  unfold RelayWriter.write
  split
  · refine ⟨by simp, [], by simp, by simp⟩
  · simp only
    obtain ⟨recs, h1, _, h3⟩ := relayLines_ok w.logger now w.level (w.lp.write data).2.1 hnow hsc
      (lineProcessor_write_lines_no_lf _ _)
    exact ⟨trivial, recs, h1, h3⟩

theorem relayWriter_writes_ok (w : RelayWriter) (now : Bytes) (chunks : List Bytes)
    (hnow : Clean now) (hsc : WordScope w.logger.scope) :
    ∃ recs, (w.writes now chunks).2 = some recs ∧ ∀ r ∈ recs, GoodRecord w.logger.scope r := by
  induction chunks generalizing w with
  | nil => exact ⟨[], rfl, by simp⟩
  | cons c cs ih =>
    obtain ⟨hlog, r1, h1, g1⟩ := relayWriter_write_ok w now c hnow hsc
    obtain ⟨r2, h2, g2⟩ := ih (w.write now c).1 (by rw [hlog]; exact hsc)
    rw [hlog] at g2
    refine ⟨r1 ++ r2, ?_, ?_⟩
    · simp only [RelayWriter.writes]
      rcases hw : w.write now c with ⟨w', recs, res⟩
      rw [hw] at h1 h2
      simp only at h1 h2
      subst h1
      simp only
      rcases hws : RelayWriter.writes w' now cs with ⟨w'', recs'⟩
      rw [hws] at h2
      simp only at h2
      subst h2
      rfl
    · intro r hr
      rcases List.mem_append.mp hr with hr | hr
      · exact g1 r hr
      · exact g2 r hr

/-- Successive writes to a bare line processor: callback lines and final state. -/
def LineProcessor.feed (p : LineProcessor) : List Bytes → LineProcessor × List Bytes
  | [] => (p, [])
  | c :: cs =>
    let (p', ls, _) := p.write c
    let (p'', ls') := LineProcessor.feed p' cs
    (p'', ls ++ ls')

theorem lineProcessor_write_unlimited (p : LineProcessor) (data : Bytes) (h : p.max < 0) :
    p.write data = ({ p with buffer := (splitLoop (p.buffer ++ data)).2 }, (splitLoop (p.buffer ++ data)).1, some data.length) := by
  unfold LineProcessor.write
  have h1 : ¬ p.max = 0 := by omega
  have h2 : ¬ p.max > 0 := by omega
  simp [h1, h2]

theorem lineProcessor_feed_unlimited (p : LineProcessor) (chunks : List Bytes) (h : p.max < 0)
    (hbuf : LF ∉ p.buffer) :
    (p.feed chunks).2 = (splitLoop (p.buffer ++ chunks.flatten)).1 ∧
    (p.feed chunks).1.buffer = (splitLoop (p.buffer ++ chunks.flatten)).2 ∧
    (p.feed chunks).1.max = p.max := by
  induction chunks generalizing p with
  | nil =>
    simp only [LineProcessor.feed, List.flatten_nil, List.append_nil]
    rw [splitLoop_none (indexByte_none.mpr hbuf)]
    refine ⟨?_, ?_, ?_⟩ <;> first | rfl | trivial
  | cons c cs ih =>
    simp only [LineProcessor.feed, lineProcessor_write_unlimited p c h, List.flatten_cons]
    have hno := (splitLoop_no_lf (p.buffer ++ c)).2
    obtain ⟨i1, i2, i3⟩ := ih { p with buffer := (splitLoop (p.buffer ++ c)).2 } h hno
    simp only at i1 i2 i3
    rw [i1, i2, i3, ← List.append_assoc, splitLoop_append (p.buffer ++ c) cs.flatten]
    refine ⟨?_, ?_, ?_⟩ <;> first | rfl | trivial

end Mutagen.Model.Logging
