import Mutagen.Model.PollWatch
/-!
Invariants of the poll-watching step model and their preservation by every
step (helper lemmas for `Mutagen.Properties.C42`).
-/
namespace Mutagen.Proofs.PollWatch
open Mutagen.Model.PollWatch

theorem contentAt_now (s : St) : s.contentAt s.ver = some s.disk := by
  simp [St.contentAt, St.ver]

theorem contentAt_setDisk (s : St) (c v : Nat) (h : v ≤ s.ver) :
    (setDisk s c).contentAt v = s.contentAt v := by
  simp only [St.contentAt, setDisk, St.ver] at *
  rw [List.reverse_cons (a := c)]
  rw [List.getElem?_append_left]
  simp
  omega

theorem ver_setDisk (s : St) (c : Nat) : (setDisk s c).ver = s.ver + 1 := by
  simp [setDisk, St.ver]

/-- The invariant. -/
structure Inv (s : St) : Prop where
  tver_le : s.tver ≤ s.ver
  snap_ok : ∀ sn, s.snapshot = some sn → sn.ver ≤ s.ver ∧ s.contentAt sn.ver = some sn.content
  view_ok : ∀ v, s.view = some v → v.ver ≤ s.ver ∧ s.contentAt v.ver = some v.content
  view_snap : ∀ v, s.view = some v → ∃ sn, s.snapshot = some sn
  accel : s.accelerate = true → ∃ sn, s.snapshot = some sn ∧ s.tver ≤ sn.ver
  div : s.repaired = true → ∀ sn v, s.snapshot = some sn → s.view = some v →
    sn.content ≠ v.content → s.strobed = true ∨ s.owed = true
  strobed_ok : s.strobed = true → s.pending = true ∨ s.consumed = true

theorem inv_init (r a : Bool) (d : Nat) : Inv (init r a d) := by
  constructor <;> simp [init, St.ver]

theorem inv_setDisk {s : St} (c : Nat) (h : Inv s) : Inv (setDisk s c) := by
  have hv := ver_setDisk s c
  constructor
  · have := h.tver_le
    show s.tver ≤ (setDisk s c).ver
    omega
  · intro sn hs
    have := h.snap_ok sn hs
    refine ⟨by omega, ?_⟩
    rw [contentAt_setDisk s c sn.ver this.1]
    exact this.2
  · intro v hs
    have := h.view_ok v hs
    refine ⟨by omega, ?_⟩
    rw [contentAt_setDisk s c v.ver this.1]
    exact this.2
  · exact h.view_snap
  · exact h.accel
  · exact h.div
  · exact h.strobed_ok

/-- The state right after the scanning part of a polling iteration. -/
def tickCore (s : St) : St :=
  { s with first := false, snapshot := some ⟨s.disk, s.ver⟩, accelerate := s.allowed, previous := s.disk }

theorem tick_eq (s : St) :
    tick s = if s.disk ≠ tickBaseline s ∧ tickIgnore s = false then owe (tickCore s) else tickCore s := rfl

theorem inv_tick {s : St} (h : Inv s) : Inv (tick s) := by
  rw [tick_eq]
  split
  · constructor
    · exact h.tver_le
    · intro sn hs
      simp [owe, tickCore] at hs
      subst hs
      exact ⟨Nat.le_refl _, contentAt_now s⟩
    · exact h.view_ok
    · intro v _
      exact ⟨_, rfl⟩
    · intro _
      exact ⟨⟨s.disk, s.ver⟩, rfl, h.tver_le⟩
    · intro _ sn v _ _ _
      exact Or.inr rfl
    · exact h.strobed_ok
  · rename_i hc
    constructor
    · exact h.tver_le
    · intro sn hs
      simp [tickCore] at hs
      subst hs
      exact ⟨Nat.le_refl _, contentAt_now s⟩
    · exact h.view_ok
    · intro v _
      exact ⟨_, rfl⟩
    · intro _
      exact ⟨⟨s.disk, s.ver⟩, rfl, h.tver_le⟩
    · intro hr sn v hs hv hne
      simp [tickCore] at hs
      subst hs
      have hr' : s.repaired = true := hr
      have hv' : s.view = some v := hv
      obtain ⟨sn0, hsn⟩ := h.view_snap v hv'
      have hb : tickBaseline s = sn0.content := by simp [tickBaseline, hr', hsn]
      have hi : tickIgnore s = false := by simp [tickIgnore, hr', hsn]
      have hd : s.disk = sn0.content := by
        by_cases hd : s.disk = tickBaseline s
        · rw [hd, hb]
        · exact absurd ⟨hd, hi⟩ hc
      exact h.div hr' sn0 v hsn hv' (by rw [← hd]; exact hne)
    · exact h.strobed_ok

theorem inv_deliver {s : St} (h : Inv s) : Inv (deliver s) := by
  unfold deliver
  split
  · exact ⟨h.tver_le, h.snap_ok, h.view_ok, h.view_snap, h.accel, fun _ _ _ _ _ _ => Or.inl rfl,
      fun _ => Or.inl rfl⟩
  · exact h

theorem scan_accel {s : St} {full : Bool} {sn : Snap} (h1 : s.accelerate = true) (h2 : full = false)
    (hsn : s.snapshot = some sn) :
    scan s full = ({ s with sinceTrans := true, view := some sn, strobed := false, consumed := false }, sn) := by
  simp [scan, h1, h2, hsn]

theorem scan_fresh {s : St} {full : Bool} (h : ¬ (s.accelerate = true ∧ full = false)) :
    scan s full = ({ s with snapshot := some ⟨s.disk, s.ver⟩, sinceTrans := true,
                            view := some ⟨s.disk, s.ver⟩, strobed := false, consumed := false },
                   ⟨s.disk, s.ver⟩) := by
  simp [scan, h]

theorem inv_scan {s : St} (full : Bool) (h : Inv s) : Inv (scan s full).1 := by
  by_cases hacc : s.accelerate = true ∧ full = false
  · -- the existing snapshot is re-used
    obtain ⟨sn, hsn, hle⟩ := h.accel hacc.1
    rw [scan_accel hacc.1 hacc.2 hsn]
    constructor
    · exact h.tver_le
    · exact h.snap_ok
    · intro v hv
      simp at hv
      subst hv
      exact h.snap_ok _ hsn
    · intro v _
      exact ⟨sn, hsn⟩
    · exact h.accel
    · intro _ sn' v hs hv hne
      simp at hv hs
      subst hv
      rw [hsn] at hs
      simp at hs
      exact absurd (by rw [hs]) hne
    · intro hs
      simp at hs
  · rw [scan_fresh hacc]
    constructor
    · exact h.tver_le
    · intro sn hs
      simp at hs
      subst hs
      exact ⟨Nat.le_refl _, contentAt_now s⟩
    · intro v hv
      simp at hv
      subst hv
      exact ⟨Nat.le_refl _, contentAt_now s⟩
    · intro v _
      exact ⟨_, rfl⟩
    · intro ha
      exact ⟨_, rfl, h.tver_le⟩
    · intro _ sn' v hs hv hne
      simp at hs hv
      subst hs
      subst hv
      exact absurd rfl hne
    · intro hs
      simp at hs

theorem inv_transBegin {s s' : St} (c : Nat) (h : Inv s) (hs : transBegin s c = some s') : Inv s' := by
  unfold transBegin at hs
  split at hs
  · simp at hs
  · split at hs
    · simp at hs
    · simp at hs
      subst hs
      exact ⟨h.tver_le, h.snap_ok, h.view_ok, h.view_snap, h.accel, h.div, h.strobed_ok⟩

theorem inv_transApply {s s' : St} (h : Inv s) (hs : transApply s = some s') : Inv s' := by
  unfold transApply at hs
  split at hs
  · simp at hs
    subst hs
    rename_i target _
    have := inv_setDisk target h
    exact ⟨this.tver_le, this.snap_ok, this.view_ok, this.view_snap, this.accel, this.div, this.strobed_ok⟩
  · simp at hs

theorem transEnd_some {s s' : St} {made : Bool} {olds results : List (Option Ent)}
    (hs : transEnd s olds results = some (s', made)) :
    s' = transFinish s made ∧ made = decide (results ≠ olds) := by
  unfold transEnd at hs
  split at hs
  · simp only at hs
    split at hs
    · simp at hs
    · simp only [Option.some.injEq, Prod.mk.injEq] at hs
      obtain ⟨h1, h2⟩ := hs
      subst h2
      exact ⟨h1.symm, rfl⟩
  · simp at hs

theorem inv_transFinish {s : St} (made : Bool) (h : Inv s) : Inv (transFinish s made) := by
  unfold transFinish
  cases made
  · -- nothing changed
    simp
    exact ⟨h.tver_le, h.snap_ok, h.view_ok, h.view_snap, h.accel, h.div, h.strobed_ok⟩
  · by_cases ha : s.accelerate = true
    · simp [ha, strobe]
      constructor
      · simp [St.ver]
      · exact h.snap_ok
      · exact h.view_ok
      · exact h.view_snap
      · intro hx
        simp at hx
      · intro _ _ _ _ _ _
        exact Or.inl rfl
      · intro _
        left; rfl
    · simp [ha, strobe]
      constructor
      · simp [St.ver]
      · exact h.snap_ok
      · exact h.view_ok
      · exact h.view_snap
      · intro hx
        simp at hx
      · intro _ _ _ _ _ _
        exact Or.inl rfl
      · intro _
        left; rfl

theorem inv_transEnd {s s' : St} {made : Bool} {olds results : List (Option Ent)} (h : Inv s)
    (hs : transEnd s olds results = some (s', made)) : Inv s' := by
  rw [(transEnd_some hs).1]
  exact inv_transFinish made h

theorem inv_tickFail {s : St} (h : Inv s) : Inv (tickFail s) := by
  unfold tickFail owe
  exact ⟨h.tver_le, h.snap_ok, h.view_ok, h.view_snap, by intro hx; simp at hx, fun _ _ _ _ _ _ => Or.inr rfl,
    h.strobed_ok⟩

theorem inv_poll {s s' : St} (h : Inv s) (hs : pollReturn s = some s') : Inv s' := by
  unfold pollReturn at hs
  split at hs
  · simp at hs
    subst hs
    exact ⟨h.tver_le, h.snap_ok, h.view_ok, h.view_snap, h.accel, h.div, fun _ => Or.inr rfl⟩
  · simp at hs

theorem inv_step {s s' : St} {l : Label} (h : Inv s) (st : Step s l s') : Inv s' := by
  match st with
  | .tick _ _ => exact inv_tick h
  | .tickFail _ _ => exact inv_tickFail h
  | .setBroken _ b => exact ⟨h.tver_le, h.snap_ok, h.view_ok, h.view_snap, h.accel, h.div, h.strobed_ok⟩
  | .deliver _ => exact inv_deliver h
  | .scan _ full _ _ => exact inv_scan full h
  | .transBegin _ c _ hs => exact inv_transBegin c h hs
  | .transApply _ _ hs => exact inv_transApply h hs
  | .transEnd _ _ _ _ _ hs => exact inv_transEnd h hs
  | .edit _ c => exact inv_setDisk c h
  | .poll _ _ hs => exact inv_poll h hs

theorem inv_run {s s' : St} {tr : List Label} (h : Inv s) (r : Run s tr s') : Inv s' := by
  induction r with
  | nil => exact h
  | snoc _ st ih => exact inv_step ih st

/-! Monotonicity of the ghost clocks along runs. -/

theorem ver_step {s s' : St} {l : Label} (st : Step s l s') : s.ver ≤ s'.ver := by
  match st with
  | .tick _ _ =>
    rw [tick_eq]; split <;> simp [owe, tickCore, St.ver]
  | .tickFail _ _ => simp [tickFail, owe, St.ver]
  | .setBroken _ b => simp [St.ver]
  | .deliver _ => unfold deliver; split <;> simp [strobe, St.ver]
  | .scan _ full _ _ =>
    by_cases hacc : s.accelerate = true ∧ full = false
    · cases hsn : s.snapshot with
      | none => simp [scan, hacc.1, hacc.2, hsn, St.ver]
      | some sn => rw [scan_accel hacc.1 hacc.2 hsn]; simp [St.ver]
    · rw [scan_fresh hacc]; simp [St.ver]
  | .transBegin _ c _ hs =>
    unfold transBegin at hs
    split at hs
    · simp at hs
    · split at hs
      · simp at hs
      · simp at hs; subst hs; simp [St.ver]
  | .transApply _ _ hs =>
    unfold transApply at hs
    split at hs
    · simp at hs; subst hs; simp [setDisk, St.ver]
    · simp at hs
  | .transEnd _ _ made _ _ hs =>
    rw [(transEnd_some hs).1]
    unfold transFinish
    cases made <;> by_cases ha : s.accelerate = true <;> simp [ha, strobe, St.ver]
  | .edit _ c => simp [edit, setDisk, St.ver]
  | .poll _ _ hs =>
    unfold pollReturn at hs
    split at hs
    · simp at hs; subst hs; simp [St.ver]
    · simp at hs

theorem tver_step {s s' : St} {l : Label} (h : Inv s) (st : Step s l s') : s.tver ≤ s'.tver := by
  match st with
  | .tick _ _ =>
    rw [tick_eq]; split <;> simp [owe, tickCore]
  | .tickFail _ _ => simp [tickFail, owe]
  | .setBroken _ b => simp
  | .deliver _ => unfold deliver; split <;> simp [strobe]
  | .scan _ full _ _ =>
    by_cases hacc : s.accelerate = true ∧ full = false
    · cases hsn : s.snapshot with
      | none => simp [scan, hacc.1, hacc.2, hsn]
      | some sn => rw [scan_accel hacc.1 hacc.2 hsn]; exact Nat.le_refl _
    · rw [scan_fresh hacc]; exact Nat.le_refl _
  | .transBegin _ c _ hs =>
    unfold transBegin at hs
    split at hs
    · simp at hs
    · split at hs
      · simp at hs
      · simp at hs; subst hs; simp
  | .transApply _ _ hs =>
    unfold transApply at hs
    split at hs
    · simp at hs; subst hs; simp [setDisk]
    · simp at hs
  | .transEnd _ _ made _ _ hs =>
    rw [(transEnd_some hs).1]
    have := h.tver_le
    unfold transFinish
    cases made <;> by_cases ha : s.accelerate = true <;> simp [ha, strobe, St.ver] at * <;> omega
  | .edit _ c => simp [edit, setDisk]
  | .poll _ _ hs =>
    unfold pollReturn at hs
    split at hs
    · simp at hs; subst hs; simp
    · simp at hs

theorem tver_run {s s' : St} {tr : List Label} (h : Inv s) (r : Run s tr s') : s.tver ≤ s'.tver := by
  induction r with
  | nil => exact Nat.le_refl _
  | snoc r' st ih => exact Nat.le_trans ih (tver_step (inv_run h r') st)

theorem transEnd_true_tver {s s' : St} {olds results : List (Option Ent)}
    (hs : transEnd s olds results = some (s', true)) : s'.tver = s'.ver := by
  rw [(transEnd_some hs).1]
  unfold transFinish
  by_cases ha : s.accelerate = true <;> simp [ha, strobe, St.ver]

theorem repaired_step {s s' : St} {l : Label} (st : Step s l s') : s'.repaired = s.repaired := by
  match st with
  | .tick _ _ => rw [tick_eq]; split <;> simp [owe, tickCore]
  | .tickFail _ _ => simp [tickFail, owe]
  | .setBroken _ b => rfl
  | .deliver _ => unfold deliver; split <;> simp [strobe]
  | .scan _ full _ _ =>
    by_cases hacc : s.accelerate = true ∧ full = false
    · cases hsn : s.snapshot with
      | none => simp [scan, hacc.1, hacc.2, hsn]
      | some sn => rw [scan_accel hacc.1 hacc.2 hsn]
    · rw [scan_fresh hacc]
  | .transBegin _ c _ hs =>
    unfold transBegin at hs
    split at hs
    · simp at hs
    · split at hs
      · simp at hs
      · simp at hs; subst hs; rfl
  | .transApply _ _ hs =>
    unfold transApply at hs
    split at hs
    · simp at hs; subst hs; rfl
    · simp at hs
  | .transEnd _ _ made _ _ hs =>
    rw [(transEnd_some hs).1]
    unfold transFinish
    cases made <;> by_cases ha : s.accelerate = true <;> simp [ha, strobe]
  | .edit _ c => rfl
  | .poll _ _ hs =>
    unfold pollReturn at hs
    split at hs
    · simp at hs; subst hs; rfl
    · simp at hs

theorem repaired_run {s s' : St} {tr : List Label} (r : Run s tr s') : s'.repaired = s.repaired := by
  induction r with
  | nil => rfl
  | snoc _ st ih => rw [repaired_step st, ih]

/-! The schedule on which upstream stays silent (used by the examples of
`Mutagen.Properties.C42`). -/

def upstreamTrace : List Label :=
  [.tick, .scan false 1, .transBegin 2, .transApply, .transEnd true, .poll, .scan false 2, .edit 1, .tick]

def u0 : St := init false true 1
def u1 : St := tick u0
def u2 : St := (scan u1 false).1
def u3 : St := (transBegin u2 2).getD u2
def u4 : St := (transApply u3).getD u3
/-- a created directory: the old entry is absent, the result is a directory. -/
def uOlds : List (Option Ent) := [none]
def uResults : List (Option Ent) := [some ⟨1, []⟩]
def u5 : St := ((transEnd u4 uOlds uResults).map (·.1)).getD u4
def u6 : St := (pollReturn u5).getD u5
def u7 : St := (scan u6 false).1
def u8 : St := edit u7 1
def upstreamFinal : St := tick u8

end Mutagen.Proofs.PollWatch
