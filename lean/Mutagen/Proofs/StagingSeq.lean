import Mutagen.Model.Staging
import Mutagen.Proofs.Staging
import Mathlib.Tactic.SplitIfs
import Mathlib.Tactic.ByContra
import Mathlib.Data.List.Induction
/-!
Lemmas about `stage`, `transition` and call sequences (for
`Mutagen.Properties.C41`).
-/
namespace Mutagen.Proofs.Staging
open Mutagen.Model.Staging

/-- What an accepted, non-empty staging request tells about the state. -/
theorem stage_ok_elim {s s' : St} {paths : List String} {digests : List Nat} {hint : Nat → Option String}
    {out : List String} (h : stage s paths digests hint = (s', .ok out)) (hne : paths.length ≠ 0) :
    s.readOnly = false ∧ paths.length = digests.length ∧ s.sinceStage = true ∧
    ¬ (s.max ≠ 0 ∧ (s.last > s.max ∨ u64sub s.max s.last < paths.length)) ∧
    out = (stageLoop s.root s.cache hint s.store (paths.zip digests)).2 ∧
    s'.store = (stageLoop s.root s.cache hint s.store (paths.zip digests)).1 ∧
    s'.sinceStage = false ∧ s'.storeInit = true := by
  unfold stage at h
  by_cases hro : s.readOnly = true
  · simp [hro] at h
  · by_cases hlen : paths.length ≠ digests.length
    · simp [hro, hlen] at h
    · by_cases hsc : s.sinceStage = true
      · simp only [hro, hlen, hne, hsc] at h
        by_cases hg : s.max ≠ 0 ∧ (s.last > s.max ∨ u64sub s.max s.last < paths.length)
        · simp [hg] at h
        · simp only [Bool.false_eq_true, if_false, Bool.not_true, hg] at h
          simp only [Prod.mk.injEq, StageOut.ok.injEq] at h
          obtain ⟨h1, h2⟩ := h
          subst h1
          refine ⟨by simpa using hro, by simpa using hlen, hsc, hg, h2.symm, rfl, rfl, rfl⟩
      · simp [hro, hlen, hne, hsc] at h

/-- A well-formed request that is not refused for the missing scan leaves the
flag cleared; anything else leaves it untouched. -/
theorem stage_flag (s : St) (paths : List String) (digests : List Nat) (hint : Nat → Option String) :
    (stage s paths digests hint).1.sinceStage =
      if s.readOnly = false ∧ paths.length = digests.length ∧ paths.length ≠ 0 then false else s.sinceStage := by
  unfold stage
  split_ifs <;> simp_all <;> split <;> simp_all

theorem stage_config (s : St) (paths : List String) (digests : List Nat) (hint : Nat → Option String) :
    (stage s paths digests hint).1.readOnly = s.readOnly ∧ (stage s paths digests hint).1.max = s.max ∧
    (stage s paths digests hint).1.sinceTrans = s.sinceTrans := by
  unfold stage
  split_ifs <;> simp_all <;> split <;> simp_all

theorem scan_flags (s : St) :
    (scan s).1.readOnly = s.readOnly ∧ (scan s).1.max = s.max ∧
    ((∃ n, (scan s).2 = .ok n) → (scan s).1.sinceStage = true ∧ (scan s).1.sinceTrans = true) ∧
    ((scan s).2 = .exceeded → (scan s).1.sinceStage = s.sinceStage ∧ (scan s).1.sinceTrans = s.sinceTrans) := by
  unfold scan
  simp only
  split <;> simp

theorem scan_cases (s : St) : (∃ n, (scan s).2 = .ok n) ∨ (scan s).2 = .exceeded := by
  unfold scan
  simp only
  split
  · right; rfl
  · left; exact ⟨_, rfl⟩

/-- The flags, the limit and the read-only mode after a transition. -/
theorem transition_flags (s : St) (ts : List Change) :
    (transition s ts).1.readOnly = s.readOnly ∧ (transition s ts).1.max = s.max ∧
    (transition s ts).1.sinceStage = s.sinceStage ∧
    (transition s ts).1.sinceTrans = (if s.readOnly = false then false else s.sinceTrans) := by
  unfold transition
  by_cases hro : s.readOnly = true
  · simp [hro]
  · have hro' : s.readOnly = false := by simpa using hro
    by_cases hsc : s.sinceTrans = true
    · by_cases hm : s.max = 0
      · simp [hro', hsc, hm]
      · cases hp : planCount s.last ts with
        | none => simp [hro', hsc, hm, hp]
        | some r =>
          by_cases hlt : s.max < r
          · simp [hro', hsc, hm, hp, hlt]
          · simp [hro', hsc, hm, hp, hlt]
    · have hsc' : s.sinceTrans = false := by simpa using hsc
      simp [hro', hsc']

theorem runOps_snoc (s : St) (ops : List Op) (op : Op) : runOps s (ops ++ [op]) = stepOp (runOps s ops) op := by
  simp [runOps, List.foldl_append]

theorem stepOp_config (s : St) (op : Op) : (stepOp s op).readOnly = s.readOnly ∧ (stepOp s op).max = s.max := by
  cases op with
  | scan => exact ⟨(scan_flags s).1, (scan_flags s).2.1⟩
  | stage ps ds h => exact ⟨(stage_config s ps ds h).1, (stage_config s ps ds h).2.1⟩
  | supply items => exact ⟨rfl, rfl⟩
  | transition ts => exact ⟨(transition_flags s ts).1, (transition_flags s ts).2.1⟩
  | edit e => exact ⟨rfl, rfl⟩

theorem runOps_config (s : St) (ops : List Op) : (runOps s ops).readOnly = s.readOnly ∧ (runOps s ops).max = s.max := by
  induction ops using List.reverseRecOn with
  | nil => exact ⟨rfl, rfl⟩
  | append_singleton ops op ih =>
    rw [runOps_snoc]
    have := stepOp_config (runOps s ops) op
    exact ⟨this.1.trans ih.1, this.2.trans ih.2⟩

/-- The scanned-since-last-stage flag is set only by a successful scan that no
guard-reaching staging request has followed. -/
theorem sinceStage_history (s0 : St) (h0 : s0.sinceStage = false) (hro : s0.readOnly = false) (ops : List Op)
    (h : (runOps s0 ops).sinceStage = true) :
    ∃ pre post, ops = pre ++ Op.scan :: post ∧ (∃ n, (scan (runOps s0 pre)).2 = .ok n) ∧
      ∀ op ∈ post, op.reachesStageGuard = false := by
  induction ops using List.reverseRecOn with
  | nil => simp [runOps, h0] at h
  | append_singleton ops op ih =>
    rw [runOps_snoc] at h
    have hro' : (runOps s0 ops).readOnly = false := (runOps_config s0 ops).1.trans hro
    cases op with
    | scan =>
      rcases scan_cases (runOps s0 ops) with hok | hex
      · exact ⟨ops, [], by simp, hok, by simp⟩
      · have := ((scan_flags (runOps s0 ops)).2.2.2 hex).1
        simp only [stepOp] at h
        rw [this] at h
        obtain ⟨pre, post, e, hs, hp⟩ := ih h
        refine ⟨pre, post ++ [Op.scan], by simp [e], hs, ?_⟩
        intro op hop
        rcases List.mem_append.mp hop with h1 | h1
        · exact hp op h1
        · simp at h1; subst h1; rfl
    | stage ps ds hint =>
      simp only [stepOp] at h
      rw [stage_flag] at h
      by_cases hwf : ps.length = ds.length ∧ ps.length ≠ 0
      · have hc : (runOps s0 ops).readOnly = false ∧ ps.length = ds.length ∧ ps.length ≠ 0 :=
          ⟨hro', hwf.1, hwf.2⟩
        rw [if_pos hc] at h
        simp at h
      · have hcond : ¬ ((runOps s0 ops).readOnly = false ∧ ps.length = ds.length ∧ ps.length ≠ 0) := by
          intro hx; exact hwf hx.2
        simp only [hcond, if_false] at h
        obtain ⟨pre, post, e, hs, hp⟩ := ih h
        refine ⟨pre, post ++ [Op.stage ps ds hint], by simp [e], hs, ?_⟩
        intro op hop
        rcases List.mem_append.mp hop with h1 | h1
        · exact hp op h1
        · simp at h1; subst h1
          simp only [Op.reachesStageGuard]
          by_cases hl : ps.length = ds.length
          · have : ps.length = 0 := by
              by_contra hne
              exact hwf ⟨hl, hne⟩
            simp [this]
          · simp [hl]
    | supply items =>
      simp only [stepOp, supply] at h
      obtain ⟨pre, post, e, hs, hp⟩ := ih h
      refine ⟨pre, post ++ [Op.supply items], by simp [e], hs, ?_⟩
      intro op hop
      rcases List.mem_append.mp hop with h1 | h1
      · exact hp op h1
      · simp at h1; subst h1; rfl
    | transition ts =>
      simp only [stepOp] at h
      rw [(transition_flags _ ts).2.2.1] at h
      obtain ⟨pre, post, e, hs, hp⟩ := ih h
      refine ⟨pre, post ++ [Op.transition ts], by simp [e], hs, ?_⟩
      intro op hop
      rcases List.mem_append.mp hop with h1 | h1
      · exact hp op h1
      · simp at h1; subst h1; rfl
    | edit e' =>
      simp only [stepOp] at h
      obtain ⟨pre, post, e, hs, hp⟩ := ih h
      refine ⟨pre, post ++ [Op.edit e'], by simp [e], hs, ?_⟩
      intro op hop
      rcases List.mem_append.mp hop with h1 | h1
      · exact hp op h1
      · simp at h1; subst h1; rfl

/-- The same for transitions. -/
theorem sinceTrans_history (s0 : St) (h0 : s0.sinceTrans = false) (hro : s0.readOnly = false) (ops : List Op)
    (h : (runOps s0 ops).sinceTrans = true) :
    ∃ pre post, ops = pre ++ Op.scan :: post ∧ (∃ n, (scan (runOps s0 pre)).2 = .ok n) ∧
      ∀ op ∈ post, op.isTransition = false := by
  induction ops using List.reverseRecOn with
  | nil => simp [runOps, h0] at h
  | append_singleton ops op ih =>
    rw [runOps_snoc] at h
    have hro' : (runOps s0 ops).readOnly = false := (runOps_config s0 ops).1.trans hro
    have keep : ∀ (o : Op), o.isTransition = false → (runOps s0 ops).sinceTrans = true →
        ∃ pre post, ops ++ [o] = pre ++ Op.scan :: post ∧ (∃ n, (scan (runOps s0 pre)).2 = .ok n) ∧
          ∀ op ∈ post, op.isTransition = false := by
      intro o ho h'
      obtain ⟨pre, post, e, hs, hp⟩ := ih h'
      refine ⟨pre, post ++ [o], by simp [e], hs, ?_⟩
      intro op hop
      rcases List.mem_append.mp hop with h1 | h1
      · exact hp op h1
      · simp at h1; subst h1; exact ho
    cases op with
    | scan =>
      rcases scan_cases (runOps s0 ops) with hok | hex
      · exact ⟨ops, [], by simp, hok, by simp⟩
      · have := ((scan_flags (runOps s0 ops)).2.2.2 hex).2
        simp only [stepOp] at h
        rw [this] at h
        exact keep _ rfl h
    | stage ps ds hint =>
      simp only [stepOp] at h
      rw [(stage_config _ ps ds hint).2.2] at h
      exact keep _ rfl h
    | supply items => exact keep _ rfl h
    | transition ts =>
      simp only [stepOp] at h
      rw [(transition_flags _ ts).2.2.2] at h
      simp [hro'] at h
    | edit e' => exact keep _ rfl h

/-! ## Entry counts -/

def totalOld : List Change → Nat
  | [] => 0
  | t :: r => ocount t.old + totalOld r

def totalNew : List Change → Nat
  | [] => 0
  | t :: r => ocount t.new + totalNew r

/-- Without 64-bit wrap-around, the planned count is the arithmetic one. -/
theorem planCount_spec (r : Nat) (ts : List Change) (r' : Nat) (h : planCount r ts = some r')
    (hb : r + totalNew ts < two64) : r' + totalOld ts = r + totalNew ts := by
  induction ts generalizing r with
  | nil => simp [planCount] at h; simp [totalOld, totalNew, h]
  | cons t rest ih =>
    simp only [planCount] at h
    split at h
    · simp at h
    · rename_i hle
      simp only [totalNew, totalOld] at hb ⊢
      have hadd : u64add (r - ocount t.old) (ocount t.new) = r - ocount t.old + ocount t.new := by
        unfold u64add
        apply Nat.mod_eq_of_lt
        omega
      rw [hadd] at h
      have := ih _ h (by omega)
      omega

end Mutagen.Proofs.Staging
