import Mutagen.Model.Handles
/-!
Lemmas for C17: every handle obtained through validated single-name,
no-follow opens stays inside any inode set that is closed under directory
entries.
-/
namespace Mutagen.Proofs.Handles
open Mutagen.Model.Handles

/-- `S` is closed under directory entries of `fs`: following a named entry of a
directory in `S` lands in `S`.  (Nothing is said about `..`, about symbolic link
targets, or about inodes outside `S`.) -/
def Closed (S : Ino → Prop) (fs : FS) : Prop :=
  ∀ d n c, S d → fs.entry d n = some c → S c

/-- What a successful `Directory.open` returns: the directory itself (re-open
with `.`) or the inode bound to a validated single name, which is not a link. -/
theorem openAt_ok (fs : FS) (h : Ino) (name : Name) (wd : Bool) (c : Ino) (ho : openAt fs h name wd = .ok c) :
    (wd = true ∧ name = "." ∧ c = h) ∨
    (validName name = true ∧ fs.entry h name = some c ∧ ∀ t, fs.get c ≠ some (.symlink t)) := by
  unfold openAt at ho
  by_cases h1 : (wd && name == ".") = true
  · rw [if_pos h1] at ho
    simp at h1
    cases ho
    exact Or.inl ⟨h1.1, h1.2, rfl⟩
  · rw [if_neg h1] at ho
    by_cases h2 : (!validName name) = true
    · rw [if_pos h2] at ho; cases ho
    · rw [if_neg h2] at ho
      simp at h2
      right
      cases he : fs.entry h name with
      | none => rw [he] at ho; cases ho
      | some c' =>
        rw [he] at ho
        simp only at ho
        cases hg : fs.get c' with
        | none => rw [hg] at ho; cases ho
        | some node =>
          rw [hg] at ho
          cases node with
          | symlink t => cases ho
          | dir p es =>
            simp only at ho
            cases wd <;> simp at ho
            subst ho
            exact ⟨h2, rfl, by intro t; rw [hg]; simp⟩
          | file content =>
            simp only at ho
            cases wd <;> simp at ho
            subst ho
            exact ⟨h2, rfl, by intro t; rw [hg]; simp⟩

theorem openAt_inside (S : Ino → Prop) (fs : FS) (hc : Closed S fs) (h : Ino) (name : Name) (wd : Bool) (c : Ino)
    (hS : S h) (ho : openAt fs h name wd = .ok c) : S c := by
  rcases openAt_ok fs h name wd c ho with ⟨_, _, rfl⟩ | ⟨_, he, _⟩
  · exact hS
  · exact hc h name c hS he

theorem mem_of_getElem? {α} {l : List α} {i : Nat} {a : α} (h : l[i]? = some a) : a ∈ l := by
  rw [List.getElem?_eq_some_iff] at h
  obtain ⟨hi, rfl⟩ := h
  exact List.getElem_mem hi

/-- The walk over the parent components keeps every stacked handle, the
resulting parent and every accessed handle inside `S`, and does not touch the
root handle. -/
theorem walkParents_inside (S : Ino → Prop) (fs : FS) (hc : Closed S fs) :
    ∀ (comps : List Name) (c : Nat) (o : Opener) (parent : Ino) (log : List Access),
      (∀ h ∈ o.dirs, S h) → S parent → (∀ a ∈ log, S a.handle) →
      (∀ h ∈ (walkParents fs comps c o parent log).1.dirs, S h) ∧
      (∀ p, (walkParents fs comps c o parent log).2.1 = .ok p → S p) ∧
      (∀ a ∈ (walkParents fs comps c o parent log).2.2, S a.handle) ∧
      (walkParents fs comps c o parent log).1.rootDir = o.rootDir := by
  intro comps
  induction comps with
  | nil =>
    intro c o parent log hd hp hl
    simp only [walkParents]
    exact ⟨hd, fun p hp' => (by cases hp'; exact hp), hl, by simp⟩
  | cons comp rest ih =>
    intro c o parent log hd hp hl
    simp only [walkParents]
    split
    · -- satisfied from the stack
      rename_i d hhit
      have hSd : S d := by
        by_cases hlt : c < o.names.length
        · simp only [hlt, if_true] at hhit
          by_cases hn : o.names[c]? = some comp
          · simp only [hn, if_true] at hhit
            exact hd d (mem_of_getElem? hhit)
          · simp only [hn, if_false] at hhit; cases hhit
        · simp only [hlt, if_false] at hhit; cases hhit
      exact ih (c + 1) o d log hd hSd hl
    · -- opened afresh
      rename_i hhit
      have hd' : ∀ h ∈ (if c < o.names.length then { o with names := o.names.take c, dirs := o.dirs.take c } else o).dirs, S h := by
        intro h hh
        by_cases hlt : c < o.names.length
        · simp only [hlt, if_true] at hh
          exact hd h (List.mem_of_mem_take hh)
        · simp only [hlt, if_false] at hh; exact hd h hh
      have hroot : (if c < o.names.length then { o with names := o.names.take c, dirs := o.dirs.take c } else o).rootDir = o.rootDir := by
        by_cases hlt : c < o.names.length <;> simp [hlt]
      have hl' : ∀ a ∈ log ++ [{ handle := parent, name := comp }], S a.handle := by
        intro a ha
        simp only [List.mem_append, List.mem_singleton] at ha
        rcases ha with ha | rfl
        · exact hl a ha
        · exact hp
      cases ho : openAt fs parent comp true with
      | error e =>
        simp only
        exact ⟨hd', fun p hp' => (by cases hp'), hl', hroot⟩
      | ok d =>
        simp only
        have hSd := openAt_inside S fs hc parent comp true d hp ho
        have := ih (c + 1)
          { (if c < o.names.length then { o with names := o.names.take c, dirs := o.dirs.take c } else o) with
            names := (if c < o.names.length then { o with names := o.names.take c, dirs := o.dirs.take c } else o).names ++ [comp],
            dirs := (if c < o.names.length then { o with names := o.names.take c, dirs := o.dirs.take c } else o).dirs ++ [d] }
          d (log ++ [{ handle := parent, name := comp }])
          (by
            intro h hh
            simp only [List.mem_append, List.mem_singleton] at hh
            rcases hh with hh | rfl
            · exact hd' h hh
            · exact hSd)
          hSd hl'
        exact ⟨this.1, this.2.1, this.2.2.1, by rw [this.2.2.2]; exact hroot⟩

end Mutagen.Proofs.Handles
