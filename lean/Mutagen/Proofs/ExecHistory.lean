import Mutagen.Model.ExecHistory
import Mutagen.Proofs.ApplyAt
import Mutagen.Proofs.Executability
import Mutagen.Proofs.ExecCycle
import Mutagen.Proofs.Phantom
import Mutagen.Proofs.Valid
/-!
Lemmas for the multi-cycle statement of C18: what the user's edits on P do to
the scalar fields at a path, and the vocabulary of the history theorem.
-/
namespace Mutagen.Proofs.ExecHistory
open Mutagen.Model Mutagen.Model.ExecHistory Mutagen.Proofs.ApplyAt Mutagen.Proofs.Executability
  Mutagen.Proofs.ExecCycle Mutagen.Proofs.Phantom

theorem getPath_append (t : Option Entry) (p r : Path) : getPath t (p ++ r) = getPath (getPath t p) r := by
  induction p generalizing t with
  | nil => rfl
  | cons n p ih => simp only [List.cons_append, getPath]; exact ih _

/-- `Apply` of a change at a path that resolves never fails. -/
theorem applyAt_ok (new : Option Entry) (rest : List Name) : ∀ (e : Entry) (n : Name),
    (getPath (some e) (n :: rest)).isSome = true → ∃ e', e.applyAt new n rest = .ok e' := by
  induction rest with
  | nil =>
    intro e n _
    obtain ⟨p, cs⟩ := e
    cases new <;> simp [Entry.applyAt]
  | cons m r ih =>
    intro e n h
    obtain ⟨p, cs⟩ := e
    have h' : (getPath (lookup n cs) (m :: r)).isSome = true := h
    cases hl : lookup n cs with
    | none => rw [hl, Mutagen.Proofs.ApplyAt.getPath_none] at h'; simp at h'
    | some c =>
      rw [hl] at h'
      obtain ⟨c', hc'⟩ := ih c m h'
      exact ⟨Entry.mk p (upsert n c' cs), by simp [Entry.applyAt, hl, hc']⟩

theorem apply_single_ok (t : Option Entry) (q : Path) (v : Option Entry) (h : (getPath t q).isSome = true) :
    ∃ t', apply t [{ path := q, old := none, new := v }] = .ok t' := by
  cases q with
  | nil => exact ⟨v, by simp [apply, applyChange]⟩
  | cons n rest =>
    cases t with
    | none => simp [Mutagen.Proofs.ApplyAt.getPath_none] at h
    | some e =>
      obtain ⟨e', he'⟩ := applyAt_ok v rest e n h
      exact ⟨some e', by simp [apply, applyChange, he']⟩

/-- What `setFile` does at its own path. -/
theorem setFile_self (t : Option Entry) (q : Path) (f : Props → Props) (p : Props)
    (h : propsAt t q = some p) (hk : p.kind = .file) : propsAt (setFile t q f) q = some (f p) := by
  simp only [propsAt] at h
  cases hg : getPath t q with
  | none => simp [hg] at h
  | some e =>
    obtain ⟨pe, cs⟩ := e
    simp only [hg, Option.map_some, Entry.props, Option.some.injEq] at h
    subst h
    obtain ⟨t', ht'⟩ := apply_single_ok t q (some (Entry.mk (f pe) cs)) (by simp [hg])
    have hk' : (pe.kind == Kind.file) = true := by simp [hk]
    simp only [setFile, hg, hk', if_true, ht']
    have hc : applyChange t { path := q, old := none, new := some (Entry.mk (f pe) cs) } = .ok t' := by
      simp only [apply] at ht'
      split at ht'
      · simp at ht'
      · rename_i r hr; simp [apply] at ht'; rw [← ht']; exact hr
    have := applyChange_getPath t t' _ q hc
    have hrel : rel q q = .atOrBelow := (rel_atOrBelow_iff q q).mpr (List.prefix_refl q)
    simp only [hrel, List.drop_length, getPath] at this
    simp [propsAt, this, Entry.props]

/-- What `setFile` at another path does at `q`: nothing. -/
theorem setFile_other (t : Option Entry) (q' q : Path) (f : Props → Props) (hne : q' ≠ q) :
    propsAt (setFile t q' f) q = propsAt t q := by
  unfold setFile
  cases hg : getPath t q' with
  | none => rfl
  | some e =>
    obtain ⟨pe, cs⟩ := e
    simp only
    split
    · cases ha : apply t [{ path := q', old := none, new := some (Entry.mk (f pe) cs) }] with
      | error _ => rfl
      | ok t' =>
        simp only
        have hc : applyChange t { path := q', old := none, new := some (Entry.mk (f pe) cs) } = .ok t' := by
          simp only [apply] at ha
          split at ha
          · simp at ha
          · rename_i r hr; simp [apply] at ha; rw [← ha]; exact hr
        have := applyChange_getPath t t' _ q hc
        cases hrel : rel q' q with
        | atOrBelow =>
          rw [hrel] at this
          simp only at this
          obtain ⟨rest, hrest⟩ := (rel_atOrBelow_iff q' q).mp hrel
          have hrne : rest ≠ [] := by
            intro e; apply hne; rw [← hrest, e]; simp
          have hdrop : q.drop q'.length = rest := by rw [← hrest]; simp
          rw [hdrop] at this
          have horig : getPath t q = getPath (some (Entry.mk pe cs)) rest := by
            rw [← hrest, getPath_append, hg]
          cases rest with
          | nil => exact absurd rfl hrne
          | cons n r =>
            simp only [propsAt, this, horig, getPath, contents, Entry.children]
        | above => rw [hrel] at this; simp only at this; simp [propsAt, this]
        | elsewhere => rw [hrel] at this; simp only at this; simp [propsAt, this]
    · rfl

/-- `t` records a file with executable bit `b` at `q`. -/
def FileBit (t : Option Entry) (q : Path) (b : Bool) : Prop :=
  ∃ p, propsAt t q = some p ∧ p.kind = .file ∧ p.executable = b

/-- All three trees of a state are valid (the ancestor as synchronizable content). -/
def ValidState (s : State) : Prop :=
  oensureValid true s.anc = true ∧ oensureValid false s.P = true ∧ oensureValid false s.N = true

/-- The situation of the property at the moment a cycle runs: the file at `q`
exists on N too, below directories (or phantom directories, with Docker-style
ignores) on both sides, and the state is outside the two documented deviations. -/
structure CycleOK (mode : Mode) (nAlpha docker : Bool) (q : Path) (s : State) : Prop where
  chainP : (if docker then dirKindsAbove s.P q else dirsAbove s.P q) = true
  chainN : (if docker then dirKindsAbove s.N q else dirsAbove s.N q) = true
  fileN : ∃ pN, propsAt s.N q = some pN ∧ pN.kind = .file
  outside : ∀ pP pN, propsAt s.P q = some pP → propsAt s.N q = some pN →
    ¬ AlphaNonpreservingWins mode nAlpha (getPath s.anc q) pP pN ∧
    ¬ ReplicaRevertsToAncestor mode nAlpha (getPath s.anc q) pP pN

/-- The explicit hypothesis on which the multi-cycle theorem rests when it is
not given validity of every visited state directly: a fully applied cycle maps
valid states to valid states (plan application preserves `EnsureValid`; this is
the subject of C05/C07 and is not proved here). -/
def CyclesPreserveValid (mode : Mode) (nAlpha docker : Bool) : Prop :=
  ∀ s, ValidState s → ValidState (cycleStep mode nAlpha docker s)

/-! ## Validity along a history -/

theorem upsert_valid (s : Bool) (n : Name) (c' : Entry) (hc' : c'.ensureValid s = true) :
    ∀ (cs : Contents) (c : Entry), Entry.ensureValidL s cs = true → lookup n cs = some c →
      Entry.ensureValidL s (upsert n c' cs) = true := by
  intro cs
  induction cs with
  | nil => intro c _ h; simp [lookup] at h
  | cons hd t ih =>
    intro c hv hl
    obtain ⟨m, e⟩ := hd
    simp only [Entry.ensureValidL, Bool.and_eq_true] at hv
    simp only [lookup] at hl
    simp only [upsert]
    by_cases hm : m = n
    · subst hm
      simp only [if_true, Entry.ensureValidL, Bool.and_eq_true]
      exact ⟨⟨hv.1.1, hc'⟩, hv.2⟩
    · simp only [hm, if_false, Entry.ensureValidL, Bool.and_eq_true] at hl ⊢
      exact ⟨hv.1, ih c hv.2 hl⟩

theorem valid_with_child (s : Bool) (p : Props) (cs : Contents) (n : Name) (c c' : Entry)
    (hv : (Entry.mk p cs).ensureValid s = true) (hl : lookup n cs = some c) (hc' : c'.ensureValid s = true) :
    (Entry.mk p (upsert n c' cs)).ensureValid s = true := by
  have hne : cs ≠ [] := by intro e; subst e; simp [lookup] at hl
  unfold Entry.ensureValid at hv ⊢
  cases hk : p.kind <;> simp only [hk, Bool.and_eq_true] at hv ⊢
  case directory => exact ⟨hv.1, upsert_valid s n c' hc' cs c hv.2 hl⟩
  case phantom => exact ⟨hv.1, upsert_valid s n c' hc' cs c hv.2 hl⟩
  all_goals simp_all

theorem applyAt_valid (s : Bool) (v : Entry) (hv : v.ensureValid s = true) (rest : List Name) :
    ∀ (e e' : Entry) (n : Name), e.ensureValid s = true → (getPath (some e) (n :: rest)).isSome = true →
      e.applyAt (some v) n rest = .ok e' → e'.ensureValid s = true := by
  induction rest with
  | nil =>
    intro e e' n he hs ha
    obtain ⟨p, cs⟩ := e
    have hs' : (lookup n cs).isSome = true := hs
    cases hl : lookup n cs with
    | none => simp [hl] at hs'
    | some c =>
      simp [Entry.applyAt] at ha; subst ha
      exact valid_with_child s p cs n c v he hl hv
  | cons m r ih =>
    intro e e' n he hs ha
    obtain ⟨p, cs⟩ := e
    have hs' : (getPath (lookup n cs) (m :: r)).isSome = true := hs
    cases hl : lookup n cs with
    | none => rw [hl, Mutagen.Proofs.ApplyAt.getPath_none] at hs'; simp at hs'
    | some c =>
      rw [hl] at hs'
      simp only [Entry.applyAt, hl] at ha
      cases hc : c.applyAt (some v) m r with
      | error _ => simp [hc] at ha
      | ok c' =>
        simp [hc] at ha; subst ha
        have hcv : c.ensureValid s = true := Mutagen.Proofs.Valid.valid_lookup s (Entry.mk p cs) n c he hl
        exact valid_with_child s p cs n c c' he hl (ih c c' m hcv hs' hc)

/-- Editing the scalar fields of a file keeps the tree valid when the edited
file is valid. -/
theorem setFile_valid (s : Bool) (t : Option Entry) (q : Path) (f : Props → Props)
    (ht : oensureValid s t = true)
    (hf : ∀ p cs, (Entry.mk p cs).ensureValid s = true → p.kind = .file → (Entry.mk (f p) cs).ensureValid s = true) :
    oensureValid s (setFile t q f) = true := by
  unfold setFile
  cases hg : getPath t q with
  | none => exact ht
  | some e =>
    obtain ⟨p, cs⟩ := e
    simp only
    split
    · rename_i hk
      have hk' : p.kind = .file := by simpa using hk
      have hvq : (Entry.mk p cs).ensureValid s = true := by
        have := Mutagen.Proofs.Valid.ovalid_getPath s q t ht
        rw [hg] at this; exact this
      have hnew := hf p cs hvq hk'
      cases q with
      | nil => simp [apply, applyChange, oensureValid, hnew]
      | cons n rest =>
        cases t with
        | none => simp [Mutagen.Proofs.ApplyAt.getPath_none] at hg
        | some e =>
          simp only [apply, applyChange]
          cases ha : e.applyAt (some (Entry.mk (f p) cs)) n rest with
          | error _ => simpa using ht
          | ok e' =>
            simp only [oensureValid]
            exact applyAt_valid s _ hnew rest e e' n ht (by simp [hg]) ha
    · exact ht

/-- The user's steps that keep states valid: N is replaced by valid content,
and new file content has a non-empty digest. -/
def StepValid : Step → Prop
  | .editN t => oensureValid false t = true
  | .editP _ d => d ≠ []
  | _ => True

theorem step_valid (mode : Mode) (nAlpha docker : Bool) (hc : CyclesPreserveValid mode nAlpha docker)
    (s : State) (x : Step) (hs : ValidState s) (hx : StepValid x) : ValidState (step mode nAlpha docker s x) := by
  obtain ⟨hA, hP, hN⟩ := hs
  cases x with
  | cycle => exact hc s ⟨hA, hP, hN⟩
  | editN t => exact ⟨hA, hP, hx⟩
  | chmodP q =>
    refine ⟨hA, setFile_valid false s.P q _ hP ?_, hN⟩
    intro p cs hv hk
    unfold Entry.ensureValid at hv ⊢
    simp only [hk] at hv ⊢
    exact hv
  | editP q d =>
    refine ⟨hA, setFile_valid false s.P q _ hP ?_, hN⟩
    intro p cs hv hk
    unfold Entry.ensureValid at hv ⊢
    simp only [hk, Bool.and_eq_true] at hv ⊢
    have hd : d ≠ [] := hx
    exact ⟨hv.1, by simpa using hd⟩

theorem run_valid (mode : Mode) (nAlpha docker : Bool) (hc : CyclesPreserveValid mode nAlpha docker)
    (steps : List Step) : ∀ (s : State), ValidState s → (∀ x ∈ steps, StepValid x) →
    ∀ pre, pre <+: steps → ValidState (run mode nAlpha docker s pre) := by
  induction steps with
  | nil => intro s hs _ pre hpre; simp at hpre; subst hpre; exact hs
  | cons x rest ih =>
    intro s hs hx pre hpre
    cases pre with
    | nil => exact hs
    | cons y pre' =>
      have hy : y = x ∧ pre' <+: rest := by simpa [List.cons_prefix_cons] using hpre
      obtain ⟨rfl, hp'⟩ := hy
      have := ih (step mode nAlpha docker s y) (step_valid mode nAlpha docker hc s y hs (hx y (List.mem_cons_self ..)))
        (fun z hz => hx z (List.mem_cons_of_mem _ hz)) pre' hp'
      simpa [run] using this

end Mutagen.Proofs.ExecHistory
