import Mutagen.Model.Identifier
import Mathlib.Tactic.Ring
/-!
Helper definitions and lemmas for `Mutagen.Properties.C39`.

`val base ds` is the number denoted by a little-endian digit list; the digit
loop of basex is shown to compute the digits of the big-endian value
`bytesVal source` of the source bytes, in canonical form (no superfluous
leading digit), which bounds the encoded length; `strVal` reads a base-62
string back, which gives injectivity without inverting the loop.
-/
set_option linter.unusedSimpArgs false
namespace Mutagen.Proofs.Identifier
open Mutagen.Model.Identifier

/-- The number denoted by little-endian digits. -/
def val (base : Nat) : List Nat → Nat
  | [] => 0
  | d :: ds => d + base * val base ds

/-- The number denoted by big-endian bytes. -/
def bytesVal : Bytes → Nat
  | [] => 0
  | b :: t => b.toNat * 256 ^ t.length + bytesVal t

theorem val_append (base : Nat) (a b : List Nat) :
    val base (a ++ b) = val base a + base ^ a.length * val base b := by
  induction a with
  | nil => simp [val]
  | cons d a ih => simp only [List.cons_append, val, ih, List.length_cons]; ring

theorem mulAdd_spec (base : Nat) (hb : 0 < base) (ds : List Nat) (carry : Nat) :
    val base (mulAddDigits base ds carry).1 + base ^ ds.length * (mulAddDigits base ds carry).2
        = carry + 256 * val base ds
    ∧ (mulAddDigits base ds carry).1.length = ds.length
    ∧ ∀ d ∈ (mulAddDigits base ds carry).1, d < base := by
  induction ds generalizing carry with
  | nil => simp [mulAddDigits, val]
  | cons d ds ih =>
    obtain ⟨h1, h2, h3⟩ := ih ((carry + d * 256) / base)
    simp only [mulAddDigits, val, List.length_cons]
    refine ⟨?_, by simp [h2], ?_⟩
    · have e := Nat.mod_add_div (carry + d * 256) base
      calc (carry + d * 256) % base + base * val base (mulAddDigits base ds ((carry + d * 256) / base)).1
            + base ^ (ds.length + 1) * (mulAddDigits base ds ((carry + d * 256) / base)).2
          = (carry + d * 256) % base + base * (val base (mulAddDigits base ds ((carry + d * 256) / base)).1
            + base ^ ds.length * (mulAddDigits base ds ((carry + d * 256) / base)).2) := by ring
        _ = (carry + d * 256) % base + base * ((carry + d * 256) / base + 256 * val base ds) := by rw [h1]
        _ = ((carry + d * 256) % base + base * ((carry + d * 256) / base)) + base * (256 * val base ds) := by ring
        _ = carry + 256 * (d + base * val base ds) := by rw [e]; ring
    · intro x hx
      simp only [List.mem_cons] at hx
      rcases hx with rfl | hx
      · exact Nat.mod_lt _ hb
      · exact h3 x hx

theorem carryDigits_spec (base : Nat) (hb : 2 ≤ base) (fuel carry : Nat) (hf : carry ≤ fuel) :
    val base (carryDigits base fuel carry) = carry
    ∧ (∀ d ∈ carryDigits base fuel carry, d < base)
    ∧ (0 < carry → 1 ≤ (carryDigits base fuel carry).length
        ∧ base ^ ((carryDigits base fuel carry).length - 1) ≤ carry)
    ∧ (carry = 0 → carryDigits base fuel carry = []) := by
  induction fuel generalizing carry with
  | zero =>
    have : carry = 0 := by omega
    subst this
    simp [carryDigits, val]
  | succ fuel ih =>
    by_cases hc : carry > 0
    · have hdiv : carry / base ≤ fuel := by
        have : carry / base < carry := Nat.div_lt_self hc (by omega)
        omega
      obtain ⟨h1, h2, h3, h4⟩ := ih (carry / base) hdiv
      simp only [carryDigits, hc, if_true, val, List.length_cons, h1]
      refine ⟨Nat.mod_add_div carry base, ?_, ?_, by omega⟩
      · intro x hx
        simp only [List.mem_cons] at hx
        rcases hx with rfl | hx
        · exact Nat.mod_lt _ (by omega)
        · exact h2 x hx
      · intro _
        refine ⟨by omega, ?_⟩
        by_cases hq : carry / base = 0
        · simp [h4 hq]; omega
        · obtain ⟨l1, l2⟩ := h3 (by omega)
          have : (carryDigits base fuel (carry / base)).length + 1 - 1
              = ((carryDigits base fuel (carry / base)).length - 1) + 1 := by omega
          rw [this, pow_succ]
          calc base ^ ((carryDigits base fuel (carry / base)).length - 1) * base
              ≤ (carry / base) * base := Nat.mul_le_mul_right _ l2
            _ ≤ carry := Nat.div_mul_le_self carry base
    · have : carry = 0 := by omega
      subst this
      simp [carryDigits, val]

/-- Invariant of the digit array: non-empty, proper digits, and canonical
(a number with `n ≥ 2` digits is at least `base^(n-1)`). -/
def Inv (base : Nat) (ds : List Nat) : Prop :=
  1 ≤ ds.length ∧ (∀ d ∈ ds, d < base) ∧ (ds.length = 1 ∨ base ^ (ds.length - 1) ≤ val base ds)

theorem pushByte_spec (base : Nat) (hb : 2 ≤ base) (ds : List Nat) (b : UInt8) (hi : Inv base ds) :
    val base (pushByte base ds b) = b.toNat + 256 * val base ds ∧ Inv base (pushByte base ds b) := by
  obtain ⟨m1, m2, m3⟩ := mulAdd_spec base (by omega) ds b.toNat
  obtain ⟨c1, c2, c3, c4⟩ := carryDigits_spec base hb (mulAddDigits base ds b.toNat).2
    (mulAddDigits base ds b.toNat).2 (Nat.le_refl _)
  obtain ⟨i1, i2, i3⟩ := hi
  have hv : val base (pushByte base ds b) = b.toNat + 256 * val base ds := by
    simp only [pushByte, val_append, c1, m2]
    exact m1
  refine ⟨hv, ?_, ?_, ?_⟩
  · simp [pushByte, m2]; omega
  · intro d hd
    simp only [pushByte, List.mem_append] at hd
    rcases hd with hd | hd
    · exact m3 d hd
    · exact c2 d hd
  · by_cases ho : (mulAddDigits base ds b.toNat).2 = 0
    · have hl : (pushByte base ds b).length = ds.length := by simp [pushByte, c4 ho, m2]
      rcases i3 with i3 | i3
      · left; omega
      · right
        rw [hl, hv]
        exact Nat.le_trans i3 (by omega)
    · right
      obtain ⟨l1, l2⟩ := c3 (by omega)
      have hl : (pushByte base ds b).length
          = ds.length + (carryDigits base (mulAddDigits base ds b.toNat).2 (mulAddDigits base ds b.toNat).2).length := by
        simp [pushByte, m2]
      have hv2 : val base (pushByte base ds b) = val base (mulAddDigits base ds b.toNat).1
          + base ^ ds.length * (mulAddDigits base ds b.toNat).2 := by
        simp only [pushByte, val_append, c1, m2]
      rw [hl, hv2]
      have : ds.length + (carryDigits base (mulAddDigits base ds b.toNat).2 (mulAddDigits base ds b.toNat).2).length - 1
          = ds.length + ((carryDigits base (mulAddDigits base ds b.toNat).2 (mulAddDigits base ds b.toNat).2).length - 1) := by omega
      rw [this, pow_add]
      exact Nat.le_trans (Nat.mul_le_mul_left _ l2) (Nat.le_add_left _ _)

theorem foldl_pushByte_spec (base : Nat) (hb : 2 ≤ base) (bs : Bytes) (ds : List Nat) (hi : Inv base ds) :
    val base (bs.foldl (pushByte base) ds) = val base ds * 256 ^ bs.length + bytesVal bs
    ∧ Inv base (bs.foldl (pushByte base) ds) := by
  induction bs generalizing ds with
  | nil => simp [bytesVal, hi]
  | cons b bs ih =>
    obtain ⟨p1, p2⟩ := pushByte_spec base hb ds b hi
    obtain ⟨q1, q2⟩ := ih (pushByte base ds b) p2
    simp only [List.foldl_cons, List.length_cons, bytesVal]
    refine ⟨?_, q2⟩
    rw [q1, p1, pow_succ]
    ring

theorem encodeDigits_spec (base : Nat) (hb : 2 ≤ base) (source : Bytes) :
    val base (encodeDigits base source) = bytesVal source ∧ Inv base (encodeDigits base source) := by
  have h0 : Inv base [0] := ⟨by simp, by simp; omega, Or.inl rfl⟩
  obtain ⟨a, b⟩ := foldl_pushByte_spec base hb source [0] h0
  refine ⟨?_, b⟩
  simpa [encodeDigits, val] using a

/-- A canonical digit list of a number below `base^k` has at most `k` digits. -/
theorem length_le_of_lt_pow (base : Nat) (hb : 2 ≤ base) (ds : List Nat) (k : Nat) (hk : 1 ≤ k)
    (hi : Inv base ds) (hv : val base ds < base ^ k) : ds.length ≤ k := by
  obtain ⟨_, _, i3⟩ := hi
  rcases i3 with i3 | i3
  · omega
  · by_contra hc
    have : base ^ k ≤ base ^ (ds.length - 1) := Nat.pow_le_pow_right (by omega) (by omega)
    omega

theorem bytesVal_lt (bs : Bytes) : bytesVal bs < 256 ^ bs.length := by
  induction bs with
  | nil => simp [bytesVal]
  | cons b t ih =>
    have := b.toNat_lt
    simp only [bytesVal, List.length_cons, pow_succ]
    calc b.toNat * 256 ^ t.length + bytesVal t < b.toNat * 256 ^ t.length + 256 ^ t.length := by omega
      _ = (b.toNat + 1) * 256 ^ t.length := by ring
      _ ≤ 256 * 256 ^ t.length := Nat.mul_le_mul_right _ (by omega)
      _ = 256 ^ t.length * 256 := by ring

/-- Leading zero bytes do not count: the value is below `256^(len - zeroPrefix)`. -/
theorem bytesVal_lt_zeroPrefix (bs : Bytes) : bytesVal bs < 256 ^ (bs.length - zeroPrefix bs) := by
  induction bs with
  | nil => simp [bytesVal, zeroPrefix]
  | cons b t ih =>
    cases t with
    | nil => simpa [zeroPrefix] using bytesVal_lt [b]
    | cons b' t' =>
      by_cases hz : b = 0
      · subst hz
        have : (0 :: b' :: t').length - zeroPrefix (0 :: b' :: t') = (b' :: t').length - zeroPrefix (b' :: t') := by
          simp [zeroPrefix]
        rw [this]
        simpa [bytesVal] using ih
      · have : zeroPrefix (b :: b' :: t') = 0 := by simp [zeroPrefix, hz]
        rw [this]
        exact bytesVal_lt _

theorem zeroPrefix_lt (bs : Bytes) (h : bs ≠ []) : zeroPrefix bs < bs.length := by
  induction bs with
  | nil => exact absurd rfl h
  | cons b t ih =>
    cases t with
    | nil => simp [zeroPrefix]
    | cons b' t' =>
      by_cases hz : b = 0
      · have := ih (by simp)
        simp [zeroPrefix, hz] at this ⊢
        omega
      · simp [zeroPrefix, hz]

/-- Big-endian values of equally long byte strings are equal only for equal strings. -/
theorem bytesVal_injective (a b : Bytes) (hl : a.length = b.length) (h : bytesVal a = bytesVal b) : a = b := by
  induction a generalizing b with
  | nil => cases b with
    | nil => rfl
    | cons _ _ => simp at hl
  | cons x a ih =>
    cases b with
    | nil => simp at hl
    | cons y b =>
      simp only [List.length_cons, Nat.add_right_cancel_iff] at hl
      simp only [bytesVal, hl] at h
      have ha := bytesVal_lt a
      have hb := bytesVal_lt b
      rw [hl] at ha
      have hp : 0 < 256 ^ b.length := Nat.pow_pos (by omega)
      have hx : x.toNat = y.toNat := by
        have e1 : (x.toNat * 256 ^ b.length + bytesVal a) / 256 ^ b.length = x.toNat := by
          rw [Nat.mul_comm, Nat.mul_add_div hp, Nat.div_eq_of_lt ha]; simp
        have e2 : (y.toNat * 256 ^ b.length + bytesVal b) / 256 ^ b.length = y.toNat := by
          rw [Nat.mul_comm, Nat.mul_add_div hp, Nat.div_eq_of_lt hb]; simp
        rw [← e1, ← e2, h]
      have hv : bytesVal a = bytesVal b := by rw [hx] at h; omega
      rw [ih b hl hv, UInt8.toNat_inj.mp hx]

-- Reading a base-62 string back --------------------------------------------------------

def charIdx (c : Char) : Nat := alphabet.idxOf c

/-- The number denoted by a base-62 string (most significant digit first). -/
def strVal (cs : List Char) : Nat := cs.foldl (fun v c => v * 62 + charIdx c) 0

theorem alphabet_length : alphabet.length = 62 := by decide
theorem alphabet_zero : alphabet.getD 0 '?' = '0' := by decide
theorem charIdx_alphabet : ∀ d, d < 62 → charIdx (alphabet.getD d '?') = d := by decide
theorem charIdx_zero : charIdx '0' = 0 := by decide
set_option maxRecDepth 8000 in
theorem alnum_alphabet : ∀ d, d < 62 → isAlnum62 (alphabet.getD d '?') = true := by decide

theorem strVal_foldl_zeros (n : Nat) (cs : List Char) :
    (List.replicate n '0' ++ cs).foldl (fun v c => v * 62 + charIdx c) 0
      = cs.foldl (fun v c => v * 62 + charIdx c) 0 := by
  induction n with
  | zero => simp
  | succ n ih => simp [List.replicate_succ, charIdx_zero, ih]

theorem strVal_zeros (n : Nat) (cs : List Char) : strVal (List.replicate n '0' ++ cs) = strVal cs :=
  strVal_foldl_zeros n cs

theorem strVal_digits (ds : List Nat) (h : ∀ d ∈ ds, d < 62) :
    strVal (ds.reverse.map fun d => alphabet.getD d '?') = val 62 ds := by
  induction ds with
  | nil => simp [strVal, val]
  | cons d ds ih =>
    have hd := charIdx_alphabet d (h d (by simp))
    have := ih (fun x hx => h x (by simp [hx]))
    simp only [strVal] at this
    simp only [strVal, List.reverse_cons, List.map_append, List.foldl_append, List.map_cons,
      List.map_nil, List.foldl_cons, List.foldl_nil, this, hd, val]
    ring

/-- The text `EncodeBase62` produces denotes the big-endian value of its input. -/
theorem strVal_encodeBase62 (source : Bytes) : strVal (encodeBase62 source) = bytesVal source := by
  by_cases he : source = []
  · subst he; simp [encodeBase62, encode, strVal, bytesVal]
  · obtain ⟨hv, hi⟩ := encodeDigits_spec 62 (by omega) source
    have : source.isEmpty = false := by cases source <;> simp at he ⊢
    simp only [encodeBase62, encode, this, alphabet_zero, alphabet_length]
    rw [show (if false = true then [] else List.replicate (zeroPrefix source) '0' ++
        List.map (fun d => alphabet.getD d '?') (encodeDigits 62 source).reverse)
        = List.replicate (zeroPrefix source) '0' ++
        List.map (fun d => alphabet.getD d '?') (encodeDigits 62 source).reverse by simp]
    rw [strVal_zeros, strVal_digits _ hi.2.1, hv]

theorem pow_facts : ∀ z, z < 32 → 256 ^ (32 - z) ≤ 62 ^ (43 - z) := by decide

/-- The text `EncodeBase62` produces for a 32-byte value has at most 43 characters, all
from the alphabet. -/
theorem encodeBase62_shape (random : Bytes) (hl : random.length = 32) :
    (encodeBase62 random).length ≤ 43 ∧ (encodeBase62 random).all isAlnum62 = true := by
  have hne : random ≠ [] := by intro e; simp [e] at hl
  obtain ⟨hv, hi⟩ := encodeDigits_spec 62 (by omega) random
  have hz := zeroPrefix_lt random hne
  rw [hl] at hz
  have hlt := bytesVal_lt_zeroPrefix random
  rw [hl] at hlt
  have hpow := pow_facts (zeroPrefix random) hz
  have hlen := length_le_of_lt_pow 62 (by omega) (encodeDigits 62 random) (43 - zeroPrefix random)
    (by omega) hi (by rw [hv]; omega)
  have : random.isEmpty = false := by cases random <;> simp at hne ⊢
  simp only [encodeBase62, encode, this, alphabet_zero, alphabet_length]
  constructor
  · simp; omega
  · simp only [Bool.false_eq_true, if_false, List.all_append, List.all_replicate, Bool.and_eq_true]
    constructor
    · split
      · rfl
      · decide
    · simp only [List.all_eq_true, List.mem_map, List.mem_reverse]
      rintro c ⟨d, hd, rfl⟩
      exact alnum_alphabet d (hi.2.1 d hd)

theorem char_toNat_ofNat (n : Nat) (h : n < 0xd800) : (Char.ofNat n).toNat = n := by
  have hv : n.isValidChar := Or.inl h
  simp [Char.ofNat, hv, Char.ofNatAux, Char.toNat]

/-- Bytes map injectively to characters. -/
theorem byteChar_injective : Function.Injective (fun b : UInt8 => Char.ofNat b.toNat) := by
  intro x y hxy
  have hx := char_toNat_ofNat x.toNat (by have := x.toNat_lt; omega)
  have hy := char_toNat_ofNat y.toNat (by have := y.toNat_lt; omega)
  apply UInt8.toNat_inj.mp
  rw [← hx, ← hy]
  exact congrArg Char.toNat hxy

-- Legacy (UUID) identifiers are rejected as names ---------------------------------------

theorem hex_range (c : Char) (h : isLowerHex c = true) :
    (48 ≤ c.toNat ∧ c.toNat ≤ 57) ∨ (97 ≤ c.toNat ∧ c.toNat ≤ 102) := by
  simp only [isLowerHex, Bool.or_eq_true, Bool.and_eq_true, decide_eq_true_eq, Char.le_def,
    UInt32.le_iff_toNat_le] at h
  have e : c.toNat = c.val.toNat := rfl
  rw [e]
  simpa using h

theorem hex_char (c : Char) (h : isLowerHex c = true) :
    String.utf8EncodeChar c = [c.val.toUInt8] ∧ isHexByte c.val.toUInt8 = true := by
  have hr := hex_range c h
  have e : c.toNat = c.val.toNat := rfl
  constructor
  · apply String.utf8EncodeChar_eq_singleton
    simp only [Char.utf8Size]
    have : c.val ≤ 127 := by rw [UInt32.le_iff_toNat_le]; simp; omega
    simp [this]
  · simp only [isHexByte, Bool.or_eq_true, Bool.and_eq_true, decide_eq_true_eq, UInt8.le_iff_toNat_le]
    have : c.val.toUInt8.toNat = c.toNat := by
      rw [e, UInt32.toNat_toUInt8]; omega
    rw [this]
    simp
    omega

theorem hex_class (extra : Char → CharClass) (c : Char) (h : isLowerHex c = true) :
    (classify extra c = .letter ∨ classify extra c = .number) ∧ c ≠ '-' := by
  have hr := hex_range c h
  have e : c.toNat = c.val.toNat := rfl
  constructor
  · simp only [classify, Char.le_def, UInt32.le_iff_toNat_le]
    have h128 : c.toNat < 128 := by omega
    simp only [h128, if_true]
    rcases hr with hr | hr
    · right
      have : ¬ ((97 ≤ c.toNat ∧ c.toNat ≤ 122) ∨ (65 ≤ c.toNat ∧ c.toNat ≤ 90)) := by omega
      have h2 : 48 ≤ c.toNat ∧ c.toNat ≤ 57 := by omega
      simp only [← e, show 'a'.val.toNat = 97 from rfl, show 'z'.val.toNat = 122 from rfl, show 'A'.val.toNat = 65 from rfl, show 'Z'.val.toNat = 90 from rfl, show '0'.val.toNat = 48 from rfl, show '9'.val.toNat = 57 from rfl]
      rw [if_neg this, if_pos h2]
    · left
      have : (97 ≤ c.toNat ∧ c.toNat ≤ 122) ∨ (65 ≤ c.toNat ∧ c.toNat ≤ 90) := by omega
      simp only [← e, show 'a'.val.toNat = 97 from rfl, show 'z'.val.toNat = 122 from rfl, show 'A'.val.toNat = 65 from rfl, show 'Z'.val.toNat = 90 from rfl]
      rw [if_pos this]
  · intro hc
    subst hc
    simp at hr

def HexOrDash (c : Char) : Prop := isLowerHex c = true ∨ c = '-'

theorem nameLoop_hex (extra : Char → CharClass) (s : List Char) (h : ∀ c ∈ s, HexOrDash c) :
    ∀ first dash, (nameLoop extra s first dash).1 = .notLetterFirst ∨
      nameLoop extra s first dash = (.ok, dash || s.contains '-') := by
  induction s with
  | nil => intro first dash; right; simp [nameLoop]
  | cons r rest ih =>
    intro first dash
    have ih' := ih (fun c hc => h c (by simp [hc]))
    simp only [nameLoop]
    rcases h r (by simp) with hr | hr
    · obtain ⟨hc, hnd⟩ := hex_class extra r hr
      have hne : ¬ ('-' = r) := fun e => hnd e.symm
      rcases hc with hl | hn
      · rcases ih' false dash with a | a
        · left; simp [hl, a]
        · right; simp [hl, a, List.contains_cons, hne]
      · have hnl : classify extra r ≠ .letter := by rw [hn]; decide
        by_cases hf : first = true
        · left; simp [hnl, hf]
        · rcases ih' false dash with a | a
          · left; simp [hnl, hf, hn, a]
          · right; simp [hnl, hf, hn, a, List.contains_cons, hne]
    · subst hr
      have c1 : classify extra '-' ≠ .letter := by simp [classify]
      have c2 : classify extra '-' ≠ .number := by simp [classify]
      by_cases hf : first = true
      · left; simp [c1, hf]
      · rcases ih' false true with a | a
        · left; simp [c1, c2, hf, a]
        · right; simp [c1, c2, hf, a, List.contains_cons]

theorem utf8_hex (s : List Char) (h : ∀ c ∈ s, HexOrDash c) : utf8 s = s.map fun c => c.val.toUInt8 := by
  induction s with
  | nil => simp [utf8]
  | cons r rest ih =>
    have ih' := ih (fun c hc => h c (by simp [hc]))
    simp only [utf8, List.flatMap_cons, List.map_cons] at ih' ⊢
    rw [ih']
    rcases h r (by simp) with hr | hr
    · rw [(hex_char r hr).1]; simp
    · subst hr
      have : String.utf8EncodeChar '-' = ['-'.val.toUInt8] := by decide
      rw [this]; simp

theorem len4' {α} (l : List α) (h : l.length = 4) : ∃ a0 a1 a2 a3, l = [a0, a1, a2, a3] := by
  match l, h with
  | [a0, a1, a2, a3], _ => exact ⟨_, _, _, _, rfl⟩

theorem len8' {α} (l : List α) (h : l.length = 8) :
    ∃ a0 a1 a2 a3 a4 a5 a6 a7, l = [a0, a1, a2, a3, a4, a5, a6, a7] := by
  match l, h with
  | [a0, a1, a2, a3, a4, a5, a6, a7], _ => exact ⟨_, _, _, _, _, _, _, _, rfl⟩

theorem len12' {α} (l : List α) (h : l.length = 12) :
    ∃ a0 a1 a2 a3 a4 a5 a6 a7 a8 a9 a10 a11, l = [a0, a1, a2, a3, a4, a5, a6, a7, a8, a9, a10, a11] := by
  match l, h with
  | [a0, a1, a2, a3, a4, a5, a6, a7, a8, a9, a10, a11], _ => exact ⟨_, _, _, _, _, _, _, _, _, _, _, _, rfl⟩

theorem split_dash (l : List Char) (n : Nat) (h2 : (l.drop n).head? = some '-') :
    l = l.take n ++ '-' :: l.drop (n + 1) := by
  have e := (List.take_append_drop n l).symm
  cases hd : l.drop n with
  | nil => rw [hd] at h2; simp at h2
  | cons x t =>
    rw [hd] at h2
    simp at h2
    subst h2
    have : l.drop (n + 1) = t := by
      rw [← List.drop_drop, hd]; rfl
    rw [this, ← hd]
    exact e

/-- The shape a string matching the legacy pattern has. -/
theorem legacy_shape (s : List Char) (h : legacyMatches s = true) :
    ∃ g1 g2 g3 g4 g5 : List Char, s = g1 ++ '-' :: (g2 ++ '-' :: (g3 ++ '-' :: (g4 ++ '-' :: g5))) ∧
      g1.length = 8 ∧ g2.length = 4 ∧ g3.length = 4 ∧ g4.length = 4 ∧ g5.length = 12 ∧
      g1.all isLowerHex = true ∧ g2.all isLowerHex = true ∧ g3.all isLowerHex = true ∧
      g4.all isLowerHex = true ∧ g5.all isLowerHex = true := by
  simp only [legacyMatches, hexGroups, Bool.and_eq_true, decide_eq_true_eq] at h
  obtain ⟨l1, a1, d1, l2, a2, d2, l3, a3, d3, l4, a4, d4, l5, a5⟩ := h
  refine ⟨s.take 8, (s.drop 9).take 4, ((s.drop 9).drop 5).take 4, (((s.drop 9).drop 5).drop 5).take 4,
    (((s.drop 9).drop 5).drop 5).drop 5, ?_, l1, l2, l3, l4, l5, a1, a2, a3, a4, a5⟩
  have e1 := split_dash s 8 d1
  have e2 := split_dash (s.drop 9) 4 d2
  have e3 := split_dash ((s.drop 9).drop 5) 4 d3
  have e4 := split_dash (((s.drop 9).drop 5).drop 5) 4 d4
  rw [← e4, ← e3, ← e2, ← e1]

theorem hexb (c : Char) (h : isLowerHex c = true) : isHexByte c.toUInt8 = true := (hex_char c h).2

theorem uuidParse_legacy (g1 g2 g3 g4 g5 : List Char)
    (l1 : g1.length = 8) (l2 : g2.length = 4) (l3 : g3.length = 4) (l4 : g4.length = 4) (l5 : g5.length = 12)
    (a1 : g1.all isLowerHex = true) (a2 : g2.all isLowerHex = true) (a3 : g3.all isLowerHex = true)
    (a4 : g4.all isLowerHex = true) (a5 : g5.all isLowerHex = true) :
    uuidParseOk ((g1 ++ '-' :: (g2 ++ '-' :: (g3 ++ '-' :: (g4 ++ '-' :: g5)))).map fun c => c.val.toUInt8) = true := by
  obtain ⟨x0, x1, x2, x3, x4, x5, x6, x7, rfl⟩ := len8' g1 l1
  obtain ⟨y0, y1, y2, y3, rfl⟩ := len4' g2 l2
  obtain ⟨z0, z1, z2, z3, rfl⟩ := len4' g3 l3
  obtain ⟨w0, w1, w2, w3, rfl⟩ := len4' g4 l4
  obtain ⟨v0, v1, v2, v3, v4, v5, v6, v7, v8, v9, v10, v11, rfl⟩ := len12' g5 l5
  simp only [List.all_cons, List.all_nil, Bool.and_true, Bool.and_eq_true] at a1 a2 a3 a4 a5
  obtain ⟨hx0, hx1, hx2, hx3, hx4, hx5, hx6, hx7⟩ := a1
  obtain ⟨hy0, hy1, hy2, hy3⟩ := a2
  obtain ⟨hz0, hz1, hz2, hz3⟩ := a3
  obtain ⟨hw0, hw1, hw2, hw3⟩ := a4
  obtain ⟨hv0, hv1, hv2, hv3, hv4, hv5, hv6, hv7, hv8, hv9, hv10, hv11⟩ := a5
  have d : '-'.toUInt8 = 0x2d := by decide
  simp [uuidParseOk, xtobOk, List.getD, d,
    hexb _ hx0, hexb _ hx1, hexb _ hx2, hexb _ hx3,
    hexb _ hx4, hexb _ hx5, hexb _ hx6, hexb _ hx7,
    hexb _ hy0, hexb _ hy1, hexb _ hy2, hexb _ hy3,
    hexb _ hz0, hexb _ hz1, hexb _ hz2, hexb _ hz3,
    hexb _ hw0, hexb _ hw1, hexb _ hw2, hexb _ hw3,
    hexb _ hv0, hexb _ hv1, hexb _ hv2, hexb _ hv3,
    hexb _ hv4, hexb _ hv5, hexb _ hv6, hexb _ hv7,
    hexb _ hv8, hexb _ hv9, hexb _ hv10, hexb _ hv11]

theorem names_reject_legacy (extra : Char → CharClass) (s : List Char) (h : legacyMatches s = true) :
    ensureNameValid extra s = .notLetterFirst ∨ ensureNameValid extra s = .isUUID := by
  obtain ⟨g1, g2, g3, g4, g5, rfl, l1, l2, l3, l4, l5, a1, a2, a3, a4, a5⟩ := legacy_shape s h
  have hall : ∀ c ∈ g1 ++ '-' :: (g2 ++ '-' :: (g3 ++ '-' :: (g4 ++ '-' :: g5))), HexOrDash c := by
    intro c hc
    simp only [List.mem_append, List.mem_cons] at hc
    simp only [List.all_eq_true] at a1 a2 a3 a4 a5
    rcases hc with hc | rfl | hc | rfl | hc | rfl | hc | rfl | hc
    · exact Or.inl (a1 c hc)
    · exact Or.inr rfl
    · exact Or.inl (a2 c hc)
    · exact Or.inr rfl
    · exact Or.inl (a3 c hc)
    · exact Or.inr rfl
    · exact Or.inl (a4 c hc)
    · exact Or.inr rfl
    · exact Or.inl (a5 c hc)
  have hloop := nameLoop_hex extra _ hall true false
  have hutf := utf8_hex _ hall
  have hu := uuidParse_legacy g1 g2 g3 g4 g5 l1 l2 l3 l4 l5 a1 a2 a3 a4 a5
  unfold ensureNameValid
  rcases hloop with a | a
  · left
    cases hr : nameLoop extra (g1 ++ '-' :: (g2 ++ '-' :: (g3 ++ '-' :: (g4 ++ '-' :: g5)))) true false with
    | mk e d =>
      rw [hr] at a
      simp only at a
      subst a
      rfl
  · right
    rw [a, hutf, hu]
    simp

end Mutagen.Proofs.Identifier
