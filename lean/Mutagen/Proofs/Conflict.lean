import Mutagen.Proofs.Reconcile
/-!
Helper lemmas for the full conflict well-formedness theorem of C06: conflicts
are rooted at a first disagreement of the endpoints, `EnsureValid(true)`
implies `EnsureValid(false)`, the synchronizable part of a valid tree is
valid, `diff` of valid trees carries valid entries, and `Conflict.EnsureValid`.
-/
namespace Mutagen.Model


/-! ## Conflicts are rooted where the endpoints disagree -/

/-- `rel` is a path at which the two trees are not shallowly equal while they
are shallowly equal at every proper prefix of it. -/
def FirstDisagreement (al be : Option Entry) (rel : Path) : Prop :=
  shallowEq (getPath al rel) (getPath be rel) = false ∧
  ∀ pre, pre <+: rel → pre ≠ rel → shallowEq (getPath al pre) (getPath be pre) = true

theorem reconcile_conflict_rooted (mode : Mode) (path : Path) (a al be : Option Entry) :
    ∀ c ∈ (reconcile mode path a al be).conflicts, ∃ rel, c.root = path ++ rel ∧ FirstDisagreement al be rel := by
  fun_induction reconcile mode path a al be with
  | case1 => exact forall_mem_of_eq_nil rfl
  | case2 => exact forall_mem_of_eq_nil rfl
  | case3 => exact forall_mem_of_eq_nil rfl
  | case4 => exact forall_mem_of_eq_nil rfl
  | case5 path ancestor alpha beta h1 h2 h3 h4 here anc' ih =>
    intro c hc
    have hh : here.conflicts = [] := by simp only [here]; split <;> rfl
    simp only [Plan.append_conflicts, hh, List.nil_append, Plan.concat_conflicts, List.flatMap_map,
      List.mem_flatMap, List.mem_attach, true_and] at hc
    obtain ⟨n, hn⟩ := hc
    obtain ⟨rel, hp, hd1, hd2⟩ := ih n c hn
    refine ⟨n.1 :: rel, by simp [hp], hd1, ?_⟩
    intro pre hpre hne
    cases pre with
    | nil => exact h4
    | cons m pre' =>
      rw [List.cons_prefix_cons] at hpre
      obtain ⟨rfl, hpre'⟩ := hpre
      exact hd2 pre' hpre' (fun h => hne (by rw [h]))
  | case6 path ancestor alpha beta h1 h2 h3 h4 =>
    intro c hc
    have := (handleDisagreement_conflicts mode path ancestor alpha beta c hc).1
    refine ⟨[], by simp [this], Bool.eq_false_iff.mpr h4, ?_⟩
    intro pre hpre hne
    exact absurd (List.prefix_nil.mp hpre) hne

/-! ## Every change named by a conflict carries valid entries -/

mutual
theorem Entry.ensureValid_weaken (e : Entry) (h : e.ensureValid true = true) : e.ensureValid false = true :=
  match e with
  | .mk p cs => by
    have ih := fun hh => Entry.ensureValidL_weaken cs hh
    unfold Entry.ensureValid at h ⊢
    cases hk : p.kind with
    | directory =>
      simp only [hk, Bool.and_eq_true] at h ⊢
      exact ⟨h.1, ih h.2⟩
    | file => simpa only [hk] using h
    | symlink => simpa only [hk] using h
    | untracked => simp [hk] at h
    | problematic => simp [hk] at h
    | phantom => simp [hk] at h
    | unknown => simp [hk] at h
theorem Entry.ensureValidL_weaken (cs : Contents) (h : Entry.ensureValidL true cs = true) :
    Entry.ensureValidL false cs = true :=
  match cs with
  | [] => rfl
  | (n, c) :: r => by
    simp only [Entry.ensureValidL, Bool.and_eq_true] at h ⊢
    exact ⟨⟨h.1.1, Entry.ensureValid_weaken c h.1.2⟩, Entry.ensureValidL_weaken r h.2⟩
end

theorem Valid.of_validSync {e : Option Entry} (h : ValidSync e) : Valid e := by
  cases e with
  | none => exact ⟨rfl, rfl⟩
  | some e => exact ⟨h.1, Entry.ensureValid_weaken e h.2⟩


/-! ### The synchronizable part of a valid tree is valid -/

theorem keys_syncL_sublist (cs : Contents) : (keys (Entry.synchronizableL cs)).Sublist (keys cs) := by
  induction cs with
  | nil => simp [Entry.synchronizableL, keys]
  | cons hd t ih =>
    obtain ⟨m, c⟩ := hd
    simp only [Entry.synchronizableL]
    split
    · exact List.Sublist.cons _ ih
    · simp only [keys, List.map_cons] at ih ⊢
      exact List.Sublist.cons_cons _ ih

mutual
theorem Entry.synchronizable_valid (e : Entry) (hn : e.nodupKeys = true) (hv : e.ensureValid false = true) :
    Valid e.synchronizable :=
  match e with
  | .mk p cs => by
    have hk := Entry.nodupKeys_mk_iff.mp hn
    have hvm := Entry.ensureValid_mk hv
    have ihL := fun h1 h2 => Entry.synchronizableL_valid cs h1 h2
    unfold Entry.synchronizable
    by_cases hs : p.kind.synchronizable = true
    · simp only [hs, Bool.not_true, Bool.false_eq_true, ↓reduceIte]
      by_cases hd : p.kind = .directory
      · simp only [hd, bne_self_eq_false, Bool.false_eq_true, ↓reduceIte]
        by_cases he : cs.isEmpty = true
        · simp only [he, ↓reduceIte]; exact ⟨hn, hv⟩
        · simp only [he, Bool.false_eq_true, ↓reduceIte]
          obtain ⟨i1, i2⟩ := ihL hk.2 (hvm.1 hd).2
          constructor
          · show Entry.nodupKeys _ = true
            exact Entry.nodupKeys_mk_iff.mpr ⟨List.Nodup.sublist (keys_syncL_sublist cs) hk.1, i1⟩
          · show Entry.ensureValid false _ = true
            have hv' := hv
            simp only [Entry.ensureValid, hd, Bool.and_eq_true] at hv' ⊢
            refine ⟨⟨⟨⟨hv'.1.1.1.1, hv'.1.1.1.2⟩, hv'.1.1.2⟩, ?_⟩, i2⟩
            decide
      · have : (p.kind != Kind.directory) = true := by simpa using hd
        simp only [this, ↓reduceIte]; exact ⟨hn, hv⟩
    · simp only [hs, Bool.not_false, ↓reduceIte]
      exact ⟨rfl, rfl⟩
theorem Entry.synchronizableL_valid (cs : Contents) (hn : Entry.nodupKeysL cs = true)
    (hv : Entry.ensureValidL false cs = true) :
    Entry.nodupKeysL (Entry.synchronizableL cs) = true ∧
      Entry.ensureValidL false (Entry.synchronizableL cs) = true :=
  match cs with
  | [] => by simp [Entry.synchronizableL, Entry.nodupKeysL, Entry.ensureValidL]
  | (n, c) :: r => by
    simp only [Entry.nodupKeysL, Bool.and_eq_true] at hn
    simp only [Entry.ensureValidL, Bool.and_eq_true] at hv
    have i1 := Entry.synchronizable_valid c hn.1 hv.1.2
    have i2 := Entry.synchronizableL_valid r hn.2 hv.2
    simp only [Entry.synchronizableL]
    split
    · exact i2
    · rename_i c' hc
      rw [hc] at i1
      simp only [Entry.nodupKeysL, Entry.ensureValidL, Bool.and_eq_true]
      exact ⟨⟨i1.1, i2.1⟩, ⟨hv.1.1, i1.2⟩, i2.2⟩
end

theorem Valid.osync {e : Option Entry} (hv : Valid e) : Valid (osync e) := by
  cases e with
  | none => exact ⟨rfl, rfl⟩
  | some e => exact Entry.synchronizable_valid e hv.1 hv.2


/-! ### Changes named by conflicts are valid -/

/-- All entries carried by the changes pass `EnsureValid(false)`. -/
def ChangesValid (l : List Change) : Prop := ∀ c ∈ l, Valid c.old ∧ Valid c.new

theorem diff_valid (path : Path) (x y : Option Entry) (hx : Valid x) (hy : Valid y) :
    ChangesValid (diff path x y) := by
  fun_induction diff path x y with
  | case1 path base target _ => intro c hc; simp at hc; subst hc; exact ⟨hx, hy⟩
  | case2 path base target _ ih =>
    intro c hc
    simp only [List.mem_flatMap, List.mem_attach, true_and] at hc
    obtain ⟨n, hc⟩ := hc
    exact ih n (hx.lookup n.1) (hy.lookup n.1) c hc

theorem ChangesValid.nonDeletion {l : List Change} (h : ChangesValid l) : ChangesValid (nonDeletion l) :=
  fun c hc => h c (mem_nonDeletion hc)

theorem ChangesValid.single {path : Path} {o n : Option Entry} (ho : Valid o) (hn : Valid n) :
    ChangesValid [{ path := path, old := o, new := n }] := by
  intro c hc; simp at hc; subst hc; exact ⟨ho, hn⟩

/-- The conflict passes the per-change part of `Conflict.EnsureValid`. -/
def ConflictChangesValid (c : Conflict) : Prop := ChangesValid c.alphaChanges ∧ ChangesValid c.betaChanges

theorem conflictChangesValid_mk {path : Path} {x y : List Change} (hx : ChangesValid x) (hy : ChangesValid y) :
    ∀ c ∈ (Plan.conflict path x y).conflicts, ConflictChangesValid c := by
  intro c hc
  simp [Plan.conflict] at hc
  subst hc
  exact ⟨hx, hy⟩

macro "cvalid_side" : tactic =>
  `(tactic| first
    | exact diff_valid _ _ _ ‹_› ‹_›
    | exact (diff_valid _ _ _ ‹_› ‹_›).nonDeletion
    | exact ChangesValid.single ‹_› ‹_›)

macro "cvalid_case" : tactic =>
  `(tactic| first
    | exact forall_mem_of_eq_nil rfl
    | (apply conflictChangesValid_mk
       · cvalid_side
       · cvalid_side))

theorem handleDisagreement_conflicts_valid (mode : Mode) (path : Path) (a al be : Option Entry)
    (ha : Valid a) (hal : Valid al) (hbe : Valid be) :
    ∀ c ∈ (handleDisagreement mode path a al be).conflicts, ConflictChangesValid c := by
  have hsa : Valid (osync al) := hal.osync
  have hsb : Valid (osync be) := hbe.osync
  unfold handleDisagreement
  cases mode
  · unfold handleBidirectional; simp only []; repeat' split
    all_goals cvalid_case
  · unfold handleBidirectional; simp only []; repeat' split
    all_goals cvalid_case
  · unfold handleOneWaySafe; simp only []; repeat' split
    all_goals cvalid_case
  · unfold handleOneWayReplica; simp only []; repeat' split
    all_goals cvalid_case

theorem Valid.ancestorForRecursion {a : Option Entry} (al : Option Entry) (h : Valid a) :
    Valid (ancestorForRecursion a al) := by
  unfold Mutagen.Model.ancestorForRecursion
  split
  · exact h
  · exact ⟨rfl, rfl⟩

theorem reconcile_conflicts_valid (mode : Mode) (path : Path) (a al be : Option Entry) :
    Valid a → Valid al → Valid be →
    ∀ c ∈ (reconcile mode path a al be).conflicts, ConflictChangesValid c := by
  fun_induction reconcile mode path a al be with
  | case1 => intro _ _ _; exact forall_mem_of_eq_nil rfl
  | case2 => intro _ _ _; exact forall_mem_of_eq_nil rfl
  | case3 => intro _ _ _; exact forall_mem_of_eq_nil rfl
  | case4 => intro _ _ _; exact forall_mem_of_eq_nil rfl
  | case5 path ancestor alpha beta h1 h2 h3 h4 here anc' ih =>
    intro ha hal hbe c hc
    have hh : here.conflicts = [] := by simp only [here]; split <;> rfl
    simp only [Plan.append_conflicts, hh, List.nil_append, Plan.concat_conflicts, List.flatMap_map,
      List.mem_flatMap, List.mem_attach, true_and] at hc
    obtain ⟨n, hn⟩ := hc
    exact ih n ((ha.ancestorForRecursion alpha).lookup n.1) (hal.lookup n.1) (hbe.lookup n.1) c hn
  | case6 path ancestor alpha beta h1 h2 h3 h4 =>
    intro ha hal hbe
    exact handleDisagreement_conflicts_valid mode path ancestor alpha beta ha hal hbe

/-- `Conflict.EnsureValid` from its three ingredients. -/
theorem Conflict.ensureValid_of {c : Conflict} (h1 : c.alphaChanges ≠ []) (h2 : c.betaChanges ≠ [])
    (h3 : ConflictChangesValid c) : c.ensureValid = true := by
  have hall : ∀ l : List Change, ChangesValid l → l.all (·.ensureValid false) = true := by
    intro l hl
    rw [List.all_eq_true]
    intro ch hch
    simp [Change.ensureValid, (hl ch hch).1.2, (hl ch hch).2.2]
  have e1 : c.alphaChanges.isEmpty = false := by
    cases h : c.alphaChanges with
    | nil => exact absurd h h1
    | cons _ _ => rfl
  have e2 : c.betaChanges.isEmpty = false := by
    cases h : c.betaChanges with
    | nil => exact absurd h h2
    | cons _ _ => rfl
  simp [Conflict.ensureValid, e1, e2, hall _ h3.1, hall _ h3.2]

end Mutagen.Model
