import Mutagen.Proofs.Phantom
import Mutagen.Proofs.EndpointValid
/-!
Reified snapshots (phantom.go) are genuine maps and phantom-free.
-/
namespace Mutagen.Proofs.PhantomWF
open Mutagen.Model Mutagen.Proofs.Phantom

theorem noPhantomL_iff (cs : Contents) : Entry.noPhantomL cs = true ↔ ∀ nc ∈ cs, nc.2.noPhantom = true := by
  induction cs with
  | nil => simp [Entry.noPhantomL]
  | cons hd t ih => obtain ⟨n, c⟩ := hd; simp [Entry.noPhantomL, ih]

theorem nodupKeysL_iff (cs : Contents) : Entry.nodupKeysL cs = true ↔ ∀ nc ∈ cs, nc.2.nodupKeys = true := by
  induction cs with
  | nil => simp [Entry.nodupKeysL]
  | cons hd t ih => obtain ⟨n, c⟩ := hd; simp [Entry.nodupKeysL, ih]

theorem keys_reifiedKids (results : List (Name × Reified)) (pick : Reified → Option Entry) (cs : Contents) :
    keys (reifiedKids results pick cs) = keys cs := by
  simp [reifiedKids, keys, List.map_map, Function.comp_def]

theorem reifyNode_some (t : Bool) (kids : Contents) (e : Entry) : ∃ x, (reifyNode t kids (some e)).1 = some x := by
  obtain ⟨p, cs⟩ := e
  simp only [reifyNode]
  split
  · split
    · exact ⟨_, rfl⟩
    · split <;> exact ⟨_, rfl⟩
  · exact ⟨_, rfl⟩

theorem reify_alpha_some (a β : Option Entry) (e : Entry) : ∃ x, (reify a (some e) β).alpha = some x := by
  by_cases h : (!isDirectoryKind (some e) && !isDirectoryKind β) = true
  · rw [reify_leaf a _ _ h]; exact ⟨e, rfl⟩
  · rw [reify_dir a _ _ (eq_false_of_ne_true h)]; exact reifyNode_some _ _ e

theorem reify_beta_some (a α : Option Entry) (e : Entry) : ∃ x, (reify a α (some e)).beta = some x := by
  by_cases h : (!isDirectoryKind α && !isDirectoryKind (some e)) = true
  · rw [reify_leaf a _ _ h]; exact ⟨e, rfl⟩
  · rw [reify_dir a _ _ (eq_false_of_ne_true h)]; exact reifyNode_some _ _ e

theorem lookup_some_of_mem {nc : Name × Entry} {cs : Contents} (h : nc ∈ cs) : ∃ c, lookup nc.1 cs = some c := by
  induction cs with
  | nil => simp at h
  | cons hd t ih =>
    obtain ⟨m, e⟩ := hd
    simp only [lookup]
    by_cases hm : m = nc.1
    · exact ⟨e, by simp [hm]⟩
    · simp only [hm, if_false]
      rcases List.mem_cons.mp h with h | h
      · exact absurd (by rw [h]) hm
      · exact ih h

/-- One side's node after reification is a genuine map and phantom-free when all
replaced children are. -/
theorem reifyNode_wf (t : Bool) (results : List (Name × Reified)) (pick : Reified → Option Entry)
    (x : Option Entry) (hx : Valid x)
    (hk : ∀ nc ∈ contents x, ∃ y, (findResult nc.1 results).bind pick = some y ∧ y.nodupKeys = true ∧ y.noPhantom = true) :
    onodupKeys (reifyNode t (reifiedKids results pick (contents x)) x).1 = true ∧
    onoPhantom (reifyNode t (reifiedKids results pick (contents x)) x).1 = true := by
  cases x with
  | none => exact ⟨rfl, rfl⟩
  | some e =>
    obtain ⟨p, cs⟩ := e
    simp only [contents, Entry.children] at hk ⊢
    have hkn : Entry.nodupKeysL (reifiedKids results pick cs) = true := by
      rw [nodupKeysL_iff]
      intro nc hnc
      simp only [reifiedKids, List.mem_map] at hnc
      obtain ⟨nc0, h0, rfl⟩ := hnc
      obtain ⟨y, hy, hyn, _⟩ := hk nc0 h0
      simp [hy, hyn]
    have hkp : Entry.noPhantomL (reifiedKids results pick cs) = true := by
      rw [noPhantomL_iff]
      intro nc hnc
      simp only [reifiedKids, List.mem_map] at hnc
      obtain ⟨nc0, h0, rfl⟩ := hnc
      obtain ⟨y, hy, _, hyp⟩ := hk nc0 h0
      simp [hy, hyp]
    have hnd : decide (keys (reifiedKids results pick cs)).Nodup = true := by
      rw [keys_reifiedKids]
      have := hx.1
      simp only [onodupKeys, Entry.nodupKeys, Bool.and_eq_true] at this
      exact this.1
    simp only [reifyNode]
    split
    · split
      · simp [onodupKeys, onoPhantom, Entry.nodupKeys, Entry.noPhantom, hnd, hkn, hkp]
      · split
        · simp [onodupKeys, onoPhantom, Entry.nodupKeys, Entry.noPhantom, Entry.nodupKeysL, Entry.noPhantomL, keys]
        · rename_i h1 _ h3
          have hkd : p.kind = .directory := by
            simp only [Bool.or_eq_true, beq_iff_eq] at h1
            rcases h1 with h | h
            · exact h
            · simp [h] at h3
          simp [onodupKeys, onoPhantom, Entry.nodupKeys, Entry.noPhantom, hnd, hkn, hkp, hkd]
    · rename_i h1
      have hkp' : p.kind ≠ .phantom := by
        intro h; simp [h] at h1
      simp [onodupKeys, onoPhantom, Entry.nodupKeys, Entry.noPhantom, hnd, hkn, hkp, hkp']

/-- Reified snapshots are genuine maps and phantom-free. -/
theorem reify_wf (a α β : Option Entry) : Valid α → Valid β →
    (onodupKeys (reify a α β).alpha = true ∧ onoPhantom (reify a α β).alpha = true) ∧
    (onodupKeys (reify a α β).beta = true ∧ onoPhantom (reify a α β).beta = true) := by
  induction a, α, β using reify.induct with
  | case1 a α β h =>
    intro hα hβ
    rw [reify_leaf a α β h]
    simp only [Bool.and_eq_true, Bool.not_eq_true'] at h
    have leaf : ∀ x : Option Entry, Valid x → isDirectoryKind x = false → onoPhantom x = true := by
      intro x hx hd
      cases x with
      | none => rfl
      | some e =>
        obtain ⟨p, cs⟩ := e
        have hv := hx.2
        simp only [oensureValid] at hv
        unfold Entry.ensureValid at hv
        simp only [isDirectoryKind, isKind, Entry.kind, Entry.props, Bool.or_eq_false_iff, beq_eq_false_iff_ne] at hd
        cases hk : p.kind <;> simp only [hk, Bool.and_eq_true] at hv hd <;>
          simp_all [onoPhantom, Entry.noPhantom, Entry.noPhantomL]
    exact ⟨⟨hα.1, leaf α hα h.1⟩, ⟨hβ.1, leaf β hβ h.2⟩⟩
  | case2 a α β h results trackedLower toTracked _ _ _ _ _ _ ih =>
    intro hα hβ
    have hnot : (!isDirectoryKind α && !isDirectoryKind β) = false := eq_false_of_ne_true h
    rw [reify_dir a α β hnot]
    have hfind : ∀ n, n ∈ nameUnion [contents α, contents β] →
        findResult n (reifyResults a α β) =
          some (reify (lookup n (contents a)) (lookup n (contents α)) (lookup n (contents β))) := fun n hn =>
      findResult_map n _ (fun m => reify (lookup m (contents a)) (lookup m (contents α)) (lookup m (contents β))) hn
    constructor
    · refine reifyNode_wf _ _ _ α hα ?_
      intro nc hnc
      obtain ⟨c0, hc0⟩ := lookup_some_of_mem hnc
      have hmem : nc.1 ∈ nameUnion [contents α, contents β] :=
        mem_nameUnion.mpr ⟨contents α, by simp, mem_keys_of_lookup_some hc0⟩
      have hih := ih ⟨nc.1, hmem⟩ (hα.lookup nc.1) (hβ.lookup nc.1)
      rw [hfind nc.1 hmem]
      simp only [Option.bind_some]
      obtain ⟨y, hy⟩ : ∃ y, (reify (lookup nc.1 (contents a)) (lookup nc.1 (contents α)) (lookup nc.1 (contents β))).alpha = some y := by
        rw [hc0]; exact reify_alpha_some _ _ c0
      refine ⟨y, hy, ?_, ?_⟩
      · have := hih.1.1; rw [hy] at this; exact this
      · have := hih.1.2; rw [hy] at this; exact this
    · refine reifyNode_wf _ _ _ β hβ ?_
      intro nc hnc
      obtain ⟨c0, hc0⟩ := lookup_some_of_mem hnc
      have hmem : nc.1 ∈ nameUnion [contents α, contents β] :=
        mem_nameUnion.mpr ⟨contents β, by simp, mem_keys_of_lookup_some hc0⟩
      have hih := ih ⟨nc.1, hmem⟩ (hα.lookup nc.1) (hβ.lookup nc.1)
      rw [hfind nc.1 hmem]
      simp only [Option.bind_some]
      obtain ⟨y, hy⟩ : ∃ y, (reify (lookup nc.1 (contents a)) (lookup nc.1 (contents α)) (lookup nc.1 (contents β))).beta = some y := by
        rw [hc0]; exact reify_beta_some _ _ c0
      refine ⟨y, hy, ?_, ?_⟩
      · have := hih.2.1; rw [hy] at this; exact this
      · have := hih.2.2; rw [hy] at this; exact this

end Mutagen.Proofs.PhantomWF
