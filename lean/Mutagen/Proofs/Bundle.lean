import Mutagen.Model.Bundle
/-!
Helper lemmas for C46 (core Lean only).
-/
namespace Mutagen.Model.Bundle

theorem searchLoop_first {fs : Path → LocState} {pre post : List Path} {p : Path} {a : Archive}
    (hpre : ∀ q ∈ pre, fs q = .absent) (hp : fs p = .file a) :
    searchLoop fs (pre ++ p :: post) = .ok (some a) := by
  induction pre with
  | nil => simp [searchLoop, hp]
  | cons q qs ih =>
    have hq : fs q = .absent := hpre q (by simp)
    simp only [List.cons_append, searchLoop, hq]
    exact ih (fun x hx => hpre x (by simp [hx]))

theorem searchLoop_found {fs : Path → LocState} {paths : List Path} {a : Archive}
    (h : searchLoop fs paths = .ok (some a)) :
    ∃ pre p post, paths = pre ++ p :: post ∧ (∀ q ∈ pre, fs q = .absent) ∧ fs p = .file a := by
  induction paths with
  | nil => simp [searchLoop] at h
  | cons q qs ih =>
    simp only [searchLoop] at h
    cases hq : fs q with
    | absent =>
      rw [hq] at h
      obtain ⟨pre, p, post, rfl, h1, h2⟩ := ih h
      refine ⟨q :: pre, p, post, by simp, ?_, h2⟩
      intro x hx
      simp only [List.mem_cons] at hx
      rcases hx with rfl | hx
      · exact hq
      · exact h1 x hx
    | openErr => rw [hq] at h; cases h
    | notFile => rw [hq] at h; cases h
    | file b =>
      rw [hq] at h
      simp only [Except.ok.injEq, Option.some.injEq] at h
      subst h
      exact ⟨[], q, qs, by simp, by simp, hq⟩

theorem searchLoop_none {fs : Path → LocState} {paths : List Path} :
    searchLoop fs paths = .ok none ↔ ∀ p ∈ paths, fs p = .absent := by
  induction paths with
  | nil => simp [searchLoop]
  | cons q qs ih =>
    simp only [searchLoop]
    cases hq : fs q with
    | absent => simp [ih, hq]
    | openErr => simp [hq]
    | notFile => simp [hq]
    | file b => simp [hq]

/-- Only the states of the search locations matter. -/
theorem searchLoop_congr {fs fs' : Path → LocState} {paths : List Path}
    (h : ∀ p ∈ paths, fs p = fs' p) : searchLoop fs paths = searchLoop fs' paths := by
  induction paths with
  | nil => rfl
  | cons q qs ih =>
    simp only [searchLoop]
    rw [← h q (by simp), ih (fun p hp => h p (by simp [hp]))]

theorem scan_ok {target : Bytes} {fin : ArchEnd} {entries : List Entry} {data : Bytes}
    (h : scan target fin entries = .ok data) :
    ∃ pre e post, entries = pre ++ e :: post ∧ (∀ x ∈ pre, x.name ≠ target) ∧ e.name = target ∧ e.data = data := by
  induction entries with
  | nil => simp only [scan] at h; split at h <;> cases h
  | cons e rest ih =>
    simp only [scan] at h
    by_cases hn : e.name = target
    · simp only [hn, if_true] at h
      split at h
      · cases h
      · simp only [Except.ok.injEq] at h
        exact ⟨[], e, rest, by simp, by simp, hn, h⟩
    · simp only [hn, if_false] at h
      obtain ⟨pre, e', post, rfl, h1, h2, h3⟩ := ih h
      refine ⟨e :: pre, e', post, by simp, ?_, h2, h3⟩
      intro x hx
      simp only [List.mem_cons] at hx
      rcases hx with rfl | hx
      · exact hn
      · exact h1 x hx

theorem scan_unknown {target : Bytes} {fin : ArchEnd} {entries : List Entry}
    (h : ∀ e ∈ entries, e.name ≠ target) :
    scan target fin entries = .error (if fin = .eof then .unsupported else .header) := by
  induction entries with
  | nil => simp only [scan]; cases fin <;> simp
  | cons e rest ih =>
    have hn : e.name ≠ target := h e (by simp)
    simp only [scan, hn, if_false]
    exact ih (fun x hx => h x (by simp [hx]))

end Mutagen.Model.Bundle
