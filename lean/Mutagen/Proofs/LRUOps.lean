import Mutagen.Proofs.LRU
/-!
C45: every cache operation preserves well-formedness and acts on the
represented most-recently-used list as the specification does.
-/
namespace Mutagen.Proofs.LRU
open Mutagen.Model.LRU

/-- The capacity-independent part of `Cache.WF`. -/
structure PtrWF (c : Cache) : Prop where
  nodup : c.order.Nodup
  alloc : ∀ id ∈ c.order, id < c.heap.length
  index : ∀ k id, mapGet c.index k = some id ↔ (id ∈ c.order ∧ (c.deref id).key = k)

theorem _root_.Mutagen.Model.LRU.Cache.WF.ptr {c : Cache} (h : c.WF) : PtrWF c := ⟨h.nodup, h.alloc, h.index⟩

theorem wf_unique (c : Cache) (h : PtrWF c) {k id : Nat} (hg : mapGet c.index k = some id) :
    id ∈ c.order ∧ (kv c.heap id).1 = k ∧ ∀ id' ∈ c.order, (kv c.heap id').1 = k → id' = id := by
  obtain ⟨hm, hk⟩ := (h.index k id).mp hg
  refine ⟨hm, hk, ?_⟩
  intro id' hm' hk'
  have := (h.index k id').mpr ⟨hm', hk'⟩
  rw [hg] at this
  exact (Option.some.inj this).symm

theorem wf_absent (c : Cache) (h : PtrWF c) {k : Nat} (hg : mapGet c.index k = none) :
    ∀ id' ∈ c.order, (kv c.heap id').1 ≠ k := by
  intro id' hm' hk'
  have := (h.index k id').mpr ⟨hm', hk'⟩
  rw [hg] at this
  simp at this

theorem new_wf (n : Int) : (new n).WF := by
  refine ⟨List.nodup_nil, by simp [new], ?_, by simp [new]; omega, by simp [new]⟩
  intro k id
  simp [new, mapGet]

/-! ### MoveToFront -/

theorem moveToFront_mem (order : List Nat) (id : Nat) (h : id ∈ order) :
    moveToFront order id = id :: order.erase id := by
  simp [moveToFront, h]

theorem mem_touch (order : List Nat) (hn : order.Nodup) (id : Nat) (hm : id ∈ order) (x : Nat) :
    x ∈ id :: order.erase id ↔ x ∈ order := by
  rw [List.mem_cons, hn.mem_erase_iff]
  constructor
  · rintro (rfl | ⟨_, hx⟩)
    · exact hm
    · exact hx
  · intro hx
    by_cases hxi : x = id
    · exact .inl hxi
    · exact .inr ⟨hxi, hx⟩

theorem length_touch (order : List Nat) (id : Nat) (hm : id ∈ order) :
    (id :: order.erase id).length = order.length := by
  rw [List.length_cons, List.length_erase_of_mem hm]
  have : 0 < order.length := List.length_pos_of_mem hm
  omega

theorem touch_wf (c : Cache) (h : c.WF) (id : Nat) (hm : id ∈ c.order) :
    ({ c with order := moveToFront c.order id } : Cache).WF := by
  rw [moveToFront_mem _ _ hm]
  have hmem := mem_touch c.order h.nodup id hm
  refine ⟨?_, ?_, ?_, ?_, ?_⟩
  · exact List.nodup_cons.mpr ⟨h.nodup.not_mem_erase, h.nodup.erase id⟩
  · intro x hx; exact h.alloc x ((hmem x).mp hx)
  · intro k x
    show mapGet c.index k = some x ↔ (x ∈ id :: c.order.erase id ∧ (c.deref x).key = k)
    rw [hmem x]; exact h.index k x
  · intro hp
    show ((id :: c.order.erase id).length : Int) ≤ c.maxEntries
    rw [length_touch _ _ hm]; exact h.capPos hp
  · intro hn
    have := h.capNeg hn
    rw [this] at hm; simp at hm

theorem touch_abs (c : Cache) (h : PtrWF c) (k id : Nat) (hg : mapGet c.index k = some id) :
    ({ c with order := moveToFront c.order id } : Cache).abs
      = kv c.heap id :: c.abs.filter (fun e => e.1 ≠ k) := by
  obtain ⟨hm, hk, hu⟩ := wf_unique c h hg
  rw [abs_eq, abs_eq]
  show (moveToFront c.order id).map (kv c.heap) = _
  rw [moveToFront_mem _ _ hm, List.map_cons, map_erase_unique (kv c.heap) k id c.order h.nodup hu hk]

/-! ### Get -/

theorem get_refines (c : Cache) (h : c.WF) (k : Nat) :
    (c.step (.get k)).1.WF ∧ ((c.step (.get k)).1.toSpec, (c.step (.get k)).2) = c.toSpec.step (.get k) := by
  cases hg : mapGet c.index k with
  | none =>
    have ha := wf_absent c h.ptr hg
    have hf := (find_absent (kv c.heap) k c.order ha).1
    simp only [Cache.step, Cache.get, hg, Spec.step, Cache.toSpec, abs_eq, hf]
    exact ⟨h, trivial⟩
  | some id =>
    obtain ⟨hm, hk, hu⟩ := wf_unique c h.ptr hg
    have hf := find_unique (kv c.heap) k id c.order hm hu hk
    have ht := touch_abs c h.ptr k id hg
    simp only [Cache.step, Cache.get, hg, Spec.step, Cache.toSpec]
    rw [abs_eq c, hf]
    refine ⟨touch_wf c h id hm, ?_⟩
    simp only [ht, abs_eq c]
    rfl

/-! ### removeElement, Remove -/

theorem removeElement_ptr (c : Cache) (h : PtrWF c) (id : Nat) (hm : id ∈ c.order) :
    PtrWF (c.removeElement id) := by
  have hmem : ∀ x, x ∈ c.order.erase id ↔ x ≠ id ∧ x ∈ c.order := fun x => h.nodup.mem_erase_iff
  refine ⟨h.nodup.erase id, ?_, ?_⟩
  · intro x hx; exact h.alloc x ((hmem x).mp hx).2
  · intro k x
    show mapGet (mapDelete c.index (c.deref id).key) k = some x ↔
      (x ∈ c.order.erase id ∧ (c.deref x).key = k)
    rw [mapGet_delete, hmem x]
    by_cases hk : k = (c.deref id).key
    · rw [if_pos hk]
      constructor
      · intro hf; simp at hf
      · rintro ⟨⟨hne, hx⟩, hkx⟩
        exfalso
        have h1 := (h.index k x).mpr ⟨hx, hkx⟩
        have h2 := (h.index k id).mpr ⟨hm, hk.symm⟩
        rw [h1] at h2
        exact hne (Option.some.inj h2)
    · rw [if_neg hk, h.index k x]
      constructor
      · rintro ⟨hx, hkx⟩
        refine ⟨⟨?_, hx⟩, hkx⟩
        intro hxi; subst hxi; exact hk hkx.symm
      · rintro ⟨⟨_, hx⟩, hkx⟩; exact ⟨hx, hkx⟩

theorem removeElement_abs (c : Cache) (h : PtrWF c) (id : Nat) (hm : id ∈ c.order) :
    (c.removeElement id).abs = c.abs.filter (fun e => e.1 ≠ (kv c.heap id).1) ∧
    (c.removeElement id).evicted = c.evicted ++ c.abs.filter (fun e => e.1 = (kv c.heap id).1) ∧
    (c.removeElement id).evicted = c.evicted ++ [kv c.heap id] ∧
    (c.removeElement id).maxEntries = c.maxEntries := by
  have hg := (h.index (kv c.heap id).1 id).mpr ⟨hm, rfl⟩
  obtain ⟨_, _, hu⟩ := wf_unique c h hg
  refine ⟨?_, ?_, rfl, rfl⟩
  · rw [abs_eq, abs_eq]
    exact map_erase_unique (kv c.heap) _ id c.order h.nodup hu rfl
  · rw [abs_eq, filter_eq_unique (kv c.heap) _ id c.order h.nodup hm hu rfl]
    rfl

theorem remove_refines (c : Cache) (h : c.WF) (k : Nat) :
    (c.step (.remove k)).1.WF ∧
    ((c.step (.remove k)).1.toSpec, (c.step (.remove k)).2) = c.toSpec.step (.remove k) := by
  cases hg : mapGet c.index k with
  | none =>
    have ha := wf_absent c h.ptr hg
    obtain ⟨_, hf1, hf2⟩ := find_absent (kv c.heap) k c.order ha
    simp only [Cache.step, Cache.remove, hg, Spec.step, Cache.toSpec, abs_eq, hf1, hf2, List.append_nil]
    exact ⟨h, trivial⟩
  | some id =>
    obtain ⟨hm, hk, _⟩ := wf_unique c h.ptr hg
    obtain ⟨a1, a2, _, a4⟩ := removeElement_abs c h.ptr id hm
    have hp := removeElement_ptr c h.ptr id hm
    rw [hk] at a1 a2
    simp only [Cache.step, Cache.remove, hg, Spec.step, Cache.toSpec]
    refine ⟨⟨hp.nodup, hp.alloc, hp.index, ?_, ?_⟩, ?_⟩
    · intro hpos
      have := h.capPos hpos
      have hl := List.length_erase_of_mem hm
      show ((c.order.erase id).length : Int) ≤ c.maxEntries
      omega
    · intro hn
      have := h.capNeg hn
      rw [this] at hm; simp at hm
    · rw [a1, a2, a4]

end Mutagen.Proofs.LRU
