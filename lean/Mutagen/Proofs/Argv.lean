import Mutagen.Model.Argv
/-!
Helper lemmas for C36 (core Lean only).
-/
namespace Mutagen.Proofs.Argv
open Mutagen.Model.URL Mutagen.Model.Argv

/-- What validity guarantees about the components of an SSH or Docker URL. -/
theorem valid_components {P : Platform} {u : URL} (h : ensureValid P u = .ok ())
    (hp : u.protocol = .ssh ∨ u.protocol = .docker) :
    u.host ≠ [] ∧ startsWithDash u.user = false ∧ startsWithDash u.host = false := by
  unfold ensureValid at h
  by_cases hk : u.kind = .unsupported
  · simp [hk] at h
  · rw [if_neg hk] at h
    cases hv : validComponents u with
    | error e => simp [hv] at h
    | ok _ =>
      unfold validComponents at hv
      rcases hp with hp | hp
      · simp only [hp] at hv
        by_cases h1 : u.host = []
        · simp [h1] at hv
        · by_cases h2 : u.port > 65535
          · simp [h1, h2] at hv
          · by_cases h3 : u.environment ≠ []
            · simp [h1, h2, h3] at hv
            · by_cases h4 : (startsWithDash u.user || startsWithDash u.host) = true
              · simp [h1, h2, h3, h4] at hv
              · simp only [Bool.or_eq_true, not_or, Bool.not_eq_true] at h4
                exact ⟨h1, h4.1, h4.2⟩
      · simp only [hp] at hv
        by_cases h1 : u.host = []
        · simp [h1] at hv
        · by_cases h2 : u.port ≠ 0
          · simp [h1, h2] at hv
          · by_cases h4 : (startsWithDash u.user || startsWithDash u.host) = true
            · simp [h1, h2, h4] at hv
            · simp only [Bool.or_eq_true, not_or, Bool.not_eq_true] at h4
              exact ⟨h1, h4.1, h4.2⟩

theorem startsWithDash_dash (s : Str) : startsWithDash ('-' :: s) = true := rfl

theorem startsWithDash_append {a : Str} (b : Str) (ha : a ≠ []) : startsWithDash (a ++ b) = startsWithDash a := by
  cases a with
  | nil => exact absurd rfl ha
  | cons c cs => cases hc : decide (c = '-') <;> simp_all [startsWithDash] <;> (split <;> simp_all)

/-- `[user@]host` does not look like an option when neither component does. -/
theorem sshTarget_no_dash {user host : Str} (_hh : host ≠ []) (hu : startsWithDash user = false)
    (hd : startsWithDash host = false) : startsWithDash (sshTarget user host) = false := by
  unfold sshTarget
  by_cases h : user = []
  · simp [h, hd]
  · simp only [ne_eq, h, not_false_eq_true, if_true]
    rw [startsWithDash_append _ h]; exact hu

theorem scpDestination_no_dash {user host : Str} (remoteName : Str) (hh : host ≠ []) (hu : startsWithDash user = false)
    (hd : startsWithDash host = false) : startsWithDash (scpDestination user host remoteName) = false := by
  unfold scpDestination
  by_cases h : user = []
  · simp only [h, ne_eq, not_true_eq_false, if_false]
    rw [startsWithDash_append _ hh]; exact hd
  · simp only [ne_eq, h, not_false_eq_true, if_true]
    rw [startsWithDash_append _ h]; exact hu

/-- The flags computed from URL parameters carry no URL component. -/
theorem daemonConnectionFlags_not_url {parameters : List (Str × Str)} {flags : List Arg}
    (h : daemonConnectionFlags parameters = .ok flags) : ∀ a ∈ flags, a.url = false := by
  unfold daemonConnectionFlags at h
  cases hf : parameters.findSome? checkParameter with
  | some e => simp [hf] at h
  | none =>
    simp only [hf] at h
    injection h with h
    subst h
    intro a ha
    simp only [List.mem_flatMap] at ha
    obtain ⟨name, _, ha⟩ := ha
    cases hl : lookup name parameters with
    | none => simp [hl] at ha
    | some v =>
      simp only [hl] at ha
      by_cases hs : switchParameters.contains name = true
      · rw [if_pos hs] at ha
        simp only [List.mem_singleton] at ha
        rw [ha]; rfl
      · rw [if_neg hs] at ha
        simp only [List.mem_cons, List.mem_nil_iff, or_false] at ha
        rcases ha with ha | ha <;> rw [ha] <;> rfl

/-! ## Reading vectors that start with daemon connection flags -/

/-- A block of arguments that a getopt/pflag reading takes as a unit: whatever follows, its
elements are read in the roles they were built for and the reading of the rest is unaffected. -/
def ReadAsIntended (block : List Arg) : Prop :=
  ∀ rest : List Str,
    interpretAux takesValue false (block.map (·.text) ++ rest) =
      block.map (·.role) ++ interpretAux takesValue false rest

theorem readAsIntended_nil : ReadAsIntended [] := by
  intro rest; simp

theorem readAsIntended_append {a b : List Arg} (ha : ReadAsIntended a) (hb : ReadAsIntended b) :
    ReadAsIntended (a ++ b) := by
  intro rest
  simp only [List.map_append, List.append_assoc]
  rw [ha, hb]

theorem readAsIntended_flatMap {α : Type} (l : List α) (f : α → List Arg) (h : ∀ x ∈ l, ReadAsIntended (f x)) :
    ReadAsIntended (l.flatMap f) := by
  induction l with
  | nil => exact readAsIntended_nil
  | cons x xs ih =>
    rw [List.flatMap_cons]
    exact readAsIntended_append (h x (by simp)) (ih (fun y hy => h y (by simp [hy])))

/-- A switch (`--tls`, `--tlsverify`, `--interactive`): an option that takes no value. -/
theorem readAsIntended_switch (name : Str) (h : takesValue ('-' :: '-' :: name) = false) :
    ReadAsIntended [optS ('-' :: '-' :: name)] := by
  intro rest
  simp [optS, interpretAux, startsWithDash_dash, h]

/-- An option with its separate value (`--host V`, `--user V`, …): the value is consumed
whatever it looks like. -/
theorem readAsIntended_valued (name : Str) (v : Arg) (hv : v.role = .value)
    (h : takesValue ('-' :: '-' :: name) = true) :
    ReadAsIntended [optS ('-' :: '-' :: name), v] := by
  intro rest
  simp [optS, interpretAux, startsWithDash_dash, h, hv]

/-- An operand that does not start with '-'. -/
theorem readAsIntended_operand (a : Arg) (hr : a.role = .operand) (h : startsWithDash a.text = false) :
    ReadAsIntended [a] := by
  intro rest
  simp [interpretAux, h, hr]

/-- **The daemon connection flags are read as intended**: the flags Mutagen computes from the URL
parameters (`--config V`, `--host V`, `--context V`, `--tls`, `--tlscacert V`, `--tlscert V`,
`--tlskey V`, `--tlsverify`) are options with their values, whatever the parameter values are. -/
theorem daemonConnectionFlags_readAsIntended {parameters : List (Str × Str)} {flags : List Arg}
    (h : daemonConnectionFlags parameters = .ok flags) : ReadAsIntended flags := by
  unfold daemonConnectionFlags at h
  cases hf : parameters.findSome? checkParameter with
  | some e => simp [hf] at h
  | none =>
    simp only [hf] at h
    injection h with h
    subst h
    apply readAsIntended_flatMap
    intro name hname
    cases hl : lookup name parameters with
    | none => exact readAsIntended_nil
    | some v =>
      simp only
      have hcases : name = "config".toList ∨ name = "host".toList ∨ name = "context".toList ∨ name = "tls".toList ∨
          name = "tlscacert".toList ∨ name = "tlscert".toList ∨ name = "tlskey".toList ∨ name = "tlsverify".toList := by
        simpa [flagOrder] using hname
      rcases hcases with rfl | rfl | rfl | rfl | rfl | rfl | rfl | rfl
      · rw [if_neg (by decide)]; exact readAsIntended_valued _ _ rfl (by decide)
      · rw [if_neg (by decide)]; exact readAsIntended_valued _ _ rfl (by decide)
      · rw [if_neg (by decide)]; exact readAsIntended_valued _ _ rfl (by decide)
      · rw [if_pos (by decide)]; exact readAsIntended_switch _ (by decide)
      · rw [if_neg (by decide)]; exact readAsIntended_valued _ _ rfl (by decide)
      · rw [if_neg (by decide)]; exact readAsIntended_valued _ _ rfl (by decide)
      · rw [if_neg (by decide)]; exact readAsIntended_valued _ _ rfl (by decide)
      · rw [if_pos (by decide)]; exact readAsIntended_switch _ (by decide)

/-- A list of operands none of which starts with '-'. -/
theorem readAsIntended_operands (ws : List Str) (h : ∀ w ∈ ws, startsWithDash w = false) :
    ReadAsIntended (ws.map operand) := by
  induction ws with
  | nil => exact readAsIntended_nil
  | cons w ws ih =>
    have : (w :: ws).map operand = [operand w] ++ ws.map operand := rfl
    rw [this]
    exact readAsIntended_append (readAsIntended_operand _ rfl (h w (by simp)))
      (ih (fun x hx => h x (by simp [hx])))

/-- A whole vector made of such blocks is read as intended. -/
theorem interpret_of_readAsIntended {argv : List Arg} (h : ReadAsIntended argv) :
    interpret takesValue (argv.map (·.text)) = argv.map (·.role) := by
  have := h []
  simpa [interpret, interpretAux] using this

/-! ## The same for a parser that stops at its n-th operand -/

/-- A block of options (and their values) under `interpretUntil`: read as built, no operand consumed. -/
def OptionsReadAsIntended (block : List Arg) : Prop :=
  ∀ (n : Nat) (rest : List Str),
    interpretUntil takesValue (n + 1) false (block.map (·.text) ++ rest) =
      block.map (·.role) ++ interpretUntil takesValue (n + 1) false rest

theorem optionsRead_nil : OptionsReadAsIntended [] := by
  intro n rest; simp

theorem optionsRead_append {a b : List Arg} (ha : OptionsReadAsIntended a) (hb : OptionsReadAsIntended b) :
    OptionsReadAsIntended (a ++ b) := by
  intro n rest
  simp only [List.map_append, List.append_assoc]
  rw [ha, hb]

theorem optionsRead_flatMap {α : Type} (l : List α) (f : α → List Arg) (h : ∀ x ∈ l, OptionsReadAsIntended (f x)) :
    OptionsReadAsIntended (l.flatMap f) := by
  induction l with
  | nil => exact optionsRead_nil
  | cons x xs ih =>
    rw [List.flatMap_cons]
    exact optionsRead_append (h x (by simp)) (ih (fun y hy => h y (by simp [hy])))

theorem optionsRead_switch (name : Str) (h : takesValue ('-' :: '-' :: name) = false) :
    OptionsReadAsIntended [optS ('-' :: '-' :: name)] := by
  intro n rest
  simp [optS, interpretUntil, startsWithDash_dash, h]

theorem optionsRead_valued (name : Str) (v : Arg) (hv : v.role = .value)
    (h : takesValue ('-' :: '-' :: name) = true) :
    OptionsReadAsIntended [optS ('-' :: '-' :: name), v] := by
  intro n rest
  simp [optS, interpretUntil, startsWithDash_dash, h, hv]

theorem daemonConnectionFlags_optionsRead {parameters : List (Str × Str)} {flags : List Arg}
    (h : daemonConnectionFlags parameters = .ok flags) : OptionsReadAsIntended flags := by
  unfold daemonConnectionFlags at h
  cases hf : parameters.findSome? checkParameter with
  | some e => simp [hf] at h
  | none =>
    simp only [hf] at h
    injection h with h
    subst h
    apply optionsRead_flatMap
    intro name hname
    cases hl : lookup name parameters with
    | none => exact optionsRead_nil
    | some v =>
      simp only
      have hcases : name = "config".toList ∨ name = "host".toList ∨ name = "context".toList ∨ name = "tls".toList ∨
          name = "tlscacert".toList ∨ name = "tlscert".toList ∨ name = "tlskey".toList ∨ name = "tlsverify".toList := by
        simpa [flagOrder] using hname
      rcases hcases with rfl | rfl | rfl | rfl | rfl | rfl | rfl | rfl
      · rw [if_neg (by decide)]; exact optionsRead_valued _ _ rfl (by decide)
      · rw [if_neg (by decide)]; exact optionsRead_valued _ _ rfl (by decide)
      · rw [if_neg (by decide)]; exact optionsRead_valued _ _ rfl (by decide)
      · rw [if_pos (by decide)]; exact optionsRead_switch _ (by decide)
      · rw [if_neg (by decide)]; exact optionsRead_valued _ _ rfl (by decide)
      · rw [if_neg (by decide)]; exact optionsRead_valued _ _ rfl (by decide)
      · rw [if_neg (by decide)]; exact optionsRead_valued _ _ rfl (by decide)
      · rw [if_pos (by decide)]; exact optionsRead_switch _ (by decide)

/-- Once the last operand has been seen, everything is an operand. -/
theorem interpretUntil_zero (b : Bool) (ws : List Str) :
    interpretUntil takesValue 0 b ws = ws.map fun _ => Role.operand := by
  induction ws generalizing b with
  | nil => simp [interpretUntil]
  | cons w ws ih => simp [interpretUntil, ih]

/-- An operand that does not start with '-' uses up one of the parser's operand slots. -/
theorem interpretUntil_operand (n : Nat) (a : Str) (rest : List Str) (h : startsWithDash a = false) :
    interpretUntil takesValue (n + 1) false (a :: rest) = .operand :: interpretUntil takesValue n false rest := by
  simp [interpretUntil, h]

end Mutagen.Proofs.Argv
