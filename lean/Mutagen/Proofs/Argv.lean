import Mutagen.Model.Argv
/-!
Helper lemmas for C36 (core Lean only).
-/
namespace Mutagen.Proofs.Argv
open Mutagen.Model.URL Mutagen.Model.Argv

/-- What validity guarantees about the components of an SSH or Docker URL. -/
theorem valid_components {P : Platform} {u : URL} (h : ensureValid P u = .ok ())
    (hp : u.protocol = .ssh ∨ u.protocol = .docker) :
    u.host ≠ [] ∧ startsWithDash u.user = false ∧ startsWithDash u.host = false := by
  unfold ensureValid at h
  by_cases hk : u.kind = .unsupported
  · simp [hk] at h
  · rw [if_neg hk] at h
    cases hv : validComponents u with
    | error e => simp [hv] at h
    | ok _ =>
      unfold validComponents at hv
      rcases hp with hp | hp
      · simp only [hp] at hv
        by_cases h1 : u.host = []
        · simp [h1] at hv
        · by_cases h2 : u.port > 65535
          · simp [h1, h2] at hv
          · by_cases h3 : u.environment ≠ []
            · simp [h1, h2, h3] at hv
            · by_cases h4 : (startsWithDash u.user || startsWithDash u.host) = true
              · simp [h1, h2, h3, h4] at hv
              · simp only [Bool.or_eq_true, not_or, Bool.not_eq_true] at h4
                exact ⟨h1, h4.1, h4.2⟩
      · simp only [hp] at hv
        by_cases h1 : u.host = []
        · simp [h1] at hv
        · by_cases h2 : u.port ≠ 0
          · simp [h1, h2] at hv
          · by_cases h4 : (startsWithDash u.user || startsWithDash u.host) = true
            · simp [h1, h2, h4] at hv
            · simp only [Bool.or_eq_true, not_or, Bool.not_eq_true] at h4
              exact ⟨h1, h4.1, h4.2⟩

theorem startsWithDash_dash (s : Str) : startsWithDash ('-' :: s) = true := rfl

theorem startsWithDash_append {a : Str} (b : Str) (ha : a ≠ []) : startsWithDash (a ++ b) = startsWithDash a := by
  cases a with
  | nil => exact absurd rfl ha
  | cons c cs => cases hc : decide (c = '-') <;> simp_all [startsWithDash] <;> (split <;> simp_all)

/-- `[user@]host` does not look like an option when neither component does. -/
theorem sshTarget_no_dash {user host : Str} (_hh : host ≠ []) (hu : startsWithDash user = false)
    (hd : startsWithDash host = false) : startsWithDash (sshTarget user host) = false := by
  unfold sshTarget
  by_cases h : user = []
  · simp [h, hd]
  · simp only [ne_eq, h, not_false_eq_true, if_true]
    rw [startsWithDash_append _ h]; exact hu

theorem scpDestination_no_dash {user host : Str} (remoteName : Str) (hh : host ≠ []) (hu : startsWithDash user = false)
    (hd : startsWithDash host = false) : startsWithDash (scpDestination user host remoteName) = false := by
  unfold scpDestination
  by_cases h : user = []
  · simp only [h, ne_eq, not_true_eq_false, if_false]
    rw [startsWithDash_append _ hh]; exact hd
  · simp only [ne_eq, h, not_false_eq_true, if_true]
    rw [startsWithDash_append _ h]; exact hu

/-- The flags computed from URL parameters carry no URL component. -/
theorem daemonConnectionFlags_not_url {parameters : List (Str × Str)} {flags : List Arg}
    (h : daemonConnectionFlags parameters = .ok flags) : ∀ a ∈ flags, a.url = false := by
  unfold daemonConnectionFlags at h
  cases hf : parameters.findSome? checkParameter with
  | some e => simp [hf] at h
  | none =>
    simp only [hf] at h
    injection h with h
    subst h
    intro a ha
    simp only [List.mem_flatMap] at ha
    obtain ⟨name, _, ha⟩ := ha
    cases hl : lookup name parameters with
    | none => simp [hl] at ha
    | some v =>
      simp only [hl] at ha
      by_cases hs : switchParameters.contains name = true
      · rw [if_pos hs] at ha
        simp only [List.mem_singleton] at ha
        rw [ha]; rfl
      · rw [if_neg hs] at ha
        simp only [List.mem_cons, List.mem_nil_iff, or_false] at ha
        rcases ha with ha | ha <;> rw [ha] <;> rfl

end Mutagen.Proofs.Argv
