import Mutagen.Proofs.Entry
/-!
Helper lemmas for `Apply` and `Diff` (C07, reused by C04/C05):

* `applyAt_spec` / `applyChange_spec`: one change of `Apply`, described by the
  scalar fields found at every path of the result (`pget`);
* `apply_diff_spec`: applying `diff path x y` to a tree that looks like `x`
  at `path` makes it look like `y` there and leaves everything else alone;
* `apply_nodupKeys`: `Apply` keeps content maps duplicate-free;
* `deepEq_of_pget`: two duplicate-free trees with the same scalar fields at
  every path are `Equal(deep)`.
-/
namespace Mutagen.Model

theorem pget_nil (e : Option Entry) : pget e [] = e.map Entry.props := rfl

theorem pget_some_cons (e : Entry) (n : Name) (q : Path) :
    pget (some e) (n :: q) = pget (lookup n e.children) q := rfl

theorem getPath_append (e : Option Entry) (p q : Path) : getPath e (p ++ q) = getPath (getPath e p) q := by
  induction p generalizing e with
  | nil => rfl
  | cons n p ih => simp [getPath, ih]

/-- Setting or deleting a map entry, as `Apply` does at the last component. -/
def setChild (n : Name) (v : Option Entry) (cs : Contents) : Contents :=
  match v with
  | none => erase n cs
  | some e => upsert n e cs

theorem lookup_setChild (k n : Name) (v : Option Entry) (cs : Contents) :
    lookup k (setChild n v cs) = if k = n then v else lookup k cs := by
  cases v <;> simp [setChild, lookup_erase, lookup_upsert]

/-- Semantics of one walk-and-set of `Apply` in terms of scalar fields at paths. -/
theorem applyAt_spec (new : Option Entry) (rest : List Name) :
    ∀ (e : Entry) (n : Name), (getPath (some e) ((n :: rest).dropLast)).isSome = true →
      ∃ e', e.applyAt new n rest = .ok e' ∧
        ∀ q, pget (some e') q =
          if (n :: rest) <+: q then pget new (q.drop (rest.length + 1)) else pget (some e) q := by
  induction rest with
  | nil =>
    intro e n _
    cases e with
    | mk p cs =>
      refine ⟨.mk p (setChild n new cs), ?_, ?_⟩
      · cases new <;> simp [Entry.applyAt, setChild]
      · intro q
        cases q with
        | nil => simp [pget, getPath, Entry.props]
        | cons k q' =>
          simp only [pget_some_cons, Entry.children, lookup_setChild, List.cons_prefix_cons,
            List.nil_prefix, and_true, List.length_nil, Nat.zero_add, List.drop_succ_cons, List.drop_zero]
          by_cases hk : k = n
          · simp [hk]
          · have : ¬ n = k := fun h => hk h.symm
            simp [hk, this]
  | cons m rest ih =>
    intro e n hpar
    cases e with
    | mk p cs =>
      simp only [List.dropLast_cons_cons, getPath, contents, Entry.children] at hpar
      cases hl : lookup n cs with
      | none => simp [hl] at hpar
      | some c =>
        rw [hl] at hpar
        obtain ⟨c', hc1, hc2⟩ := ih c m hpar
        refine ⟨.mk p (upsert n c' cs), ?_, ?_⟩
        · simp [Entry.applyAt, hl, hc1]
        · intro q
          cases q with
          | nil => simp [pget, getPath, Entry.props]
          | cons k q' =>
            simp only [pget_some_cons, Entry.children, lookup_upsert, List.cons_prefix_cons,
              List.length_cons, List.drop_succ_cons]
            by_cases hk : k = n
            · subst hk
              simp only [↓reduceIte, true_and, hc2 q', hl]
            · have : ¬ n = k := fun h => hk h.symm
              simp [hk, this]


theorem getPath_isSome_iff_pget (e : Option Entry) (q : Path) :
    (getPath e q).isSome = (pget e q).isSome := by simp [pget]

/-- Semantics of one loop iteration of `Apply`. -/
theorem applyChange_spec (r : Option Entry) (c : Change)
    (hpar : c.path = [] ∨ (pget r c.path.dropLast).isSome = true) :
    ∃ r', applyChange r c = .ok r' ∧
      ∀ q, pget r' q = if c.path <+: q then pget c.new (q.drop c.path.length) else pget r q := by
  unfold applyChange
  cases hp : c.path with
  | nil => exact ⟨c.new, rfl, fun q => by simp⟩
  | cons n rest =>
    rw [hp] at hpar
    rcases hpar with h | h
    · cases h
    · cases r with
      | none => simp at h
      | some e =>
        rw [← getPath_isSome_iff_pget] at h
        obtain ⟨e', h1, h2⟩ := applyAt_spec c.new rest e n h
        exact ⟨some e', by simp [h1], fun q => by simpa using h2 q⟩

theorem apply_append (r : Option Entry) (a b : List Change) :
    apply r (a ++ b) = match apply r a with
      | .error e => .error e
      | .ok r' => apply r' b := by
  induction a generalizing r with
  | nil => simp [apply]
  | cons c a ih =>
    simp only [List.cons_append, apply]
    cases applyChange r c with
    | error e => simp
    | ok r1 => simpa using ih r1


/-- Scalar fields after everything strictly below `path` through one of the
names `ns` has been replaced by the corresponding part of `yc`. -/
def ovr (path : Path) (ns : List Name) (yc : Contents) (r : Option Entry) (q : Path) : Option Props :=
  if path <+: q then
    match q.drop path.length with
    | n :: q' => if n ∈ ns then pget (lookup n yc) q' else pget r q
    | [] => pget r q
  else pget r q

theorem not_prefix_of_not_prefix {path q : Path} (n : Name) (h : ¬ path <+: q) : ¬ (path ++ [n]) <+: q :=
  fun h' => h ((List.prefix_append path [n]).trans h')

theorem not_snoc_prefix_self (path : Path) (n : Name) : ¬ (path ++ [n]) <+: path := by
  intro h
  have := h.length_le
  simp at this
  omega

theorem apply_children (path : Path) (xc yc : Contents) (ns : List Name) (hnd : ns.Nodup)
    (ih : ∀ n ∈ ns, ∀ r, (pget r path).isSome = true →
      (∀ q, pget r (path ++ n :: q) = pget (lookup n xc) q) →
      ∃ r', apply r (diff (path ++ [n]) (lookup n xc) (lookup n yc)) = .ok r' ∧
        ∀ q, pget r' q = if (path ++ [n]) <+: q then pget (lookup n yc) (q.drop (path.length + 1))
          else pget r q) :
    ∀ r, (pget r path).isSome = true →
      (∀ n ∈ ns, ∀ q, pget r (path ++ n :: q) = pget (lookup n xc) q) →
      ∃ r', apply r (ns.flatMap fun n => diff (path ++ [n]) (lookup n xc) (lookup n yc)) = .ok r' ∧
        ∀ q, pget r' q = ovr path ns yc r q := by
  induction ns with
  | nil =>
    intro r _ _
    refine ⟨r, by simp [apply], fun q => ?_⟩
    unfold ovr
    split
    · split <;> simp
    · rfl
  | cons n ns ihns =>
    intro r hpar hx
    have hnd' := List.nodup_cons.mp hnd
    obtain ⟨r1, h1, h1q⟩ := ih n (by simp) r hpar (hx n (by simp))
    have hpar1 : (pget r1 path).isSome = true := by
      rw [h1q path]
      simp [not_snoc_prefix_self path n, hpar]
    have hx1 : ∀ m ∈ ns, ∀ q, pget r1 (path ++ m :: q) = pget (lookup m xc) q := by
      intro m hm q
      rw [h1q]
      have hne : ¬ n = m := fun h => hnd'.1 (h ▸ hm)
      have : ¬ (path ++ [n]) <+: (path ++ m :: q) := by
        rw [List.prefix_append_right_inj]
        simp [hne]
      simp only [this, ↓reduceIte]
      exact hx m (by simp [hm]) q
    obtain ⟨r2, h2, h2q⟩ := ihns hnd'.2 (fun m hm => ih m (by simp [hm])) r1 hpar1 hx1
    refine ⟨r2, ?_, ?_⟩
    · simp only [List.flatMap_cons]
      rw [apply_append, h1]
      exact h2
    · intro q
      rw [h2q]
      unfold ovr
      by_cases hp : path <+: q
      · obtain ⟨t, rfl⟩ := hp
        simp only [List.prefix_append, ↓reduceIte, List.drop_left]
        cases t with
        | nil =>
          simp only
          rw [h1q]
          simp [not_snoc_prefix_self path n]
        | cons m t' =>
          simp only [List.mem_cons]
          by_cases hm : m ∈ ns
          · simp [hm]
          · simp only [hm, ↓reduceIte, or_false]
            rw [h1q]
            by_cases hmn : m = n
            · subst hmn
              have : (path ++ [m]) <+: (path ++ m :: t') := by
                rw [List.prefix_append_right_inj]; simp
              simp [this]
            · have : ¬ (path ++ [n]) <+: (path ++ m :: t') := by
                rw [List.prefix_append_right_inj]
                simp only [List.cons_prefix_cons, List.nil_prefix, and_true]
                exact fun h => hmn h.symm
              simp [this, hmn]
      · simp only [hp, ↓reduceIte]
        rw [h1q]
        simp [not_prefix_of_not_prefix n hp]


theorem pget_shallowEq {x y : Option Entry} (h : shallowEq y x = true) : pget x [] = pget y [] := by
  cases x <;> cases y <;> simp_all [shallowEq, pget, getPath]

theorem pget_cons (e : Option Entry) (n : Name) (q : Path) :
    pget e (n :: q) = pget (lookup n (contents e)) q := rfl

/-- Applying `diff path x y` to a tree `r` that looks like `x` at `path` (and
in which the parent of `path` exists) succeeds, and turns it into a tree that
looks like `y` at and below `path` and is unchanged elsewhere. -/
theorem apply_diff_spec (path : Path) (x y : Option Entry) :
    ∀ r, (path = [] ∨ (pget r path.dropLast).isSome = true) →
      (∀ q, pget r (path ++ q) = pget x q) →
      ∃ r', apply r (diff path x y) = .ok r' ∧
        ∀ q, pget r' q = if path <+: q then pget y (q.drop path.length) else pget r q := by
  fun_induction diff path x y with
  | case1 path base target hne =>
    intro r hpar _
    obtain ⟨r', h1, h2⟩ := applyChange_spec r { path := path, old := base, new := target } hpar
    exact ⟨r', by simp [apply, h1], h2⟩
  | case2 path base target heq ih =>
    intro r hpar hx
    rw [flatMap_attach_val _
      (fun n => diff (path ++ [n]) (lookup n (contents base)) (lookup n (contents target)))]
    have heq' : shallowEq target base = true := by simpa using heq
    have hnode : pget r path = pget base [] := by simpa using hx []
    -- Either both sides are absent here (nothing to do) or the node exists in `r`.
    cases base with
    | none =>
      have ht : target = none := by
        cases target with
        | none => rfl
        | some t => simp [shallowEq] at heq'
      subst ht
      refine ⟨r, by simp [contents, nameUnion, keys, dedup, apply], fun q => ?_⟩
      split
      · rename_i hp
        obtain ⟨t, rfl⟩ := hp
        simp [hx t]
      · rfl
    | some b =>
      have hsome : (pget r path).isSome = true := by rw [hnode]; simp [pget, getPath]
      have ihn : ∀ n ∈ nameUnion [contents (some b), contents target], ∀ r, (pget r path).isSome = true →
          (∀ q, pget r (path ++ n :: q) = pget (lookup n (contents (some b))) q) →
          ∃ r', apply r (diff (path ++ [n]) (lookup n (contents (some b))) (lookup n (contents target))) = .ok r' ∧
            ∀ q, pget r' q = if (path ++ [n]) <+: q
              then pget (lookup n (contents target)) (q.drop (path.length + 1)) else pget r q := by
        intro n hn r hs hxn
        have := ih ⟨n, hn⟩ r (Or.inr (by simpa using hs)) (fun q => by simpa using hxn q)
        simpa using this
      obtain ⟨r', h1, h2⟩ := apply_children path (contents (some b)) (contents target) _ (nodup_nameUnion _)
        ihn r hsome (fun n _ q => by rw [hx (n :: q), pget_cons])
      refine ⟨r', h1, fun q => ?_⟩
      rw [h2 q]
      unfold ovr
      split
      · rename_i hp
        obtain ⟨t, rfl⟩ := hp
        simp only [List.drop_left]
        cases t with
        | nil => simp only; rw [List.append_nil, hnode, pget_shallowEq heq']
        | cons n t' =>
          simp only
          split
          · rw [pget_cons]
          · rename_i hn
            rw [hx (n :: t'), pget_cons, pget_cons]
            have hn1 : n ∉ keys (contents (some b)) :=
              fun h => hn (mem_nameUnion.mpr ⟨contents (some b), by simp, h⟩)
            have hn2 : n ∉ keys (contents target) :=
              fun h => hn (mem_nameUnion.mpr ⟨contents target, by simp, h⟩)
            rw [lookup_eq_none_iff.mpr hn1, lookup_eq_none_iff.mpr hn2]
      · rfl



/-! ## `NodupKeys` is preserved by `apply` -/

theorem Entry.nodupKeysL_upsert {cs : Contents} {n : Name} {c : Entry}
    (h : Entry.nodupKeysL cs = true) (hc : c.nodupKeys = true) : Entry.nodupKeysL (upsert n c cs) = true := by
  induction cs with
  | nil => simp [upsert, Entry.nodupKeysL, hc]
  | cons hd t ih =>
    obtain ⟨m, d⟩ := hd
    simp only [Entry.nodupKeysL, Bool.and_eq_true] at h
    simp only [upsert]
    split
    · simp [Entry.nodupKeysL, hc, h.2]
    · simp [Entry.nodupKeysL, h.1, ih h.2]

theorem Entry.nodupKeysL_erase {cs : Contents} {n : Name}
    (h : Entry.nodupKeysL cs = true) : Entry.nodupKeysL (erase n cs) = true := by
  induction cs with
  | nil => simp [erase, Entry.nodupKeysL]
  | cons hd t ih =>
    obtain ⟨m, d⟩ := hd
    simp only [Entry.nodupKeysL, Bool.and_eq_true] at h
    simp only [erase]
    split
    · exact ih h.2
    · simp [Entry.nodupKeysL, h.1, ih h.2]

theorem Entry.nodupKeys_mk_iff {p : Props} {cs : Contents} :
    (Entry.mk p cs).nodupKeys = true ↔ (keys cs).Nodup ∧ Entry.nodupKeysL cs = true := by
  simp [Entry.nodupKeys]

theorem applyAt_nodupKeys (new : Option Entry) (hnew : onodupKeys new = true) (rest : List Name) :
    ∀ (e : Entry) (n : Name) (e' : Entry), e.nodupKeys = true → e.applyAt new n rest = .ok e' →
      e'.nodupKeys = true := by
  induction rest with
  | nil =>
    intro e n e' he h
    cases e with
    | mk p cs =>
      have hk := Entry.nodupKeys_mk_iff.mp he
      cases new with
      | none =>
        simp only [Entry.applyAt, Except.ok.injEq] at h
        subst h
        exact Entry.nodupKeys_mk_iff.mpr ⟨nodup_keys_erase hk.1, Entry.nodupKeysL_erase hk.2⟩
      | some v =>
        simp only [Entry.applyAt, Except.ok.injEq] at h
        subst h
        exact Entry.nodupKeys_mk_iff.mpr ⟨nodup_keys_upsert hk.1, Entry.nodupKeysL_upsert hk.2 hnew⟩
  | cons m rest ih =>
    intro e n e' he h
    cases e with
    | mk p cs =>
      have hk := Entry.nodupKeys_mk_iff.mp he
      simp only [Entry.applyAt] at h
      cases hl : lookup n cs with
      | none => simp [hl] at h
      | some c =>
        simp only [hl] at h
        cases hr : Entry.applyAt new c m rest with
        | error err => simp [hr] at h
        | ok c' =>
          simp only [hr, Except.ok.injEq] at h
          subst h
          have hc' := ih c m c' (Entry.nodupKeysL_lookup hk.2 hl) hr
          exact Entry.nodupKeys_mk_iff.mpr ⟨nodup_keys_upsert hk.1, Entry.nodupKeysL_upsert hk.2 hc'⟩

theorem applyChange_nodupKeys {r r' : Option Entry} {c : Change} (hr : onodupKeys r = true)
    (hc : onodupKeys c.new = true) (h : applyChange r c = .ok r') : onodupKeys r' = true := by
  unfold applyChange at h
  cases hp : c.path with
  | nil => simp only [hp, Except.ok.injEq] at h; subst h; exact hc
  | cons n rest =>
    simp only [hp] at h
    cases r with
    | none => simp at h
    | some e =>
      simp only at h
      cases ha : e.applyAt c.new n rest with
      | error err => simp [ha] at h
      | ok e' =>
        simp only [ha, Except.ok.injEq] at h
        subst h
        exact applyAt_nodupKeys c.new hc rest e n e' hr ha

theorem apply_nodupKeys {r r' : Option Entry} {cs : List Change} (hr : onodupKeys r = true)
    (hc : ∀ c ∈ cs, onodupKeys c.new = true) (h : apply r cs = .ok r') : onodupKeys r' = true := by
  induction cs generalizing r with
  | nil => simp only [apply, Except.ok.injEq] at h; subst h; exact hr
  | cons c cs ih =>
    simp only [apply] at h
    cases h1 : applyChange r c with
    | error err => simp [h1] at h
    | ok r1 =>
      simp only [h1] at h
      exact ih (applyChange_nodupKeys hr (hc c (by simp)) h1) (fun d hd => hc d (by simp [hd])) h

theorem onodupKeys_lookup_contents {y : Option Entry} (h : onodupKeys y = true) (n : Name) :
    onodupKeys (lookup n (contents y)) = true := by
  cases y with
  | none => simp [contents, lookup, onodupKeys]
  | some e =>
    cases e with
    | mk p cs =>
      cases hl : lookup n cs with
      | none => simp [contents, Entry.children, hl, onodupKeys]
      | some c =>
        simp only [contents, Entry.children, hl, onodupKeys]
        exact Entry.nodupKeysL_lookup (Entry.nodupKeys_mk_iff (p := p).mp h).2 hl

theorem diff_new_nodupKeys (path : Path) (x y : Option Entry) (hy : onodupKeys y = true) :
    ∀ c ∈ diff path x y, onodupKeys c.new = true := by
  fun_induction diff path x y with
  | case1 path base target _ => intro c hc; simp at hc; subst hc; exact hy
  | case2 path base target _ ih =>
    intro c hc
    simp only [List.mem_flatMap, List.mem_attach, true_and] at hc
    obtain ⟨n, hc⟩ := hc
    exact ih n (onodupKeys_lookup_contents hy n.1) c hc

/-! ## Extensionality: trees with the same scalar fields at every path are `Equal` -/

theorem lookup_of_mem_nodup {cs : Contents} (h : (keys cs).Nodup) {n : Name} {c : Entry} (hm : (n, c) ∈ cs) :
    lookup n cs = some c := by
  induction cs with
  | nil => cases hm
  | cons hd t ih =>
    obtain ⟨m, d⟩ := hd
    simp only [keys, List.map_cons, List.nodup_cons] at h
    simp only [lookup]
    rcases List.mem_cons.mp hm with heq | hmem
    · cases heq; simp
    · split
      · rename_i hmn
        subst hmn
        exact absurd (List.mem_map.mpr ⟨(m, c), hmem, rfl⟩) h.1
      · exact ih h.2 hmem

mutual
theorem Entry.equal_of_pget (a b : Entry) (ha : a.nodupKeys = true) (hb : b.nodupKeys = true)
    (h : ∀ q, pget (some a) q = pget (some b) q) : a.equal b = true :=
  match a with
  | .mk p cs => by
    cases b with
    | mk po ocs =>
      have hka := Entry.nodupKeys_mk_iff.mp ha
      have hkb := Entry.nodupKeys_mk_iff.mp hb
      have hp : p = po := by simpa [pget, getPath, Entry.props] using h []
      have hchild : ∀ n q, pget (lookup n cs) q = pget (lookup n ocs) q := fun n q => h (n :: q)
      have hkeys : ∀ n, n ∈ keys cs ↔ n ∈ keys ocs := by
        intro n
        rw [← lookup_isSome_iff, ← lookup_isSome_iff]
        have := hchild n []
        simp only [pget, getPath] at this
        cases h1 : lookup n cs <;> cases h2 : lookup n ocs <;> simp_all
      have hlen : cs.length = ocs.length := by
        have := ((List.perm_ext_iff_of_nodup hka.1 hkb.1).mpr hkeys).length_eq
        simpa [keys] using this
      have hL := Entry.equalL_of_pget cs ocs hka.2 hkb.2 (fun n c hm => by
        have hl := lookup_of_mem_nodup hka.1 hm
        have := hchild n
        rw [hl] at this
        cases h2 : lookup n ocs with
        | none => have := this []; simp [h2, pget, getPath] at this
        | some oc => exact ⟨oc, rfl, fun q => by rw [this q, h2]⟩)
      simp [Entry.equal, hp, Entry.props, Entry.children, hlen, hL]
theorem Entry.equalL_of_pget (cs ocs : Contents) (hcs : Entry.nodupKeysL cs = true)
    (hocs : Entry.nodupKeysL ocs = true)
    (h : ∀ n c, (n, c) ∈ cs → ∃ oc, lookup n ocs = some oc ∧ ∀ q, pget (some c) q = pget (some oc) q) :
    Entry.equalL cs ocs = true :=
  match cs with
  | [] => by simp [Entry.equalL]
  | (n, c) :: r => by
    simp only [Entry.nodupKeysL, Bool.and_eq_true] at hcs
    obtain ⟨oc, hl, hq⟩ := h n c (by simp)
    have h1 := Entry.equal_of_pget c oc hcs.1 (Entry.nodupKeysL_lookup hocs hl) hq
    have h2 := Entry.equalL_of_pget r ocs hcs.2 hocs (fun m d hm => h m d (by simp [hm]))
    simp [Entry.equalL, hl, h1, h2]
end

theorem deepEq_of_pget (a b : Option Entry) (ha : onodupKeys a = true) (hb : onodupKeys b = true)
    (h : ∀ q, pget a q = pget b q) : deepEq a b = true := by
  cases a with
  | none =>
    cases b with
    | none => rfl
    | some b => have := h []; simp [pget, getPath] at this
  | some a =>
    cases b with
    | none => have := h []; simp [pget, getPath] at this
    | some b => exact Entry.equal_of_pget a b ha hb h

end Mutagen.Model
