import Mutagen.Model.ScanFS
/-!
Root-relative path strings as the scanner builds them (`fastpath.Joinable(path)
+ name`): the paths of two different entries of one directory, and everything
below them, are different strings — provided names contain no `/` and are not
empty.
-/
namespace Mutagen.Proofs.ScanPaths
open Mutagen.Model Mutagen.Model.ScanFS

def slashFree (s : String) : Prop := '/' ∉ s.toList

/-- A suffix that keeps a path "at or below" its prefix: nothing, or `/…`. -/
def Tail (s : String) : Prop := s = "" ∨ s.toList.head? = some '/'

/-- `q` is the path `p` or a path below it. -/
def Under (q p : String) : Prop := ∃ s : String, q = p ++ s ∧ Tail s

theorem under_refl (p : String) : Under p p := ⟨"", by simp, Or.inl rfl⟩

theorem list_split_unique : ∀ (a a' s s' : List Char), '/' ∉ a → '/' ∉ a' →
    (s = [] ∨ s.head? = some '/') → (s' = [] ∨ s'.head? = some '/') → a ++ s = a' ++ s' → a = a'
  | [], [], _, _, _, _, _, _, _ => rfl
  | [], c :: a', s, s', _, ha', hs, _, h => by
    exfalso
    simp only [List.nil_append] at h
    rcases hs with rfl | hs
    · cases h
    · rw [h] at hs
      simp at hs
      exact ha' (by simp [hs])
  | c :: a, [], s, s', ha, _, _, hs', h => by
    exfalso
    simp only [List.nil_append] at h
    rcases hs' with rfl | hs'
    · cases h
    · rw [← h] at hs'
      simp at hs'
      exact ha (by simp [hs'])
  | c :: a, c' :: a', s, s', ha, ha', hs, hs', h => by
    simp only [List.cons_append, List.cons.injEq] at h
    obtain ⟨rfl, h⟩ := h
    have := list_split_unique a a' s s' (fun hm => ha (by simp [hm])) (fun hm => ha' (by simp [hm])) hs hs' h
    rw [this]

/-- Two slash-free names whose extensions (below the same prefix) coincide are equal. -/
theorem under_same_name (pfx n n' q : String) (hn : slashFree n) (hn' : slashFree n')
    (h : Under q (pfx ++ n)) (h' : Under q (pfx ++ n')) : n = n' := by
  obtain ⟨s, hq, hs⟩ := h
  obtain ⟨s', hq', hs'⟩ := h'
  rw [hq] at hq'
  have hl := congrArg String.toList hq'
  simp only [String.toList_append, List.append_assoc, List.append_cancel_left_eq] at hl
  have conv : ∀ t : String, Tail t → (t.toList = [] ∨ t.toList.head? = some '/') := by
    intro t ht
    rcases ht with rfl | ht
    · left; simp
    · right; exact ht
  exact String.toList_injective (list_split_unique _ _ _ _ hn hn' (conv s hs) (conv s' hs') hl)

/-- Below `p ++ "/" ++ n ++ …` is below `p`. -/
theorem under_trans_join (q p n : String) (h : Under q (p ++ "/" ++ n)) : Under q p := by
  obtain ⟨s, hq, _⟩ := h
  refine ⟨"/" ++ n ++ s, by rw [hq]; simp [String.append_assoc], Or.inr ?_⟩
  simp [String.toList_append]

theorem joinable_ne (p : String) (hp : p ≠ "") : joinable p = p ++ "/" := by
  simp [joinable, hp]

/-- A non-empty slash-free name appended to anything non-… gives a non-empty path. -/
theorem append_ne_empty (pfx n : String) (hn : n ≠ "") : pfx ++ n ≠ "" := by
  intro h
  have := congrArg String.toList h
  simp only [String.toList_append] at this
  have h2 : n.toList = [] := by
    cases hp : pfx.toList with
    | nil => rw [hp] at this; simpa using this
    | cons c r => rw [hp] at this; simp at this
  exact hn (String.toList_eq_nil_iff.mp h2)

/-- `q` strictly below `p` (through a `/`) is not `p` itself. -/
theorem under_join_ne (q p n : String) (h : Under q (p ++ "/" ++ n)) : q ≠ p := by
  obtain ⟨s, hq, _⟩ := h
  intro he
  rw [he] at hq
  have := congrArg String.toList hq
  simp [String.toList_append] at this

end Mutagen.Proofs.ScanPaths
