import Mutagen.Model.PathString
/-!
Round trip of the path-string glue: splitting the string that the recursions
build for a list of valid names gives back exactly that list.
-/
namespace Mutagen.Model.PathString

theorem split_ne_nil (s : Str) : split s ≠ [] := by
  induction s with
  | nil => simp [split]
  | cons c s ih =>
    simp only [split]
    split
    · simp
    · split <;> simp

theorem split_noSlash (n : Str) (h : '/' ∉ n) : split n = [n] := by
  induction n with
  | nil => rfl
  | cons c n ih =>
    simp only [List.mem_cons, not_or] at h
    have hc : ¬ c = '/' := fun e => h.1 e.symm
    simp [split, hc, ih h.2]

theorem split_append_slash (n s : Str) (h : '/' ∉ n) : split (n ++ '/' :: s) = n :: split s := by
  induction n with
  | nil => simp [split]
  | cons c n ih =>
    simp only [List.mem_cons, not_or] at h
    have hc : ¬ c = '/' := fun e => h.1 e.symm
    simp [split, hc, ih h.2]

theorem foldl_child (rest : List Str) (acc : Str) (hacc : acc ≠ []) :
    rest.foldl child acc = acc ++ rest.flatMap (fun n => '/' :: n) := by
  induction rest generalizing acc with
  | nil => simp
  | cons n rest ih =>
    have hne : child acc n ≠ [] := by simp [child, joinable, hacc]
    simp only [List.foldl_cons, List.flatMap_cons]
    rw [ih _ hne]
    simp [child, joinable, hacc]

theorem join_cons (a : Str) (rest : List Str) (ha : a ≠ []) :
    join (a :: rest) = a ++ rest.flatMap (fun n => '/' :: n) := by
  have : child [] a = a := by simp [child, joinable]
  simp only [join, List.foldl_cons, this]
  exact foldl_child rest a ha

theorem split_join_aux (rest : List Str) (a : Str) (ha : '/' ∉ a) (hr : ∀ n ∈ rest, '/' ∉ n) :
    split (a ++ rest.flatMap (fun n => '/' :: n)) = a :: rest := by
  induction rest generalizing a with
  | nil => simpa using split_noSlash a ha
  | cons b rest ih =>
    simp only [List.flatMap_cons, List.cons_append]
    rw [split_append_slash a _ ha, ih b (hr b (by simp)) (fun n hn => hr n (by simp [hn]))]

/-- The root is the only list of valid names whose path string is `""`. -/
theorem join_eq_nil_iff (p : List Str) (h : ∀ n ∈ p, nameOk n) : join p = [] ↔ p = [] := by
  cases p with
  | nil => simp [join]
  | cons a rest =>
    have ha := (h a (by simp)).1
    rw [join_cons a rest ha]
    simp [ha]

/-- **Round trip**: for names that pass the `EnsureValid` name checks, the
components `Apply` computes from the path string built on the way down are
exactly the names (the root included). -/
theorem components_join (p : List Str) (h : ∀ n ∈ p, nameOk n) : components (join p) = p := by
  cases p with
  | nil => simp [components, join]
  | cons a rest =>
    have ha := h a (by simp)
    have hne : join (a :: rest) ≠ [] := by
      rw [join_cons a rest ha.1]; simp [ha.1]
    simp only [components, hne, ↓reduceIte]
    rw [join_cons a rest ha.1]
    exact split_join_aux rest a ha.2 (fun n hn => (h n (by simp [hn])).2)

end Mutagen.Model.PathString
