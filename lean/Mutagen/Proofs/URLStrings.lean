import Mutagen.Model.URL
/-!
Helper lemmas about the string scanners of `Mutagen.Model.URL` (core Lean only).
-/
namespace Mutagen.Proofs.URL
open Mutagen.Model.URL

/-! ## splitAt -/

theorem splitAt_append (c : Char) (a b : Str) (h : c ∉ a) : splitAt c (a ++ c :: b) = some (a, b) := by
  induction a with
  | nil => simp [splitAt]
  | cons x xs ih =>
    have hx : x ≠ c := fun e => h (by simp [e])
    have hxs : c ∉ xs := fun e => h (by simp [e])
    simp [splitAt, hx, ih hxs]

theorem splitAt_some {c : Char} {s a b : Str} (h : splitAt c s = some (a, b)) : s = a ++ c :: b ∧ c ∉ a := by
  induction s generalizing a with
  | nil => simp [splitAt] at h
  | cons x xs ih =>
    unfold splitAt at h
    by_cases hx : x = c
    · simp [hx] at h
      obtain ⟨rfl, rfl⟩ := h
      simp [hx]
    · simp [hx] at h
      cases hr : splitAt c xs with
      | none => simp [hr] at h
      | some p =>
        obtain ⟨a', b'⟩ := p
        simp [hr] at h
        obtain ⟨rfl, rfl⟩ := h
        obtain ⟨h1, h2⟩ := ih hr
        refine ⟨by simp [h1], ?_⟩
        intro hm
        simp at hm
        rcases hm with hm | hm
        · exact hx hm.symm
        · exact h2 hm

theorem splitAt_none {c : Char} {s : Str} (h : splitAt c s = none) : c ∉ s := by
  induction s with
  | nil => simp
  | cons x xs ih =>
    unfold splitAt at h
    by_cases hx : x = c
    · simp [hx] at h
    · simp [hx] at h
      cases hr : splitAt c xs with
      | none =>
        have := ih hr
        intro hm
        simp at hm
        rcases hm with hm | hm
        · exact hx hm.symm
        · exact this hm
      | some p => obtain ⟨a', b'⟩ := p; simp [hr] at h

/-- The split at the first occurrence of a character is unique. -/
theorem first_split_unique {c : Char} {a b a' b' : Str} (ha : c ∉ a) (ha' : c ∉ a')
    (h : a ++ c :: b = a' ++ c :: b') : a = a' ∧ b = b' := by
  have h1 := splitAt_append c a b ha
  have h2 := splitAt_append c a' b' ha'
  rw [h] at h1
  rw [h1] at h2
  simpa using h2

/-! ## splitUser -/

theorem splitUser_append (stop : Char) (a b : Str) (h1 : '@' ∉ a) (h2 : stop ∉ a) (hs : stop ≠ '@') :
    splitUser stop (a ++ '@' :: b) = some (a, b) := by
  induction a with
  | nil => simp [splitUser, hs.symm]
  | cons x xs ih =>
    have hx1 : x ≠ '@' := fun e => h1 (by simp [e])
    have hx2 : x ≠ stop := fun e => h2 (by simp [e])
    have hxs1 : '@' ∉ xs := fun e => h1 (by simp [e])
    have hxs2 : stop ∉ xs := fun e => h2 (by simp [e])
    simp [splitUser, hx1, hx2, ih hxs1 hxs2]

theorem splitUser_some {stop : Char} {s a b : Str} (h : splitUser stop s = some (a, b)) :
    s = a ++ '@' :: b ∧ '@' ∉ a ∧ stop ∉ a := by
  induction s generalizing a with
  | nil => simp [splitUser] at h
  | cons x xs ih =>
    unfold splitUser at h
    by_cases hx : x = stop
    · simp [hx] at h
    · by_cases hx' : x = '@'
      · simp [hx, hx'] at h
        obtain ⟨_, rfl, rfl⟩ := h
        simp [hx']
      · simp [hx, hx'] at h
        cases hr : splitUser stop xs with
        | none => simp [hr] at h
        | some p =>
          obtain ⟨a', b'⟩ := p
          simp [hr] at h
          obtain ⟨rfl, rfl⟩ := h
          obtain ⟨e1, e2, e3⟩ := ih hr
          refine ⟨by simp [e1], ?_, ?_⟩
          · intro hm; simp at hm
            rcases hm with hm | hm
            · exact hx' hm.symm
            · exact e2 hm
          · intro hm; simp at hm
            rcases hm with hm | hm
            · exact hx hm.symm
            · exact e3 hm

/-- No user name is found when no '@' precedes the first `stop`. -/
theorem splitUser_none_of (stop : Char) (h r : Str) (h1 : '@' ∉ h) :
    splitUser stop (h ++ stop :: r) = none := by
  induction h with
  | nil => simp [splitUser]
  | cons x xs ih =>
    have hx1 : x ≠ '@' := fun e => h1 (by simp [e])
    have hxs1 : '@' ∉ xs := fun e => h1 (by simp [e])
    by_cases hx : x = stop
    · simp [splitUser, hx]
    · simp [splitUser, hx, hx1, ih hxs1]

/-- If the scan for a user name gives up on `h ++ stop :: r` (`stop ∉ h`), there is no '@' in `h`. -/
theorem no_at_of_splitUser_none {stop : Char} {h r : Str} (hs : stop ∉ h)
    (hn : splitUser stop (h ++ stop :: r) = none) : '@' ∉ h := by
  induction h with
  | nil => simp
  | cons x xs ih =>
    have hx : x ≠ stop := fun e => hs (by simp [e])
    have hxs : stop ∉ xs := fun e => hs (by simp [e])
    by_cases hx' : x = '@'
    · subst hx'
      simp [splitUser, hx] at hn
    · simp [splitUser, hx, hx'] at hn
      cases hr : splitUser stop (xs ++ stop :: r) with
      | none =>
        have := ih hxs hr
        intro hm; simp at hm
        rcases hm with hm | hm
        · exact hx' hm.symm
        · exact this hm
      | some p => obtain ⟨a', b'⟩ := p; simp [hr] at hn

/-! ## Digits -/

theorem spanDigits_append (s : Str) : (spanDigits s).1 ++ (spanDigits s).2 = s := by
  induction s with
  | nil => simp [spanDigits]
  | cons x xs ih =>
    by_cases hx : isDigit x
    · simp [spanDigits, hx, ih]
    · simp [spanDigits, hx]

theorem spanDigits_digits (d r : Str) (hd : ∀ c ∈ d, isDigit c = true)
    (hr : ∀ c r', r = c :: r' → isDigit c = false) : spanDigits (d ++ r) = (d, r) := by
  induction d with
  | nil =>
    cases r with
    | nil => simp [spanDigits]
    | cons c r' => simp [spanDigits, hr c r' rfl]
  | cons x xs ih =>
    have hx : isDigit x = true := hd x (by simp)
    have hxs : ∀ c ∈ xs, isDigit c = true := fun c hc => hd c (by simp [hc])
    simp [spanDigits, hx, ih hxs]

theorem isDigit_colon : isDigit ':' = false := by decide

theorem digitChar_isDigit (n : Nat) (h : n < 10) : isDigit (digitChar n) = true := by
  have : n = 0 ∨ n = 1 ∨ n = 2 ∨ n = 3 ∨ n = 4 ∨ n = 5 ∨ n = 6 ∨ n = 7 ∨ n = 8 ∨ n = 9 := by omega
  rcases this with h | h | h | h | h | h | h | h | h | h <;> subst h <;> decide

theorem digitChar_val (n : Nat) (h : n < 10) : (digitChar n).toNat - 48 = n := by
  have : n = 0 ∨ n = 1 ∨ n = 2 ∨ n = 3 ∨ n = 4 ∨ n = 5 ∨ n = 6 ∨ n = 7 ∨ n = 8 ∨ n = 9 := by omega
  rcases this with h | h | h | h | h | h | h | h | h | h <;> subst h <;> decide

theorem natToDec_digits (n : Nat) : ∀ c ∈ natToDec n, isDigit c = true := by
  induction n using Nat.strongRecOn with
  | _ n ih =>
    unfold natToDec
    by_cases h : n < 10
    · simp [h]; exact digitChar_isDigit n h
    · simp only [h, if_false]
      intro c hc
      simp at hc
      rcases hc with hc | hc
      · exact ih (n / 10) (by omega) c hc
      · rw [hc]; exact digitChar_isDigit (n % 10) (by omega)

theorem natToDec_ne_nil (n : Nat) : natToDec n ≠ [] := by
  unfold natToDec
  by_cases h : n < 10 <;> simp [h]

theorem digitsVal_append (a : Str) (c : Char) : digitsVal (a ++ [c]) = digitsVal a * 10 + (c.toNat - 48) := by
  simp [digitsVal, List.foldl_append]

theorem digitsVal_natToDec (n : Nat) : digitsVal (natToDec n) = n := by
  induction n using Nat.strongRecOn with
  | _ n ih =>
    unfold natToDec
    by_cases h : n < 10
    · simp [h, digitsVal, digitChar_val n h]
    · simp only [h, if_false]
      rw [digitsVal_append, ih (n / 10) (by omega), digitChar_val (n % 10) (by omega)]
      omega

theorem parseUint16_natToDec (n : Nat) (h : n ≤ 65535) : parseUint16 (natToDec n) = some n := by
  simp [parseUint16, natToDec_ne_nil, digitsVal_natToDec]
  omega

theorem parseUint16_le {ds : Str} {p : Nat} (h : parseUint16 ds = some p) : p ≤ 65535 := by
  unfold parseUint16 at h
  by_cases h1 : ds = []
  · simp [h1] at h
  · by_cases h2 : digitsVal ds > 65535
    · simp [h1, h2] at h
    · simp [h1, h2] at h; omega

/-- The port loop on `<decimal>:<path>`. -/
theorem parsePort_natToDec (p : Nat) (path : Str) (h : p ≤ 65535) :
    parsePort (natToDec p ++ ':' :: path) = .ok (p, path) := by
  have hs : spanDigits (natToDec p ++ ':' :: path) = (natToDec p, ':' :: path) :=
    spanDigits_digits _ _ (natToDec_digits p) (by
      intro c r' hc
      simp at hc
      rw [← hc.1]; exact isDigit_colon)
  simp [parsePort, hs, parseUint16_natToDec p h]

end Mutagen.Proofs.URL
