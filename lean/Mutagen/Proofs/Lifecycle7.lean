import Mutagen.Proofs.Lifecycle6
/-!
Lifecycle model: the reset invariant along runs; where a successful `reset`
cleared the archive.
-/
namespace Mutagen.Proofs.Lifecycle
open Mutagen.Model.Lifecycle

theorem invS_run {w : Bool} {tr : List Label} {s : State} (r : Run (init w) tr s) : InvS s := by
  induction r with
  | nil => intro h; simp [init] at h
  | snoc _ st ih => exact invS_step st ih

/-- A point of the run at which the archive on disk was the empty one and the
`reset` call `t` had just completed successfully. -/
def ClearedAt (w : Bool) (tr : List Label) (s : State) (t : Nat) : Prop :=
  ∃ tr1 s1 tr2, Run (init w) tr1 s1 ∧ Run s1 tr2 s ∧ tr = tr1 ++ tr2 ∧
    s1.arch = some false ∧ ∃ y ∈ s1.threads, y.id = t ∧ y.op = .reset ∧ y.ph = .finished .ok

theorem ClearedAt.extend {w : Bool} {tr : List Label} {s s' : State} {t : Nat} {l : Label}
    (p : ClearedAt w tr s t) (st : Step s l s') : ClearedAt w (tr ++ [l]) s' t := by
  obtain ⟨tr1, s1, tr2, r1, r2, e, h⟩ := p
  exact ⟨tr1, s1, tr2 ++ [l], r1, Run.snoc r2 st, by rw [e, List.append_assoc], h⟩

theorem reset_cleared {w : Bool} {tr : List Label} {s : State} (r : Run (init w) tr s) :
    ∀ x ∈ s.threads, x.op = .reset → x.ph = .finished .ok → ClearedAt w tr s x.id := by
  induction r with
  | nil => intro x hx; simp [init] at hx
  | @snoc tr s' l s'' r' st ih =>
    have iS := invS_run r'
    intro x hx hop hph
    cases st with
    | call h =>
      have st' : Step s' (.call _ _) s'' := Step.call h
      unfold doCall at h
      split at h
      · simp at h
      · simp only [Option.some.injEq] at h
        subst h
        simp only [List.mem_append, List.mem_singleton] at hx
        rcases hx with hx | hx
        · exact (ih x hx hop hph).extend st'
        · subst hx; simp [mkThread] at hph
    | internal h =>
      have st' : Step s' l s'' := Step.internal h
      unfold succ at h
      rcases List.mem_append.mp h with h | h
      · cases hl : s'.loop with
        | none => simp [hl] at h
        | some lp =>
          simp only [hl] at h
          obtain ⟨y, hy, h1, h2, h3⟩ := loopSteps_thread h hx
          have := (ih y hy (by rw [h2]; exact hop) (by rw [h3]; exact hph)).extend st'
          rw [h1] at this
          exact this
      · obtain ⟨th, hth, h⟩ := List.mem_flatMap.mp h
        rcases threadSteps_reset_done h (fun hr => (iS hr).1) x hx hop hph with hold | hnew
        · exact (ih x hold hop hph).extend st'
        · exact ⟨tr ++ [l], s'', [], Run.snoc r' st', Run.nil, by simp, hnew, x, hx, rfl, hop, hph⟩

end Mutagen.Proofs.Lifecycle
