import Mutagen.Proofs.AncestorUpdate
/-!
Helper lemmas for the C04 fixpoint theorem, part 1 (disagreement handlers):
node conditions depend only on the root's scalar fields; the shape of a
handler's plan (numbers of changes, conflict roots) is invariant under
replacing the ancestor by a `SameTree` one; the five possible outcomes of a
disagreement handler (`HandlerOutcome`).
-/
namespace Mutagen.Model

/-! ## Node conditions depend on the root's scalar fields only -/

theorem pget_nil_eq_none_iff {e : Option Entry} : pget e [] = none ↔ e = none := by
  cases e <;> simp [pget, getPath]

theorem getPath_eq_none_of_pget {e : Option Entry} {q : Path} (h : pget e q = none) : getPath e q = none := by
  simpa [pget] using h

theorem isKind_congr {e e' : Option Entry} (h : pget e [] = pget e' []) (k : Kind) : isKind e k = isKind e' k := by
  cases e <;> cases e' <;> simp_all [pget, getPath, isKind, Entry.kind]

theorem isNone_congr {e e' : Option Entry} (h : pget e [] = pget e' []) : e.isNone = e'.isNone := by
  cases e <;> cases e' <;> simp_all [pget, getPath]

theorem isSome_congr {e e' : Option Entry} (h : pget e [] = pget e' []) : e.isSome = e'.isSome := by
  cases e <;> cases e' <;> simp_all [pget, getPath]

theorem shallowEq_iff_pget {e f : Option Entry} : shallowEq e f = true ↔ pget e [] = pget f [] := by
  cases e <;> cases f <;> simp [shallowEq, pget, getPath]

theorem shallowEq_congr {e e' f f' : Option Entry} (h1 : pget e [] = pget e' []) (h2 : pget f [] = pget f' []) :
    shallowEq e f = shallowEq e' f' := by
  rw [Bool.eq_iff_iff, shallowEq_iff_pget, shallowEq_iff_pget, h1, h2]

/-! ## Converse: deletions only ⇒ the diff has no creation/modification -/

theorem nonDeletion_nil_of_deletionsOnly (path : Path) (x y : Option Entry) (h : DeletionsOnly x y) :
    nonDeletion (diff path x y) = [] := by
  fun_induction diff path x y with
  | case1 path base target hne =>
    cases target with
    | none => simp [nonDeletion]
    | some t =>
      exfalso
      rcases h [] with h0 | h0
      · simp [pget, getPath] at h0
      · have := shallowEq_of_pget h0.symm
        simp [this] at hne
  | case2 path base target heq ih =>
    simp only [nonDeletion, List.filter_flatMap]
    rw [flatMap_eq_nil_iff']
    intro n _
    exact ih n (fun q => by have := h (n.1 :: q); rwa [pget_cons, pget_cons] at this)

theorem diff_isEmpty_congr (path : Path) {a₁ a₂ : Option Entry} (h : SameTree a₁ a₂) (x : Option Entry) :
    (diff path a₁ x).isEmpty = (diff path a₂ x).isEmpty := by
  rw [Bool.eq_iff_iff]
  simp only [List.isEmpty_iff]
  constructor
  · intro h1; exact diff_nil_of_sameTree path _ _ (fun q => (h q).symm.trans (sameTree_of_diff_nil path _ _ h1 q))
  · intro h1; exact diff_nil_of_sameTree path _ _ (fun q => (h q).trans (sameTree_of_diff_nil path _ _ h1 q))

theorem DeletionsOnly.congr_left {a₁ a₂ s : Option Entry} (h : SameTree a₁ a₂) (hd : DeletionsOnly a₁ s) :
    DeletionsOnly a₂ s := fun q => (hd q).imp id (fun e => e.trans (h q))

theorem nonDeletion_isEmpty_congr (path : Path) {a₁ a₂ : Option Entry} (h : SameTree a₁ a₂) (x : Option Entry) :
    (nonDeletion (diff path a₁ x)).isEmpty = (nonDeletion (diff path a₂ x)).isEmpty := by
  rw [Bool.eq_iff_iff]
  simp only [List.isEmpty_iff]
  constructor
  · intro h1
    exact nonDeletion_nil_of_deletionsOnly path _ _ ((deletionsOnly_of_nonDeletion_nil path _ _ h1).congr_left h)
  · intro h1
    exact nonDeletion_nil_of_deletionsOnly path _ _
      ((deletionsOnly_of_nonDeletion_nil path _ _ h1).congr_left (fun q => (h q).symm))

/-! ## The shape of a plan and its invariance under `SameTree` ancestors -/

/-- Numbers of ancestor / alpha / beta changes and the conflict roots. -/
def Plan.shape (p : Plan) : Nat × Nat × Nat × List Path :=
  (p.anc.length, p.alpha.length, p.beta.length, p.conflicts.map (·.root))

theorem handleBidirectional_shape_congr (mode : Mode) (path : Path) {a₁ a₂ : Option Entry} (h : SameTree a₁ a₂)
    (al be : Option Entry) :
    (handleBidirectional mode path a₁ al be).shape = (handleBidirectional mode path a₂ al be).shape := by
  unfold handleBidirectional
  simp only [diff_isEmpty_congr path h, nonDeletion_isEmpty_congr path h]
  repeat' split
  all_goals rfl

theorem handleOneWaySafe_shape_congr (path : Path) {a₁ a₂ : Option Entry} (h : SameTree a₁ a₂)
    (al be : Option Entry) :
    (handleOneWaySafe path a₁ al be).shape = (handleOneWaySafe path a₂ al be).shape := by
  unfold handleOneWaySafe
  simp only [nonDeletion_isEmpty_congr path h, isNone_congr (h []), isSome_congr (h []),
    isKind_congr (h []) .directory]
  repeat' split
  all_goals rfl

theorem handleOneWayReplica_shape_congr (path : Path) (a₁ a₂ al be : Option Entry) :
    (handleOneWayReplica path a₁ al be).shape = (handleOneWayReplica path a₂ al be).shape := by
  unfold handleOneWayReplica
  simp only []
  repeat' split
  all_goals rfl

theorem handleDisagreement_shape_congr (mode : Mode) (path : Path) {a₁ a₂ : Option Entry} (h : SameTree a₁ a₂)
    (al be : Option Entry) :
    (handleDisagreement mode path a₁ al be).shape = (handleDisagreement mode path a₂ al be).shape := by
  unfold handleDisagreement
  cases mode
  · exact handleBidirectional_shape_congr _ path h al be
  · exact handleBidirectional_shape_congr _ path h al be
  · exact handleOneWaySafe_shape_congr path h al be
  · exact handleOneWayReplica_shape_congr path a₁ a₂ al be


/-! ## What a disagreement handler can produce -/

/-- The five possible outcomes of a disagreement handler: a single conflict
rooted at the path; a single alpha change installing beta's synchronizable
part; a single beta change installing alpha's synchronizable part; clearing
the ancestor (one-way-safe, after which the handler does nothing); nothing
(one-way-safe with an absent ancestor). -/
def HandlerOutcome (mode : Mode) (path : Path) (a al be : Option Entry) : Prop :=
  (∃ x y, handleDisagreement mode path a al be = Plan.conflict path x y) ∨
  (∃ o, handleDisagreement mode path a al be = Plan.alphaChange { path := path, old := o, new := osync be }) ∨
  (∃ o, handleDisagreement mode path a al be = Plan.betaChange { path := path, old := o, new := osync al }) ∨
  (handleDisagreement mode path a al be = Plan.ancChange { path := path } ∧
    handleDisagreement mode path none al be = {}) ∨
  (handleDisagreement mode path a al be = {} ∧ a = none)

/-- If both synchronizable parts only lost content relative to the ancestor,
alpha's is present and the endpoints disagree, then beta's is absent. -/
theorem beta_sync_none_of_both_deletionsOnly {a al be : Option Entry} (hα : Valid al) (hβ : Valid be)
    (hd : Disagree al be) (h1 : DeletionsOnly a (osync al)) (h2 : DeletionsOnly a (osync be))
    (hsome : (osync al).isNone = false) : osync be = none := by
  cases hb : osync be with
  | none => rfl
  | some b =>
    exfalso
    have hbr : pget (osync be) [] = pget a [] := by
      rcases h2 [] with h | h
      · rw [hb] at h; simp [pget, getPath] at h
      · exact h
    have har : pget (osync al) [] = pget a [] := by
      rcases h1 [] with h | h
      · cases ha : osync al with
        | none => rw [ha] at hsome; simp at hsome
        | some x => rw [ha] at h; simp [pget, getPath] at h
      · exact h
    have heq : pget (osync al) [] = pget (osync be) [] := har.trans hbr.symm
    rw [pget_osync_root hα, pget_osync_root hβ] at heq
    have hbs : pget (osync be) [] ≠ none := by rw [hb]; simp [pget, getPath]
    rw [pget_osync_root hβ] at hbs
    cases al with
    | none =>
      cases be with
      | none => simp at hbs
      | some y =>
        simp only at heq hbs
        split at heq
        · cases heq
        · exact hbs (by simp [*])
    | some x =>
      cases be with
      | none => simp at hbs
      | some y =>
        simp only at heq hbs
        by_cases hx : x.kind.synchronizable = true <;> by_cases hy : y.kind.synchronizable = true
        · simp only [hx, hy, ↓reduceIte, Option.some.injEq] at heq
          have := hd.differ
          simp [shallowEq, heq] at this
        · simp [hy] at hbs
        · simp [hx, hy] at heq
        · simp [hy] at hbs

theorem handleBidirectional_outcome (mode : Mode) (path : Path) (a al be : Option Entry)
    (hα : Valid al) (hβ : Valid be) (hd : Disagree al be) :
    (∃ x y, handleBidirectional mode path a al be = Plan.conflict path x y) ∨
    (∃ o, handleBidirectional mode path a al be = Plan.alphaChange { path := path, old := o, new := osync be }) ∨
    (∃ o, handleBidirectional mode path a al be = Plan.betaChange { path := path, old := o, new := osync al }) := by
  have keyA2 : ((nonDeletion (diff path a (osync al))).isEmpty && (nonDeletion (diff path a (osync be))).isEmpty) = true →
      ¬ (osync al).isNone = true → osync be = none := by
    intro h hn
    simp only [Bool.and_eq_true] at h
    exact beta_sync_none_of_both_deletionsOnly hα hβ hd (del_of_isEmpty h.1) (del_of_isEmpty h.2)
      (Bool.eq_false_iff.mpr hn)
  unfold handleBidirectional
  simp only []
  repeat' split
  all_goals first
    | exact Or.inl ⟨_, _, rfl⟩
    | exact Or.inr (Or.inl ⟨_, rfl⟩)
    | exact Or.inr (Or.inr ⟨_, rfl⟩)
    | (right; right
       have hn : osync al = none := by simpa using ‹(osync al).isNone = true›
       exact ⟨osync be, by rw [hn]⟩)
    | (right; left
       have hn : osync be = none := keyA2 ‹_› ‹_›
       exact ⟨osync al, by rw [hn]⟩)

theorem handleOneWaySafe_outcome_aux (path : Path) (a al be : Option Entry) :
    (∃ x y, handleOneWaySafe path a al be = Plan.conflict path x y) ∨
    (∃ o, handleOneWaySafe path a al be = Plan.betaChange { path := path, old := o, new := osync al }) ∨
    (handleOneWaySafe path a al be = Plan.ancChange { path := path } ∧
      ¬ (nonDeletion (diff path a (osync be))).isEmpty = true ∧
      (al.isNone || isKind al .untracked) = true) ∨
    (handleOneWaySafe path a al be = {} ∧ a = none) := by
  unfold handleOneWaySafe
  simp only []
  repeat' split
  all_goals first
    | exact Or.inl ⟨_, _, rfl⟩
    | exact Or.inr (Or.inl ⟨_, rfl⟩)
    | (refine Or.inr (Or.inr (Or.inl ⟨rfl, ‹_›, ?_⟩))
       have h := ‹((al.isNone || isKind al Kind.untracked) &&
          (a.isNone || !isKind a Kind.directory || be.isNone || !isKind be Kind.directory)) = true›
       simp only [Bool.and_eq_true] at h
       exact h.1)
    | (refine Or.inr (Or.inr (Or.inr ⟨rfl, ?_⟩))
       cases a with
       | none => rfl
       | some x => exact absurd rfl ‹¬ (some x).isSome = true›)

theorem handleOneWaySafe_untracked_again (path : Path) (x : Entry) (al be : Option Entry)
    (h1 : ¬ (nonDeletion (diff path (some x) (osync be))).isEmpty = true)
    (hal : (al.isNone || isKind al .untracked) = true) : handleOneWaySafe path none al be = {} := by
  have hβ : osync be ≠ none := by
    intro hn
    apply h1
    rw [hn, diff_of_not_shallowEq _ _ _ (by simp [shallowEq])]
    simp [nonDeletion]
  obtain ⟨b, hb⟩ := Option.ne_none_iff_exists'.mp hβ
  have hne : (nonDeletion (diff path none (osync be))).isEmpty = false := by
    rw [hb, diff_of_not_shallowEq _ _ _ (by simp [shallowEq])]
    simp [nonDeletion]
  unfold handleOneWaySafe
  simp only [hne, Bool.false_eq_true, ↓reduceIte, hal, Option.isNone_none, Bool.true_or, Bool.and_self,
    Option.isSome_none]

theorem handleOneWaySafe_outcome (path : Path) (a al be : Option Entry) :
    (∃ x y, handleOneWaySafe path a al be = Plan.conflict path x y) ∨
    (∃ o, handleOneWaySafe path a al be = Plan.betaChange { path := path, old := o, new := osync al }) ∨
    (handleOneWaySafe path a al be = Plan.ancChange { path := path } ∧ handleOneWaySafe path none al be = {}) ∨
    (handleOneWaySafe path a al be = {} ∧ a = none) := by
  rcases handleOneWaySafe_outcome_aux path a al be with h | h | ⟨h, h1, h2⟩ | h
  · exact Or.inl h
  · exact Or.inr (Or.inl h)
  · refine Or.inr (Or.inr (Or.inl ⟨h, ?_⟩))
    cases a with
    | none =>
      -- with an absent ancestor the handler plans nothing, in particular no ancestor change
      exfalso
      have : (handleOneWaySafe path none al be).anc = [] := by
        unfold handleOneWaySafe; simp only []; repeat' split
        all_goals first | rfl | (exfalso; simp at *)
      rw [h] at this
      simp [Plan.ancChange] at this
    | some x => exact handleOneWaySafe_untracked_again path x al be h1 h2
  · exact Or.inr (Or.inr (Or.inr h))

theorem handleOneWayReplica_outcome (path : Path) (a al be : Option Entry) :
    (∃ x y, handleOneWayReplica path a al be = Plan.conflict path x y) ∨
    (∃ o, handleOneWayReplica path a al be = Plan.betaChange { path := path, old := o, new := osync al }) := by
  unfold handleOneWayReplica
  simp only []
  split
  · exact Or.inl ⟨_, _, rfl⟩
  · exact Or.inr ⟨_, rfl⟩

theorem handleDisagreement_outcome (mode : Mode) (path : Path) (a al be : Option Entry)
    (hα : Valid al) (hβ : Valid be) (hd : Disagree al be) : HandlerOutcome mode path a al be := by
  unfold HandlerOutcome handleDisagreement
  cases mode
  · rcases handleBidirectional_outcome .twoWaySafe path a al be hα hβ hd with h | h | h
    · exact Or.inl h
    · exact Or.inr (Or.inl h)
    · exact Or.inr (Or.inr (Or.inl h))
  · rcases handleBidirectional_outcome .twoWayResolved path a al be hα hβ hd with h | h | h
    · exact Or.inl h
    · exact Or.inr (Or.inl h)
    · exact Or.inr (Or.inr (Or.inl h))
  · rcases handleOneWaySafe_outcome path a al be with h | h | h | h
    · exact Or.inl h
    · exact Or.inr (Or.inr (Or.inl h))
    · exact Or.inr (Or.inr (Or.inr (Or.inl h)))
    · exact Or.inr (Or.inr (Or.inr (Or.inr h)))
  · rcases handleOneWayReplica_outcome path a al be with h | h
    · exact Or.inl h
    · exact Or.inr (Or.inr (Or.inl h))

end Mutagen.Model
