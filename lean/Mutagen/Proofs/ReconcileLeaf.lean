import Mutagen.Proofs.ReconcileShape
/-!
The plan `reconcile` makes at a node that holds a childless file on both
sides (used by `Properties/C18`).
-/
namespace Mutagen.Proofs.ReconcileLeaf
open Mutagen.Model Mutagen.Proofs.ReconcileShape

/-- A file without children. -/
def leaf (p : Props) : Option Entry := some (.mk p [])

theorem osync_leaf (p : Props) (hk : p.kind = .file) : osync (leaf p) = leaf p := by
  simp [osync, leaf, Entry.synchronizable, hk, Kind.synchronizable]

theorem nameUnion_nil2 : nameUnion [[], []] = [] := by
  simp [nameUnion, dedup, keys]

/-- `diff` against a childless target. -/
theorem diff_leaf (path : Path) (x y : Option Entry) (hy : contents y = [])
    (hx : shallowEq y x = true → contents x = []) :
    diff path x y = if shallowEq y x then [] else [{ path := path, old := x, new := y }] := by
  rw [diff]
  by_cases h : shallowEq y x = true
  · simp [h, hx h, hy, nameUnion_nil2]
  · simp [h]

theorem shallowEq_leaf_kind {p : Props} {a : Option Entry} (hk : p.kind = .file)
    (h : shallowEq (leaf p) a = true) : isKind a .file = true := by
  cases a with
  | none => simp [shallowEq, leaf] at h
  | some e =>
    obtain ⟨pe, cs⟩ := e
    simp only [shallowEq, leaf, Entry.props, beq_iff_eq] at h
    subst h
    simp [isKind, Entry.kind, Entry.props, hk]

theorem shallowEq_comm (a b : Option Entry) : shallowEq a b = shallowEq b a := by
  cases a <;> cases b <;> simp only [shallowEq]
  rw [Bool.eq_iff_iff]
  constructor <;> intro h <;> (simp only [beq_iff_eq] at h ⊢; exact h.symm)

/-- When the plan of a node with a file on both sides contains a change for an endpoint. -/
def emitted (mode : Mode) (toAlpha : Bool) (ea eb : Bool) : Prop :=
  if toAlpha then
    (mode = .twoWaySafe ∨ mode = .twoWayResolved) ∧ ea = true ∧ eb = false
  else
    match mode with
    | .twoWaySafe => eb = true
    | .twoWayResolved => eb = true ∨ ea = false
    | .oneWaySafe => eb = true
    | .oneWayReplica => True

/-- The plan at a node that holds a (childless) file on both sides: at most one
change per endpoint, at the node's path, carrying the other side's file. -/
theorem reconcile_leaf (mode : Mode) (toAlpha : Bool) (pth : Path) (a : Option Entry) (pα pβ : Props)
    (hkα : pα.kind = .file) (hkβ : pβ.kind = .file) (hA : isKind a .file = true → contents a = [])
    (c : Change) (hc : c ∈ side toAlpha (reconcile mode pth a (leaf pα) (leaf pβ))) :
    c.path = pth ∧ c.new = (if toAlpha then leaf pβ else leaf pα) ∧
      shallowEq (leaf pα) (leaf pβ) = false ∧
      emitted mode toAlpha (shallowEq (leaf pα) a) (shallowEq (leaf pβ) a) := by
  have h1 : isKind (leaf pα) .problematic = false := by simp [isKind, leaf, Entry.kind, Entry.props, hkα]
  have h2 : isKind (leaf pβ) .problematic = false := by simp [isKind, leaf, Entry.kind, Entry.props, hkβ]
  have h3 : bothAbsent (leaf pα) (leaf pβ) = false := by
    simp [bothAbsent, leaf, isKind, Entry.kind, Entry.props, hkα]
  by_cases h4 : shallowEq (leaf pα) (leaf pβ) = true
  · exfalso
    rw [reconcile_rec mode pth a _ _ h1 h2 h3 h4] at hc
    have hca : contents (ancestorForRecursion a (leaf pα)) = [] := by
      unfold ancestorForRecursion
      split
      · rename_i h; rw [shallowEq_comm] at h; exact hA (shallowEq_leaf_kind hkα h)
      · rfl
    have hl : contents (leaf pα) = [] := rfl
    have hl' : contents (leaf pβ) = [] := rfl
    rw [hca, hl, hl'] at hc
    have : nameUnion [([] : Contents), [], []] = [] := by simp [nameUnion, dedup, keys]
    rw [this] at hc
    cases toAlpha <;> simp [side, Plan.concat] at hc <;> split at hc <;> simp [Plan.ancChange] at hc
  · have h4' := eq_false_of_ne_true h4
    rw [reconcile_disagree mode pth a _ _ h1 h2 h3 h4'] at hc
    have dα : diff pth a (leaf pα) = if shallowEq (leaf pα) a then [] else [{ path := pth, old := a, new := leaf pα }] :=
      diff_leaf pth a (leaf pα) rfl (fun h => hA (shallowEq_leaf_kind hkα h))
    have dβ : diff pth a (leaf pβ) = if shallowEq (leaf pβ) a then [] else [{ path := pth, old := a, new := leaf pβ }] :=
      diff_leaf pth a (leaf pβ) rfl (fun h => hA (shallowEq_leaf_kind hkβ h))
    have dαα : diff pth (leaf pα) (leaf pα) = [] := by
      rw [diff_leaf pth (leaf pα) (leaf pα) rfl (fun _ => rfl)]; simp [shallowEq, leaf]
    have dββ : diff pth (leaf pβ) (leaf pβ) = [] := by
      rw [diff_leaf pth (leaf pβ) (leaf pβ) rfl (fun _ => rfl)]; simp [shallowEq, leaf]
    refine ⟨handleDisagreement_path mode pth a _ _ toAlpha c hc, ?_, h4', ?_⟩
    all_goals
      cases toAlpha <;> cases mode <;>
        simp only [side, handleDisagreement, handleBidirectional, handleOneWaySafe, handleOneWayReplica,
          osync_leaf _ hkα, osync_leaf _ hkβ, dα, dβ, dαα, dββ, Bool.false_eq_true, if_false, if_true] at hc <;>
        cases ea : shallowEq (leaf pα) a <;> cases eb : shallowEq (leaf pβ) a <;>
        simp_all [emitted, nonDeletion, leaf, Plan.conflict, Plan.betaChange, Plan.alphaChange, isKind,
          Entry.kind, Entry.props]

/-- Conversely: in one-way-replica, and in two-way-resolved when both sides
differ from the ancestor, beta's file is overwritten by alpha's. -/
theorem reconcile_leaf_beta_overwritten (mode : Mode) (pth : Path) (a : Option Entry) (pα pβ : Props)
    (hkα : pα.kind = .file) (hkβ : pβ.kind = .file) (hA : isKind a .file = true → contents a = [])
    (hne : shallowEq (leaf pα) (leaf pβ) = false)
    (hmode : mode = .oneWayReplica ∨
      (mode = .twoWayResolved ∧ shallowEq (leaf pα) a = false ∧ shallowEq (leaf pβ) a = false)) :
    (reconcile mode pth a (leaf pα) (leaf pβ)).beta = [{ path := pth, old := leaf pβ, new := leaf pα }] := by
  have h1 : isKind (leaf pα) .problematic = false := by simp [isKind, leaf, Entry.kind, Entry.props, hkα]
  have h2 : isKind (leaf pβ) .problematic = false := by simp [isKind, leaf, Entry.kind, Entry.props, hkβ]
  have h3 : bothAbsent (leaf pα) (leaf pβ) = false := by
    simp [bothAbsent, leaf, isKind, Entry.kind, Entry.props, hkα]
  rw [reconcile_disagree mode pth a _ _ h1 h2 h3 hne]
  have dα : diff pth a (leaf pα) = if shallowEq (leaf pα) a then [] else [{ path := pth, old := a, new := leaf pα }] :=
    diff_leaf pth a (leaf pα) rfl (fun h => hA (shallowEq_leaf_kind hkα h))
  have dβ : diff pth a (leaf pβ) = if shallowEq (leaf pβ) a then [] else [{ path := pth, old := a, new := leaf pβ }] :=
    diff_leaf pth a (leaf pβ) rfl (fun h => hA (shallowEq_leaf_kind hkβ h))
  have dββ : diff pth (leaf pβ) (leaf pβ) = [] := by
    rw [diff_leaf pth (leaf pβ) (leaf pβ) rfl (fun _ => rfl)]; simp [shallowEq, leaf]
  rcases hmode with rfl | ⟨rfl, hea, heb⟩
  · simp only [handleDisagreement, handleOneWayReplica, osync_leaf _ hkα, osync_leaf _ hkβ, dββ]
    simp [Plan.betaChange]
  · simp only [handleDisagreement, handleBidirectional, osync_leaf _ hkα, osync_leaf _ hkβ, dα, dβ, dββ, hea, heb,
      Bool.false_eq_true, if_false]
    simp [nonDeletion, leaf, Plan.betaChange]

end Mutagen.Proofs.ReconcileLeaf
