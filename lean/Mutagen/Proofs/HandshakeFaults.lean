import Mutagen.Proofs.Handshake
import Mathlib.Tactic.IntervalCases
/-!
In-transit faults between two matched parties (helper lemmas for
`Mutagen.Properties.C34`): the exchange is the fixpoint of `round`, computed
explicitly for every position of a truncation or a corrupted byte.
-/
set_option linter.unusedSimpArgs false
namespace Mutagen.Proofs.Handshake
open Mutagen.Model.Handshake

theorem len3 (x : Bytes) (h : x.length = 3) : ∃ a b c, x = [a, b, c] := by
  match x, h with
  | [a, b, c], _ => exact ⟨a, b, c, rfl⟩

theorem len12 (x : Bytes) (h : x.length = 12) :
    ∃ a0 a1 a2 a3 a4 a5 a6 a7 a8 a9 a10 a11, x = [a0, a1, a2, a3, a4, a5, a6, a7, a8, a9, a10, a11] := by
  match x, h with
  | [a0, a1, a2, a3, a4, a5, a6, a7, a8, a9, a10, a11], _ => exact ⟨_, _, _, _, _, _, _, _, _, _, _, _, rfl⟩

/-- The exchange is determined by a fixpoint of `round` reached in two steps. -/
theorem session_of_fix (pc ps : Params) (fsc fcs : Fault) (s1 s2 : Bytes)
    (hr1 : round pc ps fsc fcs [] = s1) (hr2 : round pc ps fsc fcs s1 = s2)
    (hr3 : round pc ps fsc fcs s2 = s2) :
    (session pc ps fsc fcs).client = errOn clientConnect pc (fsc.apply s2) ∧
    (session pc ps fsc fcs).server
      = errOn serverConnect ps (fcs.apply (sentOn clientConnect pc (fsc.apply s2))) := by
  simp only [session, hr1, hr2, hr3, and_self]

theorem round_def (pc ps : Params) (fsc fcs : Fault) (sOut : Bytes) :
    round pc ps fsc fcs sOut = sentOn serverConnect ps (fcs.apply (sentOn clientConnect pc (fsc.apply sOut))) := rfl

/-- Matched parties. -/
structure Matched (pc ps : Params) : Prop where
  h1 : pc.sendMagic.length = 3
  h2 : pc.expectMagic.length = 3
  h3 : ps.sendMagic.length = 3
  h4 : ps.expectMagic.length = 3
  A : ps.sendMagic = pc.expectMagic
  B : pc.sendMagic = ps.expectMagic
  V : versionBytes pc = versionBytes ps


theorem trunc_sc_early (pc ps : Params) (m : Matched pc ps) (k : Nat) (x : UInt8) (hk2 : k < 3) (hx : x ≠ 0) :
    (session pc ps (.trunc k) (.none)).client ≠ .ok ∧ (session pc ps (.trunc k) (.none)).server ≠ .ok := by
  obtain ⟨h1, h2, h3, h4, A, B, V⟩ := m
  have vs := versionBytes_length ps
  obtain ⟨m0, m1, m2, hm⟩ := len3 _ h3
  obtain ⟨n0, n1, n2, hn⟩ := len3 _ h1
  obtain ⟨v0, v1, v2, v3, v4, v5, v6, v7, v8, v9, v10, v11, hv⟩ := len12 _ vs
  have hxs : ∀ v : UInt8, ¬ (v ^^^ x = v) := fun v => xor_ne v x hx
  have hxs' : ∀ v : UInt8, ¬ (v = v ^^^ x) := fun v e => xor_ne v x hx e.symm
  have r1 : round pc ps (.trunc k) (.none) [] = ps.sendMagic := by
    simp [round_def, clientConnect_sent, serverConnect_sent, Fault.apply]
  have r2 : round pc ps (.trunc k) (.none) ps.sendMagic = ps.sendMagic := by
    simp only [round_def, clientConnect_sent, serverConnect_sent, ← A, ← B, V, hm, hn, hv]
    interval_cases k <;> simp [Fault.apply, hxs, hxs']
  have r3 : round pc ps (.trunc k) (.none) (ps.sendMagic) = ps.sendMagic := by
    simp only [round_def, clientConnect_sent, serverConnect_sent, ← A, ← B, V, hm, hn, hv]
    interval_cases k <;> simp [Fault.apply, hxs, hxs']
  obtain ⟨ec, es⟩ := session_of_fix pc ps _ _ _ _ r1 r2 r3
  rw [ec, es]
  constructor
  · rw [Ne]
    rw [clientConnect_err pc h2]
    simp only [expected, ← A, V, hm, hv]
    interval_cases k <;> simp [Fault.apply, hxs, hxs']
  · rw [Ne]
    rw [serverConnect_err ps h4]
    simp only [clientConnect_sent, expected, ← A, ← B, V, hm, hn, hv]
    interval_cases k <;> simp [Fault.apply, hxs, hxs']

theorem flip_sc_early (pc ps : Params) (m : Matched pc ps) (k : Nat) (x : UInt8) (hk2 : k < 3) (hx : x ≠ 0) :
    (session pc ps (.flip k x) (.none)).client ≠ .ok ∧ (session pc ps (.flip k x) (.none)).server ≠ .ok := by
  obtain ⟨h1, h2, h3, h4, A, B, V⟩ := m
  have vs := versionBytes_length ps
  obtain ⟨m0, m1, m2, hm⟩ := len3 _ h3
  obtain ⟨n0, n1, n2, hn⟩ := len3 _ h1
  obtain ⟨v0, v1, v2, v3, v4, v5, v6, v7, v8, v9, v10, v11, hv⟩ := len12 _ vs
  have hxs : ∀ v : UInt8, ¬ (v ^^^ x = v) := fun v => xor_ne v x hx
  have hxs' : ∀ v : UInt8, ¬ (v = v ^^^ x) := fun v e => xor_ne v x hx e.symm
  have r1 : round pc ps (.flip k x) (.none) [] = ps.sendMagic := by
    simp [round_def, clientConnect_sent, serverConnect_sent, Fault.apply]
  have r2 : round pc ps (.flip k x) (.none) ps.sendMagic = ps.sendMagic := by
    simp only [round_def, clientConnect_sent, serverConnect_sent, ← A, ← B, V, hm, hn, hv]
    interval_cases k <;> simp [Fault.apply, hxs, hxs']
  have r3 : round pc ps (.flip k x) (.none) (ps.sendMagic) = ps.sendMagic := by
    simp only [round_def, clientConnect_sent, serverConnect_sent, ← A, ← B, V, hm, hn, hv]
    interval_cases k <;> simp [Fault.apply, hxs, hxs']
  obtain ⟨ec, es⟩ := session_of_fix pc ps _ _ _ _ r1 r2 r3
  rw [ec, es]
  constructor
  · rw [Ne]
    rw [clientConnect_err pc h2]
    simp only [expected, ← A, V, hm, hv]
    interval_cases k <;> simp [Fault.apply, hxs, hxs']
  · rw [Ne]
    rw [serverConnect_err ps h4]
    simp only [clientConnect_sent, expected, ← A, ← B, V, hm, hn, hv]
    interval_cases k <;> simp [Fault.apply, hxs, hxs']

theorem trunc_sc_late (pc ps : Params) (m : Matched pc ps) (k : Nat) (x : UInt8) (hk1 : 3 ≤ k) (hk2 : k < 15) (hx : x ≠ 0) :
    (session pc ps (.trunc k) (.none)).client ≠ .ok ∧ (session pc ps (.trunc k) (.none)).server ≠ .ok := by
  obtain ⟨h1, h2, h3, h4, A, B, V⟩ := m
  have vs := versionBytes_length ps
  obtain ⟨m0, m1, m2, hm⟩ := len3 _ h3
  obtain ⟨n0, n1, n2, hn⟩ := len3 _ h1
  obtain ⟨v0, v1, v2, v3, v4, v5, v6, v7, v8, v9, v10, v11, hv⟩ := len12 _ vs
  have hxs : ∀ v : UInt8, ¬ (v ^^^ x = v) := fun v => xor_ne v x hx
  have hxs' : ∀ v : UInt8, ¬ (v = v ^^^ x) := fun v e => xor_ne v x hx e.symm
  have r1 : round pc ps (.trunc k) (.none) [] = ps.sendMagic := by
    simp [round_def, clientConnect_sent, serverConnect_sent, Fault.apply]
  have r2 : round pc ps (.trunc k) (.none) ps.sendMagic = ps.sendMagic ++ versionBytes ps := by
    simp only [round_def, clientConnect_sent, serverConnect_sent, ← A, ← B, V, hm, hn, hv]
    interval_cases k <;> simp [Fault.apply, hxs, hxs']
  have r3 : round pc ps (.trunc k) (.none) (ps.sendMagic ++ versionBytes ps) = ps.sendMagic ++ versionBytes ps := by
    simp only [round_def, clientConnect_sent, serverConnect_sent, ← A, ← B, V, hm, hn, hv]
    interval_cases k <;> simp [Fault.apply, hxs, hxs']
  obtain ⟨ec, es⟩ := session_of_fix pc ps _ _ _ _ r1 r2 r3
  rw [ec, es]
  constructor
  · rw [Ne]
    rw [clientConnect_err pc h2]
    simp only [expected, ← A, V, hm, hv]
    interval_cases k <;> simp [Fault.apply, hxs, hxs']
  · rw [Ne]
    rw [serverConnect_err ps h4]
    simp only [clientConnect_sent, expected, ← A, ← B, V, hm, hn, hv]
    interval_cases k <;> simp [Fault.apply, hxs, hxs']

theorem flip_sc_late (pc ps : Params) (m : Matched pc ps) (k : Nat) (x : UInt8) (hk1 : 3 ≤ k) (hk2 : k < 15) (hx : x ≠ 0) :
    (session pc ps (.flip k x) (.none)).client ≠ .ok ∧ (session pc ps (.flip k x) (.none)).server = .ok := by
  obtain ⟨h1, h2, h3, h4, A, B, V⟩ := m
  have vs := versionBytes_length ps
  obtain ⟨m0, m1, m2, hm⟩ := len3 _ h3
  obtain ⟨n0, n1, n2, hn⟩ := len3 _ h1
  obtain ⟨v0, v1, v2, v3, v4, v5, v6, v7, v8, v9, v10, v11, hv⟩ := len12 _ vs
  have hxs : ∀ v : UInt8, ¬ (v ^^^ x = v) := fun v => xor_ne v x hx
  have hxs' : ∀ v : UInt8, ¬ (v = v ^^^ x) := fun v e => xor_ne v x hx e.symm
  have r1 : round pc ps (.flip k x) (.none) [] = ps.sendMagic := by
    simp [round_def, clientConnect_sent, serverConnect_sent, Fault.apply]
  have r2 : round pc ps (.flip k x) (.none) ps.sendMagic = ps.sendMagic ++ versionBytes ps := by
    simp only [round_def, clientConnect_sent, serverConnect_sent, ← A, ← B, V, hm, hn, hv]
    interval_cases k <;> simp [Fault.apply, hxs, hxs']
  have r3 : round pc ps (.flip k x) (.none) (ps.sendMagic ++ versionBytes ps) = ps.sendMagic ++ versionBytes ps := by
    simp only [round_def, clientConnect_sent, serverConnect_sent, ← A, ← B, V, hm, hn, hv]
    interval_cases k <;> simp [Fault.apply, hxs, hxs']
  obtain ⟨ec, es⟩ := session_of_fix pc ps _ _ _ _ r1 r2 r3
  rw [ec, es]
  constructor
  · rw [Ne]
    rw [clientConnect_err pc h2]
    simp only [expected, ← A, V, hm, hv]
    interval_cases k <;> simp [Fault.apply, hxs, hxs']
  · rw [serverConnect_err ps h4]
    simp only [clientConnect_sent, expected, ← A, ← B, V, hm, hn, hv]
    interval_cases k <;> simp [Fault.apply, hxs, hxs']

theorem trunc_cs_early (pc ps : Params) (m : Matched pc ps) (k : Nat) (x : UInt8) (hk2 : k < 3) (hx : x ≠ 0) :
    (session pc ps (.none) (.trunc k)).client ≠ .ok ∧ (session pc ps (.none) (.trunc k)).server ≠ .ok := by
  obtain ⟨h1, h2, h3, h4, A, B, V⟩ := m
  have vs := versionBytes_length ps
  obtain ⟨m0, m1, m2, hm⟩ := len3 _ h3
  obtain ⟨n0, n1, n2, hn⟩ := len3 _ h1
  obtain ⟨v0, v1, v2, v3, v4, v5, v6, v7, v8, v9, v10, v11, hv⟩ := len12 _ vs
  have hxs : ∀ v : UInt8, ¬ (v ^^^ x = v) := fun v => xor_ne v x hx
  have hxs' : ∀ v : UInt8, ¬ (v = v ^^^ x) := fun v e => xor_ne v x hx e.symm
  have r1 : round pc ps (.none) (.trunc k) [] = ps.sendMagic := by
    simp [round_def, clientConnect_sent, serverConnect_sent, Fault.apply]
  have r2 : round pc ps (.none) (.trunc k) ps.sendMagic = ps.sendMagic := by
    simp only [round_def, clientConnect_sent, serverConnect_sent, ← A, ← B, V, hm, hn, hv]
    interval_cases k <;> simp [Fault.apply, hxs, hxs']
  have r3 : round pc ps (.none) (.trunc k) (ps.sendMagic) = ps.sendMagic := by
    simp only [round_def, clientConnect_sent, serverConnect_sent, ← A, ← B, V, hm, hn, hv]
    interval_cases k <;> simp [Fault.apply, hxs, hxs']
  obtain ⟨ec, es⟩ := session_of_fix pc ps _ _ _ _ r1 r2 r3
  rw [ec, es]
  constructor
  · rw [Ne]
    rw [clientConnect_err pc h2]
    simp only [expected, ← A, V, hm, hv]
    interval_cases k <;> simp [Fault.apply, hxs, hxs']
  · rw [Ne]
    rw [serverConnect_err ps h4]
    simp only [clientConnect_sent, expected, ← A, ← B, V, hm, hn, hv]
    interval_cases k <;> simp [Fault.apply, hxs, hxs']

theorem flip_cs_early (pc ps : Params) (m : Matched pc ps) (k : Nat) (x : UInt8) (hk2 : k < 3) (hx : x ≠ 0) :
    (session pc ps (.none) (.flip k x)).client ≠ .ok ∧ (session pc ps (.none) (.flip k x)).server ≠ .ok := by
  obtain ⟨h1, h2, h3, h4, A, B, V⟩ := m
  have vs := versionBytes_length ps
  obtain ⟨m0, m1, m2, hm⟩ := len3 _ h3
  obtain ⟨n0, n1, n2, hn⟩ := len3 _ h1
  obtain ⟨v0, v1, v2, v3, v4, v5, v6, v7, v8, v9, v10, v11, hv⟩ := len12 _ vs
  have hxs : ∀ v : UInt8, ¬ (v ^^^ x = v) := fun v => xor_ne v x hx
  have hxs' : ∀ v : UInt8, ¬ (v = v ^^^ x) := fun v e => xor_ne v x hx e.symm
  have r1 : round pc ps (.none) (.flip k x) [] = ps.sendMagic := by
    simp [round_def, clientConnect_sent, serverConnect_sent, Fault.apply]
  have r2 : round pc ps (.none) (.flip k x) ps.sendMagic = ps.sendMagic := by
    simp only [round_def, clientConnect_sent, serverConnect_sent, ← A, ← B, V, hm, hn, hv]
    interval_cases k <;> simp [Fault.apply, hxs, hxs']
  have r3 : round pc ps (.none) (.flip k x) (ps.sendMagic) = ps.sendMagic := by
    simp only [round_def, clientConnect_sent, serverConnect_sent, ← A, ← B, V, hm, hn, hv]
    interval_cases k <;> simp [Fault.apply, hxs, hxs']
  obtain ⟨ec, es⟩ := session_of_fix pc ps _ _ _ _ r1 r2 r3
  rw [ec, es]
  constructor
  · rw [Ne]
    rw [clientConnect_err pc h2]
    simp only [expected, ← A, V, hm, hv]
    interval_cases k <;> simp [Fault.apply, hxs, hxs']
  · rw [Ne]
    rw [serverConnect_err ps h4]
    simp only [clientConnect_sent, expected, ← A, ← B, V, hm, hn, hv]
    interval_cases k <;> simp [Fault.apply, hxs, hxs']

theorem trunc_cs_late (pc ps : Params) (m : Matched pc ps) (k : Nat) (x : UInt8) (hk1 : 3 ≤ k) (hk2 : k < 15) (hx : x ≠ 0) :
    (session pc ps (.none) (.trunc k)).client = .ok ∧ (session pc ps (.none) (.trunc k)).server ≠ .ok := by
  obtain ⟨h1, h2, h3, h4, A, B, V⟩ := m
  have vs := versionBytes_length ps
  obtain ⟨m0, m1, m2, hm⟩ := len3 _ h3
  obtain ⟨n0, n1, n2, hn⟩ := len3 _ h1
  obtain ⟨v0, v1, v2, v3, v4, v5, v6, v7, v8, v9, v10, v11, hv⟩ := len12 _ vs
  have hxs : ∀ v : UInt8, ¬ (v ^^^ x = v) := fun v => xor_ne v x hx
  have hxs' : ∀ v : UInt8, ¬ (v = v ^^^ x) := fun v e => xor_ne v x hx e.symm
  have r1 : round pc ps (.none) (.trunc k) [] = ps.sendMagic := by
    simp [round_def, clientConnect_sent, serverConnect_sent, Fault.apply]
  have r2 : round pc ps (.none) (.trunc k) ps.sendMagic = ps.sendMagic ++ versionBytes ps := by
    simp only [round_def, clientConnect_sent, serverConnect_sent, ← A, ← B, V, hm, hn, hv]
    interval_cases k <;> simp [Fault.apply, hxs, hxs']
  have r3 : round pc ps (.none) (.trunc k) (ps.sendMagic ++ versionBytes ps) = ps.sendMagic ++ versionBytes ps := by
    simp only [round_def, clientConnect_sent, serverConnect_sent, ← A, ← B, V, hm, hn, hv]
    interval_cases k <;> simp [Fault.apply, hxs, hxs']
  obtain ⟨ec, es⟩ := session_of_fix pc ps _ _ _ _ r1 r2 r3
  rw [ec, es]
  constructor
  · rw [clientConnect_err pc h2]
    simp only [expected, ← A, V, hm, hv]
    interval_cases k <;> simp [Fault.apply, hxs, hxs']
  · rw [Ne]
    rw [serverConnect_err ps h4]
    simp only [clientConnect_sent, expected, ← A, ← B, V, hm, hn, hv]
    interval_cases k <;> simp [Fault.apply, hxs, hxs']

theorem flip_cs_late (pc ps : Params) (m : Matched pc ps) (k : Nat) (x : UInt8) (hk1 : 3 ≤ k) (hk2 : k < 15) (hx : x ≠ 0) :
    (session pc ps (.none) (.flip k x)).client = .ok ∧ (session pc ps (.none) (.flip k x)).server ≠ .ok := by
  obtain ⟨h1, h2, h3, h4, A, B, V⟩ := m
  have vs := versionBytes_length ps
  obtain ⟨m0, m1, m2, hm⟩ := len3 _ h3
  obtain ⟨n0, n1, n2, hn⟩ := len3 _ h1
  obtain ⟨v0, v1, v2, v3, v4, v5, v6, v7, v8, v9, v10, v11, hv⟩ := len12 _ vs
  have hxs : ∀ v : UInt8, ¬ (v ^^^ x = v) := fun v => xor_ne v x hx
  have hxs' : ∀ v : UInt8, ¬ (v = v ^^^ x) := fun v e => xor_ne v x hx e.symm
  have r1 : round pc ps (.none) (.flip k x) [] = ps.sendMagic := by
    simp [round_def, clientConnect_sent, serverConnect_sent, Fault.apply]
  have r2 : round pc ps (.none) (.flip k x) ps.sendMagic = ps.sendMagic ++ versionBytes ps := by
    simp only [round_def, clientConnect_sent, serverConnect_sent, ← A, ← B, V, hm, hn, hv]
    interval_cases k <;> simp [Fault.apply, hxs, hxs']
  have r3 : round pc ps (.none) (.flip k x) (ps.sendMagic ++ versionBytes ps) = ps.sendMagic ++ versionBytes ps := by
    simp only [round_def, clientConnect_sent, serverConnect_sent, ← A, ← B, V, hm, hn, hv]
    interval_cases k <;> simp [Fault.apply, hxs, hxs']
  obtain ⟨ec, es⟩ := session_of_fix pc ps _ _ _ _ r1 r2 r3
  rw [ec, es]
  constructor
  · rw [clientConnect_err pc h2]
    simp only [expected, ← A, V, hm, hv]
    interval_cases k <;> simp [Fault.apply, hxs, hxs']
  · rw [Ne]
    rw [serverConnect_err ps h4]
    simp only [clientConnect_sent, expected, ← A, ← B, V, hm, hn, hv]
    interval_cases k <;> simp [Fault.apply, hxs, hxs']

end Mutagen.Proofs.Handshake
