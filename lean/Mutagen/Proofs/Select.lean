import Mutagen.Model.Select
/-!
Specification-level definitions and helper lemmas for C40.

* `split` — `strings.Split(p, "/")` on byte lists; `lexLt` — lexicographic
  order on lists for a strict order on the elements. Depth-first traversal
  order of root-relative paths (children visited in byte-wise name order,
  a directory before its contents) is `lexLt bytesLt` on the component lists.
* `StrictTotal`, `StrictWeak` — order axioms for `Bool`-valued comparisons.
* insertion sort (`sortBy`) sorts and permutes.
-/
namespace Mutagen.Proofs.Select
open Mutagen.Model.Select

/-! ## Orders -/

structure StrictTotal {α} (lt : α → α → Bool) : Prop where
  irrefl : ∀ a, lt a a = false
  trans : ∀ a b c, lt a b = true → lt b c = true → lt a c = true
  tri : ∀ a b, lt a b = false → lt b a = false → a = b

structure StrictWeak {α} (lt : α → α → Bool) : Prop where
  asymm : ∀ a b, lt a b = true → lt b a = false
  negTrans : ∀ a b c, lt a b = false → lt b c = false → lt a c = false

theorem StrictTotal.asymm {α} {lt : α → α → Bool} (h : StrictTotal lt) (a b : α)
    (hab : lt a b = true) : lt b a = false := by
  cases hba : lt b a with
  | false => rfl
  | true => have := h.trans a b a hab hba; rw [h.irrefl] at this; cases this

theorem StrictTotal.strictWeak {α} {lt : α → α → Bool} (h : StrictTotal lt) : StrictWeak lt where
  asymm := h.asymm
  negTrans := by
    intro a b c hab hbc
    cases hac : lt a c with
    | false => rfl
    | true =>
      cases hba : lt b a with
      | true => have := h.trans b a c hba hac; rw [hbc] at this; cases this
      | false =>
        have : a = b := h.tri a b hab hba
        subst this; rw [hbc] at hac; cases hac

/-- Lexicographic order on lists (a proper prefix is smaller). -/
def lexLt {α} (lt : α → α → Bool) : List α → List α → Bool
  | [], [] => false
  | [], _ :: _ => true
  | _ :: _, [] => false
  | a :: as, b :: bs => if lt a b then true else if lt b a then false else lexLt lt as bs

theorem lexLt_irrefl {α} {lt : α → α → Bool} (h : ∀ a, lt a a = false) : ∀ l, lexLt lt l l = false
  | [] => rfl
  | a :: as => by simp [lexLt, h a, lexLt_irrefl h as]

theorem lexLt_trans {α} {lt : α → α → Bool} (h : StrictTotal lt) :
    ∀ a b c, lexLt lt a b = true → lexLt lt b c = true → lexLt lt a c = true
  | [], [], _, hab, _ => by simp [lexLt] at hab
  | [], _ :: _, [], _, hbc => by simp [lexLt] at hbc
  | [], _ :: _, _ :: _, _, _ => by simp [lexLt]
  | _ :: _, [], _, hab, _ => by simp [lexLt] at hab
  | _ :: _, _ :: _, [], _, hbc => by simp [lexLt] at hbc
  | x :: xs, y :: ys, z :: zs, hab, hbc => by
    simp only [lexLt] at hab hbc ⊢
    by_cases hxy : lt x y = true
    · by_cases hyz : lt y z = true
      · simp [h.trans x y z hxy hyz]
      · simp only [hyz] at hbc
        by_cases hzy : lt z y = true
        · simp [hzy] at hbc
        · have : y = z := h.tri y z (by simpa using hyz) (by simpa using hzy)
          subst this; simp [hxy]
    · simp only [hxy] at hab
      by_cases hyx : lt y x = true
      · simp [hyx] at hab
      · have : x = y := h.tri x y (by simpa using hxy) (by simpa using hyx)
        subst this
        simp only [hyx] at hab
        by_cases hxz : lt x z = true
        · simp [hxz]
        · simp only [hxz] at hbc ⊢
          by_cases hzx : lt z x = true
          · simp [hzx] at hbc
          · simp only [hzx] at hbc ⊢
            simp only [Bool.false_eq_true, if_false] at hab hbc ⊢
            exact lexLt_trans h xs ys zs hab hbc

theorem lexLt_tri {α} {lt : α → α → Bool} (h : StrictTotal lt) :
    ∀ a b, lexLt lt a b = false → lexLt lt b a = false → a = b
  | [], [], _, _ => rfl
  | [], _ :: _, hab, _ => by simp [lexLt] at hab
  | _ :: _, [], _, hba => by simp [lexLt] at hba
  | x :: xs, y :: ys, hab, hba => by
    simp only [lexLt] at hab hba
    by_cases hxy : lt x y = true
    · simp [hxy] at hab
    · by_cases hyx : lt y x = true
      · simp [hyx] at hba
      · have : x = y := h.tri x y (by simpa using hxy) (by simpa using hyx)
        subst this
        simp only [hxy, Bool.false_eq_true, if_false] at hab hba
        rw [lexLt_tri h xs ys hab hba]

theorem lexLt_strictTotal {α} {lt : α → α → Bool} (h : StrictTotal lt) : StrictTotal (lexLt lt) where
  irrefl := lexLt_irrefl h.irrefl
  trans := lexLt_trans h
  tri := lexLt_tri h

/-- A list is smaller than each of its proper extensions. -/
theorem lexLt_append {α} {lt : α → α → Bool} (h : ∀ a, lt a a = false) :
    ∀ (l m : List α), m ≠ [] → lexLt lt l (l ++ m) = true
  | [], [], hm => absurd rfl hm
  | [], _ :: _, _ => rfl
  | a :: as, m, hm => by simp [lexLt, h a, lexLt_append h as m hm]

/-! ## Bytes -/

def byteLt (a b : UInt8) : Bool := decide (a < b)

theorem byteLt_strictTotal : StrictTotal byteLt where
  irrefl := by intro a; simp [byteLt]
  trans := by
    intro a b c hab hbc
    simp only [byteLt, decide_eq_true_eq] at *
    exact UInt8.lt_trans hab hbc
  tri := by
    intro a b hab hba
    simp only [byteLt, decide_eq_false_iff_not, UInt8.not_lt] at *
    exact UInt8.le_antisymm hba hab

theorem bytesLt_eq_lexLt : ∀ a b, bytesLt a b = lexLt byteLt a b
  | [], [] => rfl
  | [], _ :: _ => rfl
  | _ :: _, [] => rfl
  | a :: as, b :: bs => by
    simp only [bytesLt, lexLt, byteLt, decide_eq_true_eq]
    rw [bytesLt_eq_lexLt as bs]

theorem bytesLt_strictTotal : StrictTotal bytesLt := by
  have : bytesLt = lexLt byteLt := by funext a b; exact bytesLt_eq_lexLt a b
  rw [this]; exact lexLt_strictTotal byteLt_strictTotal

/-! ## Components -/

/-- `strings.Split(p, "/")`. -/
def split : Path → List Path
  | [] => [[]]
  | c :: cs =>
    if c = 47 then [] :: split cs
    else match split cs with
      | [] => [[c]]
      | h :: t => (c :: h) :: t

/-- `strings.Join(l, "/")`. -/
def join : List Path → Path
  | [] => []
  | [p] => p
  | p :: q :: rest => p ++ 47 :: join (q :: rest)

theorem split_ne_nil : ∀ p, split p ≠ []
  | [] => by simp [split]
  | c :: cs => by
    simp only [split]
    split
    · simp
    · split <;> simp

/-- The front component and the remainder computed by the loop are the head
and the tail of the component list. -/
theorem split_eq_front (p : Path) :
    split p = (front p).1 :: (match (front p).2 with | none => [] | some r => split r) := by
  induction p with
  | nil => simp [split, front]
  | cons c cs ih =>
    by_cases hc : c = 47
    · simp [split, front, hc]
    · simp only [split, front, hc, if_false]
      rw [ih]

theorem front_rest_length (p : Path) (r : Path) (h : (front p).2 = some r) : r.length < p.length := by
  induction p with
  | nil => simp [front] at h
  | cons c cs ih =>
    by_cases hc : c = 47
    · simp [front, hc] at h; subst h; simp
    · simp only [front, hc, if_false] at h
      have := ih h
      simp; omega

/-- A path is determined by its front component and remainder. -/
theorem eq_of_front_eq (p q : Path) (h1 : (front p).1 = (front q).1) (h2 : (front p).2 = (front q).2) : p = q := by
  induction p generalizing q with
  | nil =>
    cases q with
    | nil => rfl
    | cons d ds =>
      by_cases hd : d = 47
      · simp [front, hd] at h2
      · simp [front, hd] at h1
  | cons c cs ih =>
    cases q with
    | nil =>
      by_cases hc : c = 47
      · simp [front, hc] at h2
      · simp [front, hc] at h1
    | cons d ds =>
      by_cases hc : c = 47 <;> by_cases hd : d = 47
      · simp [front, hc, hd] at h2; simp [hc, hd, h2]
      · simp [front, hc, hd] at h1
      · simp [front, hc, hd] at h1
      · simp only [front, hc, hd, if_false] at h1 h2
        have h1' := List.cons.inj h1
        rw [h1'.1, ih ds h1'.2 h2]

/-- The loop of `Less` computes the depth-first order of the component lists,
provided the paths differ (Go handles equal paths before the loop) and the
fuel covers the length of the first path. -/
theorem lessLoop_eq (fuel : Nat) (a b : Path) (hne : a ≠ b) (hfuel : a.length < fuel) :
    lessLoop fuel a b = lexLt bytesLt (split a) (split b) := by
  induction fuel generalizing a b with
  | zero => omega
  | succ fuel ih =>
    rw [split_eq_front a, split_eq_front b]
    simp only [lessLoop, lexLt]
    by_cases h1 : bytesLt (front a).1 (front b).1 = true
    · simp [h1]
    · by_cases h2 : bytesLt (front b).1 (front a).1 = true
      · simp [h1, h2]
      · simp only [h1, h2, Bool.false_eq_true, if_false]
        have hfe : (front a).1 = (front b).1 :=
          bytesLt_strictTotal.tri _ _ (by simpa using h1) (by simpa using h2)
        cases ha : (front a).2 with
        | none =>
          cases hb : (front b).2 with
          | none => exact absurd (eq_of_front_eq a b hfe (by rw [ha, hb])) hne
          | some rb =>
            have := split_ne_nil rb
            cases hs : split rb with
            | nil => exact absurd hs this
            | cons _ _ => simp only [hs, lexLt]
        | some ra =>
          cases hb : (front b).2 with
          | none =>
            have := split_ne_nil ra
            cases hs : split ra with
            | nil => exact absurd hs this
            | cons _ _ => simp only [hs, lexLt]
          | some rb =>
            simp only
            have hlen := front_rest_length a ra ha
            apply ih
            · intro heq
              apply hne
              apply eq_of_front_eq a b hfe
              rw [ha, hb, heq]
            · omega

/-- `fastpath.Less` is the depth-first order on component lists. -/
theorem less_eq_lexLt (a b : Path) : less a b = lexLt bytesLt (split a) (split b) := by
  unfold less
  by_cases hab : a = b
  · subst hab; simp [lexLt_irrefl bytesLt_strictTotal.irrefl]
  · simp only [hab, if_false]
    by_cases ha : a = []
    · subst ha
      simp only [if_true]
      cases b with
      | nil => exact absurd rfl hab
      | cons d ds =>
        rw [split_eq_front (d :: ds)]
        by_cases hd : d = 47
        · have := split_ne_nil ds
          cases hs : split ds with
          | nil => exact absurd hs this
          | cons _ _ => simp [split, front, hd, lexLt, bytesLt, hs]
        · simp [split, front, hd, lexLt, bytesLt]
    · simp only [ha, if_false]
      by_cases hb : b = []
      · subst hb
        simp only [if_true]
        cases a with
        | nil => exact absurd rfl ha
        | cons c cs =>
          rw [split_eq_front (c :: cs)]
          by_cases hc : c = 47
          · simp [split, front, hc, lexLt, bytesLt]
            cases split cs <;> simp [lexLt]
          · simp [split, front, hc, lexLt, bytesLt]
      · simp only [hb, if_false]
        exact lessLoop_eq _ a b hab (by omega)

theorem join_split : ∀ p, join (split p) = p
  | [] => rfl
  | c :: cs => by
    have ih := join_split cs
    by_cases hc : c = 47
    · simp only [split, hc, if_true]
      cases hs : split cs with
      | nil => exact absurd hs (split_ne_nil cs)
      | cons h t => rw [hs] at ih; simp [join, ih]
    · simp only [split, hc, if_false]
      cases hs : split cs with
      | nil => exact absurd hs (split_ne_nil cs)
      | cons h t =>
        rw [hs] at ih
        cases t with
        | nil => simp [join] at ih ⊢; exact ih
        | cons q rest => simp [join] at ih ⊢; exact ih

theorem split_injective (a b : Path) (h : split a = split b) : a = b := by
  rw [← join_split a, ← join_split b, h]

theorem less_strictTotal : StrictTotal less := by
  have hl := lexLt_strictTotal bytesLt_strictTotal
  refine ⟨?_, ?_, ?_⟩
  · intro a; rw [less_eq_lexLt]; exact hl.irrefl _
  · intro a b c; simp only [less_eq_lexLt]; exact hl.trans _ _ _
  · intro a b h1 h2
    simp only [less_eq_lexLt] at h1 h2
    exact split_injective a b (hl.tri _ _ h1 h2)

/-- `split (p ++ "/" ++ q) = split p ++ split q`. -/
theorem split_append_slash : ∀ (p q : Path), split (p ++ 47 :: q) = split p ++ split q
  | [], q => by simp [split]
  | c :: cs, q => by
    have ih := split_append_slash cs q
    by_cases hc : c = 47
    · simp [split, hc, ih]
    · simp only [List.cons_append, split, hc, if_false, ih]
      cases hs : split cs with
      | nil => exact absurd hs (split_ne_nil cs)
      | cons h t => simp

/-! ## Insertion sort -/

/-- Sorted for a strict comparison: no element is greater than a later one. -/
def Sorted {α} (lt : α → α → Bool) (l : List α) : Prop := l.Pairwise fun a b => lt b a = false

theorem insertBy_perm {α} (lt : α → α → Bool) (x : α) : ∀ l, (insertBy lt x l).Perm (x :: l)
  | [] => List.Perm.refl _
  | y :: ys => by
    simp only [insertBy]
    split
    · exact ((insertBy_perm lt x ys).cons y).trans (List.Perm.swap x y ys)
    · exact List.Perm.refl _

theorem sortBy_perm {α} (lt : α → α → Bool) : ∀ l, (sortBy lt l).Perm l
  | [] => List.Perm.refl _
  | x :: xs => (insertBy_perm lt x (sortBy lt xs)).trans ((sortBy_perm lt xs).cons x)

theorem insertBy_sorted {α} {lt : α → α → Bool} (h : StrictWeak lt) (x : α) :
    ∀ l, Sorted lt l → Sorted lt (insertBy lt x l)
  | [], _ => by simp [insertBy, Sorted]
  | y :: ys, hs => by
    simp only [Sorted, List.pairwise_cons] at hs
    simp only [insertBy]
    split
    · rename_i hyx
      simp only [Sorted, List.pairwise_cons]
      refine ⟨?_, insertBy_sorted h x ys hs.2⟩
      intro z hz
      have := (insertBy_perm lt x ys).mem_iff.mp hz
      simp only [List.mem_cons] at this
      rcases this with rfl | hz
      · exact h.asymm _ _ hyx
      · exact hs.1 z hz
    · rename_i hyx
      have hyx : lt y x = false := by simpa using hyx
      simp only [Sorted, List.pairwise_cons]
      refine ⟨?_, hs⟩
      intro z hz
      simp only [List.mem_cons] at hz
      rcases hz with rfl | hz
      · exact hyx
      · exact h.negTrans z y x (hs.1 z hz) hyx

theorem sortBy_sorted {α} {lt : α → α → Bool} (h : StrictWeak lt) : ∀ l, Sorted lt (sortBy lt l)
  | [] => by simp [sortBy, Sorted]
  | x :: xs => insertBy_sorted h x _ (sortBy_sorted h xs)

/-! ## Truncation -/

theorem truncate_eq {α} (limit : Nat) (l : List α) :
    truncate limit l = (l.take limit, l.length - limit) := by
  unfold truncate
  split
  · rfl
  · rename_i h
    have h : l.length ≤ limit := by omega
    rw [List.take_of_length_le h]
    congr 1
    omega

/-! ## Selection by specification -/

/-- A session matches at least one of the specifications. -/
def matchesAny (specs : List String) (s : Session) : Bool := specs.any fun spec => specMatches spec s

/-- Every specification matches at least one session. -/
def allMatched (sessions : List Session) (specs : List String) : Bool :=
  specs.all fun spec => sessions.any (specMatches spec)

theorem zipWith_or_false : ∀ (marks : List Bool) (ss : List Session), marks.length = ss.length →
    List.zipWith (· || ·) marks (ss.map fun _ => false) = marks
  | [], [], _ => rfl
  | [], _ :: _, h => by simp at h
  | _ :: _, [], h => by simp at h
  | m :: ms, s :: ss, h => by
    simp only [List.map_cons, List.zipWith_cons_cons, Bool.or_false]
    rw [zipWith_or_false ms ss (by simpa using h)]

theorem zipWith_or_assoc (f g : Session → Bool) : ∀ (marks : List Bool) (ss : List Session),
    List.zipWith (· || ·) (List.zipWith (· || ·) marks (ss.map f)) (ss.map g)
      = List.zipWith (· || ·) marks (ss.map fun s => f s || g s)
  | [], _ => by simp
  | _ :: _, [] => by simp
  | m :: ms, s :: ss => by
    simp only [List.map_cons, List.zipWith_cons_cons, Bool.or_assoc]
    rw [zipWith_or_assoc f g ms ss]

theorem findBySpecLoop_eq (ss : List Session) : ∀ (specs : List String) (marks : List Bool),
    marks.length = ss.length →
    findBySpecLoop ss specs marks =
      if allMatched ss specs then .ok (List.zipWith (· || ·) marks (ss.map (matchesAny specs)))
      else .error .noMatch
  | [], marks, h => by
    have hm : matchesAny [] = fun _ => false := by funext s; simp [matchesAny]
    simp only [findBySpecLoop, allMatched, List.all_nil, if_true, hm]
    rw [zipWith_or_false marks ss h]
  | spec :: rest, marks, h => by
    simp only [findBySpecLoop, List.any_map]
    have hid : (id ∘ specMatches spec) = specMatches spec := rfl
    rw [hid]
    by_cases hm : ss.any (specMatches spec) = true
    · rw [if_pos hm]
      rw [findBySpecLoop_eq ss rest _ (by simp [h])]
      have : allMatched ss (spec :: rest) = allMatched ss rest := by
        simp [allMatched, hm]
      rw [this, zipWith_or_assoc]
      have : (fun s => specMatches spec s || matchesAny rest s) = matchesAny (spec :: rest) := by
        funext s; simp [matchesAny]
      rw [this]
    · rw [if_neg hm]
      have : allMatched ss (spec :: rest) = false := by
        simp only [allMatched, List.all_cons]
        simp [Bool.not_eq_true _ ▸ hm]
      rw [this]; simp

theorem zipWith_false_or (f : Session → Bool) : ∀ ss : List Session,
    List.zipWith (· || ·) (ss.map fun _ => false) (ss.map f) = ss.map f
  | [] => rfl
  | s :: ss => by simp [zipWith_false_or f ss]

theorem marked_map (f : Session → Bool) : ∀ ss : List Session, marked ss (ss.map f) = ss.filter f
  | [] => rfl
  | s :: ss => by
    have ih := marked_map f ss
    simp only [marked] at ih ⊢
    simp only [List.map_cons, List.zip_cons_cons, List.filter_cons]
    cases hf : f s <;> simp [ih]

theorem findBySpec_eq (ss : List Session) (specs : List String) :
    findBySpec ss specs =
      if allMatched ss specs then .ok (ss.filter (matchesAny specs)) else .error .noMatch := by
  unfold findBySpec
  rw [findBySpecLoop_eq ss specs _ (by simp)]
  by_cases h : allMatched ss specs = true
  · simp only [h, if_true, zipWith_false_or, marked_map]
  · simp [h]

/-! ## Creation-time order -/

theorem createdBefore_strictWeak : StrictWeak createdBefore where
  asymm := by
    intro a b h
    simp only [createdBefore, Bool.or_eq_true, Bool.and_eq_true, decide_eq_true_eq, beq_iff_eq] at h
    simp only [createdBefore, Bool.or_eq_false_iff, Bool.and_eq_false_iff, decide_eq_false_iff_not,
      beq_eq_false_iff_ne, ne_eq]
    omega
  negTrans := by
    intro a b c h1 h2
    simp only [createdBefore, Bool.or_eq_false_iff, Bool.and_eq_false_iff, decide_eq_false_iff_not,
      beq_eq_false_iff_ne, ne_eq] at h1 h2 ⊢
    omega

end Mutagen.Proofs.Select
