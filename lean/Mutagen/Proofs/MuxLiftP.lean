/-
Lifting of the per-identifier lemmas to the local actions of a side
(`Side.act`): the side acts as the acceptor of the identifier `X`.
-/
import Mutagen.Proofs.MuxLiftO
import Mutagen.Proofs.MuxStepP1
namespace Mutagen.Model.Mux

variable {o p : Side} {wop wpo : List Msg} {X : Nat}

theorem PerId.frame_p {p' : Side} {ms : List Msg}
    (h : PerId o p (onlyAbout X wop) (onlyAbout X wpo) X)
    (hs : Same p p' X) (hm : ∀ m ∈ ms, m.about X = false) :
    PerId o p' (onlyAbout X wop) (onlyAbout X (wpo ++ ms)) X := by
  rw [onlyAbout_append_other _ _ hm]
  exact h.same (Same.refl o X) hs

/-- `Stream.close(true)` in one go, for a stream that is not (or no longer) in the backlog. -/
theorem PerId.close_p {w v : List Msg} (h : PerId o p w v X) (st : Stream) (hs : p.streams X = some st)
    (hm : p.closedMux = false) (hnb : X ∉ p.backlog) : PerId o (p.close X true) w v X := by
  unfold Side.close
  simp only [hs]
  by_cases hcl : st.closed = true
  · simpa [hcl] using h
  · simp only [hcl, Bool.false_eq_true, ↓reduceIte]
    have hcl' : st.closed = false := by simpa using hcl
    have e1 := closeBegin_atEq p X st hs hcl' hm
    have h1 := h.closeBegin_p st hs hcl' e1.streams e1.pendIncr e1.pendCW e1.pendClose e1.largestIn
      (by rw [e1.backlog]; exact hnb) e1.window
    exact h1.deregister_p _ e1.streams rfl (deregister_atEq _ X _ e1.streams)

/-- Every local action of the side that accepts `X` preserves the invariant of `X`. -/
theorem PerId.act_p (a : SAct) (h : PerId o p (onlyAbout X wop) (onlyAbout X wpo) X)
    (hc : p.closedMux = false) (hpo : p.isOutbound X = false)
    (hnx : p.nextOut ≠ 0 → p.isOutbound p.nextOut = true) (hnd : p.backlog.Nodup) :
    PerId o (p.act a).1 (onlyAbout X wop) (onlyAbout X (wpo ++ (p.act a).2)) X := by
  have hnil : PerId o p (onlyAbout X wop) (onlyAbout X (wpo ++ [])) X := by simpa using h
  have hest_nb : ∀ st, p.streams X = some st → st.established = true → X ∉ p.backlog := by
    intro st hs he hin
    obtain ⟨sp, hsp, hne, _⟩ := h.backlog hin
    rw [hs] at hsp; cases hsp; simp [he] at hne
  cases a with
  | openStream =>
    simp only [Side.act]
    by_cases hn : p.nextOut = 0
    · have : p.openStream = (p, [], .exhausted) := by simp [Side.openStream, hc, hn]
      rw [this]; exact hnil
    · have hx : X ≠ p.nextOut := by
        intro he; have := hnx hn; rw [← he, hpo] at this; cases this
      exact h.frame_p (openStream_same p hx) (openStream_msgs p hx)
  | openWait Y c =>
    simp only [Side.act]
    split
    · rename_i hy
      have hx : X ≠ Y := by intro he; subst he; rw [hpo] at hy; cases hy
      exact h.frame_p (openWait_same p c hx) (by simp)
    · exact hnil
  | accept g =>
    simp only [Side.act]
    cases hb : p.backlog with
    | nil =>
      have : p.acceptOne g false = (p, [], .block) := by
        simp [Side.acceptOne, hb, hc]
      rw [this]; exact hnil
    | cons Y rest =>
      by_cases hx : X = Y
      · subst hx
        have hin : X ∈ p.backlog := by rw [hb]; exact List.mem_cons_self
        obtain ⟨st, hs, hne, hcl, hreg⟩ := h.backlog hin
        have hnr : X ∉ rest := by
          have := hnd; rw [hb] at this; exact (List.nodup_cons.mp this).1
        have hpop : Same p { p with backlog := rest } X :=
          pop_same p X rest (fun Z hz => by rw [hb]; exact List.mem_cons_of_mem _ hz)
        have h0 := h.same (Same.refl o X) hpop
        by_cases hst : (st.remoteClosed = true ∧ g = true)
        · have : p.acceptOne g false = (({ p with backlog := rest }).close X true, [], .stale X) := by
            simp [Side.acceptOne, hb, hs, hst.1, hst.2]
          rw [this]
          simpa using h0.close_p st hs hc hnr
        · have : p.acceptOne g false =
              (({ p with backlog := rest }).setStream X { st with established := true },
               [.accept X p.window], .ok X) := by
            simp only [Side.acceptOne, hb, hs]
            simp only [hst, ↓reduceIte]
          rw [this, onlyAbout_append_one _ _ (by simp [Msg.about, Msg.id])]
          refine h.accept_p hin st hs ?_ ?_ ?_ ?_ ?_ ?_ ?_
          · simp [Side.setStream]
          · simp [Side.setStream]
          · simp [Side.setStream]
          · simp [Side.setStream]
          · simp [Side.setStream]
          · simpa [Side.setStream] using hnr
          · simp [Side.setStream]
      · have hbl' : ∀ r, p.backlog ≠ X :: r := by
          intro r he; rw [hb] at he; cases he; exact hx rfl
        exact h.frame_p (acceptOne_same p g hbl') (acceptOne_msgs p g hbl')
  | acceptAbort =>
    simp only [Side.act]
    cases hb : p.backlog with
    | nil =>
      have : p.acceptAbort = p := by simp [Side.acceptAbort, hb]
      rw [this]; exact hnil
    | cons Y rest =>
      by_cases hx : X = Y
      · subst hx
        have hin : X ∈ p.backlog := by rw [hb]; exact List.mem_cons_self
        obtain ⟨st, hs, hne, hcl, hreg⟩ := h.backlog hin
        have hnr : X ∉ rest := by
          have := hnd; rw [hb] at this; exact (List.nodup_cons.mp this).1
        have hpop : Same p { p with backlog := rest } X :=
          pop_same p X rest (fun Z hz => by rw [hb]; exact List.mem_cons_of_mem _ hz)
        have h0 := h.same (Same.refl o X) hpop
        have : p.acceptAbort = ({ p with backlog := rest }).close X true := by
          simp [Side.acceptAbort, hb]
        rw [this]
        simpa using h0.close_p st hs hc hnr
      · have hbl' : ∀ r, p.backlog ≠ X :: r := by
          intro r he; rw [hb] at he; cases he; exact hx rfl
        exact h.frame_p (acceptAbort_same p hbl') (by simp)
  | read Y k now =>
    simp only [Side.act]
    split
    · rename_i hh
      obtain ⟨st, hs, he⟩ := (hasHandle_iff p Y).mp hh
      by_cases hx : X = Y
      · subst hx
        rcases read_at p X k now st hs hc with he' | ⟨st', hi, e⟩ | ⟨k', got, hk, hle, hcl, e⟩
        · rw [he']; exact hnil
        · simpa using h.irrelevant_p st st' hs hi.1 hi.2 hi.3 hi.4 hi.5 hi.6 hi.7 hi.8 hi.9 e
        · simpa using h.read_p st hs he hcl k' hk hle got e
      · exact h.frame_p (read_same p k now hx) (by simp)
    · exact hnil
  | writeChunk Y data =>
    simp only [Side.act]
    split
    · rename_i hh
      obtain ⟨hh1, hh2⟩ := hh
      obtain ⟨st, hs, he⟩ := (hasHandle_iff p Y).mp hh1
      have hcw : st.closedWrite = false := by simpa [Side.flagOf, hs] using hh2
      by_cases hx : X = Y
      · subst hx
        rcases writeChunk_at p X data st hs with ⟨he', hm⟩ | ⟨bs, hbs, hlen, hm, e⟩
        · rw [he', hm]; exact hnil
        · rw [hm, onlyAbout_append_one _ _ (by simp [Msg.about, Msg.id])]
          exact h.write_p st hs he hcw bs hbs hlen e
      · exact h.frame_p (writeChunk_same p data hx) (writeChunk_msgs p data hx)
    · exact hnil
  | closeWrite Y =>
    simp only [Side.act]
    split
    · rename_i hh
      obtain ⟨st, hs, he⟩ := (hasHandle_iff p Y).mp hh
      by_cases hx : X = Y
      · subst hx
        by_cases hcw : st.closedWrite = true
        · have : p.closeWrite X true = p := by simp [Side.closeWrite, hs, hcw]
          rw [this]; exact hnil
        · have hcw' : st.closedWrite = false := by simpa using hcw
          simpa using h.closeWrite_p st hs he hcw' (closeWrite_atEq p X st hs hcw' hc)
      · exact h.frame_p (closeWrite_same p true hx) (by simp)
    · exact hnil
  | closeBegin Y =>
    simp only [Side.act]
    split
    · rename_i hh
      obtain ⟨st, hs, he⟩ := (hasHandle_iff p Y).mp hh
      by_cases hx : X = Y
      · subst hx
        by_cases hcl : st.closed = true
        · have hcw := (h.flowPO.closed_clean st hs hcl).1
          rw [closeBegin_of_closed p X true st hs hcl hcw]; exact hnil
        · have hcl' : st.closed = false := by simpa using hcl
          have e := closeBegin_atEq p X st hs hcl' hc
          simpa using h.closeBegin_p st hs hcl' e.streams e.pendIncr e.pendCW e.pendClose e.largestIn
            (by rw [e.backlog]; exact hest_nb st hs he) e.window
      · exact h.frame_p (closeBegin_same p true hx) (by simp)
    · exact hnil
  | deregister Y =>
    simp only [Side.act]
    split
    · rename_i hh
      by_cases hx : X = Y
      · subst hx
        cases hs : p.streams X with
        | none => simp [Side.flagOf, hs] at hh
        | some st =>
          have hcl : st.closed = true := by simpa [Side.flagOf, hs] using hh
          simpa using h.deregister_p st hs hcl (deregister_atEq p X st hs)
      · exact h.frame_p (deregister_same p hx) (by simp)
    · exact hnil
  | flushIncr Y =>
    simp only [Side.act]
    by_cases hx : X = Y
    · subst hx
      rcases flushIncr_at p X with he | ⟨v, hv, hm, e⟩
      · rw [he]; exact hnil
      · rw [hm, onlyAbout_append_one _ _ (by simp [Msg.about, Msg.id])]
        exact h.flushIncr_p v hv e
    · exact h.frame_p (flushIncr_same p hx) (flush_msgs p hx).1
  | flushCW Y =>
    simp only [Side.act]
    by_cases hx : X = Y
    · subst hx
      rcases flushCW_at p X with he | ⟨hv, hm, e⟩
      · rw [he]; exact hnil
      · rw [hm, onlyAbout_append_one _ _ (by simp [Msg.about, Msg.id])]
        exact h.flushCW_p hv e
    · exact h.frame_p (flushCW_same p hx) (flush_msgs p hx).2.1
  | flushClose Y =>
    simp only [Side.act]
    by_cases hx : X = Y
    · subst hx
      rcases flushClose_at p X with he | ⟨hv, hm, e⟩
      · rw [he]; exact hnil
      · rw [hm, onlyAbout_append_one _ _ (by simp [Msg.about, Msg.id])]
        exact h.flushClose_p hv e
    · exact h.frame_p (flushClose_same p hx) (flush_msgs p hx).2.2
  | setReadDeadline Y d =>
    simp only [Side.act]
    split
    · rename_i hh
      obtain ⟨st, hs, he⟩ := (hasHandle_iff p Y).mp hh
      by_cases hx : X = Y
      · subst hx
        rcases setReadDeadline_at p X d st hs with he' | ⟨st', hi, e⟩
        · rw [he']; exact hnil
        · simpa using h.irrelevant_p st st' hs hi.1 hi.2 hi.3 hi.4 hi.5 hi.6 hi.7 hi.8 hi.9 e
      · exact h.frame_p (setReadDeadline_same p d hx) (by simp)
    · exact hnil
  | setWriteDeadline Y d =>
    simp only [Side.act]
    split
    · rename_i hh
      obtain ⟨st, hs, he⟩ := (hasHandle_iff p Y).mp hh
      by_cases hx : X = Y
      · subst hx
        rcases setWriteDeadline_at p X d st hs with he' | ⟨st', hi, e⟩
        · rw [he']; exact hnil
        · simpa using h.irrelevant_p st st' hs hi.1 hi.2 hi.3 hi.4 hi.5 hi.6 hi.7 hi.8 hi.9 e
      · exact h.frame_p (setWriteDeadline_same p d hx) (by simp)
    · exact hnil

end Mutagen.Model.Mux
