import Mutagen.Proofs.TransitionSafe
/-!
What a plan expects on disk (`expectedAt`), and the instantiation of the
protection invariant for a whole plan.
-/
namespace Mutagen.Proofs.FS
open Mutagen.Model Mutagen.Model.TFS Mutagen.Proofs.Assoc

/-- `NodeAt e base p pr`: the entry `e`, placed at path `base`, has a node with
scalar fields `pr` at path `p`. -/
inductive NodeAt : Entry → Path → Path → Props → Prop
  | here (pr : Props) (cs : Contents) (base : Path) : NodeAt (.mk pr cs) base base pr
  | child (pr : Props) (cs : Contents) (base : Path) (c : Name) (e' : Entry) (p : Path) (pr' : Props) :
      lookup c cs = some e' → NodeAt e' (base ++ [c]) p pr' → NodeAt (.mk pr cs) base p pr'

/-- Some transition of the plan has, in its old entry, a node with scalar
fields `pr` at path `p`: the plan expects that on disk. -/
def expectedAt (plan : List Change) (p : Path) (pr : Props) : Prop :=
  ∃ t ∈ plan, ∃ e0, t.old = some e0 ∧ NodeAt e0 t.path p pr

theorem lookup_size_lt (c : Name) (cs : Contents) (e' : Entry) (h : lookup c cs = some e') :
    e'.size < 1 + Entry.sizeL cs := by
  have := osz_lookup_le_sizeL c cs
  rw [h] at this
  simp only [osz] at this
  omega

theorem within_of_nodeAt (C : Ctx) : ∀ (n : Nat) (e : Entry) (base : Path), e.size ≤ n →
    (∀ p pr, NodeAt e base p pr → C.ExpP p pr) → Within C base e := by
  intro n
  induction n with
  | zero =>
    intro e base hs _
    have := Entry.size_pos e
    omega
  | succ n ih =>
    intro e base hs h
    cases e with
    | mk pr cs =>
      refine Within.mk base pr cs (h base pr (NodeAt.here pr cs base)) ?_
      intro c e' hl
      apply ih e' (base ++ [c])
      · have := lookup_size_lt c cs e' hl
        simp only [Entry.size] at hs
        omega
      · intro p pr' hn
        exact h p pr' (NodeAt.child pr cs base c e' p pr' hl hn)

/-- The context of a whole plan started in state `st`. -/
def planCtx (env : Env) (st : St) (plan : List Change) : Ctx :=
  { env := env, f1 := st.fs, ExpP := expectedAt plan }

theorem plan_within (env : Env) (st : St) (plan : List Change) :
    ∀ t ∈ plan, ∀ e, t.old = some e → Within (planCtx env st plan) t.path e := by
  intro t ht e he
  apply within_of_nodeAt (planCtx env st plan) e.size e t.path (Nat.le_refl _)
  intro p pr hn
  exact ⟨t, ht, e, he, hn⟩

/-- **Master theorem of C08**: every guarded position of the tree the
transition started on holds the same shallow node afterwards. -/
theorem guarded_preserved (env : Env) (hreg : CacheRegular env.cache) (st : St) (plan : List Change)
    (q : List Name) (hg : G (planCtx env st plan) q) :
    sget (transition env st plan).2.fs q = sget st.fs q := by
  have := inv_transition (planCtx env st plan) hreg plan st (inv_refl _) (plan_within env st plan)
  exact this q hg

/-- Something lives below a position only if the position is a directory. -/
theorem dir_of_child (top : Node) (a : List Name) (n : Name) (x : Node) (h : top.get (a ++ [n]) = some x) :
    ∃ perm cs, top.get a = some (.dir perm cs) := by
  rw [get_append] at h
  cases ha : top.get a with
  | none => simp [ha] at h
  | some nd =>
    cases nd with
    | dir perm cs => exact ⟨perm, cs, rfl⟩
    | file d p m i => simp [ha, Node.get] at h
    | symlink t => simp [ha, Node.get] at h
    | other => simp [ha, Node.get] at h

/-! ## The cache of a scan -/

/-- Permission bits are 12 bits wide. -/
inductive PermsOK : Node → Prop
  | dir (p : Nat) (cs : Kids) : (∀ n c, (n, c) ∈ cs → PermsOK c) → PermsOK (.dir p cs)
  | file (d : List UInt8) (p m i : Nat) : p < 0o10000 → PermsOK (.file d p m i)
  | symlink (t : String) : PermsOK (.symlink t)
  | other : PermsOK .other

theorem aget_append_some {κ : Type} [DecidableEq κ] {α : Type} (k : κ) (l m : List (κ × α)) (v : α)
    (h : aget k (l ++ m) = some v) : aget k l = some v ∨ aget k m = some v := by
  rw [aget_append] at h
  cases hl : aget k l with
  | none => right; simpa [hl] using h
  | some w => left; simpa [hl] using h

theorem cacheOf_regular (H : List UInt8 → List UInt8) : ∀ (n : Nat) (nd : Node) (path : Path), sizeOf nd ≤ n →
    PermsOK nd → CacheRegular (cacheOf H path nd) := by
  intro n
  induction n with
  | zero => intro nd path hs; cases nd <;> simp at hs <;> omega
  | succ n ih =>
    intro nd path hs hp
    cases nd with
    | file d p m i =>
      intro q c hq
      cases hp with
      | file _ _ _ _ hlt =>
        simp only [cacheOf, aget] at hq
        split at hq
        · simp only [Option.some.injEq] at hq; subst hq
          simp only [S_IFREG]; omega
        · simp at hq
    | symlink t => intro q c hq; simp [cacheOf, aget] at hq
    | other => intro q c hq; simp [cacheOf, aget] at hq
    | dir p cs =>
      cases hp with
      | dir _ _ hk =>
        simp only [cacheOf]
        -- induction over the children list
        have : ∀ (l : Kids), (∀ n' c, (n', c) ∈ l → PermsOK c ∧ sizeOf c ≤ n) →
            CacheRegular (cacheOfKids H path l) := by
          intro l
          induction l with
          | nil => intro _ q c hq; simp [cacheOfKids, aget] at hq
          | cons hd tl ihl =>
            intro hall q c hq
            obtain ⟨nm, ch⟩ := hd
            simp only [cacheOfKids] at hq
            rcases aget_append_some _ _ _ _ hq with h1 | h1
            · split at h1
              · simp [aget] at h1
              · have := hall nm ch (by simp)
                exact ih ch (path ++ [nm]) this.2 this.1 q c h1
            · exact ihl (fun n' c' hm => hall n' c' (by simp [hm])) q c h1
        apply this
        intro n' c hm
        refine ⟨hk n' c hm, ?_⟩
        have h1 : sizeOf c < sizeOf cs := by
          have := List.sizeOf_lt_of_mem hm
          simp only [Prod.mk.sizeOf_spec] at this
          omega
        simp only [Node.dir.sizeOf_spec] at hs
        omega

end Mutagen.Proofs.FS
