import Mutagen.Proofs.Lifecycle4
/-!
Lifecycle model: what a manager restart leaves behind for a paused session.
-/
namespace Mutagen.Proofs.Lifecycle
open Mutagen.Model.Lifecycle

/-- A paused session after a reload: registered, controller enabled and idle. -/
def PausedIdle (s : State) : Prop :=
  s.sess = some true → s.entry = true ∧ s.disabled = false ∧ s.running = false ∧ s.loop = none ∧ s.crit = none

set_option maxHeartbeats 16000000 in
set_option maxRecDepth 10000 in
theorem threadSteps_restart_done {s : State} {th : Thread} {lab : Label} {s' : State}
    (h : (lab, s') ∈ threadSteps s th) :
    ∀ x ∈ s'.threads, x.op = .restart → x.ph = .finished .ok →
      x ∈ s.threads ∨ (s'.threads.length = 1 ∧ PausedIdle s') := by
  unfold PausedIdle
  unfold threadSteps at h
  split at h
  all_goals
    aesop (add norm simp [acquire, afterStop, finish, State.setThread, State.dropThread, State.startLoop,
      State.cancelLoop, newLoop, othersIdle])

set_option maxHeartbeats 8000000 in
set_option maxRecDepth 10000 in
/-- A call in its `finished` phase can only return. -/
theorem threadSteps_finished {s : State} {th : Thread} {lab : Label} {s' : State} {r : Res}
    (h : (lab, s') ∈ threadSteps s th) (hp : th.ph = .finished r) : s' = s.dropThread th.id := by
  unfold threadSteps at h
  split at h
  all_goals
    aesop (add norm simp [acquire, afterStop, finish])

/-- While a completed restart has not returned yet, it is the only call and a
paused session sits idle in the new manager. -/
def InvRs (s : State) : Prop :=
  ∀ x ∈ s.threads, x.op = .restart → x.ph = .finished .ok → s.threads.length = 1 ∧ PausedIdle s

theorem invRs_step {s s' : State} {l : Label} (st : Step s l s') (i : InvRs s) : InvRs s' := by
  cases st with
  | call h =>
    unfold doCall at h
    split at h
    · simp at h
    · rename_i hc
      simp only [Option.some.injEq] at h
      subst h
      intro x hx hop hph
      simp only [List.mem_append, List.mem_singleton] at hx
      rcases hx with hx | hx
      · exfalso
        apply hc
        simp only [Bool.or_eq_true, List.any_eq_true]
        right
        exact ⟨x, hx, by simp [hop]⟩
      · subst hx; simp [mkThread] at hph
  | internal h =>
    unfold succ at h
    rcases List.mem_append.mp h with h | h
    · cases hl : s.loop with
      | none => simp [hl] at h
      | some lp =>
        simp only [hl] at h
        intro x hx hop hph
        obtain ⟨y, hy, h1, h2, h3⟩ := loopSteps_thread h hx
        obtain ⟨hlen, hpi⟩ := i y hy (by rw [h2]; exact hop) (by rw [h3]; exact hph)
        have hf := loopSteps_frame h
        have hlen' : s'.threads.length = 1 := by
          have := congrArg List.length hf.2.2.2.2.2.2.2.2.2
          simp only [List.length_map] at this
          rw [this]; exact hlen
        refine ⟨hlen', ?_⟩
        intro hs
        rw [hf.1] at hs
        have := (hpi hs).2.2.2.1
        rw [hl] at this
        simp at this
    · obtain ⟨th, hth, h⟩ := List.mem_flatMap.mp h
      intro x hx hop hph
      rcases threadSteps_restart_done h x hx hop hph with hold | hnew
      · -- `x` was already done: it is the only call, so the step is its return
        obtain ⟨hlen, _⟩ := i x hold hop hph
        have hxt : x = th := len1 hlen hold hth
        subst hxt
        have := threadSteps_finished h hph
        subst this
        simp [State.dropThread] at hx
      · exact hnew

theorem invRs_run {w : Bool} {tr : List Label} {s : State} (r : Run (init w) tr s) : InvRs s := by
  induction r with
  | nil => intro x hx; simp [init] at hx
  | snoc _ st ih => exact invRs_step st ih

/-! A concrete run (used as non-vacuity example in `Mutagen.Properties.C29`):
create a paused session, then pause it again. -/

def nextBy (s : State) (l : Label) : State :=
  (((succ s).find? fun p => p.1 == l).map (·.2)).getD s

def ex0 : State := init false
def ex1 : State := (doCall ex0 1 (.create true)).getD ex0
def ex2 : State := nextBy ex1 .tau
def ex3 : State := nextBy ex2 (.ret 1 (.create true) .ok)
def ex4 : State := (doCall ex3 2 .pause).getD ex3
def ex5 : State := nextBy ex4 .tau
def ex6 : State := nextBy ex5 .tau
def ex7 : State := nextBy ex6 (.ret 2 .pause .ok)

end Mutagen.Proofs.Lifecycle
