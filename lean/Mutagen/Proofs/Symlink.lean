import Mutagen.Model.Symlink
/-! Helper lemmas for C16 (core Lean only). -/
namespace Mutagen.Proofs.Symlink
open Mutagen.Model.Symlink

theorem splitSlash_ne_nil (p : Bytes) : splitSlash p ≠ [] := by
  cases p with
  | nil => simp [splitSlash]
  | cons c cs =>
    simp only [splitSlash]
    split
    · simp
    · split <;> simp

/-- `len(strings.Split(p, "/")) = strings.Count(p, "/") + 1`. -/
theorem splitSlash_length (p : Bytes) : (splitSlash p).length = countSlash p + 1 := by
  induction p with
  | nil => simp [splitSlash, countSlash]
  | cons c cs ih =>
    simp only [splitSlash, countSlash] at *
    by_cases h : c = slash
    · simp [h, ih]
    · have hne := splitSlash_ne_nil cs
      simp only [h, if_false]
      cases hs : splitSlash cs with
      | nil => exact absurd hs hne
      | cons a t =>
        rw [hs] at ih
        have : List.count slash (c :: cs) = List.count slash cs := by
          rw [List.count_cons]; simp [h]
        simp only [List.length_cons] at ih ⊢
        omega

theorem linkDir_length (p : Bytes) : (linkDir p).length = countSlash p := by
  simp [linkDir, splitSlash_length]

theorem dd1 : ¬ (dotdot = [] ∨ dotdot = dot) := by decide
theorem dd2 : ¬ (dotdot = dot ∨ dotdot = []) := by decide

/-- The depth walk decides exactly whether lexical resolution stays inside. -/
theorem walk_eq_resolve (comps : List Bytes) :
    ∀ (stack : List Bytes), walk (Int.ofNat stack.length) comps = (resolve stack comps).isSome := by
  induction comps with
  | nil => intro stack; simp [walk, walkWith, resolve]
  | cons c cs ih =>
    intro stack
    unfold walk at ih ⊢
    by_cases h1 : c = [] ∨ c = dot
    · have h1' : c = dot ∨ c = [] := h1.symm
      have hn : ¬ (Int.ofNat stack.length < 0) := by simp
      simp only [walkWith, step, resolve, h1, h1', if_true, hn, if_false]
      exact ih stack
    · have h1' : ¬ (c = dot ∨ c = []) := fun h => h1 h.symm
      by_cases h2 : c = dotdot
      · subst h2
        cases stack with
        | nil => simp [walkWith, step, resolve, dd1, dd2]
        | cons s rest =>
          have hn : ¬ (Int.ofNat (s :: rest).length - 1 < 0) := by
            simp only [List.length_cons, Int.ofNat_eq_natCast]; omega
          have he : Int.ofNat (s :: rest).length - 1 = Int.ofNat rest.length := by
            simp only [List.length_cons, Int.ofNat_eq_natCast]; omega
          simp only [walkWith, step, resolve, dd1, dd2, if_true, if_false, hn]
          rw [he]; exact ih rest
      · have hn : ¬ (Int.ofNat stack.length + 1 < 0) := by
          simp only [Int.ofNat_eq_natCast]; omega
        have he : Int.ofNat stack.length + 1 = Int.ofNat (c :: stack).length := by
          simp only [List.length_cons, Int.ofNat_eq_natCast]; omega
        simp only [walkWith, step, resolve, h1, h1', h2, if_false, hn]
        rw [he]; exact ih (c :: stack)

/-- Resolution that succeeds on the whole list succeeds on every prefix. -/
theorem resolve_prefix (comps : List Bytes) :
    ∀ (stack : List Bytes), (resolve stack comps).isSome → ∀ k, (resolve stack (comps.take k)).isSome := by
  induction comps with
  | nil => intro stack _ k; simp [resolve]
  | cons c cs ih =>
    intro stack h k
    cases k with
    | zero => simp [resolve]
    | succ k =>
      simp only [List.take_succ_cons]
      by_cases h1 : c = [] ∨ c = dot
      · simp only [resolve, h1, if_true] at h ⊢
        exact ih stack h k
      · by_cases h2 : c = dotdot
        · subst h2
          cases stack with
          | nil => simp [resolve, dd1] at h
          | cons s rest =>
            simp only [resolve, dd1, if_true, if_false] at h ⊢
            exact ih rest h k
        · simp only [resolve, h1, h2, if_false] at h ⊢
          exact ih (c :: stack) h k

/-- What `normalize` returning `ok` means, clause by clause. -/
theorem normalizeWith_ok {st : Int → Bytes → Int} {path target t : Bytes}
    (h : normalizeWith st path target = .ok t) :
    t = target ∧ target ≠ [] ∧ target.length ≤ Mutagen.Facts.symlinkMaxTargetLength ∧
    target.contains colon = false ∧ target.contains backslash = false ∧
    target.head? ≠ some slash ∧
    walkWith st (Int.ofNat (countSlash path)) (splitSlash target) = true := by
  unfold normalizeWith at h
  split at h; · cases h
  split at h; · cases h
  split at h; · cases h
  split at h; · cases h
  split at h; · cases h
  split at h
  · cases h
    refine ⟨rfl, by assumption, by omega, ?_, ?_, by assumption, by assumption⟩
    · rename_i hc _ _ _; simpa using hc
    · rename_i hb _ _; simpa using hb
  · cases h

theorem normalizeWith_of_clauses {st : Int → Bytes → Int} {path target : Bytes}
    (h1 : target ≠ []) (h2 : target.length ≤ Mutagen.Facts.symlinkMaxTargetLength)
    (h3 : target.contains colon = false) (h4 : target.contains backslash = false)
    (h5 : target.head? ≠ some slash)
    (h6 : walkWith st (Int.ofNat (countSlash path)) (splitSlash target) = true) :
    normalizeWith st path target = .ok target := by
  unfold normalizeWith
  have h2' : ¬ target.length > Mutagen.Facts.symlinkMaxTargetLength := by omega
  have h3' : colon ∉ target := by simpa using h3
  have h4' : backslash ∉ target := by simpa using h4
  simp only [Int.ofNat_eq_natCast] at h6
  simp [h1, h2', h3', h4', h5, h6]

/-- The walk is monotone in the starting depth. -/
theorem walk_mono (comps : List Bytes) : ∀ (d d' : Int), d ≤ d' → walk d comps = true → walk d' comps = true := by
  induction comps with
  | nil => intro _ _ _ _; simp [walk, walkWith]
  | cons c cs ih =>
    intro d d' hle h
    unfold walk at ih h ⊢
    simp only [walkWith] at h ⊢
    have hs : step d c ≤ step d' c := by
      unfold step; split
      · exact hle
      · split <;> omega
    by_cases hn : step d c < 0
    · simp [hn] at h
    · have hn' : ¬ step d' c < 0 := by omega
      simp only [hn, hn', if_false] at h ⊢
      exact ih _ _ hs h

/-- The fold over one call's link creations, from any state: what is created /
reported is decided link by link by the guard alone. -/
theorem createFold (mode : Mode) (links : List (Bytes × Bytes)) : ∀ s : TState,
    (links.foldl (createStep mode) s).created =
        s.created ++ links.filter (fun l => createGuard mode l.1 l.2) ∧
    (links.foldl (createStep mode) s).problems =
        s.problems ++ (links.filter (fun l => !createGuard mode l.1 l.2)).map (·.1) := by
  induction links with
  | nil => intro s; simp
  | cons l rest ih =>
    intro s
    simp only [List.foldl_cons]
    obtain ⟨h1, h2⟩ := ih (createStep mode s l)
    rw [h1, h2]
    unfold createStep
    cases hg : createGuard mode l.1 l.2 <;> simp [List.filter_cons, hg]

end Mutagen.Proofs.Symlink
