import Mutagen.Proofs.Fixpoint3
/-!
The C04 fixpoint theorem, part 4: the disagreement handler composed with
itself (`fix_handler`), the node-by-node fixpoint (`fix_node`, by functional
induction over the first reconciliation), and its assembly at the root:
success of the three `Apply`s, `reconcile_fixpoint_root`.
-/
namespace Mutagen.Model

/-! ## Unfolding the second reconciliation at a node -/

theorem Plan.empty_append (x : Plan) : ({} : Plan) ++ x = x := by
  cases x; rfl

theorem reconcile_eq_handler (mode : Mode) (path : Path) (a al be : Option Entry)
    (h1 : ¬ isKind al .problematic = true) (h2 : ¬ isKind be .problematic = true)
    (h3 : ¬ ((al.isNone || isKind al .untracked) && (be.isNone || isKind be .untracked)) = true)
    (h4 : ¬ shallowEq al be = true) :
    reconcile mode path a al be = handleDisagreement mode path a al be := by
  rw [reconcile_eq]; simp only [h1, h2, h3, h4, Bool.false_eq_true, ↓reduceIte]

theorem reconcile_eq_absent (mode : Mode) (path : Path) (al be : Option Entry)
    (h1 : ¬ isKind al .problematic = true) (h2 : ¬ isKind be .problematic = true)
    (h3 : ((al.isNone || isKind al .untracked) && (be.isNone || isKind be .untracked)) = true) :
    reconcile mode path none al be = {} := by
  rw [reconcile_eq]; simp only [h1, h2, h3, Bool.false_eq_true, ↓reduceIte, Option.isSome_none]

theorem reconcile_eq_recurse (mode : Mode) (path : Path) (a al be : Option Entry)
    (h1 : ¬ isKind al .problematic = true) (h2 : ¬ isKind be .problematic = true)
    (h3 : ¬ ((al.isNone || isKind al .untracked) && (be.isNone || isKind be .untracked)) = true)
    (h4 : shallowEq al be = true) (h5 : shallowEq a al = true) :
    reconcile mode path a al be =
      Plan.concat ((nameUnion [contents a, contents al, contents be]).map fun n =>
        reconcile mode (path ++ [n]) (lookup n (contents a)) (lookup n (contents al)) (lookup n (contents be))) := by
  rw [reconcile_eq]
  simp only [h1, h2, h3, h4, h5, Bool.false_eq_true, ↓reduceIte, Bool.not_true, ancestorForRecursion,
    Plan.empty_append]

theorem Fix_of_shape {P P₂ : Plan} (hs : P₂.shape = P.shape) (h1 : P.anc = []) (h2 : P.alpha = [])
    (h3 : P.beta = []) : Fix P P₂ := by
  simp only [Plan.shape, Prod.mk.injEq, h1, h2, h3, List.length_nil, List.length_eq_zero_iff] at hs
  exact ⟨hs.1, hs.2.1, hs.2.2.1, fun p => by rw [hs.2.2.2]⟩

theorem Fix_empty {P : Plan} (h : P.conflicts = []) : Fix P {} :=
  ⟨rfl, rfl, rfl, fun p => by simp [h]⟩

theorem sameTree_getPath {A' a : Option Entry} {path : Path} (h : ∀ q, pget A' (path ++ q) = pget a q) :
    SameTree (getPath A' path) a := fun q => by
  rw [← h q]; simp [pget, getPath_append]

theorem lookup_none_of_not_mem_union3 {n : Name} {x y z : Option Entry}
    (h : n ∉ nameUnion [contents x, contents y, contents z]) :
    lookup n (contents x) = none ∧ lookup n (contents y) = none ∧ lookup n (contents z) = none := by
  refine ⟨?_, ?_, ?_⟩
  · exact lookup_eq_none_iff.mpr (fun hk => h (mem_nameUnion.mpr ⟨contents x, by simp, hk⟩))
  · exact lookup_eq_none_iff.mpr (fun hk => h (mem_nameUnion.mpr ⟨contents y, by simp, hk⟩))
  · exact lookup_eq_none_iff.mpr (fun hk => h (mem_nameUnion.mpr ⟨contents z, by simp, hk⟩))

/-- Assembling `Fix` at a recursion node from its children. -/
theorem Fix_concat {ns₁ ns₂ : List Name} {f g : Name → Plan} {hereP : Plan}
    (hh : hereP.alpha = [] ∧ hereP.beta = [] ∧ hereP.conflicts = [])
    (hq : ∀ n, (g n).anc = [] ∧ (g n).alpha = [] ∧ (g n).beta = [])
    (hr : ∀ n p, p ∈ (g n).conflicts.map (·.root) ↔ (n ∈ ns₁ ∧ p ∈ (f n).conflicts.map (·.root)))
    (h2 : ∀ n, n ∉ ns₂ → (g n).conflicts = []) :
    Fix (hereP ++ Plan.concat (ns₁.map f)) (Plan.concat (ns₂.map g)) := by
  refine ⟨?_, ?_, ?_, ?_⟩
  · rw [Plan.concat_anc, List.flatMap_map]; exact flatMap_eq_nil_of_forall _ _ (fun n _ => (hq n).1)
  · rw [Plan.concat_alpha, List.flatMap_map]; exact flatMap_eq_nil_of_forall _ _ (fun n _ => (hq n).2.1)
  · rw [Plan.concat_beta, List.flatMap_map]; exact flatMap_eq_nil_of_forall _ _ (fun n _ => (hq n).2.2)
  · intro p
    simp only [Plan.append_conflicts, hh.2.2, List.nil_append, Plan.concat_conflicts, List.flatMap_map,
      List.map_flatMap, List.mem_flatMap]
    constructor
    · rintro ⟨n, _, hp⟩
      obtain ⟨hn1, hp1⟩ := (hr n p).mp hp
      exact ⟨n, hn1, hp1⟩
    · rintro ⟨n, hn1, hp⟩
      have hg : p ∈ (g n).conflicts.map (·.root) := (hr n p).mpr ⟨hn1, hp⟩
      refine ⟨n, ?_, hg⟩
      apply Classical.byContradiction
      intro hn2
      rw [h2 n hn2] at hg
      cases hg

/-! ## The disagreement handler composed with itself -/

theorem fix_handler (mode : Mode) (path : Path) (a al be : Option Entry)
    (h1 : ¬ isKind al .problematic = true) (h2 : ¬ isKind be .problematic = true)
    (h3 : ¬ ((al.isNone || isKind al .untracked) && (be.isNone || isKind be .untracked)) = true)
    (h4 : ¬ shallowEq al be = true)
    (hal : Valid al) (hbe : Valid be) (hpα : onoPhantom al = true) (hpβ : onoPhantom be = true)
    (A' α' β' : Option Entry)
    (hA : AncFinal path a (handleDisagreement mode path a al be) A')
    (hα : EndFinal path al (handleDisagreement mode path a al be).alpha α')
    (hβ : EndFinal path be (handleDisagreement mode path a al be).beta β') :
    Fix (handleDisagreement mode path a al be)
      (reconcile mode path (getPath A' path) (getPath α' path) (getPath β' path)) := by
  have hd : Disagree al be :=
    ⟨Bool.eq_false_iff.mpr h1, Bool.eq_false_iff.mpr h2, Bool.eq_false_iff.mpr h3, Bool.eq_false_iff.mpr h4⟩
  rcases handleDisagreement_outcome mode path a al be hal hbe hd with
    ⟨x, y, hP⟩ | ⟨o, hP⟩ | ⟨o, hP⟩ | ⟨hP, hnone⟩ | ⟨hP, ha⟩
  · -- a conflict: all three trees are unchanged here
    rw [hP] at hA hα hβ
    have e1 : getPath α' path = al := hα.self_of_nil
    have e2 : getPath β' path = be := hβ.self_of_nil
    have e3 : SameTree (getPath A' path) a := sameTree_getPath (fun q => by
      have := hA q; simpa [Plan.conflict] using this)
    rw [e1, e2, reconcile_eq_handler mode path _ al be h1 h2 h3 h4]
    exact Fix_of_shape (handleDisagreement_shape_congr mode path e3 al be) (by rw [hP]; rfl)
      (by rw [hP]; rfl) (by rw [hP]; rfl)
  · -- alpha receives beta's synchronizable part
    rw [hP] at hA hα hβ ⊢
    have e1 : getPath α' path = osync be := by
      have := hα.new { path := path, old := o, new := osync be } (by simp [Plan.alphaChange])
      simpa using this
    have e2 : getPath β' path = be := hβ.self_of_nil
    have e3 : SameTree (getPath A' path) (osync be) := sameTree_getPath (fun q => by
      have := hA q
      simpa [Plan.alphaChange, ov_cons] using this)
    rw [e1, e2, reconcile_alpha_is_sync_beta mode path _ (osync be) be rfl e3 hbe hpβ]
    exact Fix_empty rfl
  · -- beta receives alpha's synchronizable part
    rw [hP] at hA hα hβ ⊢
    have e1 : getPath α' path = al := hα.self_of_nil
    have e2 : getPath β' path = osync al := by
      have := hβ.new { path := path, old := o, new := osync al } (by simp [Plan.betaChange])
      simpa using this
    have e3 : SameTree (getPath A' path) (osync al) := sameTree_getPath (fun q => by
      have := hA q
      simpa [Plan.betaChange, ov_cons] using this)
    rw [e1, e2, reconcile_beta_is_sync_alpha mode path _ al (osync al) rfl e3 hal hpα]
    exact Fix_empty rfl
  · -- the ancestor is cleared (one-way-safe)
    rw [hP] at hA hα hβ ⊢
    have e1 : getPath α' path = al := hα.self_of_nil
    have e2 : getPath β' path = be := hβ.self_of_nil
    have e3 : getPath A' path = none := getPath_eq_none_of_pget (by
      have := hA []
      simpa [Plan.ancChange, ov_cons] using this)
    rw [e1, e2, e3, reconcile_eq_handler mode path none al be h1 h2 h3 h4, hnone]
    exact Fix_empty rfl
  · -- nothing was planned and nothing was recorded
    subst ha
    have hP' := hP
    rw [hP] at hA hα hβ ⊢
    have e1 : getPath α' path = al := hα.self_of_nil
    have e2 : getPath β' path = be := hβ.self_of_nil
    have e3 : getPath A' path = none := getPath_eq_none_of_pget (by
      have := hA []
      simpa using this)
    rw [e1, e2, e3, reconcile_eq_handler mode path none al be h1 h2 h3 h4, hP']
    exact Fix_empty rfl

/-! ## The fixpoint, node by node -/

theorem lookup_contents_getPath (e : Option Entry) (path : Path) (n : Name) :
    lookup n (contents (getPath e path)) = getPath e (path ++ [n]) := by
  rw [getPath_append]; rfl

theorem pget_getPath (e : Option Entry) (p q : Path) : pget (getPath e p) q = pget e (p ++ q) := by
  simp [pget, getPath_append]

theorem ocopy_slim_pget_nil (e : Entry) : pget (ocopy .slim (some e)) [] = pget (some e) [] := by
  cases e; simp [ocopy, Entry.copy, pget, getPath, Entry.props]

theorem ocopy_slim_pget_cons (e : Entry) (n : Name) (q : Path) : pget (ocopy .slim (some e)) (n :: q) = none := by
  cases e; simp [ocopy, Entry.copy, pget, getPath, contents, Entry.children, lookup]

theorem fix_node (mode : Mode) (path : Path) (a al be : Option Entry) :
    Valid al → Valid be → onoPhantom al = true → onoPhantom be = true →
    ∀ A' α' β', AncFinal path a (reconcile mode path a al be) A' →
      EndFinal path al (reconcile mode path a al be).alpha α' →
      EndFinal path be (reconcile mode path a al be).beta β' →
      Fix (reconcile mode path a al be)
        (reconcile mode path (getPath A' path) (getPath α' path) (getPath β' path)) := by
  fun_induction reconcile mode path a al be with
  | case1 path ancestor alpha beta h1 =>
    intro _ _ _ _ A' α' β' _ hα _
    have e1 : getPath α' path = alpha := hα.self_of_nil
    rw [e1, reconcile_eq]
    simp only [h1, ↓reduceIte]
    exact Fix_empty rfl
  | case2 path ancestor alpha beta h1 h2 =>
    intro _ _ _ _ A' α' β' _ hα hβ
    have e1 : getPath α' path = alpha := hα.self_of_nil
    have e2 : getPath β' path = beta := hβ.self_of_nil
    rw [e1, e2, reconcile_eq]
    simp only [h1, h2, Bool.false_eq_true, ↓reduceIte]
    exact Fix_empty rfl
  | case3 path ancestor alpha beta h1 h2 h3 h4 =>
    intro _ _ _ _ A' α' β' hA hα hβ
    have e1 : getPath α' path = alpha := hα.self_of_nil
    have e2 : getPath β' path = beta := hβ.self_of_nil
    have e3 : getPath A' path = none := getPath_eq_none_of_pget (by
      have := hA []
      simpa [Plan.ancChange, ov_cons] using this)
    rw [e1, e2, e3, reconcile_eq_absent mode path alpha beta h1 h2 h3]
    exact Fix_empty rfl
  | case4 path ancestor alpha beta h1 h2 h3 h4 =>
    intro _ _ _ _ A' α' β' hA hα hβ
    have e1 : getPath α' path = alpha := hα.self_of_nil
    have e2 : getPath β' path = beta := hβ.self_of_nil
    have ha : ancestor = none := by
      cases ancestor with
      | none => rfl
      | some x => simp at h4
    have e3 : getPath A' path = none := getPath_eq_none_of_pget (by
      have := hA []
      simpa [ha] using this)
    rw [e1, e2, e3, reconcile_eq_absent mode path alpha beta h1 h2 h3]
    exact Fix_empty rfl
  | case5 path ancestor alpha beta h1 h2 h3 h4 here anc' ih =>
    intro hal hbe hpα hpβ A' α' β' hA hα hβ
    -- names and children of the first reconciliation
    let names := nameUnion [contents anc', contents alpha, contents beta]
    let f : Name → Plan := fun n =>
      reconcile mode (path ++ [n]) (lookup n (contents anc')) (lookup n (contents alpha)) (lookup n (contents beta))
    have hP : (here ++ Plan.concat (names.attach.map fun n => f n.1)) = here ++ Plan.concat (names.map f) := by
      rw [map_attach_val names f]
    have hh : here.alpha = [] ∧ here.beta = [] ∧ here.conflicts = [] := by
      refine ⟨?_, ?_, ?_⟩ <;> (simp only [here]; split <;> rfl)
    change AncFinal path ancestor (here ++ Plan.concat (names.attach.map fun n => f n.1)) A' at hA
    change EndFinal path alpha (here ++ Plan.concat (names.attach.map fun n => f n.1)).alpha α' at hα
    change EndFinal path beta (here ++ Plan.concat (names.attach.map fun n => f n.1)).beta β' at hβ
    change Fix (here ++ Plan.concat (names.attach.map fun n => f n.1)) _
    rw [hP] at hA hα hβ ⊢
    have hPa : (here ++ Plan.concat (names.map f)).alpha = names.flatMap (fun n => (f n).alpha) := by
      simp [Plan.concat_alpha, List.flatMap_map, hh.1]
    have hPb : (here ++ Plan.concat (names.map f)).beta = names.flatMap (fun n => (f n).beta) := by
      simp [Plan.concat_beta, List.flatMap_map, hh.2.1]
    have hPc : (here ++ Plan.concat (names.map f)).anc = here.anc ++ names.flatMap (fun n => (f n).anc) := by
      simp [Plan.concat_anc, List.flatMap_map]
    rw [hPa] at hα
    rw [hPb] at hβ
    have hA' : ∀ q, pget A' (path ++ q) =
        ov ((here.anc ++ names.flatMap (fun m => (f m).anc)) ++
          (names.flatMap (fun m => (f m).alpha) ++ names.flatMap (fun m => (f m).beta))) (path ++ q)
          (pget ancestor q) := by
      intro q
      have := hA q
      rw [hPc, hPa, hPb] at this
      exact this
    have hnd : names.Nodup := nodup_nameUnion _
    have hu1 : ∀ m ∈ names, ∀ c ∈ (f m).anc, (path ++ [m]) <+: c.path :=
      fun m _ => reconcile_anc_under mode (path ++ [m]) _ _ _
    have hu2 : ∀ m ∈ names, ∀ c ∈ (f m).alpha, (path ++ [m]) <+: c.path :=
      fun m _ => reconcile_alpha_under mode (path ++ [m]) _ _ _
    have hu3 : ∀ m ∈ names, ∀ c ∈ (f m).beta, (path ++ [m]) <+: c.path :=
      fun m _ => reconcile_beta_under mode (path ++ [m]) _ _ _
    -- alpha exists at this node
    have hαsome : ∃ e, alpha = some e := by
      cases alpha with
      | some e => exact ⟨e, rfl⟩
      | none =>
        cases beta with
        | none => simp at h3
        | some b => simp [shallowEq] at h4
    obtain ⟨ae, hae⟩ := hαsome
    -- what the `here` change does to the ancestor at and below this node
    have hhere0 : ov here.anc (path ++ []) (pget ancestor []) = pget alpha [] := by
      by_cases hs : shallowEq ancestor alpha = true
      · have : here.anc = [] := by simp [here, hs]
        rw [this]; exact shallowEq_iff_pget.mp hs
      · have : here.anc = [{ path := path, new := ocopy .slim alpha }] := by simp [here, hs, Plan.ancChange]
        rw [this, hae]
        simp [ov_cons, ocopy_slim_pget_nil]
    have hhere : ∀ n q, ov here.anc (path ++ n :: q) (pget ancestor (n :: q)) = pget (lookup n (contents anc')) q := by
      intro n q
      by_cases hs : shallowEq ancestor alpha = true
      · have h1' : here.anc = [] := by simp [here, hs]
        have h2' : anc' = ancestor := by simp [anc', ancestorForRecursion, hs]
        rw [h1', h2']; rfl
      · have h1' : here.anc = [{ path := path, new := ocopy .slim alpha }] := by
          simp [here, hs, Plan.ancChange]
        have h2' : anc' = none := by simp [anc', ancestorForRecursion, hs]
        rw [h1', h2', hae]
        simp [ov_cons, ocopy_slim_pget_cons, contents, lookup]
    -- no change of a child lies at or above this node
    have noMatchRoot : ∀ (g : Name → List Change), (∀ m ∈ names, ∀ c ∈ g m, (path ++ [m]) <+: c.path) →
        ∀ d, ov (names.flatMap g) (path ++ []) d = d := by
      intro g hg d
      refine ov_flatMap_none (fun m hm c hc hpre => ?_) d
      rw [List.append_nil] at hpre
      exact not_snoc_prefix_self path m ((hg m hm c hc).trans hpre)
    have pα : pget (getPath α' path) [] = pget alpha [] := by
      rw [pget_getPath, hα.props [], noMatchRoot _ hu2]
    have pβ : pget (getPath β' path) [] = pget beta [] := by
      rw [pget_getPath, hβ.props [], noMatchRoot _ hu3]
    have pA : pget (getPath A' path) [] = pget alpha [] := by
      rw [pget_getPath, hA' []]
      simp only [ov_append]
      rw [hhere0, noMatchRoot _ hu1, noMatchRoot _ hu2, noMatchRoot _ hu3]
    -- the second reconciliation recurses as well
    have c1 : ¬ isKind (getPath α' path) .problematic = true := by rw [isKind_congr pα]; exact h1
    have c2 : ¬ isKind (getPath β' path) .problematic = true := by rw [isKind_congr pβ]; exact h2
    have c3 : ¬ (((getPath α' path).isNone || isKind (getPath α' path) .untracked) &&
        ((getPath β' path).isNone || isKind (getPath β' path) .untracked)) = true := by
      rw [isNone_congr pα, isNone_congr pβ, isKind_congr pα, isKind_congr pβ]; exact h3
    have c4 : shallowEq (getPath α' path) (getPath β' path) = true := by
      rw [shallowEq_congr pα pβ]; exact h4
    have c5 : shallowEq (getPath A' path) (getPath α' path) = true :=
      shallowEq_iff_pget.mpr (pA.trans pα.symm)
    rw [reconcile_eq_recurse mode path _ _ _ c1 c2 c3 c4 c5]
    simp only [lookup_contents_getPath]
    -- children
    let g : Name → Plan := fun n =>
      reconcile mode (path ++ [n]) (getPath A' (path ++ [n])) (getPath α' (path ++ [n])) (getPath β' (path ++ [n]))
    have hchild : ∀ n, n ∈ names → Fix (f n) (g n) := by
      intro n hn
      exact ih ⟨n, hn⟩ (hal.lookup n) (hbe.lookup n) (onoPhantom_lookup hpα n) (onoPhantom_lookup hpβ n)
        A' α' β'
        (AncFinal.child hA' (hhere n) hnd hn hu1 hu2 hu3)
        (EndFinal.child hα hnd hn hu2)
        (EndFinal.child hβ hnd hn hu3)
    have houtside : ∀ n, n ∉ names → g n = {} := by
      intro n hn
      obtain ⟨l1, l2, l3⟩ := lookup_none_of_not_mem_union3 hn
      have hinc : ∀ (gg : Name → List Change), (∀ m ∈ names, ∀ c ∈ gg m, (path ++ [m]) <+: c.path) →
          ∀ c ∈ names.flatMap gg, incomparable c.path (path ++ [n]) := by
        intro gg hgg c hc
        obtain ⟨m, hm, hcm⟩ := List.mem_flatMap.mp hc
        have hmn : m ≠ n := fun e => hn (e ▸ hm)
        exact incomparable_of_children hmn (hgg m hm c hcm) (List.prefix_refl _)
      have e1 : getPath α' (path ++ [n]) = none := by
        rw [hα.keep [n] (hinc _ hu2)]; exact l2
      have e2 : getPath β' (path ++ [n]) = none := by
        rw [hβ.keep [n] (hinc _ hu3)]; exact l3
      have nm : ∀ (gg : Name → List Change), (∀ m ∈ names, ∀ c ∈ gg m, (path ++ [m]) <+: c.path) →
          ∀ d, ov (names.flatMap gg) (path ++ [n]) d = d := by
        intro gg hgg d
        refine ov_flatMap_none (fun m hm c hc hpre => ?_) d
        have hmn : m ≠ n := fun e => hn (e ▸ hm)
        exact (incomparable_of_children hmn (hgg m hm c hc) (List.prefix_refl (path ++ [n]))).1 hpre
      have e3 : getPath A' (path ++ [n]) = none := getPath_eq_none_of_pget (by
        rw [hA' [n]]
        simp only [ov_append]
        rw [hhere n [], nm _ hu1, nm _ hu2, nm _ hu3, l1]
        rfl)
      show reconcile mode (path ++ [n]) _ _ _ = {}
      rw [e1, e2, e3]
      exact reconcile_none mode _
    refine Fix_concat (f := f) (g := g) hh ?_ ?_ ?_
    · intro n
      by_cases hn : n ∈ names
      · exact ⟨(hchild n hn).1, (hchild n hn).2.1, (hchild n hn).2.2.1⟩
      · rw [houtside n hn]; exact ⟨rfl, rfl, rfl⟩
    · intro n p
      by_cases hn : n ∈ names
      · rw [(hchild n hn).2.2.2 p]; simp [hn]
      · rw [houtside n hn]; simp [hn]
    · intro n hn
      obtain ⟨l1, l2, l3⟩ := lookup_none_of_not_mem_union3 hn
      rw [lookup_contents_getPath] at l1 l2 l3
      show (reconcile mode (path ++ [n]) _ _ _).conflicts = []
      rw [l1, l2, l3, reconcile_none]
  | case6 path ancestor alpha beta h1 h2 h3 h4 =>
    intro hal hbe hpα hpβ A' α' β' hA hα hβ
    exact fix_handler mode path ancestor alpha beta h1 h2 h3 h4 hal hbe hpα hpβ A' α' β' hA hα hβ

end Mutagen.Model
