import Mutagen.Proofs.ScanCold
/-!
The baseline-reuse walk reproduces what a cold scan of the same sub-tree adds
(C13): digest-cache additions and counters exactly, ignore-cache additions
consistently with the ignorer.
-/
namespace Mutagen.Proofs.ScanReuse
open Mutagen.Model Mutagen.Model.ScanFS Mutagen.Proofs.ScanFrame Mutagen.Proofs.ScanPaths Mutagen.Proofs.ScanFS Mutagen.Proofs.ScanCold

/-- Every binding of an ignore cache is what the ignorer answers. -/
def IgnOK (cfg : Cfg) (l : IgnoreCache) : Prop := ∀ kv ∈ l, kv.2 = cfg.ignorer kv.1.1 kv.1.2

theorem ignOK_lookup (cfg : Cfg) (l : IgnoreCache) (h : IgnOK cfg l) (k : String × Bool) (v : IgnoreVal)
    (hl : alookup k l = some v) : v = cfg.ignorer k.1 k.2 := by
  induction l with
  | nil => cases hl
  | cons hd t ih =>
    obtain ⟨k', v'⟩ := hd
    simp only [alookup] at hl
    split at hl
    · rename_i hk
      cases hl
      have := h (k', v) (by simp)
      rw [hk] at this
      exact this
    · exact ih (fun kv hkv => h kv (by simp [hkv])) hl

theorem ignOK_append (cfg : Cfg) (a b : IgnoreCache) (ha : IgnOK cfg a) (hb : IgnOK cfg b) : IgnOK cfg (a ++ b) := by
  intro kv hkv
  rcases List.mem_append.mp hkv with h | h
  · exact ha kv h
  · exact hb kv h

/-- The reuse walk over `e` at `p` reproduces the additions `d`: same digest-cache
additions, same counters; ignore-cache additions consistent with the ignorer. -/
def WalkMatches (cfg : Cfg) (acc : Accel) (p : String) (e : Entry) (d : St) : Prop :=
  ∃ w, reuseWalk acc p e ({}, false) = (w, false) ∧ w.newCache = d.newCache ∧ w.dirs = d.dirs ∧
    w.files = d.files ∧ w.links = d.links ∧ w.size = d.size ∧ IgnOK cfg w.newIgnore

def WalkMatchesL (cfg : Cfg) (acc : Accel) (pfx : String) (cs : Contents) (d : St) : Prop :=
  ∃ w, reuseWalkL acc pfx cs ({}, false) = (w, false) ∧ w.newCache = d.newCache ∧ w.dirs = d.dirs ∧
    w.files = d.files ∧ w.links = d.links ∧ w.size = d.size ∧ IgnOK cfg w.newIgnore

/-- The visitor on a leaf entry that counts for nothing. -/
theorem reuseVisit_inert (acc : Accel) (p : String) (pr : Props) (h : pr.kind = .untracked ∨ pr.kind = .problematic) :
    reuseVisit acc p pr ({}, false) = ({}, false) := by
  unfold reuseVisit
  rcases h with h | h <;> simp [h]

theorem walkMatches_inert (cfg : Cfg) (acc : Accel) (p : String) (pr : Props) (h : pr.kind = .untracked ∨ pr.kind = .problematic) :
    WalkMatches cfg acc p (.mk pr []) {} := by
  refine ⟨{}, ?_, rfl, rfl, rfl, rfl, rfl, fun kv hkv => by cases hkv⟩
  unfold reuseWalk
  rw [reuseVisit_inert acc p pr h]
  simp [reuseWalkL]

theorem walkMatches_problematic (cfg : Cfg) (acc : Accel) (p msg : String) : WalkMatches cfg acc p (problematic msg) {} :=
  walkMatches_inert cfg acc p _ (Or.inr rfl)

theorem walkMatches_untracked (cfg : Cfg) (acc : Accel) (p : String) : WalkMatches cfg acc p untracked {} :=
  walkMatches_inert cfg acc p _ (Or.inl rfl)

theorem reuseWalkL_append (acc : Accel) (pfx : String) (a b : Contents) (s : St × Bool) :
    reuseWalkL acc pfx (a ++ b) s = reuseWalkL acc pfx b (reuseWalkL acc pfx a s) := by
  induction a generalizing s with
  | nil => rfl
  | cons hd t ih =>
    obtain ⟨n, c⟩ := hd
    simp only [List.cons_append, reuseWalkL]
    exact ih _

theorem upsert_fresh (n : Name) (e : Entry) (cs : Contents) (h : n ∉ keys cs) : upsert n e cs = cs ++ [(n, e)] := by
  induction cs with
  | nil => rfl
  | cons hd t ih =>
    obtain ⟨m, c⟩ := hd
    simp only [keys, List.map_cons, List.mem_cons, not_or] at h
    simp only [upsert]
    rw [if_neg (fun hh => h.1 hh.symm)]
    simp only [List.cons_append, List.cons.injEq, true_and]
    exact ih (by simpa [keys] using h.2)

/-- A handler that reports "vanished" has added nothing. -/
theorem notExist_adds_nothing (cfg : Cfg) (acc : Accel) (p : String) (isRoot : Bool) (b : Option Entry) (mask : Bool)
    (link : Fault × String) (n : Node) (d : St)
    (h : scanNode cfg acc p isRoot b mask link n {} = (.notExist, d)) : d = {} := by
  cases n with
  | file content perm mtime size ino =>
    unfold scanNode scanFile at h
    simp only at h
    split at h
    · cases h; rfl
    · split at h <;> cases h
  | symlink t =>
    unfold scanNode at h
    revert h
    cases cfg.symlinkMode <;> simp [scanSymlink] <;> (repeat' split) <;> simp <;> intros <;> (first | (symm; assumption) | assumption)
  | other k => unfold scanNode at h; cases h
  | dir dev cs =>
    unfold scanNode at h
    by_cases hdev : dev ≠ cfg.deviceID
    · rw [if_pos hdev] at h; cases h
    · rw [if_neg hdev] at h
      revert h
      generalize (if isRoot = true then Fault.none else cfg.openDirFault p) = opened
      cases opened
      · simp only
        by_cases hrd : cfg.readDirFault p = true
        · rw [if_pos hrd]; intro h; cases h
        · rw [if_neg hrd]
          cases scanChildren cfg acc (if cs.isEmpty then "" else joinable p) cs cs b mask [] {} with
          | none => intro h; cases h
          | some r => intro h; cases h
      · intro h; cases h
      · intro h; cases h; rfl

theorem validName_pathName (n : Name) (h : validName n = true) : pathName n := by
  simp [validName] at h
  refine ⟨?_, ?_⟩
  · simp only [slashFree]; simpa using h.2
  · exact h.1.1.1

/-- What the reuse lemma says about one node. -/
def ReuseOK (cfg : Cfg) (acc : Accel) (n : Node) : Prop :=
  ∀ (p : String) (mask : Bool) (link : Fault × String), p ≠ "" → NamesOK cfg validName n →
    (∀ q, Under q p → alookup q acc.cache = alookup q (cold cfg p false mask link n).2.newCache) →
    ∀ e, (cold cfg p false mask link n).1 = .entry e → WalkMatches cfg acc p e (cold cfg p false mask link n).2

theorem walkMatchesL_nil (cfg : Cfg) (acc : Accel) (pfx : String) (d : St)
    (hc : d.newCache = []) (h1 : d.dirs = 0) (h2 : d.files = 0) (h3 : d.links = 0) (h4 : d.size = 0) :
    WalkMatchesL cfg acc pfx [] d :=
  ⟨{}, rfl, hc.symm, h1.symm, h2.symm, h3.symm, h4.symm, fun kv hkv => by cases hkv⟩

/-- Prepending an entry whose own walk matches `d1` to a list whose walk matches `d2`. -/
theorem walkMatchesL_cons (cfg : Cfg) (acc : Accel) (pfx : String) (n : Name) (e : Entry) (rest : Contents) (d1 d2 d : St)
    (h1 : WalkMatches cfg acc (pfx ++ n) e d1) (h2 : WalkMatchesL cfg acc pfx rest d2)
    (hc : d.newCache = d2.newCache ++ d1.newCache) (hd : d.dirs = d1.dirs + d2.dirs) (hf : d.files = d1.files + d2.files)
    (hl : d.links = d1.links + d2.links) (hs : d.size = d1.size + d2.size) :
    WalkMatchesL cfg acc pfx ((n, e) :: rest) d := by
  obtain ⟨w1, hw1, c1, a1, b1, l1, s1, i1⟩ := h1
  obtain ⟨w2, hw2, c2, a2, b2, l2, s2, i2⟩ := h2
  refine ⟨add w1 w2, ?_, ?_, ?_, ?_, ?_, ?_, ?_⟩
  · simp only [reuseWalkL]
    rw [hw1, reuseWalkL_frame acc rest pfx w1 false, hw2]
    rfl
  · simp [add, c1, c2, hc]
  · simp [add, a1, a2, hd]
  · simp [add, b1, b2, hf]
  · simp [add, l1, l2, hl]
  · simp [add, s1, s2, hs]
  · simp only [add]; exact ignOK_append cfg _ _ i2 i1

theorem keys_append (a b : Contents) : keys (a ++ b) = keys a ++ keys b := by simp [keys]

/-- The reuse walk over the entries the cold loop appended reproduces the loop's additions. -/
theorem reuse_loop (cfg : Cfg) (acc : Accel) (pfx : String) (all : Children) (mask : Bool) :
    ∀ (cs : Children) (contents cs' : Contents) (d : St),
      (∀ rn ∈ cs, ReuseOK cfg acc rn.2) →
      NamesOKL cfg validName cs → (entryNames cfg cs).Nodup → (∀ n ∈ keys contents, n ∉ entryNames cfg cs) →
      (∀ raw node name decoded cp isDir ign cm, (raw, node) ∈ cs →
        preDispatch cfg {} pfx mask raw node = .go name decoded cp isDir ign cm →
        ∀ q, Under q cp → alookup q acc.cache = alookup q (cold cfg cp false cm (linkFor all decoded name node) node).2.newCache) →
      scanChildren cfg {} pfx all cs none mask contents {} = some (cs', d) →
      ∃ new, cs' = contents ++ new ∧ WalkMatchesL cfg acc pfx new d := by
  intro cs
  induction cs with
  | nil =>
    intro contents cs' d _ _ _ _ _ h
    simp [scanChildren] at h
    obtain ⟨rfl, rfl⟩ := h
    exact ⟨[], by simp, walkMatchesL_nil cfg acc pfx {} rfl rfl rfl rfl rfl⟩
  | cons c rest ih =>
    obtain ⟨raw1, node1⟩ := c
    intro contents cs' d hR hok hnd hfresh hloc h
    simp only [NamesOKL] at hok
    obtain ⟨hname1, hnode1, hrest⟩ := hok
    have hR' : ∀ rn ∈ rest, ReuseOK cfg acc rn.2 := fun rn hrn => hR rn (List.mem_cons_of_mem _ hrn)
    have hnd' := entryNames_cons_nodup cfg raw1 node1 rest hnd
    have hloc' : ∀ raw node name decoded cp isDir ign cm, (raw, node) ∈ rest →
        preDispatch cfg {} pfx mask raw node = .go name decoded cp isDir ign cm →
        ∀ q, Under q cp → alookup q acc.cache = alookup q (cold cfg cp false cm (linkFor all decoded name node) node).2.newCache :=
      fun raw node name decoded cp isDir ign cm hm => hloc raw node name decoded cp isDir ign cm (List.mem_cons_of_mem _ hm)
    rw [scanChildren_cons] at h
    cases hpre1 : preDispatch cfg {} pfx mask raw1 node1 with
    | skip =>
      rw [hpre1] at h
      have hn := preDispatch_skip _ _ _ _ _ _ hpre1
      have e1 : entryNames cfg ((raw1, node1) :: rest) = entryNames cfg rest := by simp [entryNames, hn]
      rw [e1] at hfresh
      exact ih contents cs' d hR' hrest hnd' hfresh hloc' h
    | put name1 e1 ign1 =>
      rw [hpre1] at h
      simp only at h
      obtain ⟨hn, he⟩ := preDispatch_put _ _ _ _ _ _ _ _ _ hpre1
      have en : entryNames cfg ((raw1, node1) :: rest) = name1 :: entryNames cfg rest := by simp [entryNames, hn]
      rw [en] at hnd hfresh
      have hfr : name1 ∉ keys contents := fun hm => hfresh name1 hm (by simp)
      obtain ⟨d'', hr, hd⟩ := andThen_some _ _ _ _ h
      rw [upsert_fresh _ _ _ hfr] at hr
      obtain ⟨new', hcs', hw'⟩ := ih (contents ++ [(name1, e1)]) cs' d'' hR' hrest hnd'
        (by
          intro n hn'
          rw [keys_append] at hn'
          simp only [keys, List.map_cons, List.map_nil, List.mem_append, List.mem_singleton] at hn'
          rcases hn' with hh | hh
          · exact fun hm => hfresh n (by simpa [keys] using hh) (by simp [hm])
          · subst hh; exact (List.nodup_cons.mp hnd).1)
        hloc' hr
      refine ⟨(name1, e1) :: new', by rw [hcs']; simp, ?_⟩
      have hinert : WalkMatches cfg acc (pfx ++ name1) e1 {} := by
        rcases he with rfl | rfl
        · exact walkMatches_untracked cfg acc _
        · exact walkMatches_problematic cfg acc _ _
      apply walkMatchesL_cons cfg acc pfx name1 e1 new' {} d'' d hinert hw' <;> (rw [hd]; simp [add, ignSt])
    | go name1 decoded1 cp1 isDir1 ign1 cm1 =>
      rw [hpre1] at h
      simp only [childBaseline_none, reuseDecision_none] at h
      have hn := preDispatch_go _ _ _ _ _ _ _ _ _ _ _ _ hpre1
      have en : entryNames cfg ((raw1, node1) :: rest) = name1 :: entryNames cfg rest := by simp [entryNames, hn]
      rw [en] at hnd hfresh
      have hfr : name1 ∉ keys contents := fun hm => hfresh name1 hm (by simp)
      have hcp1 := preDispatch_go_link _ _ _ _ _ _ _ _ _ _ _ _ hpre1
      have hvn1 : validName name1 = true := hname1 name1 hn
      cases hsn : scanNode cfg {} cp1 false none cm1 (linkFor all decoded1 name1 node1) node1 {} with
      | mk r dn =>
        rw [hsn] at h
        cases r with
        | abort => simp at h
        | notExist =>
          simp only at h
          have hdn := notExist_adds_nothing _ _ _ _ _ _ _ _ _ hsn
          subst hdn
          obtain ⟨d'', hr, hd⟩ := andThen_some _ _ _ _ h
          obtain ⟨new', hcs', hw'⟩ := ih contents cs' d'' hR' hrest hnd'
            (fun n hn' hm => hfresh n hn' (by simp [hm])) hloc' hr
          refine ⟨new', hcs', ?_⟩
          obtain ⟨w, hw, c1, a1, b1, l1, s1, i1⟩ := hw'
          exact ⟨w, hw, by rw [hd]; simp [add, ignSt, c1], by rw [hd]; simp [add, ignSt, a1], by rw [hd]; simp [add, ignSt, b1],
            by rw [hd]; simp [add, ignSt, l1], by rw [hd]; simp [add, ignSt, s1], i1⟩
        | entry e1 =>
          simp only at h
          obtain ⟨d'', hr, hd⟩ := andThen_some _ _ _ _ h
          rw [upsert_fresh _ _ _ hfr] at hr
          obtain ⟨new', hcs', hw'⟩ := ih (contents ++ [(name1, e1)]) cs' d'' hR' hrest hnd'
            (by
              intro n hn'
              rw [keys_append] at hn'
              simp only [keys, List.map_cons, List.map_nil, List.mem_append, List.mem_singleton] at hn'
              rcases hn' with hh | hh
              · exact fun hm => hfresh n (by simpa [keys] using hh) (by simp [hm])
              · subst hh; exact (List.nodup_cons.mp hnd).1)
            hloc' hr
          refine ⟨(name1, e1) :: new', by rw [hcs']; simp, ?_⟩
          have hhead : WalkMatches cfg acc (pfx ++ name1) e1 dn := by
            have := hR (raw1, node1) List.mem_cons_self cp1 cm1 (linkFor all decoded1 name1 node1)
              (by rw [hcp1]; exact goodPfx_ne pfx name1 (validName_pathName name1 hvn1).2) hnode1
              (hloc raw1 node1 name1 decoded1 cp1 isDir1 ign1 cm1 List.mem_cons_self hpre1) e1
              (by simp only [cold]; rw [hsn])
            simp only [cold] at this
            rw [hsn, hcp1] at this
            exact this
          apply walkMatchesL_cons cfg acc pfx name1 e1 new' dn d'' d hhead hw' <;> (rw [hd]; simp [add, ignSt])

theorem namesOKL_names (cfg : Cfg) (P : Name → Bool) : ∀ (cs : Children), NamesOKL cfg P cs → ∀ s ∈ entryNames cfg cs, P s = true
  | [], _, s, hs => by simp [entryNames] at hs
  | (raw, n) :: rest, h, s, hs => by
    simp only [NamesOKL] at h
    simp only [entryNames, List.filterMap_cons] at hs
    cases hn : entryName cfg raw with
    | none =>
      rw [hn] at hs
      exact namesOKL_names cfg P rest h.2.2 s hs
    | some s' =>
      rw [hn] at hs
      rcases List.mem_cons.mp hs with rfl | hs
      · exact h.1 _ hn
      · exact namesOKL_names cfg P rest h.2.2 s hs

/-- The visitor on a counted, non-file entry: one counter moves, perhaps an
ignore binding is propagated. -/
theorem reuseVisit_dir (cfg : Cfg) (acc : Accel) (hign : IgnOK cfg acc.ignoreCache) (p : String) (pr : Props)
    (hk : pr.kind = .directory ∨ pr.kind = .phantom) :
    ∃ v, reuseVisit acc p pr ({}, false) = (v, false) ∧ v.newCache = [] ∧ v.dirs = 1 ∧ v.files = 0 ∧ v.links = 0 ∧
      v.size = 0 ∧ IgnOK cfg v.newIgnore := by
  unfold reuseVisit
  cases hl : alookup (p, true) acc.ignoreCache with
  | none =>
    refine ⟨{ dirs := 1 }, ?_, rfl, rfl, rfl, rfl, rfl, fun kv hkv => by simp at hkv⟩
    rcases hk with hk | hk <;> simp [hk, hl]
  | some v =>
    refine ⟨{ newIgnore := [((p, true), v)], dirs := 1 }, ?_, rfl, rfl, rfl, rfl, rfl, ?_⟩
    · rcases hk with hk | hk <;> simp [hk, hl]
    · intro kv hkv
      simp at hkv
      subst hkv
      exact ignOK_lookup cfg _ hign _ _ hl

theorem reuseVisit_symlink (cfg : Cfg) (acc : Accel) (hign : IgnOK cfg acc.ignoreCache) (p : String) (pr : Props)
    (hk : pr.kind = .symlink) :
    ∃ v, reuseVisit acc p pr ({}, false) = (v, false) ∧ v.newCache = [] ∧ v.dirs = 0 ∧ v.files = 0 ∧ v.links = 1 ∧
      v.size = 0 ∧ IgnOK cfg v.newIgnore := by
  unfold reuseVisit
  have hb : (Kind.symlink == Kind.directory || Kind.symlink == Kind.phantom) = false := rfl
  cases hl : alookup (p, false) acc.ignoreCache with
  | none =>
    exact ⟨{ links := 1 }, by simp [hk, hb, hl], rfl, rfl, rfl, rfl, rfl, fun kv hkv => by simp at hkv⟩
  | some v =>
    refine ⟨{ newIgnore := [((p, false), v)], links := 1 }, by simp [hk, hb, hl], rfl, rfl, rfl, rfl, rfl, ?_⟩
    intro kv hkv
    simp at hkv
    subst hkv
    exact ignOK_lookup cfg _ hign _ _ hl

theorem reuseVisit_file (cfg : Cfg) (acc : Accel) (hign : IgnOK cfg acc.ignoreCache) (p : String) (pr : Props)
    (hk : pr.kind = .file) (ce : CacheEntry) (hc : alookup p acc.cache = some ce) :
    ∃ v, reuseVisit acc p pr ({}, false) = (v, false) ∧ v.newCache = [(p, ce)] ∧ v.dirs = 0 ∧ v.files = 1 ∧ v.links = 0 ∧
      v.size = ce.size ∧ IgnOK cfg v.newIgnore := by
  unfold reuseVisit
  have hb : (Kind.file == Kind.directory || Kind.file == Kind.phantom) = false := rfl
  cases hl : alookup (p, false) acc.ignoreCache with
  | none =>
    exact ⟨{ newCache := [(p, ce)], files := 1, size := ce.size }, by simp [hk, hb, hl, hc], rfl, rfl, rfl, rfl, rfl,
      fun kv hkv => by simp at hkv⟩
  | some v =>
    refine ⟨{ newCache := [(p, ce)], newIgnore := [((p, false), v)], files := 1, size := ce.size }, by simp [hk, hb, hl, hc],
      rfl, rfl, rfl, rfl, rfl, ?_⟩
    intro kv hkv
    simp at hkv
    subst hkv
    exact ignOK_lookup cfg _ hign _ _ hl

/-- A leaf entry: the walk is the visit. -/
theorem walkMatches_leaf (cfg : Cfg) (acc : Accel) (p : String) (pr : Props) (d v : St)
    (hv : reuseVisit acc p pr ({}, false) = (v, false)) (hc : v.newCache = d.newCache) (h1 : v.dirs = d.dirs)
    (h2 : v.files = d.files) (h3 : v.links = d.links) (h4 : v.size = d.size) (hi : IgnOK cfg v.newIgnore) :
    WalkMatches cfg acc p (.mk pr []) d := by
  refine ⟨v, ?_, hc, h1, h2, h3, h4, hi⟩
  unfold reuseWalk
  rw [hv]
  simp [reuseWalkL]

/-- The cold handler on a directory, from the empty state, in the shape the
proofs use: problematic / vanished with no additions, or the children loop's
result with one more directory counted. -/
theorem cold_dir (cfg : Cfg) (p : String) (isRoot mask : Bool) (link : Fault × String) (dev : Nat) (cs : Children) :
    ((cold cfg p isRoot mask link (.dir dev cs)).2 = {} ∧
      ((cold cfg p isRoot mask link (.dir dev cs)).1 = .notExist ∨ (cold cfg p isRoot mask link (.dir dev cs)).1 = .abort ∨
        ∃ msg, (cold cfg p isRoot mask link (.dir dev cs)).1 = .entry (problematic msg))) ∨
    (∃ contents d, scanChildren cfg {} (if cs.isEmpty then "" else joinable p) cs cs none mask [] {} = some (contents, d) ∧
      cold cfg p isRoot mask link (.dir dev cs) =
        (.entry (.mk { kind := if mask then .phantom else .directory } contents), { d with dirs := d.dirs + 1 })) := by
  simp only [cold]
  unfold scanNode
  by_cases hdev : dev ≠ cfg.deviceID
  · rw [if_pos hdev]; left; exact ⟨rfl, Or.inr (Or.inr ⟨_, rfl⟩)⟩
  · rw [if_neg hdev]
    generalize (if isRoot = true then Fault.none else cfg.openDirFault p) = opened
    cases opened
    · simp only
      by_cases hrd : cfg.readDirFault p = true
      · rw [if_pos hrd]; left; exact ⟨rfl, Or.inr (Or.inr ⟨_, rfl⟩)⟩
      · rw [if_neg hrd]
        cases hs : scanChildren cfg {} (if cs.isEmpty then "" else joinable p) cs cs none mask [] {} with
        | none => left; exact ⟨rfl, Or.inr (Or.inl rfl)⟩
        | some r =>
          obtain ⟨contents, d⟩ := r
          right
          exact ⟨contents, d, rfl, rfl⟩
    · left; exact ⟨rfl, Or.inr (Or.inr ⟨_, rfl⟩)⟩
    · left; exact ⟨rfl, Or.inl rfl⟩

set_option linter.unusedSectionVars false

section
variable (cfg : Cfg) (acc : Accel) (hign : IgnOK cfg acc.ignoreCache)
include hign

mutual
theorem reuse_node : (n : Node) → ReuseOK cfg acc n
  | .file content perm mtime size ino => by
    intro p mask link hp _ hloc e he
    rcases cold_file cfg p false mask link content perm mtime size ino with ⟨h2, h1⟩ | ⟨_, _, _, h⟩
    · rw [h2]
      rcases h1 with h1 | ⟨msg, h1⟩
      · rw [h1] at he; cases he
      · rw [h1] at he; cases he; exact walkMatches_problematic cfg acc p msg
    · rw [h] at he ⊢
      cases he
      have hl := hloc p (under_refl p)
      rw [h] at hl
      simp only [alookup, if_true] at hl
      obtain ⟨v, hv, c1, a1, b1, l1, s1, i1⟩ := reuseVisit_file cfg acc hign p
        { kind := .file, digest := cfg.hash content,
          executable := cfg.permsMode == .portable && cfg.preservesExec && anyExecBit perm } rfl _ hl
      exact walkMatches_leaf cfg acc p _ _ v hv c1 a1 b1 l1 (by rw [s1]; rfl) i1
  | .symlink t => by
    intro p mask link hp _ hloc e he
    simp only [cold] at he ⊢
    unfold scanNode at he ⊢
    revert he
    cases cfg.symlinkMode with
    | ignore => intro he; cases he; exact walkMatches_untracked cfg acc p
    | portable =>
      simp only [scanSymlink]
      split
      · intro he; cases he
      · intro he; cases he; exact walkMatches_problematic cfg acc p _
      · split
        · rename_i e' _
          intro he
          cases he
          obtain ⟨msg, _, rfl⟩ := linkTarget_error _ _ _ _ _ (by assumption)
          exact walkMatches_problematic cfg acc p msg
        · intro he
          cases he
          obtain ⟨v, hv, c1, a1, b1, l1, s1, i1⟩ := reuseVisit_symlink cfg acc hign p { kind := .symlink, target := _ } rfl
          exact walkMatches_leaf cfg acc p _ _ v hv c1 a1 b1 l1 s1 i1
    | posixRaw =>
      simp only [scanSymlink]
      split
      · intro he; cases he
      · intro he; cases he; exact walkMatches_problematic cfg acc p _
      · split
        · rename_i e' _
          intro he
          cases he
          obtain ⟨msg, _, rfl⟩ := linkTarget_error _ _ _ _ _ (by assumption)
          exact walkMatches_problematic cfg acc p msg
        · intro he
          cases he
          obtain ⟨v, hv, c1, a1, b1, l1, s1, i1⟩ := reuseVisit_symlink cfg acc hign p { kind := .symlink, target := _ } rfl
          exact walkMatches_leaf cfg acc p _ _ v hv c1 a1 b1 l1 s1 i1
  | .other k => by
    intro p mask link hp _ hloc e he
    simp only [cold] at he ⊢
    unfold scanNode at he ⊢
    cases he
    exact walkMatches_untracked cfg acc p
  | .dir dev cs => by
    intro p mask link hp hok hloc e he
    rcases cold_dir cfg p false mask link dev cs with ⟨h2, h1⟩ | ⟨contents, dL, hs, h⟩
    · rw [h2]
      rcases h1 with h1 | h1 | ⟨msg, h1⟩
      · rw [h1] at he; cases he
      · rw [h1] at he; cases he
      · rw [h1] at he; cases he; exact walkMatches_problematic cfg acc p msg
    · rw [h] at he hloc ⊢
      cases he
      simp only [NamesOK] at hok
      obtain ⟨hnd, hokL⟩ := hok
      have hnames : ∀ s ∈ entryNames cfg cs, pathName s :=
        fun s hs' => validName_pathName s (namesOKL_names cfg validName cs hokL s hs')
      -- the loop over the children
      have hchild : ∀ raw node name decoded cp isDir ign cm, (raw, node) ∈ cs →
          preDispatch cfg {} (if cs.isEmpty then "" else joinable p) mask raw node = .go name decoded cp isDir ign cm →
          ∀ q, Under q cp → alookup q acc.cache = alookup q (cold cfg cp false cm (linkFor cs decoded name node) node).2.newCache := by
        intro raw node name decoded cp isDir ign cm hm hpre q hq
        have hne : cs.isEmpty = false := by
          cases cs with
          | nil => cases hm
          | cons _ _ => rfl
        have hcp : cp = p ++ "/" ++ name := by
          rw [preDispatch_go_link cfg {} _ mask raw node name decoded cp isDir ign cm hpre]
          simp [hne, joinable, hp]
        have hqp : Under q p := by rw [hcp] at hq; exact under_trans_join _ _ _ hq
        rw [hloc q hqp]
        exact coldL_locEq cfg _ cs mask cs [] contents dL hs hnd hnames raw node name decoded cp isDir ign cm hm hpre q hq
      obtain ⟨new, hnew, hwL⟩ := reuse_loop cfg acc _ cs mask cs [] contents dL (reuse_list cs) hokL hnd (by simp [keys]) hchild hs
      simp only [List.nil_append] at hnew
      subst hnew
      obtain ⟨wL, hwL, c1, a1, b1, l1, s1, i1⟩ := hwL
      obtain ⟨v, hv, vc, va, vb, vl, vs, vi⟩ := reuseVisit_dir cfg acc hign p { kind := if mask then .phantom else .directory }
        (by cases mask <;> simp)
      -- the prefix the walk uses is the loop's prefix whenever there is something to walk over
      have hpfx : contents.isEmpty = false → joinable p = (if cs.isEmpty then "" else joinable p) := by
        intro hce
        have : cs.isEmpty = false := by
          cases cs with
          | nil => simp [scanChildren] at hs; rw [hs.1] at hce; simp at hce
          | cons _ _ => rfl
        simp [this]
      refine ⟨add v wL, ?_, ?_, ?_, ?_, ?_, ?_, ?_⟩
      · unfold reuseWalk
        rw [hv]
        cases hce : contents.isEmpty with
        | true =>
          have : contents = [] := by simpa using hce
          subst this
          simp only [reuseWalkL] at hwL ⊢
          cases hwL
          simp [add_empty]
        | false =>
          simp only [Bool.false_eq_true, if_false]
          rw [hpfx hce, reuseWalkL_frame acc contents _ v false, hwL]
          rfl
      · simp [add, vc, c1]
      · simp [add, va, a1]; omega
      · simp [add, vb, b1]
      · simp [add, vl, l1]
      · simp [add, vs, s1]
      · simp only [add]; exact ignOK_append cfg _ _ i1 vi
theorem reuse_list : (cs : Children) → ∀ rn ∈ cs, ReuseOK cfg acc rn.2
  | [], rn, h => by cases h
  | (r, n) :: rest, rn, h => by
    rcases List.mem_cons.mp h with rfl | h
    · exact reuse_node n
    · exact reuse_list rest rn h
end
end

end Mutagen.Proofs.ScanReuse
