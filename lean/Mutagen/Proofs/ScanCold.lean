import Mutagen.Proofs.ScanFrame
import Mutagen.Proofs.ScanPaths
import Mutagen.Proofs.ScanFS
/-!
Structure of scans started from the empty scanner state (by the frame property
every scan is one of these plus the state it started from): the step equation of
the children loop, and what a cold scan (no baseline, empty caches) adds to the
digest cache and to the content map.
-/
namespace Mutagen.Proofs.ScanCold
open Mutagen.Model Mutagen.Model.ScanFS Mutagen.Proofs.ScanFrame Mutagen.Proofs.ScanPaths Mutagen.Proofs.ScanFS

/-- Additions consisting of one ignore-cache binding. -/
def ignSt (ign : List ((String × Bool) × IgnoreVal)) : St := { newIgnore := ign }

/-- Continue the loop after a child contributed the additions `d`. -/
def andThen (d : St) (r : Option (Contents × St)) : Option (Contents × St) :=
  r.map fun x => (x.1, add d x.2)

/-- The step equation of the children loop, from the empty state. -/
theorem scanChildren_cons (cfg : Cfg) (acc : Accel) (pfx : String) (all : Children) (raw : Bytes) (node : Node)
    (rest : Children) (baseline : Option Entry) (mask : Bool) (contents : Contents) :
    scanChildren cfg acc pfx all ((raw, node) :: rest) baseline mask contents {} =
      match preDispatch cfg acc pfx mask raw node with
      | .skip => scanChildren cfg acc pfx all rest baseline mask contents {}
      | .put name e ign =>
        andThen (ignSt ign.toList) (scanChildren cfg acc pfx all rest baseline mask (upsert name e contents) {})
      | .go name decoded cp isDir ign cm =>
        match reuseDecision cfg acc cp (childBaseline baseline isDir name) with
        | some b =>
          if (reuseWalk acc cp b ({}, false)).2 then none
          else andThen (add (ignSt [ign]) (reuseWalk acc cp b ({}, false)).1)
            (scanChildren cfg acc pfx all rest baseline mask (upsert name b contents) {})
        | none =>
          match scanNode cfg acc cp false (childBaseline baseline isDir name) cm (linkFor all decoded name node) node {} with
          | (.abort, _) => none
          | (.notExist, d) => andThen (add (ignSt [ign]) d) (scanChildren cfg acc pfx all rest baseline mask contents {})
          | (.entry e, d) =>
            andThen (add (ignSt [ign]) d) (scanChildren cfg acc pfx all rest baseline mask (upsert name e contents) {}) := by
  rw [scanChildren]
  cases preDispatch cfg acc pfx mask raw node with
  | skip => rfl
  | put name e ign =>
    simp only
    rw [scanChildren_frame cfg acc rest pfx all baseline mask (upsert name e contents) _]
    simp [andThen, ignSt, add]
  | go name decoded cp isDir ign cm =>
    simp only
    have h0 : ({ ({} : St) with newIgnore := ign :: ({} : St).newIgnore } : St) = ignSt [ign] := rfl
    rw [h0]
    cases reuseDecision cfg acc cp (childBaseline baseline isDir name) with
    | some b =>
      simp only
      rw [reuseWalk_frame acc b cp (ignSt [ign]) false]
      simp only [Bool.false_or]
      cases (reuseWalk acc cp b ({}, false)).2 with
      | true => rfl
      | false =>
        simp only [Bool.false_eq_true, if_false]
        rw [scanChildren_frame cfg acc rest pfx all baseline mask (upsert name b contents) _]
        rfl
    | none =>
      simp only
      rw [scanNode_frame cfg acc node cp false (childBaseline baseline isDir name) cm (linkFor all decoded name node) (ignSt [ign])]
      cases scanNode cfg acc cp false (childBaseline baseline isDir name) cm (linkFor all decoded name node) node {} with
      | mk r d =>
        cases r with
        | abort => rfl
        | notExist =>
          simp only
          rw [scanChildren_frame cfg acc rest pfx all baseline mask contents _]
          rfl
        | entry e =>
          simp only
          rw [scanChildren_frame cfg acc rest pfx all baseline mask (upsert name e contents) _]
          rfl

/-- The cold handler result of a node, from the empty state. -/
abbrev cold (cfg : Cfg) (p : String) (isRoot mask : Bool) (link : Fault × String) (n : Node) : Res × St :=
  scanNode cfg {} p isRoot none mask link n {}

/-- Child `(raw, node)` of a directory scanned cold with prefix `pfx` and mask
`mask` reaches the handler stage under `name` at path `cp` with child mask `cm`. -/
def GoesAs (cfg : Cfg) (pfx : String) (mask : Bool) (raw : Bytes) (node : Node) (name cp : String) (cm : Bool) : Prop :=
  ∃ decoded isDir ign, preDispatch cfg {} pfx mask raw node = .go name decoded cp isDir ign cm

theorem andThen_cache (d : St) (r : Option (Contents × St)) (cs' : Contents) (d' : St)
    (h : andThen d r = some (cs', d')) : ∃ d'', r = some (cs', d'') ∧ d'.newCache = d''.newCache ++ d.newCache := by
  cases r with
  | none => cases h
  | some x =>
    simp only [andThen, Option.map] at h
    cases h
    exact ⟨x.2, rfl, rfl⟩

theorem preDispatch_go_link (cfg : Cfg) (acc : Accel) (pfx : String) (mask : Bool) (raw : Bytes) (node : Node)
    (name decoded cp : String) (isDir : Bool) (ign : (String × Bool) × IgnoreVal) (cm : Bool)
    (h : preDispatch cfg acc pfx mask raw node = .go name decoded cp isDir ign cm) : cp = pfx ++ name := by
  unfold preDispatch at h
  by_cases ht : hasTemporaryPrefix raw = true
  · simp [ht] at h
  · simp only [ht] at h
    revert h
    cases cfg.utf8 raw with
    | none => simp
    | some d =>
      simp
      cases node <;> simp <;> (try split) <;> (try simp) <;> intros <;> subst_vars <;> rfl

/-- C1: an entry of the digest cache produced by the cold children loop was
produced by the cold handler of one of the children (and conversely). -/
theorem coldL_cache_mem (cfg : Cfg) (pfx : String) (all : Children) (mask : Bool) :
    ∀ (cs : Children) (contents cs' : Contents) (d : St),
      scanChildren cfg {} pfx all cs none mask contents {} = some (cs', d) →
      ∀ x, x ∈ d.newCache ↔
        ∃ raw node name decoded cp isDir ign cm, (raw, node) ∈ cs ∧
          preDispatch cfg {} pfx mask raw node = .go name decoded cp isDir ign cm ∧
          x ∈ (cold cfg cp false cm (linkFor all decoded name node) node).2.newCache := by
  intro cs
  induction cs with
  | nil =>
    intro contents cs' d h x
    simp [scanChildren] at h
    obtain ⟨_, rfl⟩ := h
    simp
  | cons c rest ih =>
    obtain ⟨raw, node⟩ := c
    intro contents cs' d h x
    rw [scanChildren_cons] at h
    cases hpre : preDispatch cfg {} pfx mask raw node with
    | skip =>
      rw [hpre] at h
      simp only at h
      rw [ih contents cs' d h x]
      constructor
      · rintro ⟨raw', node', name, decoded, cp, isDir, ign, cm, hm, hp, hx⟩
        exact ⟨raw', node', name, decoded, cp, isDir, ign, cm, List.mem_cons_of_mem _ hm, hp, hx⟩
      · rintro ⟨raw', node', name, decoded, cp, isDir, ign, cm, hm, hp, hx⟩
        rcases List.mem_cons.mp hm with heq | hm
        · cases heq; rw [hpre] at hp; cases hp
        · exact ⟨raw', node', name, decoded, cp, isDir, ign, cm, hm, hp, hx⟩
    | put name e ign =>
      rw [hpre] at h
      simp only at h
      obtain ⟨d'', hr, hc⟩ := andThen_cache _ _ _ _ h
      rw [hc]
      simp only [ignSt, List.append_nil]
      rw [ih _ cs' d'' hr x]
      constructor
      · rintro ⟨raw', node', name', decoded, cp, isDir, ign', cm, hm, hp, hx⟩
        exact ⟨raw', node', name', decoded, cp, isDir, ign', cm, List.mem_cons_of_mem _ hm, hp, hx⟩
      · rintro ⟨raw', node', name', decoded, cp, isDir, ign', cm, hm, hp, hx⟩
        rcases List.mem_cons.mp hm with heq | hm
        · cases heq; rw [hpre] at hp; cases hp
        · exact ⟨raw', node', name', decoded, cp, isDir, ign', cm, hm, hp, hx⟩
    | go name decoded cp isDir ign cm =>
      rw [hpre] at h
      simp only [childBaseline_none, reuseDecision_none] at h
      cases hsn : scanNode cfg {} cp false none cm (linkFor all decoded name node) node {} with
      | mk r dn =>
        rw [hsn] at h
        have hfwd : ∀ d'' contents', scanChildren cfg {} pfx all rest none mask contents' {} = some (cs', d'') →
            d.newCache = d''.newCache ++ dn.newCache →
            (x ∈ d.newCache ↔
              ∃ raw' node' name' decoded' cp' isDir' ign' cm', (raw', node') ∈ (raw, node) :: rest ∧
                preDispatch cfg {} pfx mask raw' node' = .go name' decoded' cp' isDir' ign' cm' ∧
                x ∈ (cold cfg cp' false cm' (linkFor all decoded' name' node') node').2.newCache) := by
          intro d'' contents' hr hc
          rw [hc, List.mem_append, ih contents' cs' d'' hr x]
          constructor
          · rintro (⟨raw', node', name', decoded', cp', isDir', ign', cm', hm, hp, hx⟩ | hx)
            · exact ⟨raw', node', name', decoded', cp', isDir', ign', cm', List.mem_cons_of_mem _ hm, hp, hx⟩
            · exact ⟨raw, node, name, decoded, cp, isDir, ign, cm, List.mem_cons_self, hpre, by simp only [cold]; rw [hsn]; exact hx⟩
          · rintro ⟨raw', node', name', decoded', cp', isDir', ign', cm', hm, hp, hx⟩
            rcases List.mem_cons.mp hm with heq | hm
            · cases heq
              rw [hpre] at hp
              cases hp
              right
              simp only [cold] at hx; rw [hsn] at hx; exact hx
            · left; exact ⟨raw', node', name', decoded', cp', isDir', ign', cm', hm, hp, hx⟩
        cases r with
        | abort => simp at h
        | notExist =>
          simp only at h
          obtain ⟨d'', hr, hc⟩ := andThen_cache _ _ _ _ h
          exact hfwd d'' contents hr (by rw [hc]; simp [add, ignSt])
        | entry e =>
          simp only at h
          obtain ⟨d'', hr, hc⟩ := andThen_cache _ _ _ _ h
          exact hfwd d'' _ hr (by rw [hc]; simp [add, ignSt])

theorem lookup_upsert_self (n : Name) (e : Entry) (cs : Contents) : lookup n (upsert n e cs) = some e := by
  induction cs with
  | nil => simp [upsert, lookup]
  | cons hd t ih =>
    obtain ⟨m, c⟩ := hd
    simp only [upsert]
    split
    · simp [lookup]
    · rename_i hne; simp [lookup, hne, ih]

theorem lookup_upsert_ne (n m : Name) (e : Entry) (cs : Contents) (h : n ≠ m) :
    lookup n (upsert m e cs) = lookup n cs := by
  have hmn : ¬ m = n := fun hh => h hh.symm
  induction cs with
  | nil => simp [upsert, lookup, hmn]
  | cons hd t ih =>
    obtain ⟨k, c⟩ := hd
    simp only [upsert]
    split
    · rename_i hkm
      subst hkm
      simp [lookup, hmn]
    · simp only [lookup]
      split
      · rfl
      · exact ih

theorem andThen_some (d : St) (r : Option (Contents × St)) (cs' : Contents) (d' : St)
    (h : andThen d r = some (cs', d')) : ∃ d'', r = some (cs', d'') ∧ d' = add d d'' := by
  cases r with
  | none => cases h
  | some x =>
    simp only [andThen, Option.map] at h
    cases h
    exact ⟨x.2, rfl, rfl⟩

/-- C2: an entry of the content map built by the cold children loop was there
before, or was recorded at once for a child of that name, or is the entry the
cold handler returned for a child of that name. -/
theorem coldL_lookup (cfg : Cfg) (pfx : String) (all : Children) (mask : Bool) :
    ∀ (cs : Children) (contents cs' : Contents) (d : St),
      scanChildren cfg {} pfx all cs none mask contents {} = some (cs', d) →
      ∀ name e, lookup name cs' = some e →
        lookup name contents = some e ∨
        (∃ raw node ign, (raw, node) ∈ cs ∧ preDispatch cfg {} pfx mask raw node = .put name e ign) ∨
        (∃ raw node decoded cp isDir ign cm, (raw, node) ∈ cs ∧
          preDispatch cfg {} pfx mask raw node = .go name decoded cp isDir ign cm ∧
          (cold cfg cp false cm (linkFor all decoded name node) node).1 = .entry e) := by
  intro cs
  induction cs with
  | nil =>
    intro contents cs' d h name e hl
    simp [scanChildren] at h
    obtain ⟨rfl, _⟩ := h
    exact Or.inl hl
  | cons c rest ih =>
    obtain ⟨raw, node⟩ := c
    intro contents cs' d h name e hl
    rw [scanChildren_cons] at h
    -- lifting a conclusion about `rest` to `(raw, node) :: rest`
    have lift : ((∃ raw' node' ign, (raw', node') ∈ rest ∧ preDispatch cfg {} pfx mask raw' node' = .put name e ign) ∨
        (∃ raw' node' decoded cp isDir ign cm, (raw', node') ∈ rest ∧
          preDispatch cfg {} pfx mask raw' node' = .go name decoded cp isDir ign cm ∧
          (cold cfg cp false cm (linkFor all decoded name node') node').1 = .entry e)) →
        ((∃ raw' node' ign, (raw', node') ∈ (raw, node) :: rest ∧ preDispatch cfg {} pfx mask raw' node' = .put name e ign) ∨
        (∃ raw' node' decoded cp isDir ign cm, (raw', node') ∈ (raw, node) :: rest ∧
          preDispatch cfg {} pfx mask raw' node' = .go name decoded cp isDir ign cm ∧
          (cold cfg cp false cm (linkFor all decoded name node') node').1 = .entry e)) := by
      rintro (⟨r', n', i', hm, hp⟩ | ⟨r', n', d', c', i', g', m', hm, hp, he⟩)
      · exact Or.inl ⟨r', n', i', List.mem_cons_of_mem _ hm, hp⟩
      · exact Or.inr ⟨r', n', d', c', i', g', m', List.mem_cons_of_mem _ hm, hp, he⟩
    cases hpre : preDispatch cfg {} pfx mask raw node with
    | skip =>
      rw [hpre] at h
      rcases ih contents cs' d h name e hl with h1 | h2
      · exact Or.inl h1
      · exact Or.inr (lift h2)
    | put name1 e1 ign =>
      rw [hpre] at h
      simp only at h
      obtain ⟨d'', hr, _⟩ := andThen_some _ _ _ _ h
      rcases ih _ cs' d'' hr name e hl with h1 | h2
      · by_cases hn : name = name1
        · subst hn
          rw [lookup_upsert_self] at h1
          cases h1
          exact Or.inr (Or.inl ⟨raw, node, ign, List.mem_cons_self, hpre⟩)
        · rw [lookup_upsert_ne _ _ _ _ hn] at h1
          exact Or.inl h1
      · exact Or.inr (lift h2)
    | go name1 decoded cp isDir ign cm =>
      rw [hpre] at h
      simp only [childBaseline_none, reuseDecision_none] at h
      cases hsn : scanNode cfg {} cp false none cm (linkFor all decoded name1 node) node {} with
      | mk r dn =>
        rw [hsn] at h
        cases r with
        | abort => simp at h
        | notExist =>
          simp only at h
          obtain ⟨d'', hr, _⟩ := andThen_some _ _ _ _ h
          rcases ih _ cs' d'' hr name e hl with h1 | h2
          · exact Or.inl h1
          · exact Or.inr (lift h2)
        | entry e1 =>
          simp only at h
          obtain ⟨d'', hr, _⟩ := andThen_some _ _ _ _ h
          rcases ih _ cs' d'' hr name e hl with h1 | h2
          · by_cases hn : name = name1
            · subst hn
              rw [lookup_upsert_self] at h1
              cases h1
              exact Or.inr (Or.inr ⟨raw, node, decoded, cp, isDir, ign, cm, List.mem_cons_self, hpre,
                by simp only [cold]; rw [hsn]⟩)
            · rw [lookup_upsert_ne _ _ _ _ hn] at h1
              exact Or.inl h1
          · exact Or.inr (lift h2)

/-- The cache entry a scan creates for a readable file. -/
def freshEntry (cfg : Cfg) (content : Bytes) (perm : Nat) (mtime : MTime) (size ino : Nat) : CacheEntry :=
  { mode := modeTypeFile + perm, mtime := mtime, size := size, fileID := ino, digest := cfg.hash content }

/-- C4: what the cold handler does with a regular file: nothing is cached (it
vanished or is problematic), or exactly one entry under its own path, and then
the open succeeded, the size matched, the time is convertible, and the entry is
the file entry with the digest of the content. -/
theorem cold_file (cfg : Cfg) (p : String) (isRoot mask : Bool) (link : Fault × String) (content : Bytes) (perm : Nat)
    (mtime : MTime) (size ino : Nat) :
    ((cold cfg p isRoot mask link (.file content perm mtime size ino)).2 = {} ∧
      ((cold cfg p isRoot mask link (.file content perm mtime size ino)).1 = .notExist ∨
        ∃ msg, (cold cfg p isRoot mask link (.file content perm mtime size ino)).1 = .entry (problematic msg))) ∨
    ((isRoot = true ∨ cfg.openFileFault p = .none) ∧ content.length = size ∧ mtime.valid = true ∧
      cold cfg p isRoot mask link (.file content perm mtime size ino) =
        (.entry (.mk { kind := .file, digest := cfg.hash content,
                       executable := cfg.permsMode == .portable && cfg.preservesExec && anyExecBit perm } []),
         { newCache := [(p, freshEntry cfg content perm mtime size ino)], files := 1, size := size })) := by
  simp only [cold]
  unfold scanNode scanFile
  simp only [alookup, cacheContentMatch, cacheEntryReusable, fileDigest, fileCacheEntry]
  by_cases hopen : isRoot = true ∨ cfg.openFileFault p = .none
  · by_cases hsz : content.length = size
    · by_cases ht : mtime.valid = true
      · right
        refine ⟨hopen, hsz, ht, ?_⟩
        rcases hopen with h | h <;> simp [h, hsz, ht, freshEntry]
      · left
        rcases hopen with h | h <;> simp [h, hsz, ht] <;> exact ⟨_, rfl⟩
    · left
      rcases hopen with h | h <;> simp [h, hsz] <;> exact ⟨_, rfl⟩
  · left
    simp only [not_or] at hopen
    obtain ⟨h1, h2⟩ := hopen
    have h1' : isRoot = false := by simpa using h1
    cases hf : cfg.openFileFault p with
    | none => exact absurd hf h2
    | err => simp [h1']; exact ⟨_, rfl⟩
    | notExist => simp [h1']

theorem ne_empty_append (p s : String) (hp : p ≠ "") : p ++ s ≠ "" := by
  intro h
  have := congrArg String.toList h
  simp only [String.toList_append] at this
  have h2 : p.toList = [] := by
    cases hp' : p.toList with
    | nil => rfl
    | cons c r => rw [hp'] at this; simp at this
  exact hp (String.toList_eq_nil_iff.mp h2)

/-- Keys a cold handler adds to the digest cache lie at or below its path. -/
def KeysUnder (cfg : Cfg) (n : Node) : Prop :=
  ∀ (p : String) (isRoot mask : Bool) (link : Fault × String), p ≠ "" →
    ∀ x ∈ (cold cfg p isRoot mask link n).2.newCache, Under x.1 p

theorem cold_dir_cache (cfg : Cfg) (p : String) (isRoot mask : Bool) (link : Fault × String) (dev : Nat) (cs : Children)
    (x : String × CacheEntry) (hx : x ∈ (cold cfg p isRoot mask link (.dir dev cs)).2.newCache) :
    ∃ cs' d, scanChildren cfg {} (if cs.isEmpty then "" else joinable p) cs cs none mask [] {} = some (cs', d) ∧
      x ∈ d.newCache := by
  simp only [cold] at hx
  unfold scanNode at hx
  by_cases hdev : dev ≠ cfg.deviceID
  · rw [if_pos hdev] at hx; simp at hx
  · rw [if_neg hdev] at hx
    revert hx
    generalize (if isRoot = true then Fault.none else cfg.openDirFault p) = opened
    cases opened
    · simp only
      by_cases hrd : cfg.readDirFault p = true
      · rw [if_pos hrd]; simp
      · rw [if_neg hrd]
        cases hs : scanChildren cfg {} (if cs.isEmpty then "" else joinable p) cs cs none mask [] {} with
        | none => simp
        | some r =>
          obtain ⟨cs', d⟩ := r
          simp only
          intro hx
          exact ⟨cs', d, rfl, hx⟩
    · simp
    · simp

mutual
theorem keysUnder_node (cfg : Cfg) : (n : Node) → KeysUnder cfg n
  | .file content perm mtime size ino => by
    intro p isRoot mask link _ x hx
    rcases cold_file cfg p isRoot mask link content perm mtime size ino with ⟨h, _⟩ | ⟨_, _, _, h⟩
    · rw [h] at hx; simp at hx
    · rw [h] at hx
      simp at hx
      subst hx
      exact under_refl p
  | .symlink t => by
    intro p isRoot mask link _ x hx
    simp only [cold] at hx
    unfold scanNode at hx
    revert hx
    cases cfg.symlinkMode <;> simp [scanSymlink] <;> (repeat' split) <;> simp
  | .other k => by
    intro p isRoot mask link _ x hx
    simp only [cold] at hx
    unfold scanNode at hx
    simp at hx
  | .dir dev cs => by
    intro p isRoot mask link hp x hx
    obtain ⟨cs', d, hs, hxd⟩ := cold_dir_cache cfg p isRoot mask link dev cs x hx
    obtain ⟨raw, node, name, decoded, cp, isDir, ign, cm, hm, hpre, hxc⟩ :=
      (coldL_cache_mem cfg _ cs mask cs [] cs' d hs x).mp hxd
    have hne : cs.isEmpty = false := by
      cases cs with
      | nil => cases hm
      | cons _ _ => rfl
    have hcp : cp = p ++ "/" ++ name := by
      rw [preDispatch_go_link cfg {} _ mask raw node name decoded cp isDir ign cm hpre]
      simp [hne, joinable, hp]
    have hcpne : cp ≠ "" := by
      rw [hcp, String.append_assoc]; exact ne_empty_append p _ hp
    have := keysUnder_list cfg cs (raw, node) hm cp false cm (linkFor cs decoded name node) hcpne x hxc
    rw [hcp] at this
    exact under_trans_join _ _ _ this
theorem keysUnder_list (cfg : Cfg) : (cs : Children) → ∀ rn ∈ cs, KeysUnder cfg rn.2
  | [], rn, h => by cases h
  | (r, n) :: rest, rn, h => by
    rcases List.mem_cons.mp h with rfl | h
    · exact keysUnder_node cfg n
    · exact keysUnder_list cfg rest rn h
end

theorem alookup_append {β} (q : String) (A B : List (String × β)) :
    alookup q (A ++ B) = match alookup q A with | some v => some v | none => alookup q B := by
  induction A with
  | nil => simp [alookup]
  | cons hd t ih =>
    obtain ⟨k, v⟩ := hd
    simp only [List.cons_append, alookup]
    split
    · rfl
    · exact ih

theorem alookup_none_of_keys {β} (q : String) (A : List (String × β)) (h : ∀ x ∈ A, x.1 ≠ q) : alookup q A = none := by
  induction A with
  | nil => rfl
  | cons hd t ih =>
    obtain ⟨k, v⟩ := hd
    simp only [alookup]
    rw [if_neg (h (k, v) (by simp))]
    exact ih (fun x hx => h x (by simp [hx]))

/-- A good name for path reasoning: not empty and free of `/`. -/
def pathName (s : Name) : Prop := slashFree s ∧ s ≠ ""

/-- The prefix the loop of a directory at `p` uses: empty at the root, `p/` below. -/
def GoodPfx (pfx : String) : Prop := pfx = "" ∨ ∃ p, p ≠ "" ∧ pfx = p ++ "/"

theorem goodPfx_ne (pfx name : String) (hn : name ≠ "") : pfx ++ name ≠ "" :=
  append_ne_empty pfx name hn

/-- Keys the cold loop over `cs` adds lie at or below `pfx ++ name'` for the name
`name'` of one of the children. -/
theorem coldL_keys (cfg : Cfg) (pfx : String) (all : Children) (mask : Bool) (cs : Children) (contents cs' : Contents) (d : St)
    (h : scanChildren cfg {} pfx all cs none mask contents {} = some (cs', d))
    (hnames : ∀ s ∈ entryNames cfg cs, pathName s) :
    ∀ x ∈ d.newCache, ∃ name' ∈ entryNames cfg cs, Under x.1 (pfx ++ name') := by
  intro x hx
  obtain ⟨raw, node, name, decoded, cp, isDir, ign, cm, hm, hpre, hxc⟩ :=
    (coldL_cache_mem cfg pfx all mask cs contents cs' d h x).mp hx
  have hn := preDispatch_go _ _ _ _ _ _ _ _ _ _ _ _ hpre
  have hmem : name ∈ entryNames cfg cs := by
    simp only [entryNames, List.mem_filterMap]
    exact ⟨(raw, node), hm, hn⟩
  have hcp := preDispatch_go_link _ _ _ _ _ _ _ _ _ _ _ _ hpre
  refine ⟨name, hmem, ?_⟩
  rw [← hcp]
  exact keysUnder_list cfg cs (raw, node) hm cp false cm _ (by rw [hcp]; exact goodPfx_ne pfx name (hnames name hmem).2) x hxc

theorem not_under_other (pfx name name' q k : String) (hn : pathName name) (hn' : pathName name') (hne : name ≠ name')
    (hq : Under q (pfx ++ name)) (hk : Under k (pfx ++ name')) : k ≠ q := by
  intro he
  subst he
  exact hne (under_same_name pfx name name' k hn.1 hn'.1 hq hk)

/-- LocNone: below the path of a name that no child of the directory reaches the
handler stage with, the cold loop caches nothing. -/
theorem coldL_locNone (cfg : Cfg) (pfx : String) (all : Children) (mask : Bool) (cs : Children) (contents cs' : Contents) (d : St)
    (h : scanChildren cfg {} pfx all cs none mask contents {} = some (cs', d))
    (hnames : ∀ s ∈ entryNames cfg cs, pathName s) (name : Name) (hname : pathName name)
    (hno : ∀ raw node decoded cp isDir ign cm, (raw, node) ∈ cs →
      preDispatch cfg {} pfx mask raw node ≠ .go name decoded cp isDir ign cm)
    (q : String) (hq : Under q (pfx ++ name)) : alookup q d.newCache = none := by
  apply alookup_none_of_keys
  intro x hx
  obtain ⟨raw, node, name', decoded, cp, isDir, ign, cm, hm, hpre, hxc⟩ :=
    (coldL_cache_mem cfg pfx all mask cs contents cs' d h x).mp hx
  have hn := preDispatch_go _ _ _ _ _ _ _ _ _ _ _ _ hpre
  have hmem : name' ∈ entryNames cfg cs := by
    simp only [entryNames, List.mem_filterMap]
    exact ⟨(raw, node), hm, hn⟩
  have hcp := preDispatch_go_link _ _ _ _ _ _ _ _ _ _ _ _ hpre
  have hne : name ≠ name' := by
    intro he
    subst he
    exact hno raw node decoded cp isDir ign cm hm hpre
  have hk : Under x.1 (pfx ++ name') := by
    rw [← hcp]
    exact keysUnder_list cfg cs (raw, node) hm cp false cm _ (by rw [hcp]; exact goodPfx_ne pfx name' (hnames name' hmem).2) x hxc
  exact not_under_other pfx name name' q x.1 hname (hnames name' hmem) hne hq hk

theorem entryNames_cons_go (cfg : Cfg) (pfx : String) (mask : Bool) (raw : Bytes) (node : Node) (rest : Children)
    (name decoded cp : String) (isDir : Bool) (ign : (String × Bool) × IgnoreVal) (cm : Bool)
    (hpre : preDispatch cfg {} pfx mask raw node = .go name decoded cp isDir ign cm) :
    entryNames cfg ((raw, node) :: rest) = name :: entryNames cfg rest := by
  have hn := preDispatch_go _ _ _ _ _ _ _ _ _ _ _ _ hpre
  simp [entryNames, hn]

theorem entryNames_cons_sub (cfg : Cfg) (raw : Bytes) (node : Node) (rest : Children) :
    ∀ s ∈ entryNames cfg rest, s ∈ entryNames cfg ((raw, node) :: rest) := by
  intro s hs
  simp only [entryNames, List.filterMap_cons]
  split
  · exact hs
  · exact List.mem_cons_of_mem _ hs

theorem entryNames_cons_nodup (cfg : Cfg) (raw : Bytes) (node : Node) (rest : Children)
    (h : (entryNames cfg ((raw, node) :: rest)).Nodup) : (entryNames cfg rest).Nodup := by
  simp only [entryNames, List.filterMap_cons] at h ⊢
  split at h
  · exact h
  · exact (List.nodup_cons.mp h).2

/-- LocEq: below the path of a child that reaches the handler stage, looking a
key up in what the cold loop cached is looking it up in what that child's
handler cached. -/
theorem coldL_locEq (cfg : Cfg) (pfx : String) (all : Children) (mask : Bool) :
    ∀ (cs : Children) (contents cs' : Contents) (d : St),
      scanChildren cfg {} pfx all cs none mask contents {} = some (cs', d) →
      (entryNames cfg cs).Nodup → (∀ s ∈ entryNames cfg cs, pathName s) →
      ∀ raw node name decoded cp isDir ign cm, (raw, node) ∈ cs →
        preDispatch cfg {} pfx mask raw node = .go name decoded cp isDir ign cm →
        ∀ q, Under q cp →
          alookup q d.newCache = alookup q (cold cfg cp false cm (linkFor all decoded name node) node).2.newCache := by
  intro cs
  induction cs with
  | nil => intro _ _ _ _ _ _ raw node _ _ _ _ _ _ hm; cases hm
  | cons c rest ih =>
    obtain ⟨raw1, node1⟩ := c
    intro contents cs' d h hnd hnames raw node name decoded cp isDir ign cm hm hpre q hq
    have hnd' := entryNames_cons_nodup cfg raw1 node1 rest hnd
    have hnames' : ∀ s ∈ entryNames cfg rest, pathName s := fun s hs => hnames s (entryNames_cons_sub cfg raw1 node1 rest s hs)
    have hcp := preDispatch_go_link _ _ _ _ _ _ _ _ _ _ _ _ hpre
    rw [scanChildren_cons] at h
    cases hpre1 : preDispatch cfg {} pfx mask raw1 node1 with
    | skip =>
      rw [hpre1] at h
      rcases List.mem_cons.mp hm with heq | hm'
      · cases heq; rw [hpre1] at hpre; cases hpre
      · exact ih contents cs' d h hnd' hnames' raw node name decoded cp isDir ign cm hm' hpre q hq
    | put name1 e1 ign1 =>
      rw [hpre1] at h
      simp only at h
      obtain ⟨d'', hr, hc⟩ := andThen_cache _ _ _ _ h
      rw [hc]
      simp only [ignSt, List.append_nil]
      rcases List.mem_cons.mp hm with heq | hm'
      · cases heq; rw [hpre1] at hpre; cases hpre
      · exact ih _ cs' d'' hr hnd' hnames' raw node name decoded cp isDir ign cm hm' hpre q hq
    | go name1 decoded1 cp1 isDir1 ign1 cm1 =>
      rw [hpre1] at h
      simp only [childBaseline_none, reuseDecision_none] at h
      have hen := entryNames_cons_go cfg pfx mask raw1 node1 rest name1 decoded1 cp1 isDir1 ign1 cm1 hpre1
      rw [hen] at hnd hnames
      have hn1 : pathName name1 := hnames name1 (by simp)
      have hnot1 : name1 ∉ entryNames cfg rest := (List.nodup_cons.mp hnd).1
      have hcp1 := preDispatch_go_link _ _ _ _ _ _ _ _ _ _ _ _ hpre1
      cases hsn : scanNode cfg {} cp1 false none cm1 (linkFor all decoded1 name1 node1) node1 {} with
      | mk r dn =>
        rw [hsn] at h
        -- the common part once the rest of the loop is known
        have key : ∀ d'' contents', scanChildren cfg {} pfx all rest none mask contents' {} = some (cs', d'') →
            d.newCache = d''.newCache ++ dn.newCache →
            alookup q d.newCache = alookup q (cold cfg cp false cm (linkFor all decoded name node) node).2.newCache := by
          intro d'' contents' hr hc
          rw [hc, alookup_append]
          have hheadkeys : ∀ x ∈ dn.newCache, Under x.1 (pfx ++ name1) := by
            intro x hx
            rw [← hcp1]
            have := keysUnder_node cfg node1 cp1 false cm1 (linkFor all decoded1 name1 node1)
              (by rw [hcp1]; exact goodPfx_ne pfx name1 hn1.2) x
            simp only [cold] at this
            rw [hsn] at this
            exact this hx
          rcases List.mem_cons.mp hm with heq | hm'
          · -- the child is the head
            cases heq
            rw [hpre1] at hpre
            cases hpre
            have hnone : alookup q d''.newCache = none := by
              apply coldL_locNone cfg pfx all mask rest contents' cs' d'' hr hnames' name hn1
              · intro raw' node' decoded' cp' isDir' ign' cm' hm'' hp'
                have := preDispatch_go _ _ _ _ _ _ _ _ _ _ _ _ hp'
                exact hnot1 (by simp only [entryNames, List.mem_filterMap]; exact ⟨(raw', node'), hm'', this⟩)
              · rw [← hcp]; exact hq
            rw [hnone]
            simp only [cold]
            rw [hsn]
          · -- the child is in the rest
            have hmem : name ∈ entryNames cfg rest := by
              have := preDispatch_go _ _ _ _ _ _ _ _ _ _ _ _ hpre
              simp only [entryNames, List.mem_filterMap]
              exact ⟨(raw, node), hm', this⟩
            have hne : name ≠ name1 := fun he => hnot1 (he ▸ hmem)
            rw [ih contents' cs' d'' hr hnd' hnames' raw node name decoded cp isDir ign cm hm' hpre q hq]
            have hhead : alookup q dn.newCache = none := by
              apply alookup_none_of_keys
              intro x hx
              exact not_under_other pfx name name1 q x.1 (hnames' name hmem) hn1 hne (by rw [← hcp]; exact hq) (hheadkeys x hx)
            rw [hhead]
            cases alookup q (cold cfg cp false cm (linkFor all decoded name node) node).2.newCache <;> rfl
        cases r with
        | abort => simp at h
        | notExist =>
          simp only at h
          obtain ⟨d'', hr, hc⟩ := andThen_cache _ _ _ _ h
          exact key d'' contents hr (by rw [hc]; simp [add, ignSt])
        | entry e =>
          simp only at h
          obtain ⟨d'', hr, hc⟩ := andThen_cache _ _ _ _ h
          exact key d'' _ hr (by rw [hc]; simp [add, ignSt])

end Mutagen.Proofs.ScanCold
