import Mutagen.Proofs.RsyncPatch
/-!
C19, part 4: `patch base (deltify target (signature base)) = target` under the
no-collision hypothesis.
-/
namespace Mutagen.Proofs.Rsync
open Mutagen.Model.Rsync

section
variable {D : Type} [DecidableEq D] (H : List UInt8 → D)

/-- **The no-collision hypothesis**: the strong hash `H` does not collide between
a block of the base (block size `bs`; the last block may be short) and an
equally long contiguous window of the target. -/
def NoCollision (base : List UInt8) (bs : Nat) (target : List UInt8) : Prop :=
  ∀ i w, i * bs < base.length → w <:+: target → w.length = (blockBytes base bs i).length →
    H w = H (blockBytes base bs i) → w = blockBytes base bs i

/-- A strong-hash match of the short last block is a genuine match. -/
def SoundLast (base T : List UInt8) (sig : Signature D) : Prop :=
  ∀ hb w, sig.hashes[sig.hashes.length - 1]? = some hb → hb.strong = H w →
    w.length = sig.lastBlockSize → w <:+: T → blockBytes base sig.blockSize (sig.hashes.length - 1) = w

theorem shortMatch_true (sig : Signature D) (buf : List UInt8) (h : shortMatch H sig buf = true) :
    sig.lastBlockSize ≤ buf.length ∧
    ∃ hb, sig.hashes[sig.hashes.length - 1]? = some hb ∧
      H (buf.drop (buf.length - sig.lastBlockSize)) = hb.strong := by
  unfold shortMatch at h
  by_cases hc : ((sig.lastBlockSize != sig.blockSize) && decide (buf.length ≥ sig.lastBlockSize)) = true
  · simp only [hc, if_true] at h
    simp only [Bool.and_eq_true, decide_eq_true_eq] at hc
    refine ⟨hc.2, ?_⟩
    cases hh : sig.hashes[sig.hashes.length - 1]? with
    | none => simp [hh] at h
    | some hb =>
      simp only [hh, Bool.and_eq_true, decide_eq_true_eq] at h
      exact ⟨hb, rfl, h.2⟩
  · simp [hc] at h

/-- The closure calls of `deltifyCore` stand for the target. -/
theorem coreEvents_bytes (base target : List UInt8) (sig : Signature D) (maxOp : Nat)
    (hbs : 0 < sig.blockSize)
    (hs : SoundFull H base target sig.blockSize (fullHashes sig)) (hl : SoundLast H base target sig) :
    (coreEvents H sig maxOp target).1.flatMap (evBytes base sig.blockSize) = target := by
  have hex := loopEvents_exit_ok H sig.blockSize (maxOp + sig.blockSize) (fullHashes sig) hbs
    (target.length + 1) target [] 0 0 (Nat.lt_succ_self _) (Or.inl rfl)
  obtain ⟨h1, h2⟩ := loopEvents_bytes H base target sig.blockSize (maxOp + sig.blockSize) (fullHashes sig)
    hbs hs (target.length + 1) target [] 0 0 (Nat.lt_succ_self _) (by simp) (Or.inl rfl)
  simp only [List.nil_append] at h1
  unfold coreEvents
  simp only [hex, bne_self_eq_false, Bool.false_eq_true, if_false]
  generalize (loopEvents H sig.blockSize (maxOp + sig.blockSize) (fullHashes sig)
    (target.length + 1) target [] 0 0) = r at h1 h2
  obtain ⟨evs, buf, ex⟩ := r
  simp only at h1 h2 ⊢
  by_cases hm : shortMatch H sig buf = true
  · obtain ⟨hle, hb, hh, hstrong⟩ := shortMatch_true H sig buf hm
    have hcand : blockBytes base sig.blockSize (sig.hashes.length - 1) =
        buf.drop (buf.length - sig.lastBlockSize) :=
      hl hb _ hh hstrong.symm (by simp only [List.length_drop]; omega)
        (List.IsInfix.trans (List.drop_suffix _ _).isInfix h2.isInfix)
    simp only [hm, if_true, List.flatMap_append, List.flatMap_cons, List.flatMap_nil, evBytes, hcand,
      List.append_nil, List.take_append_drop]
    exact h1
  · simp only [hm, Bool.false_eq_true, if_false, List.flatMap_append, List.flatMap_cons, List.flatMap_nil,
      evBytes, List.append_nil]
    exact h1

theorem fullHashes_getElem? (sig : Signature D) (p : Nat) (hb : BlockHash D)
    (h : (fullHashes sig)[p]? = some hb) :
    sig.hashes[p]? = some hb ∧ (sig.lastBlockSize ≠ sig.blockSize → p + 1 < sig.hashes.length) := by
  unfold fullHashes at h
  by_cases hs : (sig.lastBlockSize != sig.blockSize) = true
  · simp only [hs, if_true, List.getElem?_take] at h
    by_cases hp : p < sig.hashes.length - 1
    · simp only [hp, if_true] at h
      exact ⟨h, fun _ => by omega⟩
    · simp [hp] at h
  · simp only [hs, Bool.false_eq_true, if_false] at h
    refine ⟨h, fun hne => ?_⟩
    simp only [bne_iff_ne, ne_eq, Decidable.not_not] at hs
    exact absurd hs hne

theorem soundFull_of_noCollision (base target : List UInt8) (sig : Signature D)
    (g : Geo base sig) (hh : HashesOf H base sig) (hnc : NoCollision H base sig.blockSize target) :
    SoundFull H base target sig.blockSize (fullHashes sig) := by
  intro p hb w hp hstrong hlen hinf
  obtain ⟨hp', hshort⟩ := fullHashes_getElem? sig p hb hp
  have hpn : p < sig.hashes.length := (List.getElem?_eq_some_iff.mp hp').1
  have hblen : (blockBytes base sig.blockSize p).length = sig.blockSize := by
    by_cases hlast : p + 1 < sig.hashes.length
    · exact g.blockBytes_length_full p hlast
    · have hpe : p = sig.hashes.length - 1 := by omega
      have hns : sig.lastBlockSize = sig.blockSize := by
        by_cases h : sig.lastBlockSize = sig.blockSize
        · exact h
        · exact absurd (hshort h) hlast
      rw [hpe, g.blockBytes_length_last, hns]
  have hhb := hh p hb hp'
  have hstart := g.block_start_le p hpn
  have hpos := g.last_pos
  symm
  apply hnc p w (by omega) hinf (by rw [hblen, hlen])
  rw [← hstrong, hhb]
  rfl

theorem soundLast_of_noCollision (base target : List UInt8) (sig : Signature D)
    (g : Geo base sig) (hh : HashesOf H base sig) (hnc : NoCollision H base sig.blockSize target) :
    SoundLast H base target sig := by
  intro hb w hp hstrong hlen hinf
  have hn := g.n_pos
  have hhb := hh _ hb hp
  have hstart := g.block_start_le (sig.hashes.length - 1) (by omega)
  have hpos := g.last_pos
  symm
  apply hnc (sig.hashes.length - 1) w (by omega) hinf (by rw [g.blockBytes_length_last, hlen])
  rw [← hstrong, hhb]
  rfl

/-- The plan stands for the target and `PatchBytes` applies it without error. -/
theorem plan_patch (base target : List UInt8) (sig : Signature D) (maxDataOpSize : Nat)
    (g : Geo base sig) (hh : HashesOf H base sig) (hnc : NoCollision H base sig.blockSize target) :
    patchBytes base sig (plan H target sig maxDataOpSize).1 = some target := by
  have hm := effMaxOp_pos maxDataOpSize
  rw [patchBytes_eq g (effMaxOp maxDataOpSize) _ (plan_ok H target sig maxDataOpSize)]
  congr 1
  have hn := g.n_pos
  have hne : ¬ sig.hashes.length = 0 := by omega
  unfold plan
  simp only [hne, if_false, coreEvents_exit_ok H sig _ target g.bs_pos, bne_self_eq_false,
    Bool.false_eq_true]
  rw [List.flatMap_append, flushOps_bytes]
  rw [evOps_bytes base sig (effMaxOp maxDataOpSize) hm]
  simp only [coBytes, blocksBytes, List.nil_append]
  exact coreEvents_bytes H base target sig _ g.bs_pos
    (soundFull_of_noCollision H base target sig g hh hnc)
    (soundLast_of_noCollision H base target sig g hh hnc)

/-- For an empty base the plan is the chunked target. -/
theorem plan_patch_empty (base target : List UInt8) (sig : Signature D) (maxDataOpSize : Nat)
    (hn : sig.hashes.length = 0) :
    patchBytes base sig (plan H target sig maxDataOpSize).1 = some target := by
  have hm := effMaxOp_pos maxDataOpSize
  have hok := plan_ok H target sig maxDataOpSize
  rw [hn] at hok
  rw [patchBytes_data_only base sig (effMaxOp maxDataOpSize) _ hok]
  congr 1
  unfold plan
  simp only [hn, if_true]
  exact chunksAll_data _ hm _ _ (Nat.lt_succ_self _)

/-- **Reconstruction**: for every base, target, block size `> 0` and maximum
data operation size, if the strong hash does not collide between base blocks
and target windows then patching the base with the plan yields the target. -/
theorem reconstruct (base target : List UInt8) (bs : Nat) (hbs : 0 < bs) (maxDataOpSize : Nat)
    (hnc : NoCollision H base bs target) :
    patchBytes base (signature H base bs) (plan H target (signature H base bs) maxDataOpSize).1 =
      some target := by
  by_cases hb : base = []
  · subst hb
    exact plan_patch_empty H [] target _ maxDataOpSize (by simp [signature_empty])
  · obtain ⟨hbs', g, hh⟩ := signature_nonempty H base bs hbs hb
    exact plan_patch H base target _ maxDataOpSize g hh (by rw [hbs']; exact hnc)

end

end Mutagen.Proofs.Rsync
