import Mutagen.Proofs.Fixpoint4
/-!
The C04 fixpoint theorem, part 5 (root): ideal results, success of applying
the endpoint change lists (`plan_application_succeeds`), and
`reconcile_fixpoint_root`.
-/
namespace Mutagen.Model

/-! ## Applying a plan exactly: success and description of the results -/

/-- The ideal transition result of a change: the endpoint reports exactly `New`
(controller.go:1347/1358 with a perfect transition). -/
def idealResult (c : Change) : Change := { path := c.path, old := none, new := c.new }

theorem ov_map_idealResult (cs : List Change) (q : Path) (d : Option Props) :
    ov (cs.map idealResult) q d = ov cs q d := by
  induction cs generalizing d with
  | nil => rfl
  | cons c cs ih => simp only [List.map_cons, ov_cons, idealResult, ih]

/-- The parent of every planned endpoint change exists on both endpoints. -/
theorem reconcile_change_parents (mode : Mode) (path : Path) (a al be : Option Entry) :
    ∀ c ∈ (reconcile mode path a al be).alpha ++ (reconcile mode path a al be).beta,
      ∃ rel, c.path = path ++ rel ∧
        (rel = [] ∨ ((pget al rel.dropLast).isSome = true ∧ (pget be rel.dropLast).isSome = true)) := by
  fun_induction reconcile mode path a al be with
  | case1 => intro c hc; simp at hc
  | case2 => intro c hc; simp at hc
  | case3 => intro c hc; simp [Plan.ancChange] at hc
  | case4 => intro c hc; simp at hc
  | case5 path ancestor alpha beta h1 h2 h3 h4 here anc' ih =>
    intro c hc
    have hh1 : here.alpha = [] := by simp only [here]; split <;> rfl
    have hh2 : here.beta = [] := by simp only [here]; split <;> rfl
    have hc' : ∃ n : { x // x ∈ nameUnion [contents anc', contents alpha, contents beta] },
        c ∈ (reconcile mode (path ++ [n.1]) (lookup n.1 (contents anc')) (lookup n.1 (contents alpha))
              (lookup n.1 (contents beta))).alpha ++
            (reconcile mode (path ++ [n.1]) (lookup n.1 (contents anc')) (lookup n.1 (contents alpha))
              (lookup n.1 (contents beta))).beta := by
      simp only [Plan.append_alpha, Plan.append_beta, hh1, hh2, List.nil_append, Plan.concat_alpha,
        Plan.concat_beta, List.flatMap_map, List.mem_append, List.mem_flatMap, List.mem_attach, true_and] at hc
      rcases hc with ⟨n, hn⟩ | ⟨n, hn⟩
      · exact ⟨n, List.mem_append.mpr (Or.inl hn)⟩
      · exact ⟨n, List.mem_append.mpr (Or.inr hn)⟩
    obtain ⟨n, hn⟩ := hc'
    obtain ⟨rel, hp, hrel⟩ := ih n c hn
    refine ⟨n.1 :: rel, by simp [hp], Or.inr ?_⟩
    have hαs : (pget alpha []).isSome = true ∧ (pget beta []).isSome = true := by
      cases alpha with
      | none =>
        cases beta with
        | none => simp at h3
        | some b => simp [shallowEq] at h4
      | some x =>
        cases beta with
        | none => simp [shallowEq] at h4
        | some y => simp [pget, getPath]
    rcases hrel with rfl | hrel
    · simpa using hαs
    · cases rel with
      | nil => simpa using hαs
      | cons r rs =>
        rw [List.dropLast_cons_cons, pget_cons, pget_cons]
        exact hrel
  | case6 path ancestor alpha beta h1 h2 h3 h4 =>
    intro c hc
    have := handleDisagreement_changePaths mode path ancestor alpha beta c.path (by
      simp only [Plan.changePaths, List.mem_append, List.mem_map]
      rcases List.mem_append.mp hc with h | h
      · exact Or.inl ⟨c, h, rfl⟩
      · exact Or.inr ⟨c, h, rfl⟩)
    exact ⟨[], by simp [this], Or.inl rfl⟩

theorem reconcile_pairwise_alpha (mode : Mode) (A alpha beta : Option Entry) :
    List.Pairwise (fun a b : Change => incomparable a.path b.path) (Reconcile A alpha beta mode).alpha := by
  have := (reconcile_actions mode [] A alpha beta).2
  simp only [Plan.actionPaths, List.pairwise_append] at this
  exact List.pairwise_map.mp this.1.1

theorem reconcile_pairwise_beta (mode : Mode) (A alpha beta : Option Entry) :
    List.Pairwise (fun a b : Change => incomparable a.path b.path) (Reconcile A alpha beta mode).beta := by
  have := (reconcile_actions mode [] A alpha beta).2
  simp only [Plan.actionPaths, List.pairwise_append] at this
  exact List.pairwise_map.mp this.1.2.1

/-- The endpoint change lists of a plan can be applied to their endpoints. -/
theorem plan_application_succeeds (mode : Mode) (A alpha beta : Option Entry) :
    (∃ α', apply alpha (Reconcile A alpha beta mode).alpha = .ok α') ∧
    (∃ β', apply beta (Reconcile A alpha beta mode).beta = .ok β') := by
  have hpar := reconcile_change_parents mode [] A alpha beta
  constructor
  · apply apply_incomparable_ok _ alpha (reconcile_pairwise_alpha mode A alpha beta)
    intro c hc
    obtain ⟨rel, hp, hrel⟩ := hpar c (List.mem_append.mpr (Or.inl hc))
    simp only [List.nil_append] at hp
    rcases hrel with rfl | hrel
    · exact Or.inl hp
    · exact Or.inr (by rw [hp]; exact hrel.1)
  · apply apply_incomparable_ok _ beta (reconcile_pairwise_beta mode A alpha beta)
    intro c hc
    obtain ⟨rel, hp, hrel⟩ := hpar c (List.mem_append.mpr (Or.inr hc))
    simp only [List.nil_append] at hp
    rcases hrel with rfl | hrel
    · exact Or.inl hp
    · exact Or.inr (by rw [hp]; exact hrel.2)

theorem endFinal_root {S S' : Option Entry} {cs : List Change} (h : apply S cs = .ok S')
    (hp : List.Pairwise (fun a b : Change => incomparable a.path b.path) cs) : EndFinal [] S cs S' :=
  ⟨apply_getPath_new h hp, fun q hq => by simpa using apply_getPath_keep h q (by simpa using hq),
   fun q => by simpa using apply_pget_ov h q⟩

/-- **Fixpoint at the root**: after a fully applied cycle (ideal results), the
next reconciliation plans nothing and reports conflicts at the same roots. -/
theorem reconcile_fixpoint_root (mode : Mode) (A alpha beta : Option Entry)
    (hal : Valid alpha) (hbe : Valid beta) (hpα : onoPhantom alpha = true) (hpβ : onoPhantom beta = true)
    (A' α' β' : Option Entry)
    (hA : apply A ((Reconcile A alpha beta mode).anc ++
      ((Reconcile A alpha beta mode).alpha.map idealResult ++ (Reconcile A alpha beta mode).beta.map idealResult))
        = .ok A')
    (hα : apply alpha (Reconcile A alpha beta mode).alpha = .ok α')
    (hβ : apply beta (Reconcile A alpha beta mode).beta = .ok β') :
    Fix (Reconcile A alpha beta mode) (Reconcile A' α' β' mode) := by
  have hAF : AncFinal [] A (reconcile mode [] A alpha beta) A' := by
    intro q
    have := apply_pget_ov hA q
    simp only [ov_append, ov_map_idealResult, Reconcile] at this
    simpa [ov_append] using this
  exact fix_node mode [] A alpha beta hal hbe hpα hpβ A' α' β' hAF
    (endFinal_root hα (reconcile_pairwise_alpha mode A alpha beta))
    (endFinal_root hβ (reconcile_pairwise_beta mode A alpha beta))

end Mutagen.Model
