import Mutagen.Proofs.LRUOps
/-!
C45: `Add` (update in place, insert, insert with eviction of the oldest),
then all operations and runs.
-/
namespace Mutagen.Proofs.LRU
open Mutagen.Model.LRU

/-! ### truncate -/

theorem truncate_fits (cap : Int) (l : List (Nat × Nat))
    (h : cap = 0 ∨ (cap > 0 ∧ (l.length : Int) ≤ cap)) : truncate cap l = (l, []) := by
  unfold truncate
  rcases h with h | ⟨h1, h2⟩
  · rw [if_pos h]
  · rw [if_neg (by omega), List.take_of_length_le (by omega), List.drop_eq_nil_of_le (by omega)]

theorem truncate_over (cap : Int) (l : List (Nat × Nat)) (hne : cap ≠ 0)
    (hl : (l.length : Int) = max cap 0 + 1) :
    truncate cap l = (l.dropLast, l.drop (l.length - 1)) := by
  unfold truncate
  have : cap.toNat = l.length - 1 := by omega
  rw [if_neg hne, List.dropLast_eq_take, this]

/-! ### Add, key present -/

theorem add_existing (c : Cache) (h : c.WF) (k v id : Nat) (hg : mapGet c.index k = some id) :
    ({ c with order := moveToFront c.order id,
              heap := c.heap.set id { c.deref id with val := v } } : Cache).WF ∧
    ({ c with order := moveToFront c.order id,
              heap := c.heap.set id { c.deref id with val := v } } : Cache).abs
      = (k, v) :: c.abs.filter (fun e => e.1 ≠ k) := by
  obtain ⟨hm, hk, hu⟩ := wf_unique c h.ptr hg
  have hal := h.alloc id hm
  have hkey : ∀ x, (kv (c.heap.set id { c.deref id with val := v }) x).1 = (kv c.heap x).1 := by
    intro x
    rw [kv_set]
    split
    · rename_i hx; rw [hx.1]; rfl
    · rfl
  have htw := touch_wf c h id hm
  constructor
  · refine ⟨htw.nodup, ?_, ?_, htw.capPos, htw.capNeg⟩
    · intro x hx
      show x < (c.heap.set id _).length
      rw [List.length_set]
      exact htw.alloc x hx
    · intro k' x
      have := htw.index k' x
      show mapGet c.index k' = some x ↔ (x ∈ moveToFront c.order id ∧ (kv (c.heap.set id _) x).1 = k')
      rw [hkey x]
      exact this
  · rw [abs_eq]
    show (moveToFront c.order id).map (kv (c.heap.set id _)) = _
    rw [moveToFront_mem _ _ hm, List.map_cons, abs_eq,
      ← map_erase_unique (kv c.heap) k id c.order h.nodup hu hk]
    congr 1
    · rw [kv_set, if_pos ⟨rfl, hal⟩]
      show ((c.deref id).key, v) = (k, v)
      rw [deref_key, hk]
    · apply List.map_congr_left
      intro x hx
      have hne : x ≠ id := (h.nodup.mem_erase_iff.mp hx).1
      rw [kv_set, if_neg (fun hh => hne hh.1)]

/-! ### Add, key absent -/

theorem push_new (c : Cache) (h : PtrWF c) (k v : Nat) (hg : mapGet c.index k = none) :
    PtrWF ({ c with heap := c.heap ++ [Entry.mk k v], order := c.heap.length :: c.order,
                    index := mapSet c.index k c.heap.length } : Cache) ∧
    ({ c with heap := c.heap ++ [Entry.mk k v], order := c.heap.length :: c.order,
              index := mapSet c.index k c.heap.length } : Cache).abs = (k, v) :: c.abs := by
  have ha := wf_absent c h hg
  have hfresh : c.heap.length ∉ c.order := fun hm => Nat.lt_irrefl _ (h.alloc _ hm)
  have hold : ∀ x ∈ c.order, kv (c.heap ++ [Entry.mk k v]) x = kv c.heap x :=
    fun x hx => kv_append_left _ _ _ (h.alloc x hx)
  constructor
  · refine ⟨List.nodup_cons.mpr ⟨hfresh, h.nodup⟩, ?_, ?_⟩
    · intro x hx
      show x < (c.heap ++ [Entry.mk k v]).length
      rw [List.length_append, List.length_singleton]
      rcases List.mem_cons.mp hx with rfl | hx
      · omega
      · have := h.alloc x hx; omega
    · intro k' x
      show mapGet (mapSet c.index k c.heap.length) k' = some x ↔
        (x ∈ c.heap.length :: c.order ∧ (kv (c.heap ++ [Entry.mk k v]) x).1 = k')
      rw [mapGet_set, List.mem_cons]
      by_cases hk : k' = k
      · subst hk
        rw [if_pos rfl]
        constructor
        · intro hx
          have : x = c.heap.length := (Option.some.inj hx).symm
          subst this
          exact ⟨.inl rfl, by rw [kv_append_new]⟩
        · rintro ⟨hx | hx, hkx⟩
          · rw [hx]
          · exfalso; rw [hold x hx] at hkx; exact ha x hx hkx
      · rw [if_neg hk, h.index k' x]
        constructor
        · rintro ⟨hx, hkx⟩
          exact ⟨.inr hx, by rw [hold x hx]; exact hkx⟩
        · rintro ⟨hx | hx, hkx⟩
          · exfalso; rw [hx, kv_append_new] at hkx; exact hk hkx.symm
          · exact ⟨hx, by rw [hold x hx] at hkx; exact hkx⟩
  · rw [abs_eq, abs_eq]
    show (c.heap.length :: c.order).map (kv (c.heap ++ [Entry.mk k v])) = _
    rw [List.map_cons, kv_append_new]
    congr 1
    exact List.map_congr_left hold

theorem removeOldest_spec (c : Cache) (h : PtrWF c) (hne : c.order ≠ []) :
    PtrWF c.removeOldest ∧ c.removeOldest.abs = c.abs.dropLast ∧
    c.removeOldest.evicted = c.evicted ++ c.abs.drop (c.abs.length - 1) ∧
    c.removeOldest.order.length = c.order.length - 1 ∧
    c.removeOldest.maxEntries = c.maxEntries := by
  obtain ⟨last, hlast⟩ : ∃ last, c.order.getLast? = some last := by
    cases hl : c.order.getLast? with
    | none => exact absurd (List.getLast?_eq_none_iff.mp hl) hne
    | some x => exact ⟨x, rfl⟩
  obtain ⟨ys, hys⟩ := List.getLast?_eq_some_iff.mp hlast
  have hm : last ∈ c.order := by rw [hys]; simp
  have hro : c.removeOldest = c.removeElement last := by simp [Cache.removeOldest, hlast]
  rw [hro]
  refine ⟨removeElement_ptr c h last hm, ?_, ?_, ?_, rfl⟩
  · rw [abs_eq, abs_eq]
    show (c.order.erase last).map (kv c.heap) = _
    rw [erase_last c.order h.nodup last hlast, List.map_dropLast]
  · rw [(removeElement_abs c h last hm).2.2.1, abs_eq, hys]
    simp
  · show (c.order.erase last).length = _
    rw [List.length_erase_of_mem hm]

/-! ### Add -/

theorem add_refines (c : Cache) (h : c.WF) (k v : Nat) :
    (c.step (.add k v)).1.WF ∧
    ((c.step (.add k v)).1.toSpec, (c.step (.add k v)).2) = c.toSpec.step (.add k v) := by
  cases hg : mapGet c.index k with
  | some id =>
    obtain ⟨hm, _, _⟩ := wf_unique c h.ptr hg
    obtain ⟨hw, ha⟩ := add_existing c h k v id hg
    have hstep : (c.step (.add k v)).1 =
        ({ c with order := moveToFront c.order id,
                  heap := c.heap.set id { c.deref id with val := v } } : Cache) := by
      simp only [Cache.step, Cache.add, hg]; rfl
    have hres : (c.step (.add k v)).2 = .unit := rfl
    rw [hstep, hres]
    refine ⟨hw, ?_⟩
    have hlen : (((k, v) :: c.abs.filter (fun e => e.1 ≠ k)).length : Int) = c.order.length := by
      rw [← ha, abs_eq, List.length_map]
      show ((moveToFront c.order id).length : Int) = _
      rw [moveToFront_mem _ _ hm, length_touch _ _ hm]
    have hfit : truncate c.maxEntries ((k, v) :: c.abs.filter (fun e => e.1 ≠ k))
        = ((k, v) :: c.abs.filter (fun e => e.1 ≠ k), []) := by
      apply truncate_fits
      rcases Int.lt_trichotomy c.maxEntries 0 with hn | hz | hp
      · have := h.capNeg hn; rw [this] at hm; simp at hm
      · exact .inl hz
      · exact .inr ⟨hp, by rw [hlen]; exact h.capPos hp⟩
    simp only [Spec.step, Cache.toSpec, hfit, ha, List.append_nil]
  | none =>
    have habs := wf_absent c h.ptr hg
    obtain ⟨_, hf, _⟩ := find_absent (kv c.heap) k c.order habs
    obtain ⟨hp2, ha2⟩ := push_new c h.ptr k v hg
    have hres : (c.step (.add k v)).2 = .unit := rfl
    rw [hres]
    -- the state after insertion, before the capacity check
    obtain ⟨c2, hc2⟩ : ∃ c2 : Cache, c2 = ({ c with heap := c.heap ++ [Entry.mk k v],
                                                    order := c.heap.length :: c.order,
                                                    index := mapSet c.index k c.heap.length } : Cache) :=
      ⟨_, rfl⟩
    rw [← hc2] at hp2 ha2
    have hmax : c2.maxEntries = c.maxEntries := by rw [hc2]
    have hev : c2.evicted = c.evicted := by rw [hc2]
    have hlen2 : c2.order.length = c.order.length + 1 := by rw [hc2]; rfl
    have hstep : (c.step (.add k v)).1 =
        if c2.maxEntries ≠ 0 ∧ (c2.order.length : Int) > c2.maxEntries then c2.removeOldest else c2 := by
      simp only [Cache.step, Cache.add, hg, hc2]
    rw [hstep]
    have hspec : c.toSpec.step (.add k v) =
        ({ cap := c.maxEntries, items := (truncate c.maxEntries ((k, v) :: c.abs)).1,
           evicted := c.evicted ++ (truncate c.maxEntries ((k, v) :: c.abs)).2 }, .unit) := by
      simp only [Spec.step, Cache.toSpec]
      rw [abs_eq c, hf]
    rw [hspec]
    have hlabs : ((k, v) :: c.abs).length = c.order.length + 1 := by
      rw [abs_eq, List.length_cons, List.length_map]
    by_cases hc : c2.maxEntries ≠ 0 ∧ (c2.order.length : Int) > c2.maxEntries
    · rw [if_pos hc]
      obtain ⟨r1, r2, r3, r4, r5⟩ := removeOldest_spec c2 hp2 (by rw [hc2]; simp)
      rw [hmax, hlen2] at hc
      have hover : truncate c.maxEntries ((k, v) :: c.abs)
          = (((k, v) :: c.abs).dropLast, ((k, v) :: c.abs).drop (((k, v) :: c.abs).length - 1)) := by
        apply truncate_over _ _ hc.1
        rw [hlabs]
        rcases Int.lt_trichotomy c.maxEntries 0 with hn | hz | hp
        · have := h.capNeg hn; rw [this]; simp; omega
        · exact absurd hz hc.1
        · have := h.capPos hp; omega
      refine ⟨⟨r1.nodup, r1.alloc, r1.index, ?_, ?_⟩, ?_⟩
      · intro hp
        rw [r5, hmax] at hp
        have := h.capPos hp
        rw [r4, hlen2, r5, hmax]; omega
      · intro hn
        rw [r5, hmax] at hn
        have := h.capNeg hn
        apply List.eq_nil_of_length_eq_zero
        rw [r4, hlen2, this]; rfl
      · simp only [Cache.toSpec, r2, r3, r5, hmax, hev, ha2, hover]
    · rw [if_neg hc]
      rw [hmax, hlen2] at hc
      have hfit : truncate c.maxEntries ((k, v) :: c.abs) = ((k, v) :: c.abs, []) := by
        apply truncate_fits
        rcases Int.lt_trichotomy c.maxEntries 0 with hn | hz | hp
        · exfalso; apply hc; have := h.capNeg hn; rw [this]; simp; omega
        · exact .inl hz
        · refine .inr ⟨hp, ?_⟩
          rw [hlabs]
          have := h.capPos hp
          false_or_by_contra
          apply hc
          omega
      refine ⟨⟨hp2.nodup, hp2.alloc, hp2.index, ?_, ?_⟩, ?_⟩
      · intro hp
        rw [hmax] at hp ⊢
        rw [hlen2]
        false_or_by_contra
        apply hc
        omega
      · intro hn
        rw [hmax] at hn
        exfalso; apply hc
        have := h.capNeg hn; rw [this]; simp; omega
      · simp only [Cache.toSpec, hmax, hev, ha2, hfit, List.append_nil]

/-! ### Steps and runs -/

theorem step_refines (c : Cache) (h : c.WF) (op : Op) :
    (c.step op).1.WF ∧ ((c.step op).1.toSpec, (c.step op).2) = c.toSpec.step op := by
  cases op with
  | add k v => exact add_refines c h k v
  | get k => exact get_refines c h k
  | remove k => exact remove_refines c h k
  | len =>
    refine ⟨h, ?_⟩
    show (c.toSpec, Res.len c.len) = (c.toSpec, Res.len c.toSpec.items.length)
    have : c.toSpec.items.length = c.len := by
      show c.abs.length = c.order.length
      rw [abs_eq, List.length_map]
    rw [this]

theorem run_refines (ops : List Op) : ∀ (c : Cache), c.WF →
    (c.run ops).1.WF ∧ ((c.run ops).1.toSpec, (c.run ops).2) = c.toSpec.run ops := by
  induction ops with
  | nil => intro c h; exact ⟨h, rfl⟩
  | cons op ops ih =>
    intro c h
    obtain ⟨h1, h2⟩ := step_refines c h op
    obtain ⟨h3, h4⟩ := ih (c.step op).1 h1
    refine ⟨h3, ?_⟩
    show (((c.step op).1.run ops).1.toSpec, (c.step op).2 :: ((c.step op).1.run ops).2) = _
    unfold Spec.run
    rw [← h2]
    dsimp only
    rw [← h4]

end Mutagen.Proofs.LRU
