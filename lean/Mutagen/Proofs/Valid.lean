import Mutagen.Model.Entry
/-!
Consequences of `Entry.ensureValid` used by the property proofs: sub-entries of
valid entries are valid; valid directories carry nothing but their kind; valid
files have no children.
-/
namespace Mutagen.Proofs.Valid
open Mutagen.Model

theorem ensureValidL_lookup (s : Bool) (cs : Contents) (n : Name) (c : Entry)
    (h : Entry.ensureValidL s cs = true) (hl : lookup n cs = some c) : c.ensureValid s = true := by
  induction cs with
  | nil => simp [lookup] at hl
  | cons hd t ih =>
    obtain ⟨m, e⟩ := hd
    simp only [Entry.ensureValidL, Bool.and_eq_true] at h
    simp only [lookup] at hl
    split at hl
    · injection hl with hl; subst hl; exact h.1.2
    · exact ih h.2 hl

/-- Children of a valid entry are valid. -/
theorem valid_lookup (s : Bool) (e : Entry) (n : Name) (c : Entry)
    (h : e.ensureValid s = true) (hl : lookup n e.children = some c) : c.ensureValid s = true := by
  obtain ⟨p, cs⟩ := e
  simp only [Entry.children] at hl
  unfold Entry.ensureValid at h
  cases hk : p.kind <;> simp only [hk, Bool.and_eq_true] at h
  case directory => exact ensureValidL_lookup s cs n c h.2 hl
  case phantom => exact ensureValidL_lookup s cs n c h.2 hl
  case file =>
    have : cs = [] := by simpa using h.1.1.1
    subst this
    simp [lookup] at hl
  case symlink =>
    have : cs = [] := by simpa using h.1.1.1.1
    subst this
    simp [lookup] at hl
  case untracked =>
    have : cs = [] := by simpa using h.1.1.1.1.2
    subst this
    simp [lookup] at hl
  case problematic =>
    have : cs = [] := by simpa using h.1.1.1.1.2
    subst this
    simp [lookup] at hl
  case unknown => simp at h

theorem ovalid_lookup (s : Bool) (x : Option Entry) (n : Name)
    (h : oensureValid s x = true) : oensureValid s (lookup n (contents x)) = true := by
  cases x with
  | none => simp [contents, lookup, oensureValid]
  | some e =>
    cases hl : lookup n (contents (some e)) with
    | none => simp [oensureValid]
    | some c => exact valid_lookup s e n c h hl

theorem ovalid_getPath (s : Bool) (q : Path) : ∀ (x : Option Entry),
    oensureValid s x = true → oensureValid s (getPath x q) = true := by
  induction q with
  | nil => intro x h; exact h
  | cons n r ih => intro x h; exact ih _ (ovalid_lookup s x n h)

/-- A valid directory carries nothing but its kind. -/
theorem valid_dir_props (s : Bool) (e : Entry) (h : e.ensureValid s = true) (hk : e.kind = .directory) :
    e.props = { kind := .directory } := by
  obtain ⟨p, cs⟩ := e
  simp only [Entry.kind, Entry.props] at hk
  unfold Entry.ensureValid at h
  simp only [hk, Bool.and_eq_true] at h
  obtain ⟨⟨⟨⟨h1, h2⟩, h3⟩, h4⟩, _⟩ := h
  obtain ⟨k, x, d, t, pr⟩ := p
  simp only at hk h1 h2 h3 h4
  subst hk
  simp_all [Entry.props]

/-- A valid file has no children, no link target and no problem. -/
theorem valid_file (s : Bool) (p : Props) (cs : Contents) (h : (Entry.mk p cs).ensureValid s = true)
    (hk : p.kind = .file) : cs = [] ∧ p.target = "" ∧ p.problem = "" := by
  unfold Entry.ensureValid at h
  simp only [hk, Bool.and_eq_true] at h
  obtain ⟨⟨⟨h1, h2⟩, h3⟩, _⟩ := h
  exact ⟨by simpa using h1, by simpa using h2, by simpa using h3⟩

/-- A valid synchronizable entry that is not a directory has no children. -/
theorem valid_sync_nondir_children (e : Entry) (h : e.ensureValid true = true) (hk : e.kind ≠ .directory) :
    e.children = [] := by
  obtain ⟨p, cs⟩ := e
  simp only [Entry.kind, Entry.props] at hk
  unfold Entry.ensureValid at h
  cases hk' : p.kind <;> simp only [hk', Bool.and_eq_true] at h <;> simp_all [Entry.children]

end Mutagen.Proofs.Valid
