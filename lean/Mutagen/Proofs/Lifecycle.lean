import Mutagen.Model.Lifecycle
import Mathlib.Tactic.SplitIfs
import Aesop
/-!
Invariants of the lifecycle step model (helper lemmas for
`Mutagen.Properties.C29`).
-/
namespace Mutagen.Proofs.Lifecycle
open Mutagen.Model.Lifecycle

/-! Values of the operation predicates. -/

@[simp] theorem op_connects_1 (p : Bool) : Op.connects (.create p) = true := rfl
@[simp] theorem op_connects_2 : Op.connects .pause = false := rfl
@[simp] theorem op_connects_3 : Op.connects .resume = true := rfl
@[simp] theorem op_connects_4 (w : Bool) : Op.connects (.flush w) = false := rfl
@[simp] theorem op_connects_5 : Op.connects .reset = true := rfl
@[simp] theorem op_connects_6 : Op.connects .terminate = false := rfl
@[simp] theorem op_connects_7 : Op.connects .restart = false := rfl
@[simp] theorem op_isFlush_8 (p : Bool) : Op.isFlush (.create p) = false := rfl
@[simp] theorem op_isFlush_9 : Op.isFlush .pause = false := rfl
@[simp] theorem op_isFlush_10 : Op.isFlush .resume = false := rfl
@[simp] theorem op_isFlush_11 (w : Bool) : Op.isFlush (.flush w) = true := rfl
@[simp] theorem op_isFlush_12 : Op.isFlush .reset = false := rfl
@[simp] theorem op_isFlush_13 : Op.isFlush .terminate = false := rfl
@[simp] theorem op_isFlush_14 : Op.isFlush .restart = false := rfl
@[simp] theorem op_isTerminate_15 (p : Bool) : Op.isTerminate (.create p) = false := rfl
@[simp] theorem op_isTerminate_16 : Op.isTerminate .pause = false := rfl
@[simp] theorem op_isTerminate_17 : Op.isTerminate .resume = false := rfl
@[simp] theorem op_isTerminate_18 (w : Bool) : Op.isTerminate (.flush w) = false := rfl
@[simp] theorem op_isTerminate_19 : Op.isTerminate .reset = false := rfl
@[simp] theorem op_isTerminate_20 : Op.isTerminate .terminate = true := rfl
@[simp] theorem op_isTerminate_21 : Op.isTerminate .restart = false := rfl
@[simp] theorem op_isRestart_22 (p : Bool) : Op.isRestart (.create p) = false := rfl
@[simp] theorem op_isRestart_23 : Op.isRestart .pause = false := rfl
@[simp] theorem op_isRestart_24 : Op.isRestart .resume = false := rfl
@[simp] theorem op_isRestart_25 (w : Bool) : Op.isRestart (.flush w) = false := rfl
@[simp] theorem op_isRestart_26 : Op.isRestart .reset = false := rfl
@[simp] theorem op_isRestart_27 : Op.isRestart .terminate = false := rfl
@[simp] theorem op_isRestart_28 : Op.isRestart .restart = true := rfl
@[simp] theorem op_wf_1 (p : Bool) : Op.isWaitingFlush (.create p) = false := rfl
@[simp] theorem op_wf_2 : Op.isWaitingFlush .pause = false := rfl
@[simp] theorem op_wf_3 : Op.isWaitingFlush .resume = false := rfl
@[simp] theorem op_wf_4 : Op.isWaitingFlush (.flush true) = true := rfl
@[simp] theorem op_wf_5 : Op.isWaitingFlush (.flush false) = false := rfl
@[simp] theorem op_wf_6 : Op.isWaitingFlush .reset = false := rfl
@[simp] theorem op_wf_7 : Op.isWaitingFlush .terminate = false := rfl
@[simp] theorem op_wf_8 : Op.isWaitingFlush .restart = false := rfl

@[simp] theorem op_isReset_1 (p : Bool) : Op.isReset (.create p) = false := rfl
@[simp] theorem op_isReset_2 : Op.isReset .pause = false := rfl
@[simp] theorem op_isReset_3 : Op.isReset .resume = false := rfl
@[simp] theorem op_isReset_4 (w : Bool) : Op.isReset (.flush w) = false := rfl
@[simp] theorem op_isReset_5 : Op.isReset .reset = true := rfl
@[simp] theorem op_isReset_6 : Op.isReset .terminate = false := rfl
@[simp] theorem op_isReset_7 : Op.isReset .restart = false := rfl

/-! ## Frame lemma: what a step of the run loop can change -/

set_option maxHeartbeats 4000000 in
set_option maxRecDepth 10000 in
/-- Every step of the run loop leaves the controller's lifecycle fields, the
session file, the registry and the client calls' phases alone. -/
theorem loopSteps_frame {s : State} {l : Loop} {lab : Label} {s' : State} (h : (lab, s') ∈ loopSteps s l) :
    s'.sess = s.sess ∧ s'.entry = s.entry ∧ s'.disabled = s.disabled ∧ s'.running = s.running ∧
    s'.crit = s.crit ∧ s'.gen = s.gen ∧ s'.watch = s.watch ∧ s'.used = s.used ∧ s'.resetting = s.resetting ∧
    s'.threads.map (fun t => (t.id, t.op, t.ph)) = s.threads.map (fun t => (t.id, t.op, t.ph)) := by
  unfold loopSteps at h
  split at h
  all_goals
    simp only [List.mem_append, List.mem_cons, List.mem_flatMap, List.not_mem_nil, or_false,
      bothSides, List.mem_ite_nil_right, Prod.mk.injEq] at h
  all_goals
    aesop (add norm simp [State.updThread, State.noteScan, Function.comp_def])

/-- The lifecycle core invariant. -/
structure InvA (s : State) : Prop where
  loop_running : s.loop.isSome = true → s.running = true
  running_sess : s.running = true → s.sess = some false
  disabled_nr : s.disabled = true → s.running = false
  entry_nr : s.entry = false → s.running = false
  crit_nd : s.crit.isSome = true → s.disabled = false
  crit_conn : ∀ t ph, s.crit = some (t, ph) → ph ≠ .stopping →
    s.loop = none ∧ s.running = false ∧
    ((ph = .connA false ∨ ph = .connB false) → s.sess = some false ∧ s.entry = true) ∧
    ((ph = .connA true ∨ ph = .connB true) → s.sess = none ∧ s.entry = false)
  crit_entry : ∀ t, s.crit = some (t, .stopping) → s.entry = true
  termDel_dis : ∀ th ∈ s.threads, th.ph = .termDel → s.disabled = true
  wait_entry : ∀ th ∈ s.threads, th.ph = .waitLock → s.entry = true ∨ s.disabled = true

theorem invA_init (w : Bool) : InvA (init w) := by
  constructor <;> simp [init]

theorem invA_loop {s : State} {l : Loop} {lab : Label} {s' : State} (hl : s.loop = some l)
    (h : (lab, s') ∈ loopSteps s l) (i : InvA s) : InvA s' := by
  obtain ⟨h1, h2, h3, h4, h5, _, _, _, _, h9⟩ := loopSteps_frame h
  have hr : s.running = true := i.loop_running (by simp [hl])
  constructor
  · intro _; rw [h4]; exact hr
  · intro _; rw [h1]; exact i.running_sess hr
  · intro hd; rw [h3] at hd; rw [h4]; exact i.disabled_nr hd
  · intro he; rw [h2] at he; rw [h4]; exact i.entry_nr he
  · intro hc; rw [h5] at hc; rw [h3]; exact i.crit_nd hc
  · intro t ph hc hne
    rw [h5] at hc
    have := (i.crit_conn t ph hc hne).2.1
    rw [hr] at this
    exact absurd this (by simp)
  · intro t hc
    rw [h5] at hc
    rw [h2]
    exact i.crit_entry t hc
  · intro th hth hph
    rw [h3]
    have : (th.id, th.op, th.ph) ∈ s'.threads.map (fun t => (t.id, t.op, t.ph)) := List.mem_map_of_mem hth
    rw [h9] at this
    obtain ⟨th0, hth0, he⟩ := List.mem_map.mp this
    simp only [Prod.mk.injEq] at he
    exact i.termDel_dis th0 hth0 (by rw [he.2.2]; exact hph)
  · intro th hth hph
    rw [h2, h3]
    have : (th.id, th.op, th.ph) ∈ s'.threads.map (fun t => (t.id, t.op, t.ph)) := List.mem_map_of_mem hth
    rw [h9] at this
    obtain ⟨th0, hth0, he⟩ := List.mem_map.mp this
    simp only [Prod.mk.injEq] at he
    exact i.wait_entry th0 hth0 (by rw [he.2.2]; exact hph)

theorem len1 {α : Type} {l : List α} {a b : α} (h : l.length = 1) (ha : a ∈ l) (hb : b ∈ l) : a = b := by
  match l, h with
  | [x], _ => simp at ha hb; rw [ha, hb]

set_option maxHeartbeats 16000000 in
set_option maxRecDepth 10000 in
theorem invA_thread {s : State} {th : Thread} {lab : Label} {s' : State} (hth : th ∈ s.threads)
    (h : (lab, s') ∈ threadSteps s th) (i : InvA s) : InvA s' := by
  obtain ⟨i1, i2, i3, i4, i5, i6, i6', i7, i8⟩ := i
  unfold threadSteps at h
  split at h
  all_goals
    constructor <;>
    aesop (add norm simp [acquire, afterStop, finish, State.setThread, State.dropThread, State.startLoop,
      State.cancelLoop, newLoop, othersIdle])
      (add safe forward i7) (add safe forward i8) (add safe forward len1)
      (config := { maxRuleApplications := 400 })

end Mutagen.Proofs.Lifecycle
