import Mutagen.Model.IgnoreMutagen
/-! Helper lemmas for C14 (core Lean only). -/
namespace Mutagen.Proofs.IgnoreMutagen
open Mutagen.Model.IgnoreMutagen Mutagen.Model.Glob
open Mutagen.Model.IgnoreCore (Status)

/-- What one matching pattern does to the status: the specification's step. -/
def specStep {α : Type} (neg : α → Bool) (m : α → Bool) (st : Status) (p : α) : Status :=
  if m p then (if neg p then .unignored else .ignored) else st

/-- Number of negated patterns in a list (`negatedPatternCount`). -/
def negCount {α : Type} (neg : α → Bool) (ps : List α) : Nat := (ps.filter neg).length

theorem negCount_cons {α : Type} (neg : α → Bool) (p : α) (ps : List α) :
    negCount neg (p :: ps) = (if neg p then 1 else 0) + negCount neg ps := by
  unfold negCount
  by_cases h : neg p = true
  · simp [List.filter_cons, h]; omega
  · simp [List.filter_cons, h]

/-- Once ignored, patterns that are all non-negated cannot change the status. -/
theorem fold_ignored_of_no_neg {α : Type} (neg : α → Bool) (m : α → Bool) (ps : List α)
    (h : negCount neg ps = 0) : ps.foldl (specStep neg m) .ignored = .ignored := by
  induction ps with
  | nil => rfl
  | cons p ps ih =>
    rw [negCount_cons] at h
    have hp : neg p = false := by
      cases hn : neg p
      · rfl
      · simp [hn] at h
    have hps : negCount neg ps = 0 := by simp [hp] at h; exact h
    simp only [List.foldl_cons, specStep, hp]
    have : (if m p = true then (if false = true then Status.unignored else Status.ignored) else Status.ignored) = Status.ignored := by
      split <;> rfl
    rw [this]
    exact ih hps

theorem negCount_cons_neg {α : Type} (neg : α → Bool) (p : α) (ps : List α) (h : neg p = true) :
    negCount neg (p :: ps) = negCount neg ps + 1 := by
  rw [negCount_cons]; simp [h]; omega

theorem negCount_cons_pos {α : Type} (neg : α → Bool) (p : α) (ps : List α) (h : neg p = false) :
    negCount neg (p :: ps) = negCount neg ps := by
  rw [negCount_cons]; simp [h]

/-- **The short-circuit loop computes the fold** (the invariant is that `rem`
is the number of negated patterns not yet visited). -/
theorem loop_eq_fold {α : Type} (neg : α → Bool) (m : α → Bool) (ps : List α) :
    ∀ st : Status, loop neg m ps st (negCount neg ps) = ps.foldl (specStep neg m) st := by
  induction ps with
  | nil => intro st; rfl
  | cons p ps ih =>
    intro st
    cases hn : neg p
    · -- non-negated pattern
      rw [negCount_cons_pos neg p ps hn]
      by_cases hb : st = .ignored ∧ negCount neg ps = 0
      · obtain ⟨hst, hrem⟩ := hb
        subst hst
        have hall : negCount neg (p :: ps) = 0 := by rw [negCount_cons_pos neg p ps hn]; exact hrem
        rw [fold_ignored_of_no_neg neg m (p :: ps) hall]
        simp [loop, hrem]
      · by_cases hi : st = .ignored
        · subst hi
          have hfold : specStep neg m .ignored p = .ignored := by
            simp only [specStep, hn]; split <;> simp
          rw [List.foldl_cons, hfold, ← ih]
          have hb' : ¬ negCount neg ps = 0 := fun h => hb ⟨rfl, h⟩
          simp [loop, hn, hb']
        · cases hm : m p
          · have hfold : specStep neg m st p = st := by simp [specStep, hm]
            rw [List.foldl_cons, hfold, ← ih]
            simp [loop, hn, hi, hm]
          · have hfold : specStep neg m st p = .ignored := by simp [specStep, hm, hn]
            rw [List.foldl_cons, hfold, ← ih]
            simp [loop, hn, hi, hm]
    · -- negated pattern
      rw [negCount_cons_neg neg p ps hn]
      have hb : ¬ (st = .ignored ∧ negCount neg ps + 1 = 0) := by omega
      by_cases hu : st = .unignored
      · subst hu
        have hfold : specStep neg m .unignored p = .unignored := by
          simp only [specStep, hn]; split <;> simp
        rw [List.foldl_cons, hfold, ← ih]
        simp [loop, hn]
      · cases hm : m p
        · have hfold : specStep neg m st p = st := by simp [specStep, hm]
          rw [List.foldl_cons, hfold, ← ih]
          simp [loop, hn, hu, hm]
        · have hfold : specStep neg m st p = .unignored := by simp [specStep, hm, hn]
          rw [List.foldl_cons, hfold, ← ih]
          simp [loop, hn, hu, hm]

/-- The fold is "the last matching pattern decides". -/
theorem fold_eq_lastMatch {α : Type} (neg : α → Bool) (m : α → Bool) (ps : List α) :
    ∀ st : Status, ps.foldl (specStep neg m) st = lastMatchWins neg m ps st := by
  induction ps with
  | nil => intro st; rfl
  | cons p ps ih =>
    intro st
    rw [List.foldl_cons, ih]
    unfold lastMatchWins
    by_cases hm : m p = true
    · simp only [List.filter_cons, hm, if_true, specStep]
      cases hf : ps.filter m with
      | nil => simp
      | cons q qs =>
        cases hl : (q :: qs).getLast? with
        | none => simp at hl
        | some l => simp [List.getLast?_cons_cons, hl]
    · have hm' : m p = false := by simpa using hm
      simp [List.filter_cons, hm', specStep]

theorem pathClean_ne_nil (p : Str) : pathClean p ≠ [] := by
  unfold pathClean
  split
  · simp
  · simp only
    split
    · simp
    · split <;> simp_all

theorem cleanPTS_ne_nil (p : Str) : cleanPreservingTrailingSlash p ≠ [] := by
  have := pathClean_ne_nil p
  by_cases h : (p.length > 1 ∧ p.getLast? = some '/')
  · simp [cleanPreservingTrailingSlash, h]
  · simp [cleanPreservingTrailingSlash, h, this]

/-! ### `newIgnorePattern`, field by field -/

/-- The intermediate strings of `newIgnorePattern` for a (negation-stripped) body. -/
def cleaned (p0 : Str) : Str := cleanPreservingTrailingSlash p0
def isAbsolute (p0 : Str) : Bool := (cleaned p0).head? = some '/'
def unanchored (p0 : Str) : Str := if isAbsolute p0 then (cleaned p0).tail else cleaned p0
def isDirOnly (p0 : Str) : Bool := (unanchored p0).getLast? = some '/'
def finalPattern (p0 : Str) : Str := if isDirOnly p0 then (unanchored p0).dropLast else unanchored p0

/-- `parseBody` as a closed formula: which error, or which four fields. -/
theorem parseBody_eq (n : Bool) (p0 : Str) :
    parseBody n p0 =
      if p0 = [] then .error .negatedEmpty
      else if cleaned p0 = ['/'] then .error .root
      else if cleaned p0 = ['/', '/'] then .error .rootDirectory
      else if Mutagen.Model.Doublestar.dsErr (finalPattern p0) ['a'] then .error .badPattern
      else .ok { negated := n, directoryOnly := isDirOnly p0,
                 matchLeaf := !isAbsolute p0 && !(finalPattern p0).contains '/', pattern := finalPattern p0 } := by
  unfold parseBody
  by_cases h0 : p0 = []
  · simp [h0]
  · simp only [h0, if_false]
    have hne : cleaned p0 ≠ [] := cleanPTS_ne_nil p0
    unfold finalPattern isDirOnly unanchored isAbsolute
    unfold cleaned at *
    by_cases h1 : cleanPreservingTrailingSlash p0 = ['/']
    · simp [h1]
    · by_cases h2 : cleanPreservingTrailingSlash p0 = ['/', '/']
      · simp [h2]
      · simp only [h1, h2, if_false]
        cases hc : cleanPreservingTrailingSlash p0 with
        | nil => exact absurd hc hne
        | cons c rest =>
          simp only [List.head?_cons, List.tail_cons, Option.some.injEq]
          by_cases habs : c = '/'
          · subst habs
            have hrest : rest ≠ [] := by
              intro hr; rw [hr] at hc; exact h1 hc
            simp only [if_true, decide_true]
            cases hl : rest.getLast? with
            | none => simp [List.getLast?_eq_none_iff] at hl; exact absurd hl hrest
            | some l => simp
          · simp only [habs, if_false, decide_false]
            cases hl : (c :: rest).getLast? with
            | none => simp at hl
            | some l => simp [habs, hl]

/-- `newIgnorePattern` never indexes out of range. -/
theorem parseBody_no_panic (n : Bool) (p0 : Str) : parseBody n p0 ≠ .error .panic := by
  rw [parseBody_eq]
  repeat (first | split | simp)

theorem parse_no_panic (p : Str) : parse p ≠ .error .panic := by
  unfold parse
  split
  · simp
  · exact parseBody_no_panic _ _
  · exact parseBody_no_panic _ _

theorem parseBody_ok_fields (n : Bool) (p0 : Str) (q : Pattern) (h : parseBody n p0 = .ok q) :
    q.negated = n ∧ q.directoryOnly = isDirOnly p0 ∧
    q.matchLeaf = (!isAbsolute p0 && !(finalPattern p0).contains '/') ∧ q.pattern = finalPattern p0 := by
  rw [parseBody_eq] at h
  split at h; · cases h
  split at h; · cases h
  split at h; · cases h
  split at h; · cases h
  cases h
  exact ⟨rfl, rfl, rfl, rfl⟩

end Mutagen.Proofs.IgnoreMutagen
