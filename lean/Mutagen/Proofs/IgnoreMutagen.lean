import Mutagen.Model.IgnoreMutagen
/-! Helper lemmas for C14 (core Lean only). -/
namespace Mutagen.Proofs.IgnoreMutagen
open Mutagen.Model.IgnoreMutagen Mutagen.Model.Glob
open Mutagen.Model.IgnoreCore (Status)

/-- What one matching pattern does to the status: the specification's step. -/
def specStep {α : Type} (neg : α → Bool) (m : α → Bool) (st : Status) (p : α) : Status :=
  if m p then (if neg p then .unignored else .ignored) else st

/-- Number of negated patterns in a list (`negatedPatternCount`). -/
def negCount {α : Type} (neg : α → Bool) (ps : List α) : Nat := (ps.filter neg).length

theorem negCount_cons {α : Type} (neg : α → Bool) (p : α) (ps : List α) :
    negCount neg (p :: ps) = (if neg p then 1 else 0) + negCount neg ps := by
  unfold negCount
  by_cases h : neg p = true
  · simp [List.filter_cons, h]; omega
  · simp [List.filter_cons, h]

/-- Once ignored, patterns that are all non-negated cannot change the status. -/
theorem fold_ignored_of_no_neg {α : Type} (neg : α → Bool) (m : α → Bool) (ps : List α)
    (h : negCount neg ps = 0) : ps.foldl (specStep neg m) .ignored = .ignored := by
  induction ps with
  | nil => rfl
  | cons p ps ih =>
    rw [negCount_cons] at h
    have hp : neg p = false := by
      cases hn : neg p
      · rfl
      · simp [hn] at h
    have hps : negCount neg ps = 0 := by simp [hp] at h; exact h
    simp only [List.foldl_cons, specStep, hp]
    have : (if m p = true then (if false = true then Status.unignored else Status.ignored) else Status.ignored) = Status.ignored := by
      split <;> rfl
    rw [this]
    exact ih hps

theorem negCount_cons_neg {α : Type} (neg : α → Bool) (p : α) (ps : List α) (h : neg p = true) :
    negCount neg (p :: ps) = negCount neg ps + 1 := by
  rw [negCount_cons]; simp [h]; omega

theorem negCount_cons_pos {α : Type} (neg : α → Bool) (p : α) (ps : List α) (h : neg p = false) :
    negCount neg (p :: ps) = negCount neg ps := by
  rw [negCount_cons]; simp [h]

/-- **The short-circuit loop computes the fold** (the invariant is that `rem`
is the number of negated patterns not yet visited). -/
theorem loop_eq_fold {α : Type} (neg : α → Bool) (m : α → Bool) (ps : List α) :
    ∀ st : Status, loop neg m ps st (negCount neg ps) = ps.foldl (specStep neg m) st := by
  induction ps with
  | nil => intro st; rfl
  | cons p ps ih =>
    intro st
    cases hn : neg p
    · -- non-negated pattern
      rw [negCount_cons_pos neg p ps hn]
      by_cases hb : st = .ignored ∧ negCount neg ps = 0
      · obtain ⟨hst, hrem⟩ := hb
        subst hst
        have hall : negCount neg (p :: ps) = 0 := by rw [negCount_cons_pos neg p ps hn]; exact hrem
        rw [fold_ignored_of_no_neg neg m (p :: ps) hall]
        simp [loop, hrem]
      · by_cases hi : st = .ignored
        · subst hi
          have hfold : specStep neg m .ignored p = .ignored := by
            simp only [specStep, hn]; split <;> simp
          rw [List.foldl_cons, hfold, ← ih]
          have hb' : ¬ negCount neg ps = 0 := fun h => hb ⟨rfl, h⟩
          simp [loop, hn, hb']
        · cases hm : m p
          · have hfold : specStep neg m st p = st := by simp [specStep, hm]
            rw [List.foldl_cons, hfold, ← ih]
            simp [loop, hn, hi, hm]
          · have hfold : specStep neg m st p = .ignored := by simp [specStep, hm, hn]
            rw [List.foldl_cons, hfold, ← ih]
            simp [loop, hn, hi, hm]
    · -- negated pattern
      rw [negCount_cons_neg neg p ps hn]
      have hb : ¬ (st = .ignored ∧ negCount neg ps + 1 = 0) := by omega
      by_cases hu : st = .unignored
      · subst hu
        have hfold : specStep neg m .unignored p = .unignored := by
          simp only [specStep, hn]; split <;> simp
        rw [List.foldl_cons, hfold, ← ih]
        simp [loop, hn]
      · cases hm : m p
        · have hfold : specStep neg m st p = st := by simp [specStep, hm]
          rw [List.foldl_cons, hfold, ← ih]
          simp [loop, hn, hu, hm]
        · have hfold : specStep neg m st p = .unignored := by simp [specStep, hm, hn]
          rw [List.foldl_cons, hfold, ← ih]
          simp [loop, hn, hu, hm]

/-- The fold is "the last matching pattern decides". -/
theorem fold_eq_lastMatch {α : Type} (neg : α → Bool) (m : α → Bool) (ps : List α) :
    ∀ st : Status, ps.foldl (specStep neg m) st = lastMatchWins neg m ps st := by
  induction ps with
  | nil => intro st; rfl
  | cons p ps ih =>
    intro st
    rw [List.foldl_cons, ih]
    unfold lastMatchWins
    by_cases hm : m p = true
    · simp only [List.filter_cons, hm, if_true, specStep]
      cases hf : ps.filter m with
      | nil => simp
      | cons q qs =>
        cases hl : (q :: qs).getLast? with
        | none => simp at hl
        | some l => simp [List.getLast?_cons_cons, hl]
    · have hm' : m p = false := by simpa using hm
      simp [List.filter_cons, hm', specStep]

theorem pathClean_ne_nil (p : Str) : pathClean p ≠ [] := by
  unfold pathClean
  split
  · simp
  · simp only
    split
    · simp
    · split <;> simp_all

theorem cleanPTS_ne_nil (p : Str) : cleanPreservingTrailingSlash p ≠ [] := by
  have := pathClean_ne_nil p
  by_cases h : (p.length > 1 ∧ p.getLast? = some '/')
  · simp [cleanPreservingTrailingSlash, h]
  · simp [cleanPreservingTrailingSlash, h, this]

end Mutagen.Proofs.IgnoreMutagen
