import Mutagen.Proofs.Expected
import Mutagen.Proofs.TransitionExact
/-!
Problems are only ever added, and every refusal of `removeDirectory` records
one: the "and a problem is recorded" half of C08.
-/
namespace Mutagen.Proofs.FS
open Mutagen.Model Mutagen.Model.TFS Mutagen.Proofs.Assoc

/-- Number of problems recorded so far. -/
def np (st : St) : Nat := st.problems.length

@[simp] theorem np_problem (st : St) (p : Path) (c : String) : np (st.problem p c) = np st + 1 := by
  simp [np, St.problem]

theorem np_of_quiet {st st' : St} (h : Quiet st st') : np st' = np st := by
  simp [np, h.1]

theorem np_hook (env : Env) (st : St) (op : Op) (n : Name) : np (hook env st op n).2 = np st := rfl

/-- What `removeDirectory` guarantees about the problem list, for its content loop. -/
def RmProb (rec : RmRec) : Prop :=
  ∀ st h n p e, np st ≤ np (rec st h n p e).2.2 ∧ ((rec st h n p e).1 = false → np st < np (rec st h n p e).2.2)

def flagsAny (fl : RmFlags) : Bool := fl.cancelled || fl.unknown || fl.failed

theorem removeLoop_problems (env : Env) (rec : RmRec) (hrec : RmProb rec) (dirH : Handle) (path : Path)
    (names : List Name) :
    ∀ (fl : RmFlags) (cur : Contents) (st : St),
      np st ≤ np (removeLoop env rec dirH path names fl cur st).2.2 ∧
      (flagsAny (removeLoop env rec dirH path names fl cur st).1 = true →
        flagsAny fl = true ∨ np st < np (removeLoop env rec dirH path names fl cur st).2.2) := by
  induction names with
  | nil => intro fl cur st; simp only [removeLoop]; exact ⟨Nat.le_refl _, fun h => Or.inl h⟩
  | cons c rest ih =>
    intro fl cur st
    unfold removeLoop
    -- continuation after a state change that recorded at least `k` problems
    have hcont : ∀ (fl1 : RmFlags) (cur1 : Contents) (st1 : St), np st ≤ np st1 →
        (flagsAny fl1 = true → flagsAny fl = true ∨ np st < np st1) →
        np st ≤ np (removeLoop env rec dirH path rest fl1 cur1 st1).2.2 ∧
        (flagsAny (removeLoop env rec dirH path rest fl1 cur1 st1).1 = true →
          flagsAny fl = true ∨ np st < np (removeLoop env rec dirH path rest fl1 cur1 st1).2.2) := by
      intro fl1 cur1 st1 hle hfl
      obtain ⟨i1, i2⟩ := ih fl1 cur1 st1
      refine ⟨Nat.le_trans hle i1, fun h => ?_⟩
      rcases i2 h with h1 | h1
      · rcases hfl h1 with h2 | h2
        · exact Or.inl h2
        · exact Or.inr (Nat.lt_of_lt_of_le h2 i1)
      · exact Or.inr (Nat.lt_of_le_of_lt hle h1)
    split
    · simp only [np_problem]
      exact ⟨Nat.le_succ _, fun _ => Or.inr (Nat.lt_succ_self _)⟩
    · cases hl : lookup c cur with
      | none =>
        simp only
        exact hcont _ _ _ (by simp) (fun _ => Or.inr (by simp))
      | some entry =>
        simp only
        split
        · obtain ⟨r1, r2⟩ := hrec st dirH c (path ++ [c]) entry
          rcases hrc : rec st dirH c (path ++ [c]) entry with ⟨ok, entry', st1⟩
          rw [hrc] at r1 r2
          simp only at r1 r2
          cases ok with
          | true => exact hcont _ _ _ r1 (fun h => Or.inl h)
          | false => exact hcont _ _ _ r1 (fun _ => Or.inr (r2 rfl))
        · split
          · rcases hrf : removeFile env st dirH c (path ++ [c]) entry with ⟨r, st1⟩
            have hq := (removeFile_eff env st dirH c (path ++ [c]) entry r st1 hrf).1
            have hn := np_of_quiet hq
            cases r with
            | none => exact hcont _ _ _ (by rw [hn]; exact Nat.le_refl _) (fun h => Or.inl h)
            | some e => exact hcont _ _ _ (by simp [hn]) (fun _ => Or.inr (by simp [hn]))
          · split
            · rcases hrf : removeSymbolicLink env st dirH c (path ++ [c]) entry with ⟨r, st1⟩
              have hq := (removeSymbolicLink_eff env st dirH c (path ++ [c]) entry r st1 hrf).1
              have hn := np_of_quiet hq
              cases r with
              | none => exact hcont _ _ _ (by rw [hn]; exact Nat.le_refl _) (fun h => Or.inl h)
              | some e => exact hcont _ _ _ (by simp [hn]) (fun _ => Or.inr (by simp [hn]))
            · exact hcont _ _ _ (by simp) (fun _ => Or.inr (by simp))

/-- **`removeDirectory` never refuses silently**: problems are only added, and
a `false` result comes with at least one new problem. -/
theorem removeDirectory_problems (env : Env) (fuel : Nat) : RmProb (removeDirectory env fuel) := by
  induction fuel with
  | zero => intro st h n p e; simp [removeDirectory]
  | succ fuel ih =>
    intro st parent name path expected
    unfold removeDirectory
    rcases hh : hook env st .opendir name with ⟨a, st1⟩
    have h1 : np st1 = np st := by have := np_hook env st .opendir name; rw [hh] at this; exact this
    simp only
    split
    · simp [h1]
    · cases hda : dirAt st1.fs (parent ++ [name]) with
      | none => simp [h1]
      | some cs0 =>
        simp only
        rcases hh2 : hook env st1 .readdir "" with ⟨a2, st2⟩
        have h2 : np st2 = np st := by
          have := np_hook env st1 .readdir ""; rw [hh2] at this; rw [this]; exact h1
        simp only
        split
        · simp [h2]
        · cases hdb : dirAt st2.fs (parent ++ [name]) with
          | none => simp [h2]
          | some csd =>
            simp only
            have hloop := removeLoop_problems env (removeDirectory env fuel) ih (parent ++ [name]) path
              (env.ord (akeys csd)) {} expected.children st2
            rcases hrl : removeLoop env (removeDirectory env fuel) (parent ++ [name]) path
              (env.ord (akeys csd)) {} expected.children st2 with ⟨fl, cur, st3⟩
            rw [hrl] at hloop
            simp only at hloop
            obtain ⟨l1, l2⟩ := hloop
            rw [h2] at l1 l2
            split
            · rcases hh3 : hook env st3 .rmdir name with ⟨a3, st4⟩
              have h4 : np st4 = np st3 := by have := np_hook env st3 .rmdir name; rw [hh3] at this; exact this
              simp only
              split
              · simp only [np_problem, h4]
                exact ⟨Nat.le_succ_of_le l1, fun _ => Nat.lt_succ_of_le l1⟩
              · cases hrm : fsRmdir st4.fs parent name with
                | none =>
                  simp only [np_problem, h4]
                  exact ⟨Nat.le_succ_of_le l1, fun _ => Nat.lt_succ_of_le l1⟩
                | some fs' =>
                  simp only
                  refine ⟨?_, fun hc => (by cases hc)⟩
                  show np st ≤ st4.problems.length
                  have : st4.problems.length = np st4 := rfl
                  rw [this, h4]; exact l1
            · rename_i hflags
              refine ⟨l1, fun _ => ?_⟩
              have hany : flagsAny fl = true := by
                simp only [flagsAny]
                cases hc : fl.cancelled <;> cases hu : fl.unknown <;> cases hf : fl.failed <;> simp_all
              rcases l2 hany with h | h
              · simp [flagsAny] at h
              · exact h

/-- `removeDirectory` reports success only when the directory is gone. -/
theorem removeDirectory_true_gone (env : Env) (fuel : Nat) (st : St) (parent : Handle) (name : Name) (path : Path)
    (expected : Entry) (h : (removeDirectory env fuel st parent name path expected).1 = true) :
    (removeDirectory env fuel st parent name path expected).2.2.fs.get (parent ++ [name]) = none := by
  cases fuel with
  | zero => simp [removeDirectory] at h
  | succ fuel =>
    unfold removeDirectory at h ⊢
    rcases hh : hook env st .opendir name with ⟨a, st1⟩
    rw [hh] at h
    simp only at h ⊢
    split at h
    · cases h
    · rename_i hc1
      simp only [hc1, if_false]
      cases hda : dirAt st1.fs (parent ++ [name]) with
      | none => rw [hda] at h; cases h
      | some cs0 =>
        rw [hda] at h
        simp only at h ⊢
        rcases hh2 : hook env st1 .readdir "" with ⟨a2, st2⟩
        rw [hh2] at h
        simp only at h ⊢
        split at h
        · cases h
        · rename_i hc2
          simp only [hc2, if_false]
          cases hdb : dirAt st2.fs (parent ++ [name]) with
          | none => rw [hdb] at h; cases h
          | some csd =>
            rw [hdb] at h
            simp only at h ⊢
            rcases hrl : removeLoop env (removeDirectory env fuel) (parent ++ [name]) path
              (env.ord (akeys csd)) {} expected.children st2 with ⟨fl, cur, st3⟩
            rw [hrl] at h
            simp only at h ⊢
            split at h
            · rename_i hc3
              simp only [hc3, if_true]
              rcases hh3 : hook env st3 .rmdir name with ⟨a3, st4⟩
              rw [hh3] at h
              simp only at h ⊢
              split at h
              · cases h
              · rename_i hc4
                simp only [hc4, if_false]
                cases hrm : fsRmdir st4.fs parent name with
                | none => rw [hrm] at h; cases h
                | some fs' =>
                  simp only
                  exact (fsRmdir_spec st4.fs fs' parent name hrm).2.1
            · cases h

/-- **`removeDirectory` refuses on unknown children.** If the directory holds a
guarded child (content the plan does not expect, a file whose metadata differs
from the cache, a retargeted link), `removeDirectory` returns `false` and
records a problem. -/
theorem removeDirectory_refuses_guarded (C : Ctx) (hreg : CacheRegular C.env.cache) (fuel : Nat) (st : St)
    (parent : Handle) (name : Name) (path : Path) (expected : Entry) (c : Name)
    (hi : Inv C st.fs) (hq : parent ++ [name] = C.env.rootName :: path) (hw : Within C path expected)
    (hg : G C (parent ++ [name] ++ [c])) :
    (removeDirectory C.env fuel st parent name path expected).1 = false ∧
    np st < np (removeDirectory C.env fuel st parent name path expected).2.2 := by
  have hinv := (removeDirectory_spec C hreg fuel st parent name path expected hi hq hw).1
  have hprob := removeDirectory_problems C.env fuel st parent name path expected
  cases hok : (removeDirectory C.env fuel st parent name path expected).1 with
  | false => exact ⟨rfl, hprob.2 hok⟩
  | true =>
    exfalso
    have hgone := removeDirectory_true_gone C.env fuel st parent name path expected hok
    have := hinv _ hg
    rw [sget, get_none_of_prefix _ _ [c] hgone] at this
    exact G_nonempty C _ hg this.symm

/-! ## Problems are never dropped -/

theorem np_walk (env : Env) (st : St) (path : Path) (v : Bool) : np (walkToParent env st path v).2 = np st :=
  np_of_quiet (walkToParent_quiet env st path v)

theorem crossDevice_problems (env : Env) (st : St) (key : Path × List UInt8) (sf : SFile) (mode : Nat) (parent : Handle)
    (name : Name) (replace : Bool) (r : Option String) (st' : St)
    (h : crossDevice env st key sf mode parent name replace = (r, st')) : np st' = np st := by
  unfold crossDevice at h
  rcases hh : hook env st .mktemp tmpPattern with ⟨a, st1⟩
  have h1 : np st1 = np st := by have := np_hook env st .mktemp tmpPattern; rw [hh] at this; exact this
  rw [hh] at h
  simp only at h
  split at h
  · simp only [Prod.mk.injEq] at h; rw [← h.2]; exact h1
  · cases hd : dirAt st1.fs parent with
    | none => rw [hd] at h; simp only [Prod.mk.injEq] at h; rw [← h.2]; exact h1
    | some cs =>
      rw [hd] at h
      simp only at h
      split at h
      · cases hp : fsPut st1.fs parent (env.tmpName st1.tmpCount (akeys cs))
            (Node.file (sf.data.take copyPreemptionBytes) 0o600 0 0) false with
        | none => rw [hp] at h; simp only [Prod.mk.injEq] at h; rw [← h.2]; exact h1
        | some fs2 =>
          rw [hp] at h
          simp only at h
          rcases hu : opUnlink env { st1 with fs := fs2, tmpCount := st1.tmpCount + 1 } parent
            (env.tmpName st1.tmpCount (akeys cs)) with ⟨b2, st4⟩
          have h4 := np_of_quiet (opUnlink_eff env _ parent _ b2 st4 hu).1
          rw [hu] at h
          simp only [Prod.mk.injEq] at h; rw [← h.2, h4]; exact h1
      cases hp : fsPut st1.fs parent (env.tmpName st1.tmpCount (akeys cs)) (Node.file sf.data 0o600 0 0) false with
      | none => rw [hp] at h; simp only [Prod.mk.injEq] at h; rw [← h.2]; exact h1
      | some fs2 =>
        rw [hp] at h
        simp only at h
        generalize env.tmpName st1.tmpCount (akeys cs) = tmp at h
        rcases hc : opChmod env { st1 with fs := fs2, tmpCount := st1.tmpCount + 1 } parent tmp mode with ⟨b, st3⟩
        have h3 : np st3 = np st := by
          have := np_of_quiet (opChmod_eff env _ parent tmp mode b st3 hc).1
          rw [this]; exact h1
        rw [hc] at h
        cases b with
        | false =>
          simp only at h
          rcases hu : opUnlink env st3 parent tmp with ⟨b2, st4⟩
          have h4 := np_of_quiet (opUnlink_eff env st3 parent tmp b2 st4 hu).1
          rw [hu] at h
          simp only [Prod.mk.injEq] at h; rw [← h.2, h4]; exact h3
        | true =>
          simp only at h
          rcases hh5 : hook env st3 .rename name with ⟨a5, st5⟩
          have h5 : np st5 = np st := by
            have := np_hook env st3 .rename name; rw [hh5] at this; rw [this]; exact h3
          rw [hh5] at h
          simp only at h
          split at h
          · rcases hu : opUnlink env st5 parent tmp with ⟨b2, st6⟩
            have h6 := np_of_quiet (opUnlink_eff env st5 parent tmp b2 st6 hu).1
            rw [hu] at h
            simp only [Prod.mk.injEq] at h; rw [← h.2, h6]; exact h5
          · simp only [Prod.mk.injEq] at h; rw [← h.2]; exact h5

theorem np_findAndMove (env : Env) (st : St) (path : Path)
    (target : Entry) (parent : Handle) (name : Name) (replace : Bool) :
    np (findAndMove env st path target parent name replace).2 = np st := by
  rcases h : findAndMove env st path target parent name replace with ⟨r, st'⟩
  simp only
  unfold findAndMove at h
  simp only at h
  split at h
  · simp only [Prod.mk.injEq] at h; rw [← h.2]
  · split at h
    · simp only [hook] at h
      unfold np
      grind
    · rename_i sf0 _
      split at h
      · simp only [Prod.mk.injEq] at h; rw [← h.2]; rfl
      · generalize (if (if target.props.executable = true then markExecutableForReaders env.fileMode
            else env.fileMode) % 512 != 0 then
            ({ sf0 with perm := (if target.props.executable = true then markExecutableForReaders env.fileMode
              else env.fileMode) % 512 } : SFile) else sf0) = sf at h
        rcases hh : hook env { st with staged := aset (path, target.props.digest) sf st.staged } .rename name
          with ⟨a, st1⟩
        have h1 : np st1 = np st := by
          have := np_hook env { st with staged := aset (path, target.props.digest) sf st.staged } .rename name
          rw [hh] at this; exact this
        rw [hh] at h
        simp only at h
        cases a with
        | exdev =>
          simp only at h
          rw [crossDevice_problems env st1 _ sf _ parent name replace r st' h]; exact h1
        | fail => simp only [Prod.mk.injEq] at h; rw [← h.2]; exact h1
        | pass =>
          simp only at h
          split at h <;> (simp only [Prod.mk.injEq] at h; rw [← h.2]; exact h1)
        | cancel =>
          simp only at h
          split at h <;> (simp only [Prod.mk.injEq] at h; rw [← h.2]; exact h1)

theorem np_swapFile (env : Env) (st : St) (path : Path)
    (o n : Entry) : np (swapFile env st path o n).2 = np st := by
  unfold swapFile
  have hw := np_walk env st path true
  rcases hwk : walkToParent env st path true with ⟨w, st1⟩
  rw [hwk] at hw
  simp only at hw ⊢
  cases w with
  | none => exact hw
  | some hn =>
    obtain ⟨parent, name⟩ := hn
    simp only
    have hc := np_of_quiet (ensureExpectedFile_quiet env st1 parent name path o)
    rcases hce : ensureExpectedFile env st1 parent name path o with ⟨r1, st2⟩
    rw [hce] at hc
    simp only at hc ⊢
    cases r1 with
    | some e => rw [hc]; exact hw
    | none =>
      simp only
      split
      · rcases hcm : opChmod env st2 parent name
            (if n.props.executable = true then markExecutableForReaders env.fileMode else env.fileMode) with ⟨b, st3⟩
        have := np_of_quiet (opChmod_eff env st2 parent name _ b st3 hcm).1
        cases b <;> (simp only; rw [this, hc]; exact hw)
      · rw [np_findAndMove env, hc]; exact hw

theorem np_createSymbolicLink (env : Env) (st : St) (parent : Handle) (name : Name) (path : Path) (target : Entry) :
    np st ≤ np (createSymbolicLink env st parent name path target).2 := by
  unfold createSymbolicLink
  split
  · exact Nat.le_refl _
  · split
    · exact Nat.le_refl _
    · split
      · exact Nat.le_refl _
      · rcases hh : hook env st .symlink name with ⟨a, st1⟩
        have h1 : np st1 = np st := by have := np_hook env st .symlink name; rw [hh] at this; exact this
        simp only
        split
        · rw [h1]; exact Nat.le_refl _
        · cases hs : fsSymlink st1.fs parent name target.props.target with
          | none => simp only; rw [h1]; exact Nat.le_refl _
          | some fs2 =>
            simp only
            rcases hc : opChmod env { st1 with fs := fs2 } parent name 0 with ⟨b, st3⟩
            have h3 : np st3 = np st := by
              have := np_of_quiet (opChmod_eff env _ parent name 0 b st3 hc).1
              rw [this]; exact h1
            cases b with
            | false => simp only [np_problem, h3]; omega
            | true => simp only; rw [h3]; exact Nat.le_refl _

/-- What `createDirectory` guarantees about the problem list. -/
def MkProb (rec : MkRec) : Prop := ∀ st h n p e, np st ≤ np (rec st h n p e).2

theorem np_createLoop (env : Env) (rec : MkRec)
    (hrec : MkProb rec) (dirH : Handle) (path : Path) (target : Contents) (names : List Name) :
    ∀ (acc : Contents) (st : St), np st ≤ np (createLoop env rec dirH path target names acc st).2 := by
  induction names with
  | nil => intro acc st; simp [createLoop]
  | cons n rest ih =>
    intro acc st
    unfold createLoop
    split
    · simp
    · cases hl : lookup n target with
      | none => exact ih acc st
      | some entry =>
        simp only
        split
        · have := hrec st dirH n (path ++ [n]) entry
          rcases hrc : rec st dirH n (path ++ [n]) entry with ⟨c, st1⟩
          rw [hrc] at this
          cases c <;> exact Nat.le_trans this (ih _ _)
        · split
          · have := np_findAndMove env st (path ++ [n]) entry dirH n false
            rcases hf : findAndMove env st (path ++ [n]) entry dirH n false with ⟨r, st1⟩
            rw [hf] at this
            simp only at this
            cases r with
            | none => simp only; rw [← this]; exact ih _ _
            | some e =>
              simp only
              refine Nat.le_trans ?_ (ih _ _)
              simp [this]
          · split
            · have := np_createSymbolicLink env st dirH n (path ++ [n]) entry
              rcases hf : createSymbolicLink env st dirH n (path ++ [n]) entry with ⟨r, st1⟩
              rw [hf] at this
              simp only at this
              cases r with
              | none => exact Nat.le_trans this (ih _ _)
              | some e =>
                simp only
                refine Nat.le_trans ?_ (ih _ _)
                simp only [np_problem]; omega
            · refine Nat.le_trans ?_ (ih _ _)
              simp

theorem np_createDirectory (env : Env) (fuel : Nat) :
    MkProb (createDirectory env fuel) := by
  induction fuel with
  | zero => intro st h n p e; simp [createDirectory]
  | succ fuel ih =>
    intro st parent name path target
    unfold createDirectory
    split
    · simp
    · rcases hh : hook env st .mkdir name with ⟨a, st1⟩
      have h1 : np st1 = np st := by have := np_hook env st .mkdir name; rw [hh] at this; exact this
      simp only
      split
      · simp [h1]
      · cases hm : fsMkdir st1.fs parent name with
        | none => simp [h1]
        | some fs2 =>
          simp only
          rcases hc : opChmod env { st1 with fs := fs2 } parent name env.dirMode with ⟨b, st3⟩
          have h3 : np st3 = np st := by
            have := np_of_quiet (opChmod_eff env _ parent name _ b st3 hc).1
            rw [this]; exact h1
          cases b with
          | false => simp [h3]
          | true =>
            simp only
            split
            · rw [h3]; exact Nat.le_refl _
            · rcases hh4 : hook env st3 .opendir name with ⟨a4, st4⟩
              have h4 : np st4 = np st := by
                have := np_hook env st3 .opendir name; rw [hh4] at this; rw [this]; exact h3
              simp only
              split
              · simp [h4]
              · cases hd : dirAt st4.fs (parent ++ [name]) with
                | none => simp [h4]
                | some cs =>
                  simp only
                  have := np_createLoop env (createDirectory env fuel) ih (parent ++ [name]) path target.children
                    (env.ord (keys target.children)) [] st4
                  rw [h4] at this
                  exact this

theorem np_create (env : Env) (st : St) (path : Path)
    (target : Option Entry) : np st ≤ np (create env st path target).2 := by
  cases target with
  | none => simp [create]
  | some e =>
    unfold create
    have hw := np_walk env st path false
    rcases hwk : walkToParent env st path false with ⟨w, st1⟩
    rw [hwk] at hw
    simp only at hw ⊢
    cases w with
    | none => simp [hw]
    | some hn =>
      obtain ⟨parent, name⟩ := hn
      simp only
      split
      · rw [← hw]; exact np_createDirectory env e.size st1 parent name path e
      · split
        · have := np_findAndMove env st1 path e parent name false
          rcases hf : findAndMove env st1 path e parent name false with ⟨r, st2⟩
          rw [hf] at this
          simp only at this
          cases r <;> simp [this, hw]
        · split
          · have := np_createSymbolicLink env st1 parent name path e
            rcases hf : createSymbolicLink env st1 parent name path e with ⟨r, st2⟩
            rw [hf] at this
            simp only at this
            cases r with
            | none => simp only; omega
            | some err => simp only [np_problem]; omega
          · simp [hw]

theorem np_remove (env : Env) (st : St) (path : Path) (old : Option Entry) : np st ≤ np (remove env st path old).2 := by
  cases old with
  | none => simp [remove]
  | some e =>
    unfold remove
    have hw := np_walk env st path true
    rcases hwk : walkToParent env st path true with ⟨w, st1⟩
    rw [hwk] at hw
    simp only at hw ⊢
    cases w with
    | none => simp [hw]
    | some hn =>
      obtain ⟨parent, name⟩ := hn
      simp only
      split
      · have := (removeDirectory_problems env e.size st1 parent name path e).1
        rcases hrd : removeDirectory env e.size st1 parent name path e with ⟨ok, red, st2⟩
        rw [hrd] at this
        simp only at this
        cases ok <;> (simp only; omega)
      · split
        · rcases hrf : removeFile env st1 parent name path e with ⟨r, st2⟩
          have := np_of_quiet (removeFile_eff env st1 parent name path e r st2 hrf).1
          cases r <;> simp [this, hw]
        · split
          · rcases hrf : removeSymbolicLink env st1 parent name path e with ⟨r, st2⟩
            have := np_of_quiet (removeSymbolicLink_eff env st1 parent name path e r st2 hrf).1
            cases r <;> simp [this, hw]
          · simp [hw]

theorem np_step (env : Env) (st : St) (t : Change) :
    np st ≤ np (step env st t).2 := by
  unfold step
  split
  · simp
  · have hgen : ∀ o nw, np st ≤ np (match remove env st t.path o with
        | (some r, st) => (some r, st)
        | (none, st) => create env st t.path nw).2 := by
      intro o nw
      have h1 := np_remove env st t.path o
      rcases hr : remove env st t.path o with ⟨r, st1⟩
      rw [hr] at h1
      simp only at h1
      cases r with
      | some e => exact h1
      | none => exact Nat.le_trans h1 (np_create env st1 t.path nw)
    split
    · split
      · rename_i o n _ _ _
        have := np_swapFile env st t.path o n
        rcases hs : swapFile env st t.path o n with ⟨r, st1⟩
        rw [hs] at this
        simp only at this
        cases r <;> simp [this]
      · exact hgen _ _
    · exact hgen _ _

theorem np_transition (env : Env) (plan : List Change) :
    ∀ st, np st ≤ np (transition env st plan).2 := by
  induction plan with
  | nil => intro st; simp [transition]
  | cons t ts ih =>
    intro st
    unfold transition
    have h1 := np_step env st t
    rcases hs : step env st t with ⟨r, st1⟩
    rw [hs] at h1
    have h2 := ih st1
    rcases htr : transition env st1 ts with ⟨rs, st2⟩
    rw [htr] at h2
    simp only [htr]
    exact Nat.le_trans h1 h2

/-- A transition whose old entry is a directory that holds a guarded child
keeps the directory, reports it (a non-nil result) and records a problem. -/
theorem step_refuses_guarded (C : Ctx) (hreg : CacheRegular C.env.cache) (st : St) (t : Change) (e : Entry) (c : Name)
    (hold : t.old = some e) (hk : e.kind = .directory) (hi : Inv C st.fs) (hw : Within C t.path e)
    (hg : G C (C.env.rootName :: (t.path ++ [c]))) :
    np st < np (step C.env st t).2 ∧ (step C.env st t).1 ≠ none := by
  unfold step
  split
  · rw [hold]; simp
  · have hrem : np st < np (remove C.env st t.path (some e)).2 ∧ (remove C.env st t.path (some e)).1 ≠ none := by
      unfold remove
      have hws := walkToParent_spec C.env st t.path true
      have hwn := np_walk C.env st t.path true
      rcases hwk : walkToParent C.env st t.path true with ⟨w, st1⟩
      rw [hwk] at hws hwn
      simp only at hws hwn ⊢
      cases w with
      | none => simp [hwn]
      | some hn =>
        obtain ⟨parent, name⟩ := hn
        have hq := hws.2 parent name rfl
        simp only [hk, beq_self_eq_true, if_true]
        have hg' : G C (parent ++ [name] ++ [c]) := by rw [hq]; simpa using hg
        obtain ⟨r1, r2⟩ := removeDirectory_refuses_guarded C hreg e.size st1 parent name t.path e c
          (by rw [hws.1]; exact hi) hq hw hg'
        rcases hrd : removeDirectory C.env e.size st1 parent name t.path e with ⟨ok, red, st2⟩
        rw [hrd] at r1 r2
        simp only at r1 r2
        subst r1
        simp only
        exact ⟨by omega, by simp⟩
    split
    · rename_i o n ho hn
      have hoe : o = e := by rw [hold] at ho; exact (Option.some.inj ho).symm
      subst hoe
      have hnf : (o.kind == Kind.file && n.kind == Kind.file) = false := by simp [hk]
      simp only [hnf, Bool.false_eq_true, if_false]
      rcases hr : remove C.env st t.path (some o) with ⟨r, st1⟩
      rw [hr] at hrem
      simp only at hrem
      cases r with
      | none => exact absurd rfl hrem.2
      | some red => exact ⟨hrem.1, by simp⟩
    · rw [hold]
      rcases hr : remove C.env st t.path (some e) with ⟨r, st1⟩
      rw [hr] at hrem
      simp only at hrem
      cases r with
      | none => exact absurd rfl hrem.2
      | some red => exact ⟨hrem.1, by simp⟩

theorem transition_append (env : Env) (a b : List Change) :
    ∀ st, transition env st (a ++ b) =
      ((transition env st a).1 ++ (transition env (transition env st a).2 b).1,
       (transition env (transition env st a).2 b).2) := by
  induction a with
  | nil => intro st; simp [transition]
  | cons t ts ih =>
    intro st
    simp only [List.cons_append, transition]
    rcases hs : step env st t with ⟨r, st1⟩
    simp only
    rw [ih st1]

/-- **A problem is recorded** when the plan wants to remove a directory that
holds guarded content: the transition of that directory records at least one
problem (problems are never dropped afterwards). -/
theorem guarded_child_problem_recorded (env : Env) (hreg : CacheRegular env.cache) (st : St)
    (pre post : List Change) (t : Change) (e : Entry) (c : Name)
    (hold : t.old = some e) (hk : e.kind = .directory)
    (hg : G (planCtx env st (pre ++ t :: post)) (env.rootName :: (t.path ++ [c]))) :
    np st < np (transition env st (pre ++ t :: post)).2 := by
  let C := planCtx env st (pre ++ t :: post)
  have hwithin := plan_within env st (pre ++ t :: post)
  rw [transition_append]
  simp only
  have hinv : Inv C (transition env st pre).2.fs :=
    inv_transition C hreg pre st (inv_refl _) (fun t' ht' => hwithin t' (by simp [ht']))
  have h1 : np st ≤ np (transition env st pre).2 := np_transition env pre st
  generalize (transition env st pre).2 = s1 at hinv h1
  simp only [transition]
  have hstep := step_refuses_guarded C hreg s1 t e c hold hk hinv (hwithin t (by simp) e hold) hg
  rcases hs : step env s1 t with ⟨r, s2⟩
  have hs' : step C.env s1 t = (r, s2) := hs
  rw [hs'] at hstep
  simp only at hstep ⊢
  have h3 := np_transition env post s2
  rcases htr : transition env s2 post with ⟨rs, s3⟩
  rw [htr] at h3
  simp only at h3 ⊢
  omega

end Mutagen.Proofs.FS
