import Mutagen.Model.Housekeeping
/-!
Helper lemmas for C43 (core Lean only).
-/
namespace Mutagen.Model.Housekeeping

theorem mem_agentsLoop {now : Int} {cs : List Child} {r : Removal} :
    r ∈ agentsLoop now cs ↔
      ∃ c ∈ cs, ∃ st, c.agentStat = some st ∧ now - st.atime > maximumAgentIdlePeriod ∧
        r = { sub := .agents, name := c.name, recursive := true } := by
  induction cs with
  | nil => simp [agentsLoop]
  | cons c rest ih =>
    simp only [agentsLoop]
    cases hst : c.agentStat with
    | none => simp [ih, hst]
    | some st =>
      simp only
      by_cases hold : now - st.atime > maximumAgentIdlePeriod
      · simp only [hold, if_true, List.mem_cons, ih]
        constructor
        · rintro (rfl | ⟨c', hc', st', h1, h2, h3⟩)
          · exact ⟨c, Or.inl rfl, st, hst, hold, rfl⟩
          · exact ⟨c', Or.inr hc', st', h1, h2, h3⟩
        · rintro ⟨c', hc' | hc', st', h1, h2, h3⟩
          · subst hc'; exact Or.inl h3
          · exact Or.inr ⟨c', hc', st', h1, h2, h3⟩
      · simp only [hold, if_false, ih, List.mem_cons]
        constructor
        · rintro ⟨c', hc', st', h1, h2, h3⟩
          exact ⟨c', Or.inr hc', st', h1, h2, h3⟩
        · rintro ⟨c', hc' | hc', st', h1, h2, h3⟩
          · subst hc'; rw [hst] at h1; cases h1; exact absurd h2 hold
          · exact ⟨c', hc', st', h1, h2, h3⟩

theorem mem_cachesLoop {now : Int} {cs : List Child} {r : Removal} :
    r ∈ cachesLoop now cs ↔
      ∃ c ∈ cs, ∃ st, c.stat = some st ∧ now - st.mtime > maximumCacheAge ∧
        r = { sub := .caches, name := c.name, recursive := false } := by
  induction cs with
  | nil => simp [cachesLoop]
  | cons c rest ih =>
    simp only [cachesLoop]
    cases hst : c.stat with
    | none => simp [ih, hst]
    | some st =>
      simp only
      by_cases hold : now - st.mtime > maximumCacheAge
      · simp only [hold, if_true, List.mem_cons, ih]
        constructor
        · rintro (rfl | ⟨c', hc', st', h1, h2, h3⟩)
          · exact ⟨c, Or.inl rfl, st, hst, hold, rfl⟩
          · exact ⟨c', Or.inr hc', st', h1, h2, h3⟩
        · rintro ⟨c', hc' | hc', st', h1, h2, h3⟩
          · subst hc'; exact Or.inl h3
          · exact Or.inr ⟨c', hc', st', h1, h2, h3⟩
      · simp only [hold, if_false, ih, List.mem_cons]
        constructor
        · rintro ⟨c', hc', st', h1, h2, h3⟩
          exact ⟨c', Or.inr hc', st', h1, h2, h3⟩
        · rintro ⟨c', hc' | hc', st', h1, h2, h3⟩
          · subst hc'; rw [hst] at h1; cases h1; exact absurd h2 hold
          · exact ⟨c', hc', st', h1, h2, h3⟩

theorem mem_stagingLoop {now : Int} {cs : List Child} {r : Removal} :
    r ∈ stagingLoop now cs ↔
      ∃ c ∈ cs, ∃ st, c.stat = some st ∧ now - st.mtime > maximumStagingRootAge ∧
        r = { sub := .staging, name := c.name, recursive := true } := by
  induction cs with
  | nil => simp [stagingLoop]
  | cons c rest ih =>
    simp only [stagingLoop]
    cases hst : c.stat with
    | none => simp [ih, hst]
    | some st =>
      simp only
      by_cases hold : now - st.mtime > maximumStagingRootAge
      · simp only [hold, if_true, List.mem_cons, ih]
        constructor
        · rintro (rfl | ⟨c', hc', st', h1, h2, h3⟩)
          · exact ⟨c, Or.inl rfl, st, hst, hold, rfl⟩
          · exact ⟨c', Or.inr hc', st', h1, h2, h3⟩
        · rintro ⟨c', hc' | hc', st', h1, h2, h3⟩
          · subst hc'; exact Or.inl h3
          · exact Or.inr ⟨c', hc', st', h1, h2, h3⟩
      · simp only [hold, if_false, ih, List.mem_cons]
        constructor
        · rintro ⟨c', hc', st', h1, h2, h3⟩
          exact ⟨c', Or.inr hc', st', h1, h2, h3⟩
        · rintro ⟨c', hc' | hc', st', h1, h2, h3⟩
          · subst hc'; rw [hst] at h1; cases h1; exact absurd h2 hold
          · exact ⟨c', hc', st', h1, h2, h3⟩

/-- When is a child of `sub` stale according to the code? -/
def Stale (now : Int) : Sub → Child → Prop
  | .agents, c => ∃ st, c.agentStat = some st ∧ now - st.atime > maximumAgentIdlePeriod
  | .caches, c => ∃ st, c.stat = some st ∧ now - st.mtime > maximumCacheAge
  | .staging, c => ∃ st, c.stat = some st ∧ now - st.mtime > maximumStagingRootAge

def recursiveFor : Sub → Bool
  | .agents => true
  | .caches => false
  | .staging => true

/-- Characterisation of everything `Housekeep` removes. -/
theorem mem_housekeep {sidecar : Bool} {now : Int} {d : DataDir} {r : Removal} :
    r ∈ housekeep sidecar now d ↔
      ∃ cs, d.listing r.sub = some cs ∧ (r.sub = .agents → sidecar = false) ∧
        ∃ c ∈ cs, Stale now r.sub c ∧ r.name = c.name ∧ r.recursive = recursiveFor r.sub := by
  unfold housekeep housekeepAgents housekeepCaches housekeepStaging
  simp only [List.mem_append]
  constructor
  · rintro ((h | h) | h)
    · cases hs : sidecar with
      | true => simp [hs] at h
      | false =>
        simp only [hs, Bool.not_false, if_true] at h
        cases ha : d.agents with
        | none => simp [ha] at h
        | some cs =>
          simp only [ha, mem_agentsLoop] at h
          obtain ⟨c, hc, st, h1, h2, rfl⟩ := h
          exact ⟨cs, ha, fun _ => rfl, c, hc, ⟨st, h1, h2⟩, rfl, rfl⟩
    · cases ha : d.caches with
      | none => simp [ha] at h
      | some cs =>
        simp only [ha, mem_cachesLoop] at h
        obtain ⟨c, hc, st, h1, h2, rfl⟩ := h
        exact ⟨cs, ha, (fun h => by cases h), c, hc, ⟨st, h1, h2⟩, rfl, rfl⟩
    · cases ha : d.staging with
      | none => simp [ha] at h
      | some cs =>
        simp only [ha, mem_stagingLoop] at h
        obtain ⟨c, hc, st, h1, h2, rfl⟩ := h
        exact ⟨cs, ha, (fun h => by cases h), c, hc, ⟨st, h1, h2⟩, rfl, rfl⟩
  · rintro ⟨cs, hl, hside, c, hc, hst, hn, hr⟩
    obtain ⟨sub, name, recursive⟩ := r
    simp only at hl hside hst hn hr
    subst hn hr
    cases sub with
    | agents =>
      left; left
      have := hside rfl
      subst this
      simp only [DataDir.listing] at hl
      obtain ⟨st, h1, h2⟩ := hst
      simp only [Bool.not_false, if_true, hl, mem_agentsLoop]
      exact ⟨c, hc, st, h1, h2, rfl⟩
    | caches =>
      left; right
      simp only [DataDir.listing] at hl
      obtain ⟨st, h1, h2⟩ := hst
      simp only [hl, mem_cachesLoop]
      exact ⟨c, hc, st, h1, h2, rfl⟩
    | staging =>
      right
      simp only [DataDir.listing] at hl
      obtain ⟨st, h1, h2⟩ := hst
      simp only [hl, mem_stagingLoop]
      exact ⟨c, hc, st, h1, h2, rfl⟩

theorem mem_survivors {rs : List Removal} {sub : Sub} {cs : List Child} {c : Child} :
    c ∈ survivors rs sub cs ↔ c ∈ cs ∧ ∀ r ∈ rs, ¬ (r.sub = sub ∧ r.name = c.name ∧ r.effective c = true) := by
  simp [survivors, List.mem_filter]

end Mutagen.Model.Housekeeping
