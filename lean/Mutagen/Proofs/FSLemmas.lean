import Mutagen.Model.TransitionFS
import Mutagen.Proofs.Assoc
/-!
Lemmas about the abstract filesystem of `Mutagen.Model.TFS`: path resolution
(`Node.get`), the directory update (`Node.updDir`) and the frame property of
every primitive operation — an operation on the entry `name` of the directory
`h` changes nothing that is not at or below `h ++ [name]`.
-/
namespace Mutagen.Proofs.FS
open Mutagen.Model Mutagen.Model.TFS Mutagen.Proofs.Assoc

/-- A node without its children: what must stay identical for a node to count
as untouched (for a file this is everything: content, permissions, time and
identity). -/
inductive Shallow where
  | dir (perm : Nat)
  | file (data : List UInt8) (perm : Nat) (mtime : Nat) (ino : Nat)
  | symlink (target : String)
  | other
  deriving DecidableEq, Repr

def shallow : Node → Shallow
  | .dir p _ => .dir p
  | .file d p m i => .file d p m i
  | .symlink t => .symlink t
  | .other => .other

/-- The shallow node at a path below `top` (`none`: nothing there). -/
def sget (top : Node) (q : List Name) : Option Shallow := (top.get q).map shallow

theorem get_nil (top : Node) : top.get [] = some top := by
  cases top <;> rfl

theorem get_cons_dir (p : Nat) (cs : Kids) (n : Name) (r : List Name) :
    (Node.dir p cs).get (n :: r) = (aget n cs).bind (·.get r) := by
  simp only [Node.get]
  cases aget n cs <;> rfl

theorem get_cons_nondir (top : Node) (n : Name) (r : List Name) (h : top.isDir = false) :
    top.get (n :: r) = none := by
  cases top <;> simp_all [Node.get, Node.isDir]

theorem get_append (top : Node) (a b : List Name) :
    top.get (a ++ b) = (top.get a).bind (·.get b) := by
  induction a generalizing top with
  | nil => simp [get_nil]
  | cons n r ih =>
    cases top with
    | dir p cs =>
      simp only [List.cons_append, get_cons_dir]
      cases aget n cs with
      | none => rfl
      | some c => simpa using ih c
    | file d p m i => simp [Node.get]
    | symlink t => simp [Node.get]
    | other => simp [Node.get]

/-- Nothing lives below an empty position. -/
theorem get_none_of_prefix (top : Node) (a b : List Name) (h : top.get a = none) : top.get (a ++ b) = none := by
  simp [get_append, h]

/-- Nothing lives strictly below a non-directory. -/
theorem get_below_nondir (top nd : Node) (a : List Name) (n : Name) (r : List Name)
    (h : top.get a = some nd) (hd : nd.isDir = false) : top.get (a ++ n :: r) = none := by
  simp [get_append, h, get_cons_nondir nd n r hd]

theorem dirAt_eq (top : Node) (h : Handle) (cs : Kids) :
    dirAt top h = some cs ↔ ∃ p, top.get h = some (.dir p cs) := by
  unfold dirAt
  split
  · rename_i p cs' heq
    constructor
    · rintro h'; cases h'; exact ⟨p, heq⟩
    · rintro ⟨p', hp⟩; rw [heq] at hp; cases hp; rfl
  · rename_i hne
    constructor
    · intro h'; cases h'
    · rintro ⟨p, hp⟩; exact absurd hp (hne p cs)

/-- What `updDir` does at the directory itself. -/
theorem updDir_at (top top' : Node) (h : Handle) (f : Kids → Option Kids) (hu : top.updDir h f = some top') :
    ∃ p cs cs', top.get h = some (.dir p cs) ∧ f cs = some cs' ∧ top'.get h = some (.dir p cs') := by
  induction h generalizing top top' with
  | nil =>
    cases top with
    | dir p cs =>
      simp only [Node.updDir, Option.map_eq_some_iff] at hu
      obtain ⟨cs', hf, rfl⟩ := hu
      exact ⟨p, cs, cs', by simp [get_nil], hf, by simp [get_nil]⟩
    | file d p m i => simp [Node.updDir] at hu
    | symlink t => simp [Node.updDir] at hu
    | other => simp [Node.updDir] at hu
  | cons n r ih =>
    cases top with
    | dir p cs =>
      simp only [Node.updDir] at hu
      cases hc : aget n cs with
      | none => simp [hc] at hu
      | some c =>
        simp only [hc, Option.map_eq_some_iff] at hu
        obtain ⟨c', hc', rfl⟩ := hu
        obtain ⟨p', k, k', h1, h2, h3⟩ := ih c c' hc'
        refine ⟨p', k, k', ?_, h2, ?_⟩
        · simp [get_cons_dir, hc, h1]
        · simp [get_cons_dir, aget_aset_self, h3]
    | file d p m i => simp [Node.updDir] at hu
    | symlink t => simp [Node.updDir] at hu
    | other => simp [Node.updDir] at hu

/-- Frame of `updDir`, part 1: positions that do not have `h` as a prefix keep
their shallow node. -/
theorem updDir_frame_outside (top top' : Node) (h : Handle) (f : Kids → Option Kids)
    (hu : top.updDir h f = some top') (q : List Name) (hq : ¬ h <+: q) : sget top' q = sget top q := by
  induction h generalizing top top' q with
  | nil => exact absurd (List.nil_prefix) hq
  | cons n r ih =>
    cases top with
    | dir p cs =>
      simp only [Node.updDir] at hu
      cases hc : aget n cs with
      | none => simp [hc] at hu
      | some c =>
        simp only [hc, Option.map_eq_some_iff] at hu
        obtain ⟨c', hc', rfl⟩ := hu
        cases q with
        | nil => simp [sget, get_nil, shallow]
        | cons m q' =>
          simp only [sget, get_cons_dir]
          by_cases hm : n = m
          · subst hm
            have hq' : ¬ r <+: q' := fun hp => hq (by simpa using hp)
            have := ih c c' hc' q' hq'
            simpa [sget, aget_aset_self, hc] using this
          · simp [aget_aset_ne n m c' cs hm]
    | file d p m i => simp [Node.updDir] at hu
    | symlink t => simp [Node.updDir] at hu
    | other => simp [Node.updDir] at hu

/-- What `updDir` does below the directory: resolution continues in the new table. -/
theorem updDir_below (top top' : Node) (h : Handle) (f : Kids → Option Kids)
    (hu : top.updDir h f = some top') (p : Nat) (cs' : Kids) (hh : top'.get h = some (.dir p cs'))
    (m : Name) (r : List Name) : top'.get (h ++ m :: r) = (aget m cs').bind (·.get r) := by
  simp [get_append, hh, get_cons_dir]

/-- An update function that only touches the entry `name`. -/
def LocalAt (name : Name) (f : Kids → Option Kids) : Prop :=
  ∀ cs cs', f cs = some cs' → ∀ m, m ≠ name → aget m cs' = aget m cs

/-- **Frame property**: an update of entry `name` in directory `h` leaves the
shallow node at every position that is not at or below `h ++ [name]` unchanged. -/
theorem updDir_frame (top top' : Node) (h : Handle) (name : Name) (f : Kids → Option Kids)
    (hu : top.updDir h f = some top') (hl : LocalAt name f) (q : List Name) (hq : ¬ (h ++ [name]) <+: q) :
    sget top' q = sget top q := by
  by_cases hp : h <+: q
  · obtain ⟨q2, rfl⟩ := hp
    obtain ⟨p, cs, cs', h1, h2, h3⟩ := updDir_at top top' h f hu
    cases q2 with
    | nil => simp [sget, h1, h3, shallow]
    | cons m r =>
      have hm : m ≠ name := by
        rintro rfl
        apply hq
        exact ⟨r, by simp⟩
      simp only [sget, get_append, h1, h3, Option.bind_some, get_cons_dir, hl cs cs' h2 m hm]
  · exact updDir_frame_outside top top' h f hu q hp

theorem prefix_snoc_cases {α : Type} (h : List α) (n : α) (q : List α) (hq : (h ++ [n]) <+: q) :
    ∃ r, q = h ++ n :: r := by
  obtain ⟨r, rfl⟩ := hq
  exact ⟨r, by simp⟩

end Mutagen.Proofs.FS
