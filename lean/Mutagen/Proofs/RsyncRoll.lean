import Mutagen.Proofs.RsyncIdent
import Mutagen.Proofs.RsyncWeak
/-!
C19: inside the main loop of `Deltify` rolling the weak hash is the same as
recomputing it.
-/
namespace Mutagen.Proofs.Rsync
open Mutagen.Model.Rsync

/-! ## Rolling inside the main loop can be replaced by recomputation -/

section
variable {D : Type} [DecidableEq D] (H : List UInt8 → D)

/-- The block at the end of the buffer. -/
def window (bs : Nat) (buf : List UInt8) : List UInt8 := buf.drop (buf.length - bs)

/-- `loopEvents` with the weak hash of the search block recomputed from scratch
in every iteration instead of rolled. -/
def loopEventsRecompute (bs cap : Nat) (full : List (BlockHash D)) :
    Nat → List UInt8 → List UInt8 → List Event × List UInt8 × Exit
  | 0, _, buf => ([], buf, .fuel)
  | fuel + 1, t, buf =>
    if buf.isEmpty then
      if t.length < bs then ([], t, .ok)
      else
        let st := stepEvents H bs cap full (t.take bs) (weakHash (t.take bs) bs).1
        let r := loopEventsRecompute bs cap full fuel (t.drop bs) st.2
        (st.1 ++ r.1, r.2)
    else if buf.length < bs then ([], buf, .panic)
    else
      match t with
      | [] => ([], buf, .ok)
      | b :: t' =>
        let st := stepEvents H bs cap full (buf ++ [b]) (weakHash (window bs (buf ++ [b])) bs).1
        let r := loopEventsRecompute bs cap full fuel t' st.2
        (st.1 ++ r.1, r.2)

/-- The loop's weak hash parameters belong to the block at the end of the buffer. -/
def WeakInv (bs : Nat) (buf : List UInt8) (r1 r2 : UInt32) : Prop :=
  buf = [] ∨ (bs ≤ buf.length ∧ r1 = (weakHash (window bs buf) bs).2.1 ∧ r2 = (weakHash (window bs buf) bs).2.2)

theorem window_step (bs : Nat) (hbs : 0 < bs) (buf : List UInt8) (b : UInt8) (hl : bs ≤ buf.length) :
    ∃ w, window bs buf = buf.getD (buf.length - bs) 0 :: w ∧ window bs (buf ++ [b]) = w ++ [b] ∧
      (buf.getD (buf.length - bs) 0 :: w).length = bs := by
  have hlt : buf.length - bs < buf.length := by omega
  refine ⟨buf.drop (buf.length - bs + 1), ?_, ?_, ?_⟩
  · unfold window
    rw [List.getD_eq_getElem?_getD, List.getElem?_eq_getElem hlt, Option.getD_some]
    exact List.drop_eq_getElem_cons hlt
  · unfold window
    simp only [List.length_append, List.length_cons, List.length_nil]
    rw [show buf.length + (0 + 1) - bs = buf.length - bs + 1 by omega]
    rw [List.drop_append_of_le_length (by omega)]
  · simp only [List.length_cons, List.length_drop]; omega

theorem stepEvents_weakInv (bs cap : Nat) (full : List (BlockHash D)) (buf : List UInt8) (w r1 r2 : UInt32)
    (hl : bs ≤ buf.length)
    (h1 : r1 = (weakHash (window bs buf) bs).2.1) (h2 : r2 = (weakHash (window bs buf) bs).2.2) :
    WeakInv bs (stepEvents H bs cap full buf w).2 r1 r2 := by
  rcases stepEvents_buf_cases H bs cap full buf w with h | h | h
  · left; exact h
  · right
    rw [h]
    have hlen : (buf.drop (buf.length - bs)).length = bs := by simp only [List.length_drop]; omega
    refine ⟨by omega, ?_, ?_⟩
    · rw [h1]; unfold window; rw [hlen, Nat.sub_self, List.drop_zero]
    · rw [h2]; unfold window; rw [hlen, Nat.sub_self, List.drop_zero]
  · right; rw [h]; exact ⟨hl, h1, h2⟩

/-- **Inside `Deltify`'s main loop the rolled weak hash always equals the weak
hash of the block at the end of the buffer**: the loop with rolling computes
exactly what the loop with recomputation computes. -/
theorem loopEvents_eq_recompute (bs cap : Nat) (full : List (BlockHash D)) (hbs : 0 < bs)
    (fuel : Nat) (t buf : List UInt8) (r1 r2 : UInt32) (hinv : WeakInv bs buf r1 r2) :
    loopEvents H bs cap full fuel t buf r1 r2 = loopEventsRecompute H bs cap full fuel t buf := by
  induction fuel generalizing t buf r1 r2 with
  | zero => simp [loopEvents, loopEventsRecompute]
  | succ fuel ih =>
    unfold loopEvents loopEventsRecompute
    by_cases he : buf.isEmpty
    · simp only [he, if_true]
      by_cases ht : t.length < bs
      · simp [ht]
      · simp only [ht, if_false]
        have hlen : (t.take bs).length = bs := by simp only [List.length_take]; omega
        rw [ih _ _ _ _ (stepEvents_weakInv H bs cap full (t.take bs) _ _ _ (by omega)
          (by unfold window; rw [hlen, Nat.sub_self, List.drop_zero])
          (by unfold window; rw [hlen, Nat.sub_self, List.drop_zero]))]
    · have hne : buf ≠ [] := by simpa using he
      simp only [he, Bool.false_eq_true, if_false]
      by_cases hl : buf.length < bs
      · simp [hl]
      · simp only [hl, if_false]
        cases t with
        | nil => rfl
        | cons b t' =>
          simp only
          rcases hinv with h | ⟨hle, h1, h2⟩
          · exact absurd h hne
          · obtain ⟨w, hw1, hw2, hw3⟩ := window_step bs hbs buf b hle
            have hroll : rollWeakHash r1 r2 (buf.getD (buf.length - bs) 0) b bs =
                weakHash (window bs (buf ++ [b])) bs := by
              rw [h1, h2, hw1, hw2]
              exact roll_eq_recompute _ b w bs hw3
            rw [hroll]
            rw [ih _ _ _ _ (stepEvents_weakInv H bs cap full (buf ++ [b]) _ _ _
              (by simp only [List.length_append, List.length_cons, List.length_nil]; omega) rfl rfl)]

end
end Mutagen.Proofs.Rsync
