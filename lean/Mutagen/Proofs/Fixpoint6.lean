import Mutagen.Proofs.Fixpoint5
/-!
The C04 convergence theorem: a two-way reconciliation that plans no change
means both endpoints and the ancestor record the same entry at every path
outside conflicts and unsynchronizable content (`quiet_converged`).
-/
namespace Mutagen.Model

/-! ## A quiet two-way plan means the trees have converged -/

/-- No untracked, problematic, phantom or unknown-kind entry of `e` at `q` or at
a prefix of `q`. -/
def NoUnsyncAlong (e : Option Entry) (q : Path) : Prop :=
  ∀ q', q' <+: q → ∀ pr, pget e q' = some pr → pr.kind.synchronizable = true

theorem NoUnsyncAlong.child {e : Option Entry} {n : Name} {q : Path} (h : NoUnsyncAlong e (n :: q)) :
    NoUnsyncAlong (lookup n (contents e)) q := by
  intro q' hq' pr hpr
  exact h (n :: q') (by simpa using hq') pr (by rw [pget_cons]; exact hpr)

theorem NoUnsyncAlong.root_kind {e : Option Entry} {q : Path} (h : NoUnsyncAlong e q) (k : Kind)
    (hk : k.synchronizable = false) : isKind e k = false := by
  cases e with
  | none => rfl
  | some x =>
    have := h [] List.nil_prefix x.props (by simp [pget, getPath])
    cases hxk : x.props.kind == k with
    | false => simp [isKind, Entry.kind, hxk]
    | true =>
      have : x.props.kind = k := by simpa using hxk
      simp_all

/-- If a two-way reconciliation plans no change at all, then at every path that
is not at or below a conflict root and not at or below an unsynchronizable
entry of either endpoint, both endpoints and the ancestor record the same entry. -/
theorem quiet_converged (mode : Mode) (hm : mode = .twoWaySafe ∨ mode = .twoWayResolved)
    (path : Path) (a al be : Option Entry) :
    (reconcile mode path a al be).anc = [] → (reconcile mode path a al be).alpha = [] →
    (reconcile mode path a al be).beta = [] →
    ∀ q, (∀ c ∈ (reconcile mode path a al be).conflicts, ¬ c.root <+: path ++ q) →
      NoUnsyncAlong al q → NoUnsyncAlong be q → pget al q = pget a q ∧ pget be q = pget a q := by
  fun_induction reconcile mode path a al be with
  | case1 path ancestor alpha beta h1 =>
    intro _ _ _ q _ hα _
    have := hα.root_kind .problematic rfl
    simp [h1] at this
  | case2 path ancestor alpha beta h1 h2 =>
    intro _ _ _ q _ _ hβ
    have := hβ.root_kind .problematic rfl
    simp [h2] at this
  | case3 path ancestor alpha beta h1 h2 h3 h4 =>
    intro hanc; simp [Plan.ancChange] at hanc
  | case4 path ancestor alpha beta h1 h2 h3 h4 =>
    intro _ _ _ q _ hα hβ
    have ha : ancestor = none := by
      cases ancestor with
      | none => rfl
      | some x => simp at h4
    have h1' := hα.root_kind .untracked rfl
    have h2' := hβ.root_kind .untracked rfl
    simp only [h1', h2', Bool.or_false, Bool.and_eq_true, Option.isNone_iff_eq_none] at h3
    rw [ha, h3.1, h3.2]
    exact ⟨rfl, rfl⟩
  | case5 path ancestor alpha beta h1 h2 h3 h4 here anc' ih =>
    intro hanc hal hbe q hconf hα hβ
    have hh1 : here.alpha = [] := by simp only [here]; split <;> rfl
    have hh2 : here.beta = [] := by simp only [here]; split <;> rfl
    have hh3 : here.conflicts = [] := by simp only [here]; split <;> rfl
    simp only [Plan.append_anc, List.append_eq_nil_iff] at hanc
    have hs : shallowEq ancestor alpha = true := by
      cases hs : shallowEq ancestor alpha with
      | true => rfl
      | false =>
        have := hanc.1
        simp [here, hs, Plan.ancChange] at this
    have hanc' : anc' = ancestor := by simp [anc', ancestorForRecursion, hs]
    cases q with
    | nil =>
      have e1 : pget alpha [] = pget ancestor [] := (shallowEq_iff_pget.mp hs).symm
      exact ⟨e1, (shallowEq_iff_pget.mp h4).symm.trans e1⟩
    | cons n q' =>
      rw [pget_cons, pget_cons, pget_cons]
      by_cases hn : n ∈ nameUnion [contents anc', contents alpha, contents beta]
      · have hca : (reconcile mode (path ++ [n]) (lookup n (contents anc')) (lookup n (contents alpha))
            (lookup n (contents beta))).anc = [] := by
          have := hanc.2
          rw [Plan.concat_anc, List.flatMap_map, flatMap_eq_nil_iff'] at this
          exact this ⟨n, hn⟩ (List.mem_attach _ _)
        have hcal : (reconcile mode (path ++ [n]) (lookup n (contents anc')) (lookup n (contents alpha))
            (lookup n (contents beta))).alpha = [] := by
          have := hal
          rw [Plan.append_alpha, hh1, List.nil_append, Plan.concat_alpha, List.flatMap_map,
            flatMap_eq_nil_iff'] at this
          exact this ⟨n, hn⟩ (List.mem_attach _ _)
        have hcbe : (reconcile mode (path ++ [n]) (lookup n (contents anc')) (lookup n (contents alpha))
            (lookup n (contents beta))).beta = [] := by
          have := hbe
          rw [Plan.append_beta, hh2, List.nil_append, Plan.concat_beta, List.flatMap_map,
            flatMap_eq_nil_iff'] at this
          exact this ⟨n, hn⟩ (List.mem_attach _ _)
        have hcc : ∀ c ∈ (reconcile mode (path ++ [n]) (lookup n (contents anc')) (lookup n (contents alpha))
            (lookup n (contents beta))).conflicts, ¬ c.root <+: (path ++ [n]) ++ q' := by
          intro c hc
          have := hconf c (by
            simp only [Plan.append_conflicts, hh3, List.nil_append, Plan.concat_conflicts, List.flatMap_map,
              List.mem_flatMap, List.mem_attach, true_and]
            exact ⟨⟨n, hn⟩, hc⟩)
          simpa using this
        have := ih ⟨n, hn⟩ hca hcal hcbe q' hcc hα.child hβ.child
        have hl : lookup n (contents anc') = lookup n (contents ancestor) :=
          congrArg (fun x => lookup n (contents x)) hanc'
        rw [← hl]
        exact this
      · obtain ⟨l1, l2, l3⟩ := lookup_none_of_not_mem_union3 hn
        have hl : lookup n (contents anc') = lookup n (contents ancestor) :=
          congrArg (fun x => lookup n (contents x)) hanc'
        rw [← hl, l1, l2, l3]
        exact ⟨rfl, rfl⟩
  | case6 path ancestor alpha beta h1 h2 h3 h4 =>
    intro _ hal hbe q hconf _ _
    exfalso
    have hact : (handleDisagreement mode path ancestor alpha beta).actionPaths = [path] := by
      unfold handleDisagreement
      rcases hm with rfl | rfl <;> exact handleBidirectional_actions _ _ _ _ _
    simp only [Plan.actionPaths, hal, hbe, List.map_nil, List.nil_append] at hact
    cases hc : (handleDisagreement mode path ancestor alpha beta).conflicts with
    | nil => rw [hc] at hact; cases hact
    | cons c cs =>
      rw [hc] at hact
      simp only [List.map_cons, List.cons.injEq] at hact
      exact hconf c (by rw [hc]; simp) (by rw [hact.1]; exact List.prefix_append _ _)

/-- Along a path free of unsynchronizable entries the synchronizable filter is
the identity (valid trees). -/
theorem syncAlong_or_absent (q : Path) : ∀ e : Option Entry, NoUnsyncAlong e q →
    syncAlong e q = true ∨ pget e q = none := by
  induction q with
  | nil =>
    intro e h
    cases e with
    | none => right; rfl
    | some x => left; exact h [] List.nil_prefix x.props (by simp [pget, getPath])
  | cons n q ih =>
    intro e h
    cases e with
    | none => right; simp
    | some x =>
      have hx := h [] List.nil_prefix x.props (by simp [pget, getPath])
      rcases ih (lookup n (contents (some x))) h.child with h1 | h1
      · left; simp only [syncAlong, Entry.kind, hx, Bool.true_and]; exact h1
      · right; rw [pget_cons]; exact h1

theorem pget_osync_of_noUnsync {e : Option Entry} (hv : Valid e) {q : Path} (h : NoUnsyncAlong e q) :
    pget (osync e) q = pget e q := by
  rw [sync_pget e hv q]
  rcases syncAlong_or_absent q e h with h1 | h1
  · simp [h1]
  · rw [h1]; split <;> rfl

end Mutagen.Model
