import Mutagen.Model.StreamWriters
/-!
Helper lemmas for C47: the scripted downstream writer, then cutoff, hashing,
preemptable, valve writers and the multi-closer. (The line processor is in
`Mutagen.Proofs.StreamLines`.)
-/
namespace Mutagen.Proofs.StreamWriters
open Mutagen.Model.StreamWriters

/-! ### The downstream writer -/

theorem down_write (d : Down) (p : List UInt8) :
    (d.write p).2.1 ≤ p.length ∧
    (d.write p).1.got = d.got ++ p.take (d.write p).2.1 ∧
    (d.write p).1.offers = d.offers ++ [p.length] := by
  unfold Down.write
  cases d.script with
  | nil => simp
  | cons r rest => exact ⟨Nat.min_le_right _ _, rfl, rfl⟩

theorem down_write_conforming (d : Down) (h : d.Conforming) (p : List UInt8) :
    (d.write p).1.Conforming ∧ ((d.write p).2.2 = false → (d.write p).2.1 = p.length) := by
  unfold Down.write
  cases hs : d.script with
  | nil =>
    refine ⟨?_, fun _ => rfl⟩
    intro r hr
    simp at hr
  | cons r rest =>
    show Down.Conforming ⟨rest, _, _⟩ ∧ ((r.fail || (!r.lax && decide (min r.accept p.length < p.length))) = false →
      min r.accept p.length = p.length)
    have hr : r.lax = false := h r (by rw [hs]; exact List.mem_cons_self)
    constructor
    · intro r' hr'
      exact h r' (by rw [hs]; exact List.mem_cons_of_mem _ hr')
    · intro hf
      simp only [hr, Bool.not_false, Bool.true_and, Bool.or_eq_false_iff, decide_eq_false_iff_not] at hf
      have := Nat.min_le_right r.accept p.length
      omega

theorem peerErr_none (f : Bool) : peerErr f = .none ↔ f = false := by
  cases f <;> simp [peerErr]

theorem peerErr_cases (f : Bool) : peerErr f = .none ∨ peerErr f = .peer := by
  cases f <;> simp [peerErr]

/-! ### Cutoff writer -/

/-- One `Write` on the cutoff writer. -/
theorem cutoff_write (w : Cutoff) (hc : w.down.Conforming) (buf : List UInt8) :
    (w.write buf).1.down.Conforming ∧
    (w.write buf).2.1 ≤ buf.length ∧
    (w.write buf).1.down.got = w.down.got ++ (buf.take (w.write buf).2.1).take w.cutoff ∧
    (w.write buf).1.cutoff = w.cutoff - ((buf.take (w.write buf).2.1).take w.cutoff).length ∧
    ((w.write buf).2.2 = .none → (w.write buf).2.1 = buf.length) ∧
    ((w.write buf).2.2 = .none ∨ (w.write buf).2.2 = .peer) := by
  unfold Cutoff.write
  by_cases h0 : w.cutoff = 0
  · rw [if_pos h0]
    simp [h0, hc]
  · rw [if_neg h0]
    by_cases hfit : buf.length ≤ w.cutoff
    · rw [if_pos hfit]
      obtain ⟨d1, d2, _⟩ := down_write w.down buf
      obtain ⟨c1, c2⟩ := down_write_conforming w.down hc buf
      generalize w.down.write buf = r at d1 d2 c1 c2
      obtain ⟨d', n, failed⟩ := r
      simp only at d1 d2 c1 c2 ⊢
      have ht : (buf.take n).take w.cutoff = buf.take n := by
        rw [List.take_take]; congr 1; omega
      refine ⟨c1, d1, by rw [ht, d2], by rw [ht, List.length_take]; omega, ?_, peerErr_cases failed⟩
      intro he
      exact c2 ((peerErr_none failed).mp he)
    · rw [if_neg hfit]
      obtain ⟨d1, d2, _⟩ := down_write w.down (buf.take w.cutoff)
      obtain ⟨c1, c2⟩ := down_write_conforming w.down hc (buf.take w.cutoff)
      generalize w.down.write (buf.take w.cutoff) = r at d1 d2 c1 c2
      obtain ⟨d', n, failed⟩ := r
      simp only at d1 d2 c1 c2
      have hlen : (buf.take w.cutoff).length = w.cutoff := by rw [List.length_take]; omega
      rw [hlen] at d1 c2
      cases failed with
      | true =>
        dsimp only
        rw [if_pos rfl]
        have ht : (buf.take n).take w.cutoff = buf.take n := by
          rw [List.take_take]; congr 1; omega
        have ht2 : (buf.take w.cutoff).take n = buf.take n := by
          rw [List.take_take]; congr 1; omega
        refine ⟨c1, by show n ≤ buf.length; omega, ?_, ?_, ?_, .inr rfl⟩
        · show d'.got = _ ++ (buf.take n).take w.cutoff
          rw [ht, d2, ht2]
        · show w.cutoff - n = _ - ((buf.take n).take w.cutoff).length
          rw [ht, List.length_take]; omega
        · intro hcontra; simp at hcontra
      | false =>
        have hn : n = w.cutoff := c2 rfl
        dsimp only
        rw [if_neg (by decide)]
        have ht : (buf.take buf.length).take w.cutoff = buf.take w.cutoff := by
          rw [List.take_take]; congr 1; omega
        have ht2 : (buf.take w.cutoff).take n = buf.take w.cutoff := by
          rw [List.take_take]; congr 1; omega
        refine ⟨c1, Nat.le_refl _, ?_, ?_, fun _ => rfl, .inl rfl⟩
        · show d'.got = _ ++ (buf.take buf.length).take w.cutoff
          rw [ht, d2, ht2]
        · show w.cutoff - n = _ - ((buf.take buf.length).take w.cutoff).length
          rw [ht, hlen]; omega

theorem take_split (a b : List UInt8) (c : Nat) :
    a.take c ++ b.take (c - (a.take c).length) = (a ++ b).take c := by
  rw [List.take_append, List.length_take]
  congr 2
  omega

/-- A whole write sequence on the cutoff writer. -/
theorem cutoff_run (bufs : List (List UInt8)) : ∀ (w : Cutoff), w.down.Conforming →
    (w.run bufs).1.down.got = w.down.got ++ (consumed bufs (w.run bufs).2).take w.cutoff ∧
    (w.run bufs).1.cutoff = w.cutoff - ((consumed bufs (w.run bufs).2).take w.cutoff).length ∧
    (w.run bufs).2.length = bufs.length ∧
    (∀ (i : Nat) (b : List UInt8) (r : Nat × Err), bufs[i]? = some b → (w.run bufs).2[i]? = some r →
      r.1 ≤ b.length ∧ (r.2 = .none → r.1 = b.length) ∧ (r.2 = .none ∨ r.2 = .peer)) := by
  induction bufs with
  | nil => intro w _; simp [Cutoff.run, consumed]
  | cons b bs ih =>
    intro w hc
    obtain ⟨s1, s2, s3, s4, s5, s6⟩ := cutoff_write w hc b
    obtain ⟨r1, r2, r3, r4⟩ := ih (w.write b).1 s1
    have hrun : w.run (b :: bs) = (((w.write b).1.run bs).1, ((w.write b).2.1, (w.write b).2.2) :: ((w.write b).1.run bs).2) := rfl
    rw [hrun]
    simp only [consumed]
    refine ⟨?_, ?_, by simp [r3], ?_⟩
    · rw [r1, s3, s4, List.append_assoc, take_split]
    · rw [r2, s4, ← take_split, List.length_append]; omega
    · intro i b' r hb hr
      cases i with
      | zero =>
        simp only [List.getElem?_cons_zero, Option.some.injEq] at hb hr
        subst hb hr
        exact ⟨s2, s5, s6⟩
      | succ i =>
        simp only [List.getElem?_cons_succ] at hb hr
        exact r4 i b' r hb hr

/-! ### Hashing writer -/

theorem hashed_write (w : Hashed) (data : List UInt8) :
    (w.write data).1.hashed = w.hashed ++ ((w.write data).1.down.got.drop w.down.got.length) ∧
    (w.write data).1.down = (w.down.write data).1 ∧
    (w.write data).2 = ((w.down.write data).2.1, peerErr (w.down.write data).2.2) := by
  obtain ⟨_, d2, _⟩ := down_write w.down data
  unfold Hashed.write
  generalize w.down.write data = r at d2
  obtain ⟨d', n, failed⟩ := r
  simp only at d2
  refine ⟨?_, rfl, rfl⟩
  show w.hashed ++ data.take n = w.hashed ++ d'.got.drop w.down.got.length
  rw [d2, List.drop_left]

theorem hashed_run (bufs : List (List UInt8)) : ∀ (w : Hashed), w.hashed = w.down.got →
    (w.run bufs).1.hashed = (w.run bufs).1.down.got ∧
    ((w.run bufs).1.down, (w.run bufs).2) = w.down.run bufs := by
  induction bufs with
  | nil => intro w h; exact ⟨h, rfl⟩
  | cons b bs ih =>
    intro w h
    obtain ⟨s1, s2, s3⟩ := hashed_write w b
    obtain ⟨_, d2, _⟩ := down_write w.down b
    have hnext : (w.write b).1.hashed = (w.write b).1.down.got := by
      rw [s1, h, s2, d2, List.drop_left]
    obtain ⟨r1, r2⟩ := ih (w.write b).1 hnext
    have hrun : w.run (b :: bs) = (((w.write b).1.run bs).1, ((w.write b).2.1, (w.write b).2.2) :: ((w.write b).1.run bs).2) := rfl
    have hdrun : w.down.run (b :: bs) = (((w.down.write b).1.run bs).1,
        ((w.down.write b).2.1, peerErr (w.down.write b).2.2) :: ((w.down.write b).1.run bs).2) := rfl
    rw [hrun, hdrun]
    refine ⟨r1, ?_⟩
    rw [← s2, ← r2, s3]

/-! ### Valve writer -/

theorem valve_open_write (w : Valve) (h : w.isOpen = true) (buf : List UInt8) :
    (w.write buf).1.isOpen = true ∧ (w.write buf).1.down = (w.down.write buf).1 ∧
    (w.write buf).2 = ((w.down.write buf).2.1, peerErr (w.down.write buf).2.2) := by
  simp [Valve.write, h]

theorem valve_shut_write (w : Valve) (h : w.isOpen = false) (buf : List UInt8) :
    w.write buf = (w, buf.length, .none) := by
  simp [Valve.write, h]

/-- Only writes. -/
def onlyWrites : List ValveOp → Option (List (List UInt8))
  | [] => some []
  | .write b :: rest => (onlyWrites rest).map (b :: ·)
  | .shut :: _ => none

theorem valve_open_run (ops : List ValveOp) : ∀ (w : Valve) (bufs : List (List UInt8)),
    w.isOpen = true → onlyWrites ops = some bufs →
    (w.run ops).1.isOpen = true ∧ ((w.run ops).1.down, (w.run ops).2) = w.down.run bufs := by
  induction ops with
  | nil =>
    intro w bufs h ho
    simp [onlyWrites] at ho; subst ho
    exact ⟨h, rfl⟩
  | cons op rest ih =>
    intro w bufs h ho
    cases op with
    | shut => simp [onlyWrites] at ho
    | write b =>
      simp only [onlyWrites, Option.map_eq_some_iff] at ho
      obtain ⟨bs, hbs, rfl⟩ := ho
      obtain ⟨s1, s2, s3⟩ := valve_open_write w h b
      obtain ⟨r1, r2⟩ := ih (w.write b).1 bs s1 hbs
      have hrun : w.run (.write b :: rest) = (((w.write b).1.run rest).1,
          ((w.write b).2.1, (w.write b).2.2) :: ((w.write b).1.run rest).2) := rfl
      have hdrun : w.down.run (b :: bs) = (((w.down.write b).1.run bs).1,
          ((w.down.write b).2.1, peerErr (w.down.write b).2.2) :: ((w.down.write b).1.run bs).2) := rfl
      rw [hrun, hdrun]
      refine ⟨r1, ?_⟩
      rw [← s2, ← r2, s3]

/-- What every write reports once the valve is shut. -/
def shutResults : List ValveOp → List (Nat × Err)
  | [] => []
  | .write b :: rest => (b.length, .none) :: shutResults rest
  | .shut :: rest => shutResults rest

theorem valve_shut_run (ops : List ValveOp) : ∀ (w : Valve), w.isOpen = false →
    w.run ops = (w, shutResults ops) := by
  induction ops with
  | nil => intro w _; rfl
  | cons op rest ih =>
    intro w h
    cases op with
    | shut =>
      have : w.shut = w := by cases w; simp [Valve.shut] at h ⊢; exact h
      show w.shut.run rest = _
      rw [this, ih w h]; rfl
    | write b =>
      have hrun : w.run (.write b :: rest) = (((w.write b).1.run rest).1,
          ((w.write b).2.1, (w.write b).2.2) :: ((w.write b).1.run rest).2) := rfl
      rw [hrun, valve_shut_write w h b]
      simp only [ih w h, shutResults]

/-! ### Preemptable writer -/

/-- Number of downstream `Write` calls so far. -/
def calls (d : Down) : Nat := d.offers.length

theorem preempt_write (w : Preempt) (c : Bool) (data : List UInt8) (hinv : w.writeCount ≤ w.checkInterval) :
    (w.write c data).1.checkInterval = w.checkInterval ∧
    (w.write c data).1.writeCount ≤ w.checkInterval ∧
    -- either the write is preempted: nothing happens …
    (((w.write c data) = (w, 0, .preempted) ∧ c = true ∧ w.writeCount = w.checkInterval) ∨
    -- … or it is passed through unchanged
     ((w.write c data).1.down = (w.down.write data).1 ∧
      (w.write c data).2 = ((w.down.write data).2.1, peerErr (w.down.write data).2.2) ∧
      (c = true → w.writeCount < w.checkInterval ∧ (w.write c data).1.writeCount = w.writeCount + 1))) := by
  unfold Preempt.write
  by_cases he : w.writeCount = w.checkInterval
  · rw [if_pos he]
    cases c with
    | true => simp [he]
    | false =>
      rw [if_neg (by decide)]
      exact ⟨rfl, Nat.zero_le _, .inr ⟨rfl, rfl, by simp⟩⟩
  · rw [if_neg he]
    refine ⟨rfl, by show w.writeCount + 1 ≤ _; omega, .inr ⟨rfl, rfl, fun _ => ⟨by omega, rfl⟩⟩⟩

/-- Before cancellation the preemptable writer is transparent. -/
theorem preempt_uncancelled_run (sched : List (Bool × List UInt8)) : ∀ (w : Preempt),
    w.writeCount ≤ w.checkInterval → (∀ s ∈ sched, s.1 = false) →
    (w.run sched).1.writeCount ≤ w.checkInterval ∧
    (w.run sched).1.checkInterval = w.checkInterval ∧
    ((w.run sched).1.down, (w.run sched).2) = w.down.run (sched.map Prod.snd) := by
  induction sched with
  | nil => intro w h _; exact ⟨h, rfl, rfl⟩
  | cons s rest ih =>
    intro w h hs
    obtain ⟨c, b⟩ := s
    have hc : c = false := hs (c, b) List.mem_cons_self
    subst hc
    obtain ⟨p1, p2, p3⟩ := preempt_write w false b h
    rcases p3 with ⟨_, hf, _⟩ | ⟨q1, q2, _⟩
    · simp at hf
    · obtain ⟨r1, r2, r3⟩ := ih (w.write false b).1 (by rw [p1]; exact p2)
        (fun s hs' => hs s (List.mem_cons_of_mem _ hs'))
      have hrun : w.run ((false, b) :: rest) = (((w.write false b).1.run rest).1,
          ((w.write false b).2.1, (w.write false b).2.2) :: ((w.write false b).1.run rest).2) := rfl
      have hdrun : w.down.run (b :: rest.map Prod.snd) = (((w.down.write b).1.run (rest.map Prod.snd)).1,
          ((w.down.write b).2.1, peerErr (w.down.write b).2.2) :: ((w.down.write b).1.run (rest.map Prod.snd)).2) := rfl
      rw [hrun, List.map_cons, hdrun]
      rw [p1] at r1 r2
      refine ⟨r1, r2, ?_⟩
      rw [← q1, ← r3, q2]

theorem down_write_calls (d : Down) (p : List UInt8) : calls (d.write p).1 = calls d + 1 := by
  unfold calls
  rw [(down_write d p).2.2, List.length_append]; rfl

/-- After cancellation at most `checkInterval - writeCount` further writes reach
the downstream writer, and once a write is preempted every later one is. -/
theorem preempt_cancelled_run (sched : List (Bool × List UInt8)) : ∀ (w : Preempt),
    w.writeCount ≤ w.checkInterval → (∀ s ∈ sched, s.1 = true) →
    calls (w.run sched).1.down + w.writeCount ≤ calls w.down + w.checkInterval ∧
    (∀ i, (w.run sched).2[i]? = some (0, .preempted) →
      ∀ j, i ≤ j → j < sched.length → (w.run sched).2[j]? = some (0, .preempted)) := by
  induction sched with
  | nil => intro w h _; exact ⟨by simp [Preempt.run]; omega, by simp [Preempt.run]⟩
  | cons s rest ih =>
    intro w h hs
    obtain ⟨c, b⟩ := s
    have hc : c = true := hs (c, b) List.mem_cons_self
    subst hc
    have hrest : ∀ s ∈ rest, s.1 = true := fun s hs' => hs s (List.mem_cons_of_mem _ hs')
    have hrun : w.run ((true, b) :: rest) = (((w.write true b).1.run rest).1,
        ((w.write true b).2.1, (w.write true b).2.2) :: ((w.write true b).1.run rest).2) := rfl
    obtain ⟨p1, p2, p3⟩ := preempt_write w true b h
    rcases p3 with ⟨hw, _, hfull⟩ | ⟨q1, q2, q3⟩
    · -- preempted now: the state does not change, and by induction never will
      rw [hrun, hw]
      simp only
      obtain ⟨r1, r2⟩ := ih w h hrest
      refine ⟨r1, ?_⟩
      -- every later write is preempted as well
      have hall : ∀ (rest : List (Bool × List UInt8)), (∀ s ∈ rest, s.1 = true) →
          ∀ j, j < rest.length → (w.run rest).2[j]? = some (0, .preempted) := by
        intro rest'
        induction rest' with
        | nil => intro _ j hj; simp at hj
        | cons s' rest'' ih' =>
          intro hs'' j hj
          obtain ⟨c', b'⟩ := s'
          have hc' : c' = true := hs'' (c', b') List.mem_cons_self
          subst hc'
          have hw' : w.write true b' = (w, 0, .preempted) := by
            simp [Preempt.write, hfull]
          have hrun' : w.run ((true, b') :: rest'') = (((w.write true b').1.run rest'').1,
              ((w.write true b').2.1, (w.write true b').2.2) :: ((w.write true b').1.run rest'').2) := rfl
          rw [hrun', hw']
          cases j with
          | zero => rfl
          | succ j =>
            simp only [List.getElem?_cons_succ]
            exact ih' (fun s hs''' => hs'' s (List.mem_cons_of_mem _ hs''')) j (by simpa using hj)
      intro i _ j hij hj
      cases j with
      | zero => rfl
      | succ j =>
        simp only [List.getElem?_cons_succ]
        exact hall rest hrest j (by simpa using hj)
    · obtain ⟨q3a, q3b⟩ := q3 rfl
      obtain ⟨r1, r2⟩ := ih (w.write true b).1 (by rw [p1]; exact p2) hrest
      rw [hrun]
      simp only
      rw [q1, down_write_calls, p1, q3b] at r1
      refine ⟨by omega, ?_⟩
      intro i hi j hij hj
      cases i with
      | zero =>
        -- the first write was passed through, so it is not a preempted one unless the peer says so
        simp only [List.getElem?_cons_zero, Option.some.injEq] at hi
        have : (w.write true b).2.2 = peerErr (w.down.write b).2.2 := by rw [q2]
        have hp := peerErr_cases (w.down.write b).2.2
        rw [← this] at hp
        have h2 : (w.write true b).2.2 = .preempted := by
          have := congrArg Prod.snd hi; exact this
        rw [h2] at hp
        rcases hp with hp | hp <;> simp at hp
      | succ i =>
        cases j with
        | zero => omega
        | succ j =>
          simp only [List.getElem?_cons_succ] at hi ⊢
          exact r2 i hi j (by omega) (by simpa using hj)

/-- After cancellation the write number `checkInterval - writeCount` (counting
from 0) is preempted at the latest. -/
theorem preempt_deadline (sched : List (Bool × List UInt8)) : ∀ (w : Preempt),
    w.writeCount ≤ w.checkInterval → (∀ s ∈ sched, s.1 = true) →
    w.checkInterval - w.writeCount < sched.length →
    (w.run sched).2[w.checkInterval - w.writeCount]? = some (0, .preempted) := by
  induction sched with
  | nil => intro w _ _ hl; simp at hl
  | cons s rest ih =>
    intro w h hs hl
    obtain ⟨c, b⟩ := s
    have hc : c = true := hs (c, b) List.mem_cons_self
    subst hc
    have hrest : ∀ s ∈ rest, s.1 = true := fun s hs' => hs s (List.mem_cons_of_mem _ hs')
    have hrun : w.run ((true, b) :: rest) = (((w.write true b).1.run rest).1,
        ((w.write true b).2.1, (w.write true b).2.2) :: ((w.write true b).1.run rest).2) := rfl
    obtain ⟨p1, p2, p3⟩ := preempt_write w true b h
    rcases p3 with ⟨hw, _, hfull⟩ | ⟨q1, q2, q3⟩
    · rw [hrun, hw, hfull, Nat.sub_self]
      rfl
    · obtain ⟨q3a, q3b⟩ := q3 rfl
      have := ih (w.write true b).1 (by rw [p1]; exact p2) hrest
        (by rw [p1, q3b]; simp only [List.length_cons] at hl; omega)
      rw [p1, q3b] at this
      rw [hrun]
      have hidx : w.checkInterval - w.writeCount = (w.checkInterval - (w.writeCount + 1)) + 1 := by omega
      rw [hidx, List.getElem?_cons_succ]
      exact this

/-! ### Multi-closer -/

theorem multiClose_spec (closers : List (Option Nat)) : ∀ (called : List Nat) (i : Nat) (firstErr : Option Nat),
    (multiClose closers called i firstErr).1 = called ++ List.range' i closers.length ∧
    (multiClose closers called i firstErr).2 =
      (match firstErr with | some e => some e | none => closers.findSome? id) := by
  induction closers with
  | nil => intro called i firstErr; cases firstErr <;> simp [multiClose]
  | cons c rest ih =>
    intro called i firstErr
    simp only [multiClose]
    obtain ⟨h1, h2⟩ := ih (called ++ [i]) (i + 1) (if c ≠ none ∧ firstErr = none then c else firstErr)
    rw [h1, h2]
    constructor
    · simp [List.range'_succ]
    · cases firstErr with
      | some e => simp
      | none =>
        cases c with
        | none => simp
        | some e => simp

end Mutagen.Proofs.StreamWriters
