import Mutagen.Proofs.Ring
/-!
C26: what the relational specifications of `ReadNFrom` / `WriteTo` imply for
the caller, and the fuel lemmas for `writeLoop` / `readLoop`.
-/
namespace Mutagen.Proofs.Ring
open Mutagen.Model.Ring

theorem readNLoop_facts {cap : Nat} {q : List UInt8} {script : List ReadResp} {n result : Nat} {err : Err}
    {out : List UInt8 × Nat × Nat × Err}
    (h : Queue.ReadNLoop cap q script n result err out) (hq : q.length ≤ cap) :
    ∃ delivered, Chunks script delivered ∧ out.1 = q ++ delivered ∧
      out.2.1 + delivered.length = n ∧ out.2.2.1 = result + delivered.length ∧
      out.1.length ≤ cap ∧
      ¬(out.2.1 > 0 ∧ out.1.length ≠ cap ∧ out.2.2.2 = .none) ∧
      (out.2.2.2 = err ∨ (out.2.2.2 = .eof ∧ out.1.length ≠ cap) ∨ ∃ r ∈ script, out.2.2.2 = r.err) := by
  induction h with
  | done hc => exact ⟨[], .nil, by simp, by simp, by simp, hq, hc, .inl rfl⟩
  | exhausted hc => exact ⟨[], .nil, by simp, by simp, by simp, hq, by simp, .inr (.inl ⟨rfl, hc.2.1⟩)⟩
  | @call q r rest n result err out offer hc h1 h2 h3 _ ih =>
    have hl : (r.bytes.take offer).length ≤ offer := by rw [List.length_take]; omega
    obtain ⟨d, c1, c2, c3, c4, c5, c6, c7⟩ := ih (by rw [List.length_append]; omega)
    refine ⟨r.bytes.take offer ++ d, .cons offer c1, by rw [c2, List.append_assoc], ?_, ?_, c5, c6, ?_⟩
    · rw [List.length_append]; omega
    · rw [c4, List.length_append]; omega
    · rcases c7 with c7 | c7 | ⟨r', hr', c7⟩
      · exact .inr (.inr ⟨r, List.mem_cons_self, c7⟩)
      · exact .inr (.inl c7)
      · exact .inr (.inr ⟨r', List.mem_cons_of_mem _ hr', c7⟩)

/-- The error post-processing at the end of `ReadNFrom`. -/
def postErr (n' : Nat) (atCap : Prop) [Decidable atCap] (e0 : Err) : Err :=
  let e := if n' > 0 ∧ atCap ∧ e0 = .none then Err.full else e0
  if e = .eof ∧ n' = 0 then Err.none else e

theorem readNFrom_facts {q q' : Queue} {script : List ReadResp} {n c : Nat} {e : Err}
    (h : q.ReadNFrom script n (q', c, e)) (hq : q.data.length ≤ q.cap) :
    ∃ delivered, Chunks script delivered ∧ q'.data = q.data ++ delivered ∧ q'.cap = q.cap ∧
      c = delivered.length ∧ c ≤ n ∧ q'.data.length ≤ q.cap ∧
      (e = .none → c = n) ∧ (c = n → e ≠ .eof) ∧
      (e = .full → (∀ r ∈ script, r.err ≠ .full) → c < n ∧ q'.data.length = q.cap) ∧
      (c < n → q'.data.length = q.cap → (∀ r ∈ script, r.err = .none) → e = .full) := by
  obtain ⟨d, n', r, e0, hl, hres⟩ := h
  obtain ⟨dl, c1, c2, c3, c4, c5, c6, c7⟩ := readNLoop_facts hl hq
  simp only at c2 c3 c4 c5 c6 c7
  simp only [Prod.mk.injEq] at hres
  obtain ⟨rq, rc, re⟩ := hres
  have hE : e = postErr n' (d.length = q.cap) e0 := re
  clear re
  subst rq rc
  refine ⟨dl, c1, c2, rfl, by omega, by omega, c5, ?_, ?_, ?_, ?_⟩
  · intro he
    rw [hE] at he
    have : n' = 0 := by
      false_or_by_contra
      rename_i hn
      cases e0 <;> by_cases hd : d.length = q.cap <;> simp_all [postErr]
    omega
  · intro hcn
    have hn' : n' = 0 := by omega
    rw [hE]
    cases e0 <;> simp [postErr, hn']
  · intro he hscript
    rw [hE] at he
    show c < n ∧ d.length = q.cap
    cases e0 with
    | none =>
      by_cases hf : n' > 0 ∧ d.length = q.cap
      · exact ⟨by omega, hf.2⟩
      · exfalso; simp [postErr, hf] at he
    | full =>
      exfalso
      rcases c7 with c7 | c7 | ⟨r', hr', c7⟩
      · simp at c7
      · simp at c7
      · exact hscript r' hr' c7.symm
    | eof => exfalso; by_cases hn : n' = 0 <;> simp [postErr, hn] at he
    | peer => exfalso; simp [postErr] at he
  · intro hcn hfull hscript
    have hfull' : d.length = q.cap := hfull
    have he0 : e0 = .none := by
      rcases c7 with c7 | c7 | ⟨r', hr', c7⟩
      · exact c7
      · exact absurd hfull' c7.2
      · rw [c7]; exact hscript r' hr'
    rw [hE, he0]
    have : n' > 0 := by omega
    simp [postErr, this, hfull']

theorem writeToLoop_facts {q : List UInt8} {script : List WriteResp} {acc : List UInt8} {err : Err}
    {out : List UInt8 × List UInt8 × Err}
    (h : Queue.WriteToLoop q script acc err out) :
    out.2.1 ++ out.1 = acc ++ q ∧
    ¬(out.1.length > 0 ∧ out.2.2 = .none) ∧
    (out.2.2 = err ∨ out.2.2 = .peer ∨ out.2.2 = .none) := by
  induction h with
  | done hc => exact ⟨rfl, hc, .inl rfl⟩
  | exhausted hc => exact ⟨rfl, by simp, .inr (.inl rfl)⟩
  | @call q r rest acc err out offer hc h1 h2 _ ih =>
    obtain ⟨c1, c2, c3⟩ := ih
    refine ⟨?_, c2, ?_⟩
    · rw [c1, List.append_assoc, List.take_append_drop]
    · rcases c3 with c3 | c3 | c3
      · rw [c3]; split
        · exact .inr (.inl rfl)
        · exact .inr (.inr rfl)
      · exact .inr (.inl c3)
      · exact .inr (.inr c3)

theorem writeTo_facts {q q' : Queue} {script : List WriteResp} {out : List UInt8} {e : Err}
    (h : q.WriteTo script (q', out, e)) :
    q.data = out ++ q'.data ∧ q'.cap = q.cap ∧ (e = .none → q'.data = []) ∧ (e = .none ∨ e = .peer) := by
  obtain ⟨d, hl, hq⟩ := h
  obtain ⟨c1, c2, c3⟩ := writeToLoop_facts hl
  simp only at hq c1 c2 c3
  subst hq
  refine ⟨by simpa using c1.symm, rfl, ?_, ?_⟩
  · intro he
    show d = []
    apply List.eq_nil_of_length_eq_zero
    false_or_by_contra
    exact c2 ⟨by omega, he⟩
  · rcases c3 with c3 | c3 | c3
    · exact .inl c3
    · exact .inr c3
    · exact .inl c3

/-! ### The capacity never changes -/

theorem step_cap {q : Queue} {op : Op} {q' : Queue} {o : Out} (h : q.Step op (q', o)) : q'.cap = q.cap := by
  cases op with
  | write d => simp only [Queue.Step, Queue.write, Prod.mk.injEq] at h; rw [h.1]
  | writeByte v =>
    simp only [Queue.Step, Queue.writeByte] at h
    split at h <;> (simp only [Prod.mk.injEq] at h; rw [h.1])
  | read len =>
    simp only [Queue.Step, Queue.read] at h
    split at h
    · simp only [Prod.mk.injEq] at h; rw [h.1]
    · split at h <;> (simp only [Prod.mk.injEq] at h; rw [h.1])
  | readByte =>
    simp only [Queue.Step, Queue.readByte] at h
    split at h <;> (simp only [Prod.mk.injEq] at h; rw [h.1])
  | reset => simp only [Queue.Step, Queue.reset, Prod.mk.injEq] at h; rw [h.1]
  | readNFrom script n =>
    obtain ⟨q'', c, e, ⟨d, n', r, e0, _, hres⟩, hr⟩ := h
    simp only [Prod.mk.injEq] at hres hr
    rw [hr.1, hres.1]
  | writeTo script =>
    obtain ⟨q'', out, e, ⟨d, _, hq⟩, hr⟩ := h
    simp only [Prod.mk.injEq] at hr
    simp only at hq
    rw [hr.1, hq]

theorem run_cap {q : Queue} {ops : List Op} {q' : Queue} {os : List Out} (h : Queue.Run q ops q' os) :
    q'.cap = q.cap := by
  induction h with
  | nil => rfl
  | cons hs _ ih => rw [ih, step_cap hs]

theorem run_size (ops : List Op) (b : Buffer) (h : b.Inv) : (b.run ops).1.size = b.size :=
  run_cap (run_refines ops b h).2

/-! ### Fuel -/

/-- Any fuel above the data length gives the same `writeLoop` result. -/
theorem writeLoop_fuel (f1 : Nat) : ∀ (f2 : Nat) (b : Buffer) (data : List UInt8) (result : Nat),
    b.Inv → data.length < f1 → data.length < f2 →
    writeLoop f1 b data result = writeLoop f2 b data result := by
  induction f1 with
  | zero => intro f2 b data result _ h1; omega
  | succ f1 ih =>
    intro f2 b data result hinv h1 h2
    cases f2 with
    | zero => omega
    | succ f2 =>
      by_cases hc : data.length > 0 ∧ b.used ≠ b.size
      · rw [writeLoop_step _ _ _ _ hc, writeLoop_step _ _ _ _ hc]
        have hfs := freeSeg_bounds b hinv hc.2
        have hlen : (data.take b.freeSeg.2).length = min b.freeSeg.2 data.length := List.length_take
        apply ih
        · exact push_inv b hinv hc.2 _ (by omega)
        · rw [List.length_drop]; omega
        · rw [List.length_drop]; omega
      · rw [writeLoop_stop _ _ _ _ hc, writeLoop_stop _ _ _ _ hc]

/-- With fuel above the data length `writeLoop` ends because its own guard
`len(data) > 0 && b.used != b.size` is false. -/
theorem writeLoop_guard_false (fuel : Nat) (b : Buffer) (data : List UInt8) (result : Nat)
    (hinv : b.Inv) (hf : data.length < fuel) :
    ¬((writeLoop fuel b data result).2.1.length > 0 ∧
      (writeLoop fuel b data result).1.used ≠ (writeLoop fuel b data result).1.size) := by
  obtain ⟨s1, s2, s3, s4, s5, s6⟩ := writeLoop_spec fuel b data result hinv hf
  rw [s5, s3, s2, List.length_drop]
  have := hinv.2.1
  omega

/-- Any fuel above the requested length gives the same `readLoop` result. -/
theorem readLoop_fuel (f1 : Nat) : ∀ (f2 : Nat) (b : Buffer) (want : Nat) (acc : List UInt8),
    b.Inv → want < f1 → want < f2 →
    readLoop f1 b want acc = readLoop f2 b want acc := by
  induction f1 with
  | zero => intro f2 b want acc _ h1; omega
  | succ f1 ih =>
    intro f2 b want acc hinv h1 h2
    cases f2 with
    | zero => omega
    | succ f2 =>
      by_cases hc : want > 0 ∧ b.used > 0
      · rw [readLoop_step _ _ _ _ hc, readLoop_step _ _ _ _ hc]
        have hd := dataSeg_bounds b hinv
        have hd1 := hd.1 hc.2
        obtain ⟨_, hseglen⟩ := seg_take b hinv want
        apply ih
        · exact pop_inv b hinv _ (by omega)
        · omega
        · omega
      · rw [readLoop_stop _ _ _ _ hc, readLoop_stop _ _ _ _ hc]

/-- With fuel above the requested length `readLoop` ends because its own guard
`len(buffer) > 0 && b.used > 0` is false: the request is satisfied or the
buffer is empty. -/
theorem readLoop_guard_false (fuel : Nat) (b : Buffer) (want : Nat) (acc : List UInt8)
    (hinv : b.Inv) (hf : want < fuel) :
    (readLoop fuel b want acc).2.length = acc.length + want ∨ (readLoop fuel b want acc).1.used = 0 := by
  obtain ⟨s1, s2, s3, s4, s5⟩ := readLoop_spec fuel b want acc hinv hf
  have hlen := abs_length b hinv
  rw [s5, s3, List.length_append, List.length_take]
  omega

end Mutagen.Proofs.Ring
