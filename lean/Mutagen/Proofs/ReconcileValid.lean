import Mutagen.Proofs.ReconcileShape
import Mutagen.Proofs.Valid
/-!
Every change `Reconcile` plans for an endpoint carries valid synchronizable
content (`Change.EnsureValid(true)`), given a valid synchronizable ancestor and
valid endpoint contents (used by `Properties/C21`).
-/
namespace Mutagen.Proofs.ReconcileValid
open Mutagen.Model Mutagen.Proofs.ReconcileShape Mutagen.Proofs.Valid

theorem keys_synchronizableL_subset (cs : Contents) (n : Name) (h : n ∈ keys (Entry.synchronizableL cs)) :
    n ∈ keys cs := by
  induction cs with
  | nil => simp [Entry.synchronizableL, keys] at h
  | cons hd t ih =>
    obtain ⟨m, c⟩ := hd
    simp only [Entry.synchronizableL] at h
    split at h
    · simp only [keys, List.map_cons, List.mem_cons]; right; exact ih h
    · simp only [keys, List.map_cons, List.mem_cons] at h ⊢
      rcases h with h | h
      · left; exact h
      · right; exact ih h

mutual
/-- The synchronizable part of a valid entry is a valid synchronizable entry. -/
theorem sync_valid : ∀ (e : Entry), e.ensureValid false = true → oensureValid true e.synchronizable = true
  | .mk p cs, h => by
    unfold Entry.synchronizable
    by_cases hs : p.kind.synchronizable = true
    · simp only [hs, Bool.not_true, Bool.false_eq_true, if_false]
      by_cases hd : p.kind = .directory
      · have hd' : (p.kind != Kind.directory) = false := by simp [hd]
        simp only [hd', Bool.false_eq_true, if_false]
        unfold Entry.ensureValid at h
        simp only [hd, Bool.and_eq_true] at h
        obtain ⟨⟨⟨⟨h1, h2⟩, h3⟩, h4⟩, h5⟩ := h
        by_cases he : cs.isEmpty = true
        · have : cs = [] := by simpa using he
          subst this
          simp [oensureValid, Entry.ensureValid, hd, h1, h2, h3, h4, Entry.ensureValidL]
        · simp only [he, Bool.false_eq_true, if_false, oensureValid]
          unfold Entry.ensureValid
          simp only [hd, Bool.and_eq_true]
          exact ⟨⟨⟨⟨h1, h2⟩, h3⟩, by simp⟩, syncL_valid cs h5⟩
      · have hd' : (p.kind != Kind.directory) = true := by simp [hd]
        simp only [hd', if_true, oensureValid]
        unfold Entry.ensureValid at h ⊢
        cases hk : p.kind <;> simp_all [Kind.synchronizable]
    · simp [hs, oensureValid]
theorem syncL_valid : ∀ (cs : Contents), Entry.ensureValidL false cs = true →
    Entry.ensureValidL true (Entry.synchronizableL cs) = true
  | [], _ => by simp [Entry.synchronizableL, Entry.ensureValidL]
  | (n, c) :: r, h => by
    simp only [Entry.ensureValidL, Bool.and_eq_true] at h
    have hc := sync_valid c h.1.2
    have hr := syncL_valid r h.2
    simp only [Entry.synchronizableL]
    cases hsc : c.synchronizable with
    | none => simpa using hr
    | some c' =>
      rw [hsc] at hc
      simp only [Entry.ensureValidL, Bool.and_eq_true]
      exact ⟨⟨h.1.1, hc⟩, hr⟩
end

theorem osync_valid (x : Option Entry) (h : oensureValid false x = true) : oensureValid true (osync x) = true := by
  cases x with
  | none => rfl
  | some e => exact sync_valid e h

/-! ## Content without unsynchronizable parts -/

mutual
/-- Names are unique within every directory (what a Go map guarantees). -/
def uniqueNames : Entry → Bool
  | .mk _ cs => uniqueNamesL cs
def uniqueNamesL : Contents → Bool
  | [] => true
  | (n, c) :: r => !(keys r).contains n && uniqueNames c && uniqueNamesL r
end

def ouniqueNames : Option Entry → Bool
  | none => true
  | some e => uniqueNames e

theorem lookup_none_of_not_mem (n : Name) (cs : Contents) (h : n ∉ keys cs) : lookup n cs = none := by
  induction cs with
  | nil => rfl
  | cons hd t ih =>
    obtain ⟨m, c⟩ := hd
    simp only [keys, List.map_cons, List.mem_cons, not_or] at h
    simp only [lookup]
    rw [if_neg (fun e => h.1 e.symm)]
    exact ih h.2

theorem diff_none_some_ne_nil (path : Path) (c : Entry) : diff path none (some c) ≠ [] := by
  rw [diff]; simp [shallowEq]

theorem mem_keys_of_lookup {n : Name} {cs : Contents} {c : Entry} (h : lookup n cs = some c) : n ∈ keys cs := by
  induction cs with
  | nil => simp [lookup] at h
  | cons hd t ih =>
    obtain ⟨m, e⟩ := hd
    simp only [lookup] at h
    simp only [keys, List.map_cons, List.mem_cons]
    split at h
    · rename_i hm; left; exact hm.symm
    · right; exact ih h

mutual
theorem nounsync_valid : ∀ (e : Entry) (path : Path), e.ensureValid false = true → uniqueNames e = true →
    diff path e.synchronizable (some e) = [] → e.ensureValid true = true
  | .mk p cs, path, hv, hu, hd => by
    rw [diff] at hd
    by_cases hs : shallowEq (some (Entry.mk p cs)) (Entry.mk p cs).synchronizable = true
    · simp only [hs, Bool.not_true, Bool.false_eq_true, if_false] at hd
      by_cases hk : p.kind = .directory
      · -- a directory: all children are free of unsynchronizable content
        unfold Entry.ensureValid at hv ⊢
        simp only [hk, Bool.and_eq_true] at hv ⊢
        refine ⟨hv.1, ?_⟩
        by_cases he : cs = []
        · subst he; simp [Entry.ensureValidL]
        · have hsy : (Entry.mk p cs).synchronizable =
              some (.mk { kind := p.kind, executable := p.executable, digest := p.digest, target := p.target }
                (Entry.synchronizableL cs)) := by
            unfold Entry.synchronizable
            simp [hk, Kind.synchronizable, he]
          rw [hsy] at hd
          refine nounsyncL_valid cs path hv.2 (by simpa [uniqueNames] using hu) ?_
          intro n hn
          have := (List.flatMap_eq_nil_iff.mp hd)
            ⟨n, mem_nameUnion.mpr ⟨contents (some (Entry.mk p cs)),
              List.mem_cons_of_mem _ (List.mem_cons_self ..), hn⟩⟩ (List.mem_attach _ _)
          simpa [contents, Entry.children] using this
      · -- not a directory: a synchronizable kind is valid either way, others have no synchronizable part
        unfold Entry.synchronizable at hs
        unfold Entry.ensureValid at hv ⊢
        cases hk' : p.kind <;> simp_all [Kind.synchronizable, shallowEq]
    · simp [hs] at hd
theorem nounsyncL_valid : ∀ (cs : Contents) (path : Path), Entry.ensureValidL false cs = true →
    uniqueNamesL cs = true →
    (∀ n ∈ keys cs, diff (path ++ [n]) (lookup n (Entry.synchronizableL cs)) (lookup n cs) = []) →
    Entry.ensureValidL true cs = true
  | [], _, _, _, _ => by simp [Entry.ensureValidL]
  | (n, c) :: r, path, hv, hu, hd => by
    simp only [Entry.ensureValidL, Bool.and_eq_true] at hv ⊢
    simp only [uniqueNamesL, Bool.and_eq_true, Bool.not_eq_true', List.contains_eq_mem,
      decide_eq_false_iff_not] at hu
    obtain ⟨⟨hnr, huc⟩, hur⟩ := hu
    have hnr' : n ∉ keys (Entry.synchronizableL r) := fun h => hnr (keys_synchronizableL_subset r n h)
    refine ⟨⟨hv.1.1, ?_⟩, ?_⟩
    · have h1 := hd n (by simp [keys])
      simp only [lookup, if_true, Entry.synchronizableL] at h1
      cases hsc : c.synchronizable with
      | none =>
        rw [hsc] at h1
        simp only [lookup_none_of_not_mem n _ hnr'] at h1
        exact absurd h1 (diff_none_some_ne_nil _ c)
      | some c' =>
        rw [hsc] at h1
        simp only [lookup, if_true] at h1
        rw [← hsc] at h1
        exact nounsync_valid c (path ++ [n]) hv.1.2 huc h1
    · refine nounsyncL_valid r path hv.2 hur ?_
      intro m hm
      have hmn : ¬ n = m := fun e => hnr (e ▸ hm)
      have h1 := hd m (by simp [keys] at hm ⊢; right; exact hm)
      simp only [lookup, hmn, if_false, Entry.synchronizableL] at h1
      cases hsc : c.synchronizable with
      | none => rw [hsc] at h1; exact h1
      | some c' => rw [hsc] at h1; simpa [lookup, hmn] using h1
end

theorem uniqueNamesL_lookup (cs : Contents) (n : Name) (c : Entry) (h : uniqueNamesL cs = true)
    (hl : lookup n cs = some c) : uniqueNames c = true := by
  induction cs with
  | nil => simp [lookup] at hl
  | cons hd t ih =>
    obtain ⟨m, e⟩ := hd
    simp only [uniqueNamesL, Bool.and_eq_true] at h
    simp only [lookup] at hl
    split at hl
    · injection hl with hl; subst hl; exact h.1.2
    · exact ih h.2 hl

theorem ounique_lookup (x : Option Entry) (n : Name) (h : ouniqueNames x = true) :
    ouniqueNames (lookup n (contents x)) = true := by
  cases x with
  | none => simp [contents, lookup, ouniqueNames]
  | some e =>
    obtain ⟨p, cs⟩ := e
    cases hl : lookup n (contents (some (Entry.mk p cs))) with
    | none => simp [ouniqueNames]
    | some c => exact uniqueNamesL_lookup cs n c (by simpa [ouniqueNames, uniqueNames] using h) hl

/-- Content whose synchronizable part does not differ from it is valid as
synchronizable content. -/
theorem onounsync_valid (path : Path) (x : Option Entry) (hv : oensureValid false x = true)
    (hu : ouniqueNames x = true) (hd : diff path (osync x) x = []) : oensureValid true x = true := by
  cases x with
  | none => rfl
  | some e => exact nounsync_valid e path hv hu hd

/-- Every change `handleDisagreement` plans for an endpoint carries valid
synchronizable content. -/
theorem handleDisagreement_valid (mode : Mode) (path : Path) (a α β : Option Entry) (toAlpha : Bool)
    (ha : oensureValid true a = true) (hα : oensureValid false α = true) (hβ : oensureValid false β = true)
    (huβ : ouniqueNames β = true)
    (c : Change) (hc : c ∈ side toAlpha (handleDisagreement mode path a α β)) : c.ensureValid true = true := by
  have hsα := osync_valid α hα
  have hsβ := osync_valid β hβ
  have hβ' : diff path (osync β) β = [] → oensureValid true β = true := onounsync_valid path β hβ huβ
  cases toAlpha <;> cases mode <;>
    simp only [side, handleDisagreement, handleBidirectional, handleOneWaySafe, handleOneWayReplica,
      Bool.false_eq_true, if_false, if_true] at hc <;>
    (repeat' split at hc) <;>
    simp_all [Plan.conflict, Plan.betaChange, Plan.alphaChange, Plan.ancChange, Change.ensureValid, oensureValid]

/-- Every change `reconcile` plans for an endpoint carries valid synchronizable content. -/
theorem reconcile_valid (mode : Mode) (toAlpha : Bool) (path : Path) (a α β : Option Entry) :
    oensureValid true a = true → oensureValid false α = true → oensureValid false β = true →
    ouniqueNames β = true →
    ∀ c ∈ side toAlpha (reconcile mode path a α β), c.ensureValid true = true := by
  induction path, a, α, β using reconcile.induct with
  | case1 path a α β h => intro _ _ _ _ c hc; rw [reconcile] at hc; cases toAlpha <;> simp [h, side] at hc
  | case2 path a α β h1 h2 => intro _ _ _ _ c hc; rw [reconcile] at hc; cases toAlpha <;> simp [h1, h2, side] at hc
  | case3 path a α β h1 h2 h3 h4 =>
    intro _ _ _ _ c hc; rw [reconcile] at hc
    cases toAlpha <;> simp [h1, h2, h3, h4, side, Plan.ancChange] at hc
  | case4 path a α β h1 h2 h3 h4 =>
    intro _ _ _ _ c hc; rw [reconcile] at hc
    cases toAlpha <;> simp [h1, h2, h3, h4, side] at hc
  | case5 path a α β h1 h2 h3 h4 a' ih =>
    intro ha hα hβ hu c hc
    have hb : bothAbsent α β = false := eq_false_of_ne_true h3
    rw [reconcile_rec mode path a α β (by simpa using h1) (by simpa using h2) hb h4] at hc
    have hhere : side toAlpha (if !shallowEq a α then Plan.ancChange { path := path, new := ocopy .slim α } else {}) = [] := by
      cases toAlpha <;> simp [side] <;> split <;> simp [Plan.ancChange]
    have hc' : c ∈ side toAlpha (Plan.concat ((nameUnion [contents (ancestorForRecursion a α), contents α, contents β]).map fun n =>
        reconcile mode (path ++ [n]) (lookup n (contents (ancestorForRecursion a α)))
          (lookup n (contents α)) (lookup n (contents β)))) := by
      cases toAlpha <;> simp only [side, append_alpha, append_beta, Bool.false_eq_true, if_false, if_true] at hc hhere ⊢ <;>
        (rw [hhere, List.nil_append] at hc; exact hc)
    obtain ⟨p, hp, hcp⟩ := (mem_concat_side toAlpha _ c).mp hc'
    obtain ⟨n, hn, rfl⟩ := List.mem_map.mp hp
    have ha' : oensureValid true (ancestorForRecursion a α) = true := by
      unfold ancestorForRecursion; split
      · exact ha
      · rfl
    exact ih ⟨n, hn⟩ (ovalid_lookup true _ n ha') (ovalid_lookup false α n hα) (ovalid_lookup false β n hβ)
      (ounique_lookup β n hu) c hcp
  | case6 path a α β h1 h2 h3 h4 =>
    intro ha hα hβ hu c hc
    have hb : bothAbsent α β = false := eq_false_of_ne_true h3
    rw [reconcile_disagree mode path a α β (by simpa using h1) (by simpa using h2) hb (by simpa using h4)] at hc
    exact handleDisagreement_valid mode path a α β toAlpha ha hα hβ hu c hc

end Mutagen.Proofs.ReconcileValid
