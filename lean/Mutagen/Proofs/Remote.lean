import Mutagen.Model.Remote
import Mutagen.Model.Rsync
/-!
Lemmas for `Properties/C21`: the interleaving invariant of the
request / completion / response exchange, and `filteredPathsAreSubset` as the
sublist relation.
-/
namespace Mutagen.Proofs.Remote
open Mutagen.Model Mutagen.Model.Remote

/-! ## `filteredPathsAreSubset` decides the sublist relation -/

theorem dropThrough_some {f : String} {o rest : List String} (h : dropThrough f o = some rest) :
    ∃ pre, o = pre ++ f :: rest ∧ f ∉ pre := by
  induction o with
  | nil => simp [dropThrough] at h
  | cons x xs ih =>
    simp only [dropThrough] at h
    split at h
    · rename_i hx
      have hx' : x = f := by simpa using hx
      injection h with h
      exact ⟨[], by simp [hx', h], by simp⟩
    · rename_i hx
      obtain ⟨pre, hpre, hn⟩ := ih h
      refine ⟨x :: pre, by simp [hpre], ?_⟩
      have hx' : ¬ x = f := by simpa using hx
      simp only [List.mem_cons, not_or]
      exact ⟨fun e => hx' e.symm, hn⟩

theorem dropThrough_none {f : String} {o : List String} (h : dropThrough f o = none) : f ∉ o := by
  induction o with
  | nil => simp
  | cons x xs ih =>
    simp only [dropThrough] at h
    split at h
    · simp at h
    · rename_i hx
      have hx' : ¬ x = f := by simpa using hx
      simp only [List.mem_cons, not_or]
      exact ⟨fun e => hx' e.symm, ih h⟩

/-- Greedy matching is complete: if `f :: fs` is a sublist of `pre ++ f :: rest`
with `f ∉ pre`, then `fs` is a sublist of `rest`. -/
theorem sublist_after_first {f : String} {fs pre rest : List String} (hn : f ∉ pre)
    (h : (f :: fs).Sublist (pre ++ f :: rest)) : fs.Sublist rest := by
  induction pre with
  | nil =>
    simp only [List.nil_append] at h
    cases h with
    | cons _ h' => exact (List.sublist_cons_self f fs).trans h'
    | cons_cons _ h' => exact h'
  | cons x xs ih =>
    simp only [List.mem_cons, not_or] at hn
    simp only [List.cons_append] at h
    cases h with
    | cons _ h' => exact ih hn.2 h'
    | cons_cons _ h' => exact absurd rfl hn.1

theorem filteredPathsAreSubset_iff (f o : List String) :
    filteredPathsAreSubset f o = true ↔ f.Sublist o := by
  induction f generalizing o with
  | nil => simp [filteredPathsAreSubset]
  | cons x xs ih =>
    simp only [filteredPathsAreSubset]
    cases hd : dropThrough x o with
    | none =>
      have hn := dropThrough_none hd
      simp only [Bool.false_eq_true, false_iff]
      intro hs
      exact hn (hs.subset (List.mem_cons_self ..))
    | some rest =>
      obtain ⟨pre, hpre, hn⟩ := dropThrough_some hd
      simp only [ih]
      constructor
      · intro h
        rw [hpre]
        exact (List.Sublist.cons_cons x h).trans (List.sublist_append_right pre (x :: rest))
      · intro h
        rw [hpre] at h
        exact sublist_after_first hn h

/-! ## The rsync engine as the snapshot codec -/

/-- The model of the rsync engine (C19) in the role it plays in `Scan`:
`BytesSignature(base, 0)` (the block size is a function of the base),
`DeltifyBytes(target, signature, 0)` and `PatchBytes`. -/
def rsyncCodec {D : Type} [DecidableEq D] (H : List UInt8 → D) (blockSize : Bytes → Nat) :
    Codec (Rsync.Signature D) (List Rsync.Operation) where
  sign := fun base => Rsync.signature H base (blockSize base)
  deltify := fun target sig => (Rsync.deltifyBytes H target sig 0).1
  patch := fun base sig ops => Rsync.patchBytes base sig ops

/-! ## Stage responses -/

/-- `StageResponse.ensureValid` in terms of the list lengths. -/
theorem valid_of_lengths (request : List String) (r : StageResponse) (h1 : r.error = false)
    (h2 : r.signatures.all id = true)
    (h3 : (r.paths.length = r.signatures.length ∧ r.paths.length ≤ request.length) ∨
          (r.paths.length = 0 ∧ r.signatures.length = request.length)) :
    stageResponseValid request r = true := by
  unfold stageResponseValid
  simp only [h1, h2]
  generalize r.paths.length = p at *
  generalize r.signatures.length = s at *
  generalize request.length = n at *
  rcases h3 with ⟨h, h'⟩ | ⟨h, h'⟩
  · subst h
    by_cases hp : p = 0
    · subst hp; simp
    · have : ¬ (p = 0) := hp
      simp [this]; omega
  · subst h h'
    by_cases hs : s = 0
    · subst hs; simp
    · have hpos : 0 < s := by omega
      simp [hpos]


/-! ## The interleaving invariant -/

/-- What is in flight is determined by what has been sent and not yet
received; no decoder has read a message of the wrong type; and the causal
order of the flags. -/
def Inv (w : Wire) : Prop :=
  w.c2s = (if w.requestSent && !w.requestReceived then [Msg.request] else []) ++
          (if w.completionSent && !w.completionReceived then [Msg.completion] else []) ∧
  w.s2c = (if w.responseSent && !w.responseReceived then [Msg.response] else []) ∧
  w.misaligned = false ∧
  (w.requestReceived = true → w.requestSent = true) ∧
  (w.completionSent = true → w.requestSent = true) ∧
  (w.completionReceived = true → w.completionSent = true ∧ w.requestReceived = true) ∧
  (w.operationDone = true → w.requestReceived = true) ∧
  (w.responseSent = true → w.operationDone = true) ∧
  (w.responseReceived = true → w.responseSent = true)

theorem inv_init : Inv {} := by
  simp [Inv]

theorem inv_step (w : Wire) (s : Step) (h : Inv w) (he : s.enabled w = true) : Inv (s.apply w) := by
  obtain ⟨w_c2s, w_s2c, w_ctx, rs, cs, rr, qr, cr, od, sr, mis⟩ := w
  obtain ⟨h1, h2, h3, h4, h5, h6, h7, h8, h9⟩ := h
  cases s <;> simp only [Step.enabled] at he <;> simp only [Step.apply, Inv]
  all_goals
    cases rs <;> cases cs <;> cases rr <;> cases qr <;> cases cr <;> cases od <;> cases sr <;>
      simp_all

theorem inv_run (w : Wire) (sched : List Step) (h : Inv w) : Inv (w.run sched) := by
  induction sched generalizing w with
  | nil => exact h
  | cons s rest ih =>
    simp only [Wire.run]
    split
    · rename_i he
      exact ih _ (inv_step w s h he)
    · exact ih _ h

theorem quiescent_returned (w : Wire) (h : Inv w) (hq : w.quiescent = true) :
    w.returned = true ∧ w.aligned = true := by
  obtain ⟨w_c2s, w_s2c, w_ctx, rs, cs, rr, qr, cr, od, sr, mis⟩ := w
  obtain ⟨h1, h2, h3, h4, h5, h6, h7, h8, h9⟩ := h
  simp only [Wire.quiescent, List.all_cons, List.all_nil, Step.enabled, Bool.and_true, Bool.and_eq_true] at hq
  cases rs <;> cases cs <;> cases rr <;> cases qr <;> cases cr <;> cases od <;> cases sr <;> cases w_ctx <;>
    simp_all [Wire.returned, Wire.aligned]

end Mutagen.Proofs.Remote
