import Mutagen.Proofs.MuxInv
namespace Mutagen.Model.Mux

theorem dataBytes_head_le (X : Nat) (bs : List UInt8) (w : List Msg) :
    bs.length ≤ dataBytes X (.data X bs :: w) := by
  simp [dataBytes]

theorem incrSum_head_le (X a : Nat) (w : List Msg) : a ≤ incrSum X (.incr X a :: w) := by
  simp [incrSum]

theorem Side.lookup_eq (s : Side) (X : Nat) :
    s.lookup X = none ∨ ∃ st, s.streams X = some st ∧ st.registered = true ∧ s.lookup X = some st := by
  unfold Side.lookup
  cases h : s.streams X with
  | none => simp
  | some st => cases hr : st.registered <;> simp [hr]

/-- The acceptor side accepts the head of the wire from the opener. -/
theorem deliver_ok_p (o p : Side) (m : Msg) (wop wpo : List Msg) (X : Nat)
    (hX : m.about X = true) (ho : o.isOutbound X = true) (hp : p.isOutbound X = false)
    (h : PerId o p (m :: wop) wpo X) (d : Dir o p (m :: wop)) :
    ∃ p', p.deliver m = .ok p' := by
  have hX0 : X ≠ 0 := by
    intro h0
    have := h.unused (by simp [Side.used, h0])
    have := this.wop m (List.mem_cons_self)
    simp [hX] at this
  cases m with
  | heartbeat => simp [Msg.about] at hX
  | «open» id win =>
    simp [Msg.about, Msg.id] at hX; subst hX
    have := d.opens_sorted
    simp [OpensOK] at this
    simp [Side.deliver, hX0, hp, Nat.not_le.mpr this.1]
    split <;> simp
  | accept id win =>
    simp [Msg.about, Msg.id] at hX; subst hX
    have := h.no_cross.2 _ (List.mem_cons_self)
    simp [Msg.isAcceptOf] at this
  | data id bs =>
    simp [Msg.about, Msg.id] at hX; subst hX
    have hseen : id ≤ p.largestIn := by
      apply Classical.byContradiction; intro hn
      have := (h.unseen hn).first
      simp [FirstOK, Msg.about, Msg.id, Msg.isOpenOf] at this
    have hne := h.flowOP.data_nonempty bs (List.mem_cons_self)
    have hlen : bs.length ≠ 0 := by simpa using hne
    have hw := h.flowOP.window
    have hrcw := h.flowOP.rcw
    have hrc := h.flowOP.rc
    have hun := h.o_unest
    have hest := h.est_o
    have hpo := h.p_has_o
    simp only [Side.deliver, hX0, hp, hlen, Side.lookup]
    cases hs : p.streams id with
    | none => simp [Nat.not_lt.mpr hseen]
    | some P =>
      simp [Nat.not_lt.mpr hseen]
      cases hreg : P.registered with
      | false => simp
      | true =>
        simp
        obtain ⟨O, hO⟩ := hpo P hs
        have he : O.established = true := by
          cases he : O.established with
          | true => rfl
          | false =>
            have := (hun O hO he).wop _ (List.mem_cons_self)
            simp [Msg.isDataOf] at this
        obtain ⟨P', hP', hPe⟩ := hest O hO he
        rw [hs] at hP'; cases hP'
        have h1 : P.remoteClosedWrite = false := by
          cases hh : P.remoteClosedWrite with
          | false => rfl
          | true => have := (hrcw P hs hh _ (List.mem_cons_self)).2; simp [Msg.isDataOf] at this
        have h2 : P.remoteClosed = false := by
          cases hh : P.remoteClosed with
          | false => rfl
          | true => have := hrc P hs hh _ (List.mem_cons_self); simp [Msg.about, Msg.id] at this
        simp [hPe, h1, h2]
        simp [hs, dataBytes, bufOf, capOf] at hw
        split
        · omega
        · simp
  | incr id a =>
    simp [Msg.about, Msg.id] at hX; subst hX
    have hseen : id ≤ p.largestIn := by
      apply Classical.byContradiction; intro hn
      have := (h.unseen hn).first
      simp [FirstOK, Msg.about, Msg.id, Msg.isOpenOf] at this
    have hpos := h.flowPO.incr_pos a (List.mem_cons_self)
    have hw := h.flowPO.window
    have hrc := h.flowOP.rc
    have hpo := h.p_has_o
    have hcap := h.cap_o
    simp [incrSum, swOf, capOf] at hw
    have ha : a ≠ 0 := by omega
    rcases p.lookup_eq id with hl | ⟨P, hs, hreg, hl⟩
    · simp [Side.deliver, hX0, hp, hl, Nat.not_lt.mpr hseen, ha]
    · obtain ⟨O, hO⟩ := hpo P hs
      have hc : O.recvCap ≤ maxU64 := by rw [hcap O hO]; exact d.window_le
      have h2 : P.remoteClosed = false := by
        cases hh : P.remoteClosed with
        | false => rfl
        | true => have := hrc P hs hh _ (List.mem_cons_self); simp [Msg.about, Msg.id] at this
      simp [hs, hO] at hw
      have hov : ¬ (maxU64 - P.sendWindow < a) := by omega
      by_cases hz : P.sendWindow = 0 <;>
        simp [Side.deliver, hX0, hp, hl, applyIncrement, Nat.not_lt.mpr hseen, h2, ha, hov, hz]
  | closeWrite id =>
    simp [Msg.about, Msg.id] at hX; subst hX
    have hseen : id ≤ p.largestIn := by
      apply Classical.byContradiction; intro hn
      have := (h.unseen hn).first
      simp [FirstOK, Msg.about, Msg.id, Msg.isOpenOf] at this
    have hrc := h.flowOP.rc
    have hrcw := h.flowOP.rcw
    rcases p.lookup_eq id with hl | ⟨P, hs, hreg, hl⟩
    · simp [Side.deliver, hX0, hp, hl, Nat.not_lt.mpr hseen]
    · have h2 : P.remoteClosed = false := by
        cases hh : P.remoteClosed with
        | false => rfl
        | true => have := hrc P hs hh _ (List.mem_cons_self); simp [Msg.about, Msg.id] at this
      have h1 : P.remoteClosedWrite = false := by
        cases hh : P.remoteClosedWrite with
        | false => rfl
        | true => have := (hrcw P hs hh _ (List.mem_cons_self)).1; simp [Msg.isCWOf] at this
      simp [Side.deliver, hX0, hp, hl, Nat.not_lt.mpr hseen, h1, h2]
  | close id =>
    simp [Msg.about, Msg.id] at hX; subst hX
    have hseen : id ≤ p.largestIn := by
      apply Classical.byContradiction; intro hn
      have := (h.unseen hn).first
      simp [FirstOK, Msg.about, Msg.id, Msg.isOpenOf] at this
    have hrc := h.flowOP.rc
    rcases p.lookup_eq id with hl | ⟨P, hs, hreg, hl⟩
    · simp [Side.deliver, hX0, hp, hl, Nat.not_lt.mpr hseen]
    · have h2 : P.remoteClosed = false := by
        cases hh : P.remoteClosed with
        | false => rfl
        | true => have := hrc P hs hh _ (List.mem_cons_self); simp [Msg.about, Msg.id] at this
      simp [Side.deliver, hX0, hp, hl, Nat.not_lt.mpr hseen, h2]

/-- The opener side accepts the head of the wire from the acceptor. -/
theorem deliver_ok_o (o p : Side) (m : Msg) (wop wpo : List Msg) (X : Nat)
    (hX : m.about X = true) (ho : o.isOutbound X = true)
    (h : PerId o p wop (m :: wpo) X) (hwp : p.window ≤ maxU64) :
    ∃ o', o.deliver m = .ok o' := by
  have hused : o.used X := by
    apply Classical.byContradiction; intro hn
    have := (h.unused hn).wpo m (List.mem_cons_self)
    simp [hX] at this
  have hX0 : X ≠ 0 := hused.1
  have hrange : ¬ (o.nextOut ≠ 0 ∧ X ≥ o.nextOut) := by
    have := hused.2; omega
  have hrc : ∀ O, o.streams X = some O → O.remoteClosed = false := by
    intro O hO
    cases hh : O.remoteClosed with
    | false => rfl
    | true => have := h.flowPO.rc O hO hh m (List.mem_cons_self); simp [hX] at this
  have hfirst := h.o_first
  cases m with
  | heartbeat => simp [Msg.about] at hX
  | «open» id win =>
    simp [Msg.about, Msg.id] at hX; subst hX
    have := h.no_cross.1 _ (List.mem_cons_self)
    simp [Msg.isOpenOf] at this
  | accept id win =>
    simp [Msg.about, Msg.id] at hX; subst hX
    rcases o.lookup_eq id with hl | ⟨O, hs, hreg, hl⟩
    · simp [Side.deliver, hX0, ho, hl, hrange]
    · have he : O.established = false := by
        cases hh : O.established with
        | false => rfl
        | true => have := h.est_o_noacc O hs hh _ (List.mem_cons_self); simp [Msg.isAcceptOf] at this
      simp [Side.deliver, hX0, ho, hl, hrange, he, hrc O hs]
  | data id bs =>
    simp [Msg.about, Msg.id] at hX; subst hX
    have hne := h.flowPO.data_nonempty bs (List.mem_cons_self)
    have hlen : bs.length ≠ 0 := by simpa using hne
    have hw := h.flowPO.window
    rcases o.lookup_eq id with hl | ⟨O, hs, hreg, hl⟩
    · simp [Side.deliver, hX0, ho, hl, hrange, hlen]
    · have he : O.established = true := by
        cases hh : O.established with
        | true => rfl
        | false =>
          have := hfirst O hs hreg hh
          simp [FirstOK, Msg.about, Msg.id, Msg.isAcceptOf, Msg.isCloseOf] at this
      have h1 : O.remoteClosedWrite = false := by
        cases hh : O.remoteClosedWrite with
        | false => rfl
        | true => have := (h.flowPO.rcw O hs hh _ (List.mem_cons_self)).2; simp [Msg.isDataOf] at this
      simp [hs, dataBytes, bufOf, capOf] at hw
      have hwin : ¬ (O.recvCap - O.recvBuf.length < bs.length) := by omega
      simp [Side.deliver, hX0, ho, hl, hrange, hlen, he, h1, hrc O hs, hwin]
  | incr id a =>
    simp [Msg.about, Msg.id] at hX; subst hX
    have hpos := h.flowOP.incr_pos a (List.mem_cons_self)
    have hw := h.flowOP.window
    simp [incrSum, swOf, capOf] at hw
    have ha : a ≠ 0 := by omega
    rcases o.lookup_eq id with hl | ⟨O, hs, hreg, hl⟩
    · simp [Side.deliver, hX0, ho, hl, hrange, ha]
    · have he : O.established = true := by
        cases hh : O.established with
        | true => rfl
        | false =>
          have := hfirst O hs hreg hh
          simp [FirstOK, Msg.about, Msg.id, Msg.isAcceptOf, Msg.isCloseOf] at this
      have hov : ¬ (maxU64 - O.sendWindow < a) := by
        cases hp : p.streams id with
        | none => simp [hp, hs] at hw; omega
        | some P => have := h.cap_p P hp; simp [hp, hs] at hw; omega
      by_cases hz : O.sendWindow = 0 <;>
        simp [Side.deliver, hX0, ho, hl, hrange, applyIncrement, ha, he, hrc O hs, hov, hz]
  | closeWrite id =>
    simp [Msg.about, Msg.id] at hX; subst hX
    rcases o.lookup_eq id with hl | ⟨O, hs, hreg, hl⟩
    · simp [Side.deliver, hX0, ho, hl, hrange]
    · have he : O.established = true := by
        cases hh : O.established with
        | true => rfl
        | false =>
          have := hfirst O hs hreg hh
          simp [FirstOK, Msg.about, Msg.id, Msg.isAcceptOf, Msg.isCloseOf] at this
      have h1 : O.remoteClosedWrite = false := by
        cases hh : O.remoteClosedWrite with
        | false => rfl
        | true => have := (h.flowPO.rcw O hs hh _ (List.mem_cons_self)).1; simp [Msg.isCWOf] at this
      simp [Side.deliver, hX0, ho, hl, hrange, he, h1, hrc O hs]
  | close id =>
    simp [Msg.about, Msg.id] at hX; subst hX
    rcases o.lookup_eq id with hl | ⟨O, hs, hreg, hl⟩
    · simp [Side.deliver, hX0, ho, hl, hrange]
    · simp [Side.deliver, hX0, ho, hl, hrange, hrc O hs]

end Mutagen.Model.Mux
