import Mutagen.Model.Rsync
/-!
Proof layer for the rsync model (C19, C20).

The main loop of `Deltify` only talks to the transmitter through the closures
`sendData`/`sendBlock`, and their only influence on the loop is "abort on
error". So the run factors into

1. the pure list of closure calls (`Event`s) the loop makes when nothing fails
   (`stepEvents`, `loopEvents`, `coreEvents`), and
2. feeding that list to the closures until one fails (`runEvents`), which for
   the real coalescing/chunking closures over a transmitter is the same as
   feeding the pure operation list `evOps` to the transmitter until it fails
   (`runOps`).

`plan` is the resulting ideal operation list; `deltify_eq_runOps` says that the
repaired `Deltify`, for *every* transmitter, is `runOps` of the plan.
-/
namespace Mutagen.Proofs.Rsync
open Mutagen.Model.Rsync

/-- A call of one of the two closures. -/
inductive Event
  | data (d : List UInt8)
  | block (i : Nat)
  deriving DecidableEq, Repr

/-- Feed closure calls to a sink until one reports an error. -/
def runEvents {σ : Type} (sd : SendData σ) (sb : SendBlock σ) : List Event → σ → σ × Bool
  | [], s => (s, false)
  | .data d :: es, s =>
    let (s', e) := sd d s
    if e then (s', true) else runEvents sd sb es s'
  | .block i :: es, s =>
    let (s', e) := sb i s
    if e then (s', true) else runEvents sd sb es s'

theorem runEvents_append {σ : Type} (sd : SendData σ) (sb : SendBlock σ) (a b : List Event) (s : σ) :
    runEvents sd sb (a ++ b) s =
      (if (runEvents sd sb a s).2 then ((runEvents sd sb a s).1, true)
       else runEvents sd sb b (runEvents sd sb a s).1) := by
  induction a generalizing s with
  | nil => simp [runEvents]
  | cons e es ih =>
    cases e with
    | data d =>
      simp only [List.cons_append, runEvents]
      by_cases h : (sd d s).2 = true <;> simp [h, ih]
    | block i =>
      simp only [List.cons_append, runEvents]
      by_cases h : (sb i s).2 = true <;> simp [h, ih]

section
variable {D : Type} [DecidableEq D] (H : List UInt8 → D)

/-- The closure calls of `matchStep` and the buffer it leaves. -/
def stepEvents (bs cap : Nat) (full : List (BlockHash D)) (buf : List UInt8) (weak : UInt32) :
    List Event × List UInt8 :=
  match findMatch H full weak (buf.drop (buf.length - bs)) with
  | some p => ([.data (buf.take (buf.length - bs)), .block p], [])
  | none =>
    if buf.length = cap then ([.data (buf.take (buf.length - bs))], buf.drop (buf.length - bs))
    else ([], buf)

theorem matchStep_eq {σ : Type} (sd : SendData σ) (sb : SendBlock σ) (bs cap : Nat) (full : List (BlockHash D))
    (buf : List UInt8) (weak : UInt32) (s : σ) :
    matchStep H sd sb bs cap full buf weak s =
      (let r := runEvents sd sb (stepEvents H bs cap full buf weak).1 s
       if r.2 then (r.1, [], true) else (r.1, (stepEvents H bs cap full buf weak).2, false)) := by
  unfold matchStep stepEvents
  cases findMatch H full weak (buf.drop (buf.length - bs)) with
  | some p =>
    simp only [runEvents]
    by_cases h1 : (sd (buf.take (buf.length - bs)) s).2 = true <;> simp [h1]
    by_cases h2 : (sb p (sd (buf.take (buf.length - bs)) s).1).2 = true <;> simp [h2]
  | none =>
    by_cases hc : buf.length = cap
    · simp only [hc, if_true, runEvents]
      by_cases h1 : (sd (buf.take (cap - bs)) s).2 = true <;> simp [h1]
    · simp [hc, runEvents]

/-- The closure calls of the main loop, the buffer it leaves and how it ends
(`.ok`, or the unreachable `.panic`/`.fuel`). -/
def loopEvents (bs cap : Nat) (full : List (BlockHash D)) :
    Nat → List UInt8 → List UInt8 → UInt32 → UInt32 → List Event × List UInt8 × Exit
  | 0, _, buf, _, _ => ([], buf, .fuel)
  | fuel + 1, t, buf, r1, r2 =>
    if buf.isEmpty then
      if t.length < bs then ([], t, .ok)
      else
        let buf' := t.take bs
        let wh := weakHash buf' bs
        let st := stepEvents H bs cap full buf' wh.1
        let r := loopEvents bs cap full fuel (t.drop bs) st.2 wh.2.1 wh.2.2
        (st.1 ++ r.1, r.2)
    else if buf.length < bs then ([], buf, .panic)
    else
      match t with
      | [] => ([], buf, .ok)
      | b :: t' =>
        let wh := rollWeakHash r1 r2 (buf.getD (buf.length - bs) 0) b bs
        let st := stepEvents H bs cap full (buf ++ [b]) wh.1
        let r := loopEvents bs cap full fuel t' st.2 wh.2.1 wh.2.2
        (st.1 ++ r.1, r.2)

theorem step_then_loop {σ : Type} (sd : SendData σ) (sb : SendBlock σ) (bs cap : Nat) (full : List (BlockHash D))
    (fuel : Nat)
    (ih : ∀ (t buf : List UInt8) (r1 r2 : UInt32) (s : σ),
      mainLoop H sd sb bs cap full fuel t buf r1 r2 s =
        (let ev := loopEvents H bs cap full fuel t buf r1 r2
         let r := runEvents sd sb ev.1 s
         if r.2 then (r.1, [], .err) else (r.1, ev.2)))
    (t' buf' : List UInt8) (w r1' r2' : UInt32) (s : σ) :
    (if (matchStep H sd sb bs cap full buf' w s).2.2 = true then
        ((matchStep H sd sb bs cap full buf' w s).1, (matchStep H sd sb bs cap full buf' w s).2.1, Exit.err)
      else mainLoop H sd sb bs cap full fuel t' (matchStep H sd sb bs cap full buf' w s).2.1 r1' r2'
        (matchStep H sd sb bs cap full buf' w s).1) =
      (if (runEvents sd sb ((stepEvents H bs cap full buf' w).1 ++
            (loopEvents H bs cap full fuel t' (stepEvents H bs cap full buf' w).2 r1' r2').1) s).2 = true then
        ((runEvents sd sb ((stepEvents H bs cap full buf' w).1 ++
            (loopEvents H bs cap full fuel t' (stepEvents H bs cap full buf' w).2 r1' r2').1) s).1, [], Exit.err)
      else
        ((runEvents sd sb ((stepEvents H bs cap full buf' w).1 ++
            (loopEvents H bs cap full fuel t' (stepEvents H bs cap full buf' w).2 r1' r2').1) s).1,
          (loopEvents H bs cap full fuel t' (stepEvents H bs cap full buf' w).2 r1' r2').2)) := by
  rw [matchStep_eq, runEvents_append]
  by_cases h1 : (runEvents sd sb (stepEvents H bs cap full buf' w).1 s).2 = true
  · simp [h1]
  · simp [h1, ih]

theorem mainLoop_eq {σ : Type} (sd : SendData σ) (sb : SendBlock σ) (bs cap : Nat) (full : List (BlockHash D))
    (fuel : Nat) (t buf : List UInt8) (r1 r2 : UInt32) (s : σ) :
    mainLoop H sd sb bs cap full fuel t buf r1 r2 s =
      (let ev := loopEvents H bs cap full fuel t buf r1 r2
       let r := runEvents sd sb ev.1 s
       if r.2 then (r.1, [], .err) else (r.1, ev.2)) := by
  induction fuel generalizing t buf r1 r2 s with
  | zero => simp [mainLoop, loopEvents, runEvents]
  | succ fuel ih =>
    unfold mainLoop loopEvents
    by_cases hb : buf.isEmpty
    · simp only [hb, if_true]
      by_cases ht : t.length < bs
      · simp [ht, runEvents]
      · simp only [ht, if_false]
        exact step_then_loop H sd sb bs cap full fuel ih _ _ _ _ _ s
    · simp only [hb]
      by_cases hl : buf.length < bs
      · simp [hl, runEvents]
      · simp only [hl, if_false]
        cases t with
        | nil => simp [runEvents]
        | cons b t' =>
          exact step_then_loop H sd sb bs cap full fuel ih _ _ _ _ _ s

/-- All closure calls of `deltifyCore` and how the failure-free run ends. -/
def coreEvents (sig : Signature D) (maxOp : Nat) (target : List UInt8) : List Event × Exit :=
  let r := loopEvents H sig.blockSize (maxOp + sig.blockSize) (fullHashes sig)
    (target.length + 1) target [] 0 0
  if r.2.2 != .ok then (r.1, r.2.2)
  else if shortMatch H sig r.2.1 then
    (r.1 ++ [.data (r.2.1.take (r.2.1.length - sig.lastBlockSize)), .block (sig.hashes.length - 1),
      .data []], .ok)
  else (r.1 ++ [.data r.2.1], .ok)

theorem deltifyCore_eq {σ : Type} (sd : SendData σ) (sb : SendBlock σ) (sig : Signature D) (maxOp : Nat)
    (target : List UInt8) (s0 : σ) :
    deltifyCore H sd sb sig maxOp target s0 =
      (let ce := coreEvents H sig maxOp target
       let r := runEvents sd sb ce.1 s0
       if r.2 then (r.1, .err) else (r.1, ce.2)) := by
  unfold deltifyCore coreEvents
  rw [mainLoop_eq]
  generalize loopEvents H sig.blockSize (maxOp + sig.blockSize) (fullHashes sig)
    (target.length + 1) target [] 0 0 = ev
  obtain ⟨evs, buf, ex⟩ := ev
  by_cases h1 : (runEvents sd sb evs s0).2 = true
  · by_cases hex : ex = .ok
    · by_cases hm : shortMatch H sig buf = true <;> simp [h1, hex, hm, runEvents_append]
    · simp [h1, hex]
  · by_cases hex : ex = .ok
    · by_cases hm : shortMatch H sig buf = true
      · by_cases e1 : (sd (buf.take (buf.length - sig.lastBlockSize)) (runEvents sd sb evs s0).1).2 = true
        · simp [h1, hex, hm, e1, runEvents_append, runEvents]
        · by_cases e2 : (sb (sig.hashes.length - 1)
              (sd (buf.take (buf.length - sig.lastBlockSize)) (runEvents sd sb evs s0).1).1).2 = true
          · simp [h1, hex, hm, e1, e2, runEvents_append, runEvents]
          · by_cases e3 : (sd [] (sb (sig.hashes.length - 1)
              (sd (buf.take (buf.length - sig.lastBlockSize)) (runEvents sd sb evs s0).1).1).1).2 = true
            <;> simp [h1, hex, hm, e1, e2, e3, runEvents_append, runEvents]
      · by_cases e3 : (sd buf (runEvents sd sb evs s0).1).2 = true <;>
          simp [h1, hex, hm, e3, runEvents_append, runEvents]
    · simp [h1, hex]

end

/-! ## The failure-free run never panics and never runs out of fuel -/

section
variable {D : Type} [DecidableEq D] (H : List UInt8 → D)

theorem stepEvents_buf_cases (bs cap : Nat) (full : List (BlockHash D)) (buf : List UInt8) (w : UInt32) :
    (stepEvents H bs cap full buf w).2 = [] ∨
    (stepEvents H bs cap full buf w).2 = buf.drop (buf.length - bs) ∨
    (stepEvents H bs cap full buf w).2 = buf := by
  unfold stepEvents
  cases findMatch H full w (buf.drop (buf.length - bs)) with
  | some p => simp
  | none => by_cases hc : buf.length = cap <;> simp [hc]

theorem stepEvents_buf_ok (bs cap : Nat) (full : List (BlockHash D)) (buf : List UInt8) (w : UInt32)
    (hb : bs ≤ buf.length) :
    (stepEvents H bs cap full buf w).2 = [] ∨ bs ≤ (stepEvents H bs cap full buf w).2.length := by
  rcases stepEvents_buf_cases H bs cap full buf w with h | h | h
  · exact Or.inl h
  · right; rw [h]; simp only [List.length_drop]; omega
  · right; rw [h]; exact hb

theorem loopEvents_exit_ok (bs cap : Nat) (full : List (BlockHash D)) (hbs : 0 < bs)
    (fuel : Nat) (t buf : List UInt8) (r1 r2 : UInt32)
    (hf : t.length < fuel) (hb : buf = [] ∨ bs ≤ buf.length) :
    (loopEvents H bs cap full fuel t buf r1 r2).2.2 = .ok := by
  induction fuel generalizing t buf r1 r2 with
  | zero => omega
  | succ fuel ih =>
    unfold loopEvents
    by_cases he : buf.isEmpty
    · simp only [he, if_true]
      by_cases ht : t.length < bs
      · simp [ht]
      · simp only [ht, if_false]
        apply ih
        · simp only [List.length_drop]; omega
        · apply stepEvents_buf_ok
          simp only [List.length_take]; omega
    · simp only [he]
      have hne : buf ≠ [] := by simpa using he
      have hlen : bs ≤ buf.length := by
        rcases hb with h | h
        · exact absurd h hne
        · exact h
      have : ¬ buf.length < bs := by omega
      simp only [this, if_false]
      cases t with
      | nil => simp
      | cons b t' =>
        simp only
        apply ih
        · simp only [List.length_cons] at hf; omega
        · apply stepEvents_buf_ok
          simp only [List.length_append, List.length_cons, List.length_nil]; omega

theorem coreEvents_exit_ok (sig : Signature D) (maxOp : Nat) (target : List UInt8)
    (hbs : 0 < sig.blockSize) : (coreEvents H sig maxOp target).2 = .ok := by
  unfold coreEvents
  have h := loopEvents_exit_ok H sig.blockSize (maxOp + sig.blockSize) (fullHashes sig) hbs
    (target.length + 1) target [] 0 0 (Nat.lt_succ_self _) (Or.inl rfl)
  by_cases hm : shortMatch H sig (loopEvents H sig.blockSize (maxOp + sig.blockSize) (fullHashes sig)
    (target.length + 1) target [] 0 0).2.1 = true <;> simp [h, hm]

end

/-! ## The real closures: from closure calls to transmitted operations -/

section
variable {τ : Type} (xmit : Operation → τ → τ × Bool)

/-- Hand operations to the transmitter, in order, until a call fails. -/
def runOps : List Operation → τ → τ × Bool
  | [], tx => (tx, false)
  | o :: os, tx => if (xmit o tx).2 then ((xmit o tx).1, true) else runOps os (xmit o tx).1

theorem runOps_append (a b : List Operation) (tx : τ) :
    runOps xmit (a ++ b) tx =
      (if (runOps xmit a tx).2 then ((runOps xmit a tx).1, true)
       else runOps xmit b (runOps xmit a tx).1) := by
  induction a generalizing tx with
  | nil => simp [runOps]
  | cons o os ih =>
    simp only [List.cons_append, runOps]
    by_cases h : (xmit o tx).2 = true <;> simp [h, ih]

/-- The data operations `sendData`'s chunking loop produces. -/
def chunks (maxOp : Nat) : Nat → List UInt8 → List Operation
  | 0, _ => []
  | fuel + 1, data =>
    if data.length > 0 then
      dataOp (data.take (min data.length maxOp)) :: chunks maxOp fuel (data.drop (min data.length maxOp))
    else []

theorem chunkLoop_eq (maxOp : Nat) (hm : 0 < maxOp) (fuel : Nat) (data : List UInt8) (tx : τ)
    (hf : data.length ≤ fuel) :
    chunkLoop xmit maxOp fuel data tx = runOps xmit (chunks maxOp fuel data) tx := by
  induction fuel generalizing data tx with
  | zero =>
    have : data = [] := List.eq_nil_of_length_eq_zero (by omega)
    simp [chunkLoop, chunks, runOps, this]
  | succ fuel ih =>
    unfold chunkLoop chunks
    by_cases hd : data.length > 0
    · simp only [hd, if_true, runOps]
      by_cases hx : (xmit (dataOp (data.take (min data.length maxOp))) tx).2 = true
      · simp [hx]
      · simp only [hx]
        rw [ih _ _ (by simp only [List.length_drop]; omega)]
    · simp [hd, runOps]

/-- The data operations of `chunkAndTransmitAll`. -/
def chunksAll (maxOp : Nat) : Nat → List UInt8 → List Operation
  | 0, _ => []
  | fuel + 1, t =>
    if t.isEmpty then []
    else if t.length < maxOp then [dataOp t]
    else dataOp (t.take maxOp) :: chunksAll maxOp fuel (t.drop maxOp)

theorem chunkAll_eq (maxOp : Nat) (hm : 0 < maxOp) (fuel : Nat) (t : List UInt8) (tx : τ)
    (hf : t.length < fuel) :
    chunkAll xmit maxOp fuel t tx = runOps xmit (chunksAll maxOp fuel t) tx := by
  induction fuel generalizing t tx with
  | zero => omega
  | succ fuel ih =>
    unfold chunkAll chunksAll
    by_cases he : t.isEmpty
    · simp [he, runOps]
    · simp only [he]
      by_cases hl : t.length < maxOp
      · simp only [hl, if_true]
        by_cases hx : (xmit (dataOp t) tx).2 = true <;> simp [hx, runOps]
      · simp only [hl, if_false]
        have hne : t ≠ [] := by simpa using he
        have hpos : 0 < t.length := List.length_pos_iff.mpr hne
        by_cases hx : (xmit (dataOp (t.take maxOp)) tx).2 = true
        · simp [hx, runOps]
        · simp only [hx]
          rw [ih _ _ (by simp only [List.length_drop]; omega)]
          simp [hx, runOps]

/-- The flush `sendData` performs before sending data. -/
def dataPre (d : List UInt8) (co : Co) : List Operation :=
  if d.length > 0 ∧ co.count > 0 then [blockOp co.start co.count] else []

def dataCo (d : List UInt8) (co : Co) : Co :=
  if d.length > 0 ∧ co.count > 0 then { start := 0, count := 0 } else co

/-- The flush `sendBlock` performs when the new block does not extend the pending run. -/
def blockPre (i : Nat) (co : Co) : List Operation :=
  if co.count > 0 ∧ co.start + co.count ≠ i then [blockOp co.start co.count] else []

def blockCo (i : Nat) (co : Co) : Co :=
  if co.count > 0 ∧ co.start + co.count = i then { co with count := co.count + 1 }
  else { start := i, count := 1 }

theorem sendData_eq (maxOp : Nat) (hm : 0 < maxOp) (d : List UInt8) (co : Co) (tx : τ) :
    ∃ coE, sendData xmit maxOp d (co, tx) =
        ((coE, (runOps xmit (dataPre d co ++ chunks maxOp d.length d) tx).1),
          (runOps xmit (dataPre d co ++ chunks maxOp d.length d) tx).2) ∧
      ((runOps xmit (dataPre d co ++ chunks maxOp d.length d) tx).2 = false → coE = dataCo d co) := by
  unfold sendData dataPre dataCo
  by_cases hc : d.length > 0 ∧ co.count > 0
  · simp only [hc, and_self, if_true, List.cons_append, List.nil_append, runOps]
    by_cases hx : (xmit (blockOp co.start co.count) tx).2 = true
    · exact ⟨co, by simp [hx], by simp [hx]⟩
    · refine ⟨{ start := 0, count := 0 }, ?_, fun _ => rfl⟩
      simp only [hx]
      rw [chunkLoop_eq xmit maxOp hm _ _ _ (Nat.le_refl _)]
      simp
  · refine ⟨co, ?_, fun _ => by simp [hc]⟩
    simp only [hc, if_false, List.nil_append]
    rw [chunkLoop_eq xmit maxOp hm _ _ _ (Nat.le_refl _)]

theorem sendBlock_eq (i : Nat) (co : Co) (tx : τ) :
    ∃ coE, sendBlock xmit true i (co, tx) =
        ((coE, (runOps xmit (blockPre i co) tx).1), (runOps xmit (blockPre i co) tx).2) ∧
      ((runOps xmit (blockPre i co) tx).2 = false → coE = blockCo i co) := by
  unfold sendBlock blockPre blockCo
  by_cases hc : co.count > 0
  · by_cases he : co.start + co.count = i
    · exact ⟨{ co with count := co.count + 1 }, by simp [hc, he, runOps], by simp [hc, he]⟩
    · by_cases hx : (xmit (blockOp co.start co.count) tx).2 = true
      · exact ⟨co, by simp [hc, he, runOps, hx], by simp [hc, he, runOps, hx]⟩
      · exact ⟨{ start := i, count := 1 }, by simp [hc, he, runOps, hx], by simp [hc, he]⟩
  · exact ⟨{ start := i, count := 1 }, by simp [hc, runOps], by simp [hc]⟩

/-- The operations the real closures transmit for a list of closure calls,
starting from coalescing state `co`, and the coalescing state they end in. -/
def evOps (maxOp : Nat) : List Event → Co → List Operation × Co
  | [], co => ([], co)
  | .data d :: es, co =>
    (dataPre d co ++ chunks maxOp d.length d ++ (evOps maxOp es (dataCo d co)).1,
      (evOps maxOp es (dataCo d co)).2)
  | .block i :: es, co =>
    (blockPre i co ++ (evOps maxOp es (blockCo i co)).1, (evOps maxOp es (blockCo i co)).2)

theorem runEvents_real_step (maxOp : Nat) (P : List Operation) (rest : List Event) (co' : Co) (tx : τ)
    (r : (Co × τ) × Bool) (coE : Co)
    (h1 : r = ((coE, (runOps xmit P tx).1), (runOps xmit P tx).2))
    (h2 : (runOps xmit P tx).2 = false → coE = co')
    (ih : ∀ (co : Co) (tx : τ), ∃ coE,
      runEvents (sendData xmit maxOp) (sendBlock xmit true) rest (co, tx) =
        ((coE, (runOps xmit (evOps maxOp rest co).1 tx).1), (runOps xmit (evOps maxOp rest co).1 tx).2) ∧
      ((runOps xmit (evOps maxOp rest co).1 tx).2 = false → coE = (evOps maxOp rest co).2)) :
    ∃ coF, (if r.2 = true then (r.1, true)
        else runEvents (sendData xmit maxOp) (sendBlock xmit true) rest r.1) =
        ((coF, (runOps xmit (P ++ (evOps maxOp rest co').1) tx).1),
          (runOps xmit (P ++ (evOps maxOp rest co').1) tx).2) ∧
      ((runOps xmit (P ++ (evOps maxOp rest co').1) tx).2 = false → coF = (evOps maxOp rest co').2) := by
  subst h1
  rw [runOps_append]
  by_cases hx : (runOps xmit P tx).2 = true
  · exact ⟨coE, by simp [hx], by simp [hx]⟩
  · have hco := h2 (by simpa using hx)
    subst hco
    obtain ⟨coF, h3, h4⟩ := ih coE (runOps xmit P tx).1
    exact ⟨coF, by simpa [hx] using h3, by simpa [hx] using h4⟩

theorem runEvents_real (maxOp : Nat) (hm : 0 < maxOp) (evs : List Event) (co : Co) (tx : τ) :
    ∃ coE, runEvents (sendData xmit maxOp) (sendBlock xmit true) evs (co, tx) =
        ((coE, (runOps xmit (evOps maxOp evs co).1 tx).1), (runOps xmit (evOps maxOp evs co).1 tx).2) ∧
      ((runOps xmit (evOps maxOp evs co).1 tx).2 = false → coE = (evOps maxOp evs co).2) := by
  induction evs generalizing co tx with
  | nil => exact ⟨co, by simp [runEvents, evOps, runOps], by simp [evOps]⟩
  | cons e es ih =>
    cases e with
    | data d =>
      obtain ⟨coE, h1, h2⟩ := sendData_eq xmit maxOp hm d co tx
      simp only [runEvents, evOps]
      exact runEvents_real_step xmit maxOp _ es (dataCo d co) tx _ coE h1 h2 ih
    | block i =>
      obtain ⟨coE, h1, h2⟩ := sendBlock_eq xmit i co tx
      simp only [runEvents, evOps]
      exact runEvents_real_step xmit maxOp _ es (blockCo i co) tx _ coE h1 h2 ih

end

/-! ## The plan: the operations of the failure-free run -/

section
variable {D : Type} [DecidableEq D] (H : List UInt8 → D)

def flushOps (co : Co) : List Operation :=
  if co.count > 0 then [blockOp co.start co.count] else []

/-- `maxDataOpSize` after defaulting. -/
def effMaxOp (maxDataOpSize : Nat) : Nat :=
  if maxDataOpSize = 0 then Mutagen.Facts.rsyncDefaultMaxDataOpSize else maxDataOpSize

theorem effMaxOp_pos (n : Nat) : 0 < effMaxOp n := by
  unfold effMaxOp
  by_cases h : n = 0
  · simp [h, Mutagen.Facts.rsyncDefaultMaxDataOpSize]
  · simp [h]; omega

/-- The operation list `Deltify` transmits when no transmission fails, and how
that run ends (`.ok`; `.panic`/`.fuel` are excluded by `plan_exit_ok`). -/
def plan (target : List UInt8) (sig : Signature D) (maxDataOpSize : Nat) : List Operation × Exit :=
  if sig.hashes.length = 0 then
    (chunksAll (effMaxOp maxDataOpSize) (target.length + 1) target, .ok)
  else
    let ce := coreEvents H sig (effMaxOp maxDataOpSize) target
    let eo := evOps (effMaxOp maxDataOpSize) ce.1 { start := 0, count := 0 }
    if ce.2 != .ok then (eo.1, ce.2) else (eo.1 ++ flushOps eo.2, .ok)

/-- **Deltify, for every transmitter, hands the plan to the transmitter in order,
stops at the first failing call, and reports that failure.** -/
theorem deltify_eq_runOps {τ : Type} (xmit : Operation → τ → τ × Bool) (target : List UInt8)
    (sig : Signature D) (maxDataOpSize : Nat) (tx0 : τ) :
    deltify xmit H true target sig maxDataOpSize tx0 =
      ((runOps xmit (plan H target sig maxDataOpSize).1 tx0).1,
        if (runOps xmit (plan H target sig maxDataOpSize).1 tx0).2 then Exit.err
        else (plan H target sig maxDataOpSize).2) := by
  have hm := effMaxOp_pos maxDataOpSize
  unfold deltify plan
  change _ = _
  by_cases hh : sig.hashes.length = 0
  · simp only [hh, if_true]
    rw [show (if maxDataOpSize = 0 then Mutagen.Facts.rsyncDefaultMaxDataOpSize else maxDataOpSize)
      = effMaxOp maxDataOpSize from rfl]
    rw [chunkAll_eq xmit _ hm _ _ _ (Nat.lt_succ_self _)]
  · simp only [hh, if_false]
    rw [show (if maxDataOpSize = 0 then Mutagen.Facts.rsyncDefaultMaxDataOpSize else maxDataOpSize)
      = effMaxOp maxDataOpSize from rfl]
    rw [deltifyCore_eq]
    generalize coreEvents H sig (effMaxOp maxDataOpSize) target = ce
    obtain ⟨evs, ex⟩ := ce
    obtain ⟨coE, h1, h2⟩ := runEvents_real xmit (effMaxOp maxDataOpSize) hm evs { start := 0, count := 0 } tx0
    simp only [h1]
    by_cases hx : (runOps xmit (evOps (effMaxOp maxDataOpSize) evs { start := 0, count := 0 }).1 tx0).2 = true
    · by_cases hex : ex = .ok
      · simp [hx, hex, runOps_append]
      · simp [hx, hex]
    · have hco := h2 (by simpa using hx)
      subst hco
      by_cases hex : ex = .ok
      · simp only [hx, hex, runOps_append]
        unfold flushOps
        by_cases hc : (evOps (effMaxOp maxDataOpSize) evs { start := 0, count := 0 }).2.count > 0
        · by_cases hf : (xmit (blockOp (evOps (effMaxOp maxDataOpSize) evs { start := 0, count := 0 }).2.start
              (evOps (effMaxOp maxDataOpSize) evs { start := 0, count := 0 }).2.count)
              (runOps xmit (evOps (effMaxOp maxDataOpSize) evs { start := 0, count := 0 }).1 tx0).1).2 = true
            <;> simp [hc, hf, hx, runOps, runOps_append]
        · simp [hc, hx, runOps, runOps_append]
      · simp [hx, hex]

/-- With a valid signature (non-zero block size unless there are no hashes) the
failure-free run ends normally: the Go `panic` is unreachable and the model's
fuel is sufficient. -/
theorem plan_exit_ok (target : List UInt8) (sig : Signature D) (maxDataOpSize : Nat)
    (hv : sig.hashes.length = 0 ∨ 0 < sig.blockSize) : (plan H target sig maxDataOpSize).2 = .ok := by
  unfold plan
  by_cases hh : sig.hashes.length = 0
  · simp [hh]
  · have hbs : 0 < sig.blockSize := by
      rcases hv with h | h
      · exact absurd h hh
      · exact h
    simp [hh, coreEvents_exit_ok H sig _ target hbs]

end

/-! ## The scripted transmitter -/

theorem runOps_scripted_ok (fails : Nat → Bool) (ops : List Operation) (tx : Tx)
    (h : (runOps (Tx.transmit fails) ops tx).2 = false) :
    (runOps (Tx.transmit fails) ops tx).1.revLog = (ops.map (·, true)).reverse ++ tx.revLog ∧
    (runOps (Tx.transmit fails) ops tx).1.calls = tx.calls + ops.length ∧
    ∀ i, i < ops.length → fails (tx.calls + i) = false := by
  induction ops generalizing tx with
  | nil => simp [runOps]
  | cons o os ih =>
    simp only [runOps] at h ⊢
    by_cases hx : (Tx.transmit fails o tx).2 = true
    · simp [hx] at h
    · simp only [hx, Bool.false_eq_true, if_false] at h ⊢
      have hf : fails tx.calls = false := by simpa [Tx.transmit] using hx
      obtain ⟨h1, h2, h3⟩ := ih (Tx.transmit fails o tx).1 (by simpa using h)
      refine ⟨?_, ?_, ?_⟩
      · rw [h1]
        simp [Tx.transmit, hf]
      · rw [h2]
        simp [Tx.transmit]; omega
      · intro i hi
        cases i with
        | zero => simpa using hf
        | succ i =>
          have := h3 i (by simp only [List.length_cons] at hi; omega)
          simp only [Tx.transmit] at this
          rw [← this]; congr 1; omega

theorem runOps_scripted_err (fails : Nat → Bool) (ops : List Operation) (tx : Tx)
    (h : (runOps (Tx.transmit fails) ops tx).2 = true) :
    ∃ k, ∃ hk : k < ops.length, fails (tx.calls + k) = true ∧ (∀ i, i < k → fails (tx.calls + i) = false) ∧
      (runOps (Tx.transmit fails) ops tx).1.revLog =
        (ops[k], false) :: ((ops.take k).map (·, true)).reverse ++ tx.revLog := by
  induction ops generalizing tx with
  | nil => simp [runOps] at h
  | cons o os ih =>
    simp only [runOps] at h ⊢
    by_cases hx : (Tx.transmit fails o tx).2 = true
    · have hf : fails tx.calls = true := by simpa [Tx.transmit] using hx
      refine ⟨0, by simp, by simpa using hf, by simp, ?_⟩
      simp [hx, Tx.transmit, hf]
    · simp only [hx, Bool.false_eq_true, if_false] at h ⊢
      have hf : fails tx.calls = false := by simpa [Tx.transmit] using hx
      obtain ⟨k, hk, h1, h2, h3⟩ := ih (Tx.transmit fails o tx).1 (by simpa using h)
      refine ⟨k + 1, by simp only [List.length_cons]; omega, ?_, ?_, ?_⟩
      · simp only [Tx.transmit] at h1
        rw [← h1]; congr 1; omega
      · intro i hi
        cases i with
        | zero => simpa using hf
        | succ i =>
          have := h2 i (by omega)
          simp only [Tx.transmit] at this
          rw [← this]; congr 1; omega
      · rw [h3]
        simp [Tx.transmit, hf]

theorem runOps_scripted_no_failure (fails : Nat → Bool) (ops : List Operation) (tx : Tx)
    (h : ∀ i, i < ops.length → fails (tx.calls + i) = false) :
    (runOps (Tx.transmit fails) ops tx).2 = false := by
  cases hr : (runOps (Tx.transmit fails) ops tx).2 with
  | false => rfl
  | true =>
    obtain ⟨k, hk, h1, _, _⟩ := runOps_scripted_err fails ops tx hr
    rw [h k hk] at h1
    exact absurd h1 (by simp)

theorem scripted_log_ok (fails : Nat → Bool) (ops : List Operation)
    (h : (runOps (Tx.transmit fails) ops Tx.empty).2 = false) :
    (runOps (Tx.transmit fails) ops Tx.empty).1.log = ops.map (·, true) ∧
    (runOps (Tx.transmit fails) ops Tx.empty).1.delivered = ops ∧
    ∀ i, i < ops.length → fails i = false := by
  obtain ⟨h1, _, h3⟩ := runOps_scripted_ok fails ops Tx.empty h
  have hlog : (runOps (Tx.transmit fails) ops Tx.empty).1.log = ops.map (·, true) := by
    unfold Tx.log
    rw [h1]
    simp [Tx.empty]
  refine ⟨hlog, ?_, ?_⟩
  · unfold Tx.delivered
    rw [hlog]
    simp [List.filter_map, List.map_map, Function.comp_def]
  · intro i hi
    have := h3 i hi
    simpa [Tx.empty] using this

theorem scripted_log_err (fails : Nat → Bool) (ops : List Operation)
    (h : (runOps (Tx.transmit fails) ops Tx.empty).2 = true) :
    ∃ k, ∃ hk : k < ops.length, fails k = true ∧ (∀ i, i < k → fails i = false) ∧
      (runOps (Tx.transmit fails) ops Tx.empty).1.log = (ops.take k).map (·, true) ++ [(ops[k], false)] := by
  obtain ⟨k, hk, h1, h2, h3⟩ := runOps_scripted_err fails ops Tx.empty h
  refine ⟨k, hk, by simpa [Tx.empty] using h1, ?_, ?_⟩
  · intro i hi
    have := h2 i hi
    simpa [Tx.empty] using this
  · unfold Tx.log
    rw [h3]
    simp [Tx.empty]

theorem scripted_no_failure (fails : Nat → Bool) (ops : List Operation)
    (h : ∀ i, i < ops.length → fails i = false) :
    (runOps (Tx.transmit fails) ops Tx.empty).2 = false :=
  runOps_scripted_no_failure fails ops Tx.empty (by intro i hi; simpa [Tx.empty] using h i hi)

/-! ## Transmit -/

/-- Every `Receive` call logged so far succeeded. -/
def RxAllOk (rx : Rx) : Prop := ∀ e ∈ rx.revLog, e.2 = true

theorem receive_allOk (fails : Nat → Bool) (msg : Msg) (rx : Rx)
    (h : (rx.receive fails msg).2 = false) (ha : RxAllOk rx) : RxAllOk (rx.receive fails msg).1 := by
  simp only [Rx.receive] at h ⊢
  intro e he
  simp only [List.mem_cons] at he
  rcases he with he | he
  · simp [he, h]
  · exact ha e he

theorem runOps_closure (fails : Nat → Bool) (ops : List Operation) (s : TState) :
    (runOps (transmitClosure fails) ops s).1.rx.finalized = s.rx.finalized ∧
    (s.transmitError = false →
      (runOps (transmitClosure fails) ops s).1.transmitError = (runOps (transmitClosure fails) ops s).2) ∧
    ((runOps (transmitClosure fails) ops s).2 = false → RxAllOk s.rx →
      RxAllOk (runOps (transmitClosure fails) ops s).1.rx) := by
  induction ops generalizing s with
  | nil => simp [runOps]
  | cons o os ih =>
    simp only [runOps]
    by_cases hx : (transmitClosure fails o s).2 = true
    · simp only [hx, if_true]
      refine ⟨by simp [transmitClosure, Rx.receive], ?_, by simp⟩
      intro _
      simp only [transmitClosure] at hx ⊢
      exact hx
    · simp only [hx, Bool.false_eq_true, if_false]
      obtain ⟨h1, h2, h3⟩ := ih (transmitClosure fails o s).1
      refine ⟨by rw [h1]; simp [transmitClosure, Rx.receive], ?_, ?_⟩
      · intro _
        apply h2
        simp only [transmitClosure] at hx ⊢
        simpa using hx
      · intro hr ha
        apply h3 hr
        simp only [transmitClosure] at hx ⊢
        exact receive_allOk fails _ _ (by simpa using hx) ha

section
variable {D : Type} [DecidableEq D] (H : List UInt8 → D)

/-- The per-file loop of the repaired `Transmit` finalizes the receiver exactly
once, and returns success only if every `Receive` call succeeded and the final
`finalize` did. -/
theorem transmitLoop_spec (fails : Nat → Bool) (ff : Bool)
    (files : List (Option (List UInt8) × Signature D)) (rx : Rx) :
    (transmitLoop H true fails ff files rx).1.finalized = rx.finalized + 1 ∧
    ((transmitLoop H true fails ff files rx).2 = false → ff = false ∧
      (RxAllOk rx → RxAllOk (transmitLoop H true fails ff files rx).1)) := by
  induction files generalizing rx with
  | nil => simp [transmitLoop, Rx.finalize, RxAllOk]
  | cons f rest ih =>
    obtain ⟨file, sig⟩ := f
    cases file with
    | none =>
      simp only [transmitLoop]
      by_cases hx : (rx.receive fails (.done true)).2 = true
      · have hf : fails rx.calls = true := by simpa [Rx.receive] using hx
        simp [hf, Rx.finalize, Rx.receive]
      · simp only [hx, Bool.false_eq_true, if_false]
        obtain ⟨h1, h2⟩ := ih (rx.receive fails (.done true)).1
        refine ⟨by rw [h1]; simp [Rx.receive], fun hr => ⟨(h2 hr).1, fun ha => ?_⟩⟩
        exact (h2 hr).2 (receive_allOk fails _ _ (by simpa using hx) ha)
    | some file =>
      simp only [transmitLoop]
      rw [deltify_eq_runOps]
      obtain ⟨c1, c2, c3⟩ := runOps_closure fails (plan H file sig 0).1
        { rx := rx, fileSize := file.length, transmitError := false }
      have c2 := c2 rfl
      by_cases hx : (runOps (transmitClosure fails) (plan H file sig 0).1
          { rx := rx, fileSize := file.length, transmitError := false }).2 = true
      · simp only [c2, hx, if_true]
        simp [Rx.finalize, c1]
      · simp only [c2, hx, Bool.false_eq_true, if_false]
        have c3 := c3 (by simpa using hx)
        generalize (runOps (transmitClosure fails) (plan H file sig 0).1
          { rx := rx, fileSize := file.length, transmitError := false }).1.rx = rx1 at c1 c3 ⊢
        generalize Msg.done ((plan H file sig 0).2 != Exit.ok) = msg
        simp only at c1 c3
        by_cases hy : (rx1.receive fails msg).2 = true
        · have hf : fails rx1.calls = true := by simpa [Rx.receive] using hy
          simp [hf, Rx.finalize, Rx.receive, c1]
        · simp only [hy, Bool.false_eq_true, if_false]
          obtain ⟨h1, h2⟩ := ih (rx1.receive fails msg).1
          refine ⟨by rw [h1]; simp [Rx.receive, c1], fun hr => ⟨(h2 hr).1, fun ha => ?_⟩⟩
          exact (h2 hr).2 (receive_allOk fails _ _ (by simpa using hy) (c3 ha))

end

end Mutagen.Proofs.Rsync
