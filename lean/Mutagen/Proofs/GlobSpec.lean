import Mutagen.Model.Glob
/-! Facts about the reference glob matcher `Glob.gmatch` (core Lean only). -/
namespace Mutagen.Proofs.GlobSpec
open Mutagen.Model.Glob

/-- A character that is not a glob metacharacter. -/
def plain (c : Char) : Bool := c != '*' && c != '?' && c != '['

theorem nullable_plain_cons (c : Char) (p : Str) (h : plain c = true) (hs : c ≠ '/') : nullable (c :: p) = false := by
  unfold plain at h
  simp only [Bool.and_eq_true, bne_iff_ne, ne_eq] at h
  unfold nullable
  have : (c :: p).dropWhile (· = '*') = c :: p := by
    simp [List.dropWhile_cons, h.1.1]
  simp [this, hs]

/-- A literal pattern (no `*`, `?`, `[`) matches exactly itself. -/
theorem matchFuel_literal : ∀ (p : Str) (fuel : Nat) (sos : Bool) (n : Str),
    p.all plain = true → p.length < fuel → matchFuel fuel p sos n = decide (p = n)
  | [], fuel, sos, n, _, hf => by
    cases fuel with
    | zero => omega
    | succ f =>
      cases n with
      | nil => simp [matchFuel, nullable]
      | cons a as => simp [matchFuel]
  | c :: p, fuel, sos, n, hp, hf => by
    simp only [List.all_cons, Bool.and_eq_true] at hp
    cases fuel with
    | zero => simp at hf
    | succ f =>
      have hc := hp.1
      unfold plain at hc
      simp only [Bool.and_eq_true, bne_iff_ne, ne_eq] at hc
      cases n with
      | nil =>
        simp only [matchFuel]
        by_cases hs : c = '/'
        · subst hs
          -- "/…" with a plain tail is nullable only if the tail is "**", which is not plain
          unfold nullable
          simp only [List.dropWhile_cons, show ¬ ('/' = '*') by decide, decide_false, Bool.false_eq_true, if_false]
          have : ¬ ('/' :: p = ['/', '*', '*']) := by
            intro h
            simp only [List.cons.injEq, true_and] at h
            rw [h] at hp
            simp [plain] at hp
          simp [this]
        · rw [nullable_plain_cons c p hp.1 hs]; simp
      | cons a as =>
        simp only [matchFuel, hc.1.1, hc.1.2, hc.2, if_false]
        rw [matchFuel_literal p f (c == '/') as hp.2 (by simp at hf; omega)]
        by_cases hca : c = a
        · subst hca; simp
        · simp [hca]

/-- **Literals**: a pattern without metacharacters matches exactly the equal name. -/
theorem gmatch_literal (p n : Str) (h : p.all plain = true) : gmatch p n = decide (p = n) := by
  unfold gmatch
  exact matchFuel_literal p (p.length + 1) true n h (by omega)

/-! ### `*`, `?` and classes never match the separator -/

theorem skipClass_subset : ∀ (p rest : Str), skipClass p = some rest → ∀ x ∈ rest, x ∈ p
  | [], rest, h => by simp [skipClass] at h
  | c :: cs, rest, h => by
    simp only [skipClass] at h
    split at h
    · cases h; intro x hx; simp [hx]
    · intro x hx; have := skipClass_subset cs rest h x hx; simp [this]

theorem classScan_subset (n : Char) : ∀ (p : Str) (last dash : Option Char),
    (∀ r, classScan n p last dash = .closed r → ∀ x ∈ r, x ∈ p) ∧
    (∀ r, classScan n p last dash = .matchedAt r → ∀ x ∈ r, x ∈ p)
  | [], last, dash => by simp [classScan]
  | c :: cs, last, some lo => by
    have ih := classScan_subset n cs none none
    simp only [classScan]
    refine ⟨?_, ?_⟩ <;> intro r h <;> (split at h)
    · split at h
      · cases h
      · cases h; intro x hx; simp [hx]
    · split at h
      · cases h
      · intro x hx; have := ih.1 r h x hx; simp [this]
    · split at h
      · cases h; intro x hx; exact hx
      · cases h
    · split at h
      · cases h; intro x hx; simp [hx]
      · intro x hx; have := ih.2 r h x hx; simp [this]
  | c :: cs, last, none => by
    simp only [classScan]
    refine ⟨?_, ?_⟩ <;> intro r h <;> (split at h)
    · cases h; intro x hx; simp [hx]
    · split at h
      · split at h
        · intro x hx; have := (classScan_subset n cs none _).1 r h x hx; simp [this]
        · split at h
          · cases h
          · intro x hx; have := (classScan_subset n cs _ none).1 r h x hx; simp [this]
      · split at h
        · cases h
        · intro x hx; have := (classScan_subset n cs _ none).1 r h x hx; simp [this]
    · cases h
    · split at h
      · split at h
        · intro x hx; have := (classScan_subset n cs none _).2 r h x hx; simp [this]
        · split at h
          · cases h; intro x hx; simp [hx]
          · intro x hx; have := (classScan_subset n cs _ none).2 r h x hx; simp [this]
      · split at h
        · cases h; intro x hx; simp [hx]
        · intro x hx; have := (classScan_subset n cs _ none).2 r h x hx; simp [this]

theorem classHead_subset (p : Str) : ∀ x ∈ (classHead p).2, x ∈ p := by
  intro x hx
  unfold classHead at hx
  split at hx
  · simp [hx]
  · simp [hx]
  · exact hx

theorem matchClass_subset (n : Char) (p rest : Str) (m : Bool) (h : matchClass n p = some (m, rest)) :
    ∀ x ∈ rest, x ∈ p := by
  unfold matchClass at h
  have hh := classHead_subset p
  generalize classHead p = hd at h hh
  obtain ⟨neg, body⟩ := hd
  simp only at h hh
  split at h
  · cases h
  · split at h
    · cases h
    · rename_i d tl _
      split at h
      · cases h
      · rename_i r hs
        simp only [Option.some.injEq, Prod.mk.injEq] at h
        obtain ⟨_, hr⟩ := h
        intro x hx
        rw [← hr] at hx
        exact hh x ((classScan_subset n _ none none).1 r hs x hx)
      · rename_i r hs
        cases hk : skipClass r with
        | none => simp [hk] at h
        | some r2 =>
          simp only [hk, Option.map_some, Option.some.injEq, Prod.mk.injEq] at h
          obtain ⟨_, hr⟩ := h
          subst hr
          intro x hx
          exact hh x ((classScan_subset n _ none none).2 r hs x (skipClass_subset r r2 hk x hx))

theorem starLoop_no_slash (k : Str → Bool) (hk : ∀ n, k n = true → '/' ∉ n) :
    ∀ n, starLoop k n = true → '/' ∉ n
  | [], _ => by simp
  | a :: as, h => by
    simp only [starLoop, Bool.or_eq_true, Bool.and_eq_true, bne_iff_ne, ne_eq] at h
    rcases h with h | ⟨ha, h⟩
    · exact hk _ h
    · have := starLoop_no_slash k hk as h
      simp [this, Ne.symm ha]

/-- Inside a segment (not at its start) a slash-free pattern only matches
slash-free names: `*`, `?` and classes never match the separator. -/
theorem matchFuel_no_slash : ∀ (fuel : Nat) (p n : Str),
    '/' ∉ p → matchFuel fuel p false n = true → '/' ∉ n
  | 0, p, n, _, h => by simp [matchFuel] at h
  | f + 1, p, [], _, _ => by simp
  | f + 1, [], a :: as, _, h => by simp [matchFuel] at h
  | f + 1, c :: p, a :: as, hp, h => by
    have hc : c ≠ '/' := by intro hc; subst hc; simp at hp
    have hp' : '/' ∉ p := by intro hx; exact hp (by simp [hx])
    simp only [matchFuel] at h
    split at h
    · -- '*'
      split at h
      · rename_i p2
        simp only [Bool.false_eq_true, if_false] at h
        have hp2 : '/' ∉ p2 := by intro hx; exact hp' (by simp [hx])
        exact starLoop_no_slash _ (fun n hn => matchFuel_no_slash f p2 n hp2 hn) _ h
      · exact starLoop_no_slash _ (fun n hn => matchFuel_no_slash f p n hp' hn) _ h
    · split at h
      · -- '?'
        simp only [Bool.and_eq_true, bne_iff_ne, ne_eq] at h
        have := matchFuel_no_slash f p as hp' h.2
        simp [this, Ne.symm h.1]
      · split at h
        · -- class
          split at h
          · cases h
          · rename_i m rest hm
            simp only [Bool.and_eq_true, bne_iff_ne, ne_eq] at h
            have hrest : '/' ∉ rest := by
              intro hx; exact hp' (matchClass_subset a p rest m hm _ hx)
            have := matchFuel_no_slash f rest as hrest h.2
            simp [this, Ne.symm h.1.2]
        · -- literal
          simp only [Bool.and_eq_true, beq_iff_eq] at h
          have hca : (c == '/') = false := by simp [hc]
          rw [hca] at h
          have := matchFuel_no_slash f p as hp' h.2
          have hac : a ≠ '/' := by rw [← h.1]; exact hc
          simp [this, Ne.symm hac]

/-- **Patterns without a slash match single components only** (the whole-path
match of a slash-free pattern can succeed only on slash-free paths; deeper
paths are reached through the base-name match of `ignorePattern.matches`).
The one exception is the pattern `**`, which matches everything. -/
theorem gmatch_slash_free (p n : Str) (hp : '/' ∉ p) (hds : p ≠ ['*', '*'])
    (h : gmatch p n = true) : '/' ∉ n := by
  unfold gmatch at h
  cases n with
  | nil => simp
  | cons a as =>
    cases p with
    | nil => simp [matchFuel] at h
    | cons c p' =>
      have hc : c ≠ '/' := by intro hc; subst hc; simp at hp
      have hp' : '/' ∉ p' := by intro hx; exact hp (by simp [hx])
      simp only [matchFuel, List.length_cons] at h
      split at h
      · split at h
        · rename_i p2
          have hp2 : '/' ∉ p2 := by intro hx; exact hp' (by simp [hx])
          simp only [if_true] at h
          split at h
          · exfalso; apply hds; simp_all
          · rename_i p3 _; exact absurd (by simp) hp2
          · exact starLoop_no_slash _ (fun n hn => matchFuel_no_slash _ p2 n hp2 hn) _ h
        · exact starLoop_no_slash _ (fun n hn => matchFuel_no_slash _ p' n hp' hn) _ h
      · split at h
        · simp only [Bool.and_eq_true, bne_iff_ne, ne_eq] at h
          have := matchFuel_no_slash _ p' as hp' h.2
          simp [this, Ne.symm h.1]
        · split at h
          · split at h
            · cases h
            · rename_i m rest hm
              simp only [Bool.and_eq_true, bne_iff_ne, ne_eq] at h
              have hrest : '/' ∉ rest := by
                intro hx; exact hp' (matchClass_subset a p' rest m hm _ hx)
              have := matchFuel_no_slash _ rest as hrest h.2
              simp [this, Ne.symm h.1.2]
          · simp only [Bool.and_eq_true, beq_iff_eq] at h
            have hca : (c == '/') = false := by simp [hc]
            rw [hca] at h
            have := matchFuel_no_slash _ p' as hp' h.2
            have hac : a ≠ '/' := by rw [← h.1]; exact hc
            simp [this, Ne.symm hac]

end Mutagen.Proofs.GlobSpec
