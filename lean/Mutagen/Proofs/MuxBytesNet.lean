/-
C23 at the level of the whole system: the byte invariant is inductive (given
the protocol invariant of C24, which excludes rejected deliveries and tells
that nothing has flowed before a stream object is created).
-/
import Mutagen.Proofs.MuxBytes
namespace Mutagen.Model.Mux

structure BInv (n : Net) : Prop where
  ab : ∀ X, Bytes n.a n.b n.ab X
  ba : ∀ X, Bytes n.b n.a n.ba X
  qa : ∀ X, Quiet n.a X
  qb : ∀ X, Quiet n.b X
  ra : ∀ X, RegClosed n.a X
  rb : ∀ X, RegClosed n.b X

theorem bviewAt_of {s : Side} {X : Nat} {st : Stream} (h : s.streams X = some st) :
    s.bviewAt X = some st.bview := by
  simp [Side.bviewAt, h]

theorem dataCat_nil_of_filter {X : Nat} {w : List Msg} (h : ∀ m ∈ onlyAbout X w, m.isDataOf X = false) :
    dataCat X w = [] := by
  induction w with
  | nil => rfl
  | cons m w ih =>
    by_cases hm : m.about X = true
    · rw [onlyAbout_cons_about _ hm] at h
      have h1 := h m List.mem_cons_self
      have ih' := ih fun m' hm' => h m' (List.mem_cons_of_mem _ hm')
      cases m <;> simp_all [dataCat, Msg.isDataOf, Msg.about, Msg.id]
    · have hm' : m.about X = false := by simpa using hm
      rw [onlyAbout_cons_other _ hm'] at h
      have ih' := ih h
      cases m <;> simp_all [dataCat, Msg.about, Msg.id]

theorem dataCat_nil_of_filter_about {X : Nat} {w : List Msg} (h : ∀ m ∈ onlyAbout X w, m.about X = false) :
    dataCat X w = [] := by
  apply dataCat_nil_of_filter
  intro m hm
  cases hd : m.isDataOf X with
  | false => rfl
  | true => have := isDataOf_about hd; simp [h m hm] at this

/-- What the protocol invariant says at the moment an open message is about to
create the acceptor's stream object: nothing has flowed yet. -/
theorem PerId.fresh_facts {o p : Side} {wop wpo : List Msg} {X win : Nat}
    (h : PerId o p (onlyAbout X (.open X win :: wop)) (onlyAbout X wpo) X) (hns : ¬ X ≤ p.largestIn) :
    p.streams X = none ∧ dataCat X wpo = [] ∧ dataCat X wop = [] ∧
    ∀ st, o.streams X = some st → st.established = false ∧ st.recvBuf = [] := by
  have hu := h.unseen hns
  have hn := h.p_none hu.sp
  refine ⟨hu.sp, dataCat_nil_of_filter_about hu.wpo, ?_, ?_⟩
  · -- the opener is not established, hence has sent no data
    obtain ⟨m, hm, hmo⟩ : ∃ m ∈ onlyAbout X (Msg.open X win :: wop), m.isOpenOf X = true :=
      ⟨.open X win, by simp [onlyAbout, Msg.about, Msg.id], by simp [Msg.isOpenOf]⟩
    obtain ⟨so, hso⟩ := h.open_o m hm hmo
    have hne := (hn.oEst so hso).1
    have hw := (h.o_unest so hso hne).wop
    have : dataCat X (Msg.open X win :: wop) = [] := dataCat_nil_of_filter hw
    simpa [dataCat] using this
  · intro st hs
    refine ⟨(hn.oEst st hs).1, ?_⟩
    have := hn.oBuf
    simp only [bufOf, hs] at this
    exact List.length_eq_zero_iff.mp this

theorem BInv.act_a {n : Net} (h : BInv n) (hi : InvN n) (hal : n.alive) (a : SAct) :
    BInv { n with a := (n.a.act a).1, ab := n.ab ++ (n.a.act a).2 } := by
  have hfree : n.a.nextOut ≠ 0 → n.a.streams n.a.nextOut = none ∧ n.b.streams n.a.nextOut = none := by
    intro hn
    have hp := hi.inv.per_a n.a.nextOut (hi.inv.dir_ab.next_out hn)
    have hu := hp.unused (by simp [Side.used])
    exact ⟨hu.so, hu.sp⟩
  have hst : ∀ X, BStep n.a (n.a.act a).1 (n.a.act a).2 X :=
    fun X => act_bstep n.a a X hal.1 (fun hn => (hfree hn).1)
  refine ⟨fun X => ?_, fun X => ?_, fun X => (h.qa X).step (hst X), h.qb,
    fun X => (h.ra X).step (hst X), h.rb⟩
  · exact (h.ab X).step_sender (hst X) (fun hx hn => by rw [hx]; exact (hfree hn).2)
  · exact (h.ba X).step_receiver (hst X) (fun hx hn => by rw [hx]; exact (hfree hn).2)

theorem BInv.act_b {n : Net} (h : BInv n) (hi : InvN n) (hal : n.alive) (a : SAct) :
    BInv { n with b := (n.b.act a).1, ba := n.ba ++ (n.b.act a).2 } := by
  have hfree : n.b.nextOut ≠ 0 → n.b.streams n.b.nextOut = none ∧ n.a.streams n.b.nextOut = none := by
    intro hn
    have hp := hi.inv.per_b n.b.nextOut (hi.inv.dir_ba.next_out hn)
    have hu := hp.unused (by simp [Side.used])
    exact ⟨hu.so, hu.sp⟩
  have hst : ∀ X, BStep n.b (n.b.act a).1 (n.b.act a).2 X :=
    fun X => act_bstep n.b a X hal.2 (fun hn => (hfree hn).1)
  refine ⟨fun X => ?_, fun X => ?_, h.qa, fun X => (h.qb X).step (hst X), h.ra,
    fun X => (h.rb X).step (hst X)⟩
  · exact (h.ab X).step_receiver (hst X) (fun hx hn => by rw [hx]; exact (hfree hn).2)
  · exact (h.ba X).step_sender (hst X) (fun hx hn => by rw [hx]; exact (hfree hn).2)

/-- One accepted delivery, seen from the two flows of stream `X` between a
receiving side `r` (inbox `m :: rest`, outbox `out`) and its peer `s`. -/
theorem Bytes.deliver {s r r' : Side} {m : Msg} {rest out : List Msg} {X : Nat}
    (hin : Bytes s r (m :: rest) X) (hout : Bytes r s out X) (qs : Quiet s X) (qr : Quiet r X)
    (st : BRecv r r' m X)
    (hfresh : ∀ win, m = .open X win → ¬ X ≤ r.largestIn →
      r.streams X = none ∧ dataCat X out = [] ∧ dataCat X rest = [] ∧
      ∀ st, s.streams X = some st → st.established = false ∧ st.recvBuf = []) :
    Bytes s r' rest X ∧ Bytes r' s out X ∧ Quiet r' X := by
  cases st with
  | same hv hm =>
    refine ⟨?_, ?_, ?_⟩
    · intro vs vr hvs hvr
      rw [hv] at hvr
      have h0 := hin vs vr hvs hvr
      by_cases hd : ∃ bs, m = .data X bs
      · obtain ⟨bs, rfl⟩ := hd
        obtain ⟨st0, hs0⟩ : ∃ st0, r.streams X = some st0 := by
          cases hs0 : r.streams X with
          | none => simp [Side.bviewAt, hs0] at hvr
          | some st0 => exact ⟨st0, rfl⟩
        have hreg := hm bs rfl st0 hs0
        have hvr' : vr = st0.bview := by simpa [Side.bviewAt, hs0] using hvr.symm
        refine ⟨fun hr => ?_, h0.2⟩
        rw [hvr'] at hr; simp [Stream.bview, hreg] at hr
      · have : dataCat X (m :: rest) = dataCat X rest :=
          dataCat_cons_other rest (fun bs he => hd ⟨bs, he⟩)
        rw [this] at h0; exact h0
    · intro vs vr hvs hvr
      rw [hv] at hvs
      exact hout vs vr hvs hvr
    · intro v hv' he
      rw [hv] at hv'; exact qr v hv' he
  | data st0 bs hm hs hr hv =>
    subst hm
    refine ⟨?_, ?_, ?_⟩
    · intro vs vr hvs hvr
      rw [hv] at hvr; cases hvr
      have h0 := (hin vs st0.bview hvs (by simp [Side.bviewAt, hs])).1 (by simp [Stream.bview, hr])
      refine ⟨fun _ => ?_, fun hr' => by simp at hr'⟩
      simp only [Stream.bview, dataCat, ↓reduceIte] at h0 ⊢
      rw [← h0]; simp [List.append_assoc]
    · intro vs vr hvs hvr
      rw [hv] at hvs; cases hvs
      simpa [Stream.bview] using hout st0.bview vr (by simp [Side.bviewAt, hs]) hvr
    · intro v hv' he
      rw [hv] at hv'; cases hv'
      exact qr st0.bview (by simp [Side.bviewAt, hs]) (by simpa [Stream.bview] using he)
  | fresh win hm hns hv =>
    obtain ⟨hnone, hdo, hdr, hso⟩ := hfresh win hm hns
    refine ⟨?_, ?_, ?_⟩
    · intro vs vr hvs hvr
      rw [hv] at hvr; cases hvr
      obtain ⟨st0, hs0⟩ : ∃ st0, s.streams X = some st0 := by
        cases hs0 : s.streams X with
        | none => simp [Side.bviewAt, hs0] at hvs
        | some st0 => exact ⟨st0, rfl⟩
      have hvs' : vs = st0.bview := by simpa [Side.bviewAt, hs0] using hvs.symm
      have hq := qs vs hvs (by rw [hvs']; simpa [Stream.bview] using (hso st0 hs0).1)
      refine ⟨fun _ => ?_, fun hr' => by simp at hr'⟩
      simp [hdr, hq.1]
    · intro vs vr hvs hvr
      rw [hv] at hvs; cases hvs
      obtain ⟨st0, hs0⟩ : ∃ st0, s.streams X = some st0 := by
        cases hs0 : s.streams X with
        | none => simp [Side.bviewAt, hs0] at hvr
        | some st0 => exact ⟨st0, rfl⟩
      have hvr' : vr = st0.bview := by simpa [Side.bviewAt, hs0] using hvr.symm
      have hq := qs vr hvr (by rw [hvr']; simpa [Stream.bview] using (hso st0 hs0).1)
      have hbuf : vr.recvBuf = [] := by rw [hvr']; simpa [Stream.bview] using (hso st0 hs0).2
      refine ⟨fun _ => ?_, fun _ => ?_⟩
      · simp [hq.2, hbuf, hdo]
      · simp [hq.2, hbuf]
    · intro v hv' he
      rw [hv] at hv'; cases hv'; exact ⟨rfl, rfl⟩
  | est st0 win hm hs hv =>
    subst hm
    refine ⟨?_, ?_, ?_⟩
    · intro vs vr hvs hvr
      rw [hv] at hvr; cases hvr
      have h0 := hin vs st0.bview hvs (by simp [Side.bviewAt, hs])
      simpa [Stream.bview, dataCat] using h0
    · intro vs vr hvs hvr
      rw [hv] at hvs; cases hvs
      simpa [Stream.bview] using hout st0.bview vr (by simp [Side.bviewAt, hs]) hvr
    · intro v hv' he
      rw [hv] at hv'; cases hv'; simp at he

theorem BInv.deliver_a {n : Net} (h : BInv n) (hi : InvN n) (hal : n.alive) (m : Msg) (rest : List Msg)
    (hba : n.ba = m :: rest) (a' : Side) (hd : n.a.deliver m = .ok a') :
    BInv { n with a := a', ba := rest } := by
  have key : ∀ X, Bytes n.b a' rest X ∧ Bytes a' n.b n.ab X ∧ Quiet a' X := by
    intro X
    refine Bytes.deliver (by have := h.ba X; rwa [hba] at this) (h.ab X) (h.qb X) (h.qa X)
      (deliver_brecv hd hal.1 X) ?_
    intro win hm hns
    subst hm
    have hob : n.b.isOutbound X = true := by
      have := hi.inv.dir_ba.opens_used X win (by rw [hba]; exact List.mem_cons_self)
      exact this.2
    have hp := hi.inv.per_b X hob
    rw [hba] at hp
    exact hp.fresh_facts hns
  exact ⟨fun X => (key X).2.1, fun X => (key X).1, fun X => (key X).2.2, h.qb,
    fun X => (h.ra X).recv (deliver_brecv hd hal.1 X), h.rb⟩

theorem BInv.deliver_b {n : Net} (h : BInv n) (hi : InvN n) (hal : n.alive) (m : Msg) (rest : List Msg)
    (hab : n.ab = m :: rest) (b' : Side) (hd : n.b.deliver m = .ok b') :
    BInv { n with b := b', ab := rest } := by
  have key : ∀ X, Bytes n.a b' rest X ∧ Bytes b' n.a n.ba X ∧ Quiet b' X := by
    intro X
    refine Bytes.deliver (by have := h.ab X; rwa [hab] at this) (h.ba X) (h.qa X) (h.qb X)
      (deliver_brecv hd hal.2 X) ?_
    intro win hm hns
    subst hm
    have hoa : n.a.isOutbound X = true := by
      have := hi.inv.dir_ab.opens_used X win (by rw [hab]; exact List.mem_cons_self)
      exact this.2
    have hp := hi.inv.per_a X hoa
    rw [hab] at hp
    exact hp.fresh_facts hns
  exact ⟨fun X => (key X).1, fun X => (key X).2.1, h.qa, fun X => (key X).2.2, h.ra,
    fun X => (h.rb X).recv (deliver_brecv hd hal.2 X)⟩

theorem BInv.init (wa ka wb kb : Int) : BInv (Net.init wa ka wb kb) := by
  refine ⟨?_, ?_, ?_, ?_, ?_, ?_⟩ <;> intro X <;> intro v <;> simp [Net.init, Side.new, Side.bviewAt]

/-- The byte invariant is preserved by every step that leaves both sides up. -/
theorem BInv.step {n : Net} (h : BInv n) (hi : InvN n) (hal : n.alive) (act : Action) :
    BInv (n.step act) ∨ ¬ (n.step act).alive := by
  cases act with
  | act w a =>
    cases w with
    | a => exact Or.inl (h.act_a hi hal a)
    | b => exact Or.inl (h.act_b hi hal a)
  | deliver w =>
    have hok := hi.deliver_ok hal w
    cases w with
    | a =>
      simp only [Net.step, Net.deliver, Net.inbox] at hok ⊢
      cases hba : n.ba with
      | nil => exact Or.inl (by simpa [hba] using h)
      | cons m rest =>
        simp only [hba, Net.setInbox, Net.side, hal.1, Bool.false_eq_true, ↓reduceIte] at hok ⊢
        cases hd : n.a.deliver m with
        | error e => simp [hd] at hok
        | ok a' => exact Or.inl (by simpa [hd, Net.setSide] using h.deliver_a hi hal m rest hba a' hd)
    | b =>
      simp only [Net.step, Net.deliver, Net.inbox] at hok ⊢
      cases hab : n.ab with
      | nil => exact Or.inl (by simpa [hab] using h)
      | cons m rest =>
        simp only [hab, Net.setInbox, Net.side, hal.2, Bool.false_eq_true, ↓reduceIte] at hok ⊢
        cases hd : n.b.deliver m with
        | error e => simp [hd] at hok
        | ok b' => exact Or.inl (by simpa [hd, Net.setSide] using h.deliver_b hi hal m rest hab b' hd)
  | muxClose w =>
    right
    cases w <;> simp [Net.step, Net.fail, Net.side, Net.setSide, Net.alive, Who.peer, hal.1, hal.2]

/-- Only an explicit `Multiplexer.Close` ends the connection. -/
theorem alive_step {n : Net} (hi : InvN n) (hal : n.alive) (a : Action) (hno : ∀ w, a ≠ .muxClose w) :
    (n.step a).alive := by
  cases a with
  | act w s =>
    cases w
    · have := act_meta n.a s
      simpa [Net.step, Net.side, Net.setSide, Net.send, Net.alive, this.closedMux] using hal
    · have := act_meta n.b s
      simpa [Net.step, Net.side, Net.setSide, Net.send, Net.alive, this.closedMux] using hal
  | deliver w =>
    have hok := hi.deliver_ok hal w
    cases w with
    | a =>
      simp only [Net.step, Net.deliver, Net.inbox] at hok ⊢
      cases hba : n.ba with
      | nil => simpa [hba] using hal
      | cons m rest =>
        simp only [hba, Net.setInbox, Net.side, hal.1, Bool.false_eq_true, ↓reduceIte] at hok ⊢
        cases hd : n.a.deliver m with
        | error e => simp [hd] at hok
        | ok a' =>
          have hf := deliver_fields hd hal.1
          simp [Net.setSide, Net.alive, hf.2.2.2.1, hal.1, hal.2]
    | b =>
      simp only [Net.step, Net.deliver, Net.inbox] at hok ⊢
      cases hab : n.ab with
      | nil => simpa [hab] using hal
      | cons m rest =>
        simp only [hab, Net.setInbox, Net.side, hal.2, Bool.false_eq_true, ↓reduceIte] at hok ⊢
        cases hd : n.b.deliver m with
        | error e => simp [hd] at hok
        | ok b' =>
          have hf := deliver_fields hd hal.2
          simp [Net.setSide, Net.alive, hf.2.2.2.1, hal.1, hal.2]
  | muxClose w => exact absurd rfl (hno w)

/-- Every state reachable without an explicit `Multiplexer.Close` has both
multiplexers up and satisfies the protocol and the byte invariants. -/
theorem reach_all (n : Net) (hal : n.alive) (hi : InvN n) (hb : BInv n) (acts : List Action)
    (hno : ∀ a ∈ acts, ∀ w, a ≠ .muxClose w) :
    (n.run acts).alive ∧ InvN (n.run acts) ∧ BInv (n.run acts) := by
  induction acts generalizing n with
  | nil => exact ⟨hal, hi, hb⟩
  | cons a as ih =>
    have hal' := alive_step hi hal a (hno a List.mem_cons_self)
    have hi' := hi.step hal a hal'
    have hb' : BInv (n.step a) := by
      rcases hb.step hi hal a with h | h
      · exact h
      · exact absurd hal' h
    exact ih _ hal' hi' hb' (fun a' ha' => hno a' (List.mem_cons_of_mem _ ha'))

/-- What a reader concludes from EOF, given what the protocol invariant says
about the flags it has seen. -/
theorem eof_generic {s r : Side} {w : List Msg} {X k now : Nat} (hb : Bytes s r w X) (hr : RegClosed r X)
    (heof : (r.read X k now).2 = .eof)
    (hrcw : ∀ Rs, r.streams X = some Rs → Rs.remoteClosedWrite = true →
      (∃ Ss, s.streams X = some Ss ∧ Ss.closedWrite = true) ∧ dataCat X w = [])
    (hrc : ∀ Rs, r.streams X = some Rs → Rs.remoteClosed = true →
      (∃ Ss, s.streams X = some Ss ∧ Ss.closedWrite = true) ∧ dataCat X w = []) :
    ∃ Rs Ss, r.streams X = some Rs ∧ s.streams X = some Ss ∧ Ss.closedWrite = true ∧ Rs.got = Ss.sent := by
  unfold Side.read at heof
  cases hs : r.streams X with
  | none => simp [hs] at heof
  | some Rs =>
    simp only [hs] at heof
    by_cases h1 : Rs.closed = true
    · simp [h1] at heof
    · simp only [h1, Bool.false_eq_true, ↓reduceIte] at heof
      by_cases h2 : r.closedMux = true
      · simp [h2] at heof
      · simp only [h2, Bool.false_eq_true, ↓reduceIte] at heof
        by_cases h3 : Rs.readExpired = true
        · simp [h3] at heof
        · simp only [h3, Bool.false_eq_true, ↓reduceIte] at heof
          by_cases h4 : (Rs.readTimer.any fun x => decide (x ≤ now)) = true
          · simp [h4] at heof
          · simp only [h4, Bool.false_eq_true, ↓reduceIte] at heof
            by_cases h5 : Rs.recvBuf = []
            · simp only [h5, ne_eq, not_true_eq_false, ↓reduceIte] at heof
              by_cases h6 : (Rs.remoteClosedWrite = true ∨ Rs.remoteClosed = true)
              · have hfacts : (∃ Ss, s.streams X = some Ss ∧ Ss.closedWrite = true) ∧ dataCat X w = [] := by
                  rcases h6 with h6 | h6
                  · exact hrcw Rs hs h6
                  · exact hrc Rs hs h6
                obtain ⟨⟨Ss, hSs, hcw⟩, hd⟩ := hfacts
                refine ⟨Rs, Ss, rfl, hSs, hcw, ?_⟩
                have hreg : Rs.registered = true := by
                  cases hh : Rs.registered with
                  | true => rfl
                  | false =>
                    have := hr Rs.bview (by simp [Side.bviewAt, hs]) (by simpa [Stream.bview] using hh)
                    simp [Stream.bview] at this
                    simp [this] at h1
                have := (hb Ss.bview Rs.bview (by simp [Side.bviewAt, hSs]) (by simp [Side.bviewAt, hs])).1
                  (by simpa [Stream.bview] using hreg)
                simpa [Stream.bview, h5, hd] using this
              · simp [h6] at heof
            · simp only [ne_eq, h5, not_false_eq_true, ↓reduceIte] at heof
              cases heof

end Mutagen.Model.Mux
