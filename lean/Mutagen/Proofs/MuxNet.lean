/-
The invariant is inductive: it holds initially and every step of the
transition system (`Net.step`) that leaves both multiplexers up preserves it.
-/
import Mutagen.Proofs.MuxLiftD
import Mutagen.Proofs.MuxMeta
namespace Mutagen.Model.Mux

/-! ### accepted deliveries and the non-per-identifier fields -/

theorem deliver_fields {s s' : Side} {m : Msg} (hd : s.deliver m = .ok s') (hc : s.closedMux = false) :
    s'.even = s.even ∧ s'.window = s.window ∧ s'.nextOut = s.nextOut ∧ s'.closedMux = s.closedMux ∧
    s'.internalErr = s.internalErr ∧
    ((∀ id win, m ≠ .open id win) → s'.largestIn = s.largestIn ∧ s'.backlog = s.backlog) := by
  cases m with
  | heartbeat => simp only [Side.deliver] at hd; cases hd; simp
  | «open» Y win =>
    obtain ⟨_, _, hs⟩ := deliver_open_shape hd hc
    rcases hs with ⟨_, rfl⟩ | rfl
    · simp [Side.enqClose, hc]
    · simp [Side.setStream]
  | accept Y win =>
    rcases deliver_accept_shape hd with ⟨_, rfl⟩ | ⟨st, _, _, rfl⟩ <;> simp [Side.setStream]
  | data Y bs =>
    rcases deliver_data_shape hd with ⟨_, rfl⟩ | ⟨st, _, _, rfl⟩ <;> simp [Side.setStream]
  | incr Y a =>
    rcases deliver_incr_shape hd with ⟨_, rfl⟩ | ⟨st, _, _, rfl⟩ <;> simp [Side.setStream]
  | closeWrite Y =>
    rcases deliver_cw_shape hd with ⟨_, rfl⟩ | ⟨st, _, _, rfl⟩ <;> simp [Side.setStream]
  | close Y =>
    rcases deliver_close_shape hd with ⟨_, rfl⟩ | ⟨st, _, _, rfl⟩ <;> simp [Side.setStream]

theorem isOutbound_congr {s s' : Side} (h : s'.even = s.even) (Y : Nat) : s'.isOutbound Y = s.isOutbound Y := by
  simp [Side.isOutbound, h]

theorem isOutbound_add_two (s : Side) (Y : Nat) : s.isOutbound (Y + 2) = s.isOutbound Y := by
  simp [Side.isOutbound, Nat.add_mod]

/-! ### `OpensOK` and appended messages without opens -/

theorem opensOK_noopen (lo : Nat) (ms : List Msg) (h : ∀ id win, Msg.open id win ∉ ms) : OpensOK lo ms := by
  induction ms with
  | nil => trivial
  | cons m ms ih =>
    have ih' := ih fun id win hm => h id win (List.mem_cons_of_mem _ hm)
    cases m with
    | «open» id win => exact absurd List.mem_cons_self (h id win)
    | _ => simpa [OpensOK] using ih'

theorem opensOK_append_noopen (lo : Nat) (w ms : List Msg) (h : ∀ id win, Msg.open id win ∉ ms) :
    OpensOK lo (w ++ ms) ↔ OpensOK lo w := by
  induction w generalizing lo with
  | nil => simp [OpensOK, opensOK_noopen lo ms h]
  | cons x w ih => cases x <;> simp [OpensOK, ih]

/-! ### the direction facts -/

variable {o p : Side} {wop : List Msg}

theorem used_mono {s s' : Side} {Y : Nat}
    (h : s'.nextOut = s.nextOut ∨ (s.nextOut ≠ 0 ∧ s'.nextOut = if maxU64 - s.nextOut < 2 then 0 else s.nextOut + 2))
    (hu : s.used Y) : s'.used Y := by
  refine ⟨hu.1, ?_⟩
  rcases h with h | ⟨hn, h⟩
  · rw [h]; exact hu.2
  · rw [h]
    split
    · left; rfl
    · right; have := hu.2; omega

theorem Dir.act_o (d : Dir o p wop) (a : SAct) : Dir (o.act a).1 p (wop ++ (o.act a).2) := by
  have hm := act_meta o a
  have hcnt := (act_counters o a).1
  have hcnt' : (o.act a).1.nextOut = o.nextOut ∨
      (o.nextOut ≠ 0 ∧ (o.act a).1.nextOut = if maxU64 - o.nextOut < 2 then 0 else o.nextOut + 2) := by
    rcases hcnt with h | ⟨_, h1, h2⟩
    · exact Or.inl h
    · exact Or.inr ⟨h1, h2⟩
  have hmsg := act_msgs o a
  constructor
  · -- opens_sorted
    by_cases ho : ∃ id win, Msg.open id win ∈ (o.act a).2
    · obtain ⟨id, win, hin⟩ := ho
      obtain ⟨_, hn, hid, heq⟩ := hmsg.2 id win hin
      rw [heq, opensOK_append_open]
      refine ⟨d.opens_sorted, ?_, ?_⟩
      · rw [hid]; exact d.largest_lt hn
      · intro id' win' hm'
        have := (d.opens_used id' win' hm').1.2
        rw [hid]; omega
    · have : ∀ id win, Msg.open id win ∉ (o.act a).2 := fun id win hin => ho ⟨id, win, hin⟩
      rw [opensOK_append_noopen _ _ _ this]
      exact d.opens_sorted
  · -- opens_used
    intro id win hin
    rw [isOutbound_congr hm.even]
    rcases List.mem_append.mp hin with hin | hin
    · exact ⟨used_mono hcnt' (d.opens_used id win hin).1, (d.opens_used id win hin).2⟩
    · obtain ⟨ha, hn, hid, _⟩ := hmsg.2 id win hin
      subst ha
      have hcm : o.closedMux = false := by
        cases hcm : o.closedMux with
        | false => rfl
        | true => simp [Side.act, Side.openStream, hcm] at hin
      have hnx : (o.act .openStream).1.nextOut = if maxU64 - o.nextOut < 2 then 0 else o.nextOut + 2 := by
        simp [Side.act, Side.openStream, hcm, hn]
      refine ⟨⟨by omega, ?_⟩, by rw [hid]; exact d.next_out hn⟩
      rw [hnx, hid]
      split
      · left; rfl
      · right; omega
  · -- largest_lt
    intro hne
    rcases hcnt' with h | ⟨hn, h⟩
    · rw [h] at hne ⊢; exact d.largest_lt hne
    · rw [h] at hne ⊢
      split at hne
      · exact absurd rfl hne
      · rename_i hlt; simp only [hlt, ↓reduceIte]; have := d.largest_lt hn; omega
  · -- next_out
    intro hne
    rw [isOutbound_congr hm.even]
    rcases hcnt' with h | ⟨hn, h⟩
    · rw [h] at hne ⊢; exact d.next_out hne
    · rw [h] at hne ⊢
      split at hne
      · exact absurd rfl hne
      · rename_i hlt; simp only [hlt, ↓reduceIte]; rw [isOutbound_add_two]; exact d.next_out hn
  · exact d.nodup
  · intro hin
    rcases List.mem_append.mp hin with hin | hin
    · exact d.no_hb hin
    · exact hmsg.1 hin
  · rw [hm.window]; exact d.window_le

theorem Dir.act_p (d : Dir o p wop) (a : SAct) : Dir o (p.act a).1 wop := by
  have hm := act_meta p a
  have hb := (act_counters p a).2
  constructor
  · rw [hm.largestIn]; exact d.opens_sorted
  · exact d.opens_used
  · rw [hm.largestIn]; exact d.largest_lt
  · exact d.next_out
  · rcases hb with h | ⟨Y, h⟩
    · rw [h]; exact d.nodup
    · have := d.nodup; rw [h] at this; exact (List.nodup_cons.mp this).2
  · exact d.no_hb
  · exact d.window_le

theorem Dir.deliver_o {o' : Side} {m : Msg} (d : Dir o p wop) (hd : o.deliver m = .ok o')
    (hc : o.closedMux = false) : Dir o' p wop := by
  obtain ⟨he, hw, hn, _, _, _⟩ := deliver_fields hd hc
  constructor
  · exact d.opens_sorted
  · intro id win hin
    rw [isOutbound_congr he]
    exact ⟨⟨(d.opens_used id win hin).1.1, by rw [hn]; exact (d.opens_used id win hin).1.2⟩,
      (d.opens_used id win hin).2⟩
  · rw [hn]; exact d.largest_lt
  · rw [hn, isOutbound_congr he]; exact d.next_out
  · exact d.nodup
  · exact d.no_hb
  · rw [hw]; exact d.window_le

theorem Dir.deliver_p {p' : Side} {m : Msg} (d : Dir o p (m :: wop)) (hd : p.deliver m = .ok p')
    (hc : p.closedMux = false) (hle : ∀ Y ∈ p.backlog, Y ≤ p.largestIn) : Dir o p' wop := by
  have hf := deliver_fields hd hc
  cases m with
  | «open» Y win =>
    obtain ⟨hns, _, hs⟩ := deliver_open_shape hd hc
    have hsorted := d.opens_sorted
    simp only [OpensOK] at hsorted
    have hused := (d.opens_used Y win List.mem_cons_self).1
    have hlarge : p'.largestIn = Y := by
      rcases hs with ⟨_, rfl⟩ | rfl <;> simp [Side.enqClose, hc, Side.setStream]
    constructor
    · rw [hlarge]; exact hsorted.2
    · intro id win' hin; exact d.opens_used id win' (List.mem_cons_of_mem _ hin)
    · intro hne; rw [hlarge]; have := hused.2; omega
    · exact d.next_out
    · rcases hs with ⟨_, rfl⟩ | rfl
      · simpa [Side.enqClose, hc] using d.nodup
      · simp only [Side.setStream]
        rw [List.nodup_append]
        refine ⟨d.nodup, by simp, ?_⟩
        intro x hx y hy
        simp only [List.mem_singleton] at hy
        subst hy
        intro he; subst he
        have := hle x hx; omega
    · intro hin; exact d.no_hb (List.mem_cons_of_mem _ hin)
    · exact d.window_le
  | heartbeat => exact absurd List.mem_cons_self d.no_hb
  | accept Y win =>
    obtain ⟨hl, hb⟩ := hf.2.2.2.2.2 (by simp)
    have hsorted := d.opens_sorted; simp only [OpensOK] at hsorted
    exact ⟨by rw [hl]; exact hsorted, fun id w hin => d.opens_used id w (List.mem_cons_of_mem _ hin),
      by rw [hl]; exact d.largest_lt, d.next_out, by rw [hb]; exact d.nodup,
      fun hin => d.no_hb (List.mem_cons_of_mem _ hin), d.window_le⟩
  | data Y bs =>
    obtain ⟨hl, hb⟩ := hf.2.2.2.2.2 (by simp)
    have hsorted := d.opens_sorted; simp only [OpensOK] at hsorted
    exact ⟨by rw [hl]; exact hsorted, fun id w hin => d.opens_used id w (List.mem_cons_of_mem _ hin),
      by rw [hl]; exact d.largest_lt, d.next_out, by rw [hb]; exact d.nodup,
      fun hin => d.no_hb (List.mem_cons_of_mem _ hin), d.window_le⟩
  | incr Y a =>
    obtain ⟨hl, hb⟩ := hf.2.2.2.2.2 (by simp)
    have hsorted := d.opens_sorted; simp only [OpensOK] at hsorted
    exact ⟨by rw [hl]; exact hsorted, fun id w hin => d.opens_used id w (List.mem_cons_of_mem _ hin),
      by rw [hl]; exact d.largest_lt, d.next_out, by rw [hb]; exact d.nodup,
      fun hin => d.no_hb (List.mem_cons_of_mem _ hin), d.window_le⟩
  | closeWrite Y =>
    obtain ⟨hl, hb⟩ := hf.2.2.2.2.2 (by simp)
    have hsorted := d.opens_sorted; simp only [OpensOK] at hsorted
    exact ⟨by rw [hl]; exact hsorted, fun id w hin => d.opens_used id w (List.mem_cons_of_mem _ hin),
      by rw [hl]; exact d.largest_lt, d.next_out, by rw [hb]; exact d.nodup,
      fun hin => d.no_hb (List.mem_cons_of_mem _ hin), d.window_le⟩
  | close Y =>
    obtain ⟨hl, hb⟩ := hf.2.2.2.2.2 (by simp)
    have hsorted := d.opens_sorted; simp only [OpensOK] at hsorted
    exact ⟨by rw [hl]; exact hsorted, fun id w hin => d.opens_used id w (List.mem_cons_of_mem _ hin),
      by rw [hl]; exact d.largest_lt, d.next_out, by rw [hb]; exact d.nodup,
      fun hin => d.no_hb (List.mem_cons_of_mem _ hin), d.window_le⟩

/-! ### the whole system -/

/-- Backlog facts that are not per identifier. -/
structure Extra (n : Net) : Prop where
  a_le : ∀ Y ∈ n.a.backlog, Y ≤ n.a.largestIn
  a_in : ∀ Y ∈ n.a.backlog, n.a.isOutbound Y = false
  b_le : ∀ Y ∈ n.b.backlog, Y ≤ n.b.largestIn
  b_in : ∀ Y ∈ n.b.backlog, n.b.isOutbound Y = false

theorem sublist_of_act (s : Side) (a : SAct) : ∀ Y ∈ (s.act a).1.backlog, Y ∈ s.backlog := by
  intro Y hY
  rcases (act_counters s a).2 with h | ⟨Z, h⟩
  · rw [h] at hY; exact hY
  · rw [h]; exact List.mem_cons_of_mem _ hY

theorem outbound_xor {n : Net} (h : Inv n) (X : Nat) : n.b.isOutbound X = !n.a.isOutbound X := by
  simp [Side.isOutbound, h.even_a, h.even_b]

theorem opensOK_filter (q : Msg → Bool) (lo : Nat) (w : List Msg) (h : OpensOK lo w) :
    OpensOK lo (w.filter q) := by
  induction w generalizing lo with
  | nil => trivial
  | cons x w ih =>
    cases x with
    | «open» i v =>
      simp only [OpensOK] at h
      simp only [List.filter_cons]
      split
      · exact ⟨h.1, ih i h.2⟩
      · exact opensOK_mono i lo _ (Nat.le_of_lt h.1) (ih i h.2)
    | _ =>
      simp only [OpensOK] at h
      simp only [List.filter_cons]
      split <;> simpa [OpensOK] using ih lo h

theorem Dir.filter (q : Msg → Bool) (d : Dir o p wop) : Dir o p (wop.filter q) :=
  ⟨opensOK_filter q _ _ d.opens_sorted,
   fun id win hin => d.opens_used id win (List.mem_filter.mp hin).1,
   d.largest_lt, d.next_out, d.nodup, fun hin => d.no_hb (List.mem_filter.mp hin).1, d.window_le⟩

/-- The reader of either side accepts the head of its inbox. -/
theorem Inv.deliver_ok_side {o p : Side} {wop : List Msg} (m : Msg) (rest : List Msg)
    (hop : o.isOutbound m.id = true → PerId o p (onlyAbout m.id wop) (onlyAbout m.id (m :: rest)) m.id)
    (hpo : p.isOutbound m.id = true → PerId p o (onlyAbout m.id (m :: rest)) (onlyAbout m.id wop) m.id)
    (hx : p.isOutbound m.id = !o.isOutbound m.id) (dpo : Dir p o (m :: rest)) (hwp : p.window ≤ maxU64) :
    ∃ o', o.deliver m = .ok o' := by
  by_cases hhb : m = .heartbeat
  · subst hhb; exact ⟨o, rfl⟩
  · have hab : m.about m.id = true := by cases m <;> simp_all [Msg.about, Msg.id]
    by_cases ho : o.isOutbound m.id = true
    · have hp := hop ho
      rw [onlyAbout_cons_about _ hab] at hp
      exact deliver_ok_o o p m _ _ m.id hab ho hp hwp
    · have hob : p.isOutbound m.id = true := by rw [hx]; simpa using ho
      have hp := hpo hob
      rw [onlyAbout_cons_about _ hab] at hp
      have hd := dpo.filter (Msg.about m.id)
      simp only [List.filter_cons, hab, ↓reduceIte] at hd
      exact deliver_ok_p p o m _ _ m.id hab hob (by simpa using ho) hp hd

/-- The invariant together with the backlog facts. -/
structure InvN (n : Net) : Prop where
  inv : Inv n
  extra : Extra n

theorem InvN.deliver_ok {n : Net} (h : InvN n) (hal : n.alive) (w : Who) : (n.deliver w).2 = none := by
  have hi := h.inv
  cases w with
  | a =>
    unfold Net.deliver
    simp only [Net.inbox]
    cases hba : n.ba with
    | nil => rfl
    | cons m rest =>
      simp only [Net.setInbox, Net.side, hal.1, Bool.false_eq_true, ↓reduceIte]
      obtain ⟨a', ha'⟩ := Inv.deliver_ok_side (o := n.a) (p := n.b) (wop := n.ab) m rest
        (fun ho => by have := hi.per_a m.id ho; rwa [hba] at this)
        (fun ho => by have := hi.per_b m.id ho; rwa [hba] at this)
        (outbound_xor hi m.id) (by have := hi.dir_ba; rwa [hba] at this) hi.dir_ba.window_le
      simp [ha']
  | b =>
    unfold Net.deliver
    simp only [Net.inbox]
    cases hab : n.ab with
    | nil => rfl
    | cons m rest =>
      simp only [Net.setInbox, Net.side, hal.2, Bool.false_eq_true, ↓reduceIte]
      have hx : n.a.isOutbound m.id = !n.b.isOutbound m.id := by
        rw [outbound_xor hi]; simp
      obtain ⟨b', hb'⟩ := Inv.deliver_ok_side (o := n.b) (p := n.a) (wop := n.ba) m rest
        (fun ho => by have := hi.per_b m.id ho; rwa [hab] at this)
        (fun ho => by have := hi.per_a m.id ho; rwa [hab] at this)
        hx (by have := hi.dir_ab; rwa [hab] at this) hi.dir_ab.window_le
      simp [hb']

/-- Local actions preserve the invariant. -/
theorem InvN.act_a {n : Net} (h : InvN n) (hal : n.alive) (a : SAct) :
    InvN { n with a := (n.a.act a).1, ab := n.ab ++ (n.a.act a).2 } := by
  have hi := h.inv
  have hm := act_meta n.a a
  have hout : ∀ X, (n.a.act a).1.isOutbound X = n.a.isOutbound X := isOutbound_congr hm.even
  refine ⟨⟨by rw [hm.even]; exact hi.even_a, hi.even_b, hi.dir_ab.act_o a, hi.dir_ba.act_p a, ?_, ?_⟩, ?_⟩
  · intro X hX
    rw [hout] at hX
    refine (hi.per_a X hX).act_o a hi.dir_ab.largest_lt hal.1 ?_
    intro hin
    have := h.extra.a_in X hin
    rw [hX] at this; cases this
  · intro X hX
    have hpo : n.a.isOutbound X = false := by
      have := outbound_xor hi X; rw [hX] at this
      cases hh : n.a.isOutbound X with
      | false => rfl
      | true => rw [hh] at this; cases this
    exact (hi.per_b X hX).act_p a hal.1 hpo hi.dir_ab.next_out hi.dir_ba.nodup
  · refine ⟨?_, ?_, h.extra.b_le, h.extra.b_in⟩
    · intro Y hY; rw [hm.largestIn]; exact h.extra.a_le Y (sublist_of_act _ a Y hY)
    · intro Y hY; rw [hout]; exact h.extra.a_in Y (sublist_of_act _ a Y hY)

theorem InvN.act_b {n : Net} (h : InvN n) (hal : n.alive) (a : SAct) :
    InvN { n with b := (n.b.act a).1, ba := n.ba ++ (n.b.act a).2 } := by
  have hi := h.inv
  have hm := act_meta n.b a
  have hout : ∀ X, (n.b.act a).1.isOutbound X = n.b.isOutbound X := isOutbound_congr hm.even
  refine ⟨⟨hi.even_a, by rw [hm.even]; exact hi.even_b, hi.dir_ab.act_p a, hi.dir_ba.act_o a, ?_, ?_⟩, ?_⟩
  · intro X hX
    have hpo : n.b.isOutbound X = false := by
      have := outbound_xor hi X; rw [hX] at this; simpa using this
    exact (hi.per_a X hX).act_p a hal.2 hpo hi.dir_ba.next_out hi.dir_ab.nodup
  · intro X hX
    rw [hout] at hX
    refine (hi.per_b X hX).act_o a hi.dir_ba.largest_lt hal.2 ?_
    intro hin
    have := h.extra.b_in X hin
    rw [hX] at this; cases this
  · refine ⟨h.extra.a_le, h.extra.a_in, ?_, ?_⟩
    · intro Y hY; rw [hm.largestIn]; exact h.extra.b_le Y (sublist_of_act _ a Y hY)
    · intro Y hY; rw [hout]; exact h.extra.b_in Y (sublist_of_act _ a Y hY)

/-- Backlog facts after an accepted delivery. -/
theorem deliver_backlog {s s' : Side} {m : Msg} (hd : s.deliver m = .ok s') (hc : s.closedMux = false)
    (hle : ∀ Y ∈ s.backlog, Y ≤ s.largestIn) (hin : ∀ Y ∈ s.backlog, s.isOutbound Y = false) :
    (∀ Y ∈ s'.backlog, Y ≤ s'.largestIn) ∧ (∀ Y ∈ s'.backlog, s'.isOutbound Y = false) := by
  have hf := deliver_fields hd hc
  have hout : ∀ Y, s'.isOutbound Y = s.isOutbound Y := isOutbound_congr hf.1
  by_cases ho : ∃ id win, m = .open id win
  · obtain ⟨id, win, rfl⟩ := ho
    obtain ⟨hns, hnout, hs⟩ := deliver_open_shape hd hc
    rcases hs with ⟨_, rfl⟩ | rfl
    · refine ⟨?_, ?_⟩
      · intro Y hY
        have : Y ∈ s.backlog := by simpa [Side.enqClose, hc] using hY
        have := hle Y this
        simp [Side.enqClose, hc]; omega
      · intro Y hY
        have : Y ∈ s.backlog := by simpa [Side.enqClose, hc] using hY
        rw [hout]; exact hin Y this
    · refine ⟨?_, ?_⟩
      · intro Y hY
        simp only [Side.setStream, List.mem_append, List.mem_singleton] at hY ⊢
        rcases hY with hY | rfl
        · have := hle Y hY; omega
        · exact Nat.le_refl _
      · intro Y hY
        rw [hout]
        simp only [Side.setStream, List.mem_append, List.mem_singleton] at hY
        rcases hY with hY | rfl
        · exact hin Y hY
        · exact hnout
  · have hno : ∀ id win, m ≠ .open id win := fun id win he => ho ⟨id, win, he⟩
    obtain ⟨hl, hb⟩ := hf.2.2.2.2.2 hno
    exact ⟨fun Y hY => by rw [hl]; exact hle Y (by rwa [hb] at hY),
      fun Y hY => by rw [hout]; exact hin Y (by rwa [hb] at hY)⟩

theorem InvN.deliver_a {n : Net} (h : InvN n) (hal : n.alive) (m : Msg) (rest : List Msg)
    (hba : n.ba = m :: rest) (a' : Side) (hd : n.a.deliver m = .ok a') :
    InvN { n with a := a', ba := rest } := by
  have hi := h.inv
  have hf := deliver_fields hd hal.1
  have hout : ∀ X, a'.isOutbound X = n.a.isOutbound X := isOutbound_congr hf.1
  have hbl := deliver_backlog hd hal.1 h.extra.a_le h.extra.a_in
  refine ⟨⟨by rw [hf.1]; exact hi.even_a, hi.even_b, hi.dir_ab.deliver_o hd hal.1, ?_, ?_, ?_⟩, ?_⟩
  · have := hi.dir_ba; rw [hba] at this
    exact this.deliver_p hd hal.1 h.extra.a_le
  · intro X hX
    rw [hout] at hX
    have := hi.per_a X hX; rw [hba] at this
    exact this.deliver_o m hd hal.1 hX
  · intro X hX
    have hpo : n.a.isOutbound X = false := by
      have := outbound_xor hi X; rw [hX] at this
      cases hh : n.a.isOutbound X with
      | false => rfl
      | true => rw [hh] at this; cases this
    have := hi.per_b X hX; rw [hba] at this
    exact this.deliver_p m hd hal.1 hpo
  · exact ⟨hbl.1, hbl.2, h.extra.b_le, h.extra.b_in⟩

theorem InvN.deliver_b {n : Net} (h : InvN n) (hal : n.alive) (m : Msg) (rest : List Msg)
    (hab : n.ab = m :: rest) (b' : Side) (hd : n.b.deliver m = .ok b') :
    InvN { n with b := b', ab := rest } := by
  have hi := h.inv
  have hf := deliver_fields hd hal.2
  have hout : ∀ X, b'.isOutbound X = n.b.isOutbound X := isOutbound_congr hf.1
  have hbl := deliver_backlog hd hal.2 h.extra.b_le h.extra.b_in
  refine ⟨⟨hi.even_a, by rw [hf.1]; exact hi.even_b, ?_, hi.dir_ba.deliver_o hd hal.2, ?_, ?_⟩, ?_⟩
  · have := hi.dir_ab; rw [hab] at this
    exact this.deliver_p hd hal.2 h.extra.b_le
  · intro X hX
    have hpo : n.b.isOutbound X = false := by
      have := outbound_xor hi X; rw [hX] at this; simpa using this
    have := hi.per_a X hX; rw [hab] at this
    exact this.deliver_p m hd hal.2 hpo
  · intro X hX
    rw [hout] at hX
    have := hi.per_b X hX; rw [hab] at this
    exact this.deliver_o m hd hal.2 hX
  · exact ⟨h.extra.a_le, h.extra.a_in, hbl.1, hbl.2⟩

/-- **The invariant is inductive.** -/
theorem InvN.step {n : Net} (h : InvN n) (hal : n.alive) (act : Action) (hal' : (n.step act).alive) :
    InvN (n.step act) := by
  cases act with
  | act w a =>
    cases w with
    | a => exact h.act_a hal a
    | b => exact h.act_b hal a
  | deliver w =>
    have hok := h.deliver_ok hal w
    cases w with
    | a =>
      simp only [Net.step, Net.deliver, Net.inbox] at hok ⊢
      cases hba : n.ba with
      | nil => simpa [hba] using h
      | cons m rest =>
        simp only [hba, Net.setInbox, Net.side, hal.1, Bool.false_eq_true, ↓reduceIte] at hok ⊢
        cases hd : n.a.deliver m with
        | error e => simp [hd] at hok
        | ok a' => simpa [hd, Net.setSide] using h.deliver_a hal m rest hba a' hd
    | b =>
      simp only [Net.step, Net.deliver, Net.inbox] at hok ⊢
      cases hab : n.ab with
      | nil => simpa [hab] using h
      | cons m rest =>
        simp only [hab, Net.setInbox, Net.side, hal.2, Bool.false_eq_true, ↓reduceIte] at hok ⊢
        cases hd : n.b.deliver m with
        | error e => simp [hd] at hok
        | ok b' => simpa [hd, Net.setSide] using h.deliver_b hal m rest hab b' hd
  | muxClose w =>
    -- closing a multiplexer leaves the system not alive
    exfalso
    cases w <;> simp [Net.step, Net.fail, Net.side, Net.setSide, Net.alive, Who.peer, hal.1, hal.2] at hal'

/-- The initial state satisfies the invariant. -/
theorem InvN.init (wa ka wb kb : Int) (ha : wa ≤ maxU64) (hb : wb ≤ maxU64) :
    InvN (Net.init wa ka wb kb) := by
  have hwa : (Side.new false wa ka).window ≤ maxU64 := by
    simp only [Side.new]; split
    · simp [maxU64]
    · omega
  have hwb : (Side.new true wb kb).window ≤ maxU64 := by
    simp only [Side.new]; split
    · simp [maxU64]
    · omega
  have hper : ∀ (o p : Side) (X : Nat), o.streams = (fun _ => none) → p.streams = (fun _ => none) →
      o.pendIncr = (fun _ => none) → o.pendCW = (fun _ => false) → o.pendClose = (fun _ => false) →
      p.pendIncr = (fun _ => none) → p.pendCW = (fun _ => false) → p.pendClose = (fun _ => false) →
      p.backlog = [] → PerId o p [] [] X := by
    intro o p X h1 h2 h3 h4 h5 h6 h7 h8 h9
    simp only [PerId_iff, Flow_iff, Unused_iff, Unseen_iff, PNone_iff, OUnest_iff, h1, h2, h3, h4, h5, h6, h7,
      h8, h9, capOf, bufOf, swOf, dataBytes, incrSum, NoAfter, FirstOK, Side.pendOf]
    simp
  refine ⟨⟨rfl, rfl, ?_, ?_, ?_, ?_⟩, ?_⟩
  · exact ⟨trivial, by simp [Net.init], by simp [Net.init, Side.new], by simp [Net.init, Side.new, Side.isOutbound],
      by simp [Net.init, Side.new], by simp [Net.init], hwa⟩
  · exact ⟨trivial, by simp [Net.init], by simp [Net.init, Side.new], by simp [Net.init, Side.new, Side.isOutbound],
      by simp [Net.init, Side.new], by simp [Net.init], hwb⟩
  · intro X _
    exact hper _ _ X rfl rfl rfl rfl rfl rfl rfl rfl rfl
  · intro X _
    exact hper _ _ X rfl rfl rfl rfl rfl rfl rfl rfl rfl
  · exact ⟨by simp [Net.init, Side.new], by simp [Net.init, Side.new], by simp [Net.init, Side.new],
      by simp [Net.init, Side.new]⟩

end Mutagen.Model.Mux
