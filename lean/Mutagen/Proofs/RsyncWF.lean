import Mutagen.Proofs.Rsync
/-!
C19, part 1: every operation of the plan is well formed (`Operation.EnsureValid`,
block ranges inside the signature, data operations within the size limit).
-/
namespace Mutagen.Proofs.Rsync
open Mutagen.Model.Rsync

/-- An operation as `Deltify` may emit it for a signature with `n` blocks and
data limit `maxOp`: non-empty data of at most `maxOp` bytes and no block range,
or no data and a non-empty block range inside the signature. -/
def OpOK (n maxOp : Nat) (op : Operation) : Prop :=
  (0 < op.data.length ∧ op.data.length ≤ maxOp ∧ op.start = 0 ∧ op.count = 0) ∨
  (op.data = [] ∧ 0 < op.count ∧ op.start + op.count ≤ n)

theorem OpOK.ensureValid {n maxOp : Nat} {op : Operation} (h : OpOK n maxOp op) :
    op.ensureValid = true := by
  unfold Operation.ensureValid
  rcases h with ⟨h1, _, h3, h4⟩ | ⟨h1, h2, _⟩
  · simp [h1, h3, h4]
  · simp [h1]; omega

theorem chunks_ok (n maxOp : Nat) (hm : 0 < maxOp) (fuel : Nat) (d : List UInt8) :
    ∀ op ∈ chunks maxOp fuel d, OpOK n maxOp op := by
  induction fuel generalizing d with
  | zero => simp [chunks]
  | succ fuel ih =>
    unfold chunks
    by_cases hd : d.length > 0
    · simp only [hd, if_true, List.mem_cons]
      intro op hop
      rcases hop with hop | hop
      · left
        subst hop
        refine ⟨?_, ?_, rfl, rfl⟩ <;> simp only [dataOp, List.length_take] <;> omega
      · exact ih _ op hop
    · simp [hd]

theorem chunksAll_ok (n maxOp : Nat) (hm : 0 < maxOp) (fuel : Nat) (t : List UInt8) :
    ∀ op ∈ chunksAll maxOp fuel t, OpOK n maxOp op := by
  induction fuel generalizing t with
  | zero => simp [chunksAll]
  | succ fuel ih =>
    unfold chunksAll
    by_cases he : t.isEmpty
    · simp [he]
    · have hne : t ≠ [] := by simpa using he
      have hpos : 0 < t.length := List.length_pos_iff.mpr hne
      simp only [he, Bool.false_eq_true, if_false]
      by_cases hl : t.length < maxOp
      · simp only [hl, if_true, List.mem_singleton]
        intro op hop
        subst hop
        left
        exact ⟨by simpa [dataOp] using hpos, by simp only [dataOp]; omega, rfl, rfl⟩
      · simp only [hl, if_false, List.mem_cons]
        intro op hop
        rcases hop with hop | hop
        · left
          subst hop
          refine ⟨?_, ?_, rfl, rfl⟩ <;> simp only [dataOp, List.length_take] <;> omega
        · exact ih _ op hop

/-- The pending coalesced run lies inside the signature. -/
def CoOK (n : Nat) (co : Co) : Prop := 0 < co.count → co.start + co.count ≤ n

def EventsOK (n : Nat) (evs : List Event) : Prop := ∀ i, Event.block i ∈ evs → i < n

theorem evOps_ok (n maxOp : Nat) (hm : 0 < maxOp) (evs : List Event) (co : Co)
    (hco : CoOK n co) (hev : EventsOK n evs) :
    (∀ op ∈ (evOps maxOp evs co).1, OpOK n maxOp op) ∧ CoOK n (evOps maxOp evs co).2 := by
  induction evs generalizing co with
  | nil => simp [evOps, hco]
  | cons e es ih =>
    have hes : EventsOK n es := fun i hi => hev i (List.mem_cons_of_mem _ hi)
    cases e with
    | data d =>
      have hco' : CoOK n (dataCo d co) := by
        unfold dataCo
        by_cases hc : d.length > 0 ∧ co.count > 0
        · simp only [hc, and_self, if_true]; intro h; simp at h
        · simp only [hc, if_false]; exact hco
      obtain ⟨h1, h2⟩ := ih (dataCo d co) hco' hes
      refine ⟨?_, h2⟩
      intro op hop
      simp only [evOps, List.mem_append] at hop
      rcases hop with (hop | hop) | hop
      · unfold dataPre at hop
        by_cases hc : d.length > 0 ∧ co.count > 0
        · rw [if_pos hc] at hop
          simp only [List.mem_singleton] at hop
          subst hop
          right
          exact ⟨rfl, hc.2, hco hc.2⟩
        · simp [hc] at hop
      · exact chunks_ok n maxOp hm _ _ op hop
      · exact h1 op hop
    | block i =>
      have hi : i < n := hev i (List.mem_cons_self ..)
      have hco' : CoOK n (blockCo i co) := by
        unfold blockCo
        by_cases hc : co.count > 0 ∧ co.start + co.count = i
        · simp only [hc, and_self, if_true]; intro _; simp only; omega
        · simp only [hc, if_false]; intro _; simp only; omega
      obtain ⟨h1, h2⟩ := ih (blockCo i co) hco' hes
      refine ⟨?_, h2⟩
      intro op hop
      simp only [evOps, List.mem_append] at hop
      rcases hop with hop | hop
      · unfold blockPre at hop
        by_cases hc : co.count > 0 ∧ co.start + co.count ≠ i
        · rw [if_pos hc] at hop
          simp only [List.mem_singleton] at hop
          subst hop
          right
          exact ⟨rfl, hc.1, hco hc.1⟩
        · simp [hc] at hop
      · exact h1 op hop

theorem flushOps_ok (n maxOp : Nat) (co : Co) (hco : CoOK n co) :
    ∀ op ∈ flushOps co, OpOK n maxOp op := by
  unfold flushOps
  by_cases hc : co.count > 0
  · simp only [hc, if_true, List.mem_singleton]
    intro op hop
    subst hop
    right
    exact ⟨rfl, hc, hco hc⟩
  · simp [hc]

section
variable {D : Type} [DecidableEq D] (H : List UInt8 → D)

theorem findMatch_some (full : List (BlockHash D)) (w : UInt32) (win : List UInt8) (p : Nat)
    (h : findMatch H full w win = some p) :
    ∃ hb, full[p]? = some hb ∧ hb.weak = w ∧ hb.strong = H win := by
  unfold findMatch at h
  by_cases he : (full.zipIdx.filter fun q => q.1.weak == w).isEmpty
  · simp [he] at h
  · simp only [he, Bool.false_eq_true, if_false, Option.map_eq_some_iff] at h
    obtain ⟨q, hq, hp⟩ := h
    have hmem := List.mem_of_find?_eq_some hq
    have hstrong := List.find?_some hq
    simp only [List.mem_filter, beq_iff_eq] at hmem
    have := List.mem_zipIdx_iff_getElem?.mp hmem.1
    refine ⟨q.1, by rw [← hp]; exact this, hmem.2, by simpa using hstrong⟩

theorem findMatch_lt (full : List (BlockHash D)) (w : UInt32) (win : List UInt8) (p : Nat)
    (h : findMatch H full w win = some p) : p < full.length := by
  obtain ⟨hb, h1, _⟩ := findMatch_some H full w win p h
  exact (List.getElem?_eq_some_iff.mp h1).1

theorem stepEvents_ok (bs cap : Nat) (full : List (BlockHash D)) (buf : List UInt8) (w : UInt32) :
    EventsOK full.length (stepEvents H bs cap full buf w).1 := by
  unfold stepEvents
  intro i hi
  cases hf : findMatch H full w (buf.drop (buf.length - bs)) with
  | some p =>
    simp only [hf, List.mem_cons, Event.block.injEq, reduceCtorEq, false_or, List.not_mem_nil, or_false] at hi
    subst hi
    exact findMatch_lt H full w _ _ hf
  | none =>
    simp only [hf] at hi
    by_cases hc : buf.length = cap <;> simp [hc] at hi

theorem loopEvents_ok (bs cap : Nat) (full : List (BlockHash D)) (fuel : Nat) (t buf : List UInt8)
    (r1 r2 : UInt32) : EventsOK full.length (loopEvents H bs cap full fuel t buf r1 r2).1 := by
  induction fuel generalizing t buf r1 r2 with
  | zero => intro i hi; simp [loopEvents] at hi
  | succ fuel ih =>
    unfold loopEvents
    by_cases he : buf.isEmpty
    · simp only [he, if_true]
      by_cases ht : t.length < bs
      · intro i hi; simp [ht] at hi
      · simp only [ht, if_false]
        intro i hi
        simp only [List.mem_append] at hi
        rcases hi with hi | hi
        · exact stepEvents_ok H bs cap full _ _ i hi
        · exact ih _ _ _ _ i hi
    · simp only [he]
      by_cases hl : buf.length < bs
      · intro i hi; simp [hl] at hi
      · simp only [hl, if_false]
        cases t with
        | nil => intro i hi; simp at hi
        | cons b t' =>
          simp only
          intro i hi
          rcases List.mem_append.mp hi with hi | hi
          · exact stepEvents_ok H bs cap full _ _ i hi
          · exact ih _ _ _ _ i hi

theorem fullHashes_length_le (sig : Signature D) : (fullHashes sig).length ≤ sig.hashes.length := by
  unfold fullHashes
  by_cases h : (sig.lastBlockSize != sig.blockSize) = true
  · simp only [h, if_true, List.length_take]; omega
  · simp [h]

theorem coreEvents_ok (sig : Signature D) (maxOp : Nat) (target : List UInt8)
    (hn : 0 < sig.hashes.length) : EventsOK sig.hashes.length (coreEvents H sig maxOp target).1 := by
  have hl := loopEvents_ok H sig.blockSize (maxOp + sig.blockSize) (fullHashes sig)
    (target.length + 1) target [] 0 0
  have hle := fullHashes_length_le sig
  have hl' : EventsOK sig.hashes.length (loopEvents H sig.blockSize (maxOp + sig.blockSize)
      (fullHashes sig) (target.length + 1) target [] 0 0).1 := fun i hi => Nat.lt_of_lt_of_le (hl i hi) hle
  unfold coreEvents
  intro i hi
  by_cases hex : ((loopEvents H sig.blockSize (maxOp + sig.blockSize) (fullHashes sig)
      (target.length + 1) target [] 0 0).2.2 != Exit.ok) = true
  · simp only [hex, if_true] at hi
    exact hl' i hi
  · simp only [hex, Bool.false_eq_true, if_false] at hi
    by_cases hm : shortMatch H sig (loopEvents H sig.blockSize (maxOp + sig.blockSize) (fullHashes sig)
        (target.length + 1) target [] 0 0).2.1 = true
    · simp only [hm, if_true, List.mem_append, List.mem_cons, Event.block.injEq, reduceCtorEq,
        false_or, List.not_mem_nil, or_false] at hi
      rcases hi with hi | hi
      · exact hl' i hi
      · omega
    · simp only [hm, Bool.false_eq_true, if_false, List.mem_append, List.mem_singleton, reduceCtorEq,
        or_false] at hi
      exact hl' i hi

/-- Every operation of the plan is well formed. -/
theorem plan_ok (target : List UInt8) (sig : Signature D) (maxDataOpSize : Nat) :
    ∀ op ∈ (plan H target sig maxDataOpSize).1, OpOK sig.hashes.length (effMaxOp maxDataOpSize) op := by
  have hm := effMaxOp_pos maxDataOpSize
  unfold plan
  by_cases hh : sig.hashes.length = 0
  · simp only [hh, if_true]
    exact chunksAll_ok _ _ hm _ _
  · simp only [hh, if_false]
    have hev := coreEvents_ok H sig (effMaxOp maxDataOpSize) target (by omega)
    obtain ⟨h1, h2⟩ := evOps_ok sig.hashes.length (effMaxOp maxDataOpSize) hm
      (coreEvents H sig (effMaxOp maxDataOpSize) target).1 { start := 0, count := 0 }
      (by intro h; simp at h) hev
    by_cases hex : ((coreEvents H sig (effMaxOp maxDataOpSize) target).2 != Exit.ok) = true
    · simp only [hex, if_true]; exact h1
    · simp only [hex, Bool.false_eq_true, if_false, List.mem_append]
      intro op hop
      rcases hop with hop | hop
      · exact h1 op hop
      · exact flushOps_ok _ _ _ h2 op hop

/-- `DeltifyBytes` (a transmitter that never fails) returns exactly the plan. -/
theorem deltifyBytes_eq_plan (target : List UInt8) (sig : Signature D) (maxDataOpSize : Nat) :
    deltifyBytes H target sig maxDataOpSize = plan H target sig maxDataOpSize := by
  unfold deltifyBytes
  have hnf := scripted_no_failure (fun _ => false) (plan H target sig maxDataOpSize).1 (by intros; rfl)
  rw [deltify_eq_runOps]
  simp only [hnf, Bool.false_eq_true, if_false]
  exact Prod.ext (scripted_log_ok _ _ hnf).2.1 rfl

end

end Mutagen.Proofs.Rsync
