import Mutagen.Model.PollWatch
import Mutagen.Proofs.PollWatch
/-!
# C42 — poll-based watching never serves a stale snapshot and always notices changes

All theorems are about runs of the step model `Mutagen.Model.PollWatch` from an
arbitrary initial disk: every interleaving of polling scans, `Scan` calls,
transitions (with their disk mutation happening while the scan lock is
released), modifications by other programs (including exact reversals) and
`Poll` returns.
-/
namespace Mutagen.Properties.C42
open Mutagen.Model.PollWatch Mutagen.Proofs.PollWatch

/-- **A transition with a difference at any depth strobes and switches
acceleration off.** If some result of the transition differs from the
transition's old entry — deeply: a partially applied directory removal, whose
result is the reduced directory with the same root kind, counts — then when
`Transition` returns the poll signal has been strobed and accelerated scanning
is off (so the next `Scan` walks the disk). -/
theorem changing_transition_strobes (s s' : St) (olds results : List (Option Ent)) (made : Bool)
    (h : transEnd s olds results = some (s', made)) (hne : results ≠ olds) :
    made = true ∧ s'.pending = true ∧ s'.strobed = true ∧ s'.accelerate = false := by
  obtain ⟨h1, h2⟩ := transEnd_some h
  have hm : made = true := by rw [h2]; simp [hne]
  subst hm
  rw [h1]
  unfold transFinish
  by_cases ha : s.accelerate = true <;> simp [strobe, ha]

/-- … and a transition whose results equal the old entries at every depth
leaves acceleration and the signal alone (no feedback loop on changes that can
never be applied). -/
theorem unchanged_transition_is_quiet (s s' : St) (olds : List (Option Ent)) (made : Bool)
    (h : transEnd s olds olds = some (s', made)) :
    made = false ∧ s'.pending = s.pending ∧ s'.accelerate = s.accelerate := by
  obtain ⟨h1, h2⟩ := transEnd_some h
  have hm : made = false := by rw [h2]; simp
  subst hm
  rw [h1]
  simp [transFinish]

/-- Non-vacuity, and the case a shallow comparison gets wrong: removing the
directory `d` = {a, b} only partly (b stays) yields the reduced directory, which
is shallowly equal to the old entry but not equal to it. -/
example :
    let old : Option Ent := some ⟨1, [("a", 2), ("b", 2)]⟩
    let result : Option Ent := some ⟨1, [("b", 2)]⟩
    shallowEq result old = true ∧ [result] ≠ [old] := by decide

/-- A polling scan that fails (the root cannot be opened) owes a strobe — the
polling goroutine issues it right after releasing the scan lock, and the signal
is pending once it is delivered — and leaves acceleration off; the loop goes on
polling (`Step.tick` / `Step.tickFail` are enabled in every state). -/
theorem failed_poll_scan_strobes (s : St) :
    (tickFail s).owed = true ∧ (deliver (tickFail s)).pending = true ∧
    (tickFail s).accelerate = false ∧ (tickFail s).snapshot = s.snapshot := by
  simp [tickFail, owe, deliver, strobe]

/-- **No stale snapshot after a changing transition.** In every run, whatever
happens between the end of a transition that changed the disk and a later
`Scan` (accelerated or full), the snapshot that `Scan` returns was taken at or
after the end of that transition (`s2.ver` is the ghost time at which the
transition ended), and it is the content the disk really had at the time it was
taken. -/
theorem no_stale_after_change {r a : Bool} {d : Nat} {tr1 tr2 : List Label} {s1 s2 s3 : St} (full : Bool)
    (h1 : Run (init r a d) tr1 s1) (ht : Step s1 (.transEnd true) s2) (h2 : Run s2 tr2 s3) :
    s2.ver ≤ (scan s3 full).2.ver ∧
    (scan s3 full).1.contentAt (scan s3 full).2.ver = some (scan s3 full).2.content := by
  have i1 : Inv s1 := inv_run (inv_init r a d) h1
  have i2 : Inv s2 := inv_step i1 ht
  have i3 : Inv s3 := inv_run i2 h2
  have i4 : Inv (scan s3 full).1 := inv_scan full i3
  have htv : s2.tver = s2.ver := by
    match ht with
    | .transEnd _ _ _ _ _ hs => exact transEnd_true_tver hs
  have hmono : s2.tver ≤ s3.tver := tver_run i2 h2
  by_cases hacc : s3.accelerate = true ∧ full = false
  · obtain ⟨sn, hsn, hle⟩ := i3.accel hacc.1
    have hv := i4.view_ok
    rw [scan_accel hacc.1 hacc.2 hsn] at hv ⊢
    refine ⟨by simp only; omega, ?_⟩
    exact (hv sn rfl).2
  · have hv := i4.view_ok
    rw [scan_fresh hacc] at hv ⊢
    have := i3.tver_le
    refine ⟨by simp only; omega, ?_⟩
    exact (hv _ rfl).2

/-- A `Scan` that is not accelerated (acceleration unavailable, switched off by
a changing transition, or a full scan was requested) returns the current disk. -/
theorem unaccelerated_scan_is_current (s : St) (full : Bool) (h : ¬ (s.accelerate = true ∧ full = false)) :
    (scan s full).2 = ⟨s.disk, s.ver⟩ := by
  rw [scan_fresh h]

/-- **Every modification seen by a polling scan strobes.** The scan (under the
scan lock) leaves the strobe owed; the polling goroutine issues it next, and
then the signal is pending. -/
theorem poll_scan_strobes (s : St) (hmod : s.disk ≠ tickBaseline s) (hign : tickIgnore s = false) :
    (tick s).owed = true ∧ (deliver (tick s)).pending = true ∧ (deliver (tick s)).strobed = true := by
  rw [tick_eq]
  simp [hmod, hign, owe, deliver, strobe]

/-- **No silent divergence** (with fixes/C42.patch). In every reachable state:
if the endpoint's most recent snapshot differs from the one the last `Scan`
handed to the controller, a strobe has been issued since that `Scan` or is owed
by the polling goroutine (decided under the scan lock, issued next); and a
strobe issued since the last `Scan` is still pending or has been delivered by
`Poll` since. -/
theorem no_silent_divergence {a : Bool} {d : Nat} {tr : List Label} {s : St} (h : Run (init true a d) tr s) :
    (∀ sn v, s.snapshot = some sn → s.view = some v → sn.content ≠ v.content →
      s.strobed = true ∨ s.owed = true) ∧
    (s.strobed = true → s.pending = true ∨ s.consumed = true) := by
  have i : Inv s := inv_run (inv_init true a d) h
  have hr : s.repaired = true := by rw [repaired_run h]; rfl
  exact ⟨i.div hr, i.strobed_ok⟩

/-- **Every modification is announced by the next polling scan** (with the
patch; safety form of "within a polling interval"). In every reachable state in
which the controller has scanned: if the disk differs from what that `Scan`
showed — because another program modified it, even by exactly reversing what
synchronization just did — then after the next polling scan a strobe has been
issued since that `Scan`, and its signal is pending or was already delivered. -/
theorem modification_announced_by_next_poll {a : Bool} {d : Nat} {tr : List Label} {s : St} {v : Snap}
    (h : Run (init true a d) tr s) (hb : s.broken = false) (hv : s.view = some v) (hne : s.disk ≠ v.content) :
    (deliver (tick s)).strobed = true ∧
    ((deliver (tick s)).pending = true ∨ (deliver (tick s)).consumed = true) := by
  have h' : Run (init true a d) (tr ++ [.tick] ++ [.deliver]) (deliver (tick s)) :=
    Run.snoc (Run.snoc h (Step.tick s hb)) (Step.deliver _)
  obtain ⟨hd, hp⟩ := no_silent_divergence h'
  have hsnap : (deliver (tick s)).snapshot = some ⟨s.disk, s.ver⟩ := by
    unfold deliver; rw [tick_eq]; split <;> split <;> simp_all [strobe, owe, tickCore]
  have hview : (deliver (tick s)).view = some v := by
    unfold deliver; rw [tick_eq]; split <;> split <;> simp_all [strobe, owe, tickCore]
  have howed : (deliver (tick s)).owed = false := by
    unfold deliver; split
    · simp [strobe]
    · rename_i hx; simpa using hx
  have hs : (deliver (tick s)).strobed = true := by
    rcases hd _ _ hsnap hview hne with h1 | h1
    · exact h1
    · rw [howed] at h1; simp at h1
  exact ⟨hs, hp hs⟩

/-! ## The upstream behaviour violates the second half of the property

The schedule found by the check, as a run of the *unrepaired* model
(`repaired = false`): baseline polling scan, scan, a transition changes the disk
(content 1 → 2) and strobes, the controller is notified and rescans (sees 2),
another program reverses the change (2 → 1). The next polling scan compares
with the polling goroutine's own previous scan (content 1) and stays silent:
the disk (1) differs from what the controller saw (2) and nothing announces it. -/

example : upstreamFinal.disk = 1 ∧ upstreamFinal.view = some ⟨2, 1⟩ ∧
    upstreamFinal.strobed = false ∧ upstreamFinal.pending = false ∧ upstreamFinal.owed = false := by decide

/-- … and it is a run of the unrepaired model. -/
example : Run (init false true 1) upstreamTrace upstreamFinal := by
  have r0 : Run u0 [] u0 := Run.nil _
  have r1 : Run u0 ([] ++ [.tick]) u1 := Run.snoc r0 (Step.tick _ (by decide))
  have r2 : Run u0 ([] ++ [.tick] ++ [.scan false 1]) u2 := Run.snoc r1 (Step.scan u1 false (by decide) (by decide))
  have r3 := Run.snoc r2 (Step.transBegin u2 2 u3 (by decide))
  have r4 := Run.snoc r3 (Step.transApply u3 u4 (by decide))
  have r5 := Run.snoc r4 (Step.transEnd u4 u5 true uOlds uResults (by decide))
  have r6 := Run.snoc r5 (Step.poll u5 u6 (by decide))
  have r7 : Run u0 (_ ++ [.scan false 2]) u7 := Run.snoc r6 (Step.scan u6 false (by decide) (by decide))
  have r8 := Run.snoc r7 (Step.edit u7 1)
  have r9 := Run.snoc r8 (Step.tick u8 (by decide))
  exact r9

/-- The same schedule in the repaired model ends with the strobe issued
(non-vacuity of `modification_announced_by_next_poll`). -/
example :
    let s := init true true 1
    let s := tick s
    let s := (scan s false).1
    let s := (transBegin s 2).getD s
    let s := (transApply s).getD s
    let s := ((transEnd s uOlds uResults).map (·.1)).getD s
    let s := (pollReturn s).getD s
    let s := (scan s false).1
    let s := edit s 1
    s.view = some ⟨2, 1⟩ ∧ s.disk ≠ 2 ∧ (deliver (tick s)).strobed = true ∧
      (deliver (tick s)).pending = true := by decide

end Mutagen.Properties.C42
