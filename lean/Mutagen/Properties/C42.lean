import Mutagen.Model.PollWatch
/-!
# C42 — poll-based watching never serves a stale snapshot and always notices changes
-/
namespace Mutagen.Properties.C42
open Mutagen.Model.PollWatch

/-- A transition that changed the disk strobes the poll signal and switches
acceleration off. -/
theorem changing_transition_strobes (s s' : St) (h : transEnd s = some (s', true)) :
    s'.pending = true ∧ s'.accelerate = false := by
  unfold transEnd at h
  split at h
  · rename_i t made _
    simp only [Option.some.injEq, Prod.mk.injEq] at h
    obtain ⟨h1, h2⟩ := h
    subst h2
    subst h1
    by_cases ha : s.accelerate = true <;> simp [strobe, ha]
  · simp at h

end Mutagen.Properties.C42
