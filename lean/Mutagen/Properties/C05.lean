import Mutagen.Proofs.Reconcile
import Mutagen.Proofs.AncestorUpdate
/-!
# C05 — saved sync state stays valid and faithful under any transition outcome

Theorems about the executable models `Mutagen.Model.Reconcile` /
`Mutagen.Model.Entry` of `reconcile.go`, `apply.go`, `entry.go` and of the
ancestor update in `controller.go:synchronize` (lines 1345–1400: ancestor
changes, then one result per alpha transition, then one per beta transition,
`Apply`, `EnsureValid(true)`), tied to the code by the C05 correspondence
stream `update`. Helper lemmas live in `Mutagen.Proofs.Apply` /
`Mutagen.Proofs.Reconcile`.
-/
namespace Mutagen.Properties.C05
open Mutagen.Model

/-- **Saved sync state stays valid and faithful** (full statement): for every
mode, a valid synchronizable ancestor (`EnsureValid(true)` — enforced when the
archive is loaded), valid endpoint snapshots without phantom directories
(phantoms are reified before reconciliation) and *every* family of valid
synchronizable result entries — strictly more than {new, old, nothing,
prefix-closed sub-trees} — the controller's
`Apply(ancestor, ancestorChanges ++ αResults ++ βResults)` succeeds, the new
ancestor passes `EnsureValid(true)` (and is a genuine map at every level), and
it records at each transitioned path exactly the entry the endpoint reported. -/
theorem ancestor_update_ok (mode : Mode) (A alpha beta : Option Entry) (resα resβ : List Change)
    (hA : ValidSync A) (hal : Valid alpha) (hbe : Valid beta)
    (hpα : onoPhantom alpha = true) (hpβ : onoPhantom beta = true)
    (hres : ∀ c ∈ resα ++ resβ, ValidSync c.new)
    (hα : resα.map (·.path) = (Reconcile A alpha beta mode).alpha.map (·.path))
    (hβ : resβ.map (·.path) = (Reconcile A alpha beta mode).beta.map (·.path)) :
    ∃ A', apply A ((Reconcile A alpha beta mode).anc ++ (resα ++ resβ)) = .ok A' ∧ ValidSync A' ∧
      ∀ c ∈ resα ++ resβ, SameTree (getPath A' c.path) c.new :=
  ancestor_update_valid mode A alpha beta resα resβ hA hal hbe hpα hpβ hres hα hβ

/-- **The update never fails**, for every mode, all trees and *every* family
of reported result entries: `Apply(ancestor, ancestorChanges ++ αResults ++
βResults)` resolves every path (ancestor changes arrive parent-before-child,
and the parent of every transitioned path exists once they are applied). -/
theorem ancestor_update_succeeds (mode : Mode) (A alpha beta : Option Entry)
    (resα resβ : List Change)
    (hα : resα.map (·.path) = (Reconcile A alpha beta mode).alpha.map (·.path))
    (hβ : resβ.map (·.path) = (Reconcile A alpha beta mode).beta.map (·.path)) :
    ∃ A', apply A ((Reconcile A alpha beta mode).anc ++ (resα ++ resβ)) = .ok A' :=
  Mutagen.Model.ancestor_update_succeeds mode A alpha beta resα resβ hα hβ

/-- Success and faithfulness together: the update yields a new ancestor that
records at each transitioned path exactly what the endpoint reported. -/
theorem ancestor_update_ok_partial (mode : Mode) (A alpha beta : Option Entry)
    (resα resβ : List Change)
    (hα : resα.map (·.path) = (Reconcile A alpha beta mode).alpha.map (·.path))
    (hβ : resβ.map (·.path) = (Reconcile A alpha beta mode).beta.map (·.path)) :
    ∃ A', apply A ((Reconcile A alpha beta mode).anc ++ (resα ++ resβ)) = .ok A' ∧
      ∀ c ∈ resα ++ resβ, SameTree (getPath A' c.path) c.new := by
  obtain ⟨A', h⟩ := Mutagen.Model.ancestor_update_succeeds mode A alpha beta resα resβ hα hβ
  exact ⟨A', h, ancestor_update_faithful mode A alpha beta resα resβ hα hβ A' h⟩

/-- **Faithful**, for *every* family of reported result entries (not only
{new, old, nothing, partial sub-trees}) and every mode: if the controller's
`Apply(ancestor, ancestorChanges ++ αResults ++ βResults)` succeeds, the new
ancestor records at each transitioned path exactly the entry the endpoint
reported there. (`resα`/`resβ` are the result changes `{Path: transition.Path,
New: result}` in transition order.) -/
theorem ancestor_update_faithful_partial (mode : Mode) (A alpha beta : Option Entry)
    (resα resβ : List Change)
    (hα : resα.map (·.path) = (Reconcile A alpha beta mode).alpha.map (·.path))
    (hβ : resβ.map (·.path) = (Reconcile A alpha beta mode).beta.map (·.path))
    (A' : Option Entry)
    (h : apply A ((Reconcile A alpha beta mode).anc ++ (resα ++ resβ)) = .ok A') :
    ∀ c ∈ resα ++ resβ, SameTree (getPath A' c.path) c.new :=
  ancestor_update_faithful mode A alpha beta resα resβ hα hβ A' h

/-- `Apply` keeps every content map duplicate-free: if the old ancestor and
all reported entries are genuine maps, so is the new ancestor (first half of
`ValidSync A'`). -/
theorem ancestor_update_wellformed (A A' : Option Entry) (cs : List Change)
    (hA : onodupKeys A = true) (hcs : ∀ c ∈ cs, onodupKeys c.new = true)
    (h : apply A cs = .ok A') : onodupKeys A' = true :=
  apply_nodupKeys hA hcs h

/-- One change of `Apply`, exactly: if the parent of the change's path exists,
the change succeeds and replaces precisely the sub-tree at its path (the new
tree has the change's `New` at and below the path and is unchanged elsewhere).
This is the "parent-path resolution" mechanism of the property. -/
theorem apply_change_exact (r : Option Entry) (c : Change)
    (hpar : c.path = [] ∨ (pget r c.path.dropLast).isSome = true) :
    ∃ r', applyChange r c = .ok r' ∧
      ∀ q, pget r' q = if c.path <+: q then pget c.new (q.drop c.path.length) else pget r q :=
  applyChange_spec r c hpar

/-! Non-vacuity: the hypotheses of `ancestor_update_faithful_partial` are
satisfiable with a non-empty plan — the plan of the example triple has one
beta change, and reporting its `New` makes `Apply` succeed. -/
example :
    apply (some exampleFile1)
      ((Reconcile (some exampleFile1) (some exampleFile2) (some exampleFile1) .twoWaySafe).beta) =
      .ok (some exampleFile2) := by
  rw [example_modification_propagates]; rfl

/-! Non-vacuity of the hypotheses of `ancestor_update_ok`: a valid synchronizable
ancestor, valid phantom-free endpoint trees (one with unsynchronizable content). -/
example : ValidSync (some exampleTree2) ∧ Valid (some exampleTree1) ∧ onoPhantom (some exampleTree1) = true := by
  unfold ValidSync Valid; decide

end Mutagen.Properties.C05
