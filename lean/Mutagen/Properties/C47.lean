import Mutagen.Model.StreamWriters
import Mutagen.Proofs.StreamWriters
import Mutagen.Proofs.StreamLines
/-!
# C47 — stream helper writers honour their contracts

Property theorems only (helper lemmas live in `Mutagen.Proofs.StreamWriters`
and `Mutagen.Proofs.StreamLines`). One contract per writer of `pkg/stream`,
each over arbitrary write sequences and arbitrary downstream response scripts
(`Down`: per call, how many bytes are taken and whether an error is returned).
Contracts that rely on the io.Writer rule "short write ⇒ error" assume
`Down.Conforming`; the others hold for every script.

Vocabulary (`Mutagen.Model.StreamWriters`): `consumed bufs results` — the
bytes the caller may regard as written (first `n` bytes of each buffer, `n` the
returned count); `accepted bufs results` — the buffers of the writes that
returned a nil error; `splitLines` — complete lines and trailing fragment of a
byte stream; `Down.run` — writing straight to the downstream writer.
-/
namespace Mutagen.Properties.C47
open Mutagen.Model.StreamWriters Mutagen.Proofs.StreamWriters Mutagen.Proofs.StreamLines

/-! ## Cutoff writer -/

/-- The cutoff writer forwards exactly the first `N` bytes and reports all
later bytes as written: after any write sequence, with any contract-obeying
downstream writer (short writes and failures allowed), the downstream writer
has received exactly the first `N` of the bytes reported as written, the
remaining cutoff is `N` minus that, and every call reports either all its
bytes with a nil error or the downstream writer's error with a count that
does not exceed the buffer. -/
theorem cutoff_contract (N : Nat) (script : List WResp) (bufs : List (List UInt8))
    (hconf : (Down.new script).Conforming) :
    let w : Cutoff := { down := Down.new script, cutoff := N }
    (w.run bufs).1.down.got = (consumed bufs (w.run bufs).2).take N ∧
    (w.run bufs).1.cutoff = N - (w.run bufs).1.down.got.length ∧
    (w.run bufs).2.length = bufs.length ∧
    (∀ (i : Nat) (b : List UInt8) (r : Nat × Err), bufs[i]? = some b → (w.run bufs).2[i]? = some r →
      r.1 ≤ b.length ∧ (r.2 = .none → r.1 = b.length) ∧ (r.2 = .none ∨ r.2 = .peer)) := by
  intro w
  obtain ⟨h1, h2, h3, h4⟩ := cutoff_run bufs w hconf
  have hg : w.down.got = [] := rfl
  rw [hg, List.nil_append] at h1
  refine ⟨h1, ?_, h3, h4⟩
  rw [h2, h1]

/-- Once the cutoff is reached the downstream writer is not touched any more
and every write is reported complete. -/
theorem cutoff_reached (w : Cutoff) (h : w.cutoff = 0) (buf : List UInt8) :
    w.write buf = (w, buf.length, .none) := by
  simp [Cutoff.write, h]

/-! ## Line processor -/

/-- The line processor delivers exactly the newline-separated lines with
carriage returns trimmed: after any write sequence the callback has been
called, in order, with exactly the complete lines of the accepted byte stream
(each with one trailing CR removed), the buffer holds the fragment after the
last newline, and every write either is accepted entirely or is rejected
entirely with `ErrMaximumBufferSizeExceeded`. -/
theorem lines_contract (maxBuf : Int) (bufs : List (List UInt8)) :
    let p : LineProc := { maxBuf := maxBuf, buffer := [], lines := [] }
    (p.run bufs).1.lines = (splitLines (accepted bufs (p.run bufs).2)).1.map trimCarriageReturn ∧
    (p.run bufs).1.buffer = (splitLines (accepted bufs (p.run bufs).2)).2 ∧
    (p.run bufs).2.length = bufs.length ∧
    (∀ (i : Nat) (b : List UInt8) (r : Nat × Err), bufs[i]? = some b → (p.run bufs).2[i]? = some r →
      r = (b.length, .none) ∨ r = (0, .maxbuf)) := by
  intro p
  obtain ⟨h1, h2, h3, h4⟩ := lineProc_run bufs p [] rfl rfl
  rw [List.nil_append] at h1 h2
  exact ⟨h2, h1, h3, h4⟩

/-- A write is rejected exactly when the buffered fragment plus the new data
exceed the limit (the default limit of the code when `MaximumBufferSize` is 0,
no limit when it is negative); a rejected write changes nothing. -/
theorem lines_limit (p : LineProc) (data : List UInt8) :
    (lineLimitExceeded p.maxBuf p.buffer.length data.length → p.write data = (p, 0, .maxbuf)) ∧
    (¬lineLimitExceeded p.maxBuf p.buffer.length data.length → (p.write data).2 = (data.length, .none)) :=
  ⟨(lineProc_write p data).1, fun h => ((lineProc_write p data).2 h).1⟩

/-- The default limit is the 64 KiB of the code (regenerated from the Go
source; a changed constant breaks this). -/
theorem lines_default_limit : Mutagen.Facts.streamDefaultLineProcessorMaximumBufferSize = 64 * 1024 := by
  decide

/-- `splitLines` is "split at the newlines": joining the lines with `'\n'` and
appending the fragment gives the stream back, and neither the lines nor the
fragment contain a newline. -/
theorem splitLines_is_split (r : List UInt8) :
    ((splitLines r).1.map (· ++ [10])).flatten ++ (splitLines r).2 = r ∧
    (∀ l ∈ (splitLines r).1, (10 : UInt8) ∉ l) ∧ (10 : UInt8) ∉ (splitLines r).2 :=
  ⟨splitLines_flatten r, splitLines_no_newline r⟩

/-- `trimCarriageReturn` removes exactly one trailing CR, if there is one. -/
theorem trim_is_trim (l : List UInt8) :
    trimCarriageReturn (l ++ [13]) = l ∧ (l.getLast? ≠ some 13 → trimCarriageReturn l = l) :=
  trim_spec l

/-! ## Hashing writer -/

/-- The hashing writer digests exactly the bytes accepted downstream, for
every downstream behaviour (short writes, failures, even contract
violations), and is otherwise transparent: same counts, same errors, same
effect on the downstream writer as writing to it directly. -/
theorem hashed_contract (script : List WResp) (bufs : List (List UInt8)) :
    let w : Hashed := { down := Down.new script, hashed := [] }
    (w.run bufs).1.hashed = (w.run bufs).1.down.got ∧
    ((w.run bufs).1.down, (w.run bufs).2) = (Down.new script).run bufs := by
  intro w
  exact hashed_run bufs w rfl

/-! ## Preemptable writer -/

/-- Before cancellation the preemptable writer is transparent. -/
theorem preempt_transparent (interval : Nat) (script : List WResp) (sched : List (Bool × List UInt8))
    (hnc : ∀ s ∈ sched, s.1 = false) :
    let w : Preempt := { down := Down.new script, checkInterval := interval, writeCount := 0 }
    ((w.run sched).1.down, (w.run sched).2) = (Down.new script).run (sched.map Prod.snd) := by
  intro w
  exact (preempt_uncancelled_run sched w (Nat.zero_le _) hnc).2.2

/-- The preemptable writer stops within its check interval after cancellation:
for every schedule `before ++ after` in which the channel is open during
`before` and closed during `after`, at most `interval` of the writes in
`after` reach the downstream writer; once a write has been preempted, every
later one is preempted too (returns `(0, ErrWritePreempted)` without touching
the downstream writer); and from the `interval`-th write after cancellation
on (counting from 0) every write is preempted. -/
theorem preempt_contract (interval : Nat) (script : List WResp)
    (before after : List (Bool × List UInt8))
    (hb : ∀ s ∈ before, s.1 = false) (ha : ∀ s ∈ after, s.1 = true) :
    let w : Preempt := { down := Down.new script, checkInterval := interval, writeCount := 0 }
    let w1 := (w.run before).1
    calls (w1.run after).1.down ≤ calls w1.down + interval ∧
    (∀ i, (w1.run after).2[i]? = some (0, .preempted) →
      ∀ j, i ≤ j → j < after.length → (w1.run after).2[j]? = some (0, .preempted)) ∧
    (∀ j, interval ≤ j → j < after.length → (w1.run after).2[j]? = some (0, .preempted)) := by
  intro w w1
  obtain ⟨h1, h2, _⟩ := preempt_uncancelled_run before w (Nat.zero_le _) hb
  have hci : w1.checkInterval = interval := h2
  have hwc : w1.writeCount ≤ w1.checkInterval := by rw [hci]; exact h1
  obtain ⟨c1, c2⟩ := preempt_cancelled_run after w1 hwc ha
  rw [hci] at c1
  refine ⟨by omega, c2, ?_⟩
  intro j hj hjl
  have hd := preempt_deadline after w1 hwc ha (by rw [hci]; omega)
  exact c2 _ hd j (by rw [hci]; omega) hjl

/-! ## Valve writer -/

/-- While open, the valve is transparent. -/
theorem valve_open_transparent (script : List WResp) (ops : List ValveOp) (bufs : List (List UInt8))
    (h : onlyWrites ops = some bufs) :
    let w : Valve := { down := Down.new script, isOpen := true }
    ((w.run ops).1.down, (w.run ops).2) = (Down.new script).run bufs := by
  intro w
  exact (valve_open_run ops w bufs rfl h).2

/-- A shut valve discards: the write is reported complete and the downstream
writer is not touched. -/
theorem valve_shut_discards (w : Valve) (h : w.isOpen = false) (buffer : List UInt8) :
    w.write buffer = (w, buffer.length, .none) := by
  simp [Valve.write, h]

/-- After `Shut` (also for a valve created without a writer) no operation
sequence ever reaches the downstream writer again, and every write is
reported complete with a nil error. -/
theorem valve_contract (w : Valve) (ops : List ValveOp) :
    (w.shut.run ops).1.down = w.down ∧ (w.shut.run ops).2 = shutResults ops := by
  have := valve_shut_run ops w.shut rfl
  rw [this]
  exact ⟨rfl, rfl⟩

/-! ## Multi-closer -/

/-- The multi-closer closes everything, in order, each closer once, and
reports the first error (nil if none fails). -/
theorem multicloser_contract (closers : List (Option Nat)) :
    (MultiCloser.close closers).1 = List.range closers.length ∧
    (MultiCloser.close closers).2 = closers.findSome? id := by
  obtain ⟨h1, h2⟩ := multiClose_spec closers [] 0 none
  refine ⟨?_, h2⟩
  show (multiClose closers [] 0 none).1 = _
  rw [h1, List.nil_append, List.range_eq_range']

/-! ## Non-vacuity -/

/-- A cutoff of 3 over writes of 2+2+1 bytes with a downstream writer that
takes nothing (and so fails) on the second call: the hypotheses of
`cutoff_contract` are satisfiable and its conclusion is non-trivial. -/
example :
    let w : Cutoff := { down := Down.new [⟨99, false, false⟩, ⟨0, false, false⟩], cutoff := 3 }
    (Down.new [⟨99, false, false⟩, ⟨0, false, false⟩]).Conforming ∧
    (w.run [[1, 2], [3, 4], [5]]).2 = [(2, .none), (0, .peer), (1, .none)] ∧
    (w.run [[1, 2], [3, 4], [5]]).1.down.got = [1, 2, 5] := by
  refine ⟨by intro r hr; simp [Down.new] at hr; rcases hr with rfl | rfl <;> rfl, by decide, by decide⟩

/-- Lines split across writes, with CRLF. -/
example :
    let p : LineProc := { maxBuf := -1, buffer := [], lines := [] }
    (p.run [[97, 13], [10, 98, 10, 99]]).1.lines = [[97], [98]] ∧
    (p.run [[97, 13], [10, 98, 10, 99]]).1.buffer = [99] := by
  simp [LineProc.run, LineProc.write, lineLoop, indexByte, trimCarriageReturn]

end Mutagen.Properties.C47
