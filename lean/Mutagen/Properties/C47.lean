import Mutagen.Model.StreamWriters
/-!
# C47 — stream helper writers honour their contracts
-/
namespace Mutagen.Properties.C47
open Mutagen.Model.StreamWriters

/-- A shut valve discards: the write is reported complete and the downstream
writer is not touched. -/
theorem valve_shut_discards (w : Valve) (h : w.isOpen = false) (buffer : List UInt8) :
    w.write buffer = (w, buffer.length, .none) := by
  simp [Valve.write, h]

end Mutagen.Properties.C47
