import Mutagen.Proofs.Reconcile
import Mutagen.Proofs.Conflict
/-!
# C06 — every path receives at most one action and conflicts are well formed

Theorems about the executable model `Mutagen.Model.Reconcile` of
`reconcile.go` / `conflict.go` (tied to `core.Reconcile` by the C06
correspondence stream, all four modes). Helper lemmas live in
`Mutagen.Proofs.Reconcile`. All statements hold for arbitrary trees and every
mode.

`Plan.actionPaths p` lists the paths of the alpha changes, the beta changes
and the conflict roots of a plan (with multiplicity); `incomparable p q` says
that neither path is a prefix of the other (in particular `p ≠ q`).
-/
namespace Mutagen.Properties.C06
open Mutagen.Model

/-- A plan never schedules two actions for the same path or for a path and one
of its descendants — on the same endpoint, on opposite endpoints, or as a
change alongside a conflict: the action paths are pairwise incomparable. -/
theorem actions_incomparable (mode : Mode) (A alpha beta : Option Entry) :
    List.Pairwise incomparable (Reconcile A alpha beta mode).actionPaths :=
  (reconcile_actions mode [] A alpha beta).2

/-- In particular no path occurs twice among the actions. -/
theorem actions_nodup (mode : Mode) (A alpha beta : Option Entry) :
    (Reconcile A alpha beta mode).actionPaths.Nodup :=
  (actions_incomparable mode A alpha beta).imp
    (fun {a b} (h : incomparable a b) (heq : a = b) => h.1 (heq ▸ List.prefix_refl a))

/-- Structure of every reported conflict: its beta side is non-empty and every
change it names, on either side, lies at or below its root. -/
theorem conflict_wellformed_partial (mode : Mode) (A alpha beta : Option Entry) :
    ∀ c ∈ (Reconcile A alpha beta mode).conflicts,
      c.betaChanges ≠ [] ∧
      (∀ ch ∈ c.alphaChanges, c.root <+: ch.path) ∧
      (∀ ch ∈ c.betaChanges, c.root <+: ch.path) := by
  intro c hc
  obtain ⟨_, _, h2, h3, h4⟩ := reconcile_conflicts mode [] A alpha beta c hc
  exact ⟨h2, h3, h4⟩

/-- Every reported conflict names at least one change on *each* endpoint, all
of them at or below its root — for valid endpoint trees without phantom
directories, in every mode. (Without the no-phantom hypothesis a
phantom-vs-untracked pair yields a conflict with an empty alpha side.) -/
theorem conflict_wellformed_partial2 (mode : Mode) (A alpha beta : Option Entry)
    (hα : Valid alpha) (hβ : Valid beta) (hpα : onoPhantom alpha = true) (hpβ : onoPhantom beta = true) :
    ∀ c ∈ (Reconcile A alpha beta mode).conflicts,
      c.alphaChanges ≠ [] ∧ c.betaChanges ≠ [] ∧
      (∀ ch ∈ c.alphaChanges, c.root <+: ch.path) ∧
      (∀ ch ∈ c.betaChanges, c.root <+: ch.path) := by
  intro c hc
  obtain ⟨h2, h3, h4⟩ := conflict_wellformed_partial mode A alpha beta c hc
  exact ⟨reconcile_conflict_alpha mode [] A alpha beta hα hβ hpα hpβ c hc, h2, h3, h4⟩

/-- **Conflicts are well formed** (full statement): for a valid synchronizable
ancestor and valid endpoint trees without phantom directories, in every mode,
every reported conflict passes `Conflict.EnsureValid`, names at least one
change on each endpoint, names only changes at or below its root, and is rooted
at a path where the disagreement occurs — the endpoints differ (shallowly)
there and agree at every proper prefix of it. -/
theorem conflict_wellformed (mode : Mode) (A alpha beta : Option Entry)
    (hA : ValidSync A) (hα : Valid alpha) (hβ : Valid beta)
    (hpα : onoPhantom alpha = true) (hpβ : onoPhantom beta = true) :
    ∀ c ∈ (Reconcile A alpha beta mode).conflicts,
      c.ensureValid = true ∧
      c.alphaChanges ≠ [] ∧ c.betaChanges ≠ [] ∧
      (∀ ch ∈ c.alphaChanges, c.root <+: ch.path) ∧
      (∀ ch ∈ c.betaChanges, c.root <+: ch.path) ∧
      FirstDisagreement alpha beta c.root := by
  intro c hc
  obtain ⟨h1, h2, h3, h4⟩ := conflict_wellformed_partial2 mode A alpha beta hα hβ hpα hpβ c hc
  have hv := reconcile_conflicts_valid mode [] A alpha beta (Valid.of_validSync hA) hα hβ c hc
  obtain ⟨rel, hr, hd⟩ := reconcile_conflict_rooted mode [] A alpha beta c hc
  simp only [List.nil_append] at hr
  exact ⟨Conflict.ensureValid_of h1 h2 hv, h1, h2, h3, h4, hr ▸ hd⟩

/-- Rootedness needs no hypotheses at all. -/
theorem conflict_rooted_at_disagreement (mode : Mode) (A alpha beta : Option Entry) :
    ∀ c ∈ (Reconcile A alpha beta mode).conflicts, FirstDisagreement alpha beta c.root := by
  intro c hc
  obtain ⟨rel, hr, hd⟩ := reconcile_conflict_rooted mode [] A alpha beta c hc
  simp only [List.nil_append] at hr
  exact hr ▸ hd

/-- In the one-way modes the alpha side is the single synthetic change at the
conflict's root, whatever the trees. -/
theorem conflict_alpha_nonempty_oneWay (path : Path) (a alpha beta : Option Entry) :
    (∀ c ∈ (handleOneWaySafe path a alpha beta).conflicts, c.alphaChanges ≠ []) ∧
    (∀ c ∈ (handleOneWayReplica path a alpha beta).conflicts, c.alphaChanges ≠ []) :=
  handleOneWay_conflict_alpha path a alpha beta

/-! Non-vacuity: valid, phantom-free trees with unsynchronizable content exist. -/
example : Valid (some exampleTree1) ∧ onoPhantom (some exampleTree1) = true := by
  unfold Valid; decide

end Mutagen.Properties.C06
