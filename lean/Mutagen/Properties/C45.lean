import Mutagen.Model.LRU
/-!
# C45 — the LRU cache matches its model
-/
namespace Mutagen.Properties.C45
open Mutagen.Model.LRU

/-- A fresh cache is empty. -/
theorem new_empty (n : Int) : (new n).abs = [] ∧ (new n).len = 0 := by
  simp [new, Cache.abs, Cache.len]

end Mutagen.Properties.C45
