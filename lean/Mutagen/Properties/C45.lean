import Mutagen.Model.LRU
import Mutagen.Proofs.LRUAdd
import Mutagen.Proofs.LRURecency
import Mutagen.Proofs.LRULink
/-!
# C45 — the LRU cache matches its model

Property theorems only (helper lemmas live in `Mutagen.Proofs.LRU*`).

`Cache` is the model of `lru.Cache`: heap cells addressed by pointer, the
`container/list` as a list of pointers, the index as a key → pointer map
(`Mutagen.Model.LRU`). `Cache.WF` is the well-formedness of that pointer
structure, `Cache.toSpec` its abstraction to `Spec`: the entries most recently
used first, the capacity, and the log of eviction-callback calls. `Spec.step`
is the specification: a most-recently-used list truncated to the capacity
(`maxEntries = 0`: unbounded, as the Go code is written; negative: keeps
nothing). All theorems are for every `maxEntries` and every operation
sequence.
-/
namespace Mutagen.Properties.C45
open Mutagen.Model.LRU Mutagen.Proofs.LRU

/-- A fresh cache is empty. -/
theorem new_empty (n : Int) : (new n).abs = [] ∧ (new n).len = 0 := by
  simp [new, Cache.abs, Cache.len]

/-- A fresh cache is well-formed and represents the empty specification state. -/
theorem new_refines (n : Int) : (new n).WF ∧ (new n).toSpec = Spec.new n :=
  ⟨new_wf n, rfl⟩

/-! ## Refinement -/

/-- Every operation preserves well-formedness (list without duplicates, linked
elements allocated, index = exactly the keys of the linked elements, capacity
respected) and does to the represented list exactly what the specification
does, with the same `Get`/`Len` answer and the same eviction-callback calls. -/
theorem step_refines (c : Cache) (h : c.WF) (op : Op) :
    (c.step op).1.WF ∧ ((c.step op).1.toSpec, (c.step op).2) = c.toSpec.step op :=
  Mutagen.Proofs.LRU.step_refines c h op

/-- For every `maxEntries` and every sequence of `Add`/`Get`/`Remove`/`Len`:
the cache's answers, its final contents in recency order and its complete
eviction-callback log are those of the most-recently-used list truncated to
capacity. -/
theorem run_refines (maxEntries : Int) (ops : List Op) :
    (((new maxEntries).run ops).1.toSpec, ((new maxEntries).run ops).2) = (Spec.new maxEntries).run ops :=
  (Mutagen.Proofs.LRU.run_refines ops (new maxEntries) (new_wf maxEntries)).2

/-- Well-formedness holds in every reachable state. -/
theorem wf_reachable (maxEntries : Int) (ops : List Op) : ((new maxEntries).run ops).1.WF :=
  (Mutagen.Proofs.LRU.run_refines ops (new maxEntries) (new_wf maxEntries)).1

/-! ## The cache holds distinct keys, at most `maxEntries` of them -/

/-- In every reachable state the keys are distinct, `Len()` is their number, a
positive `maxEntries` bounds it, and a negative one keeps the cache empty. -/
theorem contents_bounded (maxEntries : Int) (ops : List Op) :
    let c := ((new maxEntries).run ops).1
    (c.abs.map Prod.fst).Nodup ∧ c.len = c.abs.length ∧
    (maxEntries > 0 → (c.len : Int) ≤ maxEntries) ∧ (maxEntries < 0 → c.abs = []) := by
  intro c
  have hinv := run_inv ops (Spec.new maxEntries) (new_inv maxEntries)
  have href := run_refines maxEntries ops
  have hs : c.toSpec = ((Spec.new maxEntries).run ops).1 := by rw [← href]
  rw [← hs] at hinv
  have hcap : c.toSpec.cap = maxEntries := run_maxEntries ops (new maxEntries) (new_wf maxEntries)
  have hlen : c.len = c.abs.length := by simp [Cache.len, Cache.abs]
  refine ⟨hinv.nodup, hlen, ?_, ?_⟩
  · intro hp; rw [hlen]; exact hcap ▸ hinv.capPos (by rw [hcap]; exact hp)
  · intro hn; exact hinv.capNeg (by rw [hcap]; exact hn)

/-! ## The eviction callback: exactly once for every entry that leaves -/

/-- One operation: the callback log only grows, by at most one call, and the
entries still cached together with the entries just reported are exactly (a
rearrangement of) the entries in play — the old contents, where `Add k v`
first replaces any old entry for `k` by `(k, v)`. So an entry that leaves is
reported, once, with its current value, and nothing that stays is reported. -/
theorem eviction_exactly_once (c : Cache) (h : c.WF) (op : Op) :
    ∃ delta, (c.step op).1.evicted = c.evicted ++ delta ∧ delta.length ≤ 1 ∧
      ((c.step op).1.abs ++ delta).Perm (base c.toSpec op) := by
  have hinv : SpecInv c.toSpec := wf_specInv c h
  obtain ⟨_, href⟩ := step_refines c h op
  have hst : (c.step op).1.toSpec = (c.toSpec.step op).1 := by rw [← href]
  obtain ⟨delta, h1, h2⟩ := step_conservation c.toSpec hinv op
  obtain ⟨delta', h1', h3⟩ := step_logs_at_most_one c.toSpec hinv op
  have : delta' = delta := by
    rw [h1] at h1'; exact (List.append_cancel_left h1').symm
  subst this
  rw [← hst] at h1 h2
  exact ⟨delta', h1, h3, h2⟩

/-! ## Least recently used first -/

/-- After any operation sequence the cached entries are ordered by strictly
decreasing last use, where the last use of a key is defined from the operation
sequence alone (position of the last `Add`/`Get` naming it). The back of the
list — the entry `Add` evicts on overflow — is therefore the least recently
used entry. -/
theorem sorted_by_recency (maxEntries : Int) (ops : List Op) :
    Recent ops ((new maxEntries).run ops).1.abs := by
  have href := run_refines maxEntries ops
  have hs : ((new maxEntries).run ops).1.toSpec = ((Spec.new maxEntries).run ops).1 := by rw [← href]
  have := run_recent ops (Spec.new maxEntries) [] ⟨List.Pairwise.nil, by simp [Spec.new]⟩
  rw [List.nil_append, ← hs] at this
  exact this

/-- When `Add` overflows, every entry that stays was used more recently than
the entry handed to the eviction callback. -/
theorem evicts_least_recently_used (maxEntries : Int) (ops : List Op) (k v : Nat) :
    let c := ((new maxEntries).run ops).1
    let c' := (c.step (.add k v)).1
    ∀ kept ∈ c'.abs, ∀ out ∈ c'.evicted.drop c.evicted.length,
      lastUse (ops ++ [.add k v]) kept.1 > lastUse (ops ++ [.add k v]) out.1 := by
  intro c c'
  have hwf := wf_reachable maxEntries ops
  have hrec := sorted_by_recency maxEntries ops
  obtain ⟨_, href⟩ := step_refines c hwf (.add k v)
  have hst : c'.toSpec = (c.toSpec.step (.add k v)).1 := by rw [← href]
  have hmain := add_evicts_least_recent c.toSpec ops hrec k v
  intro kept hk out ho
  apply hmain kept
  · rw [← hst]; exact hk
  · have he : c'.evicted = c.evicted ++ (truncate c.toSpec.cap ((k, v) :: c.toSpec.items.filter (fun e => e.1 ≠ k))).2 := by
      show c'.toSpec.evicted = _
      rw [hst]; rfl
    rw [he, List.drop_left] at ho
    exact ho

/-! ## Capacity 0 as written, and what `Get` returns -/

/-- `maxEntries = 0` means no limit: `Add` never calls the eviction callback
and the entry count only drops through `Remove`. -/
theorem zero_capacity_unbounded (c : Cache) (h : c.WF) (h0 : c.maxEntries = 0) (k v : Nat) :
    (c.step (.add k v)).1.evicted = c.evicted ∧
    (c.step (.add k v)).1.abs = (k, v) :: c.abs.filter (fun e => e.1 ≠ k) := by
  obtain ⟨_, href⟩ := step_refines c h (.add k v)
  have hst : (c.step (.add k v)).1.toSpec = (c.toSpec.step (.add k v)).1 := by rw [← href]
  have hcap : c.toSpec.cap = 0 := h0
  have : (c.toSpec.step (.add k v)).1 =
      { c.toSpec with items := (k, v) :: c.toSpec.items.filter (fun e => e.1 ≠ k),
                      evicted := c.toSpec.evicted ++ [] } := by
    simp [Spec.step, truncate, hcap]
  rw [this] at hst
  constructor
  · have : (c.step (.add k v)).1.toSpec.evicted = c.evicted := by rw [hst]; simp [Cache.toSpec]
    exact this
  · have : (c.step (.add k v)).1.toSpec.items = (k, v) :: c.abs.filter (fun e => e.1 ≠ k) := by
      rw [hst]; rfl
    exact this

/-- With a non-negative `maxEntries`, `Get k` right after `Add k v` hits and returns `v`. -/
theorem get_after_add (c : Cache) (h : c.WF) (hcap : c.maxEntries ≥ 0) (k v : Nat) :
    ((c.step (.add k v)).1.step (.get k)).2 = .hit v := by
  obtain ⟨hw1, href1⟩ := step_refines c h (.add k v)
  obtain ⟨_, href2⟩ := step_refines _ hw1 (.get k)
  have h2 : ((c.step (.add k v)).1.step (.get k)).2 = ((c.step (.add k v)).1.toSpec.step (.get k)).2 := by
    rw [← href2]
  have h1 : (c.step (.add k v)).1.toSpec = (c.toSpec.step (.add k v)).1 := by rw [← href1]
  rw [h2, h1]
  -- the new entry is at the front of the truncated list
  have hhead : ∃ rest, (c.toSpec.step (.add k v)).1.items = (k, v) :: rest := by
    show ∃ rest, (truncate c.maxEntries ((k, v) :: c.abs.filter (fun e => e.1 ≠ k))).1 = (k, v) :: rest
    unfold truncate
    by_cases h0 : c.maxEntries = 0
    · rw [if_pos h0]; exact ⟨_, rfl⟩
    · rw [if_neg h0]
      obtain ⟨n, hn⟩ : ∃ n, c.maxEntries.toNat = n + 1 := ⟨c.maxEntries.toNat - 1, by omega⟩
      rw [hn]; exact ⟨_, rfl⟩
  obtain ⟨rest, hr⟩ := hhead
  generalize (c.toSpec.step (.add k v)).1 = s1 at hr
  simp only [Spec.step, hr, List.find?_cons, decide_true]

/-! ## Non-vacuity -/

/-- A run that fills the cache, refreshes key 1 and overflows: key 2 (least
recently used) is evicted, once. -/
example : ((new 2).run [.add 1 10, .add 2 20, .get 1, .add 3 30]).1.abs = [(3, 30), (1, 10)] ∧
    ((new 2).run [.add 1 10, .add 2 20, .get 1, .add 3 30]).1.evicted = [(2, 20)] ∧
    ((new 2).run [.add 1 10, .add 2 20, .get 1, .add 3 30]).2 = [.unit, .unit, .hit 10, .unit] := by
  decide

end Mutagen.Properties.C45
