import Mutagen.Proofs.ScanFS
/-!
# C12 — a scan describes the filesystem exactly

Theorems about `Mutagen.Model.ScanFS.scanCold` (the model of `core.Scan` without
acceleration inputs) for **every** filesystem tree, ignorer, symbolic link mode,
permissions mode, probed behaviour, hash function and fault set.  "Describes the
filesystem" itself (the OS side of `lstat`/`readdir`) is tied by the
correspondence run, not proved.

Hypotheses (`Hyp`), all about the *abstract parameters*, none about the code:
* the hash function never returns an empty digest (true of every `hash.Hash`);
* an accepted portable link target is non-empty (C16's `normalize` returns its
  non-empty argument);
* every name recorded for a directory entry (`entryName`: the decoded, possibly
  NFC-recomposed name, or the escaped form of a non-UTF-8 name) is a legal
  entry name and does not start with the temporary prefix, and within one
  directory no two directory entries are recorded under the same name.  On a
  POSIX filesystem names are non-empty, different from `.`/`..`, free of `/`
  and pairwise different; the hypothesis is about the decoding/escaping
  functions preserving that.  Without the "pairwise different" part the counters
  can exceed the content (two entries collapsing to one map key are both
  counted): see `counts_need_distinct_names`.
-/
namespace Mutagen.Properties.C12
open Mutagen.Model Mutagen.Model.ScanFS Mutagen.Proofs.ScanFS

/-- A legal entry name (entry.go `EnsureValid`) that is not a Mutagen temporary name. -/
def goodName (n : Name) : Bool := validName n && noTemporaryPrefix n

structure Hyp (cfg : Cfg) (root : Node) : Prop where
  hash_nonempty : ∀ c, cfg.hash c ≠ []
  normalize_nonempty : ∀ p t t', cfg.normalize p t = some t' → t' ≠ ""
  names : NamesOK cfg goodName root

theorem goodName_valid (n : Name) (h : goodName n = true) : validName n = true := by
  simp [goodName] at h; exact h.1

/-- `scan_valid`: the snapshot of a successful cold scan passes
`Snapshot.EnsureValid` (= `Content.EnsureValid(false)`, snapshot.go:9-34). -/
theorem scan_valid (cfg : Cfg) (root : Node) (out : Out) (hyp : Hyp cfg root)
    (h : scanCold cfg (some root) = .ok out) : oensureValid false out.snapshot.content = true := by
  obtain ⟨e, he, g⟩ := scanCold_good cfg goodName hyp.hash_nonempty hyp.normalize_nonempty goodName_valid root hyp.names out h
  rw [he]; exact g.valid

/-- An absent root gives the empty snapshot, empty caches, and that snapshot is valid. -/
theorem scan_absent (cfg : Cfg) :
    scanCold cfg none = .ok { snapshot := {}, cache := [], ignoreCache := [] } ∧
    oensureValid false ({} : Snapshot).content = true := ⟨rfl, rfl⟩

/-- A symbolic link or a special file at the root is an error (`filesystem.Open` refuses it). -/
theorem scan_root_kinds (cfg : Cfg) (t : String) (k : Nat) :
    scanCold cfg (some (.symlink t)) = .error .openRoot ∧ scanCold cfg (some (.other k)) = .error .openRoot :=
  ⟨rfl, rfl⟩

/-- `scan_counts`: the directory / file / link counters of the snapshot are the
numbers of directory (tracked **or phantom**), file and symbolic link entries of
its content; the byte counter is the sum of the sizes of the digest-cache
entries the scan produced, and there is exactly one such entry per file entry. -/
theorem scan_counts (cfg : Cfg) (root : Node) (out : Out) (hyp : Hyp cfg root)
    (h : scanCold cfg (some root) = .ok out) :
    ∃ e, out.snapshot.content = some e ∧
      out.snapshot.dirs = nDirs e ∧ out.snapshot.files = nFiles e ∧ out.snapshot.links = nLinks e ∧
      out.snapshot.size = cacheSizes out.cache ∧ out.cache.length = nFiles e := by
  obtain ⟨e, he, g⟩ := scanCold_good cfg goodName hyp.hash_nonempty hyp.normalize_nonempty goodName_valid root hyp.names out h
  have hi := g.inv ⟨rfl, rfl⟩
  have hd := g.dirs; have hf := g.files; have hl := g.links
  simp only [Nat.zero_add] at hd hf hl
  exact ⟨e, he, hd, hf, hl, hi.1, by rw [hi.2]; exact hf⟩

theorem allNames_mono (P Q : Name → Bool) (hPQ : ∀ n, P n = true → Q n = true) :
    (e : Entry) → allNames P e = true → allNames Q e = true
  | .mk _ cs, h => by
    simp only [allNames] at h ⊢
    exact allNamesL_mono P Q hPQ cs h
where
  allNamesL_mono (P Q : Name → Bool) (hPQ : ∀ n, P n = true → Q n = true) :
      (cs : Contents) → allNamesL P cs = true → allNamesL Q cs = true
    | [], _ => by simp [allNamesL]
    | (n, c) :: r, h => by
      simp only [allNamesL, Bool.and_eq_true] at h ⊢
      exact ⟨⟨hPQ n h.1.1, allNames_mono P Q hPQ c h.1.2⟩, allNamesL_mono P Q hPQ r h.2⟩

/-- `scan_no_temporary`: no entry at any depth of the snapshot is named with
`filesystem.TemporaryNamePrefix`, and every name is a legal entry name. -/
theorem scan_no_temporary (cfg : Cfg) (root : Node) (out : Out) (hyp : Hyp cfg root)
    (h : scanCold cfg (some root) = .ok out) :
    ∃ e, out.snapshot.content = some e ∧ allNames noTemporaryPrefix e = true ∧ allNames validName e = true := by
  obtain ⟨e, he, g⟩ := scanCold_good cfg goodName hyp.hash_nonempty hyp.normalize_nonempty goodName_valid root hyp.names out h
  refine ⟨e, he, allNames_mono goodName _ ?_ e g.names, allNames_mono goodName _ goodName_valid e g.names⟩
  intro n hn; simp [goodName] at hn; exact hn.2

/-- A directory entry whose raw name carries the temporary prefix is skipped
before anything else is looked at (it is not even recorded as untracked). -/
theorem temporary_skipped (cfg : Cfg) (acc : Accel) (pfx : String) (mask : Bool) (raw : Bytes) (node : Node)
    (h : hasTemporaryPrefix raw = true) : preDispatch cfg acc pfx mask raw node = .skip := by
  simp [preDispatch, h]

/-! ## The kind table -/

/-- Non-UTF-8 name: problematic, or untracked under an ignore mask; recorded
under the escaped name. -/
theorem kind_non_utf8 (cfg : Cfg) (acc : Accel) (pfx : String) (mask : Bool) (raw : Bytes) (node : Node)
    (ht : hasTemporaryPrefix raw = false) (hu : cfg.utf8 raw = none) :
    preDispatch cfg acc pfx mask raw node =
      .put (cfg.escape raw ++ " (non-UTF-8)") (if mask then untracked else problematic "non-UTF-8 filename") none := by
  simp [preDispatch, ht, hu]

/-- Unsupported file type (FIFO, socket, device): untracked, whatever the ignorer says. -/
theorem kind_other (cfg : Cfg) (acc : Accel) (pfx : String) (mask : Bool) (raw : Bytes) (k : Nat) (s : String)
    (ht : hasTemporaryPrefix raw = false) (hu : cfg.utf8 raw = some s) :
    ∃ name, preDispatch cfg acc pfx mask raw (.other k) = .put name untracked none := by
  simp [preDispatch, ht, hu]

/-- Ignored path (explicitly, or nominal under a mask) without traversal
continuation: untracked. -/
theorem kind_ignored (cfg : Cfg) (pfx : String) (mask : Bool) (raw : Bytes) (node : Node) (s : String)
    (ht : hasTemporaryPrefix raw = false) (hu : cfg.utf8 raw = some s)
    (hk : ∀ k, node ≠ .other k)
    (hi : let name := if cfg.decomposes then cfg.nfc s else s
          let b := cfg.ignorer (pfx ++ name) (match node with | .dir _ _ => true | _ => false)
          (b.status = .ignored ∨ (b.status = .nominal ∧ mask = true)) ∧ b.cont = false) :
    ∃ name ign, preDispatch cfg {} pfx mask raw node = .put name untracked ign := by
  obtain ⟨hst, hc⟩ := hi
  cases node with
  | other k => exact absurd rfl (hk k)
  | dir d cs =>
    simp only [preDispatch, ht, hu, ignoreBehavior, alookup]
    rcases hst with h | ⟨h, hm⟩
    · simp [ignoreDecision, h, hc]
    · simp [ignoreDecision, h, hc, hm]
  | file c p m sz i =>
    simp only [preDispatch, ht, hu, ignoreBehavior, alookup]
    rcases hst with h | ⟨h, hm⟩
    · simp [ignoreDecision, h, hc]
    · simp [ignoreDecision, h, hc, hm]
  | symlink t =>
    simp only [preDispatch, ht, hu, ignoreBehavior, alookup]
    rcases hst with h | ⟨h, hm⟩
    · simp [ignoreDecision, h, hc]
    · simp [ignoreDecision, h, hc, hm]

/-- Readable regular file: a file entry with the digest of its content, marked
executable exactly when the permissions mode is portable, the filesystem
preserves executability and some executable bit is set; one cache entry with
the file's metadata. -/
theorem kind_file (cfg : Cfg) (path : String) (isRoot : Bool) (content : Bytes) (perm : Nat) (mtime : MTime)
    (size ino : Nat) (st : St) (baseline : Option Entry) (mask : Bool) (link : Fault × String)
    (hopen : isRoot = true ∨ cfg.openFileFault path = .none) (hsize : content.length = size) (htime : mtime.valid = true) :
    scanNode cfg {} path isRoot baseline mask link (.file content perm mtime size ino) st =
      (.entry (.mk { kind := .file, digest := cfg.hash content,
                     executable := cfg.permsMode == .portable && cfg.preservesExec && anyExecBit perm } []),
       { st with newCache := (path, { mode := modeTypeFile + perm, mtime := mtime, size := size, fileID := ino,
                                      digest := cfg.hash content }) :: st.newCache,
                 files := st.files + 1, size := st.size + size }) := by
  unfold scanNode scanFile
  simp only [alookup, cacheContentMatch, cacheEntryReusable, fileDigest, fileCacheEntry]
  rcases hopen with h | h <;> simp [h, hsize, htime]

/-- Unreadable regular file (the open fails with anything but "does not
exist"): problematic, no cache entry, no counter moves. -/
theorem kind_file_unreadable (cfg : Cfg) (path : String) (content : Bytes) (perm : Nat) (mtime : MTime)
    (size ino : Nat) (st : St) (baseline : Option Entry) (mask : Bool) (link : Fault × String)
    (hopen : cfg.openFileFault path = .err) :
    scanNode cfg {} path false baseline mask link (.file content perm mtime size ino) st =
      (.entry (problematic "unable to open file"), st) := by
  unfold scanNode scanFile
  simp [alookup, cacheContentMatch, fileDigest, hopen]

/-- Symbolic links, by mode: ignored mode → untracked; portable mode → a link
entry with the normalised target when `normalize` accepts it, else
problematic; POSIX-raw mode → the raw target unless it is empty. -/
theorem kind_symlink (cfg : Cfg) (path : String) (t target : String) (st : St) (baseline : Option Entry) (mask : Bool)
    (hread : cfg.readlinkFault path = .none) :
    scanNode cfg {} path false baseline mask (.none, target) (.symlink t) st =
      match cfg.symlinkMode with
      | .ignore => (.entry untracked, st)
      | .portable =>
        match cfg.normalize path target with
        | some t' => (.entry (.mk { kind := .symlink, target := t' } []), { st with links := st.links + 1 })
        | none => (.entry (problematic "invalid symbolic link"), st)
      | .posixRaw =>
        if target = "" then (.entry (problematic "symbolic link target is empty"), st)
        else (.entry (.mk { kind := .symlink, target := target } []), { st with links := st.links + 1 }) := by
  unfold scanNode
  cases cfg.symlinkMode
  · rfl
  · simp only [scanSymlink, linkFault, hread, linkTarget]
    cases cfg.normalize path target <;> simp
  · simp only [scanSymlink, linkFault, hread, linkTarget]
    by_cases h : target = "" <;> simp [h]

/-- Unreadable link target: problematic. -/
theorem kind_symlink_unreadable (cfg : Cfg) (path : String) (t : String) (st : St) (baseline : Option Entry) (mask : Bool)
    (link : Fault × String) (hmode : cfg.symlinkMode ≠ .ignore) (hread : cfg.readlinkFault path = .err) :
    scanNode cfg {} path false baseline mask link (.symlink t) st =
      (.entry (problematic "unable to read symbolic link target"), st) := by
  unfold scanNode
  cases hm : cfg.symlinkMode
  · exact absurd hm hmode
  · simp [scanSymlink, linkFault, hread]
  · simp [scanSymlink, linkFault, hread]

/-- A directory that cannot be opened or listed, or that lies on another
device: problematic. -/
theorem kind_directory_unreadable (cfg : Cfg) (path : String) (dev : Nat) (cs : Children) (st : St)
    (baseline : Option Entry) (mask : Bool) (link : Fault × String)
    (h : dev ≠ cfg.deviceID ∨ cfg.openDirFault path = .err ∨ (cfg.openDirFault path = .none ∧ cfg.readDirFault path = true)) :
    ∃ msg, scanNode cfg {} path false baseline mask link (.dir dev cs) st = (.entry (problematic msg), st) := by
  unfold scanNode
  by_cases hd : dev ≠ cfg.deviceID
  · exact ⟨_, by rw [if_pos hd]⟩
  · rw [if_neg hd]
    rcases h with h | h | ⟨h1, h2⟩
    · exact absurd h hd
    · exact ⟨"unable to open directory", by simp [h]⟩
    · exact ⟨"unable to read directory contents", by simp [h1, h2]⟩

/-- A directory entry is a tracked directory without, and a phantom directory
with, an ignore mask. -/
theorem kind_directory (cfg : Cfg) (acc : Accel) (path : String) (isRoot : Bool) (dev : Nat) (cs : Children) (st st' : St)
    (baseline : Option Entry) (mask : Bool) (link : Fault × String) (e : Entry)
    (h : scanNode cfg acc path isRoot baseline mask link (.dir dev cs) st = (.entry e, st')) :
    e.kind = .problematic ∨ e.kind = (if mask then .phantom else .directory) := by
  unfold scanNode at h
  by_cases hd : dev ≠ cfg.deviceID
  · rw [if_pos hd] at h; cases h; left; rfl
  · rw [if_neg hd] at h
    revert h
    generalize (if isRoot = true then Fault.none else cfg.openDirFault path) = f
    cases f
    · simp only
      by_cases hr : cfg.readDirFault path = true
      · rw [if_pos hr]; intro h; cases h; left; rfl
      · rw [if_neg hr]
        cases scanChildren cfg acc (if cs.isEmpty = true then "" else joinable path) cs cs baseline mask [] st with
        | none => intro h; cases h
        | some r => intro h; cases h; right; rfl
    · intro h; cases h; left; rfl
    · intro h; cases h

/-- Executability is reported only where it is preserved and the permissions mode is portable. -/
theorem exec_only_when_preserved (cfg : Cfg) (acc : Accel) (path : String) (isRoot : Bool) (content : Bytes) (perm : Nat)
    (mtime : MTime) (size ino : Nat) (st st' : St) (e : Entry)
    (h : scanFile cfg acc path isRoot content perm mtime size ino st = (.entry e, st'))
    (hx : e.props.executable = true) :
    cfg.permsMode = .portable ∧ cfg.preservesExec = true ∧ anyExecBit perm = true := by
  unfold scanFile at h
  simp only at h
  split at h
  · rename_i r hd
    obtain ⟨h1, _⟩ := Prod.mk.inj h
    subst h1
    rcases fileDigest_error _ _ _ _ _ _ _ _ hd with h1 | ⟨msg, _, h1⟩
    · cases h1
    · cases h1; simp [problematic, Entry.props] at hx
  · split at h
    · cases h; simp [problematic, Entry.props] at hx
    · cases h
      simp [Entry.props] at hx
      exact ⟨by simpa using hx.1.1, hx.1.2, hx.2⟩

/-! ## Non-vacuity and necessity of the name hypothesis -/

/-- The hypotheses are satisfiable by a tree with a file, a directory, a FIFO
with a non-UTF-8 name and a temporary file, and the scan of it succeeds with one
file counted. -/
example : Hyp (exCfg decAB) exTree ∧ isOk (scanCold (exCfg decAB) (some exTree)) = true ∧
    filesOf (scanCold (exCfg decAB) (some exTree)) = 1 := by
  refine ⟨⟨?_, ?_, ?_⟩, by decide +kernel, by decide +kernel⟩
  · intro c; simp [exCfg]
  · intro p t t' h
    simp only [exCfg] at h
    by_cases ht : t = ""
    · simp [ht] at h
    · simp [ht] at h; rw [← h]; exact ht
  · simp only [exTree, NamesOK, NamesOKL, entryNames, List.filterMap]
    have e1 : entryName (exCfg decAB) [97] = some "a" := by decide
    have e2 : entryName (exCfg decAB) [98] = some "b" := by decide
    have e3 : entryName (exCfg decAB) [255] = some "x (non-UTF-8)" := by decide
    have e4 : entryName (exCfg decAB) (temporaryPrefixBytes ++ [120]) = none := by decide
    refine ⟨by decide, ⟨?_, trivial, ?_, ⟨by decide, trivial⟩, ?_, trivial, ?_, trivial, trivial⟩⟩
    · intro s hs; rw [e1] at hs; cases hs; decide
    · intro s hs; rw [e2] at hs; cases hs; decide
    · intro s hs; rw [e3] at hs; cases hs; decide
    · intro s hs; rw [e4] at hs; cases hs

/-- `counts_need_distinct_names`: when two directory entries are recorded under
the same name (here: the decoder collapses `a` and `b`), both files are counted
but the content holds one: the hypothesis of `scan_counts` cannot be dropped.
(In the Go code: `contents[name] = entry` overwrites, `s.files++` ran twice.) -/
theorem counts_need_distinct_names :
    filesOf (scanCold (exCfg decCollapse) (some exTwoFiles)) = 2 ∧
    contentFilesOf (scanCold (exCfg decCollapse) (some exTwoFiles)) = 1 := by decide +kernel

end Mutagen.Properties.C12
