import Mutagen.Model.TransitionFS
/-!
# C09 — transition results describe the disk exactly under any fault
-/
namespace Mutagen.Properties.C09
open Mutagen.Model Mutagen.Model.TFS

/-- `Transition` yields exactly one result per transition, whatever the fault
oracle, the sibling order, the cancellation point and the state of the disk. -/
theorem one_result_per_transition (env : Env) (st : St) (plan : List Change) :
    (transition env st plan).1.length = plan.length := by
  induction plan generalizing st with
  | nil => simp [transition]
  | cons t ts ih => simp [transition, ih]

end Mutagen.Properties.C09
