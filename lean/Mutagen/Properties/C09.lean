import Mutagen.Proofs.Describe
/-!
# C09 — transition results describe the disk exactly under any fault

Theorems about `transition env st plan` of `Mutagen.Model.TFS` (the model of
`core.Transition`, with the repaired `createSymbolicLink` of `fixes/C09.patch`),
for **every** fault oracle (`env.oracle`: an arbitrary function of the call
history, deciding for every hooked filesystem call whether it fails, returns
the cross-device error or cancels the context), every sibling order that visits
every name, every cancellation point (including "already cancelled"), and
missing or present staged files.

`RepO X fs q p r`: the reported entry `r` is the synchronizable description of
what the tree `fs` holds at position `q` (path `p`): `RepAt` for an entry —
file: same executability and `digest = H content`; link: the target a scan
shows; directory: exactly the non-temporary children that have a
synchronizable description, recursively — and, for `none`, "nothing
synchronizable there" (`UnsyncAt`: nothing, a special file, or a link the scan
does not show).

Hypotheses (`XHyp`, `StepPre`, `Honest`, `Incomparable`) are spelled out at
each theorem.
-/
namespace Mutagen.Properties.C09
open Mutagen.Model Mutagen.Model.TFS Mutagen.Proofs.FS

/-- `Transition` yields exactly one result per transition, whatever the fault
oracle, the sibling order, the cancellation point and the state of the disk. -/
theorem one_result_per_transition (env : Env) (st : St) (plan : List Change) :
    (transition env st plan).1.length = plan.length := by
  induction plan generalizing st with
  | nil => simp [transition]
  | cons t ts ih => simp [transition, ih]

/-- A default file mode made of permission bits only, without executability
bits and readable by someone (`EnsureDefaultFileModeValid` enforces the first
two; the third holds for every sensible mode) satisfies `FileModeOK`: created
files are executable on disk exactly when their entry says so. -/
theorem fileModeOK_of_bits (env : Env) (h1 : env.fileMode < 512) (h2 : env.fileMode &&& 0o111 = 0)
    (h3 : env.fileMode &&& 0o444 ≠ 0) : FileModeOK env := by
  have key : ∀ fm : Fin 512, fm.val &&& 0o111 = 0 → fm.val &&& 0o444 ≠ 0 → ∀ b : Bool,
      execOf ((if b then markExecutableForReaders fm.val else fm.val) % 512) = b ∧
      (if b then markExecutableForReaders fm.val else fm.val) % 512 ≠ 0 := by
    decide +kernel
  exact key ⟨env.fileMode, h1⟩ h2 h3

/-- Per-function lemma (partial removal returns the remaining subset):
`removeDirectory`, started on a directory that its expected entry describes,
either removes it (`true`: nothing is left at the position) or returns the
reduced entry describing exactly what is still there — for every fault oracle,
cancellation point and complete sibling order; nothing outside the directory
(but temporaries) changes. -/
theorem removeDirectory_exact_thm (X : XCtx) (hord : OrdComplete X.env) (fuel : Nat) (st : St) (parent : Handle)
    (name : Name) (path : Path) (expected : Entry) (hq : TempFree (parent ++ [name]))
    (hk : expected.kind = .directory) (hrep : RepAt X st.fs (parent ++ [name]) path expected) :
    FrameT st.fs (removeDirectory X.env fuel st parent name path expected).2.2.fs (parent ++ [name]) ∧
    ((removeDirectory X.env fuel st parent name path expected).1 = true →
      sget (removeDirectory X.env fuel st parent name path expected).2.2.fs (parent ++ [name]) = none) ∧
    ((removeDirectory X.env fuel st parent name path expected).1 = false →
      RepAt X (removeDirectory X.env fuel st parent name path expected).2.2.fs (parent ++ [name]) path
        (removeDirectory X.env fuel st parent name path expected).2.1) := by
  obtain ⟨h1, _, h3, h4⟩ := removeDirectory_exact X hord fuel st parent name path expected hq hk hrep
  exact ⟨h1, h3, h4⟩

/-- Per-function lemma (partial creation returns the created subset):
`createDirectory` either creates nothing (`none`: only temporaries may have
changed) or returns an entry describing exactly what now exists at the
position, which was empty before — for every fault oracle (including the
cross-device fallback for the files inside), cancellation point and sibling
order. -/
theorem createDirectory_exact_thm (X : XCtx) (htmp : ∀ k l, isTemporaryName (X.env.tmpName k l) = true)
    (hmode : FileModeOK X.env) (fuel : Nat) (st : St) (parent : Handle) (name : Name) (path : Path)
    (target : Entry) (hq : TempFree (parent ++ [name])) (hg : GoodNew target) (hk : target.kind = .directory)
    (hH : Honest X st) :
    ((createDirectory X.env fuel st parent name path target).1 = none →
      Unch st.fs (createDirectory X.env fuel st parent name path target).2.fs) ∧
    (∀ ce, (createDirectory X.env fuel st parent name path target).1 = some ce →
      sget st.fs (parent ++ [name]) = none ∧
      RepAt X (createDirectory X.env fuel st parent name path target).2.fs (parent ++ [name]) path ce ∧
      FrameT st.fs (createDirectory X.env fuel st parent name path target).2.fs (parent ++ [name])) := by
  obtain ⟨_, h2, h3⟩ := createDirectory_exact X htmp hmode fuel st parent name path target hq hg hk hH
  exact ⟨h2, h3⟩

/-- **Results describe the disk.** Let the transition start in a state where,
for every transition of the plan, the old entry describes what is on disk at
its path (`StepPre`: the disk is consistent with the scan the plan was made
from), the new entry is well formed and free of temporary names, the staged
files hash to their digests (`Honest`, the store invariant of C10), and the
paths of the plan are pairwise incomparable (C06).  Then, for every fault
oracle, cancellation point, complete sibling order and whichever staged files
are missing, the i-th reported entry describes exactly what is on disk at the
i-th path afterwards. -/
theorem results_describe_disk (X : XCtx) (hx : XHyp X) (st : St) (plan : List Change)
    (hH : Honest X st) (hpre : ∀ t ∈ plan, StepPre X st.fs t)
    (hinc : List.Pairwise (fun a b : Change => Incomparable a.path b.path) plan)
    (i : Nat) (t : Change) (r : Option Entry)
    (ht : plan[i]? = some t) (hr : (transition X.env st plan).1[i]? = some r) :
    RepO X (transition X.env st plan).2.fs (X.env.rootName :: t.path) t.path r :=
  (transition_exact X hx plan st hH hpre hinc).1.get i t r ht hr

/-- What the transition did not plan to touch is not touched: the temp-free
part of every subtree whose path is incomparable with all transition paths is
the same afterwards (under the hypotheses of `results_describe_disk`). -/
theorem unrelated_paths_untouched (X : XCtx) (hx : XHyp X) (st : St) (plan : List Change)
    (hH : Honest X st) (hpre : ∀ t ∈ plan, StepPre X st.fs t)
    (hinc : List.Pairwise (fun a b : Change => Incomparable a.path b.path) plan)
    (p : Path) (hp : TempFree p) (hall : ∀ t ∈ plan, Incomparable p t.path) :
    SameBelow st.fs (transition X.env st plan).2.fs (X.env.rootName :: p) :=
  (transition_exact X hx plan st hH hpre hinc).2 p hp hall

/-- **A scan taken immediately after the transition agrees with the reported
results**: at every transitioned path, the reported entry equals (up to the
order of directory contents) the synchronizable part of what the scan model
`describe` reports for the node now at that path — `none` when nothing is
there.  Additional hypothesis: the directory tables of that node have distinct
names (true of every real directory). -/
theorem scan_after_agrees (X : XCtx) (hx : XHyp X) (st : St) (plan : List Change)
    (hH : Honest X st) (hpre : ∀ t ∈ plan, StepPre X st.fs t)
    (hinc : List.Pairwise (fun a b : Change => Incomparable a.path b.path) plan)
    (i : Nat) (t : Change) (r : Option Entry)
    (ht : plan[i]? = some t) (hr : (transition X.env st plan).1[i]? = some r)
    (hwf : ∀ node, (transition X.env st plan).2.fs.get (X.env.rootName :: t.path) = some node → WFNode node) :
    EqO r (match (transition X.env st plan).2.fs.get (X.env.rootName :: t.path) with
      | none => none
      | some node => (describe (scOf X) t.path node).synchronizable) := by
  have h1 := results_describe_disk X hx st plan hH hpre hinc i t r ht hr
  cases hg : (transition X.env st plan).2.fs.get (X.env.rootName :: t.path) with
  | none => exact repO_unique X _ _ _ _ _ h1 (repO_absent X _ _ _ hg)
  | some node =>
    exact repO_unique X _ _ _ _ _ h1
      (describe_rep X (sizeOf node) node _ _ t.path (Nat.le_refl _) (hwf node hg) hg)

/-- Non-vacuity: the hypotheses of `results_describe_disk` hold for a concrete
plan that creates a file from a staged copy while the cross-device fallback is
forced and the context is cancelled during the first rename. -/
example :
    let env : Env := {
      rootName := "root", cache := [], slMode := .posixRaw, fileMode := 0o644, dirMode := 0o755
      oracle := fun tr op _ => if op == .rename && tr.length < 3 then .exdev else .pass
      ord := id, norm := fun _ t => some t, provideErr := fun _ _ => false
      tmpName := fun _ _ => ".mutagen-temporary-x" }
    let X : XCtx := { env := env, H := fun _ => [9] }
    let st : St := { fs := .dir 0o755 [("root", .dir 0o755 [])], staged := [((["a"], [9]), ⟨[1, 2], 0o600, 5, 7⟩)] }
    let plan : List Change := [Change.mk ["a"] none (some (.mk { kind := .file, digest := [9] } []))]
    ∀ r, (transition X.env st plan).1[0]? = some r →
      RepO X (transition X.env st plan).2.fs ["root", "a"] ["a"] r := by
  intro env X st plan r hr
  have hx : XHyp X := {
    tmp := fun _ _ => (by decide +kernel : isTemporaryName ".mutagen-temporary-x" = true)
    mode := fileModeOK_of_bits env (by decide) (by decide) (by decide)
    ord := fun l n h => h
    root := by decide +kernel }
  refine results_describe_disk X hx st plan ?_ ?_ ?_ 0 _ r rfl hr
  · intro k f hk
    simp only [st, Mutagen.Model.TFS.aget] at hk
    split at hk
    · rename_i he; subst he; rfl
    · cases hk
  · intro t ht
    simp only [plan, List.mem_singleton] at ht
    subst ht
    refine ⟨?_, ?_, ?_⟩
    · intro n hn
      simp only [List.mem_singleton] at hn
      subst hn
      decide +kernel
    · intro e he
      simp only [Option.some.injEq] at he
      subst he
      exact GoodNew.file false [9]
    · exact unsync_of_none X st.fs ["root", "a"] ["a"] (by decide)
  · simp [plan]

end Mutagen.Properties.C09
