import Mutagen.Proofs.Expected
/-!
# C08 — transitions never destroy content changed after the scan

All theorems are about `transition env st plan` of `Mutagen.Model.TFS`, the
model of `core.Transition`, and hold for **every** environment `env` (cache,
symbolic link mode, fault oracle, sibling order, provider behaviour, temporary
names), every starting state `st` (tree at transition time, staging area,
already cancelled or not) and every plan.  `st.fs` is the tree at transition
time (the parent of the synchronization root on top), `sget fs q` the shallow
node at the position `q` (for a file: content, permissions, modification time
and inode; for a link: its target), `env.rootName :: p` the position of the
synchronization path `p`.

Hypothesis used: `CacheRegular env.cache` — every cache entry has the type bits
of a regular file, which holds for the cache of any scan
(`scan_cache_regular`).
-/
namespace Mutagen.Properties.C08
open Mutagen.Model Mutagen.Model.TFS Mutagen.Proofs.FS

/-- Per-function lemma: `ensureExpectedFile` never changes the filesystem, and
it accepts only a node whose type and permission bits, modification time, size
and file identity all equal the cached ones (and whose cached digest is the
expected one): any metadata difference, or a path missing from the cache, is
refused. -/
theorem ensureExpectedFile_refuses (env : Env) (st : St) (parent : Handle) (name : Name) (path : Path)
    (expected : Entry) (r : Option String) (st' : St)
    (h : ensureExpectedFile env st parent name path expected = (r, st')) :
    st'.fs = st.fs ∧
    (r = none →
      ∃ cached node, Mutagen.Model.TFS.aget path env.cache = some cached ∧
        (dirAt st.fs parent).bind (Mutagen.Model.TFS.aget name) = some node ∧
        node.stat.mode = cached.mode ∧ node.stat.mtime = cached.mtime ∧ node.stat.size = cached.size ∧
        node.stat.ino = cached.ino ∧ cached.digest = expected.props.digest) :=
  ensureExpectedFile_spec env st parent name path expected r st' h

/-- Per-function lemma: `ensureExpectedSymbolicLink` never changes the
filesystem and accepts only a link whose (normalised) target is the expected one. -/
theorem ensureExpectedSymbolicLink_refuses (env : Env) (st : St) (parent : Handle) (name : Name) (path : Path)
    (expected : Entry) (r : Option String) (st' : St)
    (h : ensureExpectedSymbolicLink env st parent name path expected = (r, st')) :
    st'.fs = st.fs ∧
    (r = none → ∃ t, (dirAt st.fs parent).bind (Mutagen.Model.TFS.aget name) = some (.symlink t) ∧
      linkAccepted env path t expected.props) :=
  ensureExpectedSymbolicLink_spec env st parent name path expected r st' h

/-- The cache of a scan (one entry per regular file of the scanned tree, whose
permission bits are 12 bits wide) satisfies `CacheRegular`. -/
theorem scan_cache_regular (H : List UInt8 → List UInt8) (f0 : Node) (hp : PermsOK f0) :
    CacheRegular (cacheOf H [] f0) :=
  cacheOf_regular H (sizeOf f0) f0 [] (Nat.le_refl _) hp

/-- **A modified file is never deleted or replaced.** A file of the
transition-time tree whose (type, mode, size, modification time, inode) does
not equal the cache entry of its path — or whose path is not in the cache — is
present, byte-, mode-, time- and inode-identical, after the transition. -/
theorem modified_file_preserved (env : Env) (hreg : CacheRegular env.cache) (st : St) (plan : List Change)
    (p : Path) (d : List UInt8) (perm mtime ino : Nat)
    (hfile : sget st.fs (env.rootName :: p) = some (.file d perm mtime ino))
    (hmod : ¬ cacheMatches env.cache p d perm mtime ino) :
    sget (transition env st plan).2.fs (env.rootName :: p) = some (.file d perm mtime ino) := by
  rw [← hfile]
  exact guarded_preserved env hreg st plan _ ⟨p, _, rfl, hfile, Or.inr hmod⟩

/-- The same with the cache of a scan of an arbitrary scan-time tree `f0`. -/
theorem modified_file_preserved_scan (H : List UInt8 → List UInt8) (f0 : Node) (hp : PermsOK f0) (env : Env)
    (hc : env.cache = cacheOf H [] f0) (st : St) (plan : List Change)
    (p : Path) (d : List UInt8) (perm mtime ino : Nat)
    (hfile : sget st.fs (env.rootName :: p) = some (.file d perm mtime ino))
    (hmod : ¬ cacheMatches (cacheOf H [] f0) p d perm mtime ino) :
    sget (transition env st plan).2.fs (env.rootName :: p) = some (.file d perm mtime ino) :=
  modified_file_preserved env (hc ▸ scan_cache_regular H f0 hp) st plan p d perm mtime ino hfile (hc ▸ hmod)

/-- **A retargeted link is never deleted or replaced.** A symbolic link whose
target is accepted by no entry the plan expects at its path is present with the
same target after the transition. -/
theorem retargeted_link_preserved (env : Env) (hreg : CacheRegular env.cache) (st : St) (plan : List Change)
    (p : Path) (t : String)
    (hlink : sget st.fs (env.rootName :: p) = some (.symlink t))
    (hdiff : ∀ pr, expectedAt plan p pr → ¬ linkAccepted env p t pr) :
    sget (transition env st plan).2.fs (env.rootName :: p) = some (.symlink t) := by
  rw [← hlink]
  exact guarded_preserved env hreg st plan _ ⟨p, _, rfl, hlink, Or.inr hdiff⟩

/-- With a normalisation that returns its argument or fails (POSIX): a link
whose target differs from every target the plan expects at its path survives. -/
theorem retargeted_link_preserved_posix (env : Env) (hreg : CacheRegular env.cache) (st : St) (plan : List Change)
    (hnorm : ∀ q s s', env.norm q s = some s' → s' = s)
    (p : Path) (t : String)
    (hlink : sget st.fs (env.rootName :: p) = some (.symlink t))
    (hdiff : ∀ pr, expectedAt plan p pr → pr.target ≠ t) :
    sget (transition env st plan).2.fs (env.rootName :: p) = some (.symlink t) := by
  apply retargeted_link_preserved env hreg st plan p t hlink
  intro pr he ha
  apply hdiff pr he
  unfold linkAccepted at ha
  split at ha
  · exact (hnorm p t pr.target ha)
  · simpa using ha.symm

/-- **Content the plan knows nothing about is never touched**: whatever sits
at a path where no transition's old entry has a node keeps its shallow node
(a file entirely, a directory its existence and mode). -/
theorem unknown_content_preserved (env : Env) (hreg : CacheRegular env.cache) (st : St) (plan : List Change)
    (p : Path) (s : Shallow)
    (hs : sget st.fs (env.rootName :: p) = some s)
    (hun : ∀ pr, ¬ expectedAt plan p pr) :
    sget (transition env st plan).2.fs (env.rootName :: p) = some s := by
  rw [← hs]
  refine guarded_preserved env hreg st plan _ ⟨p, s, rfl, hs, ?_⟩
  cases s <;> first | exact Or.inl hun | exact hun

/-- **A directory holding unknown content is never removed**: if a child name
of a directory is unknown to the plan (nothing expected at the child's path),
the directory is still a directory after the transition and still holds that
child. -/
theorem unknown_child_blocks (env : Env) (hreg : CacheRegular env.cache) (st : St) (plan : List Change)
    (p : Path) (n : Name) (s : Shallow)
    (hchild : sget st.fs (env.rootName :: (p ++ [n])) = some s)
    (hun : ∀ pr, ¬ expectedAt plan (p ++ [n]) pr) :
    sget (transition env st plan).2.fs (env.rootName :: (p ++ [n])) = some s ∧
    ∃ perm cs, (transition env st plan).2.fs.get (env.rootName :: p) = some (.dir perm cs) := by
  have h := unknown_content_preserved env hreg st plan (p ++ [n]) s hchild hun
  refine ⟨h, ?_⟩
  unfold sget at h
  cases hg : (transition env st plan).2.fs.get (env.rootName :: (p ++ [n])) with
  | none => simp [hg] at h
  | some x =>
    have : (transition env st plan).2.fs.get ((env.rootName :: p) ++ [n]) = some x := by simpa using hg
    exact dir_of_child _ _ n x this

/-- Non-vacuity: a file that is not in the cache survives a plan that deletes it. -/
example :
    let env : Env := {
      rootName := "root", cache := [], slMode := .posixRaw, fileMode := 0o644, dirMode := 0o755
      oracle := fun _ _ _ => .pass, ord := id, norm := fun _ t => some t, provideErr := fun _ _ => false
      tmpName := fun _ _ => "tmp" }
    let st : St := { fs := .dir 0o755 [("root", .dir 0o755 [("a", .file [1, 2] 0o644 7 3)])], staged := [] }
    let plan : List Change := [Change.mk ["a"] (some (.mk { kind := .file, digest := [9] } [])) none]
    sget (transition env st plan).2.fs ["root", "a"] = some (.file [1, 2] 0o644 7 3) := by
  intro env st plan
  exact modified_file_preserved env (by intro p c h; simp [env, Mutagen.Model.TFS.aget] at h) st plan ["a"] [1, 2] 0o644 7 3
    (by decide) (by simp [cacheMatches, env, Mutagen.Model.TFS.aget])

end Mutagen.Properties.C08
