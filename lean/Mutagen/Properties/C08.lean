import Mutagen.Model.TransitionFS
/-!
# C08 — transitions never destroy content changed after the scan
-/
namespace Mutagen.Properties.C08
open Mutagen.Model Mutagen.Model.TFS

/-- `ensureExpectedFile` never changes the filesystem, and it accepts only a
node whose type and permission bits, modification time, size and file
identity all equal the cached ones (and whose cached digest is the expected
one): any metadata difference, or a path missing from the cache, is refused. -/
theorem ensureExpectedFile_refuses (env : Env) (st : St) (parent : Handle) (name : Name) (path : Path)
    (expected : Entry) (r : Option String) (st' : St)
    (h : ensureExpectedFile env st parent name path expected = (r, st')) :
    st'.fs = st.fs ∧
    (r = none →
      ∃ cached node, aget path env.cache = some cached ∧
        (dirAt st.fs parent).bind (aget name) = some node ∧
        node.stat.mode = cached.mode ∧ node.stat.mtime = cached.mtime ∧ node.stat.size = cached.size ∧
        node.stat.ino = cached.ino ∧ cached.digest = expected.props.digest) := by
  unfold ensureExpectedFile hook at h
  grind

end Mutagen.Properties.C08
