import Mutagen.Proofs.Expected
import Mutagen.Proofs.Problems
/-!
# C08 — transitions never destroy content changed after the scan

All theorems are about `transition env st plan` of `Mutagen.Model.TFS`, the
model of `core.Transition`, and hold for **every** environment `env` (cache,
symbolic link mode, fault oracle, sibling order, provider behaviour, temporary
names), every starting state `st` (tree at transition time, staging area,
already cancelled or not) and every plan.  `st.fs` is the tree at transition
time (the parent of the synchronization root on top), `sget fs q` the shallow
node at the position `q` (for a file: content, permissions, modification time
and inode; for a link: its target), `env.rootName :: p` the position of the
synchronization path `p`.

Hypothesis used: `CacheRegular env.cache` — every cache entry has the type bits
of a regular file, which holds for the cache of any scan
(`scan_cache_regular`).
-/
namespace Mutagen.Properties.C08
open Mutagen.Model Mutagen.Model.TFS Mutagen.Proofs.FS

/-- Per-function lemma: `ensureExpectedFile` never changes the filesystem, and
it accepts only a node whose type and permission bits, modification time, size
and file identity all equal the cached ones (and whose cached digest is the
expected one): any metadata difference, or a path missing from the cache, is
refused. -/
theorem ensureExpectedFile_refuses (env : Env) (st : St) (parent : Handle) (name : Name) (path : Path)
    (expected : Entry) (r : Option String) (st' : St)
    (h : ensureExpectedFile env st parent name path expected = (r, st')) :
    st'.fs = st.fs ∧
    (r = none →
      ∃ cached node, Mutagen.Model.TFS.aget path env.cache = some cached ∧
        (dirAt st.fs parent).bind (Mutagen.Model.TFS.aget name) = some node ∧
        node.stat.mode = cached.mode ∧ node.stat.mtime = cached.mtime ∧ node.stat.size = cached.size ∧
        node.stat.ino = cached.ino ∧ cached.digest = expected.props.digest) :=
  ensureExpectedFile_spec env st parent name path expected r st' h

/-- Per-function lemma: `ensureExpectedSymbolicLink` never changes the
filesystem and accepts only a link whose (normalised) target is the expected one. -/
theorem ensureExpectedSymbolicLink_refuses (env : Env) (st : St) (parent : Handle) (name : Name) (path : Path)
    (expected : Entry) (r : Option String) (st' : St)
    (h : ensureExpectedSymbolicLink env st parent name path expected = (r, st')) :
    st'.fs = st.fs ∧
    (r = none → ∃ t, (dirAt st.fs parent).bind (Mutagen.Model.TFS.aget name) = some (.symlink t) ∧
      linkAccepted env path t expected.props) :=
  ensureExpectedSymbolicLink_spec env st parent name path expected r st' h

/-- The cache of a scan (one entry per regular file of the scanned tree, whose
permission bits are 12 bits wide) satisfies `CacheRegular`. -/
theorem scan_cache_regular (H : List UInt8 → List UInt8) (f0 : Node) (hp : PermsOK f0) :
    CacheRegular (cacheOf H [] f0) :=
  cacheOf_regular H (sizeOf f0) f0 [] (Nat.le_refl _) hp

/-- **A modified file is never deleted or replaced.** A file of the
transition-time tree whose (type, mode, size, modification time, inode) does
not equal the cache entry of its path — or whose path is not in the cache — is
present, byte-, mode-, time- and inode-identical, after the transition. -/
theorem modified_file_preserved (env : Env) (hreg : CacheRegular env.cache) (st : St) (plan : List Change)
    (p : Path) (d : List UInt8) (perm mtime ino : Nat)
    (hfile : sget st.fs (env.rootName :: p) = some (.file d perm mtime ino))
    (hmod : ¬ cacheMatches env.cache p d perm mtime ino) :
    sget (transition env st plan).2.fs (env.rootName :: p) = some (.file d perm mtime ino) := by
  rw [← hfile]
  exact guarded_preserved env hreg st plan _ ⟨p, _, rfl, hfile, Or.inr hmod⟩

/-- The same with the cache of a scan of an arbitrary scan-time tree `f0`. -/
theorem modified_file_preserved_scan (H : List UInt8 → List UInt8) (f0 : Node) (hp : PermsOK f0) (env : Env)
    (hc : env.cache = cacheOf H [] f0) (st : St) (plan : List Change)
    (p : Path) (d : List UInt8) (perm mtime ino : Nat)
    (hfile : sget st.fs (env.rootName :: p) = some (.file d perm mtime ino))
    (hmod : ¬ cacheMatches (cacheOf H [] f0) p d perm mtime ino) :
    sget (transition env st plan).2.fs (env.rootName :: p) = some (.file d perm mtime ino) :=
  modified_file_preserved env (hc ▸ scan_cache_regular H f0 hp) st plan p d perm mtime ino hfile (hc ▸ hmod)

/-- **A retargeted link is never deleted or replaced.** A symbolic link whose
target is accepted by no entry the plan expects at its path is present with the
same target after the transition. -/
theorem retargeted_link_preserved (env : Env) (hreg : CacheRegular env.cache) (st : St) (plan : List Change)
    (p : Path) (t : String)
    (hlink : sget st.fs (env.rootName :: p) = some (.symlink t))
    (hdiff : ∀ pr, expectedAt plan p pr → ¬ linkAccepted env p t pr) :
    sget (transition env st plan).2.fs (env.rootName :: p) = some (.symlink t) := by
  rw [← hlink]
  exact guarded_preserved env hreg st plan _ ⟨p, _, rfl, hlink, Or.inr hdiff⟩

/-- With a normalisation that returns its argument or fails (POSIX): a link
whose target differs from every target the plan expects at its path survives. -/
theorem retargeted_link_preserved_posix (env : Env) (hreg : CacheRegular env.cache) (st : St) (plan : List Change)
    (hnorm : ∀ q s s', env.norm q s = some s' → s' = s)
    (p : Path) (t : String)
    (hlink : sget st.fs (env.rootName :: p) = some (.symlink t))
    (hdiff : ∀ pr, expectedAt plan p pr → pr.target ≠ t) :
    sget (transition env st plan).2.fs (env.rootName :: p) = some (.symlink t) := by
  apply retargeted_link_preserved env hreg st plan p t hlink
  intro pr he ha
  apply hdiff pr he
  unfold linkAccepted at ha
  split at ha
  · exact (hnorm p t pr.target ha)
  · simpa using ha.symm

/-- **Content the plan knows nothing about is never touched**: whatever sits
at a path where no transition's old entry has a node keeps its shallow node
(a file entirely, a directory its existence and mode). -/
theorem unknown_content_preserved (env : Env) (hreg : CacheRegular env.cache) (st : St) (plan : List Change)
    (p : Path) (s : Shallow)
    (hs : sget st.fs (env.rootName :: p) = some s)
    (hun : ∀ pr, ¬ expectedAt plan p pr) :
    sget (transition env st plan).2.fs (env.rootName :: p) = some s := by
  rw [← hs]
  refine guarded_preserved env hreg st plan _ ⟨p, s, rfl, hs, ?_⟩
  cases s <;> first | exact Or.inl hun | exact hun

/-- **A directory holding unknown content is never removed**: if a child name
of a directory is unknown to the plan (nothing expected at the child's path),
the directory is still a directory after the transition and still holds that
child. -/
theorem unknown_child_blocks (env : Env) (hreg : CacheRegular env.cache) (st : St) (plan : List Change)
    (p : Path) (n : Name) (s : Shallow)
    (hchild : sget st.fs (env.rootName :: (p ++ [n])) = some s)
    (hun : ∀ pr, ¬ expectedAt plan (p ++ [n]) pr) :
    sget (transition env st plan).2.fs (env.rootName :: (p ++ [n])) = some s ∧
    ∃ perm cs, (transition env st plan).2.fs.get (env.rootName :: p) = some (.dir perm cs) := by
  have h := unknown_content_preserved env hreg st plan (p ++ [n]) s hchild hun
  refine ⟨h, ?_⟩
  unfold sget at h
  cases hg : (transition env st plan).2.fs.get (env.rootName :: (p ++ [n])) with
  | none => simp [hg] at h
  | some x =>
    have : (transition env st plan).2.fs.get ((env.rootName :: p) ++ [n]) = some x := by simpa using hg
    exact dir_of_child _ _ n x this

/-- Per-function lemma: **`removeDirectory` refuses on unknown children.** If
the directory holds a guarded child — content the plan does not expect there,
a file whose metadata differs from the cache, a retargeted link — then
`removeDirectory` returns `false` (the directory is not removed) and records at
least one more problem, for every fault oracle, sibling order and fuel. -/
theorem removeDirectory_refuses_unknown (C : Ctx) (hreg : CacheRegular C.env.cache) (fuel : Nat) (st : St)
    (parent : Handle) (name : Name) (path : Path) (expected : Entry) (c : Name)
    (hi : Inv C st.fs) (hq : parent ++ [name] = C.env.rootName :: path) (hw : Within C path expected)
    (hg : G C (parent ++ [name] ++ [c])) :
    (removeDirectory C.env fuel st parent name path expected).1 = false ∧
    st.problems.length < (removeDirectory C.env fuel st parent name path expected).2.2.problems.length :=
  removeDirectory_refuses_guarded C hreg fuel st parent name path expected c hi hq hw hg

/-- Problems are never dropped: the list only grows during a transition. -/
theorem problems_only_grow (env : Env) (st : St) (plan : List Change) :
    st.problems.length ≤ (transition env st plan).2.problems.length :=
  np_transition env plan st

/-- **…and a problem is recorded.** If a transition of the plan has a directory
as its old entry and that directory holds a child unknown to the plan (nothing
is expected at the child's path), then the transition records at least one
problem — and, by `unknown_child_blocks`, the directory and the child are still
there. -/
theorem unknown_child_problem_recorded (env : Env) (hreg : CacheRegular env.cache) (st : St)
    (pre post : List Change) (t : Change) (e : Entry) (c : Name) (s : Shallow)
    (hold : t.old = some e) (hk : e.kind = .directory)
    (hchild : sget st.fs (env.rootName :: (t.path ++ [c])) = some s)
    (hun : ∀ pr, ¬ expectedAt (pre ++ t :: post) (t.path ++ [c]) pr) :
    st.problems.length < (transition env st (pre ++ t :: post)).2.problems.length := by
  apply guarded_child_problem_recorded env hreg st pre post t e c hold hk
  refine ⟨t.path ++ [c], s, rfl, hchild, ?_⟩
  cases s <;> first | exact Or.inl hun | exact hun

/-- **The cross-device fallback carries the caller's `replace` flag.** When a
file is being *created* (`replace = false`) and something already sits at the
target position — content that appeared after the scan at a path where the plan
creates a file — the fallback (reached when the first rename reports a
cross-device error) fails, and nothing but temporary files has changed. -/
theorem crossDevice_never_replaces_on_create (env : Env)
    (htmp : ∀ k l, isTemporaryName (env.tmpName k l) = true) (st : St) (key : Path × List UInt8) (sf : SFile)
    (mode : Nat) (parent : Handle) (name : Name) (hname : isTemporaryName name = false) (r : Option String) (st' : St)
    (h : crossDevice env st key sf mode parent name false = (r, st'))
    (hex : sget st.fs (parent ++ [name]) ≠ none) : r ≠ none ∧ Unch st.fs st'.fs := by
  obtain ⟨_, _, hfail, hok⟩ := crossDevice_eff env htmp st key sf mode parent name hname false r st' h
  have hr : r ≠ none := by
    intro hr
    obtain ⟨_, _, _, _, _, _, hpre⟩ := hok hr
    exact hex (hpre rfl)
  exact ⟨hr, hfail hr⟩

/-- The protection invariant through the cross-device branch, explicitly:
every guarded position (content the plan does not expect, modified files,
retargeted links) keeps its node across the whole fallback — temporary file,
copy (preempted or not), permission change, second rename, clean-up — for
every fault oracle, provided the target position is not guarded whenever the
caller asked for replacement (`swapFile` establishes that with
`ensureExpectedFile`; `createFile` never asks). -/
theorem crossDevice_preserves_guarded (C : Ctx) (st : St) (key : Path × List UInt8) (sf : SFile) (mode : Nat)
    (parent : Handle) (name : Name) (replace : Bool) (r : Option String) (st' : St) (hi : Inv C st.fs)
    (hg : replace = true → ¬ G C (parent ++ [name]))
    (h : crossDevice C.env st key sf mode parent name replace = (r, st')) : Inv C st'.fs :=
  inv_crossDevice C st key sf mode parent name replace r st' hi hg h

/-- Facts regenerated from the Go source that the model hard-codes: the
permission mask (`mode % 512` in `opChmod` / `findAndMove`), the temporary
name prefix a scan ignores, and the prefix of cross-device temporaries (which
must itself be a temporary name). A changed constant breaks this theorem. -/
theorem transition_facts :
    Mutagen.Facts.transitionModePermissionsMask + 1 = 512 ∧
    Mutagen.Facts.transitionTemporaryNamePrefix = ".mutagen-temporary-" ∧
    isTemporaryName tmpPattern = true ∧ copyPreemptionBytes = 33554432 := by
  refine ⟨by decide, rfl, by decide +kernel, by decide⟩

/-- Non-vacuity: a file that is not in the cache survives a plan that deletes it. -/
example :
    let env : Env := {
      rootName := "root", cache := [], slMode := .posixRaw, fileMode := 0o644, dirMode := 0o755
      oracle := fun _ _ _ => .pass, ord := id, norm := fun _ t => some t, provideErr := fun _ _ => false
      tmpName := fun _ _ => "tmp" }
    let st : St := { fs := .dir 0o755 [("root", .dir 0o755 [("a", .file [1, 2] 0o644 7 3)])], staged := [] }
    let plan : List Change := [Change.mk ["a"] (some (.mk { kind := .file, digest := [9] } [])) none]
    sget (transition env st plan).2.fs ["root", "a"] = some (.file [1, 2] 0o644 7 3) := by
  intro env st plan
  exact modified_file_preserved env (by intro p c h; simp [env, Mutagen.Model.TFS.aget] at h) st plan ["a"] [1, 2] 0o644 7 3
    (by decide) (by simp [cacheMatches, env, Mutagen.Model.TFS.aget])

end Mutagen.Properties.C08
