import Mutagen.Model.Tracker
import Mutagen.Proofs.Tracker
/-!
# C30 — state-change long-polls never miss an update

Theorems over the mutex-atomic-step model of `Tracker` / `TrackingLock`
(`Mutagen.Model.Tracker`). `Reachable s` quantifies over *every* interleaving
of API calls by any number of callers, context cancellations, critical
sections, runs of the tracking goroutine and channel operations. Liveness is
stated as enabledness ("the tracking goroutine is runnable and its next pass
answers the request"); that a runnable goroutine eventually runs is the
scheduler's fairness, which the model does not exhibit.

The state index is a `uint64` that wraps from `2^64-1` to `1`; statements about
order carry the hypothesis that fewer than `2^64` steps have been taken.
-/
namespace Mutagen.Properties.C30
open Mutagen.Model.Tracker Mutagen.Proofs.Tracker

/-- **No lost wakeup.** Whenever a registered poll request is answerable — its
previous index differs from the current index, or tracking has been terminated —
the tracking goroutine is runnable (not parked without a pending signal), and
its next pass puts the answer (current index, termination flag) into the
caller's channel and deregisters the request. -/
theorem no_lost_wakeup (s : State) (hs : Reachable s) (w p : Nat) (hr : s.reqs w = some p)
    (ha : s.terminated = true ∨ p ≠ s.index) :
    s.track = .runnable ∧
      ∃ s', step s .track = some s' ∧ s'.chan w = some ⟨s.index, s.terminated⟩ ∧ s'.reqs w = none := by
  have hi := inv_reachable s hs
  have ht := hi.wake w p hr ha
  refine ⟨ht, trackBody s, by simp [step, ht], ?_, ?_⟩
  · have : hit s w = true := (hit_iff s w).mpr ⟨p, hr, ha⟩
    simp [trackBody, this]
  · have : hit s w = true := (hit_iff s w).mpr ⟨p, hr, ha⟩
    simp [trackBody, this]

/-- A caller blocked in `WaitForChange` is never in limbo: its request is
registered (so `no_lost_wakeup` applies to it), or its answer is already
buffered and the `select` can take it. -/
theorem waiter_registered_or_answered (s : State) (hs : Reachable s) (w p : Nat)
    (hp : s.pc w = .pollWait p) :
    s.reqs w = some p ∨ ∃ r, s.chan w = some r ∧ ∃ s', step s (.recv w) = some s' := by
  rcases (inv_reachable s hs).wait_live w p hp with h | ⟨r, h⟩
  · exact Or.inl h
  · exact Or.inr ⟨r, h, by simp only [step, hp, h]; exact ⟨_, rfl⟩⟩

/-- The tracking goroutine's sends never block: a registered request always has
an empty response channel (capacity 1 suffices). -/
theorem send_never_blocks (s : State) (hs : Reachable s) (w p : Nat) (hr : s.reqs w = some p) :
    s.chan w = none :=
  ((inv_reachable s hs).req_pc w p hr).2

/-- A wait that returns without error has seen a change: the returned index
differs from the previous index it was given; a wait that returns
`ErrTrackingTerminated` does so only when tracking has been terminated. -/
theorem successful_wait_sees_change (s s' : State) (hs : Reachable s) (w p : Nat)
    (hp : s.pc w = .pollWait p) (hstep : step s (.recv w) = some s') (r : Result)
    (hd : s'.pc w = .done (some r)) :
    (r.err = .ok → r.index ≠ p) ∧ (r.err = .terminated → s'.terminated = true) ∧ r.err ≠ .canceled := by
  have hi := inv_reachable s hs
  simp only [step, hp] at hstep
  split at hstep
  · rename_i p' r0 heq hc
    cases heq
    cases hstep
    simp only [State.setPc, upd_same, Pc.done.injEq, Option.some.injEq] at hd
    obtain ⟨q, hq, hchg, _, hterm⟩ := hi.chan_pc w r0 hc
    rw [hp] at hq; cases hq
    subst hd
    cases hb : r0.terminated with
    | true => simp [hb]; exact hterm hb
    | false =>
      simp [hb]
      rcases hchg with h | h
      · rw [hb] at h; cases h
      · exact h
  · cases hstep

/-- A wait whose previous index is stale (or any non-zero previous index after
termination … see `registration_after_termination`) is answered promptly: after
its registration the tracking goroutine is runnable, its next pass answers with
the current index, and the `select` returns it — no further state change is
needed. -/
theorem stale_index_prompt (s : State) (hs : Reachable s) (w p : Nat) (hp : s.pc w = .pollPre p)
    (hstale : p ≠ s.index) (hnt : s.terminated = false) :
    ∃ s1 s2 s3, step s (.cs w) = some s1 ∧ s1.track = .runnable ∧ step s1 .track = some s2 ∧
      step s2 (.recv w) = some s3 ∧ s3.pc w = .done (some ⟨s.index, .ok⟩) := by
  have hi := inv_reachable s hs
  have hcs : step s (.cs w) = some ((signal { s with reqs := upd s.reqs w (some p), chan := upd s.chan w none }).setPc w (.pollWait p)) := by
    simp [step, csStep, hp, hnt]
  let s1 := (signal { s with reqs := upd s.reqs w (some p), chan := upd s.chan w none }).setPc w (.pollWait p)
  have hr1 : Reachable s1 := by
    obtain ⟨as, hr⟩ := hs
    exact ⟨as ++ [.cs w], by rw [run_append, hr]; simp [run, hcs]; rfl⟩
  obtain ⟨e1, e2, e3, e4, e5, _, _⟩ := signal_fields { s with reqs := upd s.reqs w (some p), chan := upd s.chan w none }
  have hreq : s1.reqs w = some p := by
    show (signal _).reqs w = _; rw [e3]; exact upd_same _ _ _
  have hidx : s1.index = s.index := by show (signal _).index = _; rw [e1]
  have hterm : s1.terminated = s.terminated := by show (signal _).terminated = _; rw [e2]
  obtain ⟨hrun, s2, hst, hc2, _⟩ := no_lost_wakeup s1 hr1 w p hreq (Or.inr (by rw [hidx]; exact hstale))
  have hpc2 : s2.pc w = .pollWait p := by
    rw [step_pc_other s1 s2 .track w hst (by simp [actor])]
    show upd (signal _).pc w _ w = _; exact upd_same _ _ _
  have h3 : step s2 (.recv w) = some ({ s2 with chan := upd s2.chan w none }.setPc w
      (.done (some ⟨s1.index, if s1.terminated then .terminated else .ok⟩))) := by
    simp [step, hpc2, hc2]
  refine ⟨s1, s2, _, hcs, hrun, hst, h3, ?_⟩
  simp [State.setPc, upd_same, hidx, hterm, hnt]

/-- A previous index of 0 is an immediate read. -/
theorem zero_index_immediate (s : State) (w : Nat) (hp : s.pc w = .poll0) :
    ∃ s', step s (.cs w) = some s' ∧
      s'.pc w = .done (some ⟨s.index, if s.terminated then .terminated else .ok⟩) := by
  exact ⟨s.setPc w (.done (some ⟨s.index, if s.terminated then .terminated else .ok⟩)),
    by simp [step, csStep, hp], by simp [State.setPc, upd_same]⟩

/-- After termination a wait does not register; it returns the current index
with `ErrTrackingTerminated` at once. -/
theorem registration_after_termination (s : State) (w p : Nat) (hp : s.pc w = .pollPre p)
    (ht : s.terminated = true) :
    ∃ s', step s (.cs w) = some s' ∧ s'.pc w = .done (some ⟨s.index, .terminated⟩) ∧ s'.reqs = s.reqs := by
  exact ⟨s.setPc w (.done (some ⟨s.index, .terminated⟩)), by simp [step, csStep, hp, ht],
    by simp [State.setPc, upd_same], rfl⟩

/-- The index is never 0 (0 stays the "immediate read" sentinel even across a
wrap-around), and no call ever returns index 0. -/
theorem index_never_zero (s : State) (hs : Reachable s) :
    s.index ≠ 0 ∧ ∀ w r, s.pc w = .done (some r) → r.index ≠ 0 :=
  ⟨(inv_reachable s hs).idx_pos, (inv_reachable s hs).done_pos⟩

/-- The index never moves backwards, and moves by at most one per step. -/
theorem index_monotone (as bs : List Action) (s s' : State) (h1 : run init as = some s)
    (h2 : run s bs = some s') (hw : 1 + as.length + bs.length < wrap) :
    s.index ≤ s'.index ∧ s'.index ≤ s.index + bs.length := by
  have := run_index_mono init s as h1 (by simp [init]; omega)
  simp [init] at this
  exact run_index_mono s s' bs h2 (by omega)

/-- Only a notification's critical section (NotifyOfChange, or the second half
of TrackingLock.Unlock) changes the index, and it does so exactly when
tracking has not been terminated. -/
theorem only_notifications_advance (s s' : State) (a : Action) (hs : step s a = some s')
    (hne : s'.index ≠ s.index) :
    s'.index = nextIndex s.index ∧ s.terminated = false ∧ ∃ w, a = .cs w ∧ s.pc w = .notify := by
  rcases step_index s s' a hs with h | h
  · exact absurd h hne
  · exact h

/-- A notification advances the index (unless tracking has been terminated) and
wakes the tracking goroutine. -/
theorem notify_advances (s : State) (hs : Reachable s) (w : Nat) (hp : s.pc w = .notify)
    (hnt : s.terminated = false) :
    ∃ s', step s (.cs w) = some s' ∧ s'.index = nextIndex s.index ∧ s'.track = .runnable ∧
      (s.index + 1 < wrap → s'.index = s.index + 1) := by
  have hi := inv_reachable s hs
  have hnex : s.track ≠ .exited := by
    intro e; have := (hi.exited e).1; rw [hnt] at this; cases this
  refine ⟨_, by simp [step, csStep, hp, hnt]; rfl, ?_, ?_, ?_⟩
  · show (signal _).index = _; rw [(signal_fields _).1]
  · show (signal _).track = _; exact signal_runnable _ hnex
  · intro hw; show (signal _).index = _; rw [(signal_fields _).1]; exact nextIndex_eq _ hw

/-- **Every change made through the tracking lock advances the index.** If a
caller is about to execute `TrackingLock.Unlock()` in state `s`, then in every
state in which that call has finished the index is strictly larger than it
was in `s`, or tracking has been terminated. -/
theorem tracking_lock_advances (as bs : List Action) (s s' : State) (w : Nat)
    (h1 : run init as = some s) (hp : s.pc w = .tlUnlock true) (h2 : run s bs = some s')
    (hw : 1 + as.length + bs.length < wrap) (hfin : s'.pc w = .done none ∨ s'.pc w = .idle) :
    s.index < s'.index ∨ s'.terminated = true := by
  have h0 := run_index_mono init s as h1 (by simp [init]; omega)
  simp [init] at h0
  have := unlockPhase_run s.index w s s' bs (Or.inl ⟨Or.inl hp, Nat.le_refl _⟩) h2 (by omega)
  rcases this with ⟨hpc, _⟩ | h
  · rcases hpc with h | h <;> rcases hfin with h' | h' <;> rw [h] at h' <;> cases h'
  · exact h

/-- A result never exceeds the index at the time it is returned. -/
theorem result_at_most_current (as : List Action) (s : State) (h1 : run init as = some s)
    (hw : 1 + as.length < wrap) (w : Nat) (r : Result) (hd : s.pc w = .done (some r)) :
    r.index ≤ s.index :=
  (bounded_run init s as bounded_init h1 (by simp [init]; omega)).2 w r hd

/-- A result is at least the index at the time of the call. -/
theorem result_at_least_call (as bs : List Action) (s s1 s' : State) (w : Nat) (op : Op)
    (h1 : run init as = some s) (hcall : step s (.call w op) = some s1) (h2 : run s1 bs = some s')
    (hw : 2 + as.length + bs.length < wrap) (r : Result) (hd : s'.pc w = .done (some r)) :
    s.index ≤ r.index := by
  have hi := inv_reachable s ⟨as, h1⟩
  have h0 := run_index_mono init s as h1 (by simp [init]; omega)
  simp [init] at h0
  simp only [step] at hcall
  split at hcall
  · rename_i hidle
    cases hcall
    have hno := no_req_of_pc s hi w (by intro p; rw [hidle]; simp)
    have hl : LowerBound s.index w { s with pc := upd s.pc w (entry op), cancelled := upd s.cancelled w false } := by
      refine ⟨Nat.le_refl _, ?_, ?_⟩
      · intro r hc; simp only at hc; rw [hno.2] at hc; cases hc
      · intro r hd; simp only [upd_same] at hd
        cases op <;> simp [entry] at hd
        split at hd <;> cases hd
    exact (lower_run s.index w _ s' bs hl h2 (by simp only; omega)).2.2 r hd
  · cases hcall

/-- **Returned indices never move backwards** (real-time order): if a call by
`a` has its result `ra` available in state `s1`, and later a call by `b` is
made and produces `rb`, then `ra ≤ rb`. -/
theorem results_monotone (as bs cs : List Action) (s1 s2 s3 s4 : State) (a b : Nat) (op : Op)
    (ra rb : Result)
    (h1 : run init as = some s1) (hda : s1.pc a = .done (some ra))
    (h2 : run s1 bs = some s2) (hcall : step s2 (.call b op) = some s3)
    (h3 : run s3 cs = some s4) (hdb : s4.pc b = .done (some rb))
    (hw : 3 + as.length + bs.length + cs.length < wrap) :
    ra.index ≤ rb.index := by
  have hA := result_at_most_current as s1 h1 (by omega) a ra hda
  have hm := index_monotone as bs s1 s2 h1 h2 (by omega)
  have h12 : run init (as ++ bs) = some s2 := by rw [run_append, h1]; exact h2
  have hB := result_at_least_call (as ++ bs) cs s2 s3 s4 b op h12 hcall h3
    (by simp only [List.length_append]; omega) rb hdb
  omega

/-- `Terminate` always completes: while a caller waits for the tracking
goroutine to exit, that goroutine is runnable, its next pass exits (answering
every registered request), and then the wait ends. -/
theorem terminate_completes (s : State) (hs : Reachable s) (w : Nat) (hp : s.pc w = .termWait) :
    (s.track = .exited ∧ ∃ s', step s (.termDone w) = some s') ∨
    (s.track = .runnable ∧ ∃ s', step s .track = some s' ∧ s'.track = .exited ∧
      (∀ v, s'.reqs v = none) ∧ ∃ s'', step s' (.termDone w) = some s'') := by
  have hi := inv_reachable s hs
  have ht := hi.termwait w hp
  by_cases he : s.track = .exited
  · exact Or.inl ⟨he, by simp only [step, hp, he]; exact ⟨_, rfl⟩⟩
  · have hrun := hi.term_wake ht he
    right
    refine ⟨hrun, trackBody s, by simp [step, hrun], by simp [trackBody, ht], ?_, ?_⟩
    · have hr' : Reachable (trackBody s) := by
        obtain ⟨as, hr⟩ := hs
        exact ⟨as ++ [.track], by rw [run_append, hr]; simp [run, step, hrun]⟩
      exact ((inv_reachable _ hr').exited (by simp [trackBody, ht])).2
    · simp only [step, trackBody, hp, ht]; exact ⟨_, rfl⟩

/-! ### Non-vacuity: concrete runs of the model -/

/-- A waiter with the current index blocks, a notification wakes the tracking
goroutine, which answers with the new index. -/
example :
    ((run init [.track, .call 1 (.poll 1), .cs 1, .track, .call 0 .notify, .cs 0, .track, .recv 1]).map
      fun s => (s.index, s.pc 1, s.reqs 1)) = some (2, .done (some ⟨2, .ok⟩), none) := by
  decide

/-- In the middle of that run the hypothesis of `no_lost_wakeup` holds
(request registered with previous index 1, index 2). -/
example :
    ((run init [.track, .call 1 (.poll 1), .cs 1, .track, .call 0 .notify, .cs 0]).map
      fun s => (s.reqs 1, s.index, s.track)) = some (some 1, 2, .runnable) := by
  decide

/-- Termination answers a blocked waiter and lets `Terminate` return. -/
example :
    ((run init [.track, .call 1 (.poll 1), .cs 1, .track, .call 0 .terminate, .cs 0, .track, .termDone 0, .recv 1]).map
      fun s => (s.pc 1, s.pc 0, s.track)) = some (.done (some ⟨1, .terminated⟩), .done none, .exited) := by
  decide

/-- Lock, change, Unlock: the index advances. -/
example :
    ((run init [.call 2 .tlLock, .tlAcq 2, .ret 2, .call 2 .tlUnlock, .tlRel 2, .cs 2]).map
      fun s => (s.index, s.pc 2, s.tlHolder)) = some (2, .done none, none) := by
  decide

end Mutagen.Properties.C30
