import Mutagen.Model.Select
/-!
# C40 — session selection and listing are exact

Property theorems only (helper lemmas live in `Mutagen.Proofs.Select`).
-/
namespace Mutagen.Properties.C40
open Mutagen.Model.Select

/-- `fastpath.Less` is irreflexive. -/
theorem less_irrefl (a : Path) : less a a = false := by
  simp [less]

end Mutagen.Properties.C40
