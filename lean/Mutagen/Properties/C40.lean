import Mutagen.Proofs.Select
/-!
# C40 — session selection and listing are exact

Property theorems only (helper lemmas and the specification-level definitions
`split`, `lexLt`, `Sorted`, `matchesAny`, `allMatched` live in
`Mutagen.Proofs.Select`). Paths are byte lists, `'/'` is `47`.
-/
namespace Mutagen.Properties.C40
open Mutagen.Model.Select Mutagen.Proofs.Select

/-! ## `fastpath.Less` is the depth-first path order -/

/-- `fastpath.Less` (the Go loop, for every pair of byte strings) equals the
lexicographic order on the lists of path components, components compared
byte-wise: the order of a depth-first traversal that visits a directory
before its contents and siblings in name order. -/
theorem less_is_dfs_order (a b : Path) : less a b = lexLt bytesLt (split a) (split b) :=
  less_eq_lexLt a b

/-- `split` really is the component list: joining with `/` gives the path back. -/
theorem split_join (p : Path) : join (split p) = p := join_split p

/-- Go's `<` on strings as modelled (`bytesLt`) is the lexicographic order on bytes. -/
theorem bytesLt_is_lex (a b : List UInt8) : bytesLt a b = lexLt (fun x y => decide (x < y)) a b :=
  bytesLt_eq_lexLt a b

theorem less_irrefl (a : Path) : less a a = false := less_strictTotal.irrefl a

theorem less_trans (a b c : Path) (h1 : less a b = true) (h2 : less b c = true) : less a c = true :=
  less_strictTotal.trans a b c h1 h2

theorem less_asymm (a b : Path) (h : less a b = true) : less b a = false :=
  less_strictTotal.asymm a b h

/-- Totality: two different paths are always ordered one way or the other. -/
theorem less_total (a b : Path) (h : a ≠ b) : less a b = true ∨ less b a = true := by
  cases h1 : less a b with
  | true => exact Or.inl rfl
  | false =>
    cases h2 : less b a with
    | true => exact Or.inr rfl
    | false => exact absurd (less_strictTotal.tri a b h1 h2) h

/-- A directory comes before everything below it (`p` before `p/q`, the root before everything). -/
theorem less_parent_before_descendant (p q : Path) : less p (p ++ 47 :: q) = true := by
  rw [less_eq_lexLt, split_append_slash]
  exact lexLt_append bytesLt_strictTotal.irrefl _ _ (split_ne_nil q)

/-! ## Selection -/

theorem specMatches_iff (spec : String) (s : Session) :
    specMatches spec s = true ↔ s.id = spec ∨ s.name = spec := by
  simp [specMatches]

/-- Closed form of `findControllersBySpecification`: it fails iff some
specification matches no session, and otherwise returns exactly the sessions
matching at least one specification (each once, in registry order). -/
theorem select_by_spec (ss : List Session) (specs : List String) :
    findBySpec ss specs =
      if allMatched ss specs then .ok (ss.filter (matchesAny specs)) else .error .noMatch :=
  findBySpec_eq ss specs

/-- Selection by specifications returns exactly the sessions matching at least one specification. -/
theorem select_by_spec_exact (ss : List Session) (specs : List String) (r : List Session)
    (h : findBySpec ss specs = .ok r) (s : Session) :
    s ∈ r ↔ s ∈ ss ∧ ∃ spec ∈ specs, s.id = spec ∨ s.name = spec := by
  rw [findBySpec_eq] at h
  split at h
  · injection h with h
    subst h
    simp [matchesAny, specMatches]
  · cases h

/-- No session is returned twice. -/
theorem select_by_spec_nodup (ss : List Session) (specs : List String) (r : List Session)
    (hn : ss.Nodup) (h : findBySpec ss specs = .ok r) : r.Nodup := by
  rw [findBySpec_eq] at h
  split at h
  · injection h with h
    subst h
    exact hn.filter _
  · cases h

/-- Selection by specifications fails iff some specification matches no
session; the failure is the "did not match any sessions" error. -/
theorem select_fails_on_unmatched (ss : List Session) (specs : List String) :
    findBySpec ss specs = .error .noMatch ↔
      ∃ spec ∈ specs, ∀ s ∈ ss, ¬ (s.id = spec ∨ s.name = spec) := by
  rw [findBySpec_eq]
  by_cases h : allMatched ss specs = true
  · simp only [h, if_true]
    constructor
    · intro h'; cases h'
    · rintro ⟨spec, hs, hno⟩
      simp only [allMatched, List.all_eq_true, List.any_eq_true] at h
      obtain ⟨s, hs1, hs2⟩ := h spec hs
      exact absurd ((specMatches_iff spec s).mp hs2) (hno s hs1)
  · have h' : allMatched ss specs = false := by simpa using h
    simp only [h', Bool.false_eq_true, if_false, true_iff]
    simp only [allMatched, List.all_eq_false, List.any_eq_true] at h'
    obtain ⟨spec, hs, hno⟩ := h'
    refine ⟨spec, hs, ?_⟩
    intro s hs1 hm
    exact hno ⟨s, hs1, (specMatches_iff spec s).mpr hm⟩

/-- ... and it never fails in another way. -/
theorem select_by_spec_total (ss : List Session) (specs : List String) :
    (∃ r, findBySpec ss specs = .ok r) ∨ findBySpec ss specs = .error .noMatch := by
  rw [findBySpec_eq]
  split
  · exact Or.inl ⟨_, rfl⟩
  · exact Or.inr rfl

/-- Selection by label selector returns exactly the sessions whose labels
satisfy the selector (`p` is the matching predicate of the parsed selector). -/
theorem select_by_label_exact (p : Labels → Bool) (ss : List Session) (s : Session) :
    s ∈ findByPred p ss ↔ s ∈ ss ∧ p s.labels = true := by
  simp [findByPred]

/-- `selectControllers` dispatch: `All` wins, then specifications, then the label selector. -/
theorem select_dispatch (ss : List Session) (sel : Selection) :
    select ss sel =
      if sel.all then .ok ss
      else if sel.specs ≠ [] then findBySpec ss sel.specs
      else match sel.selector with
        | .absent => .error .invalid
        | .bad => .error .badSelector
        | .reqs rs => .ok (ss.filter fun s => reqsMatch rs s.labels) := by
  unfold select
  by_cases h1 : sel.all = true
  · simp [h1]
  · simp only [h1]
    by_cases h2 : sel.specs = []
    · simp only [h2, List.length_nil, Nat.lt_irrefl, if_false, ne_eq, not_true]
      cases sel.selector <;> simp [findByLabel, findByPred]
    · have : sel.specs.length > 0 := List.length_pos_iff.mpr h2
      simp [this, h2]

/-! ## Listing -/

/-- Listings are ordered by creation time, oldest first (seconds, then nanoseconds). -/
theorem list_sorted_by_creation_time (ss : List Session) (sel : Selection) (ls : List Listed)
    (h : list ss sel = .ok ls) :
    ls.Pairwise fun a b => a.sec < b.sec ∨ (a.sec = b.sec ∧ a.nanos ≤ b.nanos) := by
  unfold list at h
  split at h
  · cases h
  · injection h with h
    subst h
    have := sortBy_sorted createdBefore_strictWeak (List.map snapshot ‹_›)
    refine List.Pairwise.imp ?_ this
    intro a b hab
    simp only [createdBefore, Bool.or_eq_false_iff, Bool.and_eq_false_iff, decide_eq_false_iff_not,
      beq_eq_false_iff_ne, ne_eq] at hab
    omega

/-- A listing contains exactly one state per selected session (it is a
permutation of the snapshots of the selection), and fails exactly when the
selection fails. -/
theorem list_is_selection (ss : List Session) (sel : Selection) :
    match select ss sel with
    | .ok cs => ∃ ls, list ss sel = .ok ls ∧ ls.Perm (cs.map snapshot)
    | .error e => list ss sel = .error e := by
  unfold list
  split
  · rename_i cs h
    simp only [h]
    exact ⟨_, rfl, sortBy_perm _ _⟩
  · rename_i e h
    simp only [h]

/-- The limits used by `Manager.List`, regenerated from the Go constants. -/
theorem list_limits :
    Mutagen.Facts.selectMaxListConflicts = 10 ∧ Mutagen.Facts.selectMaxListScanProblems = 10 ∧
      Mutagen.Facts.selectMaxListTransitionProblems = 10 := by decide

/-- Each of the five lists of a listed state is the sorted, truncated input list. -/
theorem snapshot_lists (s : Session) :
    (snapshot s).conflicts = sortTruncate 10 s.conflicts ∧
    (snapshot s).alphaScan = sortTruncate 10 s.alphaScan ∧
    (snapshot s).alphaTransition = sortTruncate 10 s.alphaTransition ∧
    (snapshot s).betaScan = sortTruncate 10 s.betaScan ∧
    (snapshot s).betaTransition = sortTruncate 10 s.betaTransition := by
  simp [snapshot, Mutagen.Facts.selectMaxListConflicts, Mutagen.Facts.selectMaxListScanProblems,
    Mutagen.Facts.selectMaxListTransitionProblems]

/-- A truncated list reports exactly how many entries were left out:
kept + excluded = all, at most `limit` are kept, and nothing is excluded unless
the limit is exceeded, in which case exactly `length - limit` are. -/
theorem truncated_excluded_exact (limit : Nat) (ps : List Path) :
    (sortTruncate limit ps).1.length + (sortTruncate limit ps).2 = ps.length ∧
    (sortTruncate limit ps).1.length = min limit ps.length ∧
    (sortTruncate limit ps).2 = ps.length - limit := by
  have hl : (sortPaths ps).length = ps.length := (sortBy_perm less ps).length_eq
  simp only [sortTruncate, truncate_eq, List.length_take, hl]
  exact ⟨by omega, trivial, trivial⟩

/-- The kept entries are in depth-first order and are the smallest ones: kept
followed by some list of the excluded entries is a sorted permutation of the input. -/
theorem truncated_sorted_smallest (limit : Nat) (ps : List Path) :
    ∃ dropped, ((sortTruncate limit ps).1 ++ dropped).Perm ps ∧
      Sorted less ((sortTruncate limit ps).1 ++ dropped) ∧
      dropped.length = (sortTruncate limit ps).2 := by
  refine ⟨(sortPaths ps).drop limit, ?_, ?_, ?_⟩
  · simp only [sortTruncate, truncate_eq, List.take_append_drop]
    exact sortBy_perm less ps
  · simp only [sortTruncate, truncate_eq, List.take_append_drop]
    exact sortBy_sorted less_strictTotal.strictWeak ps
  · have hl : (sortPaths ps).length = ps.length := (sortBy_perm less ps).length_eq
    simp [sortTruncate, truncate_eq, hl]

/-- `SortConflicts` / `SortProblems` produce a permutation in depth-first order. -/
theorem sortPaths_sorted_perm (ps : List Path) :
    (sortPaths ps).Perm ps ∧ (sortPaths ps).Pairwise (fun a b => less b a = false) :=
  ⟨sortBy_perm less ps, sortBy_sorted less_strictTotal.strictWeak ps⟩

/-! ## Non-vacuity -/

/-- `a-b` sorts after everything under `a/` although `'-' < '/'` as bytes:
the order is component-wise, not string order. -/
example : less [97, 47, 98] [97, 45, 98] = true ∧ bytesLt [97, 47, 98] [97, 45, 98] = false := by
  decide

example : (sortTruncate 2 [[98], [97, 47, 99], [], [97]]) = ([[], [97]], 2) := by decide

end Mutagen.Properties.C40
