import Mutagen.Proofs.Handles
import Mutagen.Generated.SourceFacts
/-!
# C17 — synchronization never reaches outside the root through in-root symbolic links

Model: `Mutagen.Model.Handles` — every open is `openat(handle, name,
O_NOFOLLOW[|O_DIRECTORY])` with a name that passed `ensureValidName`; the
kernel's O_NOFOLLOW semantics are *assumed* (an open of a name bound to a
symbolic link fails; a single validated component is looked up in the directory
itself).

The theorems are stated for an arbitrary inode set `S` ("the root region") that
contains the root inode and is `Closed` under directory entries in **every**
filesystem state that occurs: the adversary may do anything between two steps
— replace directories by links, retarget links, create, delete, rename — except
create a *directory entry* leading from the region to the outside (that would be
a hard link or a rename of outside content into the root, i.e. the content is
then inside).  A canary region linked from inside only through symbolic links is
disjoint from such an `S`; hence it is never opened, listed, read, created in,
modified or deleted by anything that goes through these primitives.
-/
namespace Mutagen.Properties.C17
open Mutagen.Model.Handles Mutagen.Proofs.Handles

/-- `names_single`: `ensureValidName` accepts exactly the names that are neither
`.` nor `..` and contain no path separator. -/
theorem names_single (n : Name) :
    validName n = true ↔ n ≠ "." ∧ n ≠ ".." ∧ '/' ∉ n.toList := by
  simp [validName, and_assoc]

/-- One open never follows a link and never leaves the directory it is relative
to: the result is that directory (re-open with `.`) or the inode bound to the
validated single name in it, and that inode is not a symbolic link. -/
theorem open_is_single_entry (fs : FS) (h : Ino) (name : Name) (wd : Bool) (c : Ino) (ho : openAt fs h name wd = .ok c) :
    (wd = true ∧ name = "." ∧ c = h) ∨
    (validName name = true ∧ fs.entry h name = some c ∧ ∀ t, fs.get c ≠ some (.symlink t)) :=
  openAt_ok fs h name wd c ho

/-- An open of a name (other than the `.` re-open) that is bound to a symbolic link fails. -/
theorem open_refuses_links (fs : FS) (h : Ino) (name : Name) (wd : Bool) (c : Ino) (t : String) (hdot : name ≠ ".")
    (he : fs.entry h name = some c) (hl : fs.get c = some (.symlink t)) : ∀ r, openAt fs h name wd ≠ .ok r := by
  intro r ho
  rcases openAt_ok fs h name wd r ho with ⟨_, hn, _⟩ | ⟨_, he', hnl⟩
  · exact hdot hn
  · rw [he] at he'
    cases he'
    exact hnl t hl

/-- `handles_inside_root`, single step: a handle opened from a handle inside the
region is inside the region, in any filesystem state closed under entries. -/
theorem handle_step_inside (S : Ino → Prop) (fs : FS) (hc : Closed S fs) (h : Ino) (name : Name) (wd : Bool) (c : Ino)
    (hS : S h) (ho : openAt fs h name wd = .ok c) : S c :=
  openAt_inside S fs hc h name wd c hS ho

/-- `Opener.OpenFile`: if the opener's handles are inside the region, so are
its handles afterwards, the file it returns, and every handle it applied a name
to — for every path string whatsoever. -/
theorem opener_open_inside (S : Ino → Prop) (fs : FS) (hc : Closed S fs) (hroot : S fs.root)
    (o : Opener) (ho : ∀ h ∈ o.handles, S h) (path : String) :
    (∀ h ∈ (o.openFile fs path).1.handles, S h) ∧
    (∀ i, (o.openFile fs path).2.1 = .ok i → S i) ∧
    (∀ a ∈ (o.openFile fs path).2.2, S a.handle) := by
  have hod : ∀ h ∈ o.dirs, S h := fun h hh => ho h (by simp [Opener.handles, hh])
  unfold Opener.openFile
  by_cases hp : path = ""
  · rw [if_pos hp]
    by_cases hr : o.rootDir.isSome = true
    · rw [if_pos hr]
      exact ⟨ho, (fun i hi => by cases hi), (fun a ha => by cases ha)⟩
    · rw [if_neg hr]
      cases hg : fs.get fs.root with
      | none => exact ⟨ho, (fun i hi => by cases hi), (fun a ha => by cases ha)⟩
      | some node =>
        cases node with
        | file c => exact ⟨ho, (fun i hi => by cases hi; exact hroot), (fun a ha => by cases ha)⟩
        | dir p es => exact ⟨ho, (fun i hi => by cases hi), (fun a ha => by cases ha)⟩
        | symlink t => exact ⟨ho, (fun i hi => by cases hi), (fun a ha => by cases ha)⟩
  · rw [if_neg hp]
    simp only
    -- opening the root
    have hopened : ∀ o' r, (match o.rootDir with
          | some r => (Except.ok (o, r) : Except Err (Opener × Ino))
          | none => match openRoot fs with
            | .error e => .error e
            | .ok r => .ok ({ o with rootDir := some r }, r)) = .ok (o', r) →
        (∀ h ∈ o'.dirs, S h) ∧ S r ∧ (∀ h ∈ o'.rootDir.toList, S h) := by
      intro o' r h
      cases hrd : o.rootDir with
      | some r0 =>
        rw [hrd] at h
        simp only at h
        cases h
        exact ⟨hod, ho r (by simp [Opener.handles, hrd]), (fun h hh => ho h (by simp [Opener.handles, hrd] at hh ⊢; exact Or.inl hh))⟩
      | none =>
        rw [hrd] at h
        simp only [openRoot] at h
        cases hg : fs.get fs.root with
        | none => rw [hg] at h; cases h
        | some node =>
          rw [hg] at h
          cases node with
          | file c => cases h
          | symlink t => cases h
          | dir p es =>
            simp only at h
            cases h
            exact ⟨hod, hroot, (fun h hh => by simp at hh; subst hh; exact hroot)⟩
    split
    · rename_i e _
      exact ⟨ho, (fun i hi => by cases hi), (fun a ha => by cases ha)⟩
    · rename_i o' r heq
      obtain ⟨hd', hr', hrt'⟩ := hopened o' r heq
      have hw := walkParents_inside S fs hc (components path).dropLast 0 o' r [] hd' hr' (by simp)
      split
      · rename_i o'' e log hwp
        rw [hwp] at hw
        refine ⟨?_, (fun i hi => by cases hi), hw.2.2.1⟩
        intro h hh
        simp only [Opener.handles, List.mem_append] at hh
        rcases hh with hh | hh
        · rw [hw.2.2.2] at hh; exact hrt' h hh
        · exact hw.1 h hh
      · rename_i o'' parent log hwp
        rw [hwp] at hw
        have hpar : S parent := hw.2.1 parent rfl
        refine ⟨?_, ?_, ?_⟩
        · intro h hh
          simp only [Opener.handles, List.mem_append] at hh
          rcases hh with hh | hh
          · rw [hw.2.2.2] at hh; exact hrt' h hh
          · exact hw.1 h hh
        · intro i hi
          exact openAt_inside S fs hc parent _ false i hpar hi
        · intro a ha
          simp only [List.mem_append, List.mem_singleton] at ha
          rcases ha with ha | rfl
          · exact hw.2.2.1 a ha
          · exact hpar

/-- A run of one opener over any sequence of requests, with an arbitrary
filesystem state before each request. -/
def runOpener : Opener → List (FS × String) → List (Except Err Ino × List Access)
  | _, [] => []
  | o, (fs, path) :: rest =>
    let r := o.openFile fs path
    (r.2.1, r.2.2) :: runOpener r.1 rest

/-- `handles_inside_root` for the opener: whatever the requested paths and
whatever the filesystem becomes between requests (as long as every state keeps
the region closed under directory entries), every file returned and every
handle a name is applied to lies in the region. -/
theorem opener_trace_inside (S : Ino → Prop) :
    ∀ (steps : List (FS × String)) (o : Opener), (∀ h ∈ o.handles, S h) →
      (∀ s ∈ steps, Closed S s.1 ∧ S s.1.root) →
      ∀ r ∈ runOpener o steps, (∀ i, r.1 = .ok i → S i) ∧ (∀ a ∈ r.2, S a.handle) := by
  intro steps
  induction steps with
  | nil => intro o _ _ r hr; cases hr
  | cons s rest ih =>
    intro o ho hall r hr
    obtain ⟨fs, path⟩ := s
    have hs := hall (fs, path) (by simp)
    have h1 := opener_open_inside S fs hs.1 hs.2 o ho path
    simp only [runOpener, List.mem_cons] at hr
    rcases hr with rfl | hr
    · exact ⟨h1.2.1, h1.2.2⟩
    · exact ih _ h1.1 (fun s hs' => hall s (by simp [hs'])) r hr

/-- The canary: an inode outside the region is never returned and never has a
name applied to it, by any opener run. -/
theorem opener_never_touches_canary (S : Ino → Prop) (canary : Ino) (hcan : ¬ S canary)
    (steps : List (FS × String)) (hall : ∀ s ∈ steps, Closed S s.1 ∧ S s.1.root) :
    ∀ r ∈ runOpener {} steps, r.1 ≠ .ok canary ∧ ∀ a ∈ r.2, a.handle ≠ canary := by
  intro r hr
  have h := opener_trace_inside S steps {} (by simp [Opener.handles]) hall r hr
  exact ⟨fun he => hcan (h.1 canary he), fun a ha he => hcan (he ▸ h.2 a ha)⟩

/-- transition.go `walkToParentAndComputeLeafName`: the parent handle it returns
and every handle it lists or opens from lie in the region. -/
theorem walkComponents_inside (S : Ino → Prop) (fs : FS) (hc : Closed S fs) :
    ∀ (comps : List Name) (parent : Ino) (log : List Access), S parent → (∀ a ∈ log, S a.handle) →
      (∀ p, (walkComponents fs comps parent log).1 = .ok p → S p) ∧
      (∀ a ∈ (walkComponents fs comps parent log).2, S a.handle) := by
  intro comps
  induction comps with
  | nil =>
    intro parent log hp hl
    simp only [walkComponents]
    exact ⟨(fun p h => by cases h; exact hp), hl⟩
  | cons comp rest ih =>
    intro parent log hp hl
    simp only [walkComponents]
    by_cases hn : (!nameExists fs parent comp) = true
    · rw [if_pos hn]; exact ⟨(fun p h => by cases h), hl⟩
    · rw [if_neg hn]
      have hl' : ∀ a ∈ log ++ [{ handle := parent, name := comp }], S a.handle := by
        intro a ha
        simp only [List.mem_append, List.mem_singleton] at ha
        rcases ha with ha | rfl
        · exact hl a ha
        · exact hp
      cases ho : openAt fs parent comp true with
      | error e => simp only; exact ⟨(fun p h => by cases h), hl'⟩
      | ok d => simp only; exact ih d _ (openAt_inside S fs hc parent comp true d hp ho) hl'

theorem walkToParent_inside (S : Ino → Prop) (fs : FS) (hc : Closed S fs) (hroot : S fs.root) (path : String) (v : Bool) :
    (∀ p leaf, (walkToParent fs path v).1 = .ok (p, leaf) → S p) ∧
    (∀ a ∈ (walkToParent fs path v).2, S a.handle) := by
  unfold walkToParent
  simp only [openRoot]
  cases hg : fs.get fs.root with
  | none => exact ⟨(fun p l h => by cases h), (fun a ha => by cases ha)⟩
  | some node =>
    cases node with
    | file c => exact ⟨(fun p l h => by cases h), (fun a ha => by cases ha)⟩
    | symlink t => exact ⟨(fun p l h => by cases h), (fun a ha => by cases ha)⟩
    | dir pr es =>
      simp only
      have hw := walkComponents_inside S fs hc (components path).dropLast fs.root [] hroot (by simp)
      split
      · rename_i e log hwc
        rw [hwc] at hw
        exact ⟨(fun p l h => by cases h), hw.2⟩
      · rename_i parent log hwc
        rw [hwc] at hw
        split
        · exact ⟨(fun p l h => by cases h), hw.2⟩
        · exact ⟨(fun p l h => by cases h; exact hw.1 _ rfl), hw.2⟩

/-- Creating and removing through `Transition`: the single handle the
creating / removing primitive is applied to, and every handle used on the way,
lie in the region; the name given to the primitive is a validated single name
whenever the operation succeeds. -/
theorem transition_ops_inside (S : Ino → Prop) (fs : FS) (hc : Closed S fs) (hroot : S fs.root) (path : String) :
    (∀ a ∈ (createAt fs path).2, S a.handle) ∧ (∀ a ∈ (removeFileAt fs path).2, S a.handle) := by
  constructor
  · unfold createAt
    have hw := walkToParent_inside S fs hc hroot path false
    split
    · rename_i e log h; rw [h] at hw; exact hw.2
    · rename_i parent leaf log h
      rw [h] at hw
      intro a ha
      simp only [List.mem_append, List.mem_singleton] at ha
      rcases ha with ha | rfl
      · exact hw.2 a ha
      · exact hw.1 parent leaf rfl
  · unfold removeFileAt
    have hw := walkToParent_inside S fs hc hroot path true
    split
    · rename_i e log h; rw [h] at hw; exact hw.2
    · rename_i parent leaf log h
      rw [h] at hw
      intro a ha
      simp only [List.mem_append, List.mem_singleton] at ha
      rcases ha with ha | rfl
      · exact hw.2 a ha
      · exact hw.1 parent leaf rfl

/-! ## SetPermissions -/

/-- `Directory.SetPermissions(name, …)` changes the mode of the inode bound to the
validated single name in the directory itself, and that inode is not a symbolic
link: it never follows a link, whatever the filesystem looks like at that moment. -/
theorem set_permissions_inside (S : Ino → Prop) (fs : FS) (hc : Closed S fs) (h : Ino) (name : Name) (c : Ino)
    (hS : S h) (ho : setPermAt fs h name = .ok c) :
    S c ∧ validName name = true ∧ fs.entry h name = some c ∧ ∀ t, fs.get c ≠ some (.symlink t) := by
  unfold setPermAt at ho
  by_cases hv : (!validName name) = true
  · rw [if_pos hv] at ho; cases ho
  · rw [if_neg hv] at ho
    simp at hv
    cases he : fs.entry h name with
    | none => rw [he] at ho; cases ho
    | some c' =>
      rw [he] at ho
      simp only at ho
      cases hg : fs.get c' with
      | none => rw [hg] at ho; cases ho
      | some node =>
        rw [hg] at ho
        cases node with
        | symlink t => cases ho
        | dir p es => cases ho; exact ⟨hc h name _ hS he, hv, rfl, by intro t; rw [hg]; simp⟩
        | file content => cases ho; exact ⟨hc h name _ hS he, hv, rfl, by intro t; rw [hg]; simp⟩

/-- An entry that has been replaced by a symbolic link is refused. -/
theorem set_permissions_refuses_links (fs : FS) (h : Ino) (name : Name) (c : Ino) (t : String)
    (he : fs.entry h name = some c) (hl : fs.get c = some (.symlink t)) : ∀ r, setPermAt fs h name ≠ .ok r := by
  intro r ho
  unfold setPermAt at ho
  by_cases hv : (!validName name) = true
  · rw [if_pos hv] at ho; cases ho
  · rw [if_neg hv, he] at ho
    simp only [hl] at ho
    cases ho

/-- The windows between create / validate and SetPermissions (`createDirectory`:
mkdir then chmod; `swapFile` with an executability-only change: validate then
chmod): whatever the filesystem has become in between (`fs'`, closed under
directory entries like every state), the inode whose mode changes lies in the
region — in particular it is never the target of a link the entry was swapped
for — and every handle used lies in the region. -/
theorem permission_races_inside (S : Ino → Prop) (fs fs' : FS) (hc : Closed S fs) (hc' : Closed S fs') (hroot : S fs.root)
    (path : String) :
    (∀ c, (createDirRace fs fs' path).1 = some (.ok c) → S c) ∧ (∀ a ∈ (createDirRace fs fs' path).2, S a.handle) ∧
    (∀ c, (chmodFileRace fs fs' path).1 = some (.ok c) → S c) ∧ (∀ a ∈ (chmodFileRace fs fs' path).2, S a.handle) := by
  refine ⟨?_, ?_, ?_, ?_⟩
  · intro c h
    unfold createDirRace at h
    cases hcr : createAt fs path with
    | mk ok log =>
      rw [hcr] at h
      cases ok with
      | false => cases h
      | true =>
        simp only at h
        have hw := walkToParent_inside S fs hc hroot path false
        cases hwp : walkToParent fs path false with
        | mk r log' =>
          rw [hwp] at h hw
          cases r with
          | error e => cases h
          | ok pl =>
            obtain ⟨parent, leaf⟩ := pl
            simp only at h
            exact (set_permissions_inside S fs' hc' parent leaf c (hw.1 parent leaf rfl) (Option.some.inj h)).1
  · intro a ha
    unfold createDirRace at ha
    have hlog := (transition_ops_inside S fs hc hroot path).1
    cases hcr : createAt fs path with
    | mk ok log =>
      rw [hcr] at ha hlog
      cases ok with
      | false => exact hlog a ha
      | true =>
        simp only at ha
        cases hwp : walkToParent fs path false with
        | mk r log' =>
          rw [hwp] at ha
          cases r with
          | error e => exact hlog a ha
          | ok pl => exact hlog a ha
  · intro c h
    unfold chmodFileRace at h
    have hw := walkToParent_inside S fs hc hroot path true
    cases hwp : walkToParent fs path true with
    | mk r log' =>
      rw [hwp] at h hw
      cases r with
      | error e => cases h
      | ok pl =>
        obtain ⟨parent, leaf⟩ := pl
        simp only at h
        by_cases hcond : (validName leaf && isFileAt fs parent leaf) = true
        · rw [if_pos hcond] at h
          exact (set_permissions_inside S fs' hc' parent leaf c (hw.1 parent leaf rfl) (Option.some.inj h)).1
        · rw [if_neg hcond] at h
          cases h
  · intro a ha
    unfold chmodFileRace at ha
    have hw := walkToParent_inside S fs hc hroot path true
    cases hwp : walkToParent fs path true with
    | mk r log' =>
      rw [hwp] at ha hw
      cases r with
      | error e => exact hw.2 a ha
      | ok pl =>
        obtain ⟨parent, leaf⟩ := pl
        simp only at ha
        have hin : ∀ a ∈ log' ++ [{ handle := parent, name := leaf }], S a.handle := by
          intro a ha'
          simp only [List.mem_append, List.mem_singleton] at ha'
          rcases ha' with ha' | rfl
          · exact hw.2 a ha'
          · exact hw.1 parent leaf rfl
        by_cases hcond : (validName leaf && isFileAt fs parent leaf) = true
        · rw [if_pos hcond] at ha; exact hin a ha
        · rw [if_neg hcond] at ha; exact hin a ha

/-! ## Any program over the primitives (scan, staging, …) -/

/-- A command names a previously obtained handle by its index. -/
inductive Cmd
  | openDir (handle : Nat) (name : Name)
  | openFile (handle : Nat) (name : Name)
  | setPerm (handle : Nat) (name : Name)

/-- Runs commands, each against its own (adversarially chosen) filesystem
state; the handle table starts with the handles given and grows by the
directories opened. Returns the final table and the inodes operated on (files
opened, entries whose permissions were set). -/
def runCmds : List (FS × Cmd) → List Ino → List Ino → List Ino × List Ino
  | [], hs, files => (hs, files)
  | (fs, .openDir i name) :: rest, hs, files =>
    match hs[i]? with
    | none => runCmds rest hs files
    | some h =>
      match openAt fs h name true with
      | .ok d => runCmds rest (hs ++ [d]) files
      | .error _ => runCmds rest hs files
  | (fs, .openFile i name) :: rest, hs, files =>
    match hs[i]? with
    | none => runCmds rest hs files
    | some h =>
      match openAt fs h name false with
      | .ok f => runCmds rest hs (files ++ [f])
      | .error _ => runCmds rest hs files
  | (fs, .setPerm i name) :: rest, hs, files =>
    match hs[i]? with
    | none => runCmds rest hs files
    | some h =>
      match setPermAt fs h name with
      | .ok c => runCmds rest hs (files ++ [c])
      | .error _ => runCmds rest hs files

/-- `handles_inside_root`, in general: *any* program that obtains handles only
by opening names relative to handles it already holds — scanning, staging,
transmitting, transitioning are such programs — keeps all its handles, all the
files it opens and every entry whose permissions it sets inside the region, under every interleaving with an
adversary that keeps the region closed under directory entries. -/
theorem any_program_inside (S : Ino → Prop) :
    ∀ (prog : List (FS × Cmd)) (hs files : List Ino), (∀ s ∈ prog, Closed S s.1) →
      (∀ h ∈ hs, S h) → (∀ f ∈ files, S f) →
      (∀ h ∈ (runCmds prog hs files).1, S h) ∧ (∀ f ∈ (runCmds prog hs files).2, S f) := by
  intro prog
  induction prog with
  | nil => intro hs files _ h1 h2; exact ⟨h1, h2⟩
  | cons s rest ih =>
    intro hs files hall h1 h2
    obtain ⟨fs, cmd⟩ := s
    have hc : Closed S fs := hall (fs, cmd) (by simp)
    have hrest : ∀ s ∈ rest, Closed S s.1 := fun s hs' => hall s (by simp [hs'])
    cases cmd with
    | openDir i name =>
      simp only [runCmds]
      cases hi : hs[i]? with
      | none => exact ih hs files hrest h1 h2
      | some h =>
        simp only
        cases ho : openAt fs h name true with
        | error e => exact ih hs files hrest h1 h2
        | ok d =>
          simp only
          refine ih (hs ++ [d]) files hrest ?_ h2
          intro x hx
          simp only [List.mem_append, List.mem_singleton] at hx
          rcases hx with hx | rfl
          · exact h1 x hx
          · exact openAt_inside S fs hc h name true x (h1 h (mem_of_getElem? hi)) ho
    | openFile i name =>
      simp only [runCmds]
      cases hi : hs[i]? with
      | none => exact ih hs files hrest h1 h2
      | some h =>
        simp only
        cases ho : openAt fs h name false with
        | error e => exact ih hs files hrest h1 h2
        | ok f =>
          simp only
          refine ih hs (files ++ [f]) hrest h1 ?_
          intro x hx
          simp only [List.mem_append, List.mem_singleton] at hx
          rcases hx with hx | rfl
          · exact h2 x hx
          · exact openAt_inside S fs hc h name false x (h1 h (mem_of_getElem? hi)) ho
    | setPerm i name =>
      simp only [runCmds]
      cases hi : hs[i]? with
      | none => exact ih hs files hrest h1 h2
      | some h =>
        simp only
        cases ho : setPermAt fs h name with
        | error e => exact ih hs files hrest h1 h2
        | ok c =>
          simp only
          refine ih hs (files ++ [c]) hrest h1 ?_
          intro x hx
          simp only [List.mem_append, List.mem_singleton] at hx
          rcases hx with hx | rfl
          · exact h2 x hx
          · exact (set_permissions_inside S fs hc h name x (h1 h (mem_of_getElem? hi)) ho).1

/-! ## Why the name check matters; non-vacuity -/

/-- root(1) = { link → inode 2 (a symbolic link to `..`), f → inode 5 };
its parent (0) holds the canary directory 3 with the secret 4. -/
def exFS : FS :=
  { root := 1
    nodes := [(0, .dir 0 [("root", 1), ("canary", 3)]), (1, .dir 0 [("link", 2), ("f", 5)]), (2, .symlink ".."),
              (3, .dir 0 [("secret", 4)]), (4, .file [1]), (5, .file [2])] }

def exRegion (i : Ino) : Prop := i = 1 ∨ i = 2 ∨ i = 5

/-- The region {root, link, f} is closed under directory entries although the
link points out of it. -/
theorem exRegion_closed : Closed exRegion exFS ∧ exRegion exFS.root ∧ ¬ exRegion 4 := by
  refine ⟨?_, Or.inl rfl, by simp [exRegion]⟩
  intro d n c hd he
  rcases hd with rfl | rfl | rfl
  · simp only [FS.entry, FS.get, exFS, List.find?] at he
    simp at he
    simp only [assoc] at he
    by_cases h1 : "link" = n
    · simp [h1] at he; subst he; exact Or.inr (Or.inl rfl)
    · simp [h1] at he
      by_cases h2 : "f" = n
      · simp [h2] at he; subst he; exact Or.inr (Or.inr rfl)
      · simp [h2] at he
  · simp [FS.entry, FS.get, exFS, List.find?] at he
  · simp [FS.entry, FS.get, exFS, List.find?] at he

/-- Without `ensureValidName` the same call escapes: `..` resolves to the
parent, and `link/canary/secret` follows the link to the canary's secret; with
it, both names are rejected, and the link itself cannot be opened. -/
theorem name_check_is_necessary :
    klookupFuel 8 exFS 1 [".."] = some 0 ∧
    klookupFuel 8 exFS 1 ["link", "canary", "secret"] = some 4 ∧
    openAt exFS 1 ".." true = .error .invalidName ∧
    openAt exFS 1 "link/canary/secret" false = .error .invalidName ∧
    openAt exFS 1 "link" true = .error .isLink ∧
    openAt exFS 1 "f" false = .ok 5 := by
  refine ⟨by decide, by decide, by rfl, by rfl, by rfl, by rfl⟩

/-- A request that crosses the link fails, a request inside succeeds (non-vacuity of the opener theorems). -/
example : ((({} : Opener).openFile exFS "link/canary/secret").2.1 = .error .isLink) ∧
    ((({} : Opener).openFile exFS "f").2.1 = .ok 5) := by
  constructor <;> rfl

/-- The modelling assumption "every open is `openat(…, O_NOFOLLOW)`" is checked
against the source on every run: `Mutagen.SourceFacts.fsDirectoryOpenFlags` is
regenerated from the body of `(*Directory).open` (directory_posix.go; the
operand names of the `|`-expression assigned to `flags`). A rewrite that
checks the type first and opens without `O_NOFOLLOW` (a check/open race) breaks
this obligation; the `race` cases of the C17 stream then search for the escape
with a concurrent directory↔link flipper. -/
theorem open_flags_never_follow : "O_NOFOLLOW" ∈ Mutagen.SourceFacts.fsDirectoryOpenFlags := by
  decide

/-- The same obligation for the open of the root itself (`filesystem.Open`,
open_posix.go): `O_NOFOLLOW` is among the initial flags (it is cleared only
when the caller explicitly allows a symbolic link at the root leaf, which
`OpenDirectory(root, false)` — the call used by scans, transitions and the
opener — does not). -/
theorem root_open_flags_never_follow : "O_NOFOLLOW" ∈ Mutagen.SourceFacts.fsRootOpenFlags := by
  decide

end Mutagen.Properties.C17
