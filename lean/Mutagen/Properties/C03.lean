import Mutagen.Proofs.Reconcile
import Mutagen.Proofs.Reach
/-!
# C03 — ignored, unsupported and problematic content is never removed or replaced

Theorems about the executable model `Mutagen.Model.Reconcile` of
`reconcile.go` (tied to `core.Reconcile` by the C03 correspondence stream:
triples with untracked / problematic / phantom content, all four modes).
Helper lemmas live in `Mutagen.Proofs.Reconcile`.

`oallSync t` — the tree `t` contains no untracked, problematic, phantom or
unknown-kind entry at any depth; `Valid t` — `t` passes `EnsureValid(false)`
and its content maps have distinct keys (what `Snapshot.EnsureValid` enforces).
-/
namespace Mutagen.Properties.C03
open Mutagen.Model

/-- **Clean targets**, every mode: whatever a planned change on endpoint
`S ∈ {alpha, beta}` would remove or replace — the whole sub-tree of `S` at the
change's path — contains no untracked, problematic or phantom entry at any
depth. -/
theorem change_targets_clean (mode : Mode) (A alpha beta : Option Entry)
    (hα : Valid alpha) (hβ : Valid beta) :
    (∀ c ∈ (Reconcile A alpha beta mode).alpha, oallSync (getPath alpha c.path) = true) ∧
    (∀ c ∈ (Reconcile A alpha beta mode).beta, oallSync (getPath beta c.path) = true) :=
  ⟨clean_targets hα (reconcile_clean mode [] A alpha beta).1,
   clean_targets hβ (reconcile_clean mode [] A alpha beta).2⟩

/-- The same without any validity hypothesis, in the form the reconciler
checks it: the endpoint's content at the change's path equals its own
synchronizable part. -/
theorem change_targets_equal_sync_part (mode : Mode) (A alpha beta : Option Entry) :
    (∀ c ∈ (Reconcile A alpha beta mode).alpha,
      SameTree (osync (getPath alpha c.path)) (getPath alpha c.path)) ∧
    (∀ c ∈ (Reconcile A alpha beta mode).beta,
      SameTree (osync (getPath beta c.path)) (getPath beta c.path)) := by
  have h := reconcile_clean mode [] A alpha beta
  constructor
  · intro c hc
    obtain ⟨rel, hp, hs⟩ := h.1 c hc
    simp only [List.nil_append] at hp; rw [hp]; exact hs
  · intro c hc
    obtain ⟨rel, hp, hs⟩ := h.2 c hc
    simp only [List.nil_append] at hp; rw [hp]; exact hs

/-- **Problematic paths are skipped entirely**: where either endpoint is
problematic, nothing at all is planned at or below that path — no change, no
ancestor change, no conflict. -/
theorem problematic_skipped (mode : Mode) (path : Path) (a alpha beta : Option Entry)
    (h : isKind alpha .problematic = true ∨ isKind beta .problematic = true) :
    reconcile mode path a alpha beta = {} := by
  rw [reconcile_eq]
  rcases h with h | h
  · simp [h]
  · cases isKind alpha .problematic <;> simp [h]

/-- **Unsynchronizable residue blocks a change** (bidirectional handler): if
the side that would be overwritten holds unsynchronizable content (its diff
against its own synchronizable part is non-empty), no change is planned for
that side at this path. -/
theorem unsync_blocks_change (mode : Mode) (path : Path) (a alpha beta : Option Entry) :
    (diff path (osync alpha) alpha ≠ [] → (handleDisagreement mode path a alpha beta).alpha = []) ∧
    (diff path (osync beta) beta ≠ [] → (handleDisagreement mode path a alpha beta).beta = []) := by
  have hc := handleDisagreement_clean mode path a alpha beta
  constructor
  · intro hne
    cases hl : (handleDisagreement mode path a alpha beta).alpha with
    | nil => rfl
    | cons c cs =>
      exfalso
      have := (hc.1 c (by rw [hl]; simp)).2
      -- a tree equal to its synchronizable part has an empty diff against it
      exact hne (diff_nil_of_sameTree path _ _ this)
  · intro hne
    cases hl : (handleDisagreement mode path a alpha beta).beta with
    | nil => rfl
    | cons c cs =>
      exfalso
      have := (hc.2 c (by rw [hl]; simp)).2
      exact hne (diff_nil_of_sameTree path _ _ this)

/-- **A conflict is reported instead**: at a disagreement, if endpoint `S`
holds unsynchronizable residue, `S` is not touched and the disagreement is
answered by exactly one of — a conflict rooted at that path, a change of the
*other* endpoint at that path, or (one-way-safe only) no action at all (the
content stays where it is, untracked). -/
theorem unsync_blocks_with_conflict_at_disagreement (mode : Mode) (path : Path)
    (a alpha beta : Option Entry) :
    (diff path (osync beta) beta ≠ [] →
      (handleDisagreement mode path a alpha beta).beta = [] ∧
      ((handleDisagreement mode path a alpha beta).conflicts.map (·.root) = [path] ∨
       (handleDisagreement mode path a alpha beta).alpha.map (·.path) = [path] ∨
       (mode = .oneWaySafe ∧ (handleDisagreement mode path a alpha beta).actionPaths = []))) ∧
    (diff path (osync alpha) alpha ≠ [] →
      (handleDisagreement mode path a alpha beta).alpha = [] ∧
      ((handleDisagreement mode path a alpha beta).conflicts.map (·.root) = [path] ∨
       (handleDisagreement mode path a alpha beta).beta.map (·.path) = [path] ∨
       (mode = .oneWaySafe ∧ (handleDisagreement mode path a alpha beta).actionPaths = []))) :=
  residue_blocks mode path a alpha beta

/-! Non-vacuity: a valid tree with untracked and problematic content, and a
plan with a change (see `C01`): the hypotheses are satisfiable and the
quantification is not empty. -/
example : Valid (some exampleTree1) ∧ oallSync (some exampleTree1) = false := by
  unfold Valid; decide

/-- **A conflict is reported instead, for the whole plan** (every mode):
wherever the recursion reaches a disagreement (`Reaches`) at which endpoint `S`
holds unsynchronizable residue, no change of the plan for `S` lies at, above or
below that path, and the plan contains a conflict rooted there, or a change of
the *other* endpoint exactly there, or (one-way-safe only) no change of the
other endpoint near that path either — the content simply stays. -/
theorem unsync_blocks_with_conflict (mode : Mode) (A alpha beta : Option Entry) (rel : Path)
    (hr : Reaches alpha beta rel) :
    (diff rel (osync (getPath beta rel)) (getPath beta rel) ≠ [] →
      (∀ c ∈ (Reconcile A alpha beta mode).beta, incomparable c.path rel) ∧
      ((∃ c ∈ (Reconcile A alpha beta mode).conflicts, c.root = rel) ∨
       (∃ c ∈ (Reconcile A alpha beta mode).alpha, c.path = rel) ∨
       (mode = .oneWaySafe ∧ ∀ c ∈ (Reconcile A alpha beta mode).alpha, incomparable c.path rel))) ∧
    (diff rel (osync (getPath alpha rel)) (getPath alpha rel) ≠ [] →
      (∀ c ∈ (Reconcile A alpha beta mode).alpha, incomparable c.path rel) ∧
      ((∃ c ∈ (Reconcile A alpha beta mode).conflicts, c.root = rel) ∨
       (∃ c ∈ (Reconcile A alpha beta mode).beta, c.path = rel) ∨
       (mode = .oneWaySafe ∧ ∀ c ∈ (Reconcile A alpha beta mode).beta, incomparable c.path rel))) := by
  have hsub := reconcile_sub mode rel [] A alpha beta hr
  have hex := reconcile_sub_exact mode rel [] A alpha beta hr
  have hres := residue_blocks mode ([] ++ rel) (effAnc A alpha rel) (getPath alpha rel) (getPath beta rel)
  simp only [List.nil_append] at hsub hex hres
  have none_near : ∀ {l : List Change} {l' : List Change}, l' = [] →
      (∀ c ∈ l, ¬ incomparable c.path rel → c ∈ l') → ∀ c ∈ l, incomparable c.path rel := by
    intro l l' hl h c hc
    apply Classical.byContradiction
    intro hn
    have := h c hc hn
    rw [hl] at this
    cases this
  constructor
  · intro hne
    obtain ⟨hb, hcase⟩ := hres.1 hne
    refine ⟨none_near hb hex.2, ?_⟩
    rcases hcase with h | h | ⟨hm, h⟩
    · left
      cases hc : (handleDisagreement mode rel (effAnc A alpha rel) (getPath alpha rel) (getPath beta rel)).conflicts with
      | nil => rw [hc] at h; cases h
      | cons c cs =>
        rw [hc] at h
        simp only [List.map_cons, List.cons.injEq] at h
        exact ⟨c, hsub.2.2 c (by rw [hc]; simp), h.1⟩
    · right; left
      cases hc : (handleDisagreement mode rel (effAnc A alpha rel) (getPath alpha rel) (getPath beta rel)).alpha with
      | nil => rw [hc] at h; cases h
      | cons c cs =>
        rw [hc] at h
        simp only [List.map_cons, List.cons.injEq] at h
        exact ⟨c, hsub.1 c (by rw [hc]; simp), h.1⟩
    · right; right
      refine ⟨hm, none_near ?_ hex.1⟩
      simp only [Plan.actionPaths, List.append_eq_nil_iff, List.map_eq_nil_iff] at h
      exact h.1.1
  · intro hne
    obtain ⟨ha, hcase⟩ := hres.2 hne
    refine ⟨none_near ha hex.1, ?_⟩
    rcases hcase with h | h | ⟨hm, h⟩
    · left
      cases hc : (handleDisagreement mode rel (effAnc A alpha rel) (getPath alpha rel) (getPath beta rel)).conflicts with
      | nil => rw [hc] at h; cases h
      | cons c cs =>
        rw [hc] at h
        simp only [List.map_cons, List.cons.injEq] at h
        exact ⟨c, hsub.2.2 c (by rw [hc]; simp), h.1⟩
    · right; left
      cases hc : (handleDisagreement mode rel (effAnc A alpha rel) (getPath alpha rel) (getPath beta rel)).beta with
      | nil => rw [hc] at h; cases h
      | cons c cs =>
        rw [hc] at h
        simp only [List.map_cons, List.cons.injEq] at h
        exact ⟨c, hsub.2.1 c (by rw [hc]; simp), h.1⟩
    · right; right
      refine ⟨hm, none_near ?_ hex.2⟩
      simp only [Plan.actionPaths, List.append_eq_nil_iff, List.map_eq_nil_iff] at h
      exact h.1.2

-- TODO theorem remove_preserves_unknown: the on-disk half (transition.go) belongs to C08/C09 (model M6).

end Mutagen.Properties.C03
