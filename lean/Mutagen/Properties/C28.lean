import Mutagen.Model.DaemonLock
import Mutagen.Proofs.DaemonLock
/-!
# C28 — at most one daemon holds the daemon lock

Theorems over the model of `daemon.AcquireLock` / `(*daemon.Lock).Release` and
`locking.Locker` on top of the *assumed* kernel rule for `fcntl` write locks
(`Mutagen.Model.DaemonLock`). `Reachable s` quantifies over any number of
processes, every interleaving of their operations at system-call granularity
and every placement of kills and exits. The theorems are about the code's
bookkeeping (`Locker.held`, open/closed descriptor, the composite operations)
relative to the kernel's lock table; the kernel rule itself is the assumption.

"Holds": a live process whose Locker says `held` on a descriptor that is
still open — the state in which `daemon.Lock` exists and the daemon runs.
-/
namespace Mutagen.Properties.C28
open Mutagen.Model.DaemonLock Mutagen.Proofs.DaemonLock

/-- **`held` ⇒ kernel lock owned.** A live process whose Locker says `held` on an
open descriptor owns the kernel lock. -/
theorem held_flag_sound (s : State) (hs : Reachable s) (p : Nat) (h : Holds s p) :
    s.owner = some p :=
  (inv_reachable s hs).held_owner p h

/-- **At most one holder.** -/
theorem at_most_one_holder (s : State) (hs : Reachable s) (p q : Nat) (hp : Holds s p) (hq : Holds s q) :
    p = q := by
  have h1 := held_flag_sound s hs p hp
  have h2 := held_flag_sound s hs q hq
  rw [h1] at h2
  exact Option.some.inj h2

/-- No orphan lock: the kernel's owner is always a live process that holds
(open descriptor, `held` set). In particular a dead process never owns the lock. -/
theorem owner_is_live_holder (s : State) (hs : Reachable s) (p : Nat) (h : s.owner = some p) :
    Holds s p :=
  ((inv_reachable s hs).owner_holds p h).1

/-- The lock is free exactly when nobody holds it. -/
theorem free_iff_no_holder (s : State) (hs : Reachable s) : s.owner = none ↔ ∀ p, ¬ Holds s p := by
  constructor
  · intro h p hp
    have := held_flag_sound s hs p hp
    rw [h] at this; cases this
  · intro h
    cases ho : s.owner with
    | none => rfl
    | some p => exact absurd (owner_is_live_holder s hs p ho) (h p)

/-- **Released on death** (exit or SIGKILL): after the death of `p` the lock is
not owned by `p`; if `p` owned it, it is free. Nobody else's ownership changes. -/
theorem released_on_death (s s' : State) (p : Nat) (hd : step s (.die p) = some s') :
    s'.owner ≠ some p ∧ (s.owner = some p → s'.owner = none) ∧
    (∀ q, q ≠ p → (s'.owner = some q ↔ s.owner = some q)) := by
  simp only [step] at hd
  split at hd
  · cases hd
    refine ⟨drop_ne _ _, ?_, fun q hq => drop_eq _ _ _ hq⟩
    intro h; simp [State.set, drop, h]
  · cases hd

/-- **Released on release**: the step of `Release` that unlocks (the holder's
`Unlock`) frees the lock, and the Locker no longer says `held`. -/
theorem released_on_release (s s' : State) (hs : Reachable s) (p : Nat)
    (hpc : (s.procs p).pc = .rel1) (hh : Holds s p) (hstep : step s (.sys p) = some s') :
    s'.owner = none ∧ (s'.procs p).held = false ∧ (s'.procs p).pc = .rel2 .ok := by
  have ho := held_flag_sound s hs p hh
  obtain ⟨ha, hheld, hfd⟩ := hh
  simp only [step, sysStep, ha, hpc] at hstep
  simp [lockerUnlock, hheld, hfd, ho, drop] at hstep
  subst hstep
  simp [State.set]

/-- The same for a bare `Locker.Unlock` and for `Locker.Close` (closing the
descriptor releases the lock even though `held` stays set — which is why the
invariant speaks about *open* descriptors). -/
theorem released_on_unlock_or_close (s s' : State) (hs : Reachable s) (p : Nat)
    (hpc : (s.procs p).pc = .one .unlock ∨ (s.procs p).pc = .one .close) (hh : Holds s p)
    (hstep : step s (.sys p) = some s') :
    s'.owner = none ∧ ¬ Holds s' p := by
  have ho := held_flag_sound s hs p hh
  obtain ⟨ha, hheld, hfd⟩ := hh
  rcases hpc with hpc | hpc
  · simp only [step, sysStep, ha, hpc] at hstep
    simp [lockerUnlock, hheld, hfd, ho, drop] at hstep
    subst hstep
    simp [State.set, Holds]
  · simp only [step, sysStep, ha, hpc] at hstep
    simp [lockerClose, hfd, ho, drop] at hstep
    subst hstep
    simp [State.set, Holds]

/-- **Available again**: `AcquireLock`'s `Lock(false)` succeeds exactly when the
lock is free (or already this process' own); in particular it succeeds in every
state reached right after a release or the holder's death. On success the
process holds; on failure the owner is another live holder. -/
theorem acquire_succeeds_iff_free (s s' : State) (hs : Reachable s) (q : Nat)
    (ha : (s.procs q).alive = true) (hpc : (s.procs q).pc = .acq2)
    (hstep : step s (.sys q) = some s') :
    ((s'.procs q).pc = .done .ok ↔ (s.owner = none ∨ s.owner = some q)) ∧
    ((s'.procs q).pc = .done .ok → Holds s' q ∧ s'.owner = some q) ∧
    ((s'.procs q).pc ≠ .done .ok → (s'.procs q).pc = .acq3 .busy ∧ s'.owner = s.owner ∧
        ∃ p, p ≠ q ∧ s.owner = some p ∧ Holds s p) := by
  have hi := inv_reachable s hs
  obtain ⟨hfd, hheld⟩ := hi.pc_acq2 q ha hpc
  simp only [step, sysStep, ha, hpc] at hstep
  by_cases hfree : s.owner = none ∨ s.owner = some q
  · simp [lockerLock, hheld, hfd, hfree] at hstep
    subst hstep
    simp [State.set, Holds, hfree, ha]
  · simp [lockerLock, hheld, hfd, hfree] at hstep
    subst hstep
    simp only [State.set, if_true]
    refine ⟨by simp [hfree], by simp, fun _ => ⟨by simp, by simp, ?_⟩⟩
    cases ho : s.owner with
    | none => exact absurd (Or.inl ho) hfree
    | some p =>
      refine ⟨p, ?_, rfl, owner_is_live_holder s hs p ho⟩
      intro e; subst e; exact hfree (Or.inr ho)

/-- A failed `AcquireLock` leaves nothing behind: its descriptor is closed and
the lock table is untouched. -/
theorem failed_acquire_leaves_no_trace (s s' : State) (q : Nat) (r : Res)
    (ha : (s.procs q).alive = true) (hpc : (s.procs q).pc = .acq3 r) (hne : s.owner ≠ some q)
    (hstep : step s (.sys q) = some s') :
    s'.owner = s.owner ∧ (s'.procs q).fd = false ∧ (s'.procs q).locker = false := by
  simp only [step, sysStep, ha, hpc] at hstep
  by_cases hfd : (s.procs q).fd = true
  · simp [lockerClose, hfd, drop, hne] at hstep
    subst hstep; simp [State.set]
  · simp [lockerClose, hfd] at hstep
    subst hstep; simp [State.set]

/-! ### Non-vacuity -/

/-- Two processes race: the second is refused while the first holds, and
succeeds after the first is killed. -/
example :
    ((run init [.call 1 .acquire, .call 2 .acquire, .sys 1, .sys 2, .sys 1, .sys 2, .sys 2, .ret 2,
        .signal 1, .die 1, .call 2 .acquire, .sys 2, .sys 2]).map
      fun s => (s.owner, (s.procs 2).pc, (s.procs 1).alive)) = some (some 2, .done .ok, false) := by
  decide

example :
    ((run init [.call 1 .acquire, .call 2 .acquire, .sys 1, .sys 2, .sys 1, .sys 2]).map
      fun s => (s.owner, (s.procs 2).pc)) = some (some 1, .acq3 .busy) := by
  decide

/-- Release frees the lock. -/
example :
    ((run init [.call 1 .acquire, .sys 1, .sys 1, .ret 1, .call 1 .release, .sys 1, .sys 1]).map
      fun s => (s.owner, (s.procs 1).pc, (s.procs 1).locker)) = some (none, .done .ok, false) := by
  decide

/-- Closing a held Locker releases the kernel lock while `held` stays set: the
reason the soundness theorem is stated for open descriptors. -/
example :
    ((run init [.call 1 .new, .sys 1, .ret 1, .call 1 .lock, .sys 1, .ret 1, .call 1 .close, .sys 1]).map
      fun s => (s.owner, (s.procs 1).held, (s.procs 1).fd)) = some (none, true, false) := by
  decide

end Mutagen.Properties.C28
