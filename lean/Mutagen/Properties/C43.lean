import Mutagen.Proofs.Housekeeping
/-!
# C43 — housekeeping removes only stale artifacts

Property theorems only (helper lemmas live in `Mutagen.Proofs.Housekeeping`).

`Stale now sub c`: the timestamp the code consults for a child `c` of `sub`
(access time of `<c>/mutagen-agent` for agents, modification time of `<c>` for
caches and staging roots — both as `os.Stat` reports them, i.e. through links)
exists and is older than the threshold extracted from `housekeep.go`,
strictly. `now` is a parameter: the theorems hold for every clock value.
-/
namespace Mutagen.Properties.C43
open Mutagen.Model.Housekeeping

/-- The extracted thresholds are the ones the statement names: 30 days for
agents, 7 days for caches and staging roots (in nanoseconds). A changed
constant in `housekeep.go` breaks this theorem. -/
theorem thresholds :
    maximumAgentIdlePeriod = 30 * 24 * 3600 * 1000000000 ∧
    maximumCacheAge = 7 * 24 * 3600 * 1000000000 ∧
    maximumStagingRootAge = 7 * 24 * 3600 * 1000000000 := by
  decide

/-- `removed ⇔ age > threshold`: the removals `Housekeep` issues are exactly
one per listed child whose relevant age strictly exceeds the threshold —
`RemoveAll` for agents and staging roots, `Remove` for caches; agents are
skipped altogether in a sidecar container; a sub-directory that cannot be
listed yields nothing. For every listing, every `now`. -/
theorem removed_iff_stale (sidecar : Bool) (now : Int) (d : DataDir) (r : Removal) :
    r ∈ housekeep sidecar now d ↔
      ∃ cs, d.listing r.sub = some cs ∧ (r.sub = .agents → sidecar = false) ∧
        ∃ c ∈ cs, Stale now r.sub c ∧ r.name = c.name ∧ r.recursive = recursiveFor r.sub :=
  mem_housekeep

/-- Removals only ever name direct children of `agents/`, `caches/` or
`staging/` as listed: the path removed is `<data>/<sub>/<listed name>` — never
the target of a link, never anything outside the data directory. -/
theorem removals_name_direct_children (sidecar : Bool) (now : Int) (d : DataDir) (r : Removal)
    (h : r ∈ housekeep sidecar now d) :
    ∃ cs, d.listing r.sub = some cs ∧ ∃ c ∈ cs, c.name = r.name := by
  obtain ⟨cs, hl, _, c, hc, _, hn, _⟩ := mem_housekeep.mp h
  exact ⟨cs, hl, c, hc, hn.symm⟩

/-- Strictness: a child whose relevant timestamp is missing (stat error:
dangling link, no agent binary) or not older than the threshold survives
(names in a directory are unique). -/
theorem recent_survives (sidecar : Bool) (now : Int) (d : DataDir) (sub : Sub) (cs : List Child) (c : Child)
    (hl : d.listing sub = some cs) (hc : c ∈ cs)
    (huniq : ∀ c' ∈ cs, c'.name = c.name → c' = c)
    (hfresh : ¬ Stale now sub c) :
    c ∈ survivors (housekeep sidecar now d) sub cs := by
  rw [mem_survivors]
  refine ⟨hc, ?_⟩
  rintro r hr ⟨hsub, hname, _⟩
  obtain ⟨cs', hl', _, c', hc', hst, hn, _⟩ := mem_housekeep.mp hr
  rw [hsub, hl] at hl'
  cases hl'
  have : c' = c := huniq c' hc' (by rw [← hn, hname])
  subst this
  rw [hsub] at hst
  exact hfresh hst

/-- In particular: an agent used within the last 30 days (`now - atime ≤
threshold`) is never removed, whatever its other timestamps are. -/
theorem recently_used_agent_survives (sidecar : Bool) (now : Int) (d : DataDir) (cs : List Child) (c : Child)
    (st : Stat) (hl : d.agents = some cs) (hc : c ∈ cs)
    (huniq : ∀ c' ∈ cs, c'.name = c.name → c' = c)
    (hst : c.agentStat = some st) (hrecent : now - st.atime ≤ maximumAgentIdlePeriod) :
    c ∈ survivors (housekeep sidecar now d) .agents cs := by
  apply recent_survives sidecar now d .agents cs c hl hc huniq
  rintro ⟨st', h1, h2⟩
  rw [hst] at h1
  cases h1
  omega

/-- A cache or staging root modified within the last 7 days is never removed. -/
theorem recently_modified_survives (sidecar : Bool) (now : Int) (d : DataDir) (sub : Sub) (cs : List Child)
    (c : Child) (st : Stat) (hsub : sub = .caches ∨ sub = .staging)
    (hl : d.listing sub = some cs) (hc : c ∈ cs)
    (huniq : ∀ c' ∈ cs, c'.name = c.name → c' = c)
    (hst : c.stat = some st) (hrecent : now - st.mtime ≤ maximumCacheAge) :
    c ∈ survivors (housekeep sidecar now d) sub cs := by
  apply recent_survives sidecar now d sub cs c hl hc huniq
  rcases hsub with rfl | rfl
  · rintro ⟨st', h1, h2⟩
    rw [hst] at h1; cases h1; omega
  · rintro ⟨st', h1, h2⟩
    rw [hst] at h1; cases h1
    have : maximumStagingRootAge = maximumCacheAge := by decide
    omega

/-- Completeness: a stale child is gone afterwards — unconditionally for agents
(outside a sidecar) and staging roots, and for caches whenever `os.Remove` can
remove it (a link, a file or an empty directory). -/
theorem stale_removed (sidecar : Bool) (now : Int) (d : DataDir) (sub : Sub) (cs : List Child) (c : Child)
    (hl : d.listing sub = some cs) (hst : Stale now sub c) (hc : c ∈ cs)
    (hside : sub = .agents → sidecar = false)
    (hrem : sub = .caches → c.removable = true) :
    c ∉ survivors (housekeep sidecar now d) sub cs := by
  rw [mem_survivors]
  rintro ⟨_, hall⟩
  have hr : (⟨sub, c.name, recursiveFor sub⟩ : Removal) ∈ housekeep sidecar now d :=
    mem_housekeep.mpr ⟨cs, hl, hside, c, hc, hst, rfl, rfl⟩
  apply hall _ hr
  refine ⟨rfl, rfl, ?_⟩
  cases sub with
  | agents => simp [Removal.effective, recursiveFor]
  | caches => simp [Removal.effective, recursiveFor, hrem rfl]
  | staging => simp [Removal.effective, recursiveFor]

/-- Nothing is ever added, and sub-directories other than the one a removal
names are unaffected: survivors are a sub-list of the listing. -/
theorem survivors_sublist (rs : List Removal) (sub : Sub) (cs : List Child) :
    (survivors rs sub cs).Sublist cs := by
  unfold survivors
  exact List.filter_sublist

/-! Non-vacuity: a populated data directory around the thresholds. -/

example :
    let day : Int := 24 * 3600 * 1000000000
    let now : Int := 1000 * day
    let old : Child := ⟨"v0.17", false, some ⟨now, now⟩, some ⟨now - 30 * day - 1, now⟩, false⟩
    let edge : Child := ⟨"v0.18", true, some ⟨now - 400 * day, now - 400 * day⟩, some ⟨now - 30 * day, now - 400 * day⟩, true⟩
    let d : DataDir := ⟨some [old, edge], some [], none⟩
    housekeep false now d = [⟨.agents, "v0.17", true⟩] ∧
    survivors (housekeep false now d) .agents [old, edge] = [edge] ∧
    housekeep true now d = [] := by
  decide

end Mutagen.Properties.C43
