import Mutagen.Proofs.Reconcile
/-!
# C04 — a fully applied cycle is a fixpoint and two-way endpoints converge

Theorems about the executable model `Mutagen.Model.Reconcile` /
`Mutagen.Model.Entry` (tied to `core.Reconcile` + `core.Apply` by the C04
correspondence stream `cycle2`: plan, apply exactly, reconcile again, all four
modes). Helper lemmas live in `Mutagen.Proofs.Reconcile`.

The full fixpoint theorem (below, TODO) is the largest case analysis of the
project; what is proved here is its base case — the converged state is stable
— and the ingredient that makes "apply the plan exactly" well defined:
applying changes at pairwise incomparable paths records every one of them.
-/
namespace Mutagen.Properties.C04
open Mutagen.Model

/-- **The converged state is a fixpoint** (every mode): when both endpoints
hold exactly the last-synchronized, fully synchronizable tree, reconciliation
plans nothing — no endpoint change, no ancestor change, no conflict. This is
the state `twoWay_converges` (TODO below) says a fully applied conflict-free
two-way cycle reaches. -/
theorem converged_state_is_fixpoint_partial (mode : Mode) (t : Option Entry) (h : oallSync t = true) :
    Reconcile t t t mode = {} :=
  reconcile_synced mode [] t t t rfl rfl h

/-- **Applying a plan exactly is well defined**: the changes planned for one
endpoint have pairwise incomparable paths, so whenever `Apply` of the
endpoint's change list succeeds, the resulting tree holds, at every change's
path, exactly the planned new content — independent of the order in which
`Reconcile` (Go map iteration) emitted the changes. -/
theorem plan_application_faithful (mode : Mode) (A alpha beta : Option Entry) :
    (∀ α', apply alpha (Reconcile A alpha beta mode).alpha = .ok α' →
      ∀ c ∈ (Reconcile A alpha beta mode).alpha, SameTree (getPath α' c.path) c.new) ∧
    (∀ β', apply beta (Reconcile A alpha beta mode).beta = .ok β' →
      ∀ c ∈ (Reconcile A alpha beta mode).beta, SameTree (getPath β' c.path) c.new) := by
  have hinc := (reconcile_actions mode [] A alpha beta).2
  simp only [Plan.actionPaths, List.pairwise_append] at hinc
  constructor
  · intro α' h
    exact apply_faithful_last _ alpha α' h (List.pairwise_map.mp hinc.1.1)
  · intro β' h
    exact apply_faithful_last _ beta β' h (List.pairwise_map.mp hinc.1.2.1)

/-! Non-vacuity: a fully synchronizable tree exists. -/
example : oallSync (some exampleTree2) = true := by decide

-- TODO theorem reconcile_fixpoint (full strength, DESIGN §8 C04): with
--   `(ac, αc, βc, cf) = Reconcile A α β m`, `A' = apply A (ac ++ results αc ++ results βc)`,
--   `α' = apply α αc`, `β' = apply β βc` (ideal results = `New`):
--   `Reconcile A' α' β' m = ([], [], [], cf')` with `cf'` rooted at the same paths as `cf`.
--   Needs (i) success of the three `apply`s (parents of ancestor changes exist in parent-before-child
--   order), (ii) a path-wise description of `A'`, `α'`, `β'` (available from `applyChange_ok_spec` /
--   `plan_application_faithful`), and (iii) the composition of every handler branch with itself.
--   Checked on the implementation by the C04 oracle `not-a-fixpoint` (≈7·10⁴ cases per quick run, 0 failures).
-- TODO theorem twoWay_converges (DESIGN §8 C04): in both two-way modes, for every path not at/below a
--   conflict root and not untracked/problematic on a side, `pget α' q = pget β' q = pget A' q`.
--   Checked on the implementation by the C04 oracle `not-converged`.

end Mutagen.Properties.C04
