import Mutagen.Proofs.Reconcile
import Mutagen.Proofs.Fixpoint6
import Mutagen.Proofs.EndpointValid
/-!
# C04 — a fully applied cycle is a fixpoint and two-way endpoints converge

Theorems about the executable model `Mutagen.Model.Reconcile` /
`Mutagen.Model.Entry` (tied to `core.Reconcile` + `core.Apply` by the C04
correspondence stream `cycle2`: plan, apply exactly, reconcile again, all four
modes). Helper lemmas live in `Mutagen.Proofs.Reconcile` and
`Mutagen.Proofs.Fixpoint1` … `Fixpoint6`.

"Applying a cycle exactly" (ideal transition results) is, as in
`controller.go:synchronize`:
  `A' = Apply(A, ancestorChanges ++ results(αChanges) ++ results(βChanges))`
with `results(c) = {Path: c.Path, New: c.New}` (`idealResult`),
  `α' = Apply(α, αChanges)`,  `β' = Apply(β, βChanges)`.

Hypotheses: valid endpoint snapshots (`Valid`, what `Snapshot.EnsureValid`
enforces) without phantom directories (reified before reconciliation). No
hypothesis on the ancestor is needed.
-/
namespace Mutagen.Properties.C04
open Mutagen.Model

/-- **A fully applied cycle is a fixpoint** (every mode): the three `Apply`s of
a fully applied cycle succeed, and the next reconciliation over the resulting
trees plans no ancestor change, no alpha change and no beta change, and reports
conflicts rooted at exactly the same paths as the first one. -/
theorem reconcile_fixpoint (mode : Mode) (A alpha beta : Option Entry)
    (hal : Valid alpha) (hbe : Valid beta) (hpα : onoPhantom alpha = true) (hpβ : onoPhantom beta = true) :
    ∃ A' α' β',
      apply A ((Reconcile A alpha beta mode).anc ++
        ((Reconcile A alpha beta mode).alpha.map idealResult ++
          (Reconcile A alpha beta mode).beta.map idealResult)) = .ok A' ∧
      apply alpha (Reconcile A alpha beta mode).alpha = .ok α' ∧
      apply beta (Reconcile A alpha beta mode).beta = .ok β' ∧
      (Reconcile A' α' β' mode).anc = [] ∧
      (Reconcile A' α' β' mode).alpha = [] ∧
      (Reconcile A' α' β' mode).beta = [] ∧
      ∀ p, p ∈ (Reconcile A' α' β' mode).conflicts.map (·.root) ↔
           p ∈ (Reconcile A alpha beta mode).conflicts.map (·.root) := by
  obtain ⟨A', hA⟩ := ancestor_update_succeeds mode A alpha beta
    ((Reconcile A alpha beta mode).alpha.map idealResult) ((Reconcile A alpha beta mode).beta.map idealResult)
    (by simp [idealResult, Function.comp_def]) (by simp [idealResult, Function.comp_def])
  obtain ⟨⟨α', hα⟩, ⟨β', hβ⟩⟩ := plan_application_succeeds mode A alpha beta
  obtain ⟨h1, h2, h3, h4⟩ := reconcile_fixpoint_root mode A alpha beta hal hbe hpα hpβ A' α' β' hA hα hβ
  exact ⟨A', α', β', hA, hα, hβ, h1, h2, h3, h4⟩

/-- The same for *whatever* trees the three `Apply`s return (they are functions,
so these are the trees of `reconcile_fixpoint`). -/
theorem reconcile_fixpoint_of_applied (mode : Mode) (A alpha beta : Option Entry)
    (hal : Valid alpha) (hbe : Valid beta) (hpα : onoPhantom alpha = true) (hpβ : onoPhantom beta = true)
    (A' α' β' : Option Entry)
    (hA : apply A ((Reconcile A alpha beta mode).anc ++
        ((Reconcile A alpha beta mode).alpha.map idealResult ++
          (Reconcile A alpha beta mode).beta.map idealResult)) = .ok A')
    (hα : apply alpha (Reconcile A alpha beta mode).alpha = .ok α')
    (hβ : apply beta (Reconcile A alpha beta mode).beta = .ok β') :
    (Reconcile A' α' β' mode).anc = [] ∧ (Reconcile A' α' β' mode).alpha = [] ∧
    (Reconcile A' α' β' mode).beta = [] ∧
    ((Reconcile A' α' β' mode).conflicts.map (·.root)).Perm
      ((Reconcile A alpha beta mode).conflicts.map (·.root)) := by
  obtain ⟨h1, h2, h3, h4⟩ := reconcile_fixpoint_root mode A alpha beta hal hbe hpα hpβ A' α' β' hA hα hβ
  refine ⟨h1, h2, h3, ?_⟩
  have nd : ∀ (X Y Z : Option Entry), ((Reconcile X Y Z mode).conflicts.map (·.root)).Nodup := by
    intro X Y Z
    have := (reconcile_actions mode [] X Y Z).2
    simp only [Plan.actionPaths, List.pairwise_append] at this
    exact this.2.1.imp (fun {a b} (h : incomparable a b) (heq : a = b) => h.1 (heq ▸ List.prefix_refl a))
  exact (List.perm_ext_iff_of_nodup (nd A' α' β') (nd A alpha beta)).mpr h4

/-- **Two-way endpoints converge**: in both two-way modes, after a fully applied
cycle, at every path that is not at or below a conflict root and not at or
below an untracked / problematic entry of either endpoint, both endpoints and
the new ancestor record the same entry (kind, digest, executable bit, target). -/
theorem twoWay_converges (mode : Mode) (hm : mode = .twoWaySafe ∨ mode = .twoWayResolved)
    (A alpha beta : Option Entry)
    (hal : Valid alpha) (hbe : Valid beta) (hpα : onoPhantom alpha = true) (hpβ : onoPhantom beta = true)
    (A' α' β' : Option Entry)
    (hA : apply A ((Reconcile A alpha beta mode).anc ++
        ((Reconcile A alpha beta mode).alpha.map idealResult ++
          (Reconcile A alpha beta mode).beta.map idealResult)) = .ok A')
    (hα : apply alpha (Reconcile A alpha beta mode).alpha = .ok α')
    (hβ : apply beta (Reconcile A alpha beta mode).beta = .ok β') :
    ∀ q, (∀ c ∈ (Reconcile A alpha beta mode).conflicts, ¬ c.root <+: q) →
      NoUnsyncAlong α' q → NoUnsyncAlong β' q →
      pget α' q = pget A' q ∧ pget β' q = pget A' q := by
  obtain ⟨h1, h2, h3, h4⟩ := reconcile_fixpoint_root mode A alpha beta hal hbe hpα hpβ A' α' β' hA hα hβ
  intro q hq hnα hnβ
  refine quiet_converged mode hm [] A' α' β' h1 h2 h3 q ?_ hnα hnβ
  intro c₂ hc₂ hpre
  have : c₂.root ∈ (Reconcile A alpha beta mode).conflicts.map (·.root) :=
    (h4 c₂.root).mp (List.mem_map.mpr ⟨c₂, hc₂, rfl⟩)
  obtain ⟨c, hc, hroot⟩ := List.mem_map.mp this
  exact hq c hc (by rw [hroot]; simpa using hpre)

/-- **Exact application of a plan preserves endpoint validity** (every mode, any
ancestor): for valid phantom-free endpoint trees, the trees obtained by applying
the planned alpha (beta) changes exactly are again valid and phantom-free. -/
theorem plan_application_preserves_validity (mode : Mode) (A alpha beta : Option Entry)
    (hal : Valid alpha) (hbe : Valid beta) (hpα : onoPhantom alpha = true) (hpβ : onoPhantom beta = true) :
    (∀ α', apply alpha (Reconcile A alpha beta mode).alpha = .ok α' → Valid α' ∧ onoPhantom α' = true) ∧
    (∀ β', apply beta (Reconcile A alpha beta mode).beta = .ok β' → Valid β' ∧ onoPhantom β' = true) :=
  plan_application_valid mode A alpha beta hal hbe hpα hpβ

/-- In the form "the synchronizable entries coincide": at every such path the
entries of the synchronizable parts of both resulting endpoint trees equal the
new ancestor's entry. -/
theorem twoWay_converges_sync (mode : Mode) (hm : mode = .twoWaySafe ∨ mode = .twoWayResolved)
    (A alpha beta : Option Entry)
    (hal : Valid alpha) (hbe : Valid beta) (hpα : onoPhantom alpha = true) (hpβ : onoPhantom beta = true)
    (A' α' β' : Option Entry)
    (hA : apply A ((Reconcile A alpha beta mode).anc ++
        ((Reconcile A alpha beta mode).alpha.map idealResult ++
          (Reconcile A alpha beta mode).beta.map idealResult)) = .ok A')
    (hα : apply alpha (Reconcile A alpha beta mode).alpha = .ok α')
    (hβ : apply beta (Reconcile A alpha beta mode).beta = .ok β') :
    ∀ q, (∀ c ∈ (Reconcile A alpha beta mode).conflicts, ¬ c.root <+: q) →
      NoUnsyncAlong α' q → NoUnsyncAlong β' q →
      pget (osync α') q = pget A' q ∧ pget (osync β') q = pget A' q := by
  intro q hq hnα hnβ
  obtain ⟨e1, e2⟩ := twoWay_converges mode hm A alpha beta hal hbe hpα hpβ A' α' β' hA hα hβ q hq hnα hnβ
  have hv := plan_application_valid mode A alpha beta hal hbe hpα hpβ
  exact ⟨(pget_osync_of_noUnsync (hv.1 α' hα).1 hnα).trans e1, (pget_osync_of_noUnsync (hv.2 β' hβ).1 hnβ).trans e2⟩

/-- **The converged state is a fixpoint** (every mode): when both endpoints
hold exactly the last-synchronized, fully synchronizable tree, reconciliation
plans nothing — no endpoint change, no ancestor change, no conflict. -/
theorem converged_state_is_fixpoint_partial (mode : Mode) (t : Option Entry) (h : oallSync t = true) :
    Reconcile t t t mode = {} :=
  reconcile_synced mode [] t t t rfl rfl h

/-- **Applying a plan exactly is well defined**: the changes planned for one
endpoint have pairwise incomparable paths, so whenever `Apply` of the
endpoint's change list succeeds, the resulting tree holds, at every change's
path, exactly the planned new content — independent of the order in which
`Reconcile` (Go map iteration) emitted the changes. -/
theorem plan_application_faithful (mode : Mode) (A alpha beta : Option Entry) :
    (∀ α', apply alpha (Reconcile A alpha beta mode).alpha = .ok α' →
      ∀ c ∈ (Reconcile A alpha beta mode).alpha, SameTree (getPath α' c.path) c.new) ∧
    (∀ β', apply beta (Reconcile A alpha beta mode).beta = .ok β' →
      ∀ c ∈ (Reconcile A alpha beta mode).beta, SameTree (getPath β' c.path) c.new) := by
  have hinc := (reconcile_actions mode [] A alpha beta).2
  simp only [Plan.actionPaths, List.pairwise_append] at hinc
  constructor
  · intro α' h
    exact apply_faithful_last _ alpha α' h (List.pairwise_map.mp hinc.1.1)
  · intro β' h
    exact apply_faithful_last _ beta β' h (List.pairwise_map.mp hinc.1.2.1)

/-! Non-vacuity: valid phantom-free endpoint trees with unsynchronizable
content exist, and a plan with a change exists (`example_modification_propagates`),
so the fixpoint statement is about a non-trivial cycle. -/
example : Valid (some exampleTree1) ∧ onoPhantom (some exampleTree1) = true ∧
    Valid (some exampleTree2) ∧ onoPhantom (some exampleTree2) = true := by
  unfold Valid; decide
example : (Reconcile (some exampleFile1) (some exampleFile2) (some exampleFile1) .twoWaySafe).beta ≠ [] := by
  rw [example_modification_propagates]; simp

end Mutagen.Properties.C04
