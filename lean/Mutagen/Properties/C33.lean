import Mutagen.Model.Forward
/-!
# C33 — forwarded connections relay both directions exactly

Property theorems only (helper lemmas live in `Mutagen.Proofs.Forward`).
-/
namespace Mutagen.Properties.C33
open Mutagen.Model.Forward

/-- Whatever the script, `ForwardAndClose` returns (the harness cancels at the end). -/
theorem run_returned (es : List Event) : (Conn.run es).returned = true := by
  simp only [Conn.run, Conn.step]
  split <;> simp_all [Conn.finish]

end Mutagen.Properties.C33
